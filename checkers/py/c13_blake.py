#!/usr/bin/env python3
"""C13 offline checker: recompute every captured Salamander wire packet.

Independent of the Go code and of golang.org/x/crypto: only Python's hashlib (stdlib).
Written from PROTOCOL.md, section '"Salamander" Obfuscation':

    wire    = salt (8 bytes) || payload'
    hash    = BLAKE2b-256(key || salt)
    payload'[i] = payload[i] XOR hash[i % 32]

Input: one or more c13-wire-*.jsonl files (trailing args). Lines:
    {"src":"real"|"ref","case":"<case id>","key":"<hex>","plain":"<hex>","wire":"<hex>"}
    {"end":true,"count":N}                       trailer written when the harness part finished
src=real: wire produced by the code under test (a mismatch is a VIOLATION).
src=ref : wire produced by the harness' own Go reference implementation, which the harness uses
          for the reverse (interop) direction; a mismatch there is a harness error, so no result
          is written and the runner reports the check as broken.

Output: $VERIF_OUT/result-c13-blake.json in the format of the Go kit, replay files for violations.
"""
import hashlib
import json
import os
import sys
import time

NAME = "c13-blake"
PROP = "C13"
PER_KEY_CAP = 3


def keystream(key: bytes, salt: bytes, n: int) -> bytes:
    h = hashlib.blake2b(key + salt, digest_size=32).digest()
    return (h * ((n + 31) // 32))[:n]


def xor(a: bytes, b: bytes) -> bytes:
    n = len(a)
    if n == 0:
        return b""
    return (int.from_bytes(a, "big") ^ int.from_bytes(b, "big")).to_bytes(n, "big")


def spec_wire(key: bytes, salt: bytes, plain: bytes) -> bytes:
    return salt + xor(plain, keystream(key, salt, len(plain)))


def diagnose(key: bytes, plain: bytes, wire: bytes) -> str:
    """Wording only: name a few well-known deviations if one of them explains the packet."""
    salt, body = wire[:8], wire[8:]
    n = len(plain)
    if len(body) != n or n == 0:
        return ""
    cands = {
        "BLAKE2b-256(salt||key)": hashlib.blake2b(salt + key, digest_size=32).digest(),
        "BLAKE2b-512(key||salt) truncated to 32 bytes": hashlib.blake2b(key + salt, digest_size=64).digest()[:32],
        "BLAKE2b-256(key) without salt": hashlib.blake2b(key, digest_size=32).digest(),
        "SHA-256(key||salt)": hashlib.sha256(key + salt).digest(),
    }
    for name, h in cands.items():
        if xor(plain, (h * ((n + 31) // 32))[:n]) == body:
            return " (the packet matches %s instead)" % name
    h64 = hashlib.blake2b(key + salt, digest_size=64).digest()
    if xor(plain, (h64 * ((n + 63) // 64))[:n]) == body:
        return " (the packet matches a 64-byte BLAKE2b-512 keystream instead)"
    ks = xor(plain, body)
    if any(ks[i] != ks[i % 32] for i in range(n)):
        return " (the applied keystream does not repeat with period 32)"
    return ""


def short(b: bytes) -> str:
    h = b.hex()
    return h if len(b) <= 96 else "%s...(%d bytes)...%s" % (h[:96], len(b), h[-32:])


def main(argv):
    t0 = time.time()
    out = os.environ.get("VERIF_OUT", ".")
    tier = os.environ.get("VERIF_TIER", "quick")
    seed = int(os.environ.get("VERIF_SEED", "1") or "1")
    files = argv
    if not files:
        print("c13_blake: no wire files given: the harness logged nothing; not writing a result")
        return 3

    evaluations = 0
    n_real = n_ref = 0
    distinct = set()
    salts = set()
    key_lens = set()
    plain_lens_real = set()
    plain_lens_ref = set()
    samples = []
    violations = []
    per_key = {}
    counters = {}
    inconclusive = []

    def violation(vkey, detail, case):
        counters["violations_total"] = counters.get("violations_total", 0) + 1
        per_key[vkey] = per_key.get(vkey, 0) + 1
        if per_key[vkey] > PER_KEY_CAP:
            counters["more_of:" + vkey] = counters.get("more_of:" + vkey, 0) + 1
            return
        path = os.path.join(out, "replay-%s-%03d.json" % (NAME, len(violations)))
        with open(path, "w") as f:
            json.dump({"property": PROP, "harness": NAME, "seed": seed, "tier": tier, "key": vkey,
                       "detail": detail, "case": case}, f, indent=1)
        violations.append({"key": vkey, "detail": detail, "replay": path})
        print("VERIF-VIOLATION %s key=%s %s" % (PROP, vkey, detail))

    for path in files:
        count = 0
        trailer = None
        with open(path, "rb") as f:
            for lineno, line in enumerate(f, 1):
                line = line.strip()
                if not line:
                    continue
                try:
                    rec = json.loads(line)
                except ValueError as e:
                    print("c13_blake: %s:%d unreadable line (%s): truncated log, not writing a result" % (path, lineno, e))
                    return 3
                if rec.get("end"):
                    trailer = rec
                    continue
                count += 1
                key = bytes.fromhex(rec["key"])
                plain = bytes.fromhex(rec["plain"])
                wire = bytes.fromhex(rec["wire"])
                src = rec["src"]
                case = {"case_id": rec.get("case"), "file": path, "line": lineno, "src": src,
                        "key": rec["key"], "plain": rec["plain"], "wire": rec["wire"]}
                evaluations += 1
                ok = True
                if len(wire) != len(plain) + 8:
                    ok = False
                    if src == "ref":
                        print("c13_blake: %s:%d harness reference produced a %d-byte wire packet for a %d-byte payload"
                              % (path, lineno, len(wire), len(plain)))
                        return 3
                    violation("salamander:wire-length",
                              "wire packet of %d bytes for a %d-byte payload (want %d = 8 salt bytes + payload); %s:%d"
                              % (len(wire), len(plain), len(plain) + 8, os.path.basename(path), lineno), case)
                else:
                    salt = wire[:8]
                    want = spec_wire(key, salt, plain)
                    if want != wire:
                        ok = False
                        if src == "ref":
                            print("c13_blake: %s:%d the harness' Go reference disagrees with hashlib.blake2b: harness error"
                                  % (path, lineno))
                            return 3
                        firstdiff = next(i for i in range(len(wire)) if wire[i] != want[i])
                        case["expected_wire"] = want.hex()
                        violation("salamander:wire-not-blake2b256-key-salt",
                                  "wire != salt || payload XOR BLAKE2b-256(key||salt): key %d bytes, payload %d bytes, salt %s, "
                                  "first differing wire byte at offset %d%s; %s:%d"
                                  % (len(key), len(plain), salt.hex(), firstdiff, diagnose(key, plain, wire),
                                     os.path.basename(path), lineno), case)
                    salts.add(salt)
                    if len(plain) >= 1:
                        distinct.add((key, salt, len(plain), src))
                if src == "real":
                    n_real += 1
                    plain_lens_real.add(len(plain))
                else:
                    n_ref += 1
                    plain_lens_ref.add(len(plain))
                key_lens.add(len(key))
                if ok and len(samples) < 4 and len(plain) <= 24 and src == "real":
                    samples.append({"src": src, "case": rec.get("case"), "key": rec["key"], "plain": rec["plain"],
                                    "wire": rec["wire"], "blake2b256_key_salt": keystream(key, wire[:8], 32).hex()})
        if trailer is None or int(trailer.get("count", -1)) != count:
            print("c13_blake: %s has %d packets but trailer %r: the harness part did not finish writing; not writing a result"
                  % (path, count, trailer))
            return 3
        counters["packets:" + os.path.basename(path)] = count

    if evaluations == 0:
        print("c13_blake: the wire files hold no packet; not writing a result")
        return 3

    missing_lens = [n for n in range(1, 2041) if n not in plain_lens_real]
    missing_keys = [n for n in range(4, 65) if n not in key_lens]
    if missing_lens:
        inconclusive.append("payload lengths not seen from the real obfuscator: %d of 2040 (e.g. %s)"
                            % (len(missing_lens), missing_lens[:5]))
    if missing_keys:
        inconclusive.append("key lengths not seen: %s" % missing_keys[:10])

    counters.update({
        "ev_packets_recomputed": evaluations,
        "packets_from_real_obfuscator": n_real,
        "packets_from_harness_reference": n_ref,
        "distinct_salts": len(salts),
        "key_lengths_seen": len(key_lens),
        "payload_lengths_seen_real": len(plain_lens_real),
        "payload_lengths_seen_ref": len(plain_lens_ref),
        "inconclusive_cases": len(inconclusive),
    })
    res = {
        "property": PROP, "harness": NAME, "tier": tier, "seed": seed,
        "evaluations": evaluations, "distinct_nontrivial": len(distinct),
        "samples": samples, "counters": counters, "violations": violations,
        "inconclusive": inconclusive, "wall_s": time.time() - t0, "complete": True,
    }
    tmp = os.path.join(out, "result-%s.json.tmp" % NAME)
    with open(tmp, "w") as f:
        json.dump(res, f, indent=1)
    os.replace(tmp, os.path.join(out, "result-%s.json" % NAME))
    print("c13_blake: %d packets recomputed (%d real, %d reference), %d violations, %.1fs"
          % (evaluations, n_real, n_ref, counters.get("violations_total", 0), time.time() - t0))
    return 0


if __name__ == "__main__":
    sys.exit(main(sys.argv[1:]))
