// selftest: proves the porcupine dependency builds offline and decides a trivial history.
package main

import (
	"fmt"
	"os"

	"github.com/anishathalye/porcupine"
)

func main() {
	model := porcupine.Model{
		Init: func() any { return 0 },
		Step: func(st, in, out any) (bool, any) {
			if in.(int) >= 0 {
				return true, in.(int)
			}
			return out.(int) == st.(int), st
		},
	}
	ops := []porcupine.Operation{
		{ClientId: 0, Input: 5, Call: 0, Output: 0, Return: 10},
		{ClientId: 1, Input: -1, Call: 11, Output: 5, Return: 12},
	}
	if !porcupine.CheckOperations(model, ops) {
		fmt.Println("selftest: unexpected illegal")
		os.Exit(1)
	}
	ops[1].Output = 4
	if porcupine.CheckOperations(model, ops) {
		fmt.Println("selftest: unexpected ok")
		os.Exit(1)
	}
	fmt.Println("porcupine selftest ok")
}
