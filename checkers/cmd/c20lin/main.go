// c20lin: offline linearizability check for property C20 (hole-punch demux).
//
// Input: JSONL history files written by the harness part "demux-conc"
// (harness/extras/realm/c20_conc_test.go), one record per operation:
//
//	{"world":"conc-3","attempt":"w3-a1","client":101,"op":"add|remove|read","val":bool,"call":N,"ret":M,"pkt":seq}
//
// call/ret are stamps of one monotonic logical counter. The registry entry of one
// punch attempt is modelled as a boolean register: add writes true, remove writes
// false, and the fate of a valid punch packet of that attempt is a read ("diverted" =
// true, "handed to the reader" = false). Histories are partitioned by (world, attempt)
// and each partition is checked with porcupine under a 2-minute cap; a partition
// porcupine cannot decide in time is INCONCLUSIVE, never a violation.
//
// Output: $VERIF_OUT/result-c20-lin.json in the harness kit's result format; one
// replay file per illegal partition with the whole partition history and the
// "obviously stale" reads singled out.
package main

import (
	"bufio"
	"encoding/json"
	"fmt"
	"os"
	"path/filepath"
	"sort"
	"strconv"
	"time"

	"github.com/anishathalye/porcupine"
)

type rec struct {
	World   string `json:"world"`
	Attempt string `json:"attempt"`
	Client  int    `json:"client"`
	Op      string `json:"op"`
	Val     bool   `json:"val"`
	Call    int64  `json:"call"`
	Ret     int64  `json:"ret"`
	Pkt     int    `json:"pkt,omitempty"`
	Multi   bool   `json:"multi_writer,omitempty"`
}

type input struct {
	op  string
	pkt int
}

var model = porcupine.Model{
	Init: func() interface{} { return false },
	Step: func(state, in, out interface{}) (bool, interface{}) {
		i := in.(input)
		switch i.op {
		case "add":
			return true, true
		case "remove":
			return true, false
		default: // read
			return out.(bool) == state.(bool), state
		}
	},
	Equal: func(a, b interface{}) bool { return a.(bool) == b.(bool) },
	DescribeOperation: func(in, out interface{}) string {
		i := in.(input)
		if i.op == "read" {
			return fmt.Sprintf("pkt#%d -> diverted=%v", i.pkt, out.(bool))
		}
		return i.op
	},
}

type violation struct {
	Key    string `json:"key"`
	Detail string `json:"detail"`
	Replay string `json:"replay"`
}

func env(name, def string) string {
	if v := os.Getenv(name); v != "" {
		return v
	}
	return def
}

// staleReads lists reads that no write overlaps and whose value differs from the value
// of every "latest" write completed before them (a write is latest if no other write
// was called after it returned and returned before the read was called).
func staleReads(ops []rec) []rec {
	var ws, out []rec
	for _, o := range ops {
		if o.Op != "read" {
			ws = append(ws, o)
		}
	}
	for _, r := range ops {
		if r.Op != "read" {
			continue
		}
		overl := false
		var before []rec
		for _, w := range ws {
			if w.Call < r.Ret && w.Ret > r.Call {
				overl = true
				break
			}
			if w.Ret < r.Call {
				before = append(before, w)
			}
		}
		if overl {
			continue
		}
		vals := map[bool]bool{}
		if len(before) == 0 {
			vals[false] = true
		}
		for _, w := range before {
			latest := true
			for _, x := range before {
				if x.Call > w.Ret {
					latest = false
					break
				}
			}
			if latest {
				vals[w.Val] = true
			}
		}
		if !vals[r.Val] {
			out = append(out, r)
		}
	}
	return out
}

func main() {
	outDir := env("VERIF_OUT", os.TempDir())
	seed, _ := strconv.ParseInt(env("VERIF_SEED", "1"), 10, 64)
	tier := env("VERIF_TIER", "quick")
	capPer := 2 * time.Minute
	if v := os.Getenv("C20LIN_CAP_MS"); v != "" { // for testing the inconclusive path
		ms, _ := strconv.Atoi(v)
		capPer = time.Duration(ms) * time.Millisecond
	}
	start := time.Now()
	_ = os.MkdirAll(outDir, 0o755)

	type pkey struct{ file, world, attempt string }
	parts := map[pkey][]rec{}
	var order []pkey
	nRecs := 0
	for _, path := range os.Args[1:] {
		f, err := os.Open(path)
		if err != nil {
			fmt.Fprintf(os.Stderr, "c20lin: %v\n", err)
			os.Exit(3)
		}
		sc := bufio.NewScanner(f)
		sc.Buffer(make([]byte, 1<<20), 1<<24)
		ln := 0
		for sc.Scan() {
			ln++
			if len(sc.Bytes()) == 0 {
				continue
			}
			var r rec
			if err := json.Unmarshal(sc.Bytes(), &r); err != nil {
				fmt.Fprintf(os.Stderr, "c20lin: %s:%d: %v\n", path, ln, err)
				os.Exit(3)
			}
			if r.Call <= 0 || r.Ret <= r.Call || (r.Op != "add" && r.Op != "remove" && r.Op != "read") {
				fmt.Fprintf(os.Stderr, "c20lin: %s:%d: malformed record %+v\n", path, ln, r)
				os.Exit(3)
			}
			k := pkey{path, r.World, r.Attempt}
			if _, ok := parts[k]; !ok {
				order = append(order, k)
			}
			parts[k] = append(parts[k], r)
			nRecs++
		}
		f.Close()
	}

	counters := map[string]int64{}
	var violations []violation
	var inconclusive []string
	var samples []interface{}
	distinct := 0
	evals := 0
	for _, k := range order {
		ops := parts[k]
		sort.Slice(ops, func(i, j int) bool { return ops[i].Call < ops[j].Call })
		// well-formedness: operations of one client never overlap
		lastRet := map[int]int64{}
		for _, o := range ops {
			if o.Call < lastRet[o.Client] {
				fmt.Fprintf(os.Stderr, "c20lin: %s/%s: client %d has overlapping operations\n", k.world, k.attempt, o.Client)
				os.Exit(3)
			}
			lastRet[o.Client] = o.Ret
		}
		var pops []porcupine.Operation
		var nW, nRT, nRF, nOverlap int
		for _, o := range ops {
			var out interface{}
			if o.Op == "read" {
				out = o.Val
				if o.Val {
					nRT++
				} else {
					nRF++
				}
				for _, w := range ops {
					if w.Op != "read" && w.Call < o.Ret && w.Ret > o.Call {
						nOverlap++
						break
					}
				}
			} else {
				nW++
			}
			pops = append(pops, porcupine.Operation{ClientId: o.Client, Input: input{o.Op, o.Pkt}, Call: o.Call, Output: out, Return: o.Ret})
		}
		evals++
		counters["ev_lin_ops"] += int64(len(ops))
		counters["ev_lin_partitions"]++
		counters["lin_writes"] += int64(nW)
		counters["lin_reads_diverted"] += int64(nRT)
		counters["lin_reads_passed"] += int64(nRF)
		counters["lin_reads_overlapping_a_write"] += int64(nOverlap)
		if nW >= 2 && nRT > 0 && nRF > 0 {
			distinct++
		}
		res := porcupine.CheckOperationsTimeout(model, pops, capPer)
		switch res {
		case porcupine.Ok:
			counters["lin_ok"]++
		case porcupine.Unknown:
			counters["inconclusive_cases"]++
			inconclusive = append(inconclusive, fmt.Sprintf("%s/%s: porcupine did not finish within %s (%d ops)", k.world, k.attempt, capPer, len(ops)))
		case porcupine.Illegal:
			counters["lin_illegal"]++
			stale := staleReads(ops)
			detail := fmt.Sprintf("attempt %s in %s: history of %d writes and %d reads (%d diverted, %d passed) is not linearizable as a membership register",
				k.attempt, k.world, nW, nRT+nRF, nRT, nRF)
			key := "c20lin:not-linearizable"
			if len(stale) > 0 {
				s := stale[0]
				what := "was handed to the reader although the attempt had been added and not removed"
				if s.Val {
					what = "was diverted although RemovePunchAttempt had returned before the read started and no AddPunchAttempt was in flight"
					key = "c20lin:divert-after-remove"
				}
				detail += fmt.Sprintf("; e.g. packet #%d (read [%d,%d] by client %d, no write overlaps it) %s", s.Pkt, s.Call, s.Ret, s.Client, what)
			}
			path := filepath.Join(outDir, fmt.Sprintf("replay-c20-lin-%03d.json", len(violations)))
			doc := map[string]interface{}{
				"property": "C20", "harness": "demux-conc", "seed": seed, "tier": tier, "key": key, "detail": detail,
				"case": map[string]interface{}{"case_id": k.world, "attempt": k.attempt, "history_file": k.file,
					"stale_reads": stale, "history": ops},
			}
			b, _ := json.MarshalIndent(doc, "", " ")
			_ = os.WriteFile(path, b, 0o644)
			if len(violations) < 40 {
				violations = append(violations, violation{Key: key, Detail: detail, Replay: path})
			}
		}
		if len(samples) < 3 && nW >= 2 && nRT > 0 && nRF > 0 {
			head := ops
			if len(head) > 12 {
				head = head[:12]
			}
			samples = append(samples, map[string]interface{}{"world": k.world, "attempt": k.attempt, "ops": len(ops), "writes": nW,
				"reads_diverted": nRT, "reads_passed": nRF, "reads_overlapping_a_write": nOverlap, "verdict": string(res), "history_head": head})
		}
	}
	if violations == nil {
		violations = []violation{}
	}
	if inconclusive == nil {
		inconclusive = []string{}
	}
	result := map[string]interface{}{
		"property": "C20", "harness": "c20-lin", "tier": tier, "seed": seed,
		"evaluations": evals, "distinct_nontrivial": distinct, "samples": samples, "counters": counters,
		"violations": violations, "inconclusive": inconclusive, "wall_s": time.Since(start).Seconds(), "complete": true,
	}
	b, err := json.MarshalIndent(result, "", " ")
	if err != nil {
		fmt.Fprintf(os.Stderr, "c20lin: %v\n", err)
		os.Exit(3)
	}
	tmp := filepath.Join(outDir, "result-c20-lin.json.tmp")
	if err := os.WriteFile(tmp, b, 0o644); err != nil {
		fmt.Fprintf(os.Stderr, "c20lin: %v\n", err)
		os.Exit(3)
	}
	if err := os.Rename(tmp, filepath.Join(outDir, "result-c20-lin.json")); err != nil {
		fmt.Fprintf(os.Stderr, "c20lin: %v\n", err)
		os.Exit(3)
	}
	fmt.Printf("c20lin: %d records, %d partitions, %d illegal, %d inconclusive, %.2fs\n",
		nRecs, evals, counters["lin_illegal"], counters["inconclusive_cases"], time.Since(start).Seconds())
}
