// c15lin: offline linearizability checker for property C15 (traffic stats API).
//
// Input: JSONL files (trailing args) written by harness part c15-linhist, one history per line:
//
//	{"id":"hist-7","seed":1,"users":["u1","u2"],"ops":[{"c":3,"k":"log","u":"u1","tx":5,"rx":0,"ok":true,"call":17,"ret":19}, ...]}
//
// op kinds: log(u,tx,rx)->ok | snap(clear)->{user:{tx,rx}} | kick(users) | onl(u,on) | online()->{user:n}.
// Every history is checked with porcupine against the sequential model below, PARTITIONED BY USER:
// a snapshot / online listing / kick over several users is split into one operation per user with the
// same call/return stamps. That is sound: if the whole history is linearizable then so is every
// per-user projection, hence an illegal projection is a real violation. (It is not complete: a
// snapshot that is not atomic ACROSS users is not seen; the property is stated per user.)
//
// Sequential model of one user (written from the statement / the documented API, not from http.go):
//
//	state: tx, rx counters; kicked flag; online count
//	log(tx,rx):   kicked  -> must return false, clears the flag, counts nothing
//	              !kicked -> must return true, tx+=tx, rx+=rx
//	snap(clear):  must return exactly (tx,rx) [absent == (0,0)]; clear resets both to 0
//	kick:         sets the flag (a set: kicking twice before the next report refuses one report)
//	onl(on):      online += 1 / -= 1; NEVER touches the kick flag: the kick belongs to the user's next
//	              report, however many of the user's connections come and go in between (also 1 -> 0 -> 1,
//	              and a kick issued while the user is not online at all)
//	online():     must return exactly online [absent == 0]
//
// 2-minute cap per history; a timeout is "Unknown" = inconclusive, never a violation.
// Output: $VERIF_OUT/result-c15-lin.json in the same shape as the Go kit's result files.
package main

import (
	"bufio"
	"encoding/json"
	"fmt"
	"os"
	"path/filepath"
	"runtime"
	"sort"
	"strconv"
	"sync"
	"time"

	"github.com/anishathalye/porcupine"
)

type tr struct {
	Tx uint64 `json:"tx"`
	Rx uint64 `json:"rx"`
}

type op struct {
	Client int              `json:"c"`
	Kind   string           `json:"k"`
	User   string           `json:"u,omitempty"`
	Tx     uint64           `json:"tx,omitempty"`
	Rx     uint64           `json:"rx,omitempty"`
	Ok     bool             `json:"ok,omitempty"`
	Clear  bool             `json:"clear,omitempty"`
	On     bool             `json:"on,omitempty"`
	Users  []string         `json:"users,omitempty"`
	Snap   map[string]tr    `json:"snap,omitempty"`
	Online map[string]int64 `json:"online,omitempty"`
	Call   int64            `json:"call"`
	Ret    int64            `json:"ret"`
}

type history struct {
	ID    string   `json:"id"`
	Seed  int64    `json:"seed"`
	Users []string `json:"users"`
	Ops   []op     `json:"ops"`
}

// ---- sequential model (per user)

type input struct {
	Kind   string // log snap kick onl online
	User   string
	Tx, Rx uint64
	Clear  bool
	On     bool
}

type output struct {
	Ok     bool
	Tx, Rx uint64
	N      int64
}

type state struct {
	Tx, Rx uint64
	Kicked bool
	Online int64
}

func step(s state, in input, out output) (bool, state) {
	switch in.Kind {
	case "log":
		if s.Kicked {
			s.Kicked = false
			return !out.Ok, s
		}
		s.Tx += in.Tx
		s.Rx += in.Rx
		return out.Ok, s
	case "snap":
		ok := out.Tx == s.Tx && out.Rx == s.Rx
		if in.Clear {
			s.Tx, s.Rx = 0, 0
		}
		return ok, s
	case "kick":
		s.Kicked = true
		return true, s
	case "onl":
		if in.On {
			s.Online++
		} else {
			s.Online--
		}
		return true, s
	case "online":
		return out.N == s.Online, s
	}
	return false, s
}

var model = porcupine.Model{
	Partition: func(h []porcupine.Operation) [][]porcupine.Operation {
		by := map[string][]porcupine.Operation{}
		var order []string
		for _, o := range h {
			u := o.Input.(input).User
			if _, ok := by[u]; !ok {
				order = append(order, u)
			}
			by[u] = append(by[u], o)
		}
		out := make([][]porcupine.Operation, 0, len(order))
		for _, u := range order {
			out = append(out, by[u])
		}
		return out
	},
	Init: func() interface{} { return state{} },
	Step: func(st, in, out interface{}) (bool, interface{}) {
		ok, ns := step(st.(state), in.(input), out.(output))
		return ok, ns
	},
	Hash: func(st interface{}) uint64 {
		s := st.(state)
		h := s.Tx*0x9E3779B97F4A7C15 ^ s.Rx*0xC2B2AE3D27D4EB4F ^ uint64(s.Online)*0x165667B19E3779F9
		if s.Kicked {
			h ^= 0xD6E8FEB86659FD93
		}
		return h
	},
	DescribeOperation: func(in, out interface{}) string {
		return fmt.Sprintf("%+v -> %+v", in, out)
	},
}

// split turns a recorded history into per-user porcupine operations.
func split(h history) []porcupine.Operation {
	var ops []porcupine.Operation
	add := func(o op, in input, out output) {
		ops = append(ops, porcupine.Operation{ClientId: o.Client, Input: in, Output: out, Call: o.Call, Return: o.Ret})
	}
	for _, o := range h.Ops {
		switch o.Kind {
		case "log":
			add(o, input{Kind: "log", User: o.User, Tx: o.Tx, Rx: o.Rx}, output{Ok: o.Ok})
		case "onl":
			add(o, input{Kind: "onl", User: o.User, On: o.On}, output{})
		case "kick":
			seen := map[string]bool{}
			for _, u := range o.Users {
				if !seen[u] {
					seen[u] = true
					add(o, input{Kind: "kick", User: u}, output{})
				}
			}
		case "snap":
			seen := map[string]bool{}
			for _, u := range h.Users {
				seen[u] = true
				e := o.Snap[u]
				add(o, input{Kind: "snap", User: u, Clear: o.Clear}, output{Tx: e.Tx, Rx: e.Rx})
			}
			for u, e := range o.Snap { // a user nobody ever reported for: its own partition, must read 0/0
				if !seen[u] {
					add(o, input{Kind: "snap", User: u, Clear: o.Clear}, output{Tx: e.Tx, Rx: e.Rx})
				}
			}
		case "online":
			seen := map[string]bool{}
			for _, u := range h.Users {
				seen[u] = true
				add(o, input{Kind: "online", User: u}, output{N: o.Online[u]})
			}
			for u, n := range o.Online {
				if !seen[u] {
					add(o, input{Kind: "online", User: u}, output{N: n})
				}
			}
		}
	}
	return ops
}

type verdict struct {
	h         history
	res       porcupine.CheckResult
	badUsers  []string
	splitOps  int
	concPairs int // pairs of per-user operations with intersecting intervals, at least one of them a mutator
	wall      time.Duration
}

func isMutator(in input) bool {
	return in.Kind == "log" || in.Kind == "kick" || in.Kind == "onl" || (in.Kind == "snap" && in.Clear)
}

func check(h history, cap time.Duration) verdict {
	t0 := time.Now()
	ops := split(h)
	v := verdict{h: h, splitOps: len(ops)}
	for _, part := range model.Partition(ops) {
		for i := range part {
			for j := i + 1; j < len(part); j++ {
				a, b := part[i], part[j]
				if a.Call <= b.Return && b.Call <= a.Return && (isMutator(a.Input.(input)) || isMutator(b.Input.(input))) {
					v.concPairs++
				}
			}
		}
	}
	v.res = porcupine.CheckOperationsTimeout(model, ops, cap)
	if v.res == porcupine.Illegal {
		single := model
		single.Partition = nil
		for _, part := range model.Partition(ops) {
			if porcupine.CheckOperationsTimeout(single, part, cap) == porcupine.Illegal {
				v.badUsers = append(v.badUsers, part[0].Input.(input).User)
			}
		}
	}
	v.wall = time.Since(t0)
	return v
}

func main() {
	out := os.Getenv("VERIF_OUT")
	if out == "" {
		out = "."
	}
	seed, _ := strconv.ParseInt(os.Getenv("VERIF_SEED"), 10, 64)
	tier := os.Getenv("VERIF_TIER")
	if tier == "" {
		tier = "quick"
	}
	capPer := 2 * time.Minute
	if s := os.Getenv("C15LIN_CAP"); s != "" { // for testing the checker itself
		if d, err := time.ParseDuration(s); err == nil {
			capPer = d
		}
	}
	t0 := time.Now()
	var hs []history
	for _, path := range os.Args[1:] {
		f, err := os.Open(path)
		if err != nil {
			fmt.Println("c15lin: cannot open", path, err)
			os.Exit(2)
		}
		sc := bufio.NewScanner(f)
		sc.Buffer(make([]byte, 1<<20), 1<<28)
		for sc.Scan() {
			if len(sc.Bytes()) == 0 {
				continue
			}
			var h history
			if err := json.Unmarshal(sc.Bytes(), &h); err != nil {
				fmt.Println("c15lin: bad history line in", path, err)
				os.Exit(2)
			}
			hs = append(hs, h)
		}
		f.Close()
	}
	if len(hs) == 0 && len(os.Args) > 1 {
		// history files without histories: no result file, so the runner reports a broken
		// (inconclusive) check, not a pass
		fmt.Println("c15lin: no histories in the given files")
		os.Exit(2)
	}
	// (no files at all = the recording job did not run, e.g. --replay of a census case; a recording
	// job that ran and wrote nothing is reported as broken by the runner itself)

	verdicts := make([]verdict, len(hs))
	var wg sync.WaitGroup
	jobs := make(chan int)
	for w := 0; w < runtime.NumCPU(); w++ {
		wg.Add(1)
		go func() {
			defer wg.Done()
			for i := range jobs {
				verdicts[i] = check(hs[i], capPer)
			}
		}()
	}
	for i := range hs {
		jobs <- i
	}
	close(jobs)
	wg.Wait()

	counters := map[string]int64{"histories": int64(len(hs))}
	var violations []map[string]string
	var inconcl []string
	var samples []any
	distinct := 0
	var slowest time.Duration
	for _, v := range verdicts {
		counters["ops_recorded"] += int64(len(v.h.Ops))
		counters["ev_ops_checked"] += int64(v.splitOps)
		counters["concurrent_pairs_same_user"] += int64(v.concPairs)
		if v.concPairs > 0 {
			distinct++
		}
		if v.wall > slowest {
			slowest = v.wall
		}
		switch v.res {
		case porcupine.Ok:
			counters["ev_histories_linearizable"]++
		case porcupine.Unknown:
			counters["unknown"]++
			counters["inconclusive_cases"]++
			if len(inconcl) < 50 {
				inconcl = append(inconcl, fmt.Sprintf("history %s: porcupine gave no answer within %s", v.h.ID, capPer))
			}
		case porcupine.Illegal:
			counters["illegal"]++
			counters["violations_total"]++
			if len(violations) >= 40 {
				continue
			}
			// witness: the operations of the first offending user, in call order
			bad := map[string]bool{}
			for _, u := range v.badUsers {
				bad[u] = true
			}
			var wit []op
			for _, o := range v.h.Ops {
				keep := bad[o.User]
				for _, u := range o.Users {
					keep = keep || bad[u]
				}
				if o.Kind == "snap" || o.Kind == "online" {
					keep = true
				}
				if keep {
					wit = append(wit, o)
				}
			}
			sort.SliceStable(wit, func(a, b int) bool { return wit[a].Call < wit[b].Call })
			path := filepath.Join(out, fmt.Sprintf("replay-c15-lin-%03d.json", len(violations)))
			detail := fmt.Sprintf("history %s (%d ops, users %v) is not linearizable w.r.t. the per-user model for user(s) %v", v.h.ID, len(v.h.Ops), v.h.Users, v.badUsers)
			doc := map[string]any{
				"property": "C15", "harness": "c15-lin", "seed": seed, "tier": tier,
				"key": "trafficlogger:history-not-linearizable", "detail": detail,
				"case": map[string]any{"case_id": v.h.ID, "users_illegal": v.badUsers, "witness_ops": wit, "history": v.h},
			}
			b, _ := json.MarshalIndent(doc, "", " ")
			_ = os.WriteFile(path, b, 0o644)
			violations = append(violations, map[string]string{"key": "trafficlogger:history-not-linearizable", "detail": detail, "replay": path})
			fmt.Println("VERIF-VIOLATION C15", detail)
		}
	}
	if len(verdicts) > 0 {
		v := verdicts[0]
		samples = append(samples, map[string]any{"history": v.h.ID, "ops": len(v.h.Ops), "per_user_ops": v.splitOps,
			"concurrent_pairs_same_user": v.concPairs, "result": string(v.res)})
	}
	counters["slowest_history_ms"] = slowest.Milliseconds()
	if violations == nil {
		violations = []map[string]string{}
	}
	if inconcl == nil {
		inconcl = []string{}
	}
	res := map[string]any{
		"property": "C15", "harness": "c15-lin", "tier": tier, "seed": seed,
		"evaluations": len(hs), "distinct_nontrivial": distinct, "samples": samples, "counters": counters,
		"violations": violations, "inconclusive": inconcl, "wall_s": time.Since(t0).Seconds(), "complete": true,
	}
	b, _ := json.MarshalIndent(res, "", " ")
	tmp := filepath.Join(out, "result-c15-lin.json.tmp")
	if err := os.WriteFile(tmp, b, 0o644); err != nil {
		fmt.Println("c15lin:", err)
		os.Exit(2)
	}
	if err := os.Rename(tmp, filepath.Join(out, "result-c15-lin.json")); err != nil {
		fmt.Println("c15lin:", err)
		os.Exit(2)
	}
	fmt.Printf("c15lin: histories=%d ops=%d illegal=%d unknown=%d wall=%.1fs\n", len(hs), counters["ev_ops_checked"], counters["illegal"], counters["unknown"], time.Since(t0).Seconds())
}
