//go:build verif

package socks5

// C18 part "socks5-history": one Server lives through a sequence of connections; after a
// connection was accepted with (user, pass), later connections present near-misses the
// AuthFunc never accepted: password/user with changed letter case, password prefix / suffix /
// extension, another user with the same password, the user|pass boundary shifted by one byte
// (same concatenation, other ULEN/PLEN), a NUL or blank appended, user and password swapped;
// plus verbatim replays (positive control) and a replay after revocation (not judged).
// Connections are run one after the other and bracketed by conn_start markers, so UDP
// sessions are attributable too. Oracle (unchanged): dial / udp_open of connection j =>
// an earlier auth_ok event for exactly the (user, pass) connection j presented.

import (
	"fmt"
	"math/rand"
	"strings"
	"testing"
	"unicode"
)

type vfC18SHConn struct {
	ID       int    `json:"id"`
	Variant  string `json:"variant"`
	Cmd      byte   `json:"cmd"`
	Target   string `json:"dial_target"`
	User     string `json:"presented_user"`
	Pass     string `json:"presented_pass"`
	Judged   bool   `json:"judged"`
	Revoke   string `json:"revoke_user_before,omitempty"`
	StreamHx string `json:"stream_hex"`
	startSeq int
	endSeq   int
}

func vfC18SwapCase(s string) string {
	b := []rune(s)
	for i, c := range b {
		switch {
		case unicode.IsLower(c):
			b[i] = unicode.ToUpper(c)
		case unicode.IsUpper(c):
			b[i] = unicode.ToLower(c)
		}
	}
	return string(b)
}

func vfC18SocksNearMisses(r *rand.Rand, user, pass string) [][3]string {
	one := []rune(pass)
	for tries := 0; tries < 50; tries++ {
		i := r.Intn(len(one))
		if unicode.IsLetter(one[i]) {
			one[i] = []rune(vfC18SwapCase(string(one[i])))[0]
			break
		}
	}
	out := [][3]string{
		{"pass-case-all", user, vfC18SwapCase(pass)},
		{"pass-case-one", user, string(one)},
		{"user-case", vfC18SwapCase(user), pass},
		{"pass-prefix", user, pass[:len(pass)-1]},
		{"pass-suffix", user, pass[1:]},
		{"pass-extended", user, pass + "x"},
		{"pass-nul-appended", user, pass + "\x00"},
		{"user-blank-appended", user + " ", pass},
		{"other-user-same-pass", user + "2", pass},
		{"user-prefix", user[:len(user)-1], pass},
		{"boundary-shift-left", user[:len(user)-1], user[len(user)-1:] + pass},
		{"boundary-shift-right", user + pass[:1], pass[1:]},
		{"swapped", pass, user},
	}
	var keep [][3]string
	for _, o := range out {
		if (o[1] != user || o[2] != pass) && o[1] != "" && o[2] != "" {
			keep = append(keep, o)
		}
	}
	return keep
}

func TestVerifC18SocksHistory(t *testing.T) {
	k := vfNewKit(t, "C18", "socks5-history")
	defer k.Finish()
	n := k.N(400, 8000)
	id := 0
	for i := 0; i < n; i++ {
		caseID := fmt.Sprintf("sh-%d", i)
		r := k.Rand(caseID)
		var seq []*vfC18SHConn
		type cred struct{ user, pass string }
		var bases []cred
		for b := 0; b < 1+r.Intn(3); b++ {
			bases = append(bases, cred{fmt.Sprintf("user%d%c", i, 'a'+b), fmt.Sprintf("pa%dSs%xW%c", i, r.Uint32(), 'a'+b)})
		}
		add := func(variant, user, pass string, judged bool, revoke string) {
			id++
			c := &vfC18SHConn{ID: id, Variant: variant, User: user, Pass: pass, Judged: judged, Revoke: revoke, Cmd: 1}
			if r.Intn(4) == 0 {
				c.Cmd = 3
			}
			seq = append(seq, c)
		}
		for _, b := range bases {
			add("accepted", b.user, b.pass, true, "")
			near := vfC18SocksNearMisses(r, b.user, b.pass)
			r.Shuffle(len(near), func(a, c int) { near[a], near[c] = near[c], near[a] })
			take := 4 + r.Intn(6)
			for j, nm := range near {
				if j >= take {
					break
				}
				add(nm[0], nm[1], nm[2], true, "")
				if r.Intn(4) == 0 {
					add("replay-accepted", b.user, b.pass, true, "")
				}
			}
		}
		rb := bases[r.Intn(len(bases))]
		add("replay-after-revocation", rb.user, rb.pass, false, rb.user)
		for _, nm := range vfC18SocksNearMisses(r, rb.user, rb.pass)[:3] {
			add(nm[0]+"-after-revocation", nm[1], nm[2], true, "")
		}
		if rc := k.ReplayCase(); rc != "" && rc != caseID {
			continue
		}
		k.Eval()
		log := &vfLog{}
		auth := vfC18NewAuth(log)
		for _, b := range bases {
			auth.Allow(b.user, b.pass)
		}
		hy := &vfC18HyClient{log: log}
		hy.reply = func(addr string) ([]byte, bool) { return []byte("reply:" + addr), false }
		s := &Server{HyClient: hy, AuthFunc: auth.Func}
		byTarget := map[string]*vfC18SHConn{}
		for _, c := range seq {
			atyp := []byte{3, 1, 4}[r.Intn(3)]
			host, port, dial := vfC18SocksTarget(c.ID, atyp)
			c.Target = dial
			byTarget[dial] = c
			if c.Revoke != "" {
				auth.Revoke(c.Revoke)
				log.Add("revoked", c.Revoke, 0, nil)
			}
			stream := append(vfC18Greeting([]byte{2}), vfC18UserPass(1, c.User, c.Pass)...)
			hdr := len(stream) + len(vfC18Request(c.Cmd, atyp, host, port))
			stream = append(stream, vfC18Request(c.Cmd, atyp, host, port)...)
			stream = append(stream, vfC18Payload(uint32(c.ID), 24)...)
			c.StreamHx = vfHex(stream)
			c.startSeq = log.Add("conn_start", fmt.Sprint(c.ID), 0, map[string]any{"variant": c.Variant})
			s.dispatch(vfC18NewScript(fmt.Sprint(20000+c.ID), stream, vfC18Chunking(r, r.Intn(6), len(stream), hdr)))
			hy.CloseAll()
			c.endSeq = log.Add("conn_end", fmt.Sprint(c.ID), 0, nil)
			k.Count("conns_"+strings.TrimSuffix(c.Variant, "-after-revocation"), 1)
		}
		evs := log.Snapshot()
		replay := map[string]any{"case_id": caseID, "connections": seq, "log": evs}
		owner := func(e vfEvent) *vfC18SHConn {
			if e.Kind == "dial" {
				return byTarget[e.Tag]
			}
			for _, c := range seq {
				if e.Seq > c.startSeq && e.Seq < c.endSeq {
					return c
				}
			}
			return nil
		}
		for _, e := range evs {
			switch e.Kind {
			case "auth_ok", "auth_reject":
				k.Count("ev_authfunc_calls", 1)
				k.Count("ev_"+e.Kind, 1)
			case "dial", "udp_open":
				k.Count("ev_"+e.Kind, 1)
				key := "socks5:dial-without-accepted-credentials"
				if e.Kind == "udp_open" {
					key = "socks5:udp-session-without-accepted-credentials"
				}
				c := owner(e)
				if c == nil {
					k.Violation(key, replay, "%s(%q) at log seq %d belongs to no connection of this case", e.Kind, e.Tag, e.Seq)
					continue
				}
				if !c.Judged {
					k.Count("opens_not_judged_revoked_replay", 1)
					continue
				}
				if !vfC18Accepted(evs, e.Seq, c.User, c.Pass) {
					k.Violation(key, replay,
						"connection %d (variant %q, cmd %d) presented user %q pass %q, which the AuthFunc never accepted, yet %s(%q) happened at log seq %d; earlier on the same Server another connection had been accepted with a similar credential",
						c.ID, c.Variant, c.Cmd, c.User, c.Pass, e.Kind, e.Tag, e.Seq)
				} else {
					k.Count("ev_opens_with_accepted_credential", 1)
				}
			}
		}
		k.Count("ev_log_events", int64(len(evs)))
		k.Nontrivial(caseID)
		if i < 2 {
			var vs []string
			for _, c := range seq {
				vs = append(vs, c.Variant)
			}
			k.Sample(map[string]any{"case": caseID, "sequence_on_one_server": vs})
		}
	}
	if k.ReplayCase() == "" && (k.Counter("ev_opens_with_accepted_credential") == 0 || k.Counter("ev_auth_reject") == 0) {
		k.Inconclusive("history workload saw no accepted open / no rejection")
	}
}
