//go:build verif

package socks5

// C18, SOCKS5 inbound. The real Server.dispatch runs over scripted client connections
// (vfC18Script), a mock client.Client and a recording AuthFunc that share one totally
// ordered event log.
//
//   socks5-gate   oracle: every "dial"/"udp_open" event is preceded in the log by an
//                 "auth_ok" event of the local connection that caused it (unique
//                 credentials + unique target per connection name the cause); with an
//                 always-reject AuthFunc there is no dial/udp_open at all.
//   socks5-relay  oracle: the bytes a client pipelines behind the request (0..64 KiB, in the
//                 same read as the request or split anywhere, zero-length reads included)
//                 are exactly the bytes written to the upstream conn; what the client gets
//                 back after the 10-byte reply is a prefix of the upstream's scripted reply.
//
// Reference for what a stream means: RFC 1928 / RFC 1929 message layouts (built here, not
// parsed with the library under test).

import (
	"bytes"
	"encoding/binary"
	"fmt"
	"math/rand"
	"net"
	"strings"
	"sync"
	"testing"
)

type vfC18SocksConn struct {
	ID       int    `json:"id"`
	Kind     string `json:"kind"`
	User     string `json:"-"`
	Pass     string `json:"-"`
	Target   string `json:"target"`
	Cmd      byte   `json:"cmd"`
	Allowed  bool   `json:"credentials_accepted_by_authfunc"`
	Stream   []byte `json:"-"`
	StreamHx string `json:"stream_hex"`
	Chunks   []int  `json:"read_chunks"`
	HdrLen   int    `json:"header_len"`
	Payload  []byte `json:"-"`
	PayLen   int    `json:"payload_len"`
	UserHex  string `json:"user_hex"`
	PassHex  string `json:"pass_hex"`
}

func vfC18Greeting(methods []byte) []byte {
	return append([]byte{5, byte(len(methods))}, methods...)
}

func vfC18UserPass(ver byte, user, pass string) []byte {
	b := []byte{ver, byte(len(user))}
	b = append(b, user...)
	b = append(b, byte(len(pass)))
	b = append(b, pass...)
	return b
}

// vfC18Request builds a SOCKS5 request for host:port; atyp 3 = domain, 1 = IPv4, 4 = IPv6.
func vfC18Request(cmd byte, atyp byte, host string, port uint16) []byte {
	b := []byte{5, cmd, 0, atyp}
	switch atyp {
	case 1:
		b = append(b, net.ParseIP(host).To4()...)
	case 4:
		b = append(b, net.ParseIP(host).To16()...)
	default:
		b = append(b, byte(len(host)))
		b = append(b, host...)
	}
	var p [2]byte
	binary.BigEndian.PutUint16(p[:], port)
	return append(b, p[:]...)
}

func vfC18Pad(s string, n int, fill byte) string {
	if len(s) >= n {
		return s[:n]
	}
	return s + strings.Repeat(string(fill), n-len(s))
}

// vfC18SocksTarget gives connection id a unique target in the chosen address form and the
// address string the server is expected to dial.
func vfC18SocksTarget(id int, atyp byte) (host string, port uint16, dial string) {
	port = uint16(10000 + id%50000)
	switch atyp {
	case 1:
		host = fmt.Sprintf("10.%d.%d.%d", (id>>16)&255, (id>>8)&255, id&255)
	case 4:
		host = fmt.Sprintf("fd00::%x:%x", (id>>16)&0xffff, id&0xffff)
	default:
		host = fmt.Sprintf("t%d.c18.example", id)
	}
	if atyp != 3 {
		host = net.ParseIP(host).String() // canonical text form (RFC 5952) is what a dial string carries
	}
	return host, port, net.JoinHostPort(host, fmt.Sprint(port))
}

var vfC18SocksKinds = []string{
	"right", "right-max255", "right-udp", "right-extra-methods",
	"wrong-pass", "wrong-user", "unknown-user-udp",
	"noauth-only", "noauth-only-udp", "noauth-first-then-request", "gssapi-only", "no-methods", "255-methods-no-userpass",
	"userpass-offered-subneg-skipped",
	"rfc1929-wrong-version-0", "rfc1929-wrong-version-5", "rfc1929-zero-user", "rfc1929-zero-pass", "rfc1929-zero-both",
	"truncated", "bad-socks-version", "bind-cmd", "unknown-cmd", "unknown-atyp", "mutated", "random",
}

// vfC18BuildSocksConn builds the byte stream of one local client. The returned conn's
// Allowed says whether its (user, pass) pair is registered with the AuthFunc.
func vfC18BuildSocksConn(r *rand.Rand, id int, kind string, payloadLen int) *vfC18SocksConn {
	c := &vfC18SocksConn{ID: id, Kind: kind, Cmd: 1}
	c.User = fmt.Sprintf("user-%d", id)
	c.Pass = fmt.Sprintf("pw:%d:%x", id, r.Uint32())
	atyp := []byte{3, 3, 1, 4}[r.Intn(4)]
	host, port, dial := vfC18SocksTarget(id, atyp)
	c.Target = dial
	c.Payload = vfC18Payload(uint32(id), payloadLen)
	methods := []byte{2}
	sendUser, sendPass := c.User, c.Pass
	var subneg []byte
	hasSubneg := true
	upVer := byte(1)
	switch kind {
	case "right":
		c.Allowed = true
	case "right-max255":
		c.User = vfC18Pad(c.User+"-", 255, 'u')
		c.Pass = vfC18Pad(c.Pass+"-", 255, 'p')
		sendUser, sendPass = c.User, c.Pass
		c.Allowed = true
	case "right-udp":
		c.Allowed = true
		c.Cmd = 3
	case "right-extra-methods":
		c.Allowed = true
		methods = []byte{0, 1, 2, 0x80}
		if r.Intn(2) == 0 {
			methods = []byte{2, 0}
		}
	case "wrong-pass":
		sendPass = c.Pass + "x"
		if r.Intn(2) == 0 {
			sendPass = c.Pass[:len(c.Pass)-1]
		}
		c.Allowed = true // the right pair is registered, the client presents another one
	case "wrong-user":
		sendUser = c.User + "0"
		c.Allowed = true
	case "unknown-user-udp":
		c.Cmd = 3
	case "noauth-only":
		methods = []byte{0}
		hasSubneg = false
		c.Allowed = true
	case "noauth-only-udp":
		methods = []byte{0}
		hasSubneg = false
		c.Cmd = 3
		c.Allowed = true
	case "noauth-first-then-request":
		// offers both, then behaves as if the server had picked "no authentication"
		methods = []byte{0, 2}
		hasSubneg = false
		c.Allowed = true
	case "gssapi-only":
		methods = []byte{1}
		hasSubneg = false
	case "no-methods":
		methods = nil
		hasSubneg = r.Intn(2) == 0
		c.Allowed = true
	case "255-methods-no-userpass":
		methods = make([]byte, 255)
		for i := range methods {
			methods[i] = byte(3 + i%200)
		}
		methods[r.Intn(255)] = 0
		hasSubneg = r.Intn(2) == 0
		c.Allowed = true
	case "userpass-offered-subneg-skipped":
		hasSubneg = false
		c.Allowed = true
	case "rfc1929-wrong-version-0":
		upVer = 0
		c.Allowed = true
	case "rfc1929-wrong-version-5":
		upVer = 5
		c.Allowed = true
	case "rfc1929-zero-user":
		sendUser = ""
		c.Allowed = true
	case "rfc1929-zero-pass":
		sendPass = ""
		c.Allowed = true
	case "rfc1929-zero-both":
		sendUser, sendPass = "", ""
	case "bad-socks-version":
		c.Allowed = true
	case "bind-cmd":
		c.Allowed = true
		c.Cmd = 2
	case "unknown-cmd":
		c.Allowed = true
		c.Cmd = byte(4 + r.Intn(250))
	case "unknown-atyp":
		c.Allowed = true
	case "truncated", "mutated":
		c.Allowed = r.Intn(2) == 0
		if r.Intn(3) == 0 {
			c.Cmd = 3
		}
	}
	if hasSubneg {
		subneg = vfC18UserPass(upVer, sendUser, sendPass)
	}
	c.UserHex, c.PassHex = fmt.Sprintf("%x", sendUser), fmt.Sprintf("%x", sendPass)
	if len(c.UserHex) > 80 {
		c.UserHex = c.UserHex[:80] + "..."
		c.PassHex = c.PassHex[:80] + "..."
	}
	req := vfC18Request(c.Cmd, atyp, host, port)
	if kind == "unknown-atyp" {
		req[3] = []byte{0, 2, 5, 0xff}[r.Intn(4)]
	}
	greet := vfC18Greeting(methods)
	if kind == "bad-socks-version" {
		if r.Intn(2) == 0 {
			greet[0] = []byte{4, 0, 6, 'G'}[r.Intn(4)]
		} else {
			req[0] = []byte{4, 0, 6, 1}[r.Intn(4)]
		}
	}
	hdr := append(append(append([]byte(nil), greet...), subneg...), req...)
	switch kind {
	case "truncated":
		// cut anywhere inside the negotiation / request; nothing follows
		cut := r.Intn(len(hdr))
		hdr = hdr[:cut]
		c.Payload = nil
	case "mutated":
		for n := 1 + r.Intn(3); n > 0; n-- {
			switch r.Intn(3) {
			case 0:
				hdr[r.Intn(len(hdr))] ^= byte(1 << uint(r.Intn(8)))
			case 1:
				i := r.Intn(len(hdr))
				hdr = append(hdr[:i], hdr[i+1:]...)
			default:
				i := r.Intn(len(hdr) + 1)
				hdr = append(hdr[:i], append([]byte{byte(r.Intn(256))}, hdr[i:]...)...)
			}
		}
	case "random":
		hdr = make([]byte, 1+r.Intn(600))
		r.Read(hdr)
		if r.Intn(2) == 0 {
			hdr[0] = 5 // at least a SOCKS5 version byte
		}
		if r.Intn(2) == 0 && len(hdr) > 4 {
			copy(hdr, []byte{5, 1, 2, 1})
		}
		c.Target = ""
	}
	c.HdrLen = len(hdr)
	c.PayLen = len(c.Payload)
	c.Stream = append(hdr, c.Payload...)
	c.StreamHx = vfHex(c.Stream)
	c.Chunks = vfC18Chunking(r, r.Intn(7), len(c.Stream), len(hdr))
	return c
}

type vfC18SocksCase struct {
	CaseID    string            `json:"case_id"`
	RejectAll bool              `json:"authfunc_rejects_everything"`
	NoAuth    bool              `json:"authfunc_nil"`
	Conns     []*vfC18SocksConn `json:"connections"`
}

// vfC18RunSocksCase runs the connections of one case concurrently against one Server and
// returns the log, the mock client and the scripted conns.
func vfC18RunSocksCase(cs *vfC18SocksCase, disableUDP bool) (*vfLog, *vfC18HyClient, []*vfC18Script) {
	log := &vfLog{}
	auth := vfC18NewAuth(log)
	hy := &vfC18HyClient{log: log}
	hy.reply = func(addr string) ([]byte, bool) {
		for _, c := range cs.Conns {
			if c.Target == addr {
				return vfC18Payload(uint32(c.ID)|0x40000000, (c.ID*37)%5000), false
			}
		}
		return []byte("unattributed-dial-reply"), false
	}
	s := &Server{HyClient: hy, DisableUDP: disableUDP}
	if !cs.NoAuth {
		s.AuthFunc = auth.Func
		if !cs.RejectAll {
			for _, c := range cs.Conns {
				if c.Allowed {
					auth.Allow(c.User, c.Pass)
				}
			}
		}
	}
	scripts := make([]*vfC18Script, len(cs.Conns))
	var wg sync.WaitGroup
	for i, c := range cs.Conns {
		sc := vfC18NewScript(fmt.Sprint(20000+c.ID), c.Stream, append([]int(nil), c.Chunks...))
		scripts[i] = sc
		wg.Add(1)
		go func() {
			defer wg.Done()
			s.dispatch(sc)
		}()
	}
	wg.Wait()
	hy.CloseAll()
	return log, hy, scripts
}

// vfC18GateOracle checks the ordered log of one case.
func vfC18GateOracle(k *vfKit, pkg string, rejectAll bool, evs []vfEvent, owner func(addr string) (user string, known bool), udpUsers map[string]bool, replay any) (dials, udps, authOK, authRej int) {
	okSeen := map[string]bool{}
	udpBudget := 0
	for _, e := range evs {
		switch e.Kind {
		case "auth_ok":
			authOK++
			okSeen[e.Tag] = true
			if udpUsers == nil || udpUsers[e.Tag] {
				udpBudget++
			}
			if rejectAll {
				k.Violation(pkg+":authfunc-verdict-inverted", replay, "harness self-check: reject-all AuthFunc logged auth_ok")
			}
		case "auth_reject":
			authRej++
		case "dial":
			dials++
			if rejectAll {
				k.Violation(pkg+":dial-without-accepted-credentials", replay,
					"upstream TCP(%q) was opened (log seq %d) although the AuthFunc rejects every credential (accepted so far: none)", e.Tag, e.Seq)
				continue
			}
			user, known := owner(e.Tag)
			if !known {
				// a dial to an address no generated connection asked for: legitimate only if
				// some connection had been accepted before it
				if len(okSeen) == 0 {
					k.Violation(pkg+":dial-without-accepted-credentials", replay,
						"upstream TCP(%q) opened at log seq %d before any auth_ok event", e.Tag, e.Seq)
				}
				continue
			}
			if !okSeen[user] {
				k.Violation(pkg+":dial-without-accepted-credentials", replay,
					"upstream TCP(%q) opened at log seq %d but the local connection that asked for it (credentials user=%q) has no earlier auth_ok event; accepted users so far: %v", e.Tag, e.Seq, user, vfC18Keys(okSeen))
			}
		case "udp_open":
			udps++
			udpBudget--
			if rejectAll || udpBudget < 0 {
				k.Violation(pkg+":udp-session-without-accepted-credentials", replay,
					"HyClient.UDP() called at log seq %d; auth_ok events of UDP-requesting connections before it: %d fewer than UDP sessions opened", e.Seq, -udpBudget)
			}
		}
	}
	return
}

func vfC18Keys(m map[string]bool) []string {
	out := []string{}
	for k := range m {
		if len(k) > 40 {
			k = k[:40] + "..."
		}
		out = append(out, k)
	}
	return out
}

func TestVerifC18SocksGate(t *testing.T) {
	k := vfNewKit(t, "C18", "socks5-gate")
	defer k.Finish()
	n := k.N(6000, 500000)
	nextID := 1
	for i := 0; i < n; i++ {
		caseID := fmt.Sprintf("sg-%d", i)
		r := k.Rand(caseID)
		cs := &vfC18SocksCase{CaseID: caseID, RejectAll: i%3 == 0}
		nc := 1
		if i%4 == 1 {
			nc = 2 + r.Intn(3)
		}
		for j := 0; j < nc; j++ {
			kind := vfC18SocksKinds[(i+j*7)%len(vfC18SocksKinds)]
			if r.Intn(3) == 0 {
				kind = vfC18SocksKinds[r.Intn(len(vfC18SocksKinds))]
			}
			if nc > 1 && (kind == "mutated" || kind == "random") {
				kind = "right" // attribution by address needs unmutated targets
			}
			pl := 0
			if r.Intn(2) == 0 {
				pl = r.Intn(3000)
			}
			cs.Conns = append(cs.Conns, vfC18BuildSocksConn(r, nextID, kind, pl))
			nextID++
		}
		if rc := k.ReplayCase(); rc != "" && rc != caseID {
			continue
		}
		k.Eval()
		log, hy, scripts := vfC18RunSocksCase(cs, false)
		evs := log.Snapshot()
		single := len(cs.Conns) == 1
		owner := func(addr string) (string, bool) {
			for _, c := range cs.Conns {
				if c.Target == addr && c.Target != "" && c.Kind != "mutated" && c.Kind != "random" {
					return c.User, true
				}
			}
			return "", false
		}
		var udpUsers map[string]bool
		if !single {
			udpUsers = map[string]bool{}
			for _, c := range cs.Conns {
				if c.Cmd == 3 {
					udpUsers[c.User] = true
				}
			}
		}
		replay := map[string]any{"case_id": caseID, "case": cs, "log": evs}
		dials, udps, aok, arej := vfC18GateOracle(k, "socks5", cs.RejectAll, evs, owner, udpUsers, replay)
		k.Count("ev_log_events", int64(len(evs)))
		k.Count("ev_dials", int64(dials))
		k.Count("ev_udp_sessions", int64(udps))
		k.Count("ev_auth_ok", int64(aok))
		k.Count("ev_auth_reject", int64(arej))
		for ci, c := range cs.Conns {
			k.Count("conns_"+c.Kind, 1)
			k.Count("ev_client_bytes_consumed", int64(scripts[ci].Consumed()))
			scripts[ci].mu.Lock()
			k.Count("zero_length_reads_served", int64(scripts[ci].zeroReads))
			scripts[ci].mu.Unlock()
		}
		if aok+arej > 0 {
			k.Nontrivial(caseID)
		}
		// when the client pipelined a payload and got through, it must have arrived intact
		for _, u := range hy.Upstreams() {
			for _, c := range cs.Conns {
				if c.Target == u.addr && c.Kind != "mutated" && c.Kind != "random" && c.Cmd == 1 {
					if got := u.Written(); !bytes.Equal(got, c.Payload) {
						k.Violation("socks5:pipelined-bytes-altered", replay, "conn %d (%s): upstream %s %s", c.ID, c.Kind, u.addr, vfC18FirstDiff(c.Payload, got))
					}
				}
			}
		}
		if i < 40 && i%9 == 0 {
			k.Sample(map[string]any{"case": caseID, "reject_all": cs.RejectAll, "kinds": vfC18KindsOf(cs), "dials": dials, "udp_sessions": udps, "auth_ok": aok, "auth_reject": arej})
		}
	}
	if k.ReplayCase() == "" && (k.Counter("ev_dials") == 0 || k.Counter("ev_udp_sessions") == 0 || k.Counter("ev_auth_reject") == 0) {
		k.Inconclusive("gate workload never got a connection through / never saw a rejection")
	}
}

func vfC18KindsOf(cs *vfC18SocksCase) []string {
	var out []string
	for _, c := range cs.Conns {
		out = append(out, c.Kind)
	}
	return out
}

func TestVerifC18SocksRelay(t *testing.T) {
	k := vfNewKit(t, "C18", "socks5-relay")
	defer k.Finish()
	sizes := []int{0, 1, 2, 7, 8, 9, 255, 256, 4095, 4096, 4097, 32767, 32768, 32769, 65535, 65536}
	n := k.N(1200, 100000)
	for i := 0; i < n; i++ {
		caseID := fmt.Sprintf("sr-%d", i)
		if rc := k.ReplayCase(); rc != "" && rc != caseID {
			continue
		}
		r := k.Rand(caseID)
		pl := sizes[i%len(sizes)]
		if i >= 7*len(sizes) {
			pl = r.Intn(65537)
		}
		withAuth := i%2 == 0
		kind := "right"
		if withAuth && i%6 == 0 {
			kind = "right-max255"
		}
		c := vfC18BuildSocksConn(r, 1000+i, kind, pl)
		mode := (i / len(sizes)) % 7
		if mode == 6 && len(c.Stream) > 3000 {
			mode = 3
		}
		c.Chunks = vfC18Chunking(r, mode, len(c.Stream), c.HdrLen)
		cs := &vfC18SocksCase{CaseID: caseID, NoAuth: !withAuth, Conns: []*vfC18SocksConn{c}}
		if !withAuth {
			// without AuthFunc the client offers "no authentication" and sends no sub-negotiation
			hdr := append(vfC18Greeting([]byte{0}), c.Stream[len(vfC18Greeting([]byte{2}))+len(vfC18UserPass(1, c.User, c.Pass)):c.HdrLen]...)
			c.HdrLen = len(hdr)
			c.Stream = append(hdr, c.Payload...)
			c.StreamHx = vfHex(c.Stream)
			c.Chunks = vfC18Chunking(r, mode, len(c.Stream), c.HdrLen)
		}
		k.Eval()
		log, hy, scripts := vfC18RunSocksCase(cs, false)
		evs := log.Snapshot()
		replay := map[string]any{"case_id": caseID, "case": cs, "chunk_mode": mode, "log": evs}
		ups := hy.Upstreams()
		k.Count("ev_log_events", int64(len(evs)))
		if len(ups) != 1 || ups[0].addr != c.Target {
			// a well-formed session did not reach the upstream: nothing to compare
			k.Count("relay_no_dial", 1)
			k.Violation("socks5:wellformed-session-not-relayed", replay, "well-formed CONNECT to %s with accepted credentials produced %d dials", c.Target, len(ups))
			continue
		}
		got := ups[0].Written()
		k.Count("ev_upstream_bytes", int64(len(got)))
		k.Count("ev_relayed_sessions", 1)
		if !bytes.Equal(got, c.Payload) {
			k.Violation("socks5:pipelined-bytes-altered", replay, "upstream %s: %s", c.Target, vfC18FirstDiff(c.Payload, got))
		}
		if pl > 0 {
			k.Nontrivial(fmt.Sprintf("%d/%d/%v", pl, mode, withAuth))
		}
		// downstream: negotiation replies, then the 10-byte success reply, then relay bytes
		out := scripts[0].Out()
		pre := 2 + 10
		if withAuth {
			pre = 2 + 2 + 10
		}
		wantReply, _ := hy.reply(c.Target)
		if len(out) >= pre {
			down := out[pre:]
			k.Count("ev_downstream_bytes", int64(len(down)))
			if len(down) > len(wantReply) || !bytes.Equal(down, wantReply[:len(down)]) {
				k.Violation("socks5:downstream-bytes-altered", replay, "client received after the reply: %s", vfC18FirstDiff(wantReply, down))
			}
			if len(down) == len(wantReply) {
				k.Count("downstream_complete", 1)
			}
		}
		if i < 3 {
			k.Sample(map[string]any{"case": caseID, "payload_len": pl, "chunk_mode": mode, "chunks": len(c.Chunks), "auth": withAuth, "upstream_bytes": len(got)})
		}
	}
}
