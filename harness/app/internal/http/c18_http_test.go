//go:build verif

package http

// C18, HTTP inbound. The real Server.dispatch runs inside a testing/synctest bubble (the
// proxy's http.Client carries a 10 s timeout; in the bubble it is virtual) over scripted
// client connections, a mock client.Client and a recording AuthFunc sharing one ordered log.
//
//   http-gate    oracle: every "dial" event is preceded by an "auth_ok" event of the local
//                connection that caused it (unique credentials and unique target host per
//                connection / request); always-reject AuthFunc => no dial at all. CONNECT and
//                plain proxied requests (also several on one keep-alive connection), with
//                missing / malformed / wrong-scheme / wrong-base64 / wrong / right
//                Proxy-Authorization, truncated, mutated and random streams.
//   http-relay   oracle: bytes pipelined behind a CONNECT request head (0..64 KiB, same read
//                as the head or split anywhere, zero-length reads) are exactly the bytes
//                written upstream; what the client gets after the response head is a prefix
//                of the upstream's scripted reply.

import (
	"bytes"
	"encoding/base64"
	"fmt"
	"math/rand"
	"net"
	"strings"
	"testing"
	"testing/synctest"
)

type vfC18HTTPReq struct {
	Kind    string `json:"auth_kind"`
	Method  string `json:"method"`
	Target  string `json:"dial_target"`
	Head    string `json:"request_head"`
	BodyLen int    `json:"body_len"`
}

type vfC18HTTPConn struct {
	ID       int             `json:"id"`
	User     string          `json:"user"`
	Pass     string          `json:"pass"`
	Allowed  bool            `json:"credentials_registered_with_authfunc"`
	Reqs     []*vfC18HTTPReq `json:"requests"`
	Stream   []byte          `json:"-"`
	StreamHx string          `json:"stream_hex"`
	Chunks   []int           `json:"read_chunks"`
	HdrLen   int             `json:"header_len"`
	Payload  []byte          `json:"-"`
	PayLen   int             `json:"payload_len"`
	Mangled  string          `json:"mangled,omitempty"`
}

var vfC18HTTPAuthKinds = []string{
	"right", "right-lowercase-scheme", "right-uppercase-scheme", "right-then-wrong-duplicate",
	"missing", "wrong-pass", "wrong-user", "bad-base64-chars", "bad-base64-truncated", "no-colon",
	"scheme-bearer", "scheme-digest", "scheme-negotiate", "basic-no-space", "basic-two-spaces", "basic-empty", "empty-value",
	"authorization-header-instead", "urlsafe-base64", "wrong-then-right-duplicate", "only-colon", "user-only-colon",
}

// vfC18AuthHeader returns the header lines (possibly none) for an auth kind.
func vfC18AuthHeader(r *rand.Rand, kind, user, pass string) string {
	b64 := base64.StdEncoding.EncodeToString([]byte(user + ":" + pass))
	line := func(v string) string { return "Proxy-Authorization: " + v + "\r\n" }
	switch kind {
	case "right":
		return line("Basic " + b64)
	case "right-lowercase-scheme":
		return line("basic " + b64)
	case "right-uppercase-scheme":
		return line("BASIC " + b64)
	case "right-then-wrong-duplicate":
		return line("Basic "+b64) + line("Basic "+base64.StdEncoding.EncodeToString([]byte(user+":nope")))
	case "wrong-then-right-duplicate":
		return line("Basic "+base64.StdEncoding.EncodeToString([]byte(user+":nope"))) + line("Basic "+b64)
	case "missing":
		return ""
	case "wrong-pass":
		return line("Basic " + base64.StdEncoding.EncodeToString([]byte(user+":"+pass+"x")))
	case "wrong-user":
		return line("Basic " + base64.StdEncoding.EncodeToString([]byte(user+"0:"+pass)))
	case "bad-base64-chars":
		return line("Basic " + b64[:len(b64)/2] + "*!" + b64[len(b64)/2:])
	case "bad-base64-truncated":
		return line("Basic " + b64[:len(b64)-1-r.Intn(2)])
	case "no-colon":
		return line("Basic " + base64.StdEncoding.EncodeToString([]byte(user+pass)))
	case "scheme-bearer":
		return line("Bearer " + b64)
	case "scheme-digest":
		return line(fmt.Sprintf(`Digest username=%q, realm="x", nonce="n", uri="/", response=%q`, user, pass))
	case "scheme-negotiate":
		return line("Negotiate " + b64)
	case "basic-no-space":
		return line("Basic" + b64)
	case "basic-two-spaces":
		return line("Basic  " + b64)
	case "basic-empty":
		return line("Basic ")
	case "empty-value":
		return line("")
	case "authorization-header-instead":
		return "Authorization: Basic " + b64 + "\r\n"
	case "urlsafe-base64":
		return line("Basic " + base64.URLEncoding.EncodeToString([]byte(user+":"+pass+"?>~")))
	case "only-colon":
		return line("Basic " + base64.StdEncoding.EncodeToString([]byte(":")))
	case "user-only-colon":
		return line("Basic " + base64.StdEncoding.EncodeToString([]byte(user+":")))
	}
	return ""
}

func vfC18HTTPHost(id, sub int) string { return fmt.Sprintf("t%d-%d.c18.example", id, sub) }

// vfC18BuildHTTPConn builds one local client's byte stream: either one CONNECT (followed by
// payload) or 1..3 plain proxied requests.
func vfC18BuildHTTPConn(r *rand.Rand, id int, connect bool, kinds []string, payloadLen int, shape string) *vfC18HTTPConn {
	c := &vfC18HTTPConn{ID: id, User: fmt.Sprintf("user-%d", id), Pass: fmt.Sprintf("pw:%d:%x", id, r.Uint32()), Allowed: true}
	var buf bytes.Buffer
	proto := "HTTP/1.1"
	if r.Intn(8) == 0 {
		proto = "HTTP/1.0"
	}
	if connect {
		host := vfC18HTTPHost(id, 0)
		port := 10000 + id%50000
		target := net.JoinHostPort(host, fmt.Sprint(port))
		reqLine := "CONNECT " + target + " " + proto + "\r\n"
		if r.Intn(6) == 0 {
			// no port: the server defaults to 80
			reqLine = "CONNECT " + host + " " + proto + "\r\n"
			target = net.JoinHostPort(host, "80")
		}
		head := reqLine + "Host: " + target + "\r\n"
		if r.Intn(2) == 0 {
			head += "User-Agent: vf/" + fmt.Sprint(id) + "\r\nProxy-Connection: keep-alive\r\n"
		}
		head += vfC18AuthHeader(r, kinds[0], c.User, c.Pass)
		if shape == "content-length" {
			head += fmt.Sprintf("Content-Length: %d\r\n", payloadLen)
		}
		if shape == "long-header" {
			head += "X-Pad: " + strings.Repeat("p", 3000+r.Intn(2000)) + "\r\n"
		}
		head += "\r\n"
		buf.WriteString(head)
		c.Reqs = append(c.Reqs, &vfC18HTTPReq{Kind: kinds[0], Method: "CONNECT", Target: target, Head: head})
		c.HdrLen = buf.Len()
		c.Payload = vfC18Payload(uint32(id), payloadLen)
		buf.Write(c.Payload)
	} else {
		for j, kind := range kinds {
			host := vfC18HTTPHost(id, j)
			port := 10000 + (id+j)%50000
			hostport := net.JoinHostPort(host, fmt.Sprint(port))
			target := hostport
			if r.Intn(5) == 0 {
				hostport, target = host, net.JoinHostPort(host, "80")
			}
			method := "GET"
			body := ""
			if r.Intn(3) == 0 {
				method = "POST"
				body = string(vfC18Payload(uint32(id*8+j), r.Intn(2000)))
			}
			head := fmt.Sprintf("%s http://%s/p/%d/%d?q=1 %s\r\nHost: %s\r\n", method, hostport, id, j, proto, hostport)
			if len(kinds) > 1 || r.Intn(2) == 0 {
				if r.Intn(2) == 0 {
					head += "Proxy-Connection: keep-alive\r\n"
				} else {
					head += "Connection: keep-alive\r\n"
				}
			}
			head += vfC18AuthHeader(r, kind, c.User, c.Pass)
			if method == "POST" {
				head += fmt.Sprintf("Content-Length: %d\r\n", len(body))
			}
			head += "\r\n"
			buf.WriteString(head)
			buf.WriteString(body)
			c.Reqs = append(c.Reqs, &vfC18HTTPReq{Kind: kind, Method: method, Target: target, Head: head, BodyLen: len(body)})
		}
		c.HdrLen = buf.Len()
	}
	c.Stream = buf.Bytes()
	return c
}

func vfC18Mangle(r *rand.Rand, c *vfC18HTTPConn, how string) {
	hdr := append([]byte(nil), c.Stream[:c.HdrLen]...)
	switch how {
	case "truncated":
		hdr = hdr[:r.Intn(len(hdr))]
		c.Payload = nil
	case "mutated":
		for n := 1 + r.Intn(3); n > 0; n-- {
			switch r.Intn(3) {
			case 0:
				hdr[r.Intn(len(hdr))] ^= byte(1 << uint(r.Intn(8)))
			case 1:
				i := r.Intn(len(hdr))
				hdr = append(hdr[:i], hdr[i+1:]...)
			default:
				i := r.Intn(len(hdr) + 1)
				hdr = append(hdr[:i], append([]byte{byte(r.Intn(256))}, hdr[i:]...)...)
			}
		}
	case "random":
		hdr = make([]byte, 1+r.Intn(800))
		r.Read(hdr)
		if r.Intn(2) == 0 {
			copy(hdr, "CONNECT a:1 HTTP/1.1\r\n")
		}
		if r.Intn(2) == 0 {
			hdr = append(hdr, "\r\n\r\n"...)
		}
	}
	c.Mangled = how
	c.Stream = append(hdr, c.Payload...)
	c.HdrLen = len(hdr)
}

type vfC18HTTPCase struct {
	CaseID    string           `json:"case_id"`
	RejectAll bool             `json:"authfunc_rejects_everything"`
	NoAuth    bool             `json:"authfunc_nil"`
	Conns     []*vfC18HTTPConn `json:"connections"`
}

// vfC18RunHTTPCase must be called inside a bubble.
func vfC18RunHTTPCase(cs *vfC18HTTPCase) (*vfLog, *vfC18HyClient, []*vfC18Script) {
	log := &vfLog{}
	auth := vfC18NewAuth(log)
	plain := map[string]*vfC18HTTPConn{}
	tunnel := map[string]*vfC18HTTPConn{}
	for _, c := range cs.Conns {
		for _, q := range c.Reqs {
			if q.Method == "CONNECT" {
				tunnel[q.Target] = c
			} else {
				plain[q.Target] = c
			}
		}
	}
	hy := &vfC18HyClient{log: log}
	hy.reply = func(addr string) ([]byte, bool) {
		if c, ok := tunnel[addr]; ok {
			return vfC18Payload(uint32(c.ID)|0x40000000, (c.ID*37)%5000), false
		}
		body := "reply-for-" + addr
		return []byte(fmt.Sprintf("HTTP/1.1 200 OK\r\nContent-Length: %d\r\nX-Upstream: %s\r\n\r\n%s", len(body), addr, body)), true
	}
	s := &Server{HyClient: hy, AuthRealm: "vf"}
	if !cs.NoAuth {
		s.AuthFunc = auth.Func
		if !cs.RejectAll {
			for _, c := range cs.Conns {
				if c.Allowed {
					auth.Allow(c.User, c.Pass)
				}
			}
		}
	}
	scripts := make([]*vfC18Script, len(cs.Conns))
	done := make(chan struct{}, len(cs.Conns))
	for i, c := range cs.Conns {
		sc := vfC18NewScript(fmt.Sprint(20000+c.ID), c.Stream, append([]int(nil), c.Chunks...))
		scripts[i] = sc
		go func() {
			s.dispatch(sc)
			done <- struct{}{}
		}()
	}
	for range cs.Conns {
		<-done
	}
	hy.CloseAll()
	if s.httpClient != nil {
		s.httpClient.CloseIdleConnections()
	}
	synctest.Wait()
	return log, hy, scripts
}

func vfC18HTTPGateOracle(k *vfKit, cs *vfC18HTTPCase, evs []vfEvent, replay any) (dials, authOK, authRej int) {
	okSeen := map[string]bool{}
	owner := map[string]string{}
	clean := true
	for _, c := range cs.Conns {
		if c.Mangled != "" {
			clean = false
		}
		for _, q := range c.Reqs {
			owner[q.Target] = c.User
		}
	}
	for _, e := range evs {
		switch e.Kind {
		case "auth_ok":
			authOK++
			okSeen[e.Tag] = true
		case "auth_reject":
			authRej++
		case "dial":
			dials++
			if cs.RejectAll {
				k.Violation("http:dial-without-accepted-credentials", replay,
					"upstream TCP(%q) was opened (log seq %d) although the AuthFunc rejects every credential", e.Tag, e.Seq)
				continue
			}
			user, known := owner[e.Tag]
			if !known || !clean {
				if len(okSeen) == 0 {
					k.Violation("http:dial-without-accepted-credentials", replay, "upstream TCP(%q) opened at log seq %d before any auth_ok event", e.Tag, e.Seq)
				}
				continue
			}
			if !okSeen[user] {
				k.Violation("http:dial-without-accepted-credentials", replay,
					"upstream TCP(%q) opened at log seq %d but the local connection that asked for it (user=%q) has no earlier auth_ok event; accepted so far: %v", e.Tag, e.Seq, user, okSeen)
			}
		}
	}
	return
}

func TestVerifC18HTTPGate(t *testing.T) {
	k := vfNewKit(t, "C18", "http-gate")
	defer k.Finish()
	n := k.N(5000, 400000)
	synctest.Test(t, func(t *testing.T) {
		nextID := 1
		for i := 0; i < n; i++ {
			caseID := fmt.Sprintf("hg-%d", i)
			r := k.Rand(caseID)
			cs := &vfC18HTTPCase{CaseID: caseID, RejectAll: i%3 == 0}
			nc := 1
			if i%4 == 1 {
				nc = 2 + r.Intn(2)
			}
			for j := 0; j < nc; j++ {
				connect := r.Intn(2) == 0
				nreq := 1
				if !connect && r.Intn(3) == 0 {
					nreq = 2 + r.Intn(2)
				}
				kinds := make([]string, nreq)
				for q := range kinds {
					kinds[q] = vfC18HTTPAuthKinds[(i+j*5+q*3)%len(vfC18HTTPAuthKinds)]
					if r.Intn(3) == 0 {
						kinds[q] = vfC18HTTPAuthKinds[r.Intn(len(vfC18HTTPAuthKinds))]
					}
				}
				if nreq > 1 && r.Intn(2) == 0 {
					kinds[0] = "right" // keep-alive connection whose later requests carry other headers
				}
				pl := 0
				if r.Intn(2) == 0 {
					pl = r.Intn(6000)
				}
				c := vfC18BuildHTTPConn(r, nextID, connect, kinds, pl, "")
				nextID++
				if nc == 1 {
					switch r.Intn(8) {
					case 0:
						vfC18Mangle(r, c, "truncated")
					case 1:
						vfC18Mangle(r, c, "mutated")
					case 2:
						vfC18Mangle(r, c, "random")
					}
				}
				c.PayLen = len(c.Payload)
				c.StreamHx = vfHex(c.Stream)
				c.Chunks = vfC18Chunking(r, r.Intn(7), len(c.Stream), c.HdrLen)
				cs.Conns = append(cs.Conns, c)
			}
			if rc := k.ReplayCase(); rc != "" && rc != caseID {
				continue
			}
			k.Eval()
			log, hy, scripts := vfC18RunHTTPCase(cs)
			evs := log.Snapshot()
			replay := map[string]any{"case_id": caseID, "case": cs, "log": evs}
			dials, aok, arej := vfC18HTTPGateOracle(k, cs, evs, replay)
			k.Count("ev_log_events", int64(len(evs)))
			k.Count("ev_dials", int64(dials))
			k.Count("ev_auth_ok", int64(aok))
			k.Count("ev_auth_reject", int64(arej))
			for ci, c := range cs.Conns {
				for _, q := range c.Reqs {
					k.Count("reqs_auth_"+q.Kind, 1)
					k.Count("reqs_method_"+q.Method, 1)
				}
				if c.Mangled != "" {
					k.Count("conns_"+c.Mangled, 1)
				}
				k.Count("ev_client_bytes_consumed", int64(scripts[ci].Consumed()))
				out := scripts[ci].Out()
				if bytes.Contains(out, []byte(" 407 ")) {
					k.Count("responses_407", 1)
				}
				if bytes.Contains(out, []byte("reply-for-")) {
					k.Count("ev_plain_responses_relayed", 1)
				}
			}
			if aok+arej > 0 {
				k.Nontrivial(caseID)
			}
			// CONNECT sessions that got through: pipelined bytes must have arrived intact
			for _, u := range hy.Upstreams() {
				for _, c := range cs.Conns {
					if c.Mangled == "" && c.Reqs[0].Method == "CONNECT" && c.Reqs[0].Target == u.addr {
						if got := u.Written(); !bytes.Equal(got, c.Payload) {
							k.Violation("http:pipelined-bytes-altered", replay, "conn %d: upstream %s %s", c.ID, u.addr, vfC18FirstDiff(c.Payload, got))
						}
					}
				}
			}
			if i < 60 && i%11 == 0 {
				k.Sample(map[string]any{"case": caseID, "reject_all": cs.RejectAll, "first_conn": cs.Conns[0].Reqs, "dials": dials, "auth_ok": aok, "auth_reject": arej})
			}
		}
	})
	if k.ReplayCase() == "" && (k.Counter("ev_dials") == 0 || k.Counter("ev_auth_reject") == 0 || k.Counter("ev_plain_responses_relayed") == 0) {
		k.Inconclusive("gate workload never got a request through / never saw a rejection")
	}
}

func TestVerifC18HTTPRelay(t *testing.T) {
	k := vfNewKit(t, "C18", "http-relay")
	defer k.Finish()
	sizes := []int{0, 1, 2, 7, 8, 9, 255, 256, 4095, 4096, 4097, 32767, 32768, 32769, 65535, 65536}
	shapes := []string{"", "", "content-length", "long-header"}
	n := k.N(1200, 100000)
	synctest.Test(t, func(t *testing.T) {
		for i := 0; i < n; i++ {
			caseID := fmt.Sprintf("hr-%d", i)
			if rc := k.ReplayCase(); rc != "" && rc != caseID {
				continue
			}
			r := k.Rand(caseID)
			pl := sizes[i%len(sizes)]
			if i >= 7*len(sizes) {
				pl = r.Intn(65537)
				if r.Intn(3) == 0 {
					pl = r.Intn(5000) // everything fits the server's 4 KiB read-ahead buffer or just not
				}
			}
			withAuth := i%2 == 0
			shape := shapes[(i/3)%len(shapes)]
			c := vfC18BuildHTTPConn(r, 1000+i, true, []string{"right"}, pl, shape)
			mode := (i / len(sizes)) % 7
			if mode == 6 && len(c.Stream) > 3000 {
				mode = 3
			}
			c.PayLen = len(c.Payload)
			c.StreamHx = vfHex(c.Stream)
			c.Chunks = vfC18Chunking(r, mode, len(c.Stream), c.HdrLen)
			cs := &vfC18HTTPCase{CaseID: caseID, NoAuth: !withAuth, Conns: []*vfC18HTTPConn{c}}
			k.Eval()
			log, hy, scripts := vfC18RunHTTPCase(cs)
			evs := log.Snapshot()
			replay := map[string]any{"case_id": caseID, "case": cs, "chunk_mode": mode, "shape": shape, "log": evs}
			k.Count("ev_log_events", int64(len(evs)))
			ups := hy.Upstreams()
			target := c.Reqs[0].Target
			if len(ups) != 1 || ups[0].addr != target {
				k.Violation("http:wellformed-connect-not-relayed", replay, "well-formed CONNECT %s with accepted credentials produced %d dials", target, len(ups))
				continue
			}
			got := ups[0].Written()
			k.Count("ev_upstream_bytes", int64(len(got)))
			k.Count("ev_relayed_sessions", 1)
			if !bytes.Equal(got, c.Payload) {
				k.Violation("http:pipelined-bytes-altered", replay, "upstream %s: %s", target, vfC18FirstDiff(c.Payload, got))
			}
			if pl > 0 {
				k.Nontrivial(fmt.Sprintf("%d/%d/%v/%s", pl, mode, withAuth, shape))
			}
			out := scripts[0].Out()
			if idx := bytes.Index(out, []byte("\r\n\r\n")); idx >= 0 && bytes.HasPrefix(out, []byte("HTTP/1.")) && bytes.Contains(out[:idx], []byte(" 200 ")) {
				down := out[idx+4:]
				wantReply, _ := hy.reply(target)
				k.Count("ev_downstream_bytes", int64(len(down)))
				if len(down) > len(wantReply) || !bytes.Equal(down, wantReply[:len(down)]) {
					k.Violation("http:downstream-bytes-altered", replay, "client received after the response head: %s", vfC18FirstDiff(wantReply, down))
				}
				if len(down) == len(wantReply) {
					k.Count("downstream_complete", 1)
				}
			}
			if i < 3 {
				k.Sample(map[string]any{"case": caseID, "payload_len": pl, "chunk_mode": mode, "chunks": len(c.Chunks), "auth": withAuth, "shape": shape, "upstream_bytes": len(got)})
			}
		}
	})
}
