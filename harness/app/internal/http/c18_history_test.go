//go:build verif

package http

// C18 part "http-history": the gate must not depend on what the same Server has seen
// before. One Server lives through a sequence of connections: some present credentials X the
// AuthFunc accepts, later connections present NEAR-MISSES of an accepted X that the AuthFunc
// never accepted (and, asked, rejects):
//   - the Base64 text of X with the case of one / several / all letters flipped (only variants
//     that still decode and decode to something else), also under "basic"/"BASIC";
//   - same user with a password that is a prefix / suffix / extension / case variant of X's,
//     another user with X's password, user with changed case, credentials with a blank added
//     inside the encoded text, the user:pass boundary shifted;
//   - X replayed verbatim (accepted: positive control), and X replayed after it was revoked
//     (not judged: a verdict the AuthFunc gave earlier in the server's life is arguably
//     "accepted" — only counted).
// Every connection has its own target host, so a dial names the connection that caused it.
// Oracle (unchanged): dial(target of connection j) => an earlier auth_ok event for exactly the
// (user, pass) that connection j presented. AuthFunc calls are counted.

import (
	"bytes"
	"encoding/base64"
	"fmt"
	"math/rand"
	"net"
	"strings"
	"testing"
	"testing/synctest"
	"unicode"
)

type vfC18HistConn struct {
	ID        int    `json:"id"`
	Variant   string `json:"variant"`
	Method    string `json:"method"`
	Target    string `json:"dial_target"`
	HeaderVal string `json:"proxy_authorization"`
	// what the header presents according to RFC 7617 (scheme case-insensitive, token68 =
	// std Base64 of user:pass, split at the first colon); Presented=false: no credential
	Presented bool   `json:"presents_a_credential"`
	User      string `json:"presented_user"`
	Pass      string `json:"presented_pass"`
	Judged    bool   `json:"judged"`
	Revoke    string `json:"revoke_user_before,omitempty"`
	Stream    string `json:"request_head"`
	startSeq  int
}

func vfC18FlipCase(s string, idx []int) string {
	b := []rune(s)
	for _, i := range idx {
		switch {
		case unicode.IsLower(b[i]):
			b[i] = unicode.ToUpper(b[i])
		case unicode.IsUpper(b[i]):
			b[i] = unicode.ToLower(b[i])
		}
	}
	return string(b)
}

func vfC18LetterIdx(s string) []int {
	var out []int
	for i, c := range s {
		if (c >= 'a' && c <= 'z') || (c >= 'A' && c <= 'Z') {
			out = append(out, i)
		}
	}
	return out
}

// vfC18DecodeBasic is the reference reading of a Proxy-Authorization value.
func vfC18DecodeBasic(v string) (user, pass string, ok bool) {
	v = strings.TrimSpace(v)
	if len(v) < 6 || !strings.EqualFold(v[:6], "basic ") {
		return "", "", false
	}
	raw, err := base64.StdEncoding.DecodeString(strings.TrimLeft(v[6:], " "))
	if err != nil {
		return "", "", false
	}
	i := bytes.IndexByte(raw, ':')
	if i < 0 {
		return "", "", false
	}
	return string(raw[:i]), string(raw[i+1:]), true
}

func vfC18B64(user, pass string) string {
	return base64.StdEncoding.EncodeToString([]byte(user + ":" + pass))
}

// vfC18NearMissHeaders returns header values resembling the accepted (user, pass).
func vfC18NearMissHeaders(r *rand.Rand, user, pass string) map[string]string {
	out := map[string]string{}
	b64 := vfC18B64(user, pass)
	letters := vfC18LetterIdx(b64)
	try := func(name, scheme string, idx []int) {
		v := scheme + " " + vfC18FlipCase(b64, idx)
		u, p, ok := vfC18DecodeBasic(v)
		if _, err := base64.StdEncoding.DecodeString(v[len(scheme)+1:]); err != nil {
			return // not even Base64 any more: covered by http-gate
		}
		if ok && u == user && p == pass {
			return
		}
		out[name] = v
	}
	if len(letters) > 0 {
		// the last letters belong to the end of the password
		for k := 0; k < 3 && k < len(letters); k++ {
			try(fmt.Sprintf("b64-case-flip-last-%d", k), "Basic", []int{letters[len(letters)-1-k]})
		}
		try("b64-case-flip-random-one", "Basic", []int{letters[r.Intn(len(letters))]})
		var some []int
		for _, i := range letters {
			if r.Intn(3) == 0 {
				some = append(some, i)
			}
		}
		try("b64-case-flip-some", "Basic", some)
		try("b64-case-flip-all", "Basic", letters)
		try("b64-case-flip-all-lower-scheme", "basic", letters)
		try("b64-case-flip-one-upper-scheme", "BASIC", []int{letters[len(letters)-1]})
		// all-lowercase / all-uppercase renderings of the token
		lower, upper := []int{}, []int{}
		for _, i := range letters {
			if b64[i] >= 'A' && b64[i] <= 'Z' {
				lower = append(lower, i)
			} else {
				upper = append(upper, i)
			}
		}
		try("b64-lowercased", "Basic", lower)
		try("b64-uppercased", "Basic", upper)
	}
	cred := func(name, u, p string) {
		if u == user && p == pass {
			return
		}
		out[name] = "Basic " + vfC18B64(u, p)
	}
	cred("pass-prefix", user, pass[:len(pass)-1])
	cred("pass-suffix", user, pass[1:])
	cred("pass-extended", user, pass+"x")
	cred("pass-empty", user, "")
	cred("pass-case", user, vfC18FlipCase(pass, vfC18LetterIdx(pass)))
	cred("user-case", vfC18FlipCase(user, vfC18LetterIdx(user)), pass)
	cred("other-user-same-pass", user+"2", pass)
	cred("user-prefix", user[:len(user)-1], pass)
	cred("blank-after-pass", user, pass+" ")
	cred("blank-before-user", " "+user, pass)
	cred("boundary-shifted", user[:len(user)-1], user[len(user)-1:]+":"+pass)
	cred("pass-with-user-prefix", user, user+":"+pass)
	return out
}

func vfC18HistRequest(r *rand.Rand, c *vfC18HistConn) []byte {
	var head string
	if c.Method == "CONNECT" {
		head = "CONNECT " + c.Target + " HTTP/1.1\r\nHost: " + c.Target + "\r\n"
	} else {
		head = "GET http://" + c.Target + "/h/" + fmt.Sprint(c.ID) + " HTTP/1.1\r\nHost: " + c.Target + "\r\n"
	}
	head += "Proxy-Authorization: " + c.HeaderVal + "\r\n"
	head += "\r\n"
	c.Stream = head
	if c.Method == "CONNECT" {
		return append([]byte(head), vfC18Payload(uint32(c.ID), 40)...)
	}
	return []byte(head)
}

func TestVerifC18HTTPHistory(t *testing.T) {
	k := vfNewKit(t, "C18", "http-history")
	defer k.Finish()
	n := k.N(400, 8000)
	synctest.Test(t, func(t *testing.T) {
		id := 0
		for i := 0; i < n; i++ {
			caseID := fmt.Sprintf("hh-%d", i)
			r := k.Rand(caseID)
			// build the connection sequence
			var seq []*vfC18HistConn
			type cred struct{ user, pass string }
			var bases []cred
			nb := 1 + r.Intn(3)
			for b := 0; b < nb; b++ {
				bases = append(bases, cred{fmt.Sprintf("user%d%c", i, 'a'+b), fmt.Sprintf("pa%dSs%xW%c", i, r.Uint32(), 'a'+b)})
			}
			add := func(variant, val string, judged bool, revoke string) {
				id++
				c := &vfC18HistConn{ID: id, Variant: variant, HeaderVal: val, Judged: judged, Revoke: revoke, Method: "CONNECT"}
				if r.Intn(3) == 0 {
					c.Method = "GET"
				}
				c.Target = net.JoinHostPort(fmt.Sprintf("h%d.c18.example", id), fmt.Sprint(10000+id%50000))
				c.User, c.Pass, c.Presented = vfC18DecodeBasic(val)
				seq = append(seq, c)
			}
			for _, b := range bases {
				add("accepted", "Basic "+vfC18B64(b.user, b.pass), true, "")
				near := vfC18NearMissHeaders(r, b.user, b.pass)
				names := make([]string, 0, len(near))
				for nme := range near {
					names = append(names, nme)
				}
				vfC18SortStrings(names)
				r.Shuffle(len(names), func(a, c int) { names[a], names[c] = names[c], names[a] })
				take := 4 + r.Intn(6)
				for j, nme := range names {
					if j >= take {
						break
					}
					add(nme, near[nme], true, "")
					if r.Intn(4) == 0 {
						add("replay-accepted", "Basic "+vfC18B64(b.user, b.pass), true, "")
					}
				}
			}
			// revocation: the accepted header replayed after the AuthFunc stopped accepting it is
			// not judged; near-misses after it still are
			rb := bases[r.Intn(len(bases))]
			add("replay-after-revocation", "Basic "+vfC18B64(rb.user, rb.pass), false, rb.user)
			after := vfC18NearMissHeaders(r, rb.user, rb.pass)
			for _, nme := range []string{"b64-case-flip-last-0", "b64-case-flip-all", "pass-prefix", "other-user-same-pass"} {
				if v, ok := after[nme]; ok {
					add(nme+"-after-revocation", v, true, "")
				}
			}
			if rc := k.ReplayCase(); rc != "" && rc != caseID {
				continue
			}
			k.Eval()
			log := &vfLog{}
			auth := vfC18NewAuth(log)
			for _, b := range bases {
				auth.Allow(b.user, b.pass)
			}
			byTarget := map[string]*vfC18HistConn{}
			hy := &vfC18HyClient{log: log}
			hy.reply = func(addr string) ([]byte, bool) {
				if c := byTarget[addr]; c != nil && c.Method == "CONNECT" {
					return []byte("tunnel:" + addr), false
				}
				body := "reply-for-" + addr
				return []byte(fmt.Sprintf("HTTP/1.1 200 OK\r\nContent-Length: %d\r\n\r\n%s", len(body), body)), true
			}
			s := &Server{HyClient: hy, AuthFunc: auth.Func, AuthRealm: "vf"}
			for _, c := range seq {
				byTarget[c.Target] = c
				if c.Revoke != "" {
					auth.Revoke(c.Revoke)
					log.Add("revoked", c.Revoke, 0, nil)
				}
				c.startSeq = log.Add("conn_start", fmt.Sprint(c.ID), 0, map[string]any{"variant": c.Variant})
				stream := vfC18HistRequest(r, c)
				sc := vfC18NewScript(fmt.Sprint(20000+c.ID), stream, vfC18Chunking(r, r.Intn(6), len(stream), len(c.Stream)))
				s.dispatch(sc)
				hy.CloseAll()
				if s.httpClient != nil {
					s.httpClient.CloseIdleConnections()
				}
				synctest.Wait()
				k.Count("conns_"+strings.TrimSuffix(c.Variant, "-after-revocation"), 1)
			}
			evs := log.Snapshot()
			replay := map[string]any{"case_id": caseID, "connections": seq, "log": evs}
			for _, e := range evs {
				switch e.Kind {
				case "auth_ok", "auth_reject":
					k.Count("ev_authfunc_calls", 1)
					k.Count("ev_"+e.Kind, 1)
				case "dial":
					k.Count("ev_dials", 1)
					c := byTarget[e.Tag]
					if c == nil {
						k.Violation("http:dial-without-accepted-credentials", replay, "upstream TCP(%q) at log seq %d belongs to no connection of this case", e.Tag, e.Seq)
						continue
					}
					if !c.Judged {
						k.Count("dials_not_judged_revoked_replay", 1)
						continue
					}
					if !c.Presented || !vfC18Accepted(evs, e.Seq, c.User, c.Pass) {
						k.Violation("http:dial-without-accepted-credentials", replay,
							"connection %d (%s %s, variant %q) presented Proxy-Authorization %q = user %q pass %q (credential present: %v), which the AuthFunc never accepted, yet upstream TCP(%q) was opened at log seq %d; earlier on the same Server another connection had been accepted with a similar credential",
							c.ID, c.Method, c.Target, c.Variant, c.HeaderVal, c.User, c.Pass, c.Presented, e.Tag, e.Seq)
					} else {
						k.Count("ev_dials_with_accepted_credential", 1)
					}
				}
			}
			k.Count("ev_log_events", int64(len(evs)))
			k.Nontrivial(caseID)
			if i < 2 {
				var vs []string
				for _, c := range seq {
					vs = append(vs, c.Variant)
				}
				k.Sample(map[string]any{"case": caseID, "sequence_on_one_server": vs})
			}
		}
	})
	if k.ReplayCase() == "" && (k.Counter("ev_dials_with_accepted_credential") == 0 || k.Counter("ev_auth_reject") == 0) {
		k.Inconclusive("history workload saw no accepted dial / no rejection")
	}
}

func vfC18SortStrings(a []string) {
	for i := 1; i < len(a); i++ {
		for j := i; j > 0 && a[j] < a[j-1]; j-- {
			a[j], a[j-1] = a[j-1], a[j]
		}
	}
}
