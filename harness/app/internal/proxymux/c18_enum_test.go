//go:build verif

package proxymux

// C18 part "mux-enum": every order of {ListenSOCKS, ListenHTTP, Close(socks), Close(http),
// connect(first byte 0x05), connect(other first byte), connect-send-nothing-close} up to a
// length bound, executed against the real muxListener over the fake base listener inside
// synctest bubbles. Oracle (at quiescence): every connection the mux accepted from the base
// listener was returned by exactly one sub-listener Accept (the one named by its first byte)
// or had Close() called on it; the handler reads exactly the bytes the client sent.
//
// Part "mux-handover": targeted schedules in which the hand-over races with a Close, made
// deterministic by gates inside the fakes the harness owns (Accept return gate).

import (
	"fmt"
	"net"
	"sort"
	"strings"
	"sync"
	"testing"
	"testing/synctest"
)

var vfC18OpNames = []string{"ListenSOCKS", "ListenHTTP", "Close(socks)", "Close(http)", "connect(0x05)", "connect(other)", "connect-send-nothing-close"}

var vfC18OtherBytes = []int{'G', 'C', 'P', 0x00, 0x04, 0x06, 0xff, 0x16, 'g', 0x50}

type vfC18Mode struct {
	Name    string
	Lazy    bool // sub-listener Accept is only called after the whole schedule ran
	Settled bool // the mux main loop is let run (and block) before the first registration
	Burst   bool // no quiescence between operations
}

var vfC18Modes = []vfC18Mode{
	{Name: "eager"},
	{Name: "lazy", Lazy: true},
	{Name: "eager-settled", Settled: true},
	{Name: "lazy-settled", Lazy: true, Settled: true},
	{Name: "burst-eager", Burst: true},
	{Name: "burst-lazy", Lazy: true, Burst: true},
}

type vfC18SeqResult struct {
	verdicts  []vfC18Verdict
	schedule  []string
	delivered int
	closed    int
	refused   int
	bytes     int
	forced    bool
	stuck     int
	conns     int
	events    int
	log       []vfEvent
}

// vfC18StaticallyRedundant: a Close of a handle that is not open is a harness-level no-op,
// so the sequence equals a shorter one that is enumerated anyway.
func vfC18StaticallyRedundant(ops []int) bool {
	var s, h bool
	for _, op := range ops {
		switch op {
		case 0:
			s = true
		case 1:
			h = true
		case 2:
			if !s {
				return true
			}
			s = false
		case 3:
			if !h {
				return true
			}
			h = false
		}
	}
	return false
}

// vfC18RunSeq runs one schedule inside the current bubble.
func vfC18RunSeq(mode vfC18Mode, ops []int, salt int) vfC18SeqResult {
	p := vfC18NewPort()
	// without burst every operation starts from a quiescent point, so no Listen* can land
	// on a mux that is already shutting down
	p.strictLiveness = !mode.Burst
	var res vfC18SeqResult
	var hs, hh net.Listener
	step := func(desc string) {
		res.schedule = append(res.schedule, desc)
	}
	listen := func(kind string) {
		p.mu.Lock()
		fresh := p.ml == nil
		p.mu.Unlock()
		if fresh && mode.Settled {
			p.getOrCreate()
			synctest.Wait() // main loop reaches its select before anything is registered
		}
		ln, err := p.listen(kind)
		if err != nil {
			step(fmt.Sprintf("Listen%s -> error %v", strings.ToUpper(kind), err))
			return
		}
		step(fmt.Sprintf("Listen%s -> ok", strings.ToUpper(kind)))
		if kind == "socks" {
			hs = ln
		} else {
			hh = ln
		}
		if !mode.Lazy {
			p.acceptor(kind, ln)
		}
	}
	for i, op := range ops {
		switch op {
		case 0:
			listen("socks")
		case 1:
			listen("http")
		case 2:
			if hs != nil {
				_ = hs.Close()
				hs = nil
				step("Close(socks sub-listener)")
			}
		case 3:
			if hh != nil {
				_ = hh.Close()
				hh = nil
				step("Close(http sub-listener)")
			}
		case 4, 5, 6:
			first := 5
			if op == 5 {
				first = vfC18OtherBytes[(salt+i)%len(vfC18OtherBytes)]
			} else if op == 6 {
				first = -1
			}
			plen := []int{0, 1, 7, 300}[(salt+i)%4]
			var chunks func(int) []int
			if (salt+i)%3 == 1 {
				chunks = func(total int) []int { return []int{1, 1, 1} }
			}
			c := p.connect(first, plen, chunks, false)
			switch {
			case c.refused:
				step(fmt.Sprintf("%s connects: refused (port not listening)", c.name()))
			case first < 0:
				step(fmt.Sprintf("%s connects, sends nothing, closes", c.name()))
			default:
				step(fmt.Sprintf("%s connects, sends first byte %#02x + %d payload bytes", c.name(), first, plen))
			}
		}
		if !mode.Burst {
			synctest.Wait()
		}
	}
	synctest.Wait()
	if mode.Lazy {
		if hs != nil {
			p.acceptor("socks", hs)
			step("socks handler starts calling Accept")
		}
		if hh != nil {
			p.acceptor("http", hh)
			step("http handler starts calling Accept")
		}
		synctest.Wait()
	}
	step("-- quiescence --")
	res.verdicts, res.delivered, res.closed, res.refused, res.bytes = p.judge()
	if len(res.verdicts) == 0 {
		// teardown is itself a legal continuation of the schedule, so it is judged too
		if hs != nil {
			_ = hs.Close()
			step("teardown: Close(socks sub-listener)")
		}
		if hh != nil {
			_ = hh.Close()
			step("teardown: Close(http sub-listener)")
		}
		synctest.Wait()
		p.mu.Lock()
		alive := p.ml != nil
		p.mu.Unlock()
		if alive {
			// the main loop has not noticed that it is idle; the next connection wakes it
			c := p.connect(5, 3, nil, true)
			step(fmt.Sprintf("teardown: %s connects, sends first byte 0x05 + 3 payload bytes", c.name()))
			synctest.Wait()
		}
		step("-- quiescence --")
		res.verdicts, res.delivered, res.closed, res.refused, res.bytes = p.judge()
		p.mu.Lock()
		res.forced = p.ml != nil
		p.mu.Unlock()
	} else {
		if hs != nil {
			_ = hs.Close()
		}
		if hh != nil {
			_ = hh.Close()
		}
	}
	res.conns = len(p.conns)
	p.shutdown()
	synctest.Wait()
	res.stuck = int(p.live.Load())
	res.events = p.log.Len()
	res.log = p.log.Tail(60)
	return res
}

func vfC18Decode(idx, length int) []int {
	ops := make([]int, length)
	for i := length - 1; i >= 0; i-- {
		ops[i] = idx % 7
		idx /= 7
	}
	return ops
}

func vfC18OpsString(ops []int) string {
	s := make([]string, len(ops))
	for i, o := range ops {
		s[i] = vfC18OpNames[o]
	}
	return strings.Join(s, ", ")
}

func vfC18Report(k *vfKit, caseID string, mode vfC18Mode, ops []int, res vfC18SeqResult) {
	seen := map[string]bool{}
	for _, v := range res.verdicts {
		if seen[v.Key] {
			continue
		}
		seen[v.Key] = true
		k.Violation(v.Key, map[string]any{
			"case_id": caseID, "mode": mode, "ops": vfC18OpsString(ops), "schedule": res.schedule,
			"connection": v.Conn, "event_log_tail": res.log,
		}, "mode=%s schedule=[%s]: %s", mode.Name, strings.Join(res.schedule, " ; "), v.Detail)
	}
}

func TestVerifC18MuxEnum(t *testing.T) {
	k := vfNewKit(t, "C18", "mux-enum")
	defer k.Finish()
	// quick: every order up to length 5 in all six modes, length 6 in mode lazy;
	// thorough: up to length 7 in all six modes.
	maxLen := 6
	if !k.Quick() {
		maxLen = 7
	}
	type item struct {
		mode   int
		length int
		idx    int
	}
	var items []item
	var pruned int64
	for length := 0; length <= maxLen; length++ {
		total := 1
		for i := 0; i < length; i++ {
			total *= 7
		}
		for idx := 0; idx < total; idx++ {
			ops := vfC18Decode(idx, length)
			if vfC18StaticallyRedundant(ops) {
				pruned++
				continue
			}
			for m := range vfC18Modes {
				if k.Quick() && length == 6 && m != 1 {
					continue
				}
				items = append(items, item{m, length, idx})
			}
		}
	}
	k.Count("enumerated_sequences_pruned_as_redundant", pruned)
	const shards = 32
	var mu sync.Mutex
	var bad []vfC18Bad
	t.Run("shards", func(t *testing.T) {
		for s := 0; s < shards; s++ {
			s := s
			t.Run(fmt.Sprintf("%d", s), func(t *testing.T) {
				t.Parallel()
				synctest.Test(t, func(t *testing.T) {
					for i := s; i < len(items); i += shards {
						it := items[i]
						mode := vfC18Modes[it.mode]
						caseID := fmt.Sprintf("enum-%s-%d-%d", mode.Name, it.length, it.idx)
						if rc := k.ReplayCase(); rc != "" && rc != caseID {
							continue
						}
						ops := vfC18Decode(it.idx, it.length)
						res := vfC18RunSeq(mode, ops, it.idx)
						k.Eval()
						k.Count("enumerated_sequences_run", 1)
						k.Count("enumerated_len_"+fmt.Sprint(it.length)+"_"+mode.Name, 1)
						k.Count("ev_mux_events", int64(res.events))
						k.Count("ev_conns_delivered", int64(res.delivered))
						k.Count("ev_conns_closed_by_mux", int64(res.closed))
						k.Count("conns_refused", int64(res.refused))
						k.Count("ev_bytes_behind_detection_byte_checked", int64(res.bytes))
						if res.forced {
							k.Count("teardown_forced", 1)
						}
						if res.stuck > 0 {
							k.Count("harness_goroutines_stuck", int64(res.stuck))
						}
						if res.delivered+res.closed > 0 {
							k.Nontrivial(caseID)
						}
						if it.length == 4 && it.idx%401 == 0 {
							k.Sample(map[string]any{"mode": mode.Name, "schedule": res.schedule, "delivered": res.delivered, "closed_by_mux": res.closed})
						}
						if len(res.verdicts) > 0 {
							k.Count("schedules_violating", 1)
							mu.Lock()
							if len(bad) < 4000 {
								bad = append(bad, vfC18Bad{caseID, mode, ops, res, it.length*10 + it.mode})
							}
							mu.Unlock()
						}
					}
				})
			})
		}
	})
	// report the shortest witnesses first
	sort.SliceStable(bad, func(a, b int) bool { return bad[a].rank < bad[b].rank })
	reported := map[string]int{}
	for _, b := range bad {
		key := b.res.verdicts[0].Key
		if reported[key] >= 4 {
			continue
		}
		reported[key]++
		vfC18Report(k, b.caseID, b.mode, b.ops, b.res)
	}
	if k.Counter("ev_conns_delivered") == 0 && k.ReplayCase() == "" {
		k.Inconclusive("no connection was ever delivered to a sub-listener")
	}
}

type vfC18Bad struct {
	caseID string
	mode   vfC18Mode
	ops    []int
	res    vfC18SeqResult
	rank   int
}
