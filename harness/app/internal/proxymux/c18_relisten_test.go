//go:build verif

package proxymux

// C18 part "mux-relisten" (own child process: the outcome under test can be a process-fatal
// panic in a mux goroutine, which no recover() in the test can catch).
//
// Schedule H4 — a protocol is re-registered while the mux is shutting down and a connection
// is being dispatched:
//   1. ListenSOCKS -> sl1, handler accepting; c0 (0x05) is delivered (main loop now watches sl1).
//   2. c1 connects and sends nothing yet (its dispatch goroutine waits for the first byte).
//   3. Close(sl1): the main loop finds the mux idle and starts its exit path; its first step, the
//      manager's delete callback, is made to wait (gate in the harness-owned callback = the
//      manager lock being contended). base.Close() and close(closeChan) have not happened yet.
//   4. ListenSOCKS on the same mux (a caller that obtained it from GetOrCreate just before)
//      -> sl2 registered; nobody calls Accept on it yet.
//   5. c1 sends 0x05 + payload: dispatch picks sl2 and waits to hand the connection over.
//   6. the delete callback returns; the exit path finishes.
// Oracle as everywhere: c1 ends up returned by exactly one Accept or closed — and the process
// survives.
//
// Schedule H5 (fault injection, same mechanism reached without any re-registration): a
// connection waits to be handed over (handler not in Accept) when the base listener's
// Accept fails once (e.g. EMFILE); acceptLoop gives up and the mux shuts down.

import (
	"errors"
	"fmt"
	"net"
	"os"
	"strings"
	"testing"
	"testing/synctest"
)

func TestVerifC18MuxRelisten(t *testing.T) {
	k := vfNewKit(t, "C18", "mux-relisten")
	defer k.Finish()
	synctest.Test(t, func(t *testing.T) {
		for _, kind := range []string{"socks", "http"} {
			caseID := "rl-accept-error-" + kind
			if rc := k.ReplayCase(); rc != "" && rc != caseID {
				continue
			}
			k.Eval()
			first := 5
			if kind == "http" {
				first = 'P'
			}
			p := vfC18NewPort()
			var schedule []string
			step := func(s string) {
				schedule = append(schedule, s)
				fmt.Fprintf(os.Stderr, "VERIF-C18-SCHEDULE %s: %s\n", caseID, s)
			}
			ln, err := p.listen(kind)
			if err != nil {
				t.Fatalf("listen: %v", err)
			}
			synctest.Wait()
			p.mu.Lock()
			base := p.base
			p.mu.Unlock()
			c0 := p.connect(first, 10, nil, false)
			synctest.Wait()
			step(fmt.Sprintf("Listen(%s) ok, handler not in Accept; %s connects, sends first byte %#02x + 10 bytes: hand-over pending", kind, c0.name(), first))
			step("base listener Accept() fails once: accept4: too many open files")
			base.fail(errors.New("accept tcp 127.0.0.1:1080: accept4: too many open files"))
			synctest.Wait()
			vs, delivered, closed, _, _, _ := vfC18Settle(p, []net.Listener{ln}, func(s string) { schedule = append(schedule, s) })
			k.Count("ev_mux_events", int64(p.log.Len()))
			k.Count("ev_conns_delivered", int64(delivered))
			k.Count("ev_conns_closed_by_mux", int64(closed))
			k.Nontrivial(caseID)
			for _, v := range vs {
				k.Violation(v.Key, map[string]any{"case_id": caseID, "schedule": schedule, "connection": v.Conn, "event_log": p.log.Tail(60)},
					"H5 schedule=[%s]: %s", strings.Join(schedule, " ; "), v.Detail)
			}
		}
		for _, kind := range []string{"socks", "http"} {
			for _, lateAccept := range []bool{false, true} {
				caseID := fmt.Sprintf("rl-%s-late%v", kind, lateAccept)
				if rc := k.ReplayCase(); rc != "" && rc != caseID {
					continue
				}
				k.Eval()
				first := 5
				if kind == "http" {
					first = 'G'
				}
				p := vfC18NewPort()
				var schedule []string
				step := func(s string) {
					schedule = append(schedule, s)
					// the witness must survive a process-fatal panic: write it out as it happens
					fmt.Fprintf(os.Stderr, "VERIF-C18-SCHEDULE %s: %s\n", caseID, s)
				}
				ln1, err := p.listen(kind)
				if err != nil {
					t.Fatalf("listen: %v", err)
				}
				p.acceptor(kind, ln1)
				c0 := p.connect(first, 2, nil, false)
				synctest.Wait()
				step(fmt.Sprintf("Listen(%s) -> sl1, handler accepting; %s (first byte %#02x) delivered", kind, c0.name(), first))
				gate := make(chan struct{})
				c1 := p.connectOpt(first, 40, nil, false, vfC18ConnOpt{gate: gate})
				synctest.Wait()
				step(fmt.Sprintf("%s connects, sends nothing yet (dispatch waits for its first byte)", c1.name()))
				dg := make(chan struct{})
				p.gmu.Lock()
				p.deleteGate = dg
				p.gmu.Unlock()
				p.mu.Lock()
				ml := p.ml
				p.mu.Unlock()
				_ = ln1.Close()
				synctest.Wait()
				step("Close(sl1): main loop goes idle, exit path waits inside the manager's delete callback")
				reached := vfC18LogHas(p, "mux_delete_func_waiting", "")
				var ln2 net.Listener
				if kind == "socks" {
					ln2, err = ml.ListenSOCKS()
				} else {
					ln2, err = ml.ListenHTTP()
				}
				if err != nil {
					step("Listen(" + kind + ") on the same mux -> " + err.Error())
					reached = false
				} else {
					step("Listen(" + kind + ") on the same mux -> sl2 (no Accept call yet)")
				}
				close(gate)
				synctest.Wait()
				step(fmt.Sprintf("%s sends first byte %#02x + 40 payload bytes; dispatch picks sl2, hand-over pending", c1.name(), first))
				if lateAccept && ln2 != nil {
					p.acceptor(kind, ln2)
					synctest.Wait()
					step("handler starts calling Accept on sl2")
				}
				p.gmu.Lock()
				p.deleteGate = nil
				p.gmu.Unlock()
				step("delete callback returns; exit path continues: base.Close(), close(closeChan), sub-listener channels closed")
				close(dg)
				synctest.Wait()
				handles := []net.Listener{ln2}
				if ln2 == nil {
					handles = nil
				}
				vs, delivered, closed, _, nbytes, _ := vfC18Settle(p, handles, func(s string) { schedule = append(schedule, s) })
				k.Count("ev_mux_events", int64(p.log.Len()))
				k.Count("ev_conns_delivered", int64(delivered))
				k.Count("ev_conns_closed_by_mux", int64(closed))
				k.Count("ev_bytes_behind_detection_byte_checked", int64(nbytes))
				if !reached {
					k.Inconclusive(caseID + ": the intended interleaving was not reached")
					continue
				}
				k.Nontrivial(caseID)
				k.Sample(map[string]any{"case": caseID, "schedule": schedule, "delivered": delivered, "closed_by_mux": closed})
				seen := map[string]bool{}
				for _, v := range vs {
					if seen[v.Key] {
						continue
					}
					seen[v.Key] = true
					k.Violation(v.Key, map[string]any{"case_id": caseID, "schedule": schedule, "connection": v.Conn, "event_log": p.log.Tail(60)},
						"H4 schedule=[%s]: %s", strings.Join(schedule, " ; "), v.Detail)
				}
			}
		}
	})
}
