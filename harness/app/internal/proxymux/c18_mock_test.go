//go:build verif

package proxymux

// C18 fakes, identical in packages socks5, http and proxymux (only the package clause
// differs; edit the socks5 copy and re-generate the others):
//   vfC18HyClient   mock client.Client that logs every TCP()/UDP() call BEFORE returning and
//                   hands out recording upstream conns with scripted replies;
//   vfC18Auth       AuthFunc recorder that logs (user, pass, verdict) BEFORE returning;
//   vfC18Script     scripted local client connection (a net.Conn whose Read hands out the
//                   client's byte stream in a chosen chunking incl. zero-length reads and
//                   records everything the server writes back);
//   vfC18Payload    offset-coded payloads; vfC18Chunking  chunk-size generators.
// All blocking is done with sync.Cond, which is durably blocking inside synctest bubbles.

import (
	"bytes"
	"encoding/binary"
	"errors"
	"fmt"
	"io"
	"math/rand"
	"net"
	"sync"
	"time"

	"github.com/apernet/hysteria/core/v2/client"
)

type vfC18NetAddr string

func (a vfC18NetAddr) Network() string { return "tcp" }
func (a vfC18NetAddr) String() string  { return string(a) }

// vfC18Payload: bytes encoding (tag, offset) every 8 bytes.
func vfC18Payload(tag uint32, n int) []byte {
	b := make([]byte, n)
	var w [8]byte
	for off := 0; off < n; off += 8 {
		binary.BigEndian.PutUint32(w[:4], tag|0x80000000)
		binary.BigEndian.PutUint32(w[4:], uint32(off))
		copy(b[off:], w[:])
	}
	return b
}

// vfC18FirstDiff describes where got departs from want.
func vfC18FirstDiff(want, got []byte) string {
	n := len(want)
	if len(got) < n {
		n = len(got)
	}
	at := n
	for i := 0; i < n; i++ {
		if want[i] != got[i] {
			at = i
			break
		}
	}
	lo := at - 4
	if lo < 0 {
		lo = 0
	}
	hw, hg := at+12, at+12
	if hw > len(want) {
		hw = len(want)
	}
	if hg > len(got) {
		hg = len(got)
	}
	if lo > hg {
		lo = hg
	}
	return fmt.Sprintf("got %d bytes, want %d; first difference at offset %d: want[%d:%d]=%x got[%d:%d]=%x",
		len(got), len(want), at, lo, hw, want[lo:hw], lo, hg, got[lo:hg])
}

// ---------------------------------------------------------------------------- upstream

type vfC18Upstream struct {
	addr string
	seq  int

	mu         sync.Mutex
	cond       *sync.Cond
	wr         []byte // bytes the server under test wrote upstream
	writes     int
	reply      []byte // scripted reply not yet handed out
	afterHdr   bool   // hold the reply back until wr contains CRLF CRLF (HTTP request head)
	readChunk  int
	closed     bool
	closeCalls int
}

func (u *vfC18Upstream) Read(b []byte) (int, error) {
	u.mu.Lock()
	defer u.mu.Unlock()
	for {
		if u.closed {
			return 0, io.EOF
		}
		if len(b) == 0 {
			return 0, nil
		}
		if len(u.reply) > 0 && (!u.afterHdr || bytes.Contains(u.wr, []byte("\r\n\r\n"))) {
			n := len(u.reply)
			if u.readChunk > 0 && n > u.readChunk {
				n = u.readChunk
			}
			if n > len(b) {
				n = len(b)
			}
			copy(b, u.reply[:n])
			u.reply = u.reply[n:]
			return n, nil
		}
		u.cond.Wait()
	}
}

func (u *vfC18Upstream) Write(b []byte) (int, error) {
	u.mu.Lock()
	defer u.mu.Unlock()
	if u.closed {
		return 0, net.ErrClosed
	}
	u.wr = append(u.wr, b...)
	u.writes++
	u.cond.Broadcast()
	return len(b), nil
}

func (u *vfC18Upstream) Close() error {
	u.mu.Lock()
	defer u.mu.Unlock()
	u.closed = true
	u.closeCalls++
	u.cond.Broadcast()
	return nil
}

func (u *vfC18Upstream) Written() []byte {
	u.mu.Lock()
	defer u.mu.Unlock()
	return append([]byte(nil), u.wr...)
}

func (u *vfC18Upstream) LocalAddr() net.Addr                { return vfC18NetAddr("10.9.9.9:9") }
func (u *vfC18Upstream) RemoteAddr() net.Addr               { return vfC18NetAddr(u.addr) }
func (u *vfC18Upstream) SetDeadline(t time.Time) error      { return nil }
func (u *vfC18Upstream) SetReadDeadline(t time.Time) error  { return nil }
func (u *vfC18Upstream) SetWriteDeadline(t time.Time) error { return nil }

type vfC18HyUDP struct {
	mu     sync.Mutex
	cond   *sync.Cond
	closed bool
	sent   int
}

func (h *vfC18HyUDP) Receive() ([]byte, string, error) {
	h.mu.Lock()
	defer h.mu.Unlock()
	for !h.closed {
		h.cond.Wait()
	}
	return nil, "", net.ErrClosed
}

func (h *vfC18HyUDP) Send(b []byte, addr string) error {
	h.mu.Lock()
	defer h.mu.Unlock()
	h.sent++
	return nil
}

func (h *vfC18HyUDP) Close() error {
	h.mu.Lock()
	defer h.mu.Unlock()
	h.closed = true
	h.cond.Broadcast()
	return nil
}

// vfC18HyClient is the mock Hysteria client. Event kinds: "dial" (Tag = address) and
// "udp_open"; both are appended to the shared log before the call returns.
type vfC18HyClient struct {
	log *vfLog
	// reply(addr) gives the scripted upstream reply and whether it waits for a request head
	reply   func(addr string) ([]byte, bool)
	dialErr func(addr string) error

	mu   sync.Mutex
	ups  []*vfC18Upstream
	udps []*vfC18HyUDP
}

func (c *vfC18HyClient) TCP(addr string) (net.Conn, error) {
	c.mu.Lock()
	u := &vfC18Upstream{addr: addr, seq: len(c.ups)}
	u.cond = sync.NewCond(&u.mu)
	if c.reply != nil {
		u.reply, u.afterHdr = c.reply(addr)
	}
	u.readChunk = 1 + (u.seq*7)%1500
	c.ups = append(c.ups, u)
	c.mu.Unlock()
	c.log.Add("dial", addr, int64(u.seq), nil)
	if c.dialErr != nil {
		if err := c.dialErr(addr); err != nil {
			return nil, err
		}
	}
	return u, nil
}

func (c *vfC18HyClient) UDP() (client.HyUDPConn, error) {
	h := &vfC18HyUDP{}
	h.cond = sync.NewCond(&h.mu)
	c.mu.Lock()
	c.udps = append(c.udps, h)
	c.mu.Unlock()
	c.log.Add("udp_open", "", 0, nil)
	return h, nil
}

func (c *vfC18HyClient) Close() error { return nil }

func (c *vfC18HyClient) Upstreams() []*vfC18Upstream {
	c.mu.Lock()
	defer c.mu.Unlock()
	return append([]*vfC18Upstream(nil), c.ups...)
}

func (c *vfC18HyClient) CloseAll() {
	c.mu.Lock()
	ups := append([]*vfC18Upstream(nil), c.ups...)
	udps := append([]*vfC18HyUDP(nil), c.udps...)
	c.mu.Unlock()
	for _, u := range ups {
		_ = u.Close()
	}
	for _, h := range udps {
		_ = h.Close()
	}
}

// ---------------------------------------------------------------------------- AuthFunc

// vfC18Auth records every AuthFunc call: "auth_ok"/"auth_reject" with Tag = user and the
// password in F, appended BEFORE the verdict is returned to the server under test.
type vfC18Auth struct {
	log *vfLog
	mu  sync.Mutex
	ok  map[string]string // user -> password that is accepted
}

func vfC18NewAuth(log *vfLog) *vfC18Auth { return &vfC18Auth{log: log, ok: map[string]string{}} }

func (a *vfC18Auth) Allow(user, pass string) {
	a.mu.Lock()
	a.ok[user] = pass
	a.mu.Unlock()
}

// Revoke removes a registered pair: from now on the AuthFunc rejects it.
func (a *vfC18Auth) Revoke(user string) {
	a.mu.Lock()
	delete(a.ok, user)
	a.mu.Unlock()
}

// vfC18Accepted reports whether the log holds an auth_ok event for exactly (user, pass)
// before position seq.
func vfC18Accepted(evs []vfEvent, seq int, user, pass string) bool {
	for _, e := range evs {
		if e.Seq >= seq {
			break
		}
		if e.Kind == "auth_ok" && e.Tag == user {
			if p, _ := e.F["pass"].(string); p == pass {
				return true
			}
		}
	}
	return false
}

func (a *vfC18Auth) Func(user, pass string) bool {
	a.mu.Lock()
	p, known := a.ok[user]
	a.mu.Unlock()
	verdict := known && p == pass
	kind := "auth_reject"
	if verdict {
		kind = "auth_ok"
	}
	a.log.Add(kind, user, 0, map[string]any{"pass": pass})
	return verdict
}

// ---------------------------------------------------------------------------- local client conn

var vfC18ErrClosed = errors.New("vfC18Script: closed")

// vfC18Script is the local client's connection as seen by the server under test.
// Read hands out the client's stream in the scripted chunk sizes (a 0 entry is a
// zero-length read returning (0, nil)); after the stream it returns io.EOF (the client
// has shut down its sending side). Write records what the server sends to the client.
type vfC18Script struct {
	name string

	mu         sync.Mutex
	stream     []byte
	chunks     []int // sizes of successive reads; exhausted -> rest in one read
	pos        int
	ci         int
	curLeft    int
	reads      int
	zeroReads  int
	out        []byte
	closed     bool
	closeCalls int
	local      string
}

func vfC18NewScript(name string, stream []byte, chunks []int) *vfC18Script {
	return &vfC18Script{name: name, stream: stream, chunks: chunks, local: "127.0.0.1:1080"}
}

func (s *vfC18Script) Read(b []byte) (int, error) {
	s.mu.Lock()
	defer s.mu.Unlock()
	if s.closed {
		return 0, vfC18ErrClosed
	}
	s.reads++
	if len(b) == 0 {
		return 0, nil
	}
	if s.pos >= len(s.stream) {
		return 0, io.EOF
	}
	remaining := len(s.stream) - s.pos
	if s.curLeft == 0 {
		if s.ci < len(s.chunks) {
			c := s.chunks[s.ci]
			s.ci++
			if c == 0 {
				s.zeroReads++
				return 0, nil
			}
			s.curLeft = c
		} else {
			s.curLeft = remaining
		}
	}
	// a reader buffer smaller than the scripted chunk leaves the rest of the chunk
	// available for the next read (same as a kernel socket)
	n := s.curLeft
	if n > remaining {
		n = remaining
	}
	if n > len(b) {
		n = len(b)
	}
	s.curLeft -= n
	if n == remaining {
		s.curLeft = 0
	}
	copy(b, s.stream[s.pos:s.pos+n])
	s.pos += n
	return n, nil
}

func (s *vfC18Script) Write(b []byte) (int, error) {
	s.mu.Lock()
	defer s.mu.Unlock()
	if s.closed {
		return 0, vfC18ErrClosed
	}
	s.out = append(s.out, b...)
	return len(b), nil
}

func (s *vfC18Script) Close() error {
	s.mu.Lock()
	defer s.mu.Unlock()
	s.closed = true
	s.closeCalls++
	return nil
}

func (s *vfC18Script) Out() []byte {
	s.mu.Lock()
	defer s.mu.Unlock()
	return append([]byte(nil), s.out...)
}

func (s *vfC18Script) Consumed() int {
	s.mu.Lock()
	defer s.mu.Unlock()
	return s.pos
}

func (s *vfC18Script) LocalAddr() net.Addr                { return vfC18NetAddr(s.local) }
func (s *vfC18Script) RemoteAddr() net.Addr               { return vfC18NetAddr("127.0.0.1:" + s.name) }
func (s *vfC18Script) SetDeadline(t time.Time) error      { return nil }
func (s *vfC18Script) SetReadDeadline(t time.Time) error  { return nil }
func (s *vfC18Script) SetWriteDeadline(t time.Time) error { return nil }

// vfC18Chunking returns read sizes for a stream of total bytes whose header part is hdr
// bytes long. Modes: 0 everything in one read (payload in the same segment as the header),
// 1 one byte at a time through the header then the rest, 2 random splits, 3 random splits
// with zero-length reads sprinkled in, 4 split exactly at the header boundary, 5 header in
// one read plus the first k payload bytes, 6 one byte at a time for everything (small totals).
func vfC18Chunking(r *rand.Rand, mode, total, hdr int) []int {
	var out []int
	switch mode {
	case 0:
		out = []int{total}
	case 1:
		for i := 0; i < hdr+2 && i < total; i++ {
			out = append(out, 1)
		}
	case 2, 3:
		left := total
		for left > 0 && len(out) < 4000 {
			var c int
			switch r.Intn(4) {
			case 0:
				c = 1
			case 1:
				c = 1 + r.Intn(8)
			case 2:
				c = 1 + r.Intn(600)
			default:
				c = 1 + r.Intn(9000)
			}
			if c > left {
				c = left
			}
			if mode == 3 && r.Intn(4) == 0 {
				out = append(out, 0)
			}
			out = append(out, c)
			left -= c
		}
	case 4:
		out = []int{hdr}
	case 5:
		k := 0
		if total > hdr {
			k = 1 + r.Intn(total-hdr)
		}
		out = []int{hdr + k}
	case 6:
		for i := 0; i < total && i < 3000; i++ {
			out = append(out, 1)
		}
	}
	return out
}
