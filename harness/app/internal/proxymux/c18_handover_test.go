//go:build verif

package proxymux

// C18 parts over the fake base listener, all inside synctest bubbles:
//
//   mux-handover  targeted schedules in which the hand-over of a connection races with a
//                 Close, made deterministic by gates in the fakes the harness owns:
//                 H1 hand-over pending (handler not in Accept) when the sub-listener closes;
//                 H2 base.Accept() has returned a connection but the accepting goroutine is
//                    delayed (Accept return gate) while the last sub-listener closes and the
//                    mux shuts down;
//                 H3 the first byte arrives only after the sub-listener closed (and,
//                    optionally, after a new mux took over the port);
//                 H6 a protocol is closed and registered again before the main loop has
//                    processed the close (order forced through the mux's own mutex: the
//                    harness holds it, the re-registration queues on it, then Close() wakes
//                    the main loop which queues behind; goroutine states are read from
//                    runtime.Stack, no sleeps): the new sub-listener must stay registered —
//                    later connections of that protocol are delivered to it, its Accept
//                    does not fail, the mux stays up (with and without the other protocol).
//   mux-bytes     both handlers registered; connections with every first byte value 0..255,
//                 payloads 0..64 KiB, client-side chunking incl. 1-byte writes, handler reads
//                 with zero-length / 1-byte / random buffers: routing by first byte and exact
//                 byte-for-byte replay (detection byte exactly once, then the rest).
//   mux-e2e       the real socks5.Server and http.Server Serve() the two sub-listeners with
//                 a mock Hysteria client; clients pipeline a whole session (negotiation,
//                 request, payload) in one stream: the payload must reach the mock upstream
//                 unmodified.

import (
	"bytes"
	"encoding/base64"
	"encoding/binary"
	"fmt"
	"net"
	"runtime"
	"strings"
	"testing"
	"testing/synctest"

	hyhttp "github.com/apernet/hysteria/app/v2/internal/http"
	hysocks5 "github.com/apernet/hysteria/app/v2/internal/socks5"
)

// vfC18Settle runs the common end of a scenario: judge at quiescence; if clean, tear the
// listeners down (a legal continuation, judged again); release everything.
func vfC18Settle(p *vfC18Port, handles []net.Listener, step func(string)) (vs []vfC18Verdict, delivered, closed, refused, nbytes int, stuck int) {
	synctest.Wait()
	step("-- quiescence --")
	vs, delivered, closed, refused, nbytes = p.judge()
	for _, h := range handles {
		if h != nil {
			_ = h.Close()
		}
	}
	if len(vs) == 0 {
		step("teardown: remaining sub-listeners closed")
		synctest.Wait()
		p.mu.Lock()
		alive := p.ml != nil
		p.mu.Unlock()
		if alive {
			c := p.connect(5, 3, nil, true)
			step(fmt.Sprintf("teardown: %s connects, sends first byte 0x05 + 3 payload bytes", c.name()))
			synctest.Wait()
		}
		step("-- quiescence --")
		vs, delivered, closed, refused, nbytes = p.judge()
	}
	p.shutdown()
	synctest.Wait()
	stuck = int(p.live.Load())
	return
}

// vfC18WaitParkedOnMutex polls (scheduler yields, no clock) until some goroutine whose
// stack contains frame is blocked in sync.Mutex.Lock.
func vfC18WaitParkedOnMutex(frame string) bool {
	buf := make([]byte, 1<<20)
	for i := 0; i < 20000; i++ {
		n := runtime.Stack(buf, true)
		for _, g := range strings.Split(string(buf[:n]), "\n\n") {
			nl := strings.IndexByte(g, '\n')
			if nl < 0 {
				continue
			}
			if strings.Contains(g[:nl], "[sync.Mutex.Lock") && strings.Contains(g, frame) {
				return true
			}
		}
		runtime.Gosched()
	}
	return false
}

func vfC18LogHas(p *vfC18Port, kind, tag string) bool {
	for _, e := range p.log.Snapshot() {
		if e.Kind == kind && (tag == "" || e.Tag == tag) {
			return true
		}
	}
	return false
}

func TestVerifC18MuxHandover(t *testing.T) {
	k := vfNewKit(t, "C18", "mux-handover")
	defer k.Finish()
	type scen struct {
		name   string
		kind   string
		other  bool // the other protocol's sub-listener is registered too (the mux does not go idle)
		plen   int
		relist bool
	}
	var scens []scen
	for _, name := range []string{"H1", "H2", "H3", "H6"} {
		for _, kind := range []string{"socks", "http"} {
			for _, other := range []bool{false, true} {
				for _, plen := range []int{0, 1, 300, 70000} {
					scens = append(scens, scen{name: name, kind: kind, other: other, plen: plen})
					if name == "H3" {
						scens = append(scens, scen{name: name, kind: kind, other: other, plen: plen, relist: true})
					}
				}
			}
		}
	}
	synctest.Test(t, func(t *testing.T) {
		for si, sc := range scens {
			caseID := fmt.Sprintf("ho-%s-%s-other%v-%d-relist%v", sc.name, sc.kind, sc.other, sc.plen, sc.relist)
			if rc := k.ReplayCase(); rc != "" && rc != caseID {
				continue
			}
			k.Eval()
			p := vfC18NewPort()
			var schedule []string
			step := func(s string) { schedule = append(schedule, s) }
			first := 5
			otherKind := "http"
			if sc.kind == "http" {
				first = vfC18OtherBytes[si%len(vfC18OtherBytes)]
				otherKind = "socks"
			}
			p.strictLiveness = sc.name == "H6"
			var handles []net.Listener
			ln, err := p.listen(sc.kind)
			if err != nil {
				t.Fatalf("listen: %v", err)
			}
			step("Listen(" + sc.kind + ") -> ok")
			if sc.other {
				lo, err := p.listen(otherKind)
				if err != nil {
					t.Fatalf("listen: %v", err)
				}
				step("Listen(" + otherKind + ") -> ok, its handler calls Accept")
				p.acceptor(otherKind, lo)
				handles = append(handles, lo)
			}
			synctest.Wait()
			reached := true
			switch sc.name {
			case "H1":
				c := p.connect(first, sc.plen, nil, false)
				step(fmt.Sprintf("%s connects, sends first byte %#02x + %d payload bytes; the %s handler is not in Accept, hand-over pending", c.name(), first, sc.plen, sc.kind))
				synctest.Wait()
				_ = ln.Close()
				step("Close(" + sc.kind + " sub-listener)")
			case "H2":
				p.acceptor(sc.kind, ln)
				c1 := p.connect(first, 2, nil, false)
				step(fmt.Sprintf("%s handler calls Accept; %s connects with first byte %#02x and is delivered", sc.kind, c1.name(), first))
				synctest.Wait()
				p.mu.Lock()
				base := p.base
				p.mu.Unlock()
				base.setHold(make(chan struct{}))
				c2 := p.connect(first, sc.plen, nil, false)
				synctest.Wait()
				step(fmt.Sprintf("%s connects (first byte %#02x + %d bytes); base.Accept() takes it, its return to acceptLoop is delayed", c2.name(), first, sc.plen))
				_ = ln.Close()
				step("Close(" + sc.kind + " sub-listener)")
				synctest.Wait()
				if !sc.other && !vfC18LogHas(p, "mux_deleted", "") {
					reached = false
				}
				if !vfC18LogHas(p, "base_accept_return_delayed", c2.name()) {
					reached = false
				}
				base.releaseHold()
				step("base.Accept() returns " + c2.name() + " to acceptLoop")
			case "H6":
				p.acceptor(sc.kind, ln)
				c0 := p.connect(first, 2, nil, false)
				synctest.Wait()
				step(fmt.Sprintf("%s handler calls Accept; %s (first byte %#02x) delivered, so the main loop watches this sub-listener", sc.kind, c0.name(), first))
				p.mu.Lock()
				ml := p.ml
				p.mu.Unlock()
				var ln2 net.Listener
				var err2 error
				done := make(chan struct{})
				ml.lock.Lock()
				go func() {
					ln2, err2 = p.listen(sc.kind) // queues on ml.lock
					close(done)
				}()
				ok1 := vfC18WaitParkedOnMutex("proxymux.(*vfC18Port).listen")
				_ = ln.Close()
				ok2 := vfC18WaitParkedOnMutex("proxymux.(*muxListener).mainLoop")
				ml.lock.Unlock()
				<-done
				synctest.Wait()
				step("Close(" + sc.kind + " sub-listener) and Listen(" + sc.kind + ") again, the re-registration reaching the mux's mutex before the main loop does")
				if !ok1 || !ok2 {
					reached = false
				}
				if err2 != nil {
					step("re-registration failed: " + err2.Error())
					reached = false
					break
				}
				p.acceptor(sc.kind, ln2)
				handles = append(handles, ln2)
				for i := 0; i < 3; i++ {
					c := p.connect(first, sc.plen, nil, false)
					step(fmt.Sprintf("%s connects, sends first byte %#02x + %d payload bytes", c.name(), first, sc.plen))
					synctest.Wait()
				}
			case "H3":
				p.acceptor(sc.kind, ln)
				gate := make(chan struct{})
				c := p.connectOpt(first, sc.plen, nil, false, vfC18ConnOpt{gate: gate})
				step(fmt.Sprintf("%s handler calls Accept; %s connects and sends nothing yet", sc.kind, c.name()))
				synctest.Wait()
				_ = ln.Close()
				step("Close(" + sc.kind + " sub-listener)")
				synctest.Wait()
				if sc.relist {
					ln2, err := p.listen(sc.kind)
					if err == nil {
						p.acceptor(sc.kind, ln2)
						handles = append(handles, ln2)
						step("Listen(" + sc.kind + ") again -> ok, handler calls Accept")
					} else {
						step("Listen(" + sc.kind + ") again -> " + err.Error())
					}
					synctest.Wait()
				}
				close(gate)
				step(fmt.Sprintf("%s now sends first byte %#02x + %d payload bytes", c.name(), first, sc.plen))
			}
			vs, delivered, closed, _, nbytes, stuck := vfC18Settle(p, handles, step)
			k.Count("ev_mux_events", int64(p.log.Len()))
			k.Count("ev_conns_delivered", int64(delivered))
			k.Count("ev_conns_closed_by_mux", int64(closed))
			k.Count("ev_bytes_behind_detection_byte_checked", int64(nbytes))
			if stuck > 0 {
				k.Count("harness_goroutines_stuck", int64(stuck))
			}
			if !reached {
				k.Inconclusive(caseID + ": the intended interleaving was not reached")
				continue
			}
			k.Nontrivial(caseID)
			if si%13 == 0 {
				k.Sample(map[string]any{"case": caseID, "schedule": schedule, "delivered": delivered, "closed_by_mux": closed})
			}
			seen := map[string]bool{}
			for _, v := range vs {
				if seen[v.Key] {
					continue
				}
				seen[v.Key] = true
				k.Violation(v.Key, map[string]any{"case_id": caseID, "schedule": schedule, "connection": v.Conn, "event_log": p.log.Tail(60)},
					"%s schedule=[%s]: %s", sc.name, strings.Join(schedule, " ; "), v.Detail)
			}
		}
	})
}

func TestVerifC18MuxBytes(t *testing.T) {
	k := vfNewKit(t, "C18", "mux-bytes")
	defer k.Finish()
	n := k.N(900, 80000)
	sizes := []int{0, 1, 2, 7, 255, 4095, 4096, 32768, 65535, 65536}
	synctest.Test(t, func(t *testing.T) {
		const batch = 30
		for b0 := 0; b0 < n; b0 += batch {
			caseID := fmt.Sprintf("mb-%d", b0/batch)
			if rc := k.ReplayCase(); rc != "" && rc != caseID {
				continue
			}
			r := k.Rand(caseID)
			p := vfC18NewPort()
			// handler read sizes: zero-length, 1-byte and random buffers
			pattern := make([]int, 64)
			for i := range pattern {
				switch r.Intn(5) {
				case 0:
					pattern[i] = 0
				case 1:
					pattern[i] = 1
				case 2:
					pattern[i] = 1 + r.Intn(16)
				default:
					pattern[i] = 1 + r.Intn(40000)
				}
			}
			pattern[0] = []int{0, 1, 1, 2, 4096}[r.Intn(5)]
			p.readSizes = func(i int) int { return pattern[i%len(pattern)] }
			p.strictLiveness = true
			hs, err1 := p.listen("socks")
			hh, err2 := p.listen("http")
			if err1 != nil || err2 != nil {
				t.Fatalf("listen: %v %v", err1, err2)
			}
			p.acceptor("socks", hs)
			p.acceptor("http", hh)
			var desc []map[string]any
			for i := b0; i < b0+batch && i < n; i++ {
				k.Eval()
				first := i % 256
				if i >= 512 {
					first = r.Intn(256)
					if r.Intn(3) == 0 {
						first = 5
					}
				}
				plen := sizes[i%len(sizes)]
				if i >= 300 {
					plen = r.Intn(65537)
					if r.Intn(2) == 0 {
						plen = r.Intn(64)
					}
				}
				mode := r.Intn(7)
				total := plen + 1
				if mode == 6 && total > 2000 {
					mode = 2
				}
				sizesC := vfC18Chunking(r, mode, total, 1)
				c := p.connect(first, plen, func(int) []int { return sizesC }, false)
				desc = append(desc, map[string]any{"conn": c.name(), "first": first, "payload": plen, "chunk_mode": mode})
				k.Nontrivial(fmt.Sprintf("%d/%d/%d/%d", first, plen, mode, pattern[0]))
			}
			schedule := []string{"ListenSOCKS, ListenHTTP, both handlers accepting", fmt.Sprintf("%d clients connect concurrently", len(desc))}
			vs, delivered, closed, _, nbytes, stuck := vfC18Settle(p, []net.Listener{hs, hh}, func(s string) { schedule = append(schedule, s) })
			k.Count("ev_mux_events", int64(p.log.Len()))
			k.Count("ev_conns_delivered", int64(delivered))
			k.Count("ev_conns_closed_by_mux", int64(closed))
			k.Count("ev_bytes_behind_detection_byte_checked", int64(nbytes))
			if stuck > 0 {
				k.Count("harness_goroutines_stuck", int64(stuck))
			}
			if vfC18LogHas(p, "zero_read_bad", "") {
				vs = append(vs, vfC18Verdict{"mux:zero-length-read-consumed-or-failed", "a zero-length Read on a delivered connection returned n!=0 or an error before the detection byte was read", ""})
			}
			if b0 == 0 {
				k.Sample(map[string]any{"case": caseID, "handler_read_sizes": pattern[:12], "conns": desc[:6]})
			}
			seen := map[string]bool{}
			for _, v := range vs {
				if seen[v.Key] {
					continue
				}
				seen[v.Key] = true
				k.Violation(v.Key, map[string]any{"case_id": caseID, "handler_read_sizes": pattern, "conns": desc, "connection": v.Conn, "schedule": schedule},
					"%s: %s (handler read sizes start %v)", v.Conn, v.Detail, pattern[:6])
			}
		}
	})
	if k.ReplayCase() == "" && k.Counter("ev_conns_delivered") == 0 {
		k.Inconclusive("nothing was delivered")
	}
}

// ---------------------------------------------------------------------------- e2e

func vfC18SocksSession(host string, port int, user, pass string, payload []byte) []byte {
	var b []byte
	if user == "" {
		b = append(b, 5, 1, 0)
	} else {
		b = append(b, 5, 2, 0, 2)
		b = append(b, 1, byte(len(user)))
		b = append(b, user...)
		b = append(b, byte(len(pass)))
		b = append(b, pass...)
	}
	b = append(b, 5, 1, 0, 3, byte(len(host)))
	b = append(b, host...)
	var pp [2]byte
	binary.BigEndian.PutUint16(pp[:], uint16(port))
	b = append(b, pp[:]...)
	return append(b, payload...)
}

func vfC18HTTPSession(method byte, host string, port int, user, pass string, payload []byte) []byte {
	target := net.JoinHostPort(host, fmt.Sprint(port))
	head := "CONNECT " + target + " HTTP/1.1\r\nHost: " + target + "\r\n"
	if user != "" {
		head += "Proxy-Authorization: Basic " + base64.StdEncoding.EncodeToString([]byte(user+":"+pass)) + "\r\n"
	}
	head += "\r\n"
	return append([]byte(head), payload...)
}

func TestVerifC18MuxE2E(t *testing.T) {
	k := vfNewKit(t, "C18", "mux-e2e")
	defer k.Finish()
	n := k.N(300, 24000)
	sizes := []int{0, 1, 7, 4095, 4096, 4097, 65536}
	synctest.Test(t, func(t *testing.T) {
		const batch = 20
		for b0 := 0; b0 < n; b0 += batch {
			caseID := fmt.Sprintf("e2e-%d", b0/batch)
			if rc := k.ReplayCase(); rc != "" && rc != caseID {
				continue
			}
			r := k.Rand(caseID)
			withAuth := (b0/batch)%2 == 1
			p := vfC18NewPort()
			p.strictLiveness = true
			log := p.log
			hy := &vfC18HyClient{log: log}
			hy.reply = func(addr string) ([]byte, bool) { return []byte("downstream:" + addr), false }
			auth := vfC18NewAuth(log)
			ss := &hysocks5.Server{HyClient: hy}
			hs := &hyhttp.Server{HyClient: hy}
			if withAuth {
				ss.AuthFunc, hs.AuthFunc = auth.Func, auth.Func
			}
			ls, err1 := p.listen("socks")
			lh, err2 := p.listen("http")
			if err1 != nil || err2 != nil {
				t.Fatalf("listen: %v %v", err1, err2)
			}
			go func() { _ = ss.Serve(&vfC18RecListener{Listener: ls, p: p, kind: "socks"}) }()
			go func() { _ = hs.Serve(&vfC18RecListener{Listener: lh, p: p, kind: "http"}) }()
			type sess struct {
				c       *vfC18Conn
				target  string
				payload []byte
				proto   string
				mode    int
			}
			var sessions []sess
			for i := b0; i < b0+batch && i < n; i++ {
				k.Eval()
				plen := sizes[i%len(sizes)]
				if i >= 5*len(sizes) {
					plen = r.Intn(65537)
				}
				host := fmt.Sprintf("e2e-%d.c18.example", i)
				port := 20000 + i%30000
				user, pass := "", ""
				if withAuth {
					user, pass = fmt.Sprintf("user-%d", i), fmt.Sprintf("pw:%d", i)
					auth.Allow(user, pass)
				}
				payload := vfC18Coded(uint32(i), plen)
				var stream []byte
				proto := "socks"
				if i%2 == 1 {
					proto = "http"
					stream = vfC18HTTPSession('C', host, port, user, pass, payload)
				} else {
					stream = vfC18SocksSession(host, port, user, pass, payload)
				}
				mode := r.Intn(7)
				if mode == 6 && len(stream) > 2000 {
					mode = 1
				}
				chunks := vfC18Chunking(r, mode, len(stream), len(stream)-plen)
				c := p.connectOpt(0, 0, func(int) []int { return chunks }, false, vfC18ConnOpt{stream: stream, drain: true, keepOpen: true})
				sessions = append(sessions, sess{c, net.JoinHostPort(host, fmt.Sprint(port)), payload, proto, mode})
			}
			synctest.Wait()
			ups := map[string]*vfC18Upstream{}
			for _, u := range hy.Upstreams() {
				ups[u.addr] = u
			}
			for _, s := range sessions {
				replay := map[string]any{"case_id": caseID, "conn": s.c.name(), "proto": s.proto, "target": s.target, "payload_len": len(s.payload),
					"chunk_mode": s.mode, "auth": withAuth, "stream_hex": vfHex(s.c.data), "log_tail": log.Tail(40)}
				u := ups[s.target]
				if u == nil {
					k.Violation("mux:e2e-session-not-relayed", replay, "%s session of %s through the shared port never reached the upstream %s (client got %q)", s.proto, s.c.name(), s.target, vfHex(s.c.cliGot))
					continue
				}
				got := u.Written()
				k.Count("ev_e2e_sessions_relayed", 1)
				k.Count("ev_e2e_upstream_bytes", int64(len(got)))
				if !bytes.Equal(got, s.payload) {
					k.Violation("mux:e2e-pipelined-bytes-altered", replay, "%s session of %s: upstream %s %s", s.proto, s.c.name(), s.target, vfC18FirstDiff(s.payload, got))
				}
				if len(s.payload) > 0 {
					k.Nontrivial(fmt.Sprintf("%s/%d/%d/%v", s.proto, len(s.payload), s.mode, withAuth))
				}
			}
			schedule := []string{"socks5.Server and http.Server Serve() the sub-listeners", fmt.Sprintf("%d pipelined sessions", len(sessions))}
			for _, s := range sessions {
				_ = s.c.cli.Close()
			}
			hy.CloseAll()
			vs, delivered, closed, _, _, stuck := vfC18Settle(p, []net.Listener{ls, lh}, func(s string) { schedule = append(schedule, s) })
			hy.CloseAll()
			synctest.Wait()
			k.Count("ev_mux_events", int64(p.log.Len()))
			k.Count("ev_conns_delivered", int64(delivered))
			k.Count("ev_conns_closed_by_mux", int64(closed))
			if stuck > 0 {
				k.Count("harness_goroutines_stuck", int64(stuck))
			}
			for _, v := range vs {
				k.Violation(v.Key, map[string]any{"case_id": caseID, "schedule": schedule, "connection": v.Conn, "event_log": p.log.Tail(60)}, "e2e: %s", v.Detail)
			}
			if b0 == 0 {
				k.Sample(map[string]any{"case": caseID, "sessions": len(sessions), "auth": withAuth, "delivered": delivered})
			}
		}
	})
}

// ---------------------------------------------------------------------------- held sessions

// TestVerifC18MuxHeld: part "mux-held". Connections that a sub-listener's Accept has handed to
// a handler belong to that handler. N sessions (socks and http first bytes mixed) are accepted
// and are still in use (the client has sent only part of its stream) when one / both
// sub-listeners are closed or the base listener's Accept fails (the mux shuts down). Oracle:
// nobody but the handler calls Close() on a delivered connection; afterwards the client's
// remaining bytes still reach the handler (peeked first byte + everything behind it, exact),
// the handler's write reaches the client, and only then the handler closes. Connections
// that were never delivered are closed by the mux as before.
func TestVerifC18MuxHeld(t *testing.T) {
	k := vfNewKit(t, "C18", "mux-held")
	defer k.Finish()
	events := []string{"close-socks", "close-http", "close-socks-then-http", "close-http-then-socks", "base-accept-fails"}
	regs := []string{"both", "socks-only", "http-only"}
	synctest.Test(t, func(t *testing.T) {
		for ei, ev := range events {
			for _, reg := range regs {
				for _, nconn := range []int{1, 7} {
					caseID := fmt.Sprintf("held-%s-%s-%d", ev, reg, nconn)
					if rc := k.ReplayCase(); rc != "" && rc != caseID {
						continue
					}
					k.Eval()
					r := k.Rand(caseID)
					p := vfC18NewPort()
					p.ackWhenComplete = true
					var schedule []string
					step := func(s string) { schedule = append(schedule, s) }
					var hs, hh net.Listener
					if reg != "http-only" {
						hs, _ = p.listen("socks")
						p.acceptor("socks", hs)
					}
					if reg != "socks-only" {
						hh, _ = p.listen("http")
						p.acceptor("http", hh)
					}
					step("registered: " + reg + ", handlers accepting")
					synctest.Wait()
					p.mu.Lock()
					base := p.base
					p.mu.Unlock()
					resume := make(chan struct{})
					var held []*vfC18Conn
					for i := 0; i < nconn; i++ {
						first := 5
						if (i+ei)%2 == 1 {
							first = vfC18OtherBytes[r.Intn(len(vfC18OtherBytes))]
						}
						plen := 20 + r.Intn(5000)
						pause := 1 + r.Intn(plen)
						if i%3 == 0 {
							pause = 1 // only the detection byte has been sent so far
						}
						c := p.connectOpt(first, plen, nil, false, vfC18ConnOpt{drain: true, keepOpen: true, pauseAfter: pause, resume: resume})
						held = append(held, c)
						step(fmt.Sprintf("%s connects, sends first byte %#02x + %d of %d payload bytes, keeps the session open", c.name(), first, pause-1, plen))
					}
					synctest.Wait()
					deliveredBefore := 0
					for _, c := range held {
						c.mu.Lock()
						if len(c.delivered) == 1 {
							deliveredBefore++
						}
						c.mu.Unlock()
					}
					switch ev {
					case "close-socks":
						if hs != nil {
							_ = hs.Close()
							hs = nil
						}
					case "close-http":
						if hh != nil {
							_ = hh.Close()
							hh = nil
						}
					case "close-socks-then-http", "close-http-then-socks":
						a, b := hs, hh
						if ev == "close-http-then-socks" {
							a, b = hh, hs
						}
						if a != nil {
							_ = a.Close()
							synctest.Wait()
						}
						if b != nil {
							_ = b.Close()
						}
						hs, hh = nil, nil
					case "base-accept-fails":
						base.fail(fmt.Errorf("accept tcp 127.0.0.1:1080: accept4: too many open files"))
					}
					synctest.Wait()
					step("event: " + ev + " (mux shut down: " + fmt.Sprint(vfC18LogHas(p, "mux_deleted", "")) + ")")
					close(resume)
					synctest.Wait()
					step("the clients send the rest of their streams")
					usable := 0
					for _, c := range held {
						c.mu.Lock()
						dl := len(c.delivered)
						got := append([]byte(nil), c.got...)
						ack := string(c.cliGot)
						werr := c.writeErr
						stolen := c.firstCloseNotByOwner
						c.mu.Unlock()
						if dl != 1 {
							continue
						}
						replay := map[string]any{"case_id": caseID, "schedule": schedule, "connection": c.name(), "event_log": p.log.Tail(80)}
						if stolen {
							continue // reported by judge() below with the same witness
						}
						if werr != "" || ack != "ack:"+c.name() {
							k.Violation("mux:delivered-conn-unusable", replay, "%s was delivered before %q; afterwards the handler's write failed (%q) / the client received %q instead of the handler's reply", c.name(), ev, werr, ack)
							continue
						}
						usable++
						_ = got
					}
					// the owners are done: clients close, handlers read EOF, compare, close
					for _, c := range held {
						_ = c.cli.Close()
					}
					vs, delivered, closed, _, nbytes, stuck := vfC18Settle(p, []net.Listener{hs, hh}, step)
					k.Count("ev_mux_events", int64(p.log.Len()))
					k.Count("ev_conns_delivered", int64(delivered))
					k.Count("ev_conns_closed_by_mux", int64(closed))
					k.Count("ev_held_sessions_delivered_before_event", int64(deliveredBefore))
					k.Count("ev_held_sessions_usable_after_event", int64(usable))
					k.Count("ev_bytes_behind_detection_byte_checked", int64(nbytes))
					if stuck > 0 {
						k.Count("harness_goroutines_stuck", int64(stuck))
					}
					if deliveredBefore > 0 {
						k.Nontrivial(caseID)
					}
					if ei == 2 && reg == "both" {
						k.Sample(map[string]any{"case": caseID, "schedule": schedule, "held_delivered": deliveredBefore, "usable_after": usable})
					}
					seen := map[string]bool{}
					for _, v := range vs {
						if seen[v.Key] {
							continue
						}
						seen[v.Key] = true
						k.Violation(v.Key, map[string]any{"case_id": caseID, "schedule": schedule, "connection": v.Conn, "event_log": p.log.Tail(80)},
							"held sessions, event %q, registered %s, schedule=[%s]: %s", ev, reg, strings.Join(schedule, " ; "), v.Detail)
					}
				}
			}
		}
	})
	if k.ReplayCase() == "" && k.Counter("ev_held_sessions_usable_after_event") == 0 {
		k.Inconclusive("no held session survived to be judged")
	}
}
