//go:build verif

package proxymux

// C18 (shared SOCKS5/HTTP port): fakes shared by the proxymux harness parts.
//
// vfC18Port models one TCP port the way muxManager does (GetOrCreate / deleteFunc), but over
// a fake in-memory base listener (newMuxListener accepts any net.Listener), so that every
// connection the mux accepted is a wrapped net.Pipe end whose Close() calls are observable.
// Everything here is created inside a testing/synctest bubble by the callers, so
// synctest.Wait() is an exact quiescence point (all mux goroutines durably blocked).

import (
	"encoding/binary"
	"fmt"
	"io"
	"net"
	"sync"
	"sync/atomic"
	"time"
)

type vfC18Addr string

func (a vfC18Addr) Network() string { return "vfmem" }
func (a vfC18Addr) String() string  { return string(a) }

// vfC18Coded: payload bytes that encode (connection id, offset) so any loss, duplication or
// reordering is visible and every byte names the connection it belongs to.
func vfC18Coded(id uint32, n int) []byte {
	b := make([]byte, n)
	var w [8]byte
	for off := 0; off < n; off += 8 {
		binary.BigEndian.PutUint32(w[:4], id|0x80000000)
		binary.BigEndian.PutUint32(w[4:], uint32(off))
		copy(b[off:], w[:])
	}
	return b
}

// vfC18SrvConn is the server end of a connection as handed out by the fake base listener.
type vfC18SrvConn struct {
	net.Conn
	c          *vfC18Conn
	closeCalls atomic.Int32
	readCalls  atomic.Int32 // Read calls issued on the server end (by the mux or a handler)
}

func (s *vfC18SrvConn) Read(b []byte) (int, error) {
	s.readCalls.Add(1)
	return s.Conn.Read(b)
}

func (s *vfC18SrvConn) Close() error {
	n := s.closeCalls.Add(1)
	if n == 1 {
		s.c.mu.Lock()
		byOwner := s.c.ownerClosing
		s.c.firstCloseNotByOwner = !byOwner
		s.c.mu.Unlock()
		kind := "srv_close"
		if byOwner {
			kind = "srv_close_by_handler"
		}
		s.c.port.log.Add(kind, s.c.name(), 0, nil)
	}
	return s.Conn.Close()
}
func (s *vfC18SrvConn) RemoteAddr() net.Addr { return vfC18Addr(s.c.name()) }
func (s *vfC18SrvConn) LocalAddr() net.Addr  { return vfC18Addr("127.0.0.1:1080") }

// vfC18Conn is one connection attempt of a local client to the shared port.
type vfC18Conn struct {
	port  *vfC18Port
	id    int
	first int    // first byte the client sends, -1 = sends nothing and closes
	data  []byte // everything the client sends (data[0] == first)
	cli   net.Conn
	srv   *vfC18SrvConn

	mu        sync.Mutex
	refused   bool     // never reached Accept (listener closed / no listener)
	accepted  bool     // returned by base.Accept
	delivered []string // which sub-listener Accept()s returned it
	got       []byte   // bytes the handler read from it
	gotDone   bool     // handler read up to EOF / error
	teardown  bool     // created by the harness teardown (poke), not by the enumerated schedule
	cliGot    []byte   // what the client read back (only with opt.drain)
	// ownership: a harness handler (p.handle) sets ownerClosing before it closes the conn;
	// firstCloseNotByOwner records whether the first Close() on the server end came from
	// somebody else (i.e. the mux). harnessOwned: delivered to p.handle (not to a real server).
	ownerClosing         bool
	firstCloseNotByOwner bool
	harnessOwned         bool
	ackGot               bool   // handler's write after the full stream reached the client side
	writeErr             string // handler's write failed
	connSeq              int    // log position of the connect event
	gen                  int    // generation of the base listener it was offered to
}

// vfC18ConnOpt: optional client behaviour.
type vfC18ConnOpt struct {
	stream []byte        // send exactly this instead of first||coded payload
	gate   chan struct{} // the client connects at once but starts writing only when this is closed
	drain  bool          // the client reads (and keeps) whatever the server sends
	// keepOpen: do not close after the last byte was written (net.Pipe has no half-close; a
	// full close lets the relay legitimately tear the tunnel down before it has forwarded
	// everything). The connection is closed by shutdown().
	keepOpen bool
	// pauseAfter/resume: after pauseAfter bytes the client waits for resume to be closed
	// before it sends the rest (a session that is still in use while things happen to the mux)
	pauseAfter int
	resume     chan struct{}
}

func (c *vfC18Conn) name() string { return fmt.Sprintf("c%d", c.id) }

// vfC18Base is the fake base listener ("the kernel side of the port").
type vfC18Base struct {
	port   *vfC18Port
	gen    int
	q      chan *vfC18Conn // backlog
	closed chan struct{}
	once   sync.Once
	// Accept() return gate: when non-nil, a dequeued connection is logged as accepted and
	// then Accept blocks on this channel before returning it (models the accepting goroutine
	// being descheduled between accept(2) returning and its next statement).
	hmu  sync.Mutex
	hold chan struct{}
	// failNext: a value sent here makes the pending/next Accept return that error (listener fault).
	failNext chan error
}

func (b *vfC18Base) Accept() (net.Conn, error) {
	select {
	case <-b.closed:
		return nil, net.ErrClosed
	default:
	}
	select {
	case <-b.closed:
		return nil, net.ErrClosed
	case err := <-b.failNext:
		return nil, err
	case c := <-b.q:
		c.mu.Lock()
		c.accepted = true
		c.mu.Unlock()
		b.port.log.Add("base_accept", c.name(), int64(b.gen), nil)
		if h := b.getHold(); h != nil {
			b.port.log.Add("base_accept_return_delayed", c.name(), int64(b.gen), nil)
			<-h
		}
		return c.srv, nil
	}
}

// fail makes the base listener's Accept fail once with err.
func (b *vfC18Base) fail(err error) { b.failNext <- err }

func (b *vfC18Base) getHold() chan struct{} {
	b.hmu.Lock()
	defer b.hmu.Unlock()
	return b.hold
}

// setHold installs (or, with nil, removes) the Accept return gate; releaseHold opens it.
func (b *vfC18Base) setHold(h chan struct{}) {
	b.hmu.Lock()
	b.hold = h
	b.hmu.Unlock()
}

func (b *vfC18Base) releaseHold() {
	b.hmu.Lock()
	h := b.hold
	b.hold = nil
	b.hmu.Unlock()
	if h != nil {
		close(h)
	}
}

func (b *vfC18Base) Close() error {
	b.once.Do(func() {
		close(b.closed)
		b.port.log.Add("base_close", "", int64(b.gen), nil)
		// connections still in the backlog are reset by the kernel
		for {
			select {
			case c := <-b.q:
				c.mu.Lock()
				c.refused = true
				c.mu.Unlock()
				_ = c.srv.Conn.Close()
			default:
				return
			}
		}
	})
	return nil
}

func (b *vfC18Base) Addr() net.Addr { return vfC18Addr("127.0.0.1:1080") }

func (b *vfC18Base) isClosed() bool {
	select {
	case <-b.closed:
		return true
	default:
		return false
	}
}

// vfC18Port = the manager's view of one address.
type vfC18Port struct {
	log  *vfLog
	live atomic.Int64 // harness goroutines (clients, acceptors, handlers) still running

	mu    sync.Mutex
	ml    *muxListener
	base  *vfC18Base
	bases []*vfC18Base
	muxes []*muxListener
	conns []*vfC18Conn
	gen   int
	// holdAccept: bases created from now on get an Accept return gate
	readSizes func(i int) int // handler read-size pattern
	// ackWhenComplete: handlers write "ack:<conn>" once they have read the whole stream
	ackWhenComplete bool

	gmu        sync.Mutex
	deleteGate chan struct{}

	handles []*vfC18Handle
	deleted map[int]bool // mux generations whose delete callback ran
	// strictLiveness: the caller guarantees that every Listen* call happened either on a mux
	// this very call created or on a mux that was alive at a quiescent point immediately
	// before the call (no operation in between), i.e. never on a mux already shutting
	// down, and that the base listener never fails. Then a sub-listener the application has
	// not closed must stay usable: its mux must not shut down, its Accept must not fail.
	strictLiveness bool
}

func vfC18NewPort() *vfC18Port {
	return &vfC18Port{log: &vfLog{}, deleted: map[int]bool{}}
}

// getOrCreate mirrors muxManager.GetOrCreate with the fake base listener.
func (p *vfC18Port) getOrCreate() *muxListener {
	p.mu.Lock()
	defer p.mu.Unlock()
	if p.ml != nil {
		return p.ml
	}
	p.gen++
	b := &vfC18Base{port: p, gen: p.gen, q: make(chan *vfC18Conn, 4096), closed: make(chan struct{}), failNext: make(chan error, 1)}
	var ml *muxListener
	gen := p.gen
	ml = newMuxListener(b, func() {
		// the manager's delete callback takes the manager lock, which may be contended; the
		// gate models that wait (it sits before base.Close() and close(closeChan) in mainLoop's exit path)
		p.gmu.Lock()
		g := p.deleteGate
		p.gmu.Unlock()
		if g != nil {
			p.log.Add("mux_delete_func_waiting", "", int64(gen), nil)
			<-g
		}
		p.mu.Lock()
		defer p.mu.Unlock()
		p.log.Add("mux_deleted", "", int64(gen), nil)
		p.deleted[gen] = true
		if p.ml == ml {
			p.ml, p.base = nil, nil
		}
	})
	p.ml, p.base = ml, b
	p.bases = append(p.bases, b)
	p.muxes = append(p.muxes, ml)
	p.log.Add("mux_created", "", int64(gen), nil)
	return ml
}

func (p *vfC18Port) listen(kind string) (net.Listener, error) {
	ml := p.getOrCreate()
	p.mu.Lock()
	gen := 0
	for i, m := range p.muxes {
		if m == ml {
			gen = i + 1
		}
	}
	p.mu.Unlock()
	var ln net.Listener
	var err error
	if kind == "socks" {
		ln, err = ml.ListenSOCKS()
	} else {
		ln, err = ml.ListenHTTP()
	}
	es := ""
	if err != nil {
		es = err.Error()
	}
	seq := p.log.Add("listen_"+kind, es, int64(gen), nil)
	if err != nil {
		return nil, err
	}
	h := &vfC18Handle{Listener: ln, p: p, kind: kind, gen: gen, regSeq: seq, closedSeq: -1}
	p.mu.Lock()
	p.handles = append(p.handles, h)
	p.mu.Unlock()
	return h, nil
}

// vfC18Handle is a sub-listener as returned to the "application": it records when the
// registration returned, when the application closed it, whether its handler ever called
// Accept and whether Accept failed while the application had not closed it.
type vfC18Handle struct {
	net.Listener
	p      *vfC18Port
	kind   string
	gen    int // generation of the mux it was registered on
	regSeq int // log position at which Listen* had returned it

	mu           sync.Mutex
	closedSeq    int // log position just before the application's Close(), -1 = still open
	acceptCalled bool
	acceptErr    string // first Accept error seen while the application had not closed it
}

func (h *vfC18Handle) Close() error {
	h.mu.Lock()
	if h.closedSeq < 0 {
		h.closedSeq = h.p.log.Add("close_"+h.kind, "", int64(h.gen), nil)
	}
	h.mu.Unlock()
	return h.Listener.Close()
}

func (h *vfC18Handle) Accept() (net.Conn, error) {
	h.mu.Lock()
	h.acceptCalled = true
	h.mu.Unlock()
	c, err := h.Listener.Accept()
	if err != nil {
		h.mu.Lock()
		if h.closedSeq < 0 && h.acceptErr == "" {
			h.acceptErr = err.Error()
		}
		h.mu.Unlock()
	}
	return c, err
}

// connect makes a client connection: first<0 -> the client sends nothing and closes;
// otherwise it writes first||payload (in the given chunking) and then closes its end.
func (p *vfC18Port) connect(first int, payloadLen int, chunks func(total int) []int, teardown bool) *vfC18Conn {
	return p.connectOpt(first, payloadLen, chunks, teardown, vfC18ConnOpt{})
}

func (p *vfC18Port) connectOpt(first int, payloadLen int, chunks func(total int) []int, teardown bool, opt vfC18ConnOpt) *vfC18Conn {
	if opt.stream != nil {
		first = int(opt.stream[0])
	}
	p.mu.Lock()
	c := &vfC18Conn{port: p, id: len(p.conns), first: first, teardown: teardown}
	p.conns = append(p.conns, c)
	base := p.base
	p.mu.Unlock()
	if opt.stream != nil {
		c.data = opt.stream
	} else if first >= 0 {
		c.data = append([]byte{byte(first)}, vfC18Coded(uint32(c.id), payloadLen)...)
	}
	cli, srv := net.Pipe()
	c.cli = cli
	c.srv = &vfC18SrvConn{Conn: srv, c: c}
	c.connSeq = p.log.Add("connect", c.name(), int64(first), nil)
	if base != nil {
		c.gen = base.gen
	}
	if base == nil || base.isClosed() {
		c.refused = true
		_ = cli.Close()
		_ = srv.Close()
		p.log.Add("refused", c.name(), 0, nil)
		return c
	}
	select {
	case base.q <- c:
	default:
		c.refused = true
		_ = cli.Close()
		_ = srv.Close()
		return c
	}
	if opt.drain {
		p.live.Add(1)
		go func() {
			defer p.live.Add(-1)
			buf := make([]byte, 4096)
			for {
				n, err := cli.Read(buf)
				c.mu.Lock()
				c.cliGot = append(c.cliGot, buf[:n]...)
				c.mu.Unlock()
				if err != nil {
					return
				}
			}
		}()
	}
	p.live.Add(1)
	go func() {
		defer p.live.Add(-1)
		if opt.gate != nil {
			<-opt.gate
		}
		if first < 0 {
			_ = cli.Close()
			return
		}
		data := c.data
		if opt.resume != nil && opt.pauseAfter > 0 && opt.pauseAfter < len(data) {
			if _, err := cli.Write(data[:opt.pauseAfter]); err != nil {
				return
			}
			data = data[opt.pauseAfter:]
			<-opt.resume
		}
		var sizes []int
		if chunks != nil {
			sizes = chunks(len(data))
		}
		for _, s := range sizes {
			if s > len(data) {
				s = len(data)
			}
			if s <= 0 {
				continue
			}
			if _, err := cli.Write(data[:s]); err != nil {
				return
			}
			data = data[s:]
		}
		if len(data) > 0 {
			if _, err := cli.Write(data); err != nil {
				return
			}
		}
		if !opt.keepOpen {
			_ = cli.Close()
		}
	}()
	return c
}

// acceptor runs the sub-listener's Accept loop like Server.Serve does; each connection is
// handled by a goroutine that reads it to EOF with an adversarial read-size pattern
// (zero-length buffer first, then 1 byte, then growing sizes) and closes it.
func (p *vfC18Port) acceptor(kind string, ln net.Listener) {
	p.live.Add(1)
	go func() {
		defer p.live.Add(-1)
		for {
			conn, err := ln.Accept()
			if err != nil {
				p.log.Add("accept_err_"+kind, err.Error(), 0, nil)
				return
			}
			name := conn.RemoteAddr().String()
			p.log.Add("deliver_"+kind, name, 0, nil)
			c := p.byName(name)
			if c == nil {
				p.log.Add("deliver_unknown", name, 0, nil)
				_ = conn.Close()
				continue
			}
			c.mu.Lock()
			c.delivered = append(c.delivered, kind)
			c.harnessOwned = true
			c.mu.Unlock()
			p.live.Add(1)
			go func() {
				defer p.live.Add(-1)
				p.handle(c, conn)
			}()
		}
	}()
}

// vfC18RecListener wraps a sub-listener handed to a real server: it records which
// connection each Accept returned, then passes it on.
type vfC18RecListener struct {
	net.Listener
	p    *vfC18Port
	kind string
}

func (l *vfC18RecListener) Accept() (net.Conn, error) {
	conn, err := l.Listener.Accept()
	if err != nil {
		l.p.log.Add("accept_err_"+l.kind, err.Error(), 0, nil)
		return nil, err
	}
	name := conn.RemoteAddr().String()
	l.p.log.Add("deliver_"+l.kind, name, 0, nil)
	if c := l.p.byName(name); c != nil {
		c.mu.Lock()
		c.delivered = append(c.delivered, l.kind)
		c.mu.Unlock()
	}
	return conn, nil
}

func (p *vfC18Port) byName(name string) *vfC18Conn {
	p.mu.Lock()
	defer p.mu.Unlock()
	for _, c := range p.conns {
		if c.name() == name {
			return c
		}
	}
	return nil
}

func (p *vfC18Port) handle(c *vfC18Conn, conn net.Conn) {
	var got []byte
	acked := false
	buf := make([]byte, 32768)
	// a zero-length read must neither consume the peeked byte nor fail
	if n, err := conn.Read(buf[:0]); n != 0 || err != nil {
		p.log.Add("zero_read_bad", c.name(), int64(n), map[string]any{"err": fmt.Sprint(err)})
	}
	for i := 0; ; i++ {
		sz := 1
		if p.readSizes != nil {
			sz = p.readSizes(i)
		} else if i > 2 {
			sz = 1 << uint(i)
		}
		if sz > len(buf) {
			sz = len(buf)
		}
		if sz < 0 {
			sz = 0
		}
		n, err := conn.Read(buf[:sz])
		got = append(got, buf[:n]...)
		if p.ackWhenComplete && !acked && len(got) >= len(c.data) {
			// the session is still usable in the other direction too
			acked = true
			if _, werr := conn.Write([]byte("ack:" + c.name())); werr != nil {
				c.mu.Lock()
				c.writeErr = werr.Error()
				c.mu.Unlock()
			}
		}
		if err != nil {
			break
		}
		if len(got) > len(c.data)+64 {
			break // runaway duplication
		}
	}
	c.mu.Lock()
	c.got = got
	c.gotDone = true
	c.ownerClosing = true
	c.mu.Unlock()
	_ = conn.Close()
}

// shutdown releases everything the harness owns so that a bubble can end: client ends,
// server ends, base listeners.
func (p *vfC18Port) shutdown() {
	p.mu.Lock()
	conns := append([]*vfC18Conn(nil), p.conns...)
	bases := append([]*vfC18Base(nil), p.bases...)
	p.mu.Unlock()
	for _, c := range conns {
		if c.cli != nil {
			_ = c.cli.Close()
		}
		if c.srv != nil {
			_ = c.srv.Conn.Close() // underlying pipe end, not counted as a Close() by the mux
		}
	}
	for _, b := range bases {
		b.releaseHold()
		_ = b.Close()
	}
}

type vfC18Verdict struct {
	Key    string
	Detail string
	Conn   string
}

// judge classifies every connection at quiescence. It returns the verdicts and counts.
func (p *vfC18Port) judge() (vs []vfC18Verdict, delivered, closedByMux, refused, bytesChecked int) {
	p.mu.Lock()
	conns := append([]*vfC18Conn(nil), p.conns...)
	p.mu.Unlock()
	for _, c := range conns {
		c.mu.Lock()
		acc, ref := c.accepted, c.refused
		dl := append([]string(nil), c.delivered...)
		got, gotDone := c.got, c.gotDone
		c.mu.Unlock()
		if !acc {
			if ref {
				refused++
			}
			continue
		}
		closed := c.srv.closeCalls.Load() > 0
		switch {
		case len(dl) > 1:
			vs = append(vs, vfC18Verdict{"mux:conn-delivered-more-than-once", fmt.Sprintf("%s (first byte %#x) was returned by %d Accept calls: %v", c.name(), c.first, len(dl), dl), c.name()})
		case len(dl) == 1:
			delivered++
			want := "http"
			if c.first == 5 {
				want = "socks"
			}
			if c.first < 0 {
				vs = append(vs, vfC18Verdict{"mux:conn-delivered-without-first-byte", fmt.Sprintf("%s sent nothing but was handed to the %s handler", c.name(), dl[0]), c.name()})
			} else if dl[0] != want {
				vs = append(vs, vfC18Verdict{"mux:conn-routed-to-wrong-handler", fmt.Sprintf("%s first byte %#02x was handed to the %s handler, want %s", c.name(), c.first, dl[0], want), c.name()})
			}
			c.mu.Lock()
			stolen := c.harnessOwned && c.firstCloseNotByOwner
			c.mu.Unlock()
			if stolen {
				vs = append(vs, vfC18Verdict{"mux:delivered-conn-closed-by-mux",
					fmt.Sprintf("%s (first byte %#02x) was returned by the %s sub-listener's Accept and then Close() was called on it by somebody other than its handler (the handler had read %d of %d bytes)", c.name(), c.first, dl[0], len(got), len(c.data)), c.name()})
			}
			if gotDone && c.first >= 0 {
				bytesChecked += len(got)
				if string(got) != string(c.data) {
					vs = append(vs, vfC18Verdict{"mux:bytes-behind-detection-byte-altered", vfC18Diff(c.data, got), c.name()})
				}
			}
		default:
			if closed {
				closedByMux++
				if h := p.liveHandlerFor(c); h != nil {
					vs = append(vs, vfC18Verdict{"mux:conn-closed-although-handler-registered",
						fmt.Sprintf("%s (first byte %#02x, connected at log seq %d) was closed by the mux instead of being handed to the %s sub-listener that Listen* had returned at log seq %d on the same mux (generation %d): that sub-listener was never closed, its handler is in Accept and the mux is still up",
							c.name(), c.first, c.connSeq, h.kind, h.regSeq, h.gen), c.name()})
				}
			} else {
				what := fmt.Sprintf("sent first byte %#02x", c.first)
				if c.first < 0 {
					what = "sent nothing and closed"
				}
				if c.srv.readCalls.Load() == 0 {
					// the mux never even tried to read the detection byte: the connection was
					// dropped between base.Accept() and dispatch
					vs = append(vs, vfC18Verdict{"mux:accepted-conn-dropped-before-dispatch",
						fmt.Sprintf("%s was returned by the base listener's Accept, %s; the mux never read from it, no sub-listener Accept returned it and Close() was never called on it", c.name(), what), c.name()})
				} else {
					vs = append(vs, vfC18Verdict{"mux:conn-neither-delivered-nor-closed",
						fmt.Sprintf("%s was accepted from the base listener, %s, the mux read its first byte; at quiescence no sub-listener Accept returned it and Close() was never called on it", c.name(), what), c.name()})
				}
			}
		}
	}
	if p.strictLiveness {
		p.mu.Lock()
		handles := append([]*vfC18Handle(nil), p.handles...)
		p.mu.Unlock()
		for _, h := range handles {
			h.mu.Lock()
			open, aerr := h.closedSeq < 0, h.acceptErr
			h.mu.Unlock()
			if !open {
				continue
			}
			p.mu.Lock()
			dead := p.deleted[h.gen]
			p.mu.Unlock()
			if dead || aerr != "" {
				vs = append(vs, vfC18Verdict{"mux:live-sublistener-accept-failed",
					fmt.Sprintf("the %s sub-listener returned by Listen* at log seq %d (mux generation %d) was never closed by the application, yet its mux shut down (delete callback ran: %v) / its Accept failed (%q)", h.kind, h.regSeq, h.gen, dead, aerr), ""})
			}
		}
	}
	return
}

// liveHandlerFor returns the sub-listener that must have received c: same protocol, same
// mux, registration returned before c connected, never closed by the application, handler
// in Accept, mux still up at this (quiescent) point. Holds for every schedule: from its
// registration on such a sub-listener occupies its protocol's slot, and a mux that is up
// at quiescence has not begun to shut down.
func (p *vfC18Port) liveHandlerFor(c *vfC18Conn) *vfC18Handle {
	if c.first < 0 {
		return nil
	}
	want := "http"
	if c.first == 5 {
		want = "socks"
	}
	p.mu.Lock()
	defer p.mu.Unlock()
	if p.deleted[c.gen] {
		return nil
	}
	for _, h := range p.handles {
		if h.kind != want || h.gen != c.gen || h.regSeq >= c.connSeq {
			continue
		}
		h.mu.Lock()
		ok := h.closedSeq < 0 && h.acceptCalled && h.acceptErr == ""
		h.mu.Unlock()
		if ok {
			return h
		}
	}
	return nil
}

func vfC18Diff(want, got []byte) string {
	n := len(want)
	if len(got) < n {
		n = len(got)
	}
	at := n
	for i := 0; i < n; i++ {
		if want[i] != got[i] {
			at = i
			break
		}
	}
	lo := at - 4
	if lo < 0 {
		lo = 0
	}
	hw, hg := at+12, at+12
	if hw > len(want) {
		hw = len(want)
	}
	if hg > len(got) {
		hg = len(got)
	}
	return fmt.Sprintf("handler read %d bytes, client sent %d; first difference at offset %d: sent[%d:%d]=%s read[%d:%d]=%s",
		len(got), len(want), at, lo, hw, vfHex(want[lo:hw]), lo, hg, vfHex(got[lo:hg]))
}

var _ = io.EOF
var _ = time.Second
