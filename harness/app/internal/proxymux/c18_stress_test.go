//go:build verif

package proxymux

// C18 parts run under the race detector (job mux-race):
//
//   mux-stress  concurrent registration / close / connect storms against the real muxListener
//               over the fake base listener inside synctest bubbles; goroutines interleave
//               through small virtual sleeps and plain parallelism. Verdict at quiescence with
//               the same oracle as mux-enum (exactly one of {socks Accept, http Accept,
//               Close()} per accepted connection, routed by first byte, bytes intact); the race
//               detector watches mux.go / manager.go.
//   mux-tcp     the real muxManager (ListenSOCKS/ListenHTTP on 127.0.0.1:0, kernel sockets):
//               random operation sequences; every client waits for an explicit event (its
//               Read returning EOF/error after the handler or the mux closed the connection);
//               a generous real-time watchdog only ever yields "inconclusive".

import (
	"bytes"
	"fmt"
	"io"
	"math/rand"
	"net"
	"strings"
	"sync"
	"testing"
	"testing/synctest"
	"time"
)

func TestVerifC18MuxStress(t *testing.T) {
	k := vfNewKit(t, "C18", "mux-stress")
	defer k.Finish()
	rounds := k.N(150, 12000)
	synctest.Test(t, func(t *testing.T) {
		for round := 0; round < rounds; round++ {
			caseID := fmt.Sprintf("st-%d", round)
			if rc := k.ReplayCase(); rc != "" && rc != caseID {
				continue
			}
			k.Eval()
			p := vfC18NewPort()
			seed := k.Rand(caseID).Int63()
			done := make(chan struct{}, 16)
			workers := 0
			var hmu sync.Mutex
			var open, late []net.Listener
			var lateKinds []string
			lister := func(kind string, wid int) {
				r := rand.New(rand.NewSource(seed + int64(wid)))
				for i := 0; i < 6; i++ {
					ln, err := p.listen(kind)
					if err == nil {
						started := r.Intn(4) != 0
						if started {
							p.acceptor(kind, ln)
						}
						if r.Intn(3) != 0 {
							time.Sleep(time.Duration(r.Intn(40)) * time.Microsecond)
						}
						if i == 5 && r.Intn(2) == 0 {
							hmu.Lock()
							open = append(open, ln)
							if !started {
								lateKinds = append(lateKinds, kind)
								late = append(late, ln)
							}
							hmu.Unlock()
							break
						}
						_ = ln.Close()
					}
					if r.Intn(2) == 0 {
						time.Sleep(time.Duration(r.Intn(40)) * time.Microsecond)
					}
				}
				done <- struct{}{}
			}
			dialer := func(wid int) {
				r := rand.New(rand.NewSource(seed + int64(wid)))
				for i := 0; i < 8; i++ {
					first := 5
					switch r.Intn(5) {
					case 0, 1:
						first = vfC18OtherBytes[r.Intn(len(vfC18OtherBytes))]
					case 2:
						first = -1
					}
					p.connect(first, r.Intn(600), nil, false)
					if r.Intn(3) != 0 {
						time.Sleep(time.Duration(r.Intn(30)) * time.Microsecond)
					}
				}
				done <- struct{}{}
			}
			go lister("socks", 1)
			go lister("http", 2)
			workers = 2
			for w := 0; w < 3; w++ {
				go dialer(10 + w)
				workers++
			}
			for i := 0; i < workers; i++ {
				<-done
			}
			schedule := []string{fmt.Sprintf("concurrent storm, PRNG seed %d", seed)}
			// handlers that were never started for still-open listeners start now
			hmu.Lock()
			handles := append([]net.Listener(nil), open...)
			for i, ln := range late {
				p.acceptor(lateKinds[i], ln)
			}
			hmu.Unlock()
			synctest.Wait()
			vs, delivered, closed, refused, nbytes, stuck := vfC18Settle(p, handles, func(s string) { schedule = append(schedule, s) })
			k.Count("ev_mux_events", int64(p.log.Len()))
			k.Count("ev_conns_delivered", int64(delivered))
			k.Count("ev_conns_closed_by_mux", int64(closed))
			k.Count("conns_refused", int64(refused))
			k.Count("ev_bytes_behind_detection_byte_checked", int64(nbytes))
			k.Count("muxes_created", int64(len(p.muxes)))
			if stuck > 0 {
				k.Count("harness_goroutines_stuck", int64(stuck))
			}
			k.Nontrivial(caseID)
			if round == 0 {
				k.Sample(map[string]any{"case": caseID, "delivered": delivered, "closed_by_mux": closed, "refused": refused, "muxes": len(p.muxes)})
			}
			seen := map[string]bool{}
			for _, v := range vs {
				if seen[v.Key] {
					continue
				}
				seen[v.Key] = true
				k.Violation(v.Key, map[string]any{"case_id": caseID, "schedule": schedule, "connection": v.Conn, "event_log": p.log.Snapshot()},
					"concurrent storm (round %d): %s", round, v.Detail)
			}
		}
	})
	if k.ReplayCase() == "" && k.Counter("ev_conns_delivered") == 0 {
		k.Inconclusive("nothing was delivered")
	}
}

// ---------------------------------------------------------------------------- loopback TCP, real manager

type vfC18TCPClient struct {
	id       int
	first    int
	data     []byte
	local    string
	mu       sync.Mutex
	outcome  string // "eof", "reset", "watchdog", "refused"
	deliv    []string
	got      []byte
	resolved chan struct{}
}

func TestVerifC18MuxTCP(t *testing.T) {
	k := vfNewKit(t, "C18", "mux-tcp")
	defer k.Finish()
	rounds := k.N(40, 2000)
	const watchdog = 10 * time.Second
	watchdogFired := 0
	for round := 0; round < rounds; round++ {
		caseID := fmt.Sprintf("tcp-%d", round)
		if rc := k.ReplayCase(); rc != "" && rc != caseID {
			continue
		}
		if watchdogFired >= 2 {
			// every further firing costs real time and can only add "inconclusive"
			k.Count("tcp_rounds_skipped_after_watchdog", 1)
			continue
		}
		k.Eval()
		r := k.Rand(caseID)
		var mu sync.Mutex
		clients := map[string]*vfC18TCPClient{} // by client local address
		var all []*vfC18TCPClient
		var schedule []string
		var hs, hh net.Listener
		addr := "127.0.0.1:0"
		curAddr := ""
		var handlers sync.WaitGroup
		serve := func(kind string, ln net.Listener) {
			handlers.Add(1)
			go func() {
				defer handlers.Done()
				for {
					conn, err := ln.Accept()
					if err != nil {
						return
					}
					mu.Lock()
					c := clients[conn.RemoteAddr().String()]
					mu.Unlock()
					if c != nil {
						c.mu.Lock()
						c.deliv = append(c.deliv, kind)
						c.mu.Unlock()
					}
					handlers.Add(1)
					go func() {
						defer handlers.Done()
						_ = conn.SetReadDeadline(time.Now().Add(watchdog))
						got, _ := io.ReadAll(conn)
						if c != nil {
							c.mu.Lock()
							c.got = got
							c.mu.Unlock()
						}
						_ = conn.Close()
					}()
				}
			}()
		}
		listen := func(kind string) {
			var ln net.Listener
			var err error
			a := addr // same address string = same manager key = same shared port
			if kind == "socks" {
				ln, err = ListenSOCKS(a)
			} else {
				ln, err = ListenHTTP(a)
			}
			if err != nil {
				schedule = append(schedule, fmt.Sprintf("Listen(%s,%s) -> %v", kind, a, err))
				return
			}
			curAddr = ln.Addr().String()
			schedule = append(schedule, fmt.Sprintf("Listen(%s,%s) -> ok on %s", kind, a, curAddr))
			if kind == "socks" {
				hs = ln
			} else {
				hh = ln
			}
			serve(kind, ln)
		}
		connect := func(first int, plen int) {
			c := &vfC18TCPClient{id: len(all), first: first, resolved: make(chan struct{})}
			all = append(all, c)
			if curAddr == "" {
				c.outcome = "refused"
				close(c.resolved)
				return
			}
			// register before the server can see the connection: bind the local port first
			d := net.Dialer{Timeout: watchdog}
			mu.Lock()
			conn, err := d.Dial("tcp", curAddr)
			if err != nil {
				mu.Unlock()
				c.outcome = "refused"
				close(c.resolved)
				schedule = append(schedule, fmt.Sprintf("c%d connect -> refused", c.id))
				return
			}
			c.local = conn.LocalAddr().String()
			clients[c.local] = c
			mu.Unlock()
			if first >= 0 {
				c.data = append([]byte{byte(first)}, vfC18Coded(uint32(c.id), plen)...)
			}
			schedule = append(schedule, fmt.Sprintf("c%d connects from %s, first byte %d, %d payload bytes", c.id, c.local, first, plen))
			go func() {
				defer close(c.resolved)
				tc := conn.(*net.TCPConn)
				if first >= 0 {
					_, _ = tc.Write(c.data)
				}
				_ = tc.CloseWrite()
				_ = tc.SetReadDeadline(time.Now().Add(watchdog))
				_, err := io.Copy(io.Discard, tc)
				c.mu.Lock()
				switch {
				case err == nil:
					c.outcome = "eof"
				case strings.Contains(err.Error(), "timeout"):
					c.outcome = "watchdog"
				default:
					c.outcome = "reset"
				}
				c.mu.Unlock()
				_ = tc.Close()
			}()
			// sequential semantics: wait for this connection to be resolved (event, not time)
			<-c.resolved
		}
		nops := 3 + r.Intn(6)
		for i := 0; i < nops; i++ {
			switch op := r.Intn(7); op {
			case 0:
				listen("socks")
			case 1:
				listen("http")
			case 2:
				if hs != nil {
					_ = hs.Close()
					hs = nil
					schedule = append(schedule, "Close(socks)")
				}
			case 3:
				if hh != nil {
					_ = hh.Close()
					hh = nil
					schedule = append(schedule, "Close(http)")
				}
			case 4:
				connect(5, r.Intn(3000))
			case 5:
				connect(vfC18OtherBytes[r.Intn(len(vfC18OtherBytes))], r.Intn(3000))
			case 6:
				connect(-1, 0)
			}
		}
		if hs != nil {
			_ = hs.Close()
		}
		if hh != nil {
			_ = hh.Close()
		}
		// wake the main loop so that the port is released (see DESIGN: it notices closed
		// sub-listeners only on its next event)
		if curAddr != "" {
			connect(5, 1)
		}
		handlers.Wait()
		for _, c := range all {
			c.mu.Lock()
			outcome, deliv, got := c.outcome, append([]string(nil), c.deliv...), c.got
			c.mu.Unlock()
			replay := map[string]any{"case_id": caseID, "schedule": schedule, "conn": fmt.Sprintf("c%d", c.id)}
			k.Count("ev_tcp_conns_"+outcome, 1)
			if outcome == "refused" {
				continue
			}
			if outcome == "watchdog" {
				watchdogFired++
				k.Inconclusive(fmt.Sprintf("%s c%d: neither EOF nor reset within %v (delivered=%v)", caseID, c.id, watchdog, deliv))
				continue
			}
			switch {
			case len(deliv) > 1:
				k.Violation("mux:conn-delivered-more-than-once", replay, "tcp: c%d returned by %d Accept calls %v", c.id, len(deliv), deliv)
			case len(deliv) == 1:
				k.Count("ev_conns_delivered", 1)
				want := "http"
				if c.first == 5 {
					want = "socks"
				}
				if c.first < 0 {
					k.Violation("mux:conn-delivered-without-first-byte", replay, "tcp: c%d sent nothing but was handed to %s", c.id, deliv[0])
				} else if deliv[0] != want {
					k.Violation("mux:conn-routed-to-wrong-handler", replay, "tcp: c%d first byte %#02x handed to %s, want %s", c.id, c.first, deliv[0], want)
				} else if !bytes.Equal(got, c.data) {
					k.Violation("mux:bytes-behind-detection-byte-altered", replay, "tcp: c%d %s", c.id, vfC18Diff(c.data, got))
				} else {
					k.Count("ev_bytes_behind_detection_byte_checked", int64(len(got)))
				}
			default:
				k.Count("ev_conns_closed_by_mux", 1)
			}
		}
		k.Nontrivial(caseID + strings.Join(schedule, ";"))
		if round == 0 {
			k.Sample(map[string]any{"case": caseID, "schedule": schedule})
		}
	}
	globalMuxManager.lock.Lock()
	left := len(globalMuxManager.listeners)
	globalMuxManager.lock.Unlock()
	k.Count("manager_entries_left_at_end", int64(left))
}
