#!/usr/bin/env python3
"""Copies harness/common/c03_common_test.go.tmpl into every package that has a C03 harness
(as c03_common_test.go, package clause rewritten). Run after editing the template:
    python3 harness/common/c03_sync.py          # write
    python3 harness/common/c03_sync.py --check  # exit 1 if a copy is stale
"""
import os
import sys

HERE = os.path.dirname(os.path.abspath(__file__))
HARNESS = os.path.dirname(HERE)
TARGETS = {
    "core/internal/protocol": "protocol",
    "core/internal/frag": "frag",
    "core/server": "server",
    "core/client": "client",
    "extras/sniff": "sniff",
    "extras/sniff/internal/quic": "quic",
    "extras/obfs": "obfs",
    "extras/realm": "realm",
    "extras/outbounds/speedtest": "speedtest",
}


def main():
    check = "--check" in sys.argv
    src = open(os.path.join(HERE, "c03_common_test.go.tmpl")).read()
    stale = 0
    for rel, pkg in TARGETS.items():
        d = os.path.join(HARNESS, rel)
        os.makedirs(d, exist_ok=True)
        out = src.replace("package PKGNAME", "package " + pkg, 1)
        path = os.path.join(d, "c03_common_test.go")
        old = open(path).read() if os.path.exists(path) else None
        if old == out:
            continue
        if check:
            print("stale:", path)
            stale += 1
            continue
        tmp = path + ".tmp"
        with open(tmp, "w") as f:
            f.write(out)
        os.replace(tmp, path)
        print("wrote", path)
    return 1 if stale else 0


if __name__ == "__main__":
    sys.exit(main())
