//go:build verif

package client

// C03 — peer-controlled bytes never crash the process: client side.
//
//   cli-feed:    udpSessionManager.feed called directly with whatever ParseUDPMessage lets through
//                of a hostile server's datagrams (known/unknown/closed sessions, any fragment
//                ids/counts), then udpConn.Receive in the same goroutine. After hostile input a
//                well-formed datagram must come out of Receive intact.
//   cli-run:     the same through the manager's own run() goroutine, fed RAW datagrams by a
//                ReceiveMessage that is a copy of udpIOImpl.ReceiveMessage (input logged first).
//   cli-send:    udpConn.Send for any (payload, address length, datagram limit); the fake IO answers
//                like udpIOImpl.SendMessage over a QUIC connection with a small/odd
//                MaxDatagramPayloadSize (<= header, 0, negative): *quic.DatagramTooLargeError.
//   cli-tcpresp: the response decoder exactly as tcpConn.Read / clientImpl.TCP call it: on a stream
//                without ReadByte, in several chunkings. (tcpConn itself wraps a concrete
//                *quic.Stream and cannot be built around a scripted stream.)

import (
	"bytes"
	"errors"
	"fmt"
	"io"
	"math/rand"
	"strings"
	"sync"
	"testing"

	"github.com/apernet/quic-go"

	coreErrs "github.com/apernet/hysteria/core/v2/errors"
	"github.com/apernet/hysteria/core/v2/internal/protocol"
)

var errVfC03Closed = errors.New("c03: closed")

type vfC03IO struct {
	rx      chan []byte
	entered chan struct{}
	closed  chan struct{}
	once    sync.Once

	mu       sync.Mutex
	hasLimit bool
	limit    int64
	sent     [][]byte
}

func vfC03NewIO() *vfC03IO {
	return &vfC03IO{rx: make(chan []byte), entered: make(chan struct{}), closed: make(chan struct{})}
}

func (o *vfC03IO) Close() { o.once.Do(func() { close(o.closed) }) }

// ReceiveMessage: copy of udpIOImpl.ReceiveMessage with the QUIC connection replaced by a channel.
func (o *vfC03IO) ReceiveMessage() (*protocol.UDPMessage, error) {
	for {
		select {
		case o.entered <- struct{}{}:
		case <-o.closed:
			return nil, errVfC03Closed
		}
		var msg []byte
		select {
		case msg = <-o.rx:
		case <-o.closed:
			return nil, errVfC03Closed
		}
		udpMsg, err := protocol.ParseUDPMessage(msg)
		if err != nil {
			// Invalid message, this is fine - just wait for the next
			continue
		}
		return udpMsg, nil
	}
}

func (o *vfC03IO) setLimit(has bool, limit int64) {
	o.mu.Lock()
	o.hasLimit, o.limit = has, limit
	o.mu.Unlock()
}

// SendMessage: copy of udpIOImpl.SendMessage; SendDatagram refuses what exceeds the limit.
func (o *vfC03IO) SendMessage(buf []byte, msg *protocol.UDPMessage) error {
	msgN := msg.Serialize(buf)
	if msgN < 0 {
		// Message larger than buffer, silent drop
		return nil
	}
	o.mu.Lock()
	defer o.mu.Unlock()
	if o.hasLimit && int64(msgN) > o.limit {
		return &quic.DatagramTooLargeError{MaxDatagramPayloadSize: o.limit}
	}
	o.sent = append(o.sent, append([]byte(nil), buf[:msgN]...))
	return nil
}

func (o *vfC03IO) takeSent() [][]byte {
	o.mu.Lock()
	defer o.mu.Unlock()
	s := o.sent
	o.sent = nil
	return s
}

func vfC03Datagram(sid uint32, pid uint16, fid, fcnt uint8, addr string, data []byte) []byte {
	return vfC03Cat([]byte{byte(sid >> 24), byte(sid >> 16), byte(sid >> 8), byte(sid), byte(pid >> 8), byte(pid), fid, fcnt},
		vfC03VarintMin(uint64(len(addr))), []byte(addr), data)
}

// vfC03HostileDatagram: one datagram of a hostile server. Sessions 1..3 exist, 4 is closed.
func vfC03HostileDatagram(rng *rand.Rand) []byte {
	sids := []uint32{1, 1, 2, 3, 4, 0, 0xffffffff, uint32(rng.Intn(8)), rng.Uint32()}
	sid := sids[rng.Intn(len(sids))]
	pid := []uint16{0, 1, 2, 0xffff, uint16(rng.Intn(0x10000))}[rng.Intn(5)]
	cnt := []uint8{0, 1, 1, 2, 3, 5, 254, 255, uint8(rng.Intn(256))}[rng.Intn(9)]
	var fid uint8
	switch rng.Intn(5) {
	case 0:
		fid = cnt
	case 1:
		fid = uint8(rng.Intn(256))
	default:
		if cnt > 0 {
			fid = uint8(rng.Intn(int(cnt)))
		}
	}
	var addr string
	switch rng.Intn(6) {
	case 0:
		addr = strings.Repeat("L", 1+rng.Intn(protocol.MaxAddressLength))
	case 1:
		b := make([]byte, 1+rng.Intn(40))
		rng.Read(b)
		addr = string(b)
	default:
		addr = fmt.Sprintf("h%d.verif:%d", rng.Intn(6), 1+rng.Intn(65535))
	}
	dl := 1 + rng.Intn(64)
	if rng.Intn(8) == 0 {
		dl = 1 + rng.Intn(1400)
	}
	data := make([]byte, dl)
	rng.Read(data)
	d := vfC03Datagram(sid, pid, fid, cnt, addr, data)
	switch rng.Intn(20) {
	case 0:
		d = d[:rng.Intn(len(d)+1)]
	case 1:
		d[rng.Intn(len(d))] ^= 1 << rng.Intn(8)
	case 2:
		d = vfC03Fill(rng, 2, rng.Intn(65))
	}
	return d
}

// vfC03ReceiveUntil calls Receive until the canary comes out; everything queued before it is
// consumed on the way. The canary is a whole message queued last, so this cannot block.
func vfC03ReceiveUntil(u *udpConn, wantData []byte, wantAddr string, max int) error {
	for i := 0; i <= max; i++ {
		data, addr, err := u.Receive()
		if err != nil {
			return fmt.Errorf("Receive returned %v before the canary", err)
		}
		if bytes.Equal(data, wantData) {
			if addr != wantAddr {
				return fmt.Errorf("canary came out with address %q, want %q", addr, wantAddr)
			}
			return nil
		}
	}
	return fmt.Errorf("canary not among the first %d messages returned by Receive", max+1)
}

// vfC03ReceiveCollect calls Receive until the canary comes out and returns what came out before it.
func vfC03ReceiveCollect(u *udpConn, canary []byte, max int) ([][]byte, []string, error) {
	var datas [][]byte
	var addrs []string
	for i := 0; i <= max; i++ {
		data, addr, err := u.Receive()
		if err != nil {
			return datas, addrs, fmt.Errorf("Receive returned %v before the canary", err)
		}
		if bytes.Equal(data, canary) {
			return datas, addrs, nil
		}
		datas = append(datas, append([]byte(nil), data...))
		addrs = append(addrs, addr)
	}
	return datas, addrs, fmt.Errorf("canary not among the first %d messages returned by Receive", max+1)
}

// vfC03ClientAggregate: COMPLETE well-formed fragment sets with large totals (around 4096, 8 KiB,
// 64 KiB, 255 x 1200/1400) from a hostile server into one session, each followed by a canary
// datagram and Receive calls until the canary comes out; then a flood that overflows the
// session's 1024-message channel. push hands one raw datagram to the manager (feed or run()).
func vfC03ClientAggregate(k *vfKit, r *vfC03Run, entry string, mk func(id string) (u *udpConn, push func(seqID string, d []byte) bool, done func())) {
	sets := vfC03AggregateSets(k.Rand("aggregate"), k.N(20, 1200))
	var u *udpConn
	var push func(string, []byte) bool
	var done func()
	for i, set := range sets {
		id := fmt.Sprintf("agg-%d", i)
		if r.SkipSeq(id) {
			continue
		}
		if u == nil || i%6 == 0 || k.ReplayCase() != "" {
			if done != nil {
				done()
			}
			u, push, done = mk(id)
		}
		addr := fmt.Sprintf("agg-%d.verif:53", i)
		parts, whole := vfC03SetPayloads(set, uint32(i))
		pid := uint16(1 + i%0x6000)
		for _, f := range set.Order {
			if push(r.SeqID(id), vfC03Datagram(u.ID, pid, uint8(f), uint8(len(set.Sizes)), addr, parts[f])) {
				return
			}
		}
		k.Count("ev_aggregate_sets", 1)
		k.Count("aggregate_bytes", int64(set.Total))
		canary := []byte(fmt.Sprintf("c03 client canary after aggregate set %d", i))
		r.Canary(entry, r.SeqID(id), map[string]any{"after": set.Label, "total": set.Total}, func() error {
			if push(r.SeqID(id), vfC03Datagram(u.ID, 0, 0, 1, "canary.verif:53", canary)) {
				return errors.New("panicked")
			}
			datas, addrs, err := vfC03ReceiveCollect(u, canary, len(set.Order))
			if err != nil {
				return err
			}
			// a complete set is well-formed input: whatever Receive hands out for it must be the message itself
			if len(datas) > 0 {
				k.Count("ev_aggregate_delivered", 1)
				if len(datas) != 1 || !bytes.Equal(datas[0], whole) || addrs[0] != addr {
					return fmt.Errorf("complete fragment set %s: Receive handed out %d messages, first %d bytes from %q, want the %d-byte message from %q", set.Label, len(datas), len(datas[0]), addrs[0], len(whole), addr)
				}
			}
			return nil
		})
		if r.Dead(entry) {
			return
		}
		if i == 12 {
			k.Sample(map[string]any{"aggregate_set": set.Label, "fragments": len(set.Sizes), "total_bytes": set.Total, "arrivals": len(set.Order)})
		}
	}
	if done != nil {
		done()
	}
	// more messages than the session's channel holds (udpMessageChanSize), nothing read meanwhile
	id := "channel-flood"
	if r.SkipSeq(id) {
		return
	}
	u, push, done = mk(id)
	n := udpMessageChanSize + 500
	for j := 0; j < n; j++ {
		if push(r.SeqID(id), vfC03Datagram(u.ID, 0, 0, 1, "flood.verif:53", []byte(fmt.Sprintf("flood %d", j)))) {
			return
		}
	}
	k.Count("ev_flood_messages", int64(n))
	r.Canary(entry, r.SeqID(id), map[string]any{"queued": n}, func() error {
		for j := 0; j < udpMessageChanSize; j++ { // whole messages: one per call
			data, _, err := u.Receive()
			if err != nil || string(data) != fmt.Sprintf("flood %d", j) {
				return fmt.Errorf("message %d of the flood: %q err=%v", j, data, err)
			}
		}
		canary := []byte("c03 client canary after the channel flood")
		if push(r.SeqID(id), vfC03Datagram(u.ID, 0, 0, 1, "canary.verif:53", canary)) {
			return errors.New("panicked")
		}
		return vfC03ReceiveUntil(u, canary, "canary.verif:53", 0)
	})
	done()
}

func TestVerifC03ClientFeed(t *testing.T) {
	k := vfNewKit(t, "C03", "cli-feed")
	defer k.Finish()
	r := vfC03New(k)
	defer r.Close()
	const entry = "client:udpSessionManager.feed+udpConn.Receive"
	nseq := k.N(100, 3000)
	canaryNo := 0
	for i := 0; i < nseq; i++ {
		id := fmt.Sprintf("%d", i)
		if r.SkipSeq(id) {
			continue
		}
		rng := k.Rand("seq-" + id)
		o := vfC03NewIO()
		sm := newUDPSessionManager(o) // its run() goroutine waits in ReceiveMessage; feed is called directly
		r.NewObject("client udpSessionManager, sequence " + id)
		var conns []*udpConn
		for c := 0; c < 4; c++ {
			hc, err := sm.NewUDP()
			if err != nil {
				t.Fatalf("harness: NewUDP: %v", err)
			}
			conns = append(conns, hc.(*udpConn))
		}
		_ = conns[3].Close() // session 4 is closed: its datagrams must be ignored
		conns = conns[:3]
		queued := []int{0, 0, 0}
		steps := 100 + rng.Intn(100)
		panicked := false
		for s := 0; s < steps && !panicked; s++ {
			d := vfC03HostileDatagram(rng)
			panicked = r.DoObj(entry, r.SeqID(id), d, func(b []byte) {
				msg, err := protocol.ParseUDPMessage(b)
				if err != nil {
					k.Count("ev_unparsable", 1)
					return
				}
				k.Count("ev_fed", 1)
				if msg.SessionID >= 1 && msg.SessionID <= 3 {
					queued[msg.SessionID-1]++
				}
				sm.feed(msg)
			})
			if panicked || s%10 != 9 {
				continue
			}
			for ci, u := range conns {
				canaryNo++
				addr := fmt.Sprintf("ok-%d.verif:53", canaryNo)
				payload := []byte(fmt.Sprintf("c03 client canary %d", canaryNo))
				r.Canary(entry, r.SeqID(id), map[string]any{"session": u.ID, "addr": addr}, func() error {
					msg, err := protocol.ParseUDPMessage(vfExact(vfC03Datagram(u.ID, 0, 0, 1, addr, payload)))
					if err != nil {
						return err
					}
					sm.feed(msg)
					err = vfC03ReceiveUntil(u, payload, addr, queued[ci])
					queued[ci] = 0
					return err
				})
			}
		}
		if c := sm.Count(); c != 3 && !panicked {
			r.ServiceStopped(entry, r.SeqID(id), map[string]any{"sessions": c}, "session table has %d entries, want the 3 open ones", c)
		}
		o.Close() // run() returns, closeCleanup closes every session
		if !panicked {
			r.Canary(entry, r.SeqID(id), "Receive after the connection is gone", func() error {
				// Receive drains what is queued, then reports EOF once run() has cleaned up
				for n := 0; n < 2000; n++ {
					if _, _, err := conns[0].Receive(); err != nil {
						if err != io.EOF {
							return fmt.Errorf("Receive returned %v, want io.EOF", err)
						}
						return nil
					}
				}
				return errors.New("Receive never reported EOF after the manager stopped")
			})
		}
		if i < 2 {
			k.Sample(map[string]any{"sequence": id, "datagrams": steps})
		}
	}

	vfC03ClientAggregate(k, r, entry, func(id string) (*udpConn, func(string, []byte) bool, func()) {
		o := vfC03NewIO()
		sm := newUDPSessionManager(o)
		r.NewObject("client udpSessionManager, aggregate workload from " + id)
		hc, err := sm.NewUDP()
		if err != nil {
			t.Fatalf("harness: NewUDP: %v", err)
		}
		push := func(seqID string, d []byte) bool {
			return r.DoObj(entry, seqID, d, func(b []byte) {
				if msg, err := protocol.ParseUDPMessage(b); err == nil {
					sm.feed(msg)
				}
			})
		}
		return hc.(*udpConn), push, o.Close
	})
}

func TestVerifC03ClientRun(t *testing.T) {
	k := vfNewKit(t, "C03", "cli-run")
	defer k.Finish()
	r := vfC03New(k)
	defer r.Close()
	const entry = "client:udpSessionManager.run"
	nseq := k.N(60, 1200)
	canaryNo := 0
	for i := 0; i < nseq; i++ {
		id := fmt.Sprintf("%d", i)
		if r.SkipSeq(id) {
			continue
		}
		rng := k.Rand("seq-" + id)
		o := vfC03NewIO()
		sm := newUDPSessionManager(o)
		r.NewObject("client udpSessionManager.run, sequence " + id)
		<-o.entered
		push := func(d []byte) {
			o.rx <- d
			<-o.entered // back in ReceiveMessage: the datagram has been parsed and fed (or skipped)
		}
		var conns []*udpConn
		for c := 0; c < 3; c++ {
			hc, err := sm.NewUDP()
			if err != nil {
				t.Fatalf("harness: NewUDP: %v", err)
			}
			conns = append(conns, hc.(*udpConn))
		}
		queued := 0
		steps := 150 + rng.Intn(150)
		for s := 0; s < steps && !r.Dead(entry); s++ {
			var d []byte
			if rng.Intn(6) == 0 {
				d = vfC03Fill(rng, rng.Intn(4), s%65)
			} else {
				d = vfC03HostileDatagram(rng)
			}
			r.Log(entry, d, false)
			k.Eval()
			k.Count("ev_inputs", 1)
			k.Count("in:"+entry, 1)
			k.Nontrivial(entry + "|" + string(d))
			push(vfExact(d))
			queued++
			if s%10 != 9 {
				continue
			}
			for _, u := range conns {
				canaryNo++
				addr := fmt.Sprintf("ok-run-%d.verif:53", canaryNo)
				payload := []byte(fmt.Sprintf("c03 client run canary %d", canaryNo))
				r.Canary(entry, r.SeqID(id), map[string]any{"session": u.ID, "addr": addr}, func() error {
					push(vfExact(vfC03Datagram(u.ID, 0, 0, 1, addr, payload)))
					return vfC03ReceiveUntil(u, payload, addr, queued)
				})
			}
			queued = 0
		}
		o.Close()
		if i < 2 {
			k.Sample(map[string]any{"sequence": id, "raw_datagrams": steps})
		}
	}

	vfC03ClientAggregate(k, r, entry, func(id string) (*udpConn, func(string, []byte) bool, func()) {
		o := vfC03NewIO()
		sm := newUDPSessionManager(o)
		r.NewObject("client udpSessionManager.run, aggregate workload from " + id)
		<-o.entered
		hc, err := sm.NewUDP()
		if err != nil {
			t.Fatalf("harness: NewUDP: %v", err)
		}
		push := func(seqID string, d []byte) bool {
			if r.Dead(entry) {
				return true
			}
			r.Log(entry, d, false)
			k.Eval()
			k.Count("ev_inputs", 1)
			k.Count("in:"+entry, 1)
			k.Nontrivial(entry + "|" + string(d))
			o.rx <- vfExact(d)
			<-o.entered
			return false
		}
		return hc.(*udpConn), push, o.Close
	})
}

func vfC03SendCases(rng *rand.Rand, nRandom int) [][3]int {
	var cases [][3]int
	hdrOf := func(al int) int { return 8 + len(vfC03VarintMin(uint64(al))) + al }
	for _, al := range []int{1, 3, 9, 21, 63, 64, 255, 2048} {
		h := hdrOf(al)
		for _, lim := range []int{-1 << 40, -1, 0, 1, 7, 8, h - 1, h, h + 1, h + 2, h + 3, h + 8, h + 15, h + 16, h + 17, h + 64, 1200, 1252, 4095, 4096, 1 << 40} {
			for _, s := range []int{0, 1, 2, 15, 16, 17, 255, 256, 257, 1199, 1200, 1201, 2560, 4079, 4080, 4087, 4088, 4095, 4096, 4097, 65535} {
				cases = append(cases, [3]int{s, al, lim})
			}
			if b := lim - h; b > 0 && b <= 17 {
				for _, mul := range []int{254, 255, 256, 257} {
					for _, d := range []int{-1, 0, 1} {
						if v := mul*b + d; v >= 0 && v <= 4096 {
							cases = append(cases, [3]int{v, al, lim})
						}
					}
				}
			}
		}
	}
	for i := 0; i < nRandom; i++ {
		al := 1 + rng.Intn(64)
		if rng.Intn(10) == 0 {
			al = 1 + rng.Intn(2048)
		}
		lim := hdrOf(al) - 2 + rng.Intn(30)
		if rng.Intn(3) == 0 {
			lim = rng.Intn(1400)
		}
		cases = append(cases, [3]int{rng.Intn(4200), al, lim})
	}
	return cases
}

func TestVerifC03ClientSend(t *testing.T) {
	k := vfNewKit(t, "C03", "cli-send")
	defer k.Finish()
	r := vfC03New(k)
	defer r.Close()
	const entry = "client:udpConn.Send"
	payload := make([]byte, 65536)
	for i := range payload {
		payload[i] = byte(i*11 + 3)
	}
	o := vfC03NewIO()
	sm := newUDPSessionManager(o)
	defer o.Close()
	hc, err := sm.NewUDP()
	if err != nil {
		t.Fatalf("harness: NewUDP: %v", err)
	}
	u := hc.(*udpConn)
	r.Entry(entry, func(b []byte) {
		var s, al, lim int
		if _, err := fmt.Sscanf(string(b), "%d/%d/%d", &s, &al, &lim); err != nil || s > len(payload) {
			return
		}
		o.setLimit(true, int64(lim))
		o.takeSent()
		if err := u.Send(vfExact(payload[:s]), strings.Repeat("t", al)); err != nil {
			k.Count("ev_send_error", 1)
		}
		n := len(o.takeSent())
		k.Count("datagrams_out", int64(n))
		if n > 1 {
			k.Count("ev_fragmented", 1)
		} else if n == 0 {
			k.Count("ev_dropped", 1)
		}
	})
	if r.Replay() {
		return
	}
	rng := k.Rand("grid")
	cases := vfC03SendCases(rng, k.N(3000, 120000))
	for i, c := range cases {
		r.Do(entry, []byte(fmt.Sprintf("%d/%d/%d", c[0], c[1], c[2])))
		if i%500 != 499 {
			continue
		}
		r.Canary(entry, "", "3000-byte datagram, limit 1200", func() error {
			o.setLimit(true, 1200)
			o.takeSent()
			if err := u.Send(vfExact(payload[:3000]), "target.verif:53"); err != nil {
				return err
			}
			sent := o.takeSent()
			if len(sent) == 0 {
				return errors.New("nothing was sent")
			}
			var cat []byte
			for j, raw := range sent {
				if len(raw) > 1200 {
					return fmt.Errorf("datagram %d has %d bytes > 1200", j, len(raw))
				}
				m, err := protocol.ParseUDPMessage(raw)
				if err != nil || m.Addr != "target.verif:53" || m.SessionID != u.ID {
					return fmt.Errorf("datagram %d: %+v err=%v", j, m, err)
				}
				cat = append(cat, m.Data...)
			}
			if !bytes.Equal(cat, payload[:3000]) {
				return errors.New("fragments do not concatenate to the payload")
			}
			return nil
		})
	}
	k.Sample(map[string]any{"entry": entry, "cases": len(cases), "example payload/addrlen/limit": "4096/3/28"})
}

func TestVerifC03ClientTCPResponse(t *testing.T) {
	k := vfNewKit(t, "C03", "cli-tcpresp")
	defer k.Finish()
	r := vfC03New(k)
	defer r.Close()
	const entry = "client:tcpConn.Read/ReadTCPResponse"
	// what tcpConn.Read does on its first call (client.go): decode, map a refusal to DialError
	first := func(rd io.Reader) (int, error) {
		ok, msg, err := protocol.ReadTCPResponse(rd)
		if err != nil {
			return 0, err
		}
		if !ok {
			return 0, coreErrs.DialError{Message: msg}
		}
		var b [16]byte
		return rd.Read(b[:])
	}
	r.Entry(entry, func(b []byte) {
		for mode := 0; mode < 4; mode++ {
			_, err := first(&vfC03Reader{data: b, mode: mode, endErr: io.EOF})
			if err == nil {
				k.Count("ev_accepted", 1)
			} else {
				k.Count("ev_rejected", 1)
				_ = err.Error()
			}
		}
	})
	if r.Replay() {
		return
	}
	rng := k.Rand("gen")
	seed := func(status byte, msg string, pad int) []byte {
		return vfC03Cat([]byte{status}, vfC03VarintMin(uint64(len(msg))), []byte(msg), vfC03VarintMin(uint64(pad)), bytes.Repeat([]byte{'p'}, pad), []byte("DATA"))
	}
	n := 0
	emit := func(b []byte) {
		r.Do(entry, b)
		if n++; n%500 != 0 {
			return
		}
		r.Canary(entry, "", "status 0, message, padding, then data", func() error {
			var w bytes.Buffer
			if err := protocol.WriteTCPResponse(&w, true, "fine"); err != nil {
				return err
			}
			w.WriteString("DATA")
			got, err := first(&vfC03Reader{data: vfExact(w.Bytes()), mode: n % 3, endErr: io.EOF})
			if err != nil || got == 0 {
				return fmt.Errorf("first read after a valid response: n=%d err=%v", got, err)
			}
			return nil
		})
	}
	var heads [][]byte
	for _, st := range []byte{0, 1, 0xff} {
		heads = append(heads, []byte{st})
		for _, l := range []uint64{1<<62 - 1, 0, 1, 2048, 2049} {
			for _, w := range []int{8, 2, 1} {
				heads = append(heads, vfC03Cat([]byte{st}, vfC03Varint(l, w)))
			}
		}
	}
	vfC03Prefixes(rng, heads, 64, emit)
	lens := vfC03LenValues(protocol.MaxMessageLength, protocol.MaxPaddingLength)
	for _, s := range []struct {
		st  byte
		msg string
		pad int
	}{{0, "", 0}, {1, "connection refused", 100}} {
		sd := seed(s.st, s.msg, s.pad)
		ml := len(vfC03VarintMin(uint64(len(s.msg))))
		fields := []vfC03Field{{0, 1, "u8"}, {1, ml, "varint"}, {1 + ml + len(s.msg), len(vfC03VarintMin(uint64(s.pad))), "varint"}}
		vfC03Mutations(rng, sd, fields, lens, k.N(100, 3000), emit)
	}
	vfC03Random(rng, k.N(1500, 50000), 6000, emit)
	k.Sample(map[string]any{"entry": entry, "inputs": k.Counter("ev_inputs")})
}
