//go:build verif

package client

// C03 — peer-controlled bytes never crash the process: the peer's flood meets the application's
// Close()/NewUDP() on the same session (own job: a panic in run() is process-fatal).
//
//   cli-conc-feed: a flood goroutine calls udpSessionManager.feed directly (under the guard) for one
//                  session — backlog empty / almost full / full / overfull, nobody reading — while the
//                  application closes that session, closes it twice, closes and reopens.
//   cli-conc-run:  the same flood as RAW datagrams through the manager's own run() goroutine and the
//                  fake IO (every datagram is logged before it is pushed; a panic there kills the
//                  child and the runner reports `crash:<panic line>`).
//
// Two schedulers per part: (1) inside a testing/synctest bubble the closer acts exactly when every
// goroutine of the code under test is parked (synctest.Wait) — the worst instant if the receive
// path ever waits — and virtual time lets any such wait run out; (2) free-running goroutines,
// 2 application goroutines closing/reopening while the flood runs, bounded cycles, under -race.
// No verdict depends on time: a cycle ends when the flood goroutine has handed over its fixed
// number of datagrams. Afterwards a fresh session must still deliver a well-formed datagram.

import (
	"fmt"
	"runtime"
	"sync"
	"sync/atomic"
	"testing"
	"testing/synctest"

	"github.com/apernet/hysteria/core/v2/internal/protocol"
)

// vfC03ConcBacklogs: how many datagrams the flood sends before/around the application's Close.
var vfC03ConcBacklogs = []int{0, 1, udpMessageChanSize - 1, udpMessageChanSize, udpMessageChanSize + 1, udpMessageChanSize + 40}

func vfC03ConcCanary(r *vfC03Run, entry, seqID string, sm *udpSessionManager, push func(d []byte), n int) {
	r.Canary(entry, seqID, map[string]any{"after_cycle": n}, func() error {
		hc, err := sm.NewUDP()
		if err != nil {
			return fmt.Errorf("NewUDP after the cycle: %v", err)
		}
		u := hc.(*udpConn)
		defer u.Close()
		payload := []byte(fmt.Sprintf("c03 concurrency canary %d", n))
		push(vfC03Datagram(u.ID, 0, 0, 1, "canary.verif:53", payload))
		return vfC03ReceiveUntil(u, payload, "canary.verif:53", 0)
	})
}

// vfC03ConcCycleParked: one cycle in a bubble. The flood goroutine hands over `count` datagrams for
// session u; when everything is parked the application acts; then the flood is awaited.
func vfC03ConcCycleParked(sm *udpSessionManager, u *udpConn, count, action int, flood func(d []byte) bool) {
	done := make(chan struct{})
	go func() {
		defer close(done)
		for j := 0; j < count; j++ {
			if flood(vfC03Datagram(u.ID, 0, 0, 1, "flood.verif:53", []byte(fmt.Sprintf("flood %d", j)))) {
				return
			}
		}
	}()
	synctest.Wait() // the flood is through, or the receive path is parked somewhere
	switch action % 4 {
	case 0:
		_ = u.Close()
	case 1:
		_ = u.Close()
		_ = u.Close()
	case 2:
		_ = u.Close()
		if hc, err := sm.NewUDP(); err == nil {
			defer hc.Close()
		}
	case 3: // the application reads a little, then closes
		for i := 0; i < 3 && len(u.ReceiveCh) > 0; i++ {
			_, _, _ = u.Receive()
		}
		_ = u.Close()
	}
	<-done
}

// vfC03ConcCycleFree: one free-running cycle: the flood runs until two application goroutines have
// closed and reopened the flooded session `ops` times each.
func vfC03ConcCycleFree(sm *udpSessionManager, prefill, ops int, flood func(d []byte) bool) {
	hc, err := sm.NewUDP()
	if err != nil {
		return
	}
	var cur atomic.Uint32
	cur.Store(hc.(*udpConn).ID)
	var mu sync.Mutex
	conns := []HyUDPConn{hc}
	for j := 0; j < prefill; j++ {
		if flood(vfC03Datagram(cur.Load(), 0, 0, 1, "flood.verif:53", []byte("prefill"))) {
			return
		}
	}
	var stop atomic.Bool
	floodDone := make(chan struct{})
	go func() {
		defer close(floodDone)
		for j := 0; !stop.Load(); j++ {
			if flood(vfC03Datagram(cur.Load(), uint16(j), 0, 1, "flood.verif:53", []byte("flood"))) {
				return
			}
			if j%64 == 63 {
				runtime.Gosched()
			}
		}
	}()
	var wg sync.WaitGroup
	for a := 0; a < 2; a++ {
		wg.Add(1)
		go func() {
			defer wg.Done()
			for i := 0; i < ops; i++ {
				mu.Lock()
				c := conns[len(conns)-1]
				mu.Unlock()
				_ = c.Close()
				runtime.Gosched()
				if nc, err := sm.NewUDP(); err == nil {
					cur.Store(nc.(*udpConn).ID)
					mu.Lock()
					conns = append(conns, nc)
					mu.Unlock()
				}
				runtime.Gosched()
			}
		}()
	}
	wg.Wait()
	stop.Store(true)
	<-floodDone
	mu.Lock()
	for _, c := range conns {
		_ = c.Close()
	}
	mu.Unlock()
}

func TestVerifC03ConcClientFeed(t *testing.T) {
	k := vfNewKit(t, "C03", "cli-conc-feed")
	defer k.Finish()
	r := vfC03New(k)
	defer r.Close()
	const entry = "client:udpSessionManager.feed||udpConn.Close"
	cycles := k.N(120, 1200)
	// (1) parked-closer cycles in a bubble
	if !r.SkipSeq("parked") {
		synctest.Test(t, func(t *testing.T) {
			o := vfC03NewIO()
			sm := newUDPSessionManager(o)
			defer o.Close()
			r.NewObject("client udpSessionManager, flood vs Close, bubble")
			flood := func(d []byte) bool {
				return r.DoObj(entry, r.SeqID("parked"), d, func(b []byte) {
					if msg, err := protocol.ParseUDPMessage(b); err == nil {
						sm.feed(msg)
					}
				})
			}
			for c := 0; c < cycles && !r.Dead(entry); c++ {
				hc, err := sm.NewUDP()
				if err != nil {
					t.Fatalf("harness: NewUDP: %v", err)
				}
				vfC03ConcCycleParked(sm, hc.(*udpConn), vfC03ConcBacklogs[c%len(vfC03ConcBacklogs)], c/len(vfC03ConcBacklogs), flood)
				k.Count("ev_cycles_parked", 1)
				if c%10 == 9 {
					vfC03ConcCanary(r, entry, r.SeqID("parked"), sm, func(d []byte) { flood(d) }, c)
				}
				if c%40 == 0 {
					r.NewObject("client udpSessionManager, flood vs Close, bubble, from cycle " + fmt.Sprint(c))
				}
			}
		})
	}
	// (2) free-running cycles
	if !r.SkipSeq("free") && !r.Dead(entry) {
		o := vfC03NewIO()
		sm := newUDPSessionManager(o)
		defer o.Close()
		r.NewObject("client udpSessionManager, flood vs Close/NewUDP, free-running")
		var feeds atomic.Int64
		for c := 0; c < cycles/2 && !r.Dead(entry); c++ {
			// one guarded call per flood loop would hide the goroutine; each cycle logs its datagram shape once
			r.Log(entry, vfC03Datagram(0, 0, 0, 1, "flood.verif:53", []byte("flood")), false)
			k.Eval()
			k.Count("ev_inputs", 1)
			k.Nontrivial(fmt.Sprintf("%s|free|%d", entry, c))
			flood := func(d []byte) (panicked bool) {
				defer func() {
					if p := recover(); p != nil {
						panicked = true
						r.Panicked(entry, r.SeqID("free"), d, map[string]any{"cycle": c, "scheduler": "free-running"}, p, "")
					}
				}()
				if msg, err := protocol.ParseUDPMessage(vfExact(d)); err == nil {
					sm.feed(msg)
					feeds.Add(1)
				}
				return false
			}
			vfC03ConcCycleFree(sm, []int{0, udpMessageChanSize - 2, udpMessageChanSize}[c%3], 4, flood)
			k.Count("ev_cycles_free", 1)
			if c%10 == 9 {
				vfC03ConcCanary(r, entry, r.SeqID("free"), sm, func(d []byte) { flood(d) }, c)
			}
		}
		k.Count("feeds_free_running", feeds.Load())
	}
	k.Sample(map[string]any{"entry": entry, "cycles_parked": k.Counter("ev_cycles_parked"), "cycles_free": k.Counter("ev_cycles_free"), "backlogs": vfC03ConcBacklogs})
}

func TestVerifC03ConcClientRun(t *testing.T) {
	k := vfNewKit(t, "C03", "cli-conc-run")
	defer k.Finish()
	r := vfC03New(k)
	defer r.Close()
	const entry = "client:udpSessionManager.run||udpConn.Close"
	cycles := k.N(120, 1200)
	// counted=false: free-running floods push a schedule-dependent number of datagrams; those are logged
	// (witness) but kept out of the evaluation counts, which stay a function of tier and seed
	mkPush := func(o *vfC03IO, counted bool) func(d []byte) bool {
		return func(d []byte) bool {
			r.Log(entry, d, false)
			if counted {
				k.Eval()
				k.Count("ev_inputs", 1)
			} else {
				k.Count("pushes_free_running", 1)
			}
			select {
			case o.rx <- vfExact(d):
			case <-o.closed:
				return true
			}
			select {
			case <-o.entered: // run() is back for the next datagram
			case <-o.closed:
				return true
			}
			return false
		}
	}
	if !r.SkipSeq("parked") {
		synctest.Test(t, func(t *testing.T) {
			o := vfC03NewIO()
			sm := newUDPSessionManager(o)
			defer o.Close()
			<-o.entered
			r.NewObject("client udpSessionManager.run, flood vs Close, bubble")
			push := mkPush(o, true)
			for c := 0; c < cycles; c++ {
				hc, err := sm.NewUDP()
				if err != nil {
					t.Fatalf("harness: NewUDP: %v", err)
				}
				vfC03ConcCycleParked(sm, hc.(*udpConn), vfC03ConcBacklogs[c%len(vfC03ConcBacklogs)], c/len(vfC03ConcBacklogs), push)
				k.Count("ev_cycles_parked", 1)
				k.Nontrivial(fmt.Sprintf("%s|parked|%d", entry, c))
				if c%10 == 9 {
					vfC03ConcCanary(r, entry, r.SeqID("parked"), sm, func(d []byte) { push(d) }, c)
				}
				if c%40 == 0 {
					r.NewObject("client udpSessionManager.run, flood vs Close, bubble, from cycle " + fmt.Sprint(c))
				}
			}
		})
	}
	if !r.SkipSeq("free") {
		o := vfC03NewIO()
		sm := newUDPSessionManager(o)
		defer o.Close()
		<-o.entered
		r.NewObject("client udpSessionManager.run, flood vs Close/NewUDP, free-running")
		push := mkPush(o, false)
		for c := 0; c < cycles/2; c++ {
			vfC03ConcCycleFree(sm, []int{0, udpMessageChanSize - 2, udpMessageChanSize}[c%3], 4, push)
			k.Eval()
			k.Count("ev_inputs", 1)
			k.Count("ev_cycles_free", 1)
			k.Nontrivial(fmt.Sprintf("%s|free|%d", entry, c))
			if c%10 == 9 {
				vfC03ConcCanary(r, entry, r.SeqID("free"), sm, func(d []byte) { push(d) }, c)
			}
			if c%5 == 0 {
				r.NewObject("client udpSessionManager.run, free-running, from cycle " + fmt.Sprint(c))
			}
		}
	}
	k.Sample(map[string]any{"entry": entry, "cycles_parked": k.Counter("ev_cycles_parked"), "cycles_free": k.Counter("ev_cycles_free")})
}
