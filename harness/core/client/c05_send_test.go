//go:build verif

package client

// C05 (end-to-end send path, client side): udpConn.Send with a fake SendFunc that answers
// like QUIC (DatagramTooLargeError carrying the limit) and records the datagrams actually
// sent. Everything that left must fit the limit and reassemble — through ParseUDPMessage and
// a fresh Defragger, in the order sent and in a shuffled order — to exactly the original
// message, or nothing at all may have been delivered.

import (
	"bytes"
	"fmt"
	"testing"

	"github.com/apernet/quic-go"

	"github.com/apernet/hysteria/core/v2/internal/frag"
	"github.com/apernet/hysteria/core/v2/internal/protocol"
)

type vfC05SendIO struct {
	limit int
	sent  [][]byte
	calls int
}

func (f *vfC05SendIO) SendMessage(buf []byte, m *protocol.UDPMessage) error {
	f.calls++
	n := m.Serialize(buf)
	if n < 0 {
		return nil // larger than the buffer: silently dropped, like udpIOImpl
	}
	if n > f.limit {
		return &quic.DatagramTooLargeError{MaxDatagramPayloadSize: int64(f.limit)}
	}
	f.sent = append(f.sent, append([]byte(nil), buf[:n]...))
	return nil
}

func vfC05Payload(id uint32, n int) []byte {
	b := make([]byte, n)
	for i := range b {
		b[i] = byte(uint32(i)*2654435761>>24) ^ byte(id) ^ byte(i>>8)
	}
	return b
}

// vfC05JudgeSent is shared in spirit with the client-side harness: datagrams that left the
// sender must each fit the limit and reassemble to exactly the original, in any order.
func vfC05JudgeSent(k *vfKit, rep map[string]any, limit int, sent [][]byte, sid uint32, addr string, payload []byte, r interface{ Perm(int) []int }) {
	if len(sent) == 0 {
		k.Count("ev_not_sent", 1)
		return
	}
	if len(sent) > 255 {
		k.Violation("send:more-than-255-datagrams", rep, "%d datagrams sent for one message", len(sent))
		return
	}
	for i, d := range sent {
		if len(d) > limit {
			k.Violation("send:datagram-over-limit", rep, "datagram %d is %d bytes > limit %d", i, len(d), limit)
			return
		}
	}
	orders := [][]int{nil, r.Perm(len(sent))}
	for _, order := range orders {
		if order == nil {
			order = make([]int, len(sent))
			for i := range order {
				order[i] = i
			}
		}
		d := &frag.Defragger{}
		var got []*protocol.UDPMessage
		for _, idx := range order {
			m, err := protocol.ParseUDPMessage(append([]byte(nil), sent[idx]...))
			if err != nil {
				k.Violation("send:datagram-unparsable", rep, "datagram %d does not parse: %v", idx, err)
				return
			}
			if out := d.Feed(m); out != nil {
				got = append(got, out)
			}
		}
		if len(got) != 1 {
			k.Violation("send:partial-or-duplicated-message", rep, "%d datagrams reassemble to %d messages (want 1) in order %v", len(sent), len(got), order)
			return
		}
		if got[0].SessionID != sid || got[0].Addr != addr || !bytes.Equal(got[0].Data, payload) {
			k.Violation("send:delivered-message-differs", rep, "delivered (sid %d, addr %q, %d bytes) != sent (sid %d, addr %q, %d bytes)",
				got[0].SessionID, got[0].Addr, len(got[0].Data), sid, addr, len(payload))
			return
		}
	}
	k.Count("ev_delivered", 1)
	k.Count("ev_datagrams", int64(len(sent)))
}

func TestVerifC05ClientSend(t *testing.T) {
	k := vfNewKit(t, "C05", "client-send")
	defer k.Finish()
	r := k.Rand("cases")
	n := k.N(4000, 80000)
	buf := make([]byte, protocol.MaxUDPSize)
	for i := 0; i < n; i++ {
		caseID := fmt.Sprintf("cs-%d", i)
		if rc := k.ReplayCase(); rc != "" && rc != caseID {
			continue
		}
		al := 1 + r.Intn(60)
		if r.Intn(8) == 0 {
			al = 1 + r.Intn(600)
		}
		addr := string(bytes.Repeat([]byte{'a' + byte(i%26)}, al))
		hdr := (&protocol.UDPMessage{Addr: addr}).HeaderSize()
		var limit int
		switch r.Intn(6) {
		case 0:
			limit = hdr - 2 + r.Intn(5) // at or around the header size
		case 1:
			limit = hdr + 1 + r.Intn(20) // tiny budget: many fragments, >255 for larger payloads
		default:
			limit = 1000 + r.Intn(400)
		}
		if limit < 1 {
			limit = 1
		}
		plen := 1 + r.Intn(4090)
		if r.Intn(4) == 0 {
			b := limit - hdr
			if b > 0 {
				plen = []int{b - 1, b, b + 1, 2 * b, 2*b + 1, 255 * b, 255*b + 1, 256 * b}[r.Intn(8)]
			}
		}
		if plen < 1 {
			plen = 1
		}
		if plen > protocol.MaxUDPSize {
			plen = protocol.MaxUDPSize
		}
		sid := uint32(i + 1)
		payload := vfC05Payload(sid, plen)
		orig := append([]byte(nil), payload...)
		io := &vfC05SendIO{limit: limit}
		uc := &udpConn{ID: sid, D: &frag.Defragger{}, SendBuf: buf, SendFunc: io.SendMessage, CloseFunc: func() {}}
		rep := map[string]any{"case_id": caseID, "addr_len": al, "limit": limit, "payload_len": plen}
		k.Eval()
		var err error
		if k.Guard("send:udpConn.Send-panic", rep, func() { err = uc.Send(payload, addr) }) {
			continue
		}
		_ = err
		k.Count("ev_send_calls", int64(io.calls))
		vfC05JudgeSent(k, rep, limit, io.sent, sid, addr, orig, r)
		if len(io.sent) > 1 {
			k.Nontrivial(fmt.Sprintf("%d/%d/%d", al, limit, plen))
			if i%500 == 0 {
				k.Sample(map[string]any{"case": rep, "datagrams": len(io.sent)})
			}
		}
	}
}
