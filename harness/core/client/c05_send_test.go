//go:build verif

package client

// C05 (end-to-end send path, client side): udpConn.Send with a fake SendFunc that answers
// like QUIC (DatagramTooLargeError carrying the limit) and records the datagrams actually
// sent. Everything that left must fit the limit and reassemble — through ParseUDPMessage and
// a fresh Defragger, in the order sent and in a shuffled order — to exactly the original
// message, or nothing at all may have been delivered.

import (
	"bytes"
	"fmt"
	"testing"

	"github.com/apernet/quic-go"

	"github.com/apernet/hysteria/core/v2/internal/frag"
	"github.com/apernet/hysteria/core/v2/internal/protocol"
)

type vfC05SendIO struct {
	limit int
	sent  [][]byte
	calls int
}

func (f *vfC05SendIO) SendMessage(buf []byte, m *protocol.UDPMessage) error {
	f.calls++
	n := m.Serialize(buf)
	if n < 0 {
		return nil // larger than the buffer: silently dropped, like udpIOImpl
	}
	if n > f.limit {
		return &quic.DatagramTooLargeError{MaxDatagramPayloadSize: int64(f.limit)}
	}
	f.sent = append(f.sent, append([]byte(nil), buf[:n]...))
	return nil
}

func vfC05Payload(id uint32, n int) []byte {
	b := make([]byte, n)
	for i := range b {
		b[i] = byte(uint32(i)*2654435761>>24) ^ byte(id) ^ byte(i>>8)
	}
	return b
}

// vfC05JudgeSent is shared in spirit with the client-side harness: datagrams that left the
// sender must each fit the limit and reassemble to exactly the original, in any order.
func vfC05JudgeSent(k *vfKit, rep map[string]any, limit int, sent [][]byte, sid uint32, addr string, payload []byte, r interface{ Perm(int) []int }) {
	if len(sent) == 0 {
		k.Count("ev_not_sent", 1)
		return
	}
	if len(sent) > 255 {
		k.Violation("send:more-than-255-datagrams", rep, "%d datagrams sent for one message", len(sent))
		return
	}
	for i, d := range sent {
		if len(d) > limit {
			k.Violation("send:datagram-over-limit", rep, "datagram %d is %d bytes > limit %d", i, len(d), limit)
			return
		}
	}
	orders := [][]int{nil, r.Perm(len(sent))}
	for _, order := range orders {
		if order == nil {
			order = make([]int, len(sent))
			for i := range order {
				order[i] = i
			}
		}
		d := &frag.Defragger{}
		var got []*protocol.UDPMessage
		for _, idx := range order {
			m, err := protocol.ParseUDPMessage(append([]byte(nil), sent[idx]...))
			if err != nil {
				k.Violation("send:datagram-unparsable", rep, "datagram %d does not parse: %v", idx, err)
				return
			}
			if out := d.Feed(m); out != nil {
				got = append(got, out)
			}
		}
		if len(got) != 1 {
			k.Violation("send:partial-or-duplicated-message", rep, "%d datagrams reassemble to %d messages (want 1) in order %v", len(sent), len(got), order)
			return
		}
		if got[0].SessionID != sid || got[0].Addr != addr || !bytes.Equal(got[0].Data, payload) {
			k.Violation("send:delivered-message-differs", rep, "delivered (sid %d, addr %q, %d bytes) != sent (sid %d, addr %q, %d bytes)",
				got[0].SessionID, got[0].Addr, len(got[0].Data), sid, addr, len(payload))
			return
		}
	}
	k.Count("ev_delivered", 1)
	k.Count("ev_datagrams", int64(len(sent)))
}

func TestVerifC05ClientSend(t *testing.T) {
	k := vfNewKit(t, "C05", "client-send")
	defer k.Finish()
	r := k.Rand("cases")
	n := k.N(4000, 80000)
	buf := make([]byte, protocol.MaxUDPSize)
	for i := 0; i < n; i++ {
		caseID := fmt.Sprintf("cs-%d", i)
		if rc := k.ReplayCase(); rc != "" && rc != caseID {
			continue
		}
		al := 1 + r.Intn(60)
		if r.Intn(8) == 0 {
			al = 1 + r.Intn(600)
		}
		addr := string(bytes.Repeat([]byte{'a' + byte(i%26)}, al))
		hdr := (&protocol.UDPMessage{Addr: addr}).HeaderSize()
		var limit int
		switch r.Intn(6) {
		case 0:
			limit = hdr - 2 + r.Intn(5) // at or around the header size
		case 1:
			limit = hdr + 1 + r.Intn(20) // tiny budget: many fragments, >255 for larger payloads
		default:
			limit = 1000 + r.Intn(400)
		}
		if limit < 1 {
			limit = 1
		}
		plen := 1 + r.Intn(4090)
		if r.Intn(4) == 0 {
			b := limit - hdr
			if b > 0 {
				plen = []int{b - 1, b, b + 1, 2 * b, 2*b + 1, 255 * b, 255*b + 1, 256 * b}[r.Intn(8)]
			}
		}
		if plen < 1 {
			plen = 1
		}
		if plen > protocol.MaxUDPSize {
			plen = protocol.MaxUDPSize
		}
		sid := uint32(i + 1)
		payload := vfC05Payload(sid, plen)
		orig := append([]byte(nil), payload...)
		io := &vfC05SendIO{limit: limit}
		uc := &udpConn{ID: sid, D: &frag.Defragger{}, SendBuf: buf, SendFunc: io.SendMessage, CloseFunc: func() {}}
		rep := map[string]any{"case_id": caseID, "addr_len": al, "limit": limit, "payload_len": plen}
		k.Eval()
		var err error
		if k.Guard("send:udpConn.Send-panic", rep, func() { err = uc.Send(payload, addr) }) {
			continue
		}
		_ = err
		k.Count("ev_send_calls", int64(io.calls))
		vfC05JudgeSent(k, rep, limit, io.sent, sid, addr, orig, r)
		if len(io.sent) > 1 {
			k.Nontrivial(fmt.Sprintf("%d/%d/%d", al, limit, plen))
			if i%500 == 0 {
				k.Sample(map[string]any{"case": rep, "datagrams": len(io.sent)})
			}
		}
	}
}

// ---- stateful session: several messages through ONE udpConn, some cut short mid-send ----

type vfC05SessIO struct {
	limit    int
	failAt   map[int]bool // call numbers (1-based) that fail with a plain error
	shrinkAt map[int]int  // call number -> new (smaller) limit from then on
	calls    int
	out      [][]byte // every datagram that left, in order
}

func (f *vfC05SessIO) send(buf []byte, m *protocol.UDPMessage) error {
	f.calls++
	if nl, ok := f.shrinkAt[f.calls]; ok {
		f.limit = nl
	}
	if f.failAt[f.calls] {
		return fmt.Errorf("vf: injected send failure at call %d", f.calls)
	}
	n := m.Serialize(buf)
	if n < 0 {
		return nil
	}
	if n > f.limit {
		return &quic.DatagramTooLargeError{MaxDatagramPayloadSize: int64(f.limit)}
	}
	f.out = append(f.out, append([]byte(nil), buf[:n]...))
	return nil
}

// TestVerifC05ClientSession: the far side keeps one reassembler per session. Whatever the
// sender does after a message was cut short mid-send (send error, datagram limit shrinking
// between two fragments), everything the far side emits must be one of the messages handed to
// Send, byte-identical, and a message whose fragments all left must be delivered.
func TestVerifC05ClientSession(t *testing.T) {
	k := vfNewKit(t, "C05", "client-session")
	defer k.Finish()
	n := k.N(1500, 30000)
	buf := make([]byte, protocol.MaxUDPSize)
	wrongEmissions := 0
	partials := 0
	idPairs, idCollisions := 0, 0
	var firstWrong map[string]any
	for i := 0; i < n; i++ {
		caseID := fmt.Sprintf("sess-%d", i)
		if rc := k.ReplayCase(); rc != "" && rc != caseID {
			continue
		}
		r := k.Rand(caseID)
		k.Eval()
		addr := fmt.Sprintf("h%d.verif:%d", i, 1000+r.Intn(60000))
		hdr := (&protocol.UDPMessage{Addr: addr}).HeaderSize()
		budget := 20 + r.Intn(300)
		io := &vfC05SessIO{limit: hdr + budget, failAt: map[int]bool{}, shrinkAt: map[int]int{}}
		uc := &udpConn{ID: uint32(i + 1), D: &frag.Defragger{}, SendBuf: buf, SendFunc: io.send, CloseFunc: func() {}}
		nmsg := 4 + r.Intn(8)
		fragClass := 2 + r.Intn(4) // most messages of a session need the same number of fragments
		type sent struct {
			payload  []byte
			complete bool // Send returned nil and at least one datagram left for it
			outFrom  int
			outTo    int
			pid      uint16 // packet ID of its fragments
			fragd    bool   // it left as fragments (so pid is meaningful)
		}
		var msgs []sent
		var script []map[string]any
		for j := 0; j < nmsg; j++ {
			fc := fragClass
			if r.Intn(4) == 0 {
				fc = 1 + r.Intn(6)
			}
			plen := (fc-1)*budget + 1 + r.Intn(budget)
			if fc == 1 {
				plen = 1 + r.Intn(budget)
			}
			payload := vfC05Payload(uint32(i*64+j), plen)
			// fault plan for this message: calls are numbered globally; the first call of a
			// fragmented message is the whole-message attempt (TooLarge), then the fragments.
			base := io.calls
			fault := "none"
			if fc > 1 {
				switch r.Intn(5) {
				case 0: // plain error on one of the later fragments
					io.failAt[base+2+1+r.Intn(fc-1)] = true
					fault = "send-error-mid-message"
				case 1: // the datagram limit shrinks between two fragments
					io.shrinkAt[base+2+1+r.Intn(fc-1)] = hdr + 1 + r.Intn(budget-1)
					fault = "limit-shrinks-mid-message"
				}
			}
			from := len(io.out)
			var err error
			rep := map[string]any{"case_id": caseID, "msg": j, "payload_len": plen, "limit": io.limit, "fault": fault}
			if k.Guard("send:udpConn.Send-panic", rep, func() { err = uc.Send(payload, addr) }) {
				break
			}
			// restore the limit for the next message (the path MTU recovered)
			io.limit = hdr + budget
			if err != nil && len(io.out) > from {
				partials++
			}
			var pid uint16
			fragd := false
			if len(io.out) > from {
				if pm, perr := protocol.ParseUDPMessage(append([]byte(nil), io.out[from]...)); perr == nil && pm.FragCount > 1 {
					pid, fragd = pm.PacketID, true
				}
			}
			msgs = append(msgs, sent{payload: append([]byte(nil), payload...), complete: err == nil && len(io.out) > from, outFrom: from, outTo: len(io.out), pid: pid, fragd: fragd})
			script = append(script, map[string]any{"msg": j, "len": plen, "frags": fc, "fault": fault, "err": fmt.Sprint(err), "datagrams": len(io.out) - from})
		}
		// packet-ID census of the session: two fragmented messages with the same ID are the (only) way the
		// far side can legitimately mix or swallow them; with fresh random IDs that is a 1/65535 event per pair
		sessCollisions := 0
		for a := range msgs {
			for b := a + 1; b < len(msgs); b++ {
				if msgs[a].fragd && msgs[b].fragd {
					idPairs++
					if msgs[a].pid == msgs[b].pid {
						sessCollisions++
					}
				}
			}
		}
		idCollisions += sessCollisions
		// far side: one reassembler for the session, datagrams arrive in the order they left
		wrongBefore := wrongEmissions
		d := &frag.Defragger{}
		delivered := make([]int, len(msgs))
		for di, raw := range io.out {
			m, perr := protocol.ParseUDPMessage(append([]byte(nil), raw...))
			if perr != nil {
				k.Violation("send:datagram-unparsable", map[string]any{"case_id": caseID, "script": script}, "datagram %d does not parse: %v", di, perr)
				break
			}
			k.Count("ev_session_datagrams", 1)
			out := d.Feed(m)
			if out == nil {
				continue
			}
			match := -1
			for mi, s := range msgs {
				if out.Addr == addr && bytes.Equal(out.Data, s.payload) {
					match = mi
				}
			}
			if match < 0 {
				wrongEmissions++
				if sessCollisions == 0 {
					k.Violation("send:far-side-emitted-unsent-payload", map[string]any{"case_id": caseID, "script": script, "emitted_len": len(out.Data), "packet_id": out.PacketID},
						"the far side's reassembler emitted a %d-byte payload that was never handed to Send, although all fragmented messages of the session carry distinct packet IDs", len(out.Data))
				}
				if firstWrong == nil {
					firstWrong = map[string]any{"case_id": caseID, "script": script, "emitted_len": len(out.Data), "packet_id": out.PacketID, "at_datagram": di}
				}
				continue
			}
			delivered[match]++
			k.Count("ev_session_delivered", 1)
		}
		for mi, s := range msgs {
			if s.complete && delivered[mi] != 1 {
				// a complete in-order fragment set must come out exactly once — unless a wrong emission
				// (counted above) swallowed it
				k.Count("ev_session_complete_not_delivered", 1)
				if wrongEmissions == wrongBefore && sessCollisions == 0 {
					k.Violation("send:complete-message-not-delivered", map[string]any{"case_id": caseID, "script": script, "msg": mi},
						"message %d left completely (%d datagrams, in order) but was delivered %d times", mi, s.outTo-s.outFrom, delivered[mi])
				}
			}
		}
		k.Nontrivial(fmt.Sprint(script))
		if i < 2 {
			k.Sample(map[string]any{"session": script})
		}
	}
	// Sessions whose fragmented messages all carry distinct packet IDs are judged exactly (above). Two
	// messages of one session sharing a packet ID is the sender's business: with fresh random IDs it is a
	// chance event of probability 1/65535 per pair, so the number of such pairs in a run is Poisson with
	// lambda = pairs/65535. The verdict threshold is the smallest k whose tail P(X >= k) is below 1e-9 for
	// this run's lambda (it scales with the tier); a sender that really reuses IDs produces far more.
	// Fewer than k collisions cannot be told from bad luck and are only counted.
	_ = partials
	lambda := float64(idPairs) / 65535.0
	kmin := 1
	for ; kmin < 100000; kmin++ {
		term := 1.0 // lambda^k / k!  (upper bound of e^-lambda * lambda^k / k!)
		for j := 1; j <= kmin; j++ {
			term *= lambda / float64(j)
		}
		if lambda < float64(kmin)/2 && 2*term < 1e-9 {
			break
		}
	}
	k.Count("ev_session_partial_messages", int64(partials))
	k.Count("ev_session_wrong_emissions", int64(wrongEmissions))
	k.Count("ev_session_packet_id_pairs", int64(idPairs))
	k.Count("session_packet_id_collisions", int64(idCollisions))
	k.Count("packet_id_collision_violation_threshold", int64(kmin))
	if idCollisions >= kmin {
		k.Violation("send:packet-ids-reused-within-session", firstWrong,
			"%d pairs of fragmented messages of one session share a packet ID (chance bound for %d pairs of fresh random IDs: fewer than %d); %d payloads that were never handed to Send were emitted by the far side (first: %v)",
			idCollisions, idPairs, kmin, wrongEmissions, firstWrong)
	}
}
