//go:build verif

package server

// Black-box stand-in for c07c08_wb_table_test.go: the job that lists this file does not look
// inside udpSessionManager at all (only newUDPSessionManager, Run and Count are used), so it keeps
// building when the internals of udp.go change. Snapshots then compare Count() only.

func vfC07TableKeys(sm *udpSessionManager) []uint32 { return nil }

func vfC07TableHas(sm *udpSessionManager, sid uint32) bool { return sm.Count() > 0 }
