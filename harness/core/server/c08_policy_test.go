//go:build verif

package server

// C08 — Every UDP datagram's destination passes the outbound policy (server layer).
//
// Same fakes as C07 (c07c08_fakes_test.go), real udpSessionManager in a synctest bubble. The
// policy is a PRNG-chosen allow/deny table over destination strings (host AND port matter), applied
// by the fake both in UDP() (the dial vets the first destination, like the real ACL engine) and in
// CheckUDP(). Oracle on EVERY WriteTo of every fake socket (vfC07CheckCommon):
//   no hook:  the destination is the one the datagram named and the policy allows it
//   hook:     the destination is the rewritten one (and the dial of it passed the policy), every
//             datagram of the hooked session is written there, replies are reported from the
//             original destination
// Workloads: 1..2000 datagrams per session over 1..600 distinct destinations (the decision cache
// holds 256), deny->allow->deny alternation, repeats after eviction, allowed first / denied first,
// mostly-denied overflow, hook on/off, 1..2 sessions interleaved.
// Not demanded: that an allowed datagram is delivered (counted only), except under override.

import (
	"fmt"
	"math/rand"
	"strconv"
	"strings"
	"testing"
	"testing/synctest"
	"time"

	"github.com/apernet/hysteria/core/v2/internal/protocol"
)

type vfC08Case struct {
	CaseID  string   `json:"case_id"`
	Pattern string   `json:"pattern"`
	Values  int      `json:"distinct_destinations"`
	DenyPct int      `json:"deny_percent"`
	Sids    []uint32 `json:"session_ids"`
	Hooked  []uint32 `json:"hooked_session_ids,omitempty"`
	Len     int      `json:"datagrams"`
	Denied  []int    `json:"denied_values_first_40,omitempty"`
	SeqHead string   `json:"sequence_first_60"`
	deny    []bool
	Hostile int `json:"hostile_fragment_sets"`
	// Shared: destination strings carry no session label, i.e. different sessions of the connection
	// name literally the same destinations (cross-session pattern).
	Shared bool `json:"destinations_shared_between_sessions,omitempty"`
	seq    []vfC08Item
}

// vfC08Item is one datagram of the script: a plain message to one destination value, or a hostile
// fragment set (Frags != nil): fragment f names destination Frags[f], fragments arrive in Order;
// or an odd single datagram (OddCount 0/1 with OddID != 0); BadID: FragID >= FragCount (never completes).
type vfC08Item struct {
	Sid      int
	Value    int
	Frags    []int
	Order    []int
	Odd      bool
	OddID    uint8
	OddCount uint8
	BadID    bool
}

func vfC08Perms(n int) [][]int {
	var out [][]int
	p := make([]int, n)
	for i := range p {
		p[i] = i
	}
	var rec func(int)
	rec = func(i int) {
		if i == n {
			out = append(out, append([]int(nil), p...))
			return
		}
		for j := i; j < n; j++ {
			p[i], p[j] = p[j], p[i]
			rec(i + 1)
			p[i], p[j] = p[j], p[i]
		}
	}
	rec(0)
	return out
}

// vfC08CacheSize is the size of the decision cache named by the property ("more distinct
// destinations than the decision cache holds"); kept here so that this behavioural part does not
// depend on the implementation's constant.
const vfC08CacheSize = 256

func vfC08SharedAddrOf(v int) string {
	return fmt.Sprintf("d%d.vf:%d", v/4, 1000+v%4)
}

func vfC08AddrOf(v int, sid uint32) string {
	return fmt.Sprintf("d%d.s%d.vf:%d", v/4, sid, 1000+v%4)
}

// vfC08ValueOf inverts vfC08AddrOf on the destination string alone.
func vfC08ValueOf(addr string) (int, bool) {
	i := strings.LastIndexByte(addr, ':')
	if i < 0 || !strings.HasPrefix(addr, "d") {
		return 0, false
	}
	port, err := strconv.Atoi(addr[i+1:])
	j := strings.IndexByte(addr, '.')
	if err != nil || j < 0 {
		return 0, false
	}
	h, err := strconv.Atoi(addr[1:j])
	if err != nil {
		return 0, false
	}
	return h*4 + port - 1000, true
}

func vfC08Gen(r *rand.Rand, caseID string, idx int) *vfC08Case {
	pats := []string{"uniform", "alternate", "fill-evict", "denied-first", "zipf", "mostly-denied-overflow", "allowed-first-overflow", "hostile-frags", "cross-session"}
	c := &vfC08Case{CaseID: caseID, Pattern: pats[idx%len(pats)]}
	c.Values = 1 + r.Intn(600)
	c.DenyPct = []int{5, 30, 50, 70, 95}[r.Intn(5)]
	n := 1 + r.Intn(50)
	switch r.Intn(3) {
	case 1:
		n = 50 + r.Intn(550)
	case 2:
		n = 600 + r.Intn(1401)
	}
	switch c.Pattern {
	case "fill-evict", "mostly-denied-overflow", "allowed-first-overflow":
		c.Values = 300 + r.Intn(301)
		if n < 700 {
			n = 700 + r.Intn(1301)
		}
		if c.Pattern == "mostly-denied-overflow" {
			c.DenyPct = 95
		}
	case "alternate":
		if c.Values < 2 {
			c.Values = 2
		}
	case "cross-session":
		c.Values = 8 + r.Intn(400)
		c.DenyPct = []int{30, 50, 70}[r.Intn(3)]
	}
	c.deny = make([]bool, c.Values)
	var denied, allowed []int
	for v := range c.deny {
		c.deny[v] = r.Intn(100) < c.DenyPct
	}
	// make sure both verdicts exist when there is room
	if c.Values >= 2 {
		i := r.Intn(c.Values)
		j := (i + 1 + r.Intn(c.Values-1)) % c.Values
		c.deny[i], c.deny[j] = true, false
	}
	for v, d := range c.deny {
		if d {
			denied = append(denied, v)
		} else {
			allowed = append(allowed, v)
		}
	}
	if len(denied) > 40 {
		c.Denied = denied[:40]
	} else {
		c.Denied = denied
	}
	ns := 1 + r.Intn(2)
	for len(c.Sids) < ns {
		sid := r.Uint32()
		if len(c.Sids) == 0 || c.Sids[0] != sid {
			c.Sids = append(c.Sids, sid)
		}
	}
	anyOf := func(l []int) int {
		if len(l) == 0 {
			return r.Intn(c.Values)
		}
		return l[r.Intn(len(l))]
	}
	var one []int // the sequence of one session
	switch c.Pattern {
	case "uniform":
		for i := 0; i < n; i++ {
			one = append(one, r.Intn(c.Values))
		}
	case "alternate":
		d, a := anyOf(denied), anyOf(allowed)
		for i := 0; i < n; i++ {
			switch r.Intn(5) {
			case 0, 1:
				one = append(one, d)
			case 2, 3:
				one = append(one, a)
			default:
				one = append(one, r.Intn(c.Values))
			}
		}
	case "fill-evict":
		d, a := anyOf(denied), anyOf(allowed)
		one = append(one, a, d, a, d)
		for len(one) < n {
			for _, v := range r.Perm(c.Values) {
				one = append(one, v)
				if r.Intn(40) == 0 {
					one = append(one, d, a, d)
				}
			}
			one = append(one, d, a, d)
		}
	case "denied-first":
		k := 1 + r.Intn(5)
		for i := 0; i < k; i++ {
			one = append(one, anyOf(denied))
		}
		one = append(one, anyOf(allowed))
		for len(one) < n {
			one = append(one, r.Intn(c.Values))
		}
	case "zipf":
		z := rand.NewZipf(r, 1.3, 2, uint64(c.Values-1))
		perm := r.Perm(c.Values)
		for i := 0; i < n; i++ {
			one = append(one, perm[int(z.Uint64())])
		}
	case "mostly-denied-overflow": // the cache fills up with negative verdicts, then allowed ones, then denied again
		one = append(one, anyOf(allowed))
		for len(one) < n {
			one = append(one, denied...)
			one = append(one, allowed...)
			one = append(one, anyOf(denied), anyOf(allowed), anyOf(denied))
		}
	case "allowed-first-overflow": // > 256 allowed destinations first, then the denied ones, repeatedly
		for len(one) < n {
			one = append(one, allowed...)
			one = append(one, denied...)
			r.Shuffle(len(denied), func(a, b int) { denied[a], denied[b] = denied[b], denied[a] })
		}
	}
	if len(one) > 2000 {
		one = one[:2000]
	}
	c.Len = len(one)
	hostile := func(sid int) vfC08Item {
		c.Hostile++
		switch r.Intn(8) {
		case 0: // whole datagram with an odd header: FragCount 0/1 but FragID != 0
			return vfC08Item{Sid: sid, Odd: true, OddID: uint8(1 + r.Intn(255)), OddCount: uint8(r.Intn(2)), Value: r.Intn(c.Values)}
		case 1:
			return vfC08Item{Sid: sid, BadID: true, Value: r.Intn(c.Values)}
		}
		n := 2 + r.Intn(2)
		it := vfC08Item{Sid: sid, Frags: make([]int, n), Order: r.Perm(n)}
		for f := range it.Frags {
			if r.Intn(2) == 0 {
				it.Frags[f] = anyOf(denied)
			} else {
				it.Frags[f] = anyOf(allowed)
			}
		}
		return it
	}
	if c.Pattern == "hostile-frags" {
		// systematic: for 2 and 3 fragments every allowed/denied assignment in every arrival order,
		// then the odd headers; optionally before any socket exists (first datagram of the session)
		c.seq = nil
		if r.Intn(3) > 0 {
			c.seq = append(c.seq, vfC08Item{Sid: 0, Value: anyOf(allowed)})
		}
		for n := 2; n <= 3; n++ {
			for mask := 0; mask < 1<<n; mask++ {
				for _, ord := range vfC08Perms(n) {
					it := vfC08Item{Sid: 0, Frags: make([]int, n), Order: ord}
					for f := 0; f < n; f++ {
						if mask>>f&1 == 1 {
							it.Frags[f] = anyOf(denied)
						} else {
							it.Frags[f] = anyOf(allowed)
						}
					}
					c.Hostile++
					c.seq = append(c.seq, it)
					if r.Intn(4) == 0 {
						c.seq = append(c.seq, vfC08Item{Sid: 0, Value: r.Intn(c.Values)})
					}
				}
			}
		}
		for _, id := range []uint8{1, 2, 255} {
			for _, cnt := range []uint8{0, 1} {
				for _, l := range [][]int{allowed, denied} {
					c.Hostile++
					c.seq = append(c.seq, vfC08Item{Sid: 0, Odd: true, OddID: id, OddCount: cnt, Value: anyOf(l)})
				}
			}
		}
		c.seq = append(c.seq, vfC08Item{Sid: 0, BadID: true, Value: anyOf(denied)}, vfC08Item{Sid: 0, Value: anyOf(allowed)})
		c.Hostile++
		r.Shuffle(len(c.seq)-1, func(a, b int) {
			if a > 0 && b > 0 {
				c.seq[a], c.seq[b] = c.seq[b], c.seq[a]
			}
		})
		ns = 1
		c.Sids = c.Sids[:1]
		c.Len = len(c.seq)
	} else if c.Pattern == "cross-session" {
		// Several sessions of ONE connection name literally the same destinations. Hooked sessions
		// open with a datagram addressed to a REJECTED destination D which the hook rewrites (the
		// policy never sees D for them); plain sessions, whose socket exists because their first
		// destination was allowed, then send to D as a later destination: D must not get a datagram.
		// Also the other way round and mixed with ordinary traffic; decisions of one session must
		// never count for another one in the wrong direction.
		c.Shared = true
		c.seq = nil
		c.Sids = nil
		nh, np := 1+r.Intn(3), 1+r.Intn(3)
		for len(c.Sids) < nh+np {
			sid := r.Uint32()
			dup := false
			for _, o := range c.Sids {
				dup = dup || o == sid
			}
			if !dup {
				c.Sids = append(c.Sids, sid)
			}
		}
		c.Hooked = append([]uint32(nil), c.Sids[:nh]...)
		ns = nh + np
		push := func(sid, v int) { c.seq = append(c.seq, vfC08Item{Sid: sid, Value: v}) }
		poison := make([]int, nh) // the rejected destination each hooked session opens with
		for h := range poison {
			poison[h] = anyOf(denied)
		}
		order := r.Intn(3)
		openPlain := func() {
			for pl := nh; pl < ns; pl++ {
				push(pl, anyOf(allowed)) // first destination allowed: the socket exists
				if order == 1 {
					for _, d := range poison {
						push(pl, d) // asked (and rejected) before any hooked session named it
					}
				}
			}
		}
		openHooked := func() {
			for h := 0; h < nh; h++ {
				for try := 0; try < 4; try++ { // the rewritten destination is itself rejected 1 time in 3
					push(h, poison[h])
				}
			}
		}
		if order == 2 {
			openHooked()
			openPlain()
		} else {
			openPlain()
			openHooked()
		}
		for round := 0; round < 3+r.Intn(6); round++ {
			for pl := nh; pl < ns; pl++ {
				for _, d := range poison {
					push(pl, d) // non-first destination, rejected by the policy
					if r.Intn(3) == 0 {
						push(pl, anyOf(allowed))
					}
				}
			}
			h := r.Intn(nh)
			d2 := anyOf(denied)
			push(h, d2) // a hooked session names further rejected destinations (they go to the rewritten one)
			push(nh+r.Intn(np), d2)
			for j := 0; j < r.Intn(30); j++ {
				push(r.Intn(ns), r.Intn(c.Values))
			}
		}
		c.Len = len(c.seq)
	} else {
		// interleave the sessions: the second one walks the same sequence shifted; hostile fragment
		// sets are sprinkled in
		for i, v := range one {
			c.seq = append(c.seq, vfC08Item{Sid: 0, Value: v})
			if ns > 1 && i%3 != 0 {
				c.seq = append(c.seq, vfC08Item{Sid: 1, Value: one[(i*7+3)%len(one)]})
			}
			if r.Intn(25) == 0 {
				c.seq = append(c.seq, hostile(r.Intn(ns)))
			}
		}
	}
	for i := 0; i < len(one) && i < 60; i++ {
		c.SeqHead += fmt.Sprintf("%d ", one[i])
	}
	if c.Pattern != "cross-session" && r.Intn(5) < 2 {
		c.Hooked = append(c.Hooked, c.Sids[r.Intn(ns)])
	}
	return c
}

func TestVerifC08Policy(t *testing.T) {
	k := vfNewKit(t, "C08", "udp-policy")
	defer k.Finish()
	n := k.N(210, 5000)
	stackBuf := make([]byte, 4<<20)
	for i := 0; i < n; i++ {
		caseID := fmt.Sprintf("pol-%d", i)
		if rc := k.ReplayCase(); rc != "" && rc != caseID {
			continue
		}
		c := vfC08Gen(k.Rand(caseID), caseID, i)
		vfC08Run(t, k, c, stackBuf)
	}
}

func vfC08Run(t *testing.T, k *vfKit, c *vfC08Case, stackBuf []byte) {
	k.Eval()
	plan := &vfC07Plan{NoDelays: true}
	for _, sid := range c.Hooked {
		for n := 0; n < 64; n++ {
			plan.setHook(sid, n, vfC07HookRewrite)
		}
	}
	deny := c.deny
	plan.Policy = func(addr string) bool {
		if strings.HasPrefix(addr, "rw") { // hook-rewritten destinations: verdict from the rewrite number
			j := strings.IndexByte(addr, '.')
			hn, _ := strconv.Atoi(addr[2:j])
			return hn%3 != 0
		}
		v, ok := vfC08ValueOf(addr)
		return ok && v >= 0 && v < len(deny) && !deny[v]
	}
	w := vfC07RunBubble(t, plan, 10*time.Minute, stackBuf, func(w *vfC07World, sm *udpSessionManager) {
		for i, it := range c.seq {
			sid := c.Sids[it.Sid]
			no := i + 1
			data := vfC07Payload(no, sid, 24+i%40)
			addrOf := func(v int) string {
				if c.Shared {
					return vfC08SharedAddrOf(v)
				}
				return vfC08AddrOf(v, sid)
			}
			full := &vfC07Msg{No: no, Sid: sid, Addr: addrOf(it.Value), Len: len(data), FragCount: 1}
			switch {
			case it.Frags != nil:
				n := len(it.Frags)
				full.FragCount = n
				full.Addr = addrOf(it.Frags[0])
				for _, v := range it.Frags {
					full.Addrs = append(full.Addrs, addrOf(v))
				}
				chunk := (len(data) + n - 1) / n
				for _, f := range it.Order {
					lo, hi := f*chunk, (f+1)*chunk
					if hi > len(data) {
						hi = len(data)
					}
					w.Push(&protocol.UDPMessage{SessionID: sid, PacketID: uint16(no%65000) + 1, FragID: uint8(f), FragCount: uint8(n),
						Addr: full.Addrs[f], Data: vfExact(data[lo:hi])}, no, full)
				}
			case it.Odd:
				w.Push(&protocol.UDPMessage{SessionID: sid, PacketID: uint16(no%65000) + 1, FragID: it.OddID, FragCount: it.OddCount, Addr: full.Addr, Data: data}, no, full)
			case it.BadID:
				full.Undeliverable = true
				w.Push(&protocol.UDPMessage{SessionID: sid, PacketID: uint16(no%65000) + 1, FragID: 3, FragCount: 2, Addr: full.Addr, Data: data}, no, full)
			default:
				w.Push(&protocol.UDPMessage{SessionID: sid, FragCount: 1, Addr: full.Addr, Data: data}, no, full)
			}
			if i%512 == 511 {
				synctest.Wait()
			}
		}
		synctest.Wait()
		for _, sid := range c.Sids {
			w.InjectReply(sid, 40, "")
			w.InjectReply(sid, 41, fmt.Sprintf("third.s%d.vf:53", sid))
		}
		w.Snapshot(sm, false)
	})
	ix := vfC07BuildIndex(w)
	nviol := 0
	report := func(key string, seq int, format string, args ...any) {
		nviol++
		if nviol > 4 {
			return
		}
		k.Violation(key, map[string]any{"case_id": c.CaseID, "case": c, "witness_events": w.window(seq, 30, 6)}, format, args...)
	}
	vfC07CheckCommon(k, w, ix, report)
	vfC07CheckSnapshots(k, w, ix, report)

	// ---- per-message accounting
	written := map[int]int{} // message number -> socket of a successful write
	for i := range w.writes {
		if wr := &w.writes[i]; !wr.Closed && !wr.Failed {
			written[wr.No] = wr.Sock
		}
	}
	recvSeq := map[int]int{}
	for _, e := range w.evs {
		if e.Kind == "recv" {
			recvSeq[e.No] = e.Seq
			m := w.msgs[e.No]
			if m == nil {
				continue
			}
			if m.Addrs != nil || m.Undeliverable || e.Aux&0xff <= 1 && e.Aux>>8 != 0 {
				// hostile fragment set / odd header: counted once, on its last datagram
				last := true
				for _, a := range ix.RecvOfNo[e.No] {
					if a.Seq > e.Seq {
						last = false
					}
				}
				if last {
					if written[e.No] != 0 {
						k.Count("ev_hostile_forwarded_to_allowed", 1) // the policy oracle checked the destination
					} else {
						k.Count("ev_hostile_not_forwarded", 1)
					}
				}
				continue
			}
			switch {
			case plan.Policy(m.Addr) && written[e.No] != 0:
				k.Count("ev_allowed_delivered", 1)
			case plan.Policy(m.Addr):
				k.Count("allowed_not_delivered", 1) // e.g. datagrams of a hooked session whose rewritten destination is denied
			case written[e.No] == 0:
				k.Count("ev_denied_not_forwarded", 1)
			default:
				k.Count("denied_named_but_rewritten", 1) // hooked session: went to the rewritten destination instead
			}
		}
	}
	k.Count("ev_checkudp_calls", w.checks)
	// ---- override: every datagram of the hooked session goes out (to the rewritten destination)
	overflow := false
	for _, s := range w.socks {
		distinct := map[string]bool{}
		end := 1 << 60
		if s.closeCalls > 0 {
			end = s.closeStartSeq
		}
		first := s.dialSeq
		if s.override {
			k.Count("ev_override_sockets", 1)
			first = recvSeq[s.firstNo]
		}
		for no, m := range w.msgs {
			rs, ok := recvSeq[no]
			if !ok || m.Sid != s.sid || rs < first || rs >= end || m.Undeliverable {
				continue
			}
			distinct[m.Addr] = true
			if s.override && written[no] != s.id {
				report("udp-acl:override-datagram-dropped", rs, "session %d is rewritten by the hook to %s, but its message %d (named destination %s) was not written to that socket",
					s.sid, s.dialAddr, no, m.Addr)
				break
			}
		}
		if len(distinct) > vfC08CacheSize && !s.override {
			overflow = true
			k.Count("ev_cache_overflow_sessions", 1)
		}
	}
	if c.Shared {
		nov := 0
		for _, s := range w.socks {
			if s.override {
				nov++
			}
		}
		if nov > 0 {
			k.Count("ev_cross_session_cases_with_poisoning_hook", 1)
			k.Nontrivial(fmt.Sprintf("x/%s/%d/%d/%d/%v", c.CaseID, c.Values, c.DenyPct, c.Len, c.Hooked))
		}
	}
	if overflow {
		k.Nontrivial(fmt.Sprintf("%s/%d/%d/%v/%v", c.Pattern, c.Values, c.DenyPct, c.SeqHead, c.Hooked))
	}
	if overflow && len(c.Hooked) == 0 && c.Len > 600 {
		k.Sample(map[string]any{"case_id": c.CaseID, "pattern": c.Pattern, "distinct_destinations": c.Values, "deny_percent": c.DenyPct,
			"datagrams_per_session": c.Len, "sessions": len(c.Sids), "sequence_head": c.SeqHead, "writes": len(w.writes), "checkudp_calls": w.checks})
	}
}
