//go:build verif

package server

// C03 — peer-controlled bytes never crash the process: the client's datagrams for a session keep
// arriving while that session is being closed by somebody else (own job: Run and the receive
// loops are goroutines of the code under test, a panic there is process-fatal).
//
//   srv-conc: udpSessionManager.Run fed RAW datagrams (whole messages and fragment sets, logged
//             before they are pushed) for a few sessions while those sessions are closed
//               (a) by their receive loop because the outbound socket reports an error,
//               (b) by their receive loop because sending the reply fails (connection going away),
//               (c) by the idle sweeper (inside a testing/synctest bubble: datagrams are timed to
//                   arrive at the very instants the sweeper runs, after idle gaps around the timeout),
//             and finally by the end of the connection. After every cycle a well-formed datagram on
//             the SAME session id must reach an outbound socket intact (a fresh one or the one the flood
//             has re-opened meanwhile); at the end the
//             session table must be empty.

import (
	"fmt"
	"runtime"
	"sync"
	"testing"
	"testing/synctest"
	"time"
)

func vfC03ConcFloodDatagram(sid uint32, j int, addr string) []byte {
	switch j % 4 {
	case 1: // first half of a 2-fragment message
		return vfC03Datagram(sid, uint16(1000+j), 0, 2, addr, []byte("frag-0-"))
	case 2: // second half
		return vfC03Datagram(sid, uint16(1000+j-1), 1, 2, addr, []byte("frag-1"))
	}
	return vfC03Datagram(sid, 0, 0, 1, addr, []byte(fmt.Sprintf("flood %d", j)))
}

func TestVerifC03ConcServerRun(t *testing.T) {
	k := vfNewKit(t, "C03", "srv-conc")
	defer k.Finish()
	r := vfC03New(k)
	defer r.Close()
	const entry = "server:udpSessionManager.Run||session close"
	counted := true
	logPush := func(io *vfC03IO, d []byte) bool {
		r.Log(entry, d, false)
		if counted {
			k.Eval()
			k.Count("ev_inputs", 1)
		}
		select {
		case io.rx <- vfExact(d):
		case <-io.closed:
			return true
		}
		select {
		case <-io.entered:
		case <-io.closed:
			return true
		}
		return false
	}
	canaryNo := 0
	canary := func(io *vfC03IO, seq string, sid uint32) {
		canaryNo++
		addr := fmt.Sprintf("ok-conc-%d.verif:53", canaryNo)
		payload := []byte(fmt.Sprintf("c03 server concurrency canary %d", canaryNo))
		r.Canary(entry, r.SeqID(seq), map[string]any{"session": sid, "addr": addr}, func() error {
			// The flood may have re-opened the session already (then the canary goes out through that socket),
			// or a closing session may still be in the table for a moment and eat the datagram (legitimately:
			// it is closed); the table must then be clean for a following one.
			for try := 0; try < 200; try++ {
				counted = try == 0 // retries depend on the schedule: logged, not counted
				logPush(io, vfC03Datagram(sid, 0, 0, 1, addr, payload))
				counted = true
				if io.delivered(payload, addr) {
					return nil
				}
				runtime.Gosched()
			}
			return fmt.Errorf("200 well-formed datagrams for session %#x to %q: none reached an outbound socket", sid, addr)
		})
	}

	// (1) free-running: flood vs (a) socket error and (b) failing reply, two sessions at once
	cycles := k.N(200, 2000)
	if !r.SkipSeq("free") {
		io := vfC03NewIO()
		m := newUDPSessionManager(io, vfC03Logger{io}, time.Hour)
		done := make(chan error, 1)
		go func() { done <- m.Run() }()
		<-io.entered
		r.NewObject("udpSessionManager.Run, flood vs receive-loop close, free-running")
		for c := 0; c < cycles; c++ {
			sid := uint32(0x61000000 + c%3)
			addr := fmt.Sprintf("ok-cyc-%d.verif:53", c)
			if logPush(io, vfC03Datagram(sid, 0, 0, 1, addr, []byte("open"))) {
				break
			}
			conn := io.conn(addr)
			var wg sync.WaitGroup
			if conn != nil {
				wg.Add(1)
				go func() { // the remote side / the connection: makes the receive loop close the session
					defer wg.Done()
					select {
					case <-conn.entered: // the session's receive loop is waiting for a packet from the remote side
					case <-conn.closed:
						return
					}
					for i := 0; i < c%5; i++ {
						runtime.Gosched()
					}
					if c%2 == 0 {
						select {
						case conn.in <- vfC03Write{nil, vfC03SocketError}:
						case <-conn.closed:
						}
					} else {
						io.mu.Lock()
						io.failSend = true
						io.mu.Unlock()
						select {
						case conn.in <- vfC03Write{[]byte("reply"), "remote.verif:53"}:
						case <-conn.closed:
						}
					}
				}()
			}
			for j := 0; j < 6+c%20; j++ {
				if logPush(io, vfC03ConcFloodDatagram(sid, j, addr)) {
					break
				}
			}
			wg.Wait()
			if conn != nil {
				<-conn.closed // the receive loop has closed the session's socket
			}
			io.mu.Lock()
			io.failSend = false
			io.mu.Unlock()
			k.Count("ev_cycles_free", 1)
			k.Nontrivial(fmt.Sprintf("%s|free|%d", entry, c))
			if c%10 == 9 {
				canary(io, "free", sid)
				r.NewObject("udpSessionManager.Run, free-running, from cycle " + fmt.Sprint(c))
			}
		}
		io.Close()
		<-done
		if n := m.Count(); n != 0 {
			r.ServiceStopped(entry, r.SeqID("free"), map[string]any{"left": n}, "Run left %d sessions in the table on exit", n)
		}
	}

	// (2) bubble: datagrams arrive exactly when the idle sweeper runs
	if !r.SkipSeq("sweeper") {
		synctest.Test(t, func(t *testing.T) {
			io := vfC03NewIO()
			const idle = 1500 * time.Millisecond
			m := newUDPSessionManager(io, vfC03Logger{io}, idle)
			done := make(chan error, 1)
			go func() { done <- m.Run() }()
			<-io.entered
			r.NewObject("udpSessionManager.Run, flood vs idle sweeper, bubble")
			start := time.Now()
			for c := 0; c < k.N(150, 1500); c++ {
				sids := []uint32{uint32(0x62000000 + c%4), uint32(0x62000010 + c%2)}
				addr := fmt.Sprintf("ok-swp-%d.verif:53", c)
				for _, sid := range sids {
					logPush(io, vfC03Datagram(sid, 0, 0, 1, addr, []byte("open")))
				}
				// idle gap around the timeout, then land on a sweeper instant (whole seconds since start)
				time.Sleep(idle + time.Duration(c%7-3)*100*time.Millisecond)
				el := time.Since(start)
				time.Sleep(el.Truncate(idleCleanupInterval) + idleCleanupInterval - el)
				for j := 0; j < 8; j++ {
					for _, sid := range sids {
						logPush(io, vfC03ConcFloodDatagram(sid, j, addr))
					}
					if j == 3 {
						time.Sleep(idleCleanupInterval) // next sweeper instant, flood continues there
					}
				}
				k.Count("ev_cycles_sweeper", 1)
				k.Nontrivial(fmt.Sprintf("%s|sweeper|%d", entry, c))
				if c%10 == 9 {
					canary(io, "sweeper", sids[0])
					r.NewObject("udpSessionManager.Run, sweeper, from cycle " + fmt.Sprint(c))
				}
			}
			k.Count("sessions_closed_before_end", int64(io.closeCount()))
			io.Close()
			<-done
			if n := m.Count(); n != 0 {
				r.ServiceStopped(entry, r.SeqID("sweeper"), map[string]any{"left": n}, "Run left %d sessions in the table on exit", n)
			}
		})
	}
	k.Sample(map[string]any{"entry": entry, "cycles_free": k.Counter("ev_cycles_free"), "cycles_sweeper": k.Counter("ev_cycles_sweeper"), "closed_by_sweeper_or_end": k.Counter("sessions_closed_before_end")})
}
