//go:build verif

package server

// C03 — peer-controlled bytes never crash the process: server-side UDP session manager.
//
//   srv-feed:  udpSessionManager.feed called directly (same goroutine -> recoverable) with whatever
//              protocol.ParseUDPMessage lets through of hostile datagrams: any session / packet /
//              fragment ids and counts, hostile addresses (dial refused, ACL refused, rewritten by
//              the request hook), fragments that never complete. After hostile input a well-formed
//              message on a fresh session and on an old session must reach the outbound socket intact.
//   srv-reply: reply path. sendMessageAutoFrag directly for any (payload, address length, datagram
//              limit) where the fake IO answers like udpIOImpl.SendMessage over a QUIC connection whose
//              MaxDatagramPayloadSize is small/odd (<= header, 0, negative): *quic.DatagramTooLargeError.
//   srv-loop:  the same through the real receiveLoop goroutine of a session (input logged first: a
//              panic there is process-fatal, exactly as in production).
//   srv-run:   udpSessionManager.Run in its own goroutine fed with RAW datagrams through a
//              ReceiveMessage that is a copy of udpIOImpl.ReceiveMessage (parse, skip invalid).
//
// Synchronisation is logical only: the fakes signal when the code under test comes back for the
// next datagram, which means the previous one has been processed completely.

import (
	"bytes"
	"errors"
	"fmt"
	"math/rand"
	"strings"
	"sync"
	"testing"
	"time"

	"github.com/apernet/quic-go"

	"github.com/apernet/hysteria/core/v2/internal/protocol"
)

var errVfC03Closed = errors.New("c03: closed")

// vfC03SocketError as the source address of a scripted packet makes ReadFrom fail instead (the
// outbound socket reports an error: the session's receive loop closes the session).
const vfC03SocketError = "\x00socket-error"

type vfC03Write struct {
	data []byte
	addr string
}

// vfC03Conn is the outbound UDP socket handed to the session.
type vfC03Conn struct {
	dialAddr string
	in       chan vfC03Write // packets "from the remote host": data + source address
	entered  chan struct{}   // one token per ReadFrom call
	closed   chan struct{}
	once     sync.Once

	mu     sync.Mutex
	writes []vfC03Write
}

func (c *vfC03Conn) ReadFrom(b []byte) (int, string, error) {
	select {
	case c.entered <- struct{}{}:
	case <-c.closed:
		return 0, "", errVfC03Closed
	}
	select {
	case p := <-c.in:
		if p.addr == vfC03SocketError {
			return 0, "", errors.New("c03: remote socket error")
		}
		return copy(b, p.data), p.addr, nil
	case <-c.closed:
		return 0, "", errVfC03Closed
	}
}

func (c *vfC03Conn) WriteTo(b []byte, addr string) (int, error) {
	c.mu.Lock()
	c.writes = append(c.writes, vfC03Write{append([]byte(nil), b...), addr})
	c.mu.Unlock()
	return len(b), nil
}

func (c *vfC03Conn) Close() error { c.once.Do(func() { close(c.closed) }); return nil }

func (c *vfC03Conn) lastWrite() (vfC03Write, bool) {
	c.mu.Lock()
	defer c.mu.Unlock()
	if len(c.writes) == 0 {
		return vfC03Write{}, false
	}
	return c.writes[len(c.writes)-1], true
}

// vfC03IO is the udpIO of the session manager; its ReceiveMessage/SendMessage do what
// udpIOImpl does around a QUIC connection.
type vfC03IO struct {
	rx      chan []byte
	entered chan struct{} // one token per iteration of the receive loop
	closed  chan struct{}
	once    sync.Once

	mu       sync.Mutex
	hasLimit bool
	limit    int64
	failSend bool
	sent     [][]byte
	conns    map[string]*vfC03Conn // by dialled address (latest)
	all      []*vfC03Conn          // every socket ever opened
	news     int
	closes   int
}

func vfC03NewIO() *vfC03IO {
	return &vfC03IO{rx: make(chan []byte), entered: make(chan struct{}), closed: make(chan struct{}), conns: map[string]*vfC03Conn{}}
}

func (io *vfC03IO) Close() { io.once.Do(func() { close(io.closed) }) }

func (io *vfC03IO) ReceiveMessage() (*protocol.UDPMessage, error) {
	for {
		select {
		case io.entered <- struct{}{}:
		case <-io.closed:
			return nil, errVfC03Closed
		}
		var msg []byte
		select {
		case msg = <-io.rx:
		case <-io.closed:
			return nil, errVfC03Closed
		}
		udpMsg, err := protocol.ParseUDPMessage(msg)
		if err != nil {
			// Invalid message, this is fine - just wait for the next
			continue
		}
		return udpMsg, nil
	}
}

func (io *vfC03IO) setLimit(has bool, limit int64) {
	io.mu.Lock()
	io.hasLimit, io.limit = has, limit
	io.mu.Unlock()
}

func (io *vfC03IO) SendMessage(buf []byte, msg *protocol.UDPMessage) error {
	msgN := msg.Serialize(buf)
	if msgN < 0 {
		// Message larger than buffer, silent drop
		return nil
	}
	io.mu.Lock()
	defer io.mu.Unlock()
	if io.failSend {
		return errors.New("c03: connection is going away") // not a DatagramTooLargeError: the reply loop closes the session
	}
	if io.hasLimit && int64(msgN) > io.limit {
		return &quic.DatagramTooLargeError{MaxDatagramPayloadSize: io.limit}
	}
	io.sent = append(io.sent, append([]byte(nil), buf[:msgN]...))
	return nil
}

func (io *vfC03IO) takeSent() [][]byte {
	io.mu.Lock()
	defer io.mu.Unlock()
	s := io.sent
	io.sent = nil
	return s
}

func (io *vfC03IO) Hook(data []byte, reqAddr *string) error {
	switch {
	case strings.HasPrefix(*reqAddr, "hookerr-"):
		return errors.New("c03: hook refuses")
	case strings.HasPrefix(*reqAddr, "hook-"):
		*reqAddr = "hooked." + *reqAddr
	}
	return nil
}

func (io *vfC03IO) UDP(reqAddr string) (UDPConn, error) {
	if strings.HasPrefix(reqAddr, "deny-dial") {
		return nil, errors.New("c03: dial refused")
	}
	c := &vfC03Conn{dialAddr: reqAddr, in: make(chan vfC03Write), entered: make(chan struct{}), closed: make(chan struct{})}
	io.mu.Lock()
	io.conns[reqAddr] = c
	io.all = append(io.all, c)
	io.mu.Unlock()
	return c, nil
}

func (io *vfC03IO) CheckUDP(reqAddr string) error {
	if strings.HasPrefix(reqAddr, "deny-acl") {
		return errors.New("c03: acl refused")
	}
	return nil
}

// delivered reports whether some outbound socket of this IO was handed exactly (payload, addr).
func (io *vfC03IO) delivered(payload []byte, addr string) bool {
	io.mu.Lock()
	conns := append([]*vfC03Conn(nil), io.all...)
	io.mu.Unlock()
	for _, c := range conns {
		c.mu.Lock()
		for i := len(c.writes) - 1; i >= 0; i-- {
			if c.writes[i].addr == addr && bytes.Equal(c.writes[i].data, payload) {
				c.mu.Unlock()
				return true
			}
		}
		c.mu.Unlock()
	}
	return false
}

func (io *vfC03IO) closeCount() int {
	io.mu.Lock()
	defer io.mu.Unlock()
	return io.closes
}

func (io *vfC03IO) conn(addr string) *vfC03Conn {
	io.mu.Lock()
	defer io.mu.Unlock()
	return io.conns[addr]
}

type vfC03Logger struct{ io *vfC03IO }

func (l vfC03Logger) New(sessionID uint32, reqAddr string) {
	l.io.mu.Lock()
	l.io.news++
	l.io.mu.Unlock()
}
func (l vfC03Logger) Close(sessionID uint32, err error) {
	l.io.mu.Lock()
	l.io.closes++
	l.io.mu.Unlock()
}

func vfC03Datagram(sid uint32, pid uint16, fid, fcnt uint8, addr string, data []byte) []byte {
	return vfC03Cat([]byte{byte(sid >> 24), byte(sid >> 16), byte(sid >> 8), byte(sid), byte(pid >> 8), byte(pid), fid, fcnt},
		vfC03VarintMin(uint64(len(addr))), []byte(addr), data)
}

// vfC03HostileDatagram: one datagram of a hostile client.
func vfC03HostileDatagram(rng *rand.Rand, step int) []byte {
	sids := []uint32{1, 2, 3, 0, 0xffffffff, uint32(rng.Intn(8)), rng.Uint32() >> 2} // canary sessions use 0x4.../0x5...
	sid := sids[rng.Intn(len(sids))]
	pid := []uint16{0, 1, 2, 0xffff, uint16(rng.Intn(0x10000))}[rng.Intn(5)]
	cnt := []uint8{0, 1, 1, 2, 3, 5, 254, 255, uint8(rng.Intn(256))}[rng.Intn(9)]
	var fid uint8
	switch rng.Intn(5) {
	case 0:
		fid = cnt
	case 1:
		fid = uint8(rng.Intn(256))
	default:
		if cnt > 0 {
			fid = uint8(rng.Intn(int(cnt)))
		}
	}
	var addr string
	switch rng.Intn(12) {
	case 0:
		addr = "deny-dial.verif:1"
	case 1:
		addr = "deny-acl.verif:1"
	case 2:
		addr = fmt.Sprintf("hook-%d.verif:1", rng.Intn(3))
	case 3:
		addr = "hookerr-x.verif:1"
	case 4:
		addr = strings.Repeat("L", 1+rng.Intn(protocol.MaxAddressLength))
	case 5:
		b := make([]byte, 1+rng.Intn(40))
		rng.Read(b)
		addr = string(b)
	case 6:
		addr = ":"
	default:
		addr = fmt.Sprintf("h%d.verif:%d", rng.Intn(6), 1+rng.Intn(65535))
	}
	dl := 1 + rng.Intn(64)
	if rng.Intn(8) == 0 {
		dl = 1 + rng.Intn(1400)
	}
	data := make([]byte, dl)
	rng.Read(data)
	d := vfC03Datagram(sid, pid, fid, cnt, addr, data)
	switch rng.Intn(20) {
	case 0:
		d = d[:rng.Intn(len(d)+1)]
	case 1:
		d[rng.Intn(len(d))] ^= 1 << rng.Intn(8)
	case 2:
		d = vfC03Fill(rng, 2, rng.Intn(65))
	}
	return d
}

// vfC03CheckDelivered: the canary datagram's payload must be the last thing written to the
// outbound socket dialled for canaryAddr, addressed to canaryAddr.
func vfC03CheckDelivered(io *vfC03IO, dialAddr, wantAddr string, want []byte) error {
	c := io.conn(dialAddr)
	if c == nil {
		return fmt.Errorf("no outbound socket was opened for %q", dialAddr)
	}
	w, ok := c.lastWrite()
	if !ok {
		return fmt.Errorf("nothing was written to the outbound socket for %q", dialAddr)
	}
	if !bytes.Equal(w.data, want) || w.addr != wantAddr {
		return fmt.Errorf("outbound socket got %d bytes to %q, want %d bytes %q to %q", len(w.data), w.addr, len(want), want, wantAddr)
	}
	return nil
}

func (c *vfC03Conn) writeCount() int {
	c.mu.Lock()
	defer c.mu.Unlock()
	return len(c.writes)
}

// vfC03ServerAggregate: COMPLETE well-formed fragment sets with large totals (around 4096, 8 KiB,
// 64 KiB, 255 x 1200/1400) into the sessions of one manager per group of sets, then the canary;
// and floods of sessions. push hands one raw datagram to the manager (feed or Run) and returns
// true if the calling goroutine panicked.
func vfC03ServerAggregate(k *vfKit, r *vfC03Run, entry string, mk func(id string) (io *vfC03IO, push func(seqID string, d []byte) bool, done func(seqID string))) {
	sets := vfC03AggregateSets(k.Rand("aggregate"), k.N(20, 1200))
	var io *vfC03IO
	var push func(string, []byte) bool
	var done func(string)
	var sid uint32
	var dial string
	for i, set := range sets {
		id := fmt.Sprintf("agg-%d", i)
		if r.SkipSeq(id) {
			continue
		}
		if io == nil || i%6 == 0 || k.ReplayCase() != "" {
			if done != nil {
				done(r.SeqID(id))
			}
			io, push, done = mk(id)
			sid = uint32(0x60000000 + i)
			dial = ""
		}
		if i%3 == 2 { // every third set on a session of its own
			sid, dial = uint32(0x60000000+i), ""
		}
		addr := fmt.Sprintf("ok-agg-%d.verif:53", i)
		if dial == "" {
			dial = addr
		}
		parts, whole := vfC03SetPayloads(set, uint32(i))
		pid := uint16(1 + i%0x6000)
		before := 0
		if c := io.conn(dial); c != nil {
			before = c.writeCount()
		}
		for _, f := range set.Order {
			if push(r.SeqID(id), vfC03Datagram(sid, pid, uint8(f), uint8(len(set.Sizes)), addr, parts[f])) {
				return
			}
		}
		k.Count("ev_aggregate_sets", 1)
		k.Count("aggregate_bytes", int64(set.Total))
		if c := io.conn(dial); c != nil && c.writeCount() > before {
			k.Count("ev_aggregate_delivered", 1)
			w, _ := c.lastWrite()
			if c.writeCount() != before+1 || !bytes.Equal(w.data, whole) || w.addr != addr {
				r.ServiceStopped(entry, r.SeqID(id), map[string]any{"set": set.Label, "total": set.Total},
					"complete fragment set %s: outbound socket got %d writes, last %d bytes to %q, want one write of the %d-byte message to %q", set.Label, c.writeCount()-before, len(w.data), w.addr, len(whole), addr)
			}
		}
		if i%3 == 1 || i == len(sets)-1 {
			caddr := fmt.Sprintf("ok-aggc-%d.verif:53", i)
			payload := []byte(fmt.Sprintf("c03 canary after aggregate set %d", i))
			r.Canary(entry, r.SeqID(id), map[string]any{"after": set.Label}, func() error {
				if push(r.SeqID(id), vfC03Datagram(uint32(0x68000000+i), 0, 0, 1, caddr, payload)) {
					return errors.New("panicked")
				}
				return vfC03CheckDelivered(io, caddr, caddr, payload)
			})
		}
		if i == 12 {
			k.Sample(map[string]any{"aggregate_set": set.Label, "fragments": len(set.Sizes), "total_bytes": set.Total, "arrivals": len(set.Order)})
		}
	}
	if done != nil {
		done(r.SeqID("agg-end"))
	}

	// number of sessions: thousands of session ids, half of them with a whole message (socket +
	// receive loop each), half with a first fragment only (entry without socket)
	id := "sessions-flood"
	if r.SkipSeq(id) {
		return
	}
	io, push, done = mk(id)
	n := k.N(2000, 20000)
	for j := 0; j < n; j++ {
		var d []byte
		if j%2 == 0 {
			d = vfC03Datagram(uint32(0x70000000+j), 0, 0, 1, fmt.Sprintf("ok-flood-%d.verif:53", j%50), []byte{byte(j)})
		} else {
			d = vfC03Datagram(uint32(0x70000000+j), 9, 0, 200, "ok-flood.verif:53", []byte{byte(j)})
		}
		if push(r.SeqID(id), d) {
			return
		}
	}
	k.Count("ev_flood_sessions", int64(n))
	r.Canary(entry, r.SeqID(id), map[string]any{"sessions_open": n}, func() error {
		payload := []byte("c03 canary after the session flood")
		if push(r.SeqID(id), vfC03Datagram(0x7fffffff, 0, 0, 1, "ok-after-flood.verif:53", payload)) {
			return errors.New("panicked")
		}
		return vfC03CheckDelivered(io, "ok-after-flood.verif:53", "ok-after-flood.verif:53", payload)
	})
	done(r.SeqID(id))
}

func TestVerifC03ServerFeed(t *testing.T) {
	k := vfNewKit(t, "C03", "srv-feed")
	defer k.Finish()
	r := vfC03New(k)
	defer r.Close()
	const entry = "server:udpSessionManager.feed"
	r.Entry(entry, func(b []byte) { // single datagram into a fresh manager (replay of a stateless case)
		io := vfC03NewIO()
		m := newUDPSessionManager(io, vfC03Logger{io}, time.Hour)
		if msg, err := protocol.ParseUDPMessage(b); err == nil {
			m.feed(msg)
		}
		m.cleanup(false)
	})
	if r.Replay() {
		return
	}
	nseq := k.N(100, 3000)
	canaryNo := 0
	for i := 0; i < nseq; i++ {
		id := fmt.Sprintf("%d", i)
		if r.SkipSeq(id) {
			continue
		}
		rng := k.Rand("seq-" + id)
		io := vfC03NewIO()
		m := newUDPSessionManager(io, vfC03Logger{io}, time.Hour)
		r.NewObject("udpSessionManager, sequence " + id)
		steps := 100 + rng.Intn(100)
		aclFlood := i%10 == 3 // one session, hundreds of distinct destinations: the per-session ACL cache overflows
		if aclFlood {
			steps = 2*maxSessionACLCache + 100
		}
		panicked := false
		for s := 0; s < steps && !panicked; s++ {
			d := vfC03HostileDatagram(rng, s)
			if aclFlood {
				d = vfC03Datagram(1, 0, 0, 1, fmt.Sprintf("%sflood-%d.verif:%d", []string{"", "", "deny-acl-"}[s%3], s, 1+s), []byte{byte(s)})
			}
			panicked = r.DoObj(entry, r.SeqID(id), d, func(b []byte) {
				msg, err := protocol.ParseUDPMessage(b)
				if err != nil {
					k.Count("ev_unparsable", 1)
					return
				}
				k.Count("ev_fed", 1)
				m.feed(msg)
			})
			if panicked || s%10 != 9 {
				continue
			}
			// service continues (1): fresh session, single datagram
			canaryNo++
			sid := uint32(0x40000000 + canaryNo)
			addr := fmt.Sprintf("ok-%d.verif:53", canaryNo)
			payload := []byte(fmt.Sprintf("c03 canary %d single", canaryNo))
			r.Canary(entry, r.SeqID(id), map[string]any{"session": sid, "addr": addr}, func() error {
				msg, err := protocol.ParseUDPMessage(vfExact(vfC03Datagram(sid, 0, 0, 1, addr, payload)))
				if err != nil {
					return err
				}
				m.feed(msg)
				return vfC03CheckDelivered(io, addr, addr, payload)
			})
			// service continues (2): the same session again, now a 3-fragment message (unused packet id)
			parts := [][]byte{[]byte("c03-A-"), []byte("c03-B-"), []byte(fmt.Sprintf("c03-C-%d", canaryNo))}
			r.Canary(entry, r.SeqID(id), map[string]any{"session": sid, "addr": addr, "fragments": 3}, func() error {
				for _, f := range []int{2, 0, 1} {
					msg, err := protocol.ParseUDPMessage(vfExact(vfC03Datagram(sid, uint16(0x7000+canaryNo%0x1000), uint8(f), 3, addr, parts[f])))
					if err != nil {
						return err
					}
					m.feed(msg)
				}
				return vfC03CheckDelivered(io, addr, addr, vfC03Cat(parts...))
			})
		}
		k.Count("ev_sessions", int64(m.Count()))
		m.cleanup(false) // what Run does on exit: closes every session (and with it every receiveLoop)
		if c := m.Count(); c != 0 {
			r.ServiceStopped(entry, r.SeqID(id), map[string]any{"left": c}, "cleanup left %d sessions in the table", c)
		}
		if i < 2 {
			k.Sample(map[string]any{"sequence": id, "datagrams": steps, "sessions_opened": io.news})
		}
	}

	vfC03ServerAggregate(k, r, entry, func(id string) (*vfC03IO, func(string, []byte) bool, func(string)) {
		io := vfC03NewIO()
		m := newUDPSessionManager(io, vfC03Logger{io}, time.Hour)
		r.NewObject("udpSessionManager, aggregate workload from " + id)
		push := func(seqID string, d []byte) bool {
			return r.DoObj(entry, seqID, d, func(b []byte) {
				if msg, err := protocol.ParseUDPMessage(b); err == nil {
					m.feed(msg)
				}
			})
		}
		done := func(seqID string) {
			m.cleanup(false)
			if c := m.Count(); c != 0 {
				r.ServiceStopped(entry, seqID, map[string]any{"left": c}, "cleanup left %d sessions in the table", c)
			}
		}
		return io, push, done
	})
}

// vfC03ReplyCase: payload length / address length / datagram limit (has=false: no limit error at all)
func vfC03ReplyCases(rng *rand.Rand, nRandom int) [][3]int {
	var cases [][3]int
	hdrOf := func(al int) int { return 8 + len(vfC03VarintMin(uint64(al))) + al }
	for _, al := range []int{1, 3, 9, 21, 63, 64, 255, 2048} {
		h := hdrOf(al)
		for _, lim := range []int{-1 << 40, -1, 0, 1, 7, 8, h - 1, h, h + 1, h + 2, h + 3, h + 8, h + 15, h + 16, h + 17, h + 64, 1200, 1252, 4095, 4096, 1 << 40} {
			for _, s := range []int{0, 1, 2, 15, 16, 17, 255, 256, 257, 1199, 1200, 1201, 2560, 4079, 4080, 4087, 4088, 4095, 4096} {
				cases = append(cases, [3]int{s, al, lim})
			}
			if b := lim - h; b > 0 && b <= 17 {
				for _, mul := range []int{254, 255, 256, 257} {
					for _, d := range []int{-1, 0, 1} {
						if v := mul*b + d; v >= 0 && v <= 4096 {
							cases = append(cases, [3]int{v, al, lim})
						}
					}
				}
			}
		}
	}
	for i := 0; i < nRandom; i++ {
		al := 1 + rng.Intn(64)
		if rng.Intn(10) == 0 {
			al = 1 + rng.Intn(2048)
		}
		lim := hdrOf(al) - 2 + rng.Intn(30)
		if rng.Intn(3) == 0 {
			lim = rng.Intn(1400)
		}
		cases = append(cases, [3]int{rng.Intn(4097), al, lim})
	}
	return cases
}

// vfC03CheckFragments: datagrams that left must all respect the limit and concatenate to the payload.
func vfC03CheckFragments(sent [][]byte, limit int, addr string, payload []byte) error {
	if len(sent) == 0 {
		return errors.New("nothing was sent")
	}
	var cat []byte
	for i, raw := range sent {
		if len(raw) > limit {
			return fmt.Errorf("datagram %d has %d bytes > limit %d", i, len(raw), limit)
		}
		m, err := protocol.ParseUDPMessage(raw)
		if err != nil {
			return fmt.Errorf("datagram %d does not parse: %v", i, err)
		}
		if m.Addr != addr {
			return fmt.Errorf("datagram %d carries address %q, want %q", i, m.Addr, addr)
		}
		cat = append(cat, m.Data...)
	}
	if !bytes.Equal(cat, payload) {
		return fmt.Errorf("%d datagrams carry %d bytes that differ from the %d-byte payload", len(sent), len(cat), len(payload))
	}
	return nil
}

func TestVerifC03ServerReply(t *testing.T) {
	k := vfNewKit(t, "C03", "srv-reply")
	defer k.Finish()
	r := vfC03New(k)
	defer r.Close()
	const entry = "server:sendMessageAutoFrag"
	payload := make([]byte, protocol.MaxUDPSize)
	for i := range payload {
		payload[i] = byte(i*13 + 1)
	}
	io := vfC03NewIO()
	msgBuf := make([]byte, protocol.MaxUDPSize)
	r.Entry(entry, func(b []byte) {
		var s, al, lim int
		if _, err := fmt.Sscanf(string(b), "%d/%d/%d", &s, &al, &lim); err != nil || s > len(payload) {
			return
		}
		io.setLimit(true, int64(lim))
		io.takeSent()
		msg := &protocol.UDPMessage{SessionID: 7, PacketID: 0, FragID: 0, FragCount: 1, Addr: strings.Repeat("r", al), Data: vfExact(payload[:s])}
		err := sendMessageAutoFrag(io, msgBuf, msg)
		if err != nil {
			k.Count("ev_send_error", 1)
		}
		n := len(io.takeSent())
		k.Count("datagrams_out", int64(n))
		if n > 1 {
			k.Count("ev_fragmented", 1)
		} else if n == 0 {
			k.Count("ev_dropped", 1)
		}
	})
	if r.Replay() {
		return
	}
	rng := k.Rand("grid")
	cases := vfC03ReplyCases(rng, k.N(3000, 120000))
	for i, c := range cases {
		r.Do(entry, []byte(fmt.Sprintf("%d/%d/%d", c[0], c[1], c[2])))
		if i%500 == 499 {
			r.Canary(entry, "", "3000-byte reply, limit 1200", func() error {
				io.setLimit(true, 1200)
				io.takeSent()
				msg := &protocol.UDPMessage{SessionID: 7, FragCount: 1, Addr: "remote.verif:53", Data: vfExact(payload[:3000])}
				if err := sendMessageAutoFrag(io, msgBuf, msg); err != nil {
					return err
				}
				return vfC03CheckFragments(io.takeSent(), 1200, "remote.verif:53", payload[:3000])
			})
		}
	}

	k.Sample(map[string]any{"entry": entry, "cases": len(cases), "example payload/addrlen/limit": "4096/3/28"})
}

// TestVerifC03ServerLoop: the same reply cases through the real receiveLoop goroutine of a session.
// A panic there is process-fatal (as in production): the case is in inputs-srv-loop.log before it is pushed.
func TestVerifC03ServerLoop(t *testing.T) {
	k := vfNewKit(t, "C03", "srv-loop")
	defer k.Finish()
	r := vfC03New(k)
	defer r.Close()
	const loopEntry = "server:udpSessionEntry.receiveLoop"
	payload := make([]byte, protocol.MaxUDPSize)
	for i := range payload {
		payload[i] = byte(i*13 + 1)
	}
	cases := vfC03ReplyCases(k.Rand("grid"), k.N(3000, 120000))
	// the same through the real receive loop of a session (goroutine of the code under test)
	nseq := k.N(40, 800)
	for i := 0; i < nseq; i++ {
		id := fmt.Sprintf("loop-%d", i)
		if r.SkipSeq(id) {
			continue
		}
		rng := k.Rand("seq-" + id)
		lio := vfC03NewIO()
		m := newUDPSessionManager(lio, vfC03Logger{lio}, time.Hour)
		r.NewObject("udpSessionManager + receiveLoop, sequence " + id)
		reqAddr := fmt.Sprintf("ok-loop-%d.verif:53", i)
		if rng.Intn(3) == 0 {
			reqAddr = fmt.Sprintf("hook-loop-%d.verif:53", i) // replies then carry the original address
		}
		dialAddr := reqAddr
		if strings.HasPrefix(reqAddr, "hook-") {
			dialAddr = "hooked." + reqAddr
		}
		first, _ := protocol.ParseUDPMessage(vfC03Datagram(9, 0, 0, 1, reqAddr, []byte("open")))
		m.feed(first)
		c := lio.conn(dialAddr)
		if c == nil {
			t.Fatalf("harness: session not opened for %q", dialAddr)
		}
		<-c.entered // receiveLoop is waiting for the first packet
		alive := true
		push := func(data []byte, from string) bool {
			select {
			case c.in <- vfC03Write{data, from}:
			case <-c.closed:
				return false
			}
			select {
			case <-c.entered: // came back for the next packet: the previous one is through
				return true
			case <-c.closed:
				return false
			}
		}
		steps := 60 + rng.Intn(60)
		for s := 0; s < steps && alive && !r.Dead(loopEntry); s++ {
			cs := cases[rng.Intn(len(cases))]
			from := strings.Repeat("f", cs[1])
			lio.setLimit(true, int64(cs[2]))
			lio.takeSent()
			in := []byte(fmt.Sprintf("%d/%d/%d", cs[0], cs[1], cs[2]))
			r.Log(loopEntry, in, false)
			k.Eval()
			k.Count("ev_inputs", 1)
			k.Count("in:"+loopEntry, 1)
			k.Nontrivial(loopEntry + "|" + string(in))
			alive = push(vfExact(payload[:cs[0]]), from)
			k.Count("datagrams_out", int64(len(lio.takeSent())))
			if !alive || s%10 != 9 {
				continue
			}
			want := []byte(fmt.Sprintf("c03 reply canary %d/%d ", i, s))
			want = append(want, payload[:2500]...)
			r.Canary(loopEntry, r.SeqID(id), map[string]any{"limit": 1000, "reply_len": len(want)}, func() error {
				lio.setLimit(true, 1000)
				lio.takeSent()
				if !push(want, "remote.verif:53") {
					return errors.New("the session's receive loop has stopped")
				}
				wantAddr := "remote.verif:53"
				if dialAddr != reqAddr {
					wantAddr = reqAddr
				}
				return vfC03CheckFragments(lio.takeSent(), 1000, wantAddr, want)
			})
		}
		if !alive {
			r.ServiceStopped(loopEntry, r.SeqID(id), nil, "the session's receive loop stopped although the IO never reported a fatal error")
		}
		m.cleanup(false)
		<-c.closed
	}
	k.Sample(map[string]any{"entry": loopEntry, "loop_sequences": nseq, "cases_drawn_from": len(cases)})
}

func TestVerifC03ServerRun(t *testing.T) {
	k := vfNewKit(t, "C03", "srv-run")
	defer k.Finish()
	r := vfC03New(k)
	defer r.Close()
	const entry = "server:udpSessionManager.Run"
	nseq := k.N(60, 1200)
	canaryNo := 0
	for i := 0; i < nseq; i++ {
		id := fmt.Sprintf("%d", i)
		if r.SkipSeq(id) {
			continue
		}
		rng := k.Rand("seq-" + id)
		io := vfC03NewIO()
		m := newUDPSessionManager(io, vfC03Logger{io}, time.Hour)
		r.NewObject("udpSessionManager.Run, sequence " + id)
		done := make(chan error, 1)
		go func() { done <- m.Run() }()
		<-io.entered
		push := func(d []byte) {
			io.rx <- d
			<-io.entered // back in ReceiveMessage: the datagram has been parsed and fed (or skipped)
		}
		steps := 150 + rng.Intn(150)
		for s := 0; s < steps && !r.Dead(entry); s++ {
			var d []byte
			switch rng.Intn(6) {
			case 0:
				d = vfC03Fill(rng, rng.Intn(4), s%65) // every length 0..64 of plain fills
			default:
				d = vfC03HostileDatagram(rng, s)
			}
			r.Log(entry, d, false)
			k.Eval()
			k.Count("ev_inputs", 1)
			k.Count("in:"+entry, 1)
			k.Nontrivial(entry + "|" + string(d))
			push(vfExact(d))
			if s%10 != 9 {
				continue
			}
			canaryNo++
			sid := uint32(0x50000000 + canaryNo)
			addr := fmt.Sprintf("ok-run-%d.verif:53", canaryNo)
			payload := []byte(fmt.Sprintf("c03 run canary %d", canaryNo))
			r.Canary(entry, r.SeqID(id), map[string]any{"session": sid, "addr": addr}, func() error {
				push(vfExact(vfC03Datagram(sid, 0, 0, 1, addr, payload)))
				return vfC03CheckDelivered(io, addr, addr, payload)
			})
		}
		k.Count("ev_sessions", int64(m.Count()))
		io.Close()
		if err := <-done; err == nil {
			r.ServiceStopped(entry, r.SeqID(id), nil, "Run returned nil after the IO was closed")
		}
		if c := m.Count(); c != 0 {
			r.ServiceStopped(entry, r.SeqID(id), map[string]any{"left": c}, "Run left %d sessions in the table on exit", c)
		}
		if i < 2 {
			k.Sample(map[string]any{"sequence": id, "raw_datagrams": steps, "sessions_opened": io.news})
		}
	}

	vfC03ServerAggregate(k, r, entry, func(id string) (*vfC03IO, func(string, []byte) bool, func(string)) {
		io := vfC03NewIO()
		m := newUDPSessionManager(io, vfC03Logger{io}, time.Hour)
		r.NewObject("udpSessionManager.Run, aggregate workload from " + id)
		runDone := make(chan error, 1)
		go func() { runDone <- m.Run() }()
		<-io.entered
		push := func(seqID string, d []byte) bool {
			if r.Dead(entry) {
				return true
			}
			r.Log(entry, d, false)
			k.Eval()
			k.Count("ev_inputs", 1)
			k.Count("in:"+entry, 1)
			k.Nontrivial(entry + "|" + string(d))
			io.rx <- vfExact(d)
			<-io.entered
			return false
		}
		done := func(seqID string) {
			io.Close()
			<-runDone
			if c := m.Count(); c != 0 {
				r.ServiceStopped(entry, seqID, map[string]any{"left": c}, "Run left %d sessions in the table on exit", c)
			}
		}
		return io, push, done
	})
}
