//go:build verif

package server

// C07 — Server UDP sessions are isolated, expire when idle, and never leak.
//
// The real udpSessionManager runs inside a testing/synctest bubble against the fakes of
// c07c08_fakes_test.go. A PRNG script (a "timeline") fixes, on the bubble's virtual clock, when
// datagrams of 1..12 session IDs (complete / fragments / never completed), remote replies, read
// errors, table snapshots and the final connection loss happen, and which dial / hook / send /
// write faults and callback delays the fakes inject (virtual sleep in eventLogger.Close, i.e.
// between closed=true and the removal from the table; scheduler yields in dial / Hook / socket
// Close, which run under the session lock where a virtual sleep would hang the bubble).
// Oracles (DESIGN.md §3 C07):
//
//   isolation     every WriteTo carries a payload of the session the socket was dialled for; every
//                 SendMessage carries the ID of the session whose socket produced the reply
//   idle expiry   exact, on virtual time. The sweeper ticks on the grid S+n*1s (S = start of Run).
//                 activity of a session ID = a datagram handed to the server (incl. fragments) or a
//                 reply read from its socket, stamped when the fake hands it over.
//                   never early: an idle close (err==nil, before the IO ended) that starts at T
//                                belongs to the sweep at G=floor(T); some activity strictly before G
//                                must exist and satisfy G-L > timeout
//                   on time:     after activity L of a session that certainly exists, the first grid
//                                point G* > L+timeout closes it: the next activity / close / IO end
//                                of that session must come before G*+1s
//                   no stall:    T-G is covered by the virtual sleeps the fakes injected in [G,T]
//   fresh socket  a datagram received after the previous exit completed is never written to the old
//                 (closed) socket; the session table at quiescent points equals the sessions alive
//                 by the log; an open socket always belongs to an existing session
//   no leak       every socket closed exactly once; after the IO ends Run() returns, Count()==0 and
//                 no goroutine of the bubble is left (stack census + synctest's own deadlock check)
//
// Not demanded (sound by construction): New before Close; delivery of a datagram that races
// with the sweeper; which of two same-instant events wins.

import (
	"encoding/json"
	"errors"
	"fmt"
	"math/rand"
	"net"
	"sort"
	"strings"
	"testing"
	"time"

	"github.com/apernet/hysteria/core/v2/internal/protocol"
)

const (
	vfC07Ms   = int64(time.Millisecond)
	vfC07Sec  = int64(time.Second)
	vfC07Grid = int64(time.Second) // the sweep interval named by the property ("one sweep interval")
)

type vfC07Step struct {
	At        int64  `json:"at_ns"`
	Op        string `json:"op"` // msg reply readerr snap awaitsweep opengate
	Sid       uint32 `json:"sid,omitempty"`
	No        int    `json:"no,omitempty"`
	Dst       int    `json:"dst,omitempty"`
	Port      int    `json:"port,omitempty"`
	Len       int    `json:"len,omitempty"`
	Pkt       uint16 `json:"pkt,omitempty"`
	FragID    int    `json:"frag_id,omitempty"`
	FragCount int    `json:"frag_count,omitempty"`
	Note      string `json:"note,omitempty"`
}

type vfC07Script struct {
	CaseID  string            `json:"case_id"`
	Timeout int64             `json:"idle_timeout_ns"`
	Sids    []uint32          `json:"session_ids"`
	Roles   map[string]string `json:"roles"`
	Plan    *vfC07Plan        `json:"plan"`
	Steps   []vfC07Step       `json:"steps"`
	EndAt   int64             `json:"end_at_ns"`
}

type vfC07Gen struct {
	r     *rand.Rand
	sc    *vfC07Script
	tm    int64
	msgNo int
}

func (g *vfC07Gen) pick(v ...int64) int64 { return v[g.r.Intn(len(v))] }

// firstGridAfter returns the first sweep instant strictly after x (grid starts at 0).
func vfC07FirstGridAfter(x int64) int64 {
	if x < 0 {
		return vfC07Grid
	}
	return (x/vfC07Grid + 1) * vfC07Grid
}

func (g *vfC07Gen) msg(at int64, sid uint32, dst, n int, note string) {
	g.msgNo++
	g.sc.Steps = append(g.sc.Steps, vfC07Step{At: at, Op: "msg", Sid: sid, No: g.msgNo, Dst: dst, Port: 1000 + dst, Len: n, FragCount: 1, Note: note})
}

// frags emits the fragments of one message at the given instants; at[i] < 0 drops fragment i.
func (g *vfC07Gen) frags(sid uint32, dst, n int, at []int64, note string) int {
	g.msgNo++
	for i, t := range at {
		if t < 0 {
			continue
		}
		g.sc.Steps = append(g.sc.Steps, vfC07Step{At: t, Op: "msg", Sid: sid, No: g.msgNo, Dst: dst, Port: 1000 + dst, Len: n,
			Pkt: uint16(g.msgNo%65000) + 1, FragID: i, FragCount: len(at), Note: note})
	}
	return g.msgNo
}

func (g *vfC07Gen) op(at int64, op string, sid uint32, n int, note string) {
	g.sc.Steps = append(g.sc.Steps, vfC07Step{At: at, Op: op, Sid: sid, Len: n, Note: note})
}

func (g *vfC07Gen) plen() int {
	switch g.r.Intn(4) {
	case 0:
		return 20 + g.r.Intn(10)
	case 1:
		return 1200 + g.r.Intn(200)
	}
	return 30 + g.r.Intn(400)
}

// keepGap is a gap that must keep a session alive (<= timeout) — boundary values first.
func (g *vfC07Gen) keepGap() int64 {
	return g.pick(g.tm, g.tm, g.tm-vfC07Ms, g.tm-vfC07Ms, g.tm/2, g.tm/3, vfC07Ms, 0, g.tm-7*vfC07Ms)
}

// expiry waits: how long after the last activity L the next datagram arrives.
func (g *vfC07Gen) afterExpiry(l int64) int64 {
	gs := vfC07FirstGridAfter(l + g.tm)
	switch g.r.Intn(10) {
	case 0:
		return l + g.tm + vfC07Ms
	case 1:
		return gs - vfC07Ms
	case 2:
		return gs
	case 3:
		return gs + g.pick(vfC07Ms, 3*vfC07Ms, 8*vfC07Ms, 15*vfC07Ms, 19*vfC07Ms, 25*vfC07Ms)
	case 4:
		return gs + 100*vfC07Ms
	case 5:
		return gs + vfC07Sec
	case 6:
		return gs + vfC07Sec + vfC07Ms
	case 7:
		return l + g.tm + vfC07Sec
	}
	return gs + int64(g.r.Intn(2500))*vfC07Ms
}

func (g *vfC07Gen) startAt() int64 {
	switch g.r.Intn(5) {
	case 0:
		return 0
	case 1:
		return int64(g.r.Intn(4)) * vfC07Sec // exactly on the sweep grid
	case 2:
		return int64(1+g.r.Intn(3))*vfC07Sec + int64(g.r.Intn(2)*2-1)*vfC07Ms // 1 ms around it
	}
	return int64(g.r.Intn(3000)) * vfC07Ms
}

var vfC07Roles = []string{"chatty", "replykeep", "reuse", "fraglate", "fragkeep", "faulty", "hooked", "random", "slowdial"}

// role appends the steps of one session ID; returns the time of its last step.
func (g *vfC07Gen) role(sid uint32, role string) int64 {
	r, tm, p := g.r, g.tm, g.sc.Plan
	t := g.startAt()
	switch role {
	case "chatty": // datagrams at gaps <= timeout: must be kept the whole time
		n := 3 + r.Intn(8)
		for i := 0; i < n; i++ {
			g.msg(t, sid, r.Intn(3), g.plen(), "keepalive")
			if i < n-1 {
				t += g.keepGap()
			}
		}
	case "replykeep": // one datagram, then only the remote side talks, at gaps <= timeout
		g.msg(t, sid, 0, g.plen(), "open")
		n := 2 + r.Intn(7)
		for i := 0; i < n; i++ {
			t += g.keepGap()
			if t == 0 {
				t = vfC07Ms
			}
			g.op(t, "reply", sid, g.plen(), "keepalive by reply")
		}
	case "reuse": // expire, come back with the same ID
		g.msg(t, sid, 0, g.plen(), "first life")
		n := 1 + r.Intn(3)
		for i := 0; i < n; i++ {
			t = g.afterExpiry(t)
			g.msg(t, sid, r.Intn(2), g.plen(), "same id again")
			if r.Intn(3) == 0 {
				t += vfC07Ms
				g.op(t, "reply", sid, g.plen(), "")
			}
		}
	case "fraglate": // incomplete message, session without socket expires, the missing fragment arrives inside the exit
		nf := 2 + r.Intn(3)
		miss := r.Intn(nf)
		at := make([]int64, nf)
		last := t
		for i := range at {
			at[i] = t + int64(i)*g.pick(0, vfC07Ms, 100*vfC07Ms)
			if at[i] > last {
				last = at[i]
			}
		}
		gs := vfC07FirstGridAfter(last + tm)
		late := gs + g.pick(0, vfC07Ms, 3*vfC07Ms, 8*vfC07Ms, 15*vfC07Ms, 19*vfC07Ms, 19*vfC07Ms, -vfC07Ms, 500*vfC07Ms)
		keep := at[miss]
		at[miss] = -1
		no := g.frags(sid, 1, 100+r.Intn(300), at, "incomplete")
		if r.Intn(5) > 0 {
			if p.SlowClose == nil {
				p.SlowClose = map[uint32]bool{}
			}
			p.SlowClose[sid] = true
		}
		_ = keep
		st := g.sc.Steps[len(g.sc.Steps)-1]
		g.sc.Steps = append(g.sc.Steps, vfC07Step{At: late, Op: "msg", Sid: sid, No: no, Dst: st.Dst, Port: st.Port, Len: st.Len, Pkt: st.Pkt,
			FragID: miss, FragCount: nf, Note: "missing fragment, late"})
		t = late
		if r.Intn(2) == 0 {
			t += g.pick(vfC07Ms, 30*vfC07Ms, vfC07Sec)
			g.msg(t, sid, 1, g.plen(), "after the late fragment")
		}
	case "fragkeep": // fragments alone keep a session alive; complete messages arrive in pieces, shuffled
		n := 2 + r.Intn(4)
		for i := 0; i < n; i++ {
			nf := 2 + r.Intn(4)
			at := make([]int64, nf)
			order := r.Perm(nf)
			for _, fi := range order {
				at[fi] = t
				t += g.pick(0, vfC07Ms, tm-vfC07Ms, tm, tm/2)
			}
			if r.Intn(4) == 0 {
				at[r.Intn(nf)] = -1
			}
			g.frags(sid, r.Intn(2), 200+r.Intn(900), at, "fragmented")
		}
	case "faulty":
		switch r.Intn(6) {
		case 0: // dial fails, then works
			p.setB(&p.DialFail, sid, 0)
			g.msg(t, sid, 0, g.plen(), "dial fails")
			t += g.pick(0, vfC07Ms, tm+2*vfC07Sec)
			g.msg(t, sid, 0, g.plen(), "dial works")
		case 1: // hook fails, then works
			p.setHook(sid, 0, vfC07HookFail)
			g.msg(t, sid, 0, g.plen(), "hook fails")
			t += g.pick(0, vfC07Ms, 500*vfC07Ms)
			g.msg(t, sid, 0, g.plen(), "hook passes")
		case 2: // socket read error, then the same ID again
			g.msg(t, sid, 0, g.plen(), "open")
			t += g.pick(vfC07Ms, tm/2, tm-vfC07Ms)
			g.op(t, "readerr", sid, 0, "")
			t += g.pick(0, vfC07Ms, 30*vfC07Ms, tm)
			g.msg(t, sid, 0, g.plen(), "after read error")
		case 3: // sending the reply to the client fails
			p.setB(&p.SendFail, sid, r.Intn(2))
			g.msg(t, sid, 0, g.plen(), "open")
			for i := 0; i < 3; i++ {
				t += g.pick(vfC07Ms, tm/2)
				g.op(t, "reply", sid, g.plen(), "send may fail")
			}
			t += g.pick(vfC07Ms, 20*vfC07Ms)
			g.msg(t, sid, 0, g.plen(), "after send failure")
		case 4: // socket write errors are not fatal
			p.setB(&p.WriteFail, sid, r.Intn(3))
			for i := 0; i < 4; i++ {
				g.msg(t, sid, 0, g.plen(), "write may fail")
				t += g.pick(vfC07Ms, tm/2)
			}
		case 5: // every second dial fails
			p.setB(&p.DialFail, sid, 0)
			p.setB(&p.DialFail, sid, 2)
			for i := 0; i < 5; i++ {
				g.msg(t, sid, 0, g.plen(), "")
				t += g.pick(0, vfC07Ms, tm+1500*vfC07Ms)
			}
		}
	case "hooked": // hook rewrites the destination
		p.setHook(sid, 0, vfC07HookRewrite)
		if r.Intn(2) == 0 {
			p.setHook(sid, 1, vfC07HookRewrite)
		}
		n := 2 + r.Intn(5)
		for i := 0; i < n; i++ {
			g.msg(t, sid, r.Intn(4), g.plen(), "hooked")
			t += g.pick(vfC07Ms, tm/2, tm)
			if r.Intn(2) == 0 {
				g.op(t, "reply", sid, g.plen(), "")
			}
		}
		if r.Intn(2) == 0 {
			t = g.afterExpiry(t)
			g.msg(t, sid, 0, g.plen(), "hooked, second life")
		}
	case "slowdial": // a long (50 yields) dial under the session lock right before a sweep instant
		if p.SlowDial == nil {
			p.SlowDial = map[uint32]bool{}
		}
		p.SlowDial[sid] = true
		n := 1 + r.Intn(3)
		for i := 0; i < n; i++ {
			gs := vfC07FirstGridAfter(t)
			t = gs - g.pick(45*vfC07Ms, 30*vfC07Ms, 10*vfC07Ms, 49*vfC07Ms, 50*vfC07Ms)
			if t < 0 {
				t = 0
			}
			g.msg(t, sid, 0, g.plen(), "dial right before the sweep")
			t += g.pick(20*vfC07Ms, 60*vfC07Ms)
			g.msg(t, sid, 0, g.plen(), "")
			t = g.afterExpiry(t)
		}
	default: // random
		n := 2 + r.Intn(12)
		for i := 0; i < n; i++ {
			switch r.Intn(6) {
			case 0, 1, 2:
				g.msg(t, sid, r.Intn(3), g.plen(), "")
			case 3:
				g.op(t, "reply", sid, g.plen(), "")
			case 4:
				at := []int64{t, t + vfC07Ms, -1}
				r.Shuffle(len(at), func(a, b int) { at[a], at[b] = at[b], at[a] })
				g.frags(sid, 0, 300, at, "incomplete")
			case 5:
				g.op(t, "readerr", sid, 0, "")
			}
			t += g.pick(0, vfC07Ms, 10*vfC07Ms, 500*vfC07Ms, vfC07Sec, tm-vfC07Ms, tm, tm+vfC07Ms, tm+vfC07Sec, tm+2*vfC07Sec)
		}
	}
	return t
}

func vfC07GenScript(r *rand.Rand, caseID string, forceRole string) *vfC07Script {
	sc := &vfC07Script{CaseID: caseID, Roles: map[string]string{}, Plan: &vfC07Plan{DelaySeed: r.Uint64()}}
	tms := []int64{300 * vfC07Ms, vfC07Sec, 1500 * vfC07Ms, 2 * vfC07Sec, 2500 * vfC07Ms, 3 * vfC07Sec, 100 * vfC07Ms, 5 * vfC07Sec}
	sc.Timeout = tms[r.Intn(len(tms))]
	g := &vfC07Gen{r: r, sc: sc, tm: sc.Timeout}
	ns := 1 + r.Intn(12)
	if forceRole != "" && r.Intn(2) == 0 {
		ns = 1 + r.Intn(3)
	}
	used := map[uint32]bool{}
	for len(sc.Sids) < ns {
		var sid uint32
		switch r.Intn(6) {
		case 0:
			sid = uint32(r.Intn(3)) // incl. 0
		case 1:
			sid = 0xFFFFFFFF - uint32(r.Intn(2))
		default:
			sid = r.Uint32()
		}
		if !used[sid] {
			used[sid] = true
			sc.Sids = append(sc.Sids, sid)
		}
	}
	if r.Intn(3) == 0 {
		sc.Plan.SendLimit = []int{100, 300, 700}[r.Intn(3)]
	}
	var maxT int64
	for _, sid := range sc.Sids {
		role := vfC07Roles[r.Intn(len(vfC07Roles))]
		if forceRole != "" && (r.Intn(3) > 0 || len(sc.Sids) == 1) {
			role = forceRole
		}
		sc.Roles[fmt.Sprint(sid)] = role
		if t := g.role(sid, role); t > maxT {
			maxT = t
		}
	}
	drain := maxT + sc.Timeout + 2200*vfC07Ms
	switch r.Intn(4) {
	case 0: // connection lost at a random point
		sc.EndAt = int64(r.Intn(int(drain/vfC07Ms)+1)) * vfC07Ms
	case 1: // ... exactly on a sweep instant
		sc.EndAt = (int64(r.Intn(int(drain/vfC07Sec)+1)) + 1) * vfC07Sec
	default: // after every session had time to expire
		sc.EndAt = drain
	}
	for i := 0; i < 6; i++ {
		sc.Steps = append(sc.Steps, vfC07Step{At: int64(r.Intn(int(drain/vfC07Ms)+1)) * vfC07Ms, Op: "snap"})
	}
	sc.Steps = append(sc.Steps, vfC07Step{At: sc.EndAt, Op: "snap"})
	sort.SliceStable(sc.Steps, func(i, j int) bool { return sc.Steps[i].At < sc.Steps[j].At })
	kept := sc.Steps[:0]
	for _, s := range sc.Steps {
		if s.At <= sc.EndAt {
			kept = append(kept, s)
		}
	}
	sc.Steps = kept
	return sc
}

// vfC07Drive plays the script on the bubble's clock.
func vfC07Drive(sc *vfC07Script) func(w *vfC07World, sm *udpSessionManager) {
	return func(w *vfC07World, sm *udpSessionManager) {
		var gateBuf []byte
		for i := range sc.Steps {
			st := &sc.Steps[i]
			if d := time.Duration(st.At) - time.Since(w.start); d > 0 {
				time.Sleep(d)
			}
			switch st.Op {
			case "msg":
				addr := vfC07Addr(st.Dst, st.Sid, st.Port)
				full := vfC07Payload(st.No, st.Sid, st.Len)
				m := &protocol.UDPMessage{SessionID: st.Sid, PacketID: st.Pkt, FragID: uint8(st.FragID), FragCount: uint8(st.FragCount), Addr: addr}
				if st.FragCount <= 1 {
					m.Data = full
				} else {
					chunk := (len(full) + st.FragCount - 1) / st.FragCount
					lo, hi := st.FragID*chunk, (st.FragID+1)*chunk
					if hi > len(full) {
						hi = len(full)
					}
					if lo > hi {
						lo = hi
					}
					m.Data = vfExact(full[lo:hi])
				}
				w.Push(m, st.No, &vfC07Msg{No: st.No, Sid: st.Sid, Addr: addr, Len: len(full), FragCount: st.FragCount})
			case "reply":
				from := ""
				if st.Len%5 == 0 {
					from = fmt.Sprintf("other%d.s%d.vf:%d", st.Len, st.Sid, 2000+st.Len%100) // full-cone: reply from a third party
				}
				w.InjectReply(st.Sid, st.Len, from)
			case "readerr":
				w.InjectReadErr(st.Sid)
			case "snap":
				w.Snapshot(sm, false)
			case "opengate":
				w.OpenGate(st.Sid)
			case "awaitsweep":
				if gateBuf == nil {
					gateBuf = make([]byte, 1<<20)
				}
				w.AwaitSweepThenOpen(sm, st.Sid, gateBuf)
			}
		}
		if d := time.Duration(sc.EndAt) - time.Since(w.start); d > 0 {
			time.Sleep(d)
		}
	}
}

// vfC07CheckTiming is the exact idle-expiry oracle (see the file comment).
func vfC07CheckTiming(k *vfKit, w *vfC07World, ix *vfC07Index, timeout int64, report vfC07Reporter) (idleCloses int) {
	S := w.runStart
	gridFloor := func(t int64) int64 { return S + ((t-S)/vfC07Grid)*vfC07Grid }
	firstAfter := func(x int64) int64 {
		if x < S {
			return S + vfC07Grid
		}
		return S + ((x-S)/vfC07Grid+1)*vfC07Grid
	}
	overlap := func(from, to int64) int64 {
		var sum int64
		for _, sl := range w.sleeps {
			lo, hi := sl.From, sl.To
			if lo < from {
				lo = from
			}
			if hi > to {
				hi = to
			}
			if hi > lo {
				sum += hi - lo
			}
		}
		return sum
	}
	for _, sid := range ix.Sids {
		acts, recvs, exits := ix.Acts[sid], ix.Recvs[sid], ix.Exits[sid]
		for j := 0; j <= len(exits); j++ {
			var prev, cur *vfC07Exit
			if j > 0 {
				prev = &exits[j-1]
			}
			if j < len(exits) {
				cur = &exits[j]
			}
			// the incarnation between prev and cur: who created it?
			amb := false
			var clo *vfC07Act
			for i := range recvs {
				a := &recvs[i]
				if cur != nil && a.Seq > cur.StartSeq {
					break
				}
				rel := 1
				if prev != nil {
					rel = prev.rel(*a)
				}
				if rel == 0 {
					amb = true
				}
				if rel > 0 && clo == nil {
					clo = a
				}
			}
			if cur != nil && clo == nil && !amb {
				report("udp:close-without-session", cur.StartSeq, "Close event for session %d (err=%q) at %v although no datagram of that ID was received since its previous exit",
					sid, cur.Err, time.Duration(cur.StartT))
			}
			// ---- never early (needs no knowledge about who created the session)
			if cur != nil && cur.Err == "" && cur.StartSeq < ix.IoEndSeq {
				idleCloses++
				G := gridFloor(cur.StartT)
				var L int64 = -1
				for _, a := range acts {
					if a.T < G && a.T > L {
						L = a.T
					}
				}
				switch {
				case G < S+vfC07Grid:
					report("udp:idle-close-too-early", cur.StartSeq, "session %d closed as idle at %v, before the first sweep", sid, time.Duration(cur.StartT))
				case L < 0 || G-L <= timeout:
					report("udp:idle-close-too-early", cur.StartSeq, "session %d closed as idle at %v (sweep of %v): its last activity before that sweep was at %v, only %v earlier; idle timeout %v",
						sid, time.Duration(cur.StartT), time.Duration(G), time.Duration(L), time.Duration(G-L), time.Duration(timeout))
				case cur.StartT-G >= 900*vfC07Ms:
					k.Inconclusive(fmt.Sprintf("sweep of %v overran (%v): harness delays too large", time.Duration(G), time.Duration(cur.StartT-G)))
				case cur.StartT-G > overlap(G, cur.StartT):
					report("udp:sweeper-stalled", cur.StartSeq, "idle close of session %d started %v after its sweep instant %v but the fakes injected only %v of delay in that window",
						sid, time.Duration(cur.StartT-G), time.Duration(G), time.Duration(overlap(G, cur.StartT)))
				default:
					k.Count("ev_idle_closes_checked", 1)
				}
			}
			// ---- on time: from the first datagram that certainly found no session
			if clo == nil {
				continue
			}
			termT, termWhat := ix.IoEndT, "the connection ended"
			var upTo int64 = 1 << 62
			if cur != nil {
				upTo = cur.BeginT
				if cur.StartSeq < ix.IoEndSeq {
					termT, termWhat = cur.StartT, fmt.Sprintf("its Close event (err=%q)", cur.Err)
				}
			}
			if ix.IoEndSeq == 1<<60 {
				continue
			}
			var seq []vfC07Act
			for _, a := range acts {
				if a.Seq >= clo.Seq && a.T <= upTo && a.Seq < ix.IoEndSeq && (cur == nil || a.Seq < cur.StartSeq) {
					seq = append(seq, a)
				}
			}
			for i, a := range seq {
				next, what, wseq := termT, termWhat, a.Seq
				if i+1 < len(seq) {
					next, what, wseq = seq[i+1].T, "its next activity", seq[i+1].Seq
				}
				due := firstAfter(a.T + timeout)
				if next >= due+vfC07Grid {
					report("udp:idle-session-not-closed", wseq, "session %d had no traffic after %v; with idle timeout %v the sweep of %v must close it, but it was still open at %v (%s)",
						sid, time.Duration(a.T), time.Duration(timeout), time.Duration(due), time.Duration(next), what)
					break
				}
				k.Count("ev_gaps_checked", 1)
			}
		}
	}
	return idleCloses
}

func vfC07RunCase(t *testing.T, k *vfKit, sc *vfC07Script, stackBuf []byte, traces map[string]bool) {
	k.Eval()
	w := vfC07RunBubble(t, sc.Plan, time.Duration(sc.Timeout), stackBuf, vfC07Drive(sc))
	ix := vfC07BuildIndex(w)
	nviol := 0
	report := func(key string, seq int, format string, args ...any) {
		nviol++
		if nviol > 6 {
			return
		}
		k.Violation(key, map[string]any{"case_id": sc.CaseID, "script": sc, "witness_events": w.window(seq, 40, 8)}, format, args...)
	}
	vfC07CheckCommon(k, w, ix, report)
	vfC07CheckSnapshots(k, w, ix, report)
	idle := vfC07CheckTiming(k, w, ix, sc.Timeout, report)
	k.Count("ev_events_logged", int64(len(w.evs)))
	k.Count("snapshots_skipped_busy", int64(w.snapSkipped))
	// non-vacuity: replies that reached the client although their session was closed between the
	// moment the remote sent them and the hand-over (reply loop stalled across the close)
	injectSeq := map[int]int{}
	for _, e := range w.evs {
		if e.Kind == "inject" && e.No > 0 {
			injectSeq[e.No] = e.Seq
		}
		if e.Kind == "send" && e.Err == "" && e.No > 0 {
			for _, x := range ix.Exits[e.Sid] {
				if is, ok := injectSeq[e.No]; ok && x.StartSeq > is && x.EndSeq < e.Seq {
					k.Count("ev_replies_handed_over_after_session_close", 1)
					break
				}
			}
		}
	}
	replies, sweptAtEnd := 0, 0
	for _, e := range w.evs {
		switch {
		case e.Kind == "send" && e.Err == "" && e.No > 0:
			replies++
		case e.Kind == "recv":
			k.Count("ev_datagrams_received", 1)
		case e.Kind == "dial" && e.Ph == 2 && e.Err == "":
			k.Count("dials_ok", 1)
		case e.Kind == "dial" && e.Ph == 2:
			k.Count("dials_failed", 1)
		case e.Kind == "send" && e.Err == "too-large":
			k.Count("sends_too_large", 1)
		case e.Kind == "xclose" && e.Ph == 1 && e.Aux == 1:
			k.Count("ev_closes_by_sweeper_during_final_cleanup", 1)
			sweptAtEnd++
		}
	}
	for o, n := range w.gateOutcome {
		k.Count("gate_"+o, int64(n))
	}
	k.Count("idle_closes", int64(idle))
	tr := vfC07Trace(w)
	if !traces[tr] {
		traces[tr] = true
		k.Count("distinct_traces", 1)
	}
	reasm := 0
	for i := range w.writes {
		if m := w.msgs[w.writes[i].No]; m != nil && m.FragCount > 1 && !w.writes[i].Closed {
			reasm++
		}
	}
	k.Count("ev_reassembled_messages_written", int64(reasm))
	if idle > 0 && replies > 0 || sweptAtEnd > 0 || reasm > 0 && strings.HasPrefix(sc.CaseID, "fi-") {
		js, _ := json.Marshal(sc.Steps)
		k.Nontrivial(fmt.Sprintf("%d/%s", sc.Timeout, js))
	}
	if len(sc.Sids) <= 2 && idle > 0 && replies > 0 {
		var hist []string
		for _, e := range w.evs {
			if e.Kind == "push" || e.Kind == "snap" {
				continue
			}
			hist = append(hist, fmt.Sprintf("%v %s%s sid=%d sock=%d no=%d %s%s", time.Duration(e.T), e.Kind, []string{"", "[", "]"}[e.Ph], e.Sid, e.Sock, e.No, e.Addr, e.Err))
			if len(hist) >= 60 {
				break
			}
		}
		k.Sample(map[string]any{"case_id": sc.CaseID, "idle_timeout": time.Duration(sc.Timeout).String(), "roles": sc.Roles, "history": hist})
	}
}

// TestVerifC07Timelines: PRNG timelines; the first cases force each role in turn so that every
// targeted interleaving (late fragment inside an exit, dial spanning a sweep, ...) is present at
// every seed.
func TestVerifC07Timelines(t *testing.T) {
	k := vfNewKit(t, "C07", "udp-timelines")
	defer k.Finish()
	n := k.N(300, 10000)
	stackBuf := make([]byte, 4<<20)
	traces := map[string]bool{}
	for i := 0; i < n; i++ {
		caseID := fmt.Sprintf("tl-%d", i)
		if rc := k.ReplayCase(); rc != "" && rc != caseID {
			continue
		}
		force := ""
		if i%3 == 0 {
			force = vfC07Roles[(i/3)%len(vfC07Roles)]
		}
		sc := vfC07GenScript(k.Rand(caseID), caseID, force)
		vfC07RunCase(t, k, sc, stackBuf, traces)
	}
}

// TestVerifC07Boundary: small deterministic grid around the expiry boundary. One session, last
// activity (datagram, fragment or reply) at L, idle timeout tm, for every L offset around the sweep
// grid; then either nothing (must be closed by exactly the first sweep after L+tm), or a second
// datagram at offsets around that sweep (before: same socket, after: new socket).
func TestVerifC07Boundary(t *testing.T) {
	k := vfNewKit(t, "C07", "udp-boundary")
	defer k.Finish()
	stackBuf := make([]byte, 4<<20)
	traces := map[string]bool{}
	i := 0
	for _, tm := range []int64{vfC07Sec, 1500 * vfC07Ms, 2 * vfC07Sec, 300 * vfC07Ms} {
		for _, lOff := range []int64{0, vfC07Ms, 500 * vfC07Ms, 999 * vfC07Ms, vfC07Sec, 2300 * vfC07Ms} {
			for _, kind := range []string{"msg", "frag", "reply"} {
				for _, second := range []int64{-1 << 62, -vfC07Sec, -vfC07Ms, 0, vfC07Ms, 10 * vfC07Ms, vfC07Sec} {
					i++
					caseID := fmt.Sprintf("bd-%d", i)
					if rc := k.ReplayCase(); rc != "" && rc != caseID {
						continue
					}
					sid := uint32(7000 + i)
					sc := &vfC07Script{CaseID: caseID, Timeout: tm, Sids: []uint32{sid}, Roles: map[string]string{fmt.Sprint(sid): "boundary-" + kind},
						Plan: &vfC07Plan{DelaySeed: uint64(i) * 7919}}
					g := &vfC07Gen{r: k.Rand(caseID), sc: sc, tm: tm}
					L := lOff
					switch kind {
					case "msg":
						g.msg(L, sid, 0, 64, "last activity")
					case "frag":
						g.msg(0, sid, 0, 64, "open")
						g.frags(sid, 0, 300, []int64{L, -1}, "last activity is a fragment")
					case "reply":
						g.msg(0, sid, 0, 64, "open")
						if L == 0 {
							L = vfC07Ms
						}
						g.op(L, "reply", sid, 80, "last activity is a reply")
					}
					due := vfC07FirstGridAfter(L + tm)
					end := due + 2500*vfC07Ms
					if second != -1<<62 {
						at := due + second
						if at > L {
							g.msg(at, sid, 1, 64, "second datagram around the expiry sweep")
							g.op(at+30*vfC07Ms, "reply", sid, 40, "")
							end = vfC07FirstGridAfter(at+tm) + 2500*vfC07Ms
						}
					}
					sc.EndAt = end
					for _, at := range []int64{due - vfC07Ms, due + 100*vfC07Ms, end} {
						sc.Steps = append(sc.Steps, vfC07Step{At: at, Op: "snap"})
					}
					sort.SliceStable(sc.Steps, func(a, b int) bool { return sc.Steps[a].At < sc.Steps[b].At })
					vfC07RunCase(t, k, sc, stackBuf, traces)
				}
			}
		}
	}
}

// TestVerifC07SlowDial: the dial (or the request hook) of a new session is still in flight when
// the sweeper comes for that session. Deterministic: the fake dial / hook is gated (parks until the
// driver opens the gate), it starts more than the idle timeout before a sweep instant, and at that
// instant the driver waits -- spinning, no clock -- until the sweeper either waits for the
// session's lock or has closed the session, then lets the dial finish (AwaitSweepThenOpen).
// Whatever the implementation does in that window, afterwards the usual oracles must hold: the
// freshly dialled socket is closed exactly once, nothing is written after the session's Close
// event, open sockets belong to existing sessions, and after the IO ends nothing is left.
func TestVerifC07SlowDial(t *testing.T) {
	k := vfNewKit(t, "C07", "udp-slowdial")
	defer k.Finish()
	stackBuf := make([]byte, 4<<20)
	traces := map[string]bool{}
	i := 0
	reps := k.N(1, 6)
	for rep := 0; rep < reps; rep++ {
		for _, tm := range []int64{100 * vfC07Ms, 300 * vfC07Ms} {
			for _, gate := range []string{"dial", "hook", "hook-rewrite"} {
				for _, lead := range []int64{vfC07Ms, 50 * vfC07Ms, 600 * vfC07Ms} { // dial starts tm+lead before the sweep
					for _, others := range []int{0, 3} {
						for _, after := range []string{"end", "queued", "reply", "reuse"} {
							i++
							caseID := fmt.Sprintf("sd-%d", i)
							if rc := k.ReplayCase(); rc != "" && rc != caseID {
								continue
							}
							r := k.Rand(caseID)
							sid := uint32(9000 + i)
							sc := &vfC07Script{CaseID: caseID, Timeout: tm, Sids: []uint32{sid}, Roles: map[string]string{fmt.Sprint(sid): "gated-" + gate + "/" + after},
								Plan: &vfC07Plan{NoDelays: true}}
							g := &vfC07Gen{r: r, sc: sc, tm: tm}
							p := sc.Plan
							sweep := int64(1+r.Intn(3)) * vfC07Sec
							t0 := sweep - tm - lead
							switch gate {
							case "dial":
								p.setB(&p.DialGate, sid, 0)
							case "hook":
								p.setB(&p.HookGate, sid, 0)
							case "hook-rewrite":
								p.setB(&p.HookGate, sid, 0)
								p.setHook(sid, 0, vfC07HookRewrite)
							}
							// bystanders: sessions with sockets, some expiring in the same sweep, some kept
							for o := 0; o < others; o++ {
								osid := uint32(100 + o)
								sc.Sids = append(sc.Sids, osid)
								sc.Roles[fmt.Sprint(osid)] = "bystander"
								g.msg(int64(o)*vfC07Ms, osid, 0, 40, "bystander")
								if o%2 == 0 {
									g.msg(sweep-tm/2, osid, 0, 40, "bystander kept over the sweep")
								}
							}
							g.msg(t0, sid, 0, 64, "first datagram: its "+gate+" is still in flight at the sweep")
							if after == "queued" {
								g.msg(t0+vfC07Ms, sid, 1, 64, "queued behind the dial")
							}
							sc.Steps = append(sc.Steps, vfC07Step{At: sweep, Op: "awaitsweep", Sid: sid, Note: "sweeper meets the in-flight " + gate})
							end := sweep + tm + 2500*vfC07Ms
							switch after {
							case "reply":
								g.op(sweep+10*vfC07Ms, "reply", sid, 48, "remote answers on whatever socket is open")
							case "reuse":
								g.msg(sweep+20*vfC07Ms, sid, 0, 64, "same id again after the sweep")
								g.op(sweep+30*vfC07Ms, "reply", sid, 48, "")
								end = vfC07FirstGridAfter(sweep+20*vfC07Ms+tm) + 2500*vfC07Ms
							}
							if r.Intn(3) == 0 {
								end = sweep + 40*vfC07Ms // connection lost right after
							}
							sc.EndAt = end
							for _, at := range []int64{sweep + 5*vfC07Ms, sweep + 35*vfC07Ms, end} {
								if at <= end {
									sc.Steps = append(sc.Steps, vfC07Step{At: at, Op: "snap"})
								}
							}
							sort.SliceStable(sc.Steps, func(a, b int) bool { return sc.Steps[a].At < sc.Steps[b].At })
							kept := sc.Steps[:0]
							for _, st := range sc.Steps {
								if st.At <= end {
									kept = append(kept, st)
								}
							}
							sc.Steps = kept
							vfC07RunCase(t, k, sc, stackBuf, traces)
						}
					}
				}
			}
		}
	}
	if k.Counter("gate_lock-wait")+k.Counter("gate_closed") == 0 && k.ReplayCase() == "" {
		k.Inconclusive("the sweeper never met an in-flight dial: neither a lock wait nor a close was observed")
	}
}

// TestVerifC07EndSweep: the connection ends while a periodic sweep overlaps Run's final cleanup.
// k sessions are idle for longer than the timeout but not swept yet (the sweep runs once per
// second), m sessions are fresh; the IO ends a few ms before a sweep instant and the first Close
// event of the final cleanup (fake eventLogger.Close, no lock held) sleeps across that instant, so
// the sweeper's cleanup(true) runs in the middle of cleanup(false). Verdict: the end-of-connection
// census (every socket closed exactly once, Count()==0, no goroutine left) plus the race detector.
func TestVerifC07EndSweep(t *testing.T) {
	k := vfNewKit(t, "C07", "udp-endsweep")
	defer k.Finish()
	stackBuf := make([]byte, 4<<20)
	traces := map[string]bool{}
	i := 0
	reps := k.N(1, 8)
	for rep := 0; rep < reps; rep++ {
		for idle := 1; idle <= 8; idle++ {
			for fresh := 1; fresh <= 8; fresh++ {
				for _, variant := range []int{0, 1} {
					i++
					caseID := fmt.Sprintf("es-%d", i)
					if rc := k.ReplayCase(); rc != "" && rc != caseID {
						continue
					}
					r := k.Rand(caseID)
					tm := []int64{300 * vfC07Ms, 500 * vfC07Ms, 100 * vfC07Ms}[r.Intn(3)]
					sweep := int64(2+r.Intn(3)) * vfC07Sec
					before := []int64{vfC07Ms, 5 * vfC07Ms, 12 * vfC07Ms}[r.Intn(3)] // the IO ends this long before the sweep
					sc := &vfC07Script{CaseID: caseID, Timeout: tm, Roles: map[string]string{},
						Plan: &vfC07Plan{NoDelays: true, EndCloseSleep: before + []int64{vfC07Ms, 10 * vfC07Ms, 40 * vfC07Ms}[r.Intn(3)]}}
					g := &vfC07Gen{r: r, sc: sc, tm: tm}
					for n := 0; n < idle+fresh; n++ {
						sid := uint32(20000 + i*32 + n)
						sc.Sids = append(sc.Sids, sid)
						if n < idle {
							// last activity in (sweep-1s-tm, sweep-tm): the previous sweep kept it, this one would expire it
							sc.Roles[fmt.Sprint(sid)] = "idle, not swept yet"
							l := sweep - tm - before - int64(1+r.Intn(int((vfC07Sec-before)/vfC07Ms)-2))*vfC07Ms
							if l < 0 {
								l = 0
							}
							g.msg(l, sid, 0, 40, "goes idle")
							if variant == 1 && n%2 == 0 && l > 0 {
								g.op(l+vfC07Ms, "reply", sid, 40, "")
							}
						} else {
							sc.Roles[fmt.Sprint(sid)] = "fresh"
							g.msg(sweep-before-int64(1+r.Intn(int(tm/vfC07Ms)-15))*vfC07Ms, sid, 0, 40, "fresh at the end")
							if variant == 1 && n%2 == 0 {
								g.frags(sid, 0, 200, []int64{sweep - before - vfC07Ms, -1}, "incomplete, fresh")
							}
						}
					}
					sc.EndAt = sweep - before
					sc.Steps = append(sc.Steps, vfC07Step{At: sc.EndAt, Op: "snap"})
					sort.SliceStable(sc.Steps, func(a, b int) bool { return sc.Steps[a].At < sc.Steps[b].At })
					vfC07RunCase(t, k, sc, stackBuf, traces)
				}
			}
		}
	}
	if k.Counter("ev_closes_by_sweeper_during_final_cleanup") == 0 && k.ReplayCase() == "" {
		k.Inconclusive("no periodic sweep ever overlapped the final cleanup")
	}
}

// TestVerifC07WriteGate: a session is torn down while the receive loop is still inside the
// socket write of one of its datagrams. The fake WriteTo of that datagram is gated: the datagram
// is handed to the open socket, the call returns (successfully) only when the driver opens the
// gate. Meanwhile the session dies -- socket read error, failure to send a reply to the client, or
// the sweeper (the idle timeout passes during the write). Then the gate opens and the client keeps
// sending with the same ID, with and without datagrams of other sessions in between. Whatever
// happened in the window, the later datagrams must start a fresh session on a new socket: never a
// write to the old closed socket, table equals the sessions alive by the log, census at the end.
func TestVerifC07WriteGate(t *testing.T) {
	k := vfNewKit(t, "C07", "udp-writegate")
	defer k.Finish()
	stackBuf := make([]byte, 4<<20)
	traces := map[string]bool{}
	i := 0
	reps := k.N(1, 6)
	for rep := 0; rep < reps; rep++ {
		for _, tm := range []int64{100 * vfC07Ms, 300 * vfC07Ms} {
			for _, teardown := range []string{"readerr", "sendfail", "sweep"} {
				for _, gatedWrite := range []int{0, 1} { // which write of the session is slow
					for _, follow := range []int{1, 2, 3} {
						for _, between := range []string{"none", "other-after-first", "other-before-first"} {
							for _, others := range []int{0, 2} {
								i++
								caseID := fmt.Sprintf("wg-%d", i)
								if rc := k.ReplayCase(); rc != "" && rc != caseID {
									continue
								}
								r := k.Rand(caseID)
								sid, osid := uint32(30000+i), uint32(50000+i)
								sc := &vfC07Script{CaseID: caseID, Timeout: tm, Sids: []uint32{sid, osid},
									Roles: map[string]string{fmt.Sprint(sid): "write gated, torn down by " + teardown, fmt.Sprint(osid): "other session"},
									Plan:  &vfC07Plan{NoDelays: r.Intn(2) == 0, DelaySeed: r.Uint64()}}
								g := &vfC07Gen{r: r, sc: sc, tm: tm}
								p := sc.Plan
								p.setB(&p.WriteGate, sid, gatedWrite)
								for o := 0; o < others; o++ {
									bs := uint32(100 + o)
									sc.Sids = append(sc.Sids, bs)
									sc.Roles[fmt.Sprint(bs)] = "bystander"
									g.msg(int64(o)*vfC07Ms, bs, 0, 40, "bystander")
								}
								t0 := int64(r.Intn(900))*vfC07Ms + vfC07Ms
								if gatedWrite == 1 {
									g.msg(t0, sid, 0, 64, "opens the session")
									t0 += g.pick(vfC07Ms, tm/2)
								}
								g.msg(t0, sid, 0, 64, "its socket write is slow (gated)")
								var open int64
								switch teardown {
								case "readerr":
									g.op(t0+2*vfC07Ms, "readerr", sid, 0, "socket read error while the write is in flight")
									open = t0 + 5*vfC07Ms
								case "sendfail":
									p.setB(&p.SendFail, sid, 0)
									g.op(t0+2*vfC07Ms, "reply", sid, 48, "reply whose delivery to the client fails, while the write is in flight")
									open = t0 + 5*vfC07Ms
								case "sweep":
									open = vfC07FirstGridAfter(t0+tm) + g.pick(vfC07Ms, 30*vfC07Ms) // the sweeper expires it during the write
								}
								sc.Steps = append(sc.Steps, vfC07Step{At: open, Op: "opengate", Sid: sid, Note: "the slow write returns"})
								t1 := open + g.pick(25*vfC07Ms, 40*vfC07Ms)
								if between == "other-before-first" {
									g.msg(t1-vfC07Ms, osid, 0, 40, "another session in between")
								}
								for f := 0; f < follow; f++ {
									g.msg(t1, sid, f%2, 64, "same id again after the teardown")
									if f == 0 && between == "other-after-first" {
										g.msg(t1+vfC07Ms, osid, 0, 40, "another session in between")
									}
									if f == follow-1 {
										g.op(t1+3*vfC07Ms, "reply", sid, 40, "reply on the new socket")
									}
									t1 += g.pick(2*vfC07Ms, 10*vfC07Ms, tm/2)
								}
								sc.EndAt = vfC07FirstGridAfter(t1+tm) + 1500*vfC07Ms
								if r.Intn(3) == 0 {
									sc.EndAt = t1 + 5*vfC07Ms
								}
								for _, at := range []int64{open + 20*vfC07Ms, t1 + 4*vfC07Ms, sc.EndAt} {
									if at <= sc.EndAt {
										sc.Steps = append(sc.Steps, vfC07Step{At: at, Op: "snap"})
									}
								}
								sort.SliceStable(sc.Steps, func(a, b int) bool { return sc.Steps[a].At < sc.Steps[b].At })
								kept := sc.Steps[:0]
								for _, st := range sc.Steps {
									if st.At <= sc.EndAt {
										kept = append(kept, st)
									}
								}
								sc.Steps = kept
								vfC07RunCase(t, k, sc, stackBuf, traces)
							}
						}
					}
				}
			}
		}
	}
}

// TestVerifC07BufReuse: a session is closed from OUTSIDE its reply loop (by the sweeper) exactly
// while that loop sits between a completed socket read and the hand-over of the reply to the
// client; then new sessions are created (1, 3 or 140 of them -- more than any plausible pool of
// recycled resources holds) and each reads a reply of its own; finally the stalled loop continues.
// The stall is a gate in the fakes: either SendMessage parks at entry, before it looks at the
// message, or ReadFrom parks after it copied the packet into the caller's buffer.
// Oracle (vfC07CheckCommon, nothing new): every reply datagram the client-side IO sees carries
// the session ID of the socket that produced exactly those bytes (reply payloads are unique per
// socket) -- never another session's bytes, never another session's ID. The C07 job runs under the
// race detector: a buffer used by two sessions' goroutines is also a data race in udp.go.
func TestVerifC07BufReuse(t *testing.T) {
	k := vfNewKit(t, "C07", "udp-bufreuse")
	defer k.Finish()
	stackBuf := make([]byte, 4<<20)
	traces := map[string]bool{}
	i := 0
	reps := k.N(1, 4)
	for rep := 0; rep < reps; rep++ {
		for _, gate := range []string{"send", "read"} {
			for _, tm := range []int64{100 * vfC07Ms, 300 * vfC07Ms} {
				for _, fresh := range []int{1, 3, 140} {
					for _, stalled := range []int{1, 3} { // how many sessions are caught in the window
						i++
						caseID := fmt.Sprintf("br-%d", i)
						if rc := k.ReplayCase(); rc != "" && rc != caseID {
							continue
						}
						r := k.Rand(caseID)
						sc := &vfC07Script{CaseID: caseID, Timeout: tm, Roles: map[string]string{}, Plan: &vfC07Plan{NoDelays: true}}
						g := &vfC07Gen{r: r, sc: sc, tm: tm}
						p := sc.Plan
						t0 := int64(100+r.Intn(600)) * vfC07Ms
						var stalledSids []uint32
						for a := 0; a < stalled; a++ {
							sid := uint32(60000 + i*8 + a)
							stalledSids = append(stalledSids, sid)
							sc.Sids = append(sc.Sids, sid)
							sc.Roles[fmt.Sprint(sid)] = "reply loop stalled at the " + gate + " gate, closed by the sweeper meanwhile"
							g.msg(t0, sid, 0, 64, "opens the session")
							g.op(t0+5*vfC07Ms, "reply", sid, 200+a, "first reply, passes")
							// the second reply is the one in hand when the session is closed
							if gate == "send" {
								p.setB(&p.SendGate, sid, 1)
							} else {
								p.setB(&p.ReadGate, sid, 1)
							}
							g.op(t0+10*vfC07Ms, "reply", sid, 300+a, "reply in hand while the session is closed")
						}
						// the sweeper closes the stalled sessions at the first sweep after their idle timeout
						closed := vfC07FirstGridAfter(t0+10*vfC07Ms+tm) + vfC07Grid
						t1 := closed + 10*vfC07Ms
						for f := 0; f < fresh; f++ {
							sid := uint32(70000 + i*256 + f)
							sc.Sids = append(sc.Sids, sid)
							g.msg(t1, sid, 0, 40, "new session after the close")
							g.op(t1+2*vfC07Ms, "reply", sid, 100+f%50, "new session reads a reply of its own")
						}
						open := t1 + 10*vfC07Ms
						for _, sid := range stalledSids {
							sc.Steps = append(sc.Steps, vfC07Step{At: open, Op: "opengate", Sid: sid, Note: "the stalled reply loop continues"})
						}
						for f := 0; f < fresh && f < 5; f++ {
							g.op(open+5*vfC07Ms, "reply", uint32(70000+i*256+f), 60+f, "new sessions keep talking")
						}
						sc.EndAt = open + 20*vfC07Ms
						if r.Intn(2) == 0 {
							sc.EndAt = vfC07FirstGridAfter(open+tm) + 1200*vfC07Ms
						}
						sc.Steps = append(sc.Steps, vfC07Step{At: sc.EndAt, Op: "snap"})
						sort.SliceStable(sc.Steps, func(a, b int) bool { return sc.Steps[a].At < sc.Steps[b].At })
						vfC07RunCase(t, k, sc, stackBuf, traces)
					}
				}
			}
		}
	}
	if k.Counter("ev_replies_handed_over_after_session_close") == 0 && k.ReplayCase() == "" {
		k.Inconclusive("no reply loop was ever stalled across the close of its session")
	}
}

// ---- real udpIOImpl between the session manager and the fakes

// vfC07RealIO is the udpIO handed to the session manager in TestVerifC07RealIO: datagrams come
// from / go to the fake world, but Hook, UDP and CheckUDP are the REAL udpIOImpl methods of
// server.go, configured with an Outbound and a RequestHook that end in the fake world.
type vfC07RealIO struct {
	w    *vfC07World
	impl *udpIOImpl
}

func (r *vfC07RealIO) ReceiveMessage() (*protocol.UDPMessage, error) { return r.w.ReceiveMessage() }
func (r *vfC07RealIO) SendMessage(b []byte, m *protocol.UDPMessage) error {
	return r.w.SendMessage(b, m)
}
func (r *vfC07RealIO) Hook(data []byte, reqAddr *string) error { return r.impl.Hook(data, reqAddr) }
func (r *vfC07RealIO) UDP(reqAddr string) (UDPConn, error)     { return r.impl.UDP(reqAddr) }
func (r *vfC07RealIO) CheckUDP(reqAddr string) error           { return r.impl.CheckUDP(reqAddr) }

type vfC07Outbound struct{ w *vfC07World }

func (o *vfC07Outbound) TCP(reqAddr string) (net.Conn, error) {
	return nil, errors.New("vf: tcp not used")
}
func (o *vfC07Outbound) UDP(reqAddr string) (UDPConn, error) { return o.w.UDP(reqAddr) }
func (o *vfC07Outbound) CheckUDP(reqAddr string) error       { return o.w.CheckUDP(reqAddr) }

type vfC07ReqHook struct{ w *vfC07World }

func (h *vfC07ReqHook) Check(isUDP bool, reqAddr string) bool { return isUDP }
func (h *vfC07ReqHook) TCP(stream HyStream, reqAddr *string) ([]byte, error) {
	return nil, errors.New("vf: tcp not used")
}
func (h *vfC07ReqHook) UDP(data []byte, reqAddr *string) error { return h.w.Hook(data, reqAddr) }

func vfC07WrapReal(w *vfC07World) udpIO {
	return &vfC07RealIO{w: w, impl: &udpIOImpl{AuthID: "vf", RequestHook: &vfC07ReqHook{w}, Outbound: &vfC07Outbound{w}}}
}

// TestVerifC07RealIO: outbound dials that take a long time on the virtual clock (1 s, 9.999 s,
// 10 s, 10.001 s, 12 s, 40 s) and then succeed or fail, through the real udpIOImpl.UDP. The
// idle timeout is 2 min, so the sweeper never wants the lock the dial is made under. Whatever the
// implementation does with a slow dial, at the end every socket the outbound EVER returned must
// have been closed exactly once (socket census), plus all the other oracles.
func TestVerifC07RealIO(t *testing.T) {
	k := vfNewKit(t, "C07", "udp-realio")
	defer k.Finish()
	stackBuf := make([]byte, 4<<20)
	traces := map[string]bool{}
	i := 0
	tm := 120 * vfC07Sec
	for _, dial := range []int64{0, vfC07Sec, 9999 * vfC07Ms, 10 * vfC07Sec, 10001 * vfC07Ms, 12 * vfC07Sec, 40 * vfC07Sec} {
		for _, ok := range []bool{true, false} {
			for _, after := range []string{"end-soon", "more", "drain"} {
				for _, others := range []int{0, 2} {
					i++
					caseID := fmt.Sprintf("rio-%d", i)
					if rc := k.ReplayCase(); rc != "" && rc != caseID {
						continue
					}
					r := k.Rand(caseID)
					sid := uint32(80000 + i)
					sc := &vfC07Script{CaseID: caseID, Timeout: tm, Sids: []uint32{sid}, Roles: map[string]string{fmt.Sprint(sid): fmt.Sprintf("dial takes %v, ok=%v", time.Duration(dial), ok)},
						Plan: &vfC07Plan{NoDelays: true, WrapIO: vfC07WrapReal}}
					g := &vfC07Gen{r: r, sc: sc, tm: tm}
					p := sc.Plan
					if p.DialSleep == nil {
						p.DialSleep = map[uint32]map[int]int64{}
					}
					p.DialSleep[sid] = map[int]int64{0: dial}
					if !ok {
						p.setB(&p.DialFail, sid, 0)
					}
					if r.Intn(3) == 0 {
						p.setHook(sid, 0, vfC07HookRewrite)
					}
					for o := 0; o < others; o++ {
						bs := uint32(100 + o)
						sc.Sids = append(sc.Sids, bs)
						g.msg(int64(o)*vfC07Ms, bs, 0, 40, "bystander")
						g.msg(t0RealIO+dial/2, bs, 1, 40, "bystander datagram queued behind the slow dial")
					}
					g.msg(t0RealIO, sid, 0, 64, "first datagram: slow outbound dial")
					t1 := t0RealIO + dial + 50*vfC07Ms
					switch after {
					case "more":
						g.msg(t1, sid, 0, 64, "same id after the dial")
						g.op(t1+5*vfC07Ms, "reply", sid, 48, "")
						g.msg(t1+vfC07Sec, sid, 1, 64, "")
						t1 += vfC07Sec
					case "drain":
						g.op(t1, "reply", sid, 48, "")
						t1 = vfC07FirstGridAfter(t1+tm) + 1500*vfC07Ms
					}
					sc.EndAt = t1 + 100*vfC07Ms
					for _, at := range []int64{t0RealIO + dial + 20*vfC07Ms, sc.EndAt} {
						sc.Steps = append(sc.Steps, vfC07Step{At: at, Op: "snap"})
					}
					sort.SliceStable(sc.Steps, func(a, b int) bool { return sc.Steps[a].At < sc.Steps[b].At })
					vfC07RunCase(t, k, sc, stackBuf, traces)
				}
			}
		}
	}
	// ordinary timelines through the real udpIOImpl as well (no slow dials)
	n := k.N(40, 600)
	for j := 0; j < n; j++ {
		caseID := fmt.Sprintf("riotl-%d", j)
		if rc := k.ReplayCase(); rc != "" && rc != caseID {
			continue
		}
		sc := vfC07GenScript(k.Rand(caseID), caseID, "")
		sc.Plan.WrapIO = vfC07WrapReal
		vfC07RunCase(t, k, sc, stackBuf, traces)
	}
}

const t0RealIO = 500 * int64(time.Millisecond)

// TestVerifC07FragInterleave: fragmented client->server messages of several sessions arrive
// interleaved fragment by fragment, with packet IDs (and fragment counts) deliberately EQUAL across
// the sessions, some messages left incomplete, sessions with and without an open socket. For two
// sessions x two fragments every arrival order of every subset (>= 2) of the four fragments is
// played; larger shapes are shuffled. Oracles (vfC07CheckCommon): whatever a session's socket
// writes is, byte for byte, a message of THAT session; a socket is opened only for a session that
// has completely sent a message.
func TestVerifC07FragInterleave(t *testing.T) {
	k := vfNewKit(t, "C07", "udp-fraginterleave")
	defer k.Finish()
	stackBuf := make([]byte, 4<<20)
	traces := map[string]bool{}
	type piece struct{ s, f int }
	caseNo := 0
	run := func(nsess, nfrag int, order []piece, preopen int, gapMs int64) {
		caseNo++
		caseID := fmt.Sprintf("fi-%d", caseNo)
		if rc := k.ReplayCase(); rc != "" && rc != caseID {
			return
		}
		sc := &vfC07Script{CaseID: caseID, Timeout: 2 * vfC07Sec, Roles: map[string]string{}, Plan: &vfC07Plan{NoDelays: true}}
		g := &vfC07Gen{r: k.Rand(caseID), sc: sc, tm: sc.Timeout}
		pkt := uint16(7 + caseNo%3)
		at := 100 * vfC07Ms
		nos := make([]int, nsess)
		for s := 0; s < nsess; s++ {
			sid := uint32(90000 + caseNo*8 + s)
			sc.Sids = append(sc.Sids, sid)
			sc.Roles[fmt.Sprint(sid)] = fmt.Sprintf("fragments of packet %d/%d interleaved with the other sessions'", pkt, nfrag)
			if preopen>>s&1 == 1 {
				g.msg(at-50*vfC07Ms, sid, 0, 40, "opens the session beforehand")
			}
			g.msgNo++
			nos[s] = g.msgNo
		}
		for _, p := range order {
			sc.Steps = append(sc.Steps, vfC07Step{At: at, Op: "msg", Sid: sc.Sids[p.s], No: nos[p.s], Dst: 1, Port: 1001, Len: 120 + 37*p.s + 8*nfrag,
				Pkt: pkt, FragID: p.f, FragCount: nfrag, Note: "same packet id and fragment count in every session"})
			at += gapMs * vfC07Ms
		}
		// afterwards every session sends an ordinary message and gets a reply
		for s, sid := range sc.Sids {
			g.msg(at+int64(10+s)*vfC07Ms, sid, 0, 48, "ordinary message afterwards")
			g.op(at+int64(20+s)*vfC07Ms, "reply", sid, 40, "")
		}
		sc.EndAt = at + 100*vfC07Ms
		sc.Steps = append(sc.Steps, vfC07Step{At: at + 5*vfC07Ms, Op: "snap"}, vfC07Step{At: sc.EndAt, Op: "snap"})
		sort.SliceStable(sc.Steps, func(a, b int) bool { return sc.Steps[a].At < sc.Steps[b].At })
		vfC07RunCase(t, k, sc, stackBuf, traces)
	}
	// 2 sessions x 2 fragments: every order of every subset (>= 2, incl. incomplete ones) of the 4 fragments
	var exhaustive [][]piece
	var rec func(chosen, rest []piece)
	rec = func(chosen, rest []piece) {
		if len(chosen) >= 2 {
			exhaustive = append(exhaustive, append([]piece(nil), chosen...))
		}
		for i := range rest {
			nr := append(append([]piece(nil), rest[:i]...), rest[i+1:]...)
			rec(append(append([]piece(nil), chosen...), rest[i]), nr)
		}
	}
	rec(nil, []piece{{0, 0}, {0, 1}, {1, 0}, {1, 1}})
	for i, o := range exhaustive {
		run(2, 2, o, i%4, int64(i%2))
	}
	// larger shapes, shuffled, with drops
	r := k.Rand("shapes")
	n := k.N(60, 1500)
	for i := 0; i < n; i++ {
		nsess, nfrag := 2+r.Intn(3), 2+r.Intn(3)
		var o []piece
		for s := 0; s < nsess; s++ {
			for f := 0; f < nfrag; f++ {
				if r.Intn(6) > 0 {
					o = append(o, piece{s, f})
				}
			}
		}
		switch r.Intn(3) {
		case 0:
			r.Shuffle(len(o), func(a, b int) { o[a], o[b] = o[b], o[a] })
		case 1: // round robin by fragment index
			sort.SliceStable(o, func(a, b int) bool { return o[a].f < o[b].f })
		case 2: // the first session's later fragments arrive after everything of the others
			late := func(p piece) bool { return p.s == 0 && p.f > 0 }
			sort.SliceStable(o, func(a, b int) bool { return !late(o[a]) && late(o[b]) })
		}
		run(nsess, nfrag, o, r.Intn(1<<nsess), int64(r.Intn(3)))
	}
}
