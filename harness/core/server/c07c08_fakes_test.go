//go:build verif

package server

// Shared fakes and oracles for C07 (UDP session isolation / idle expiry / no leaks) and
// C08 (every UDP destination passes the outbound policy).
//
// One vfC07World per timeline, living inside one testing/synctest bubble, plays every
// collaborator of the real udpSessionManager:
//   udpIO            scripted ReceiveMessage, recording SendMessage, Hook, UDP() dial with
//                    scripted failures / scheduler yields / policy, CheckUDP (policy)
//   UDPConn          vfC07Sock: records WriteTo, scripted ReadFrom replies / errors, counts Close
//   udpEventLogger   records New / Close
// Every callback appends to ONE totally ordered event log (world mutex) stamped with the
// bubble's virtual time, *before* it returns anything to the code under test.
//
// Identification (every effect names its cause):
//   message payload  "M<no>|S<sid>|..."   (no = harness message number)
//   reply payload    "R<no>|K<sock>|..."
//   destination      "d<idx>.s<sid>.vf:<port>" ; rewritten by the hook: "rw<n>.s<sid>.vf:<port>"
// so a socket knows (from its dial address) for which session ID it was opened.

import (
	"bytes"
	"encoding/binary"
	"errors"
	"fmt"
	"hash/fnv"
	"regexp"
	"runtime"
	"sort"
	"strconv"
	"strings"
	"sync"
	"testing"
	"testing/synctest"
	"time"

	"github.com/apernet/quic-go"

	"github.com/apernet/hysteria/core/v2/internal/protocol"
)

// ---------------------------------------------------------------------------- events

type vfC07Ev struct {
	Seq  int    `json:"seq"`
	T    int64  `json:"t_ns"`         // virtual time since the world started
	Kind string `json:"kind"`         // push recv hook new dial check write inject read send sockclose xclose ioend snap runret
	Ph   int    `json:"ph,omitempty"` // 1 = call entered, 2 = call about to return (calls that may sleep)
	Sid  uint32 `json:"sid"`
	Sock int    `json:"sock,omitempty"`
	No   int    `json:"no,omitempty"` // message / reply number (-1: unknown)
	Addr string `json:"addr,omitempty"`
	Err  string `json:"err,omitempty"`
	Aux  int64  `json:"aux,omitempty"`
}

// vfC07Err is the only error type the fakes hand to the code under test; it names its cause.
type vfC07Err struct {
	Kind string // dial-fail policy-deny hook-fail read-err sock-closed send-fail write-fail io-end
	Sid  uint32
	Sock int
	N    int
}

func (e *vfC07Err) Error() string {
	return fmt.Sprintf("vf-%s(sid=%d,sock=%d,n=%d)", e.Kind, e.Sid, e.Sock, e.N)
}

// ---------------------------------------------------------------------------- tags

func vfC07Payload(no int, sid uint32, n int) []byte {
	h := fmt.Sprintf("M%07d|S%010d|", no, sid)
	if n < len(h) {
		n = len(h)
	}
	b := make([]byte, n)
	copy(b, h)
	var w [8]byte
	for off := len(h); off < n; off += 8 {
		binary.BigEndian.PutUint32(w[:4], uint32(no)*2654435761)
		binary.BigEndian.PutUint32(w[4:], uint32(off))
		copy(b[off:], w[:])
	}
	return b
}

func vfC07ReplyPayload(no int, sock int, n int) []byte {
	h := fmt.Sprintf("R%07d|K%05d|", no, sock)
	if n < len(h) {
		n = len(h)
	}
	b := make([]byte, n)
	copy(b, h)
	for off := len(h); off < n; off++ {
		b[off] = byte(no*31 + off)
	}
	return b
}

// vfC07TagNo parses "<letter><7 digits>|" at the start of a payload.
func vfC07TagNo(b []byte, letter byte) int {
	if len(b) < 9 || b[0] != letter || b[8] != '|' {
		return -1
	}
	n, err := strconv.Atoi(string(b[1:8]))
	if err != nil {
		return -1
	}
	return n
}

func vfC07Addr(dst int, sid uint32, port int) string {
	return fmt.Sprintf("d%d.s%d.vf:%d", dst, sid, port)
}

// vfC07SidOfAddr finds the "s<digits>" label of a harness address.
func vfC07SidOfAddr(addr string) (uint32, bool) {
	host := addr
	if i := strings.LastIndexByte(addr, ':'); i >= 0 {
		host = addr[:i]
	}
	for _, l := range strings.Split(host, ".") {
		if len(l) >= 2 && l[0] == 's' {
			if v, err := strconv.ParseUint(l[1:], 10, 32); err == nil {
				return uint32(v), true
			}
		}
	}
	return 0, false
}

// ---------------------------------------------------------------------------- plan

const (
	vfC07HookNone    = 0
	vfC07HookRewrite = 1
	vfC07HookFail    = 2
)

// vfC07Plan scripts the faults and the delays of the fakes. Virtual sleeps are placed in
// eventLogger.Close (no lock of the code under test is held there); Hook, UDP() and socket Close
// run under the session's connLock and only yield (see vfC07Yield). Keys are (session ID, n-th
// call for that ID), so that the plan does not depend on cross-goroutine call order.
type vfC07Plan struct {
	DialFail  map[uint32]map[int]bool `json:"dial_fail,omitempty"`
	HookMode  map[uint32]map[int]int  `json:"hook_mode,omitempty"`
	SendFail  map[uint32]map[int]bool `json:"send_fail,omitempty"`
	WriteFail map[uint32]map[int]bool `json:"write_fail,omitempty"`
	SlowClose map[uint32]bool         `json:"slow_close,omitempty"` // eventLogger.Close(sid) always sleeps 20 ms
	SlowDial  map[uint32]bool         `json:"slow_dial,omitempty"`  // UDP() for sid always yields 50 times
	// Gates: the n-th UDP() dial / Hook call for sid blocks (durably, on the world's cond) until the
	// driver opens the gate of that session: a dial / hook that takes as long as the harness wants
	// without any sleep (see vfC07World.AwaitSweepThenOpen).
	DialGate  map[uint32]map[int]bool `json:"dial_gate,omitempty"`
	WriteGate map[uint32]map[int]bool `json:"write_gate,omitempty"` // n-th WriteTo of sid's sockets (if it succeeds)
	// SendGate: the n-th SendMessage call stamped with session sid parks at ENTRY, before the fake
	// looks at the message (a slow traffic logger / a descheduled goroutine): the reply loop then
	// sits between a completed socket read and the hand-over to the client.
	// ReadGate: the n-th successful read on sid's sockets has copied the packet into the caller's
	// buffer and parks before returning (and before it is logged as activity).
	SendGate map[uint32]map[int]bool `json:"send_gate,omitempty"`
	ReadGate map[uint32]map[int]bool `json:"read_gate,omitempty"`
	// DialSleep: the n-th UDP() dial for sid takes this long on the VIRTUAL clock. Only usable when
	// nobody can want the session's connLock meanwhile (idle timeout longer than the dial).
	DialSleep map[uint32]map[int]int64 `json:"dial_sleep_ns,omitempty"`
	// WrapIO lets a part put real code of the package between the session manager and the fakes.
	WrapIO   func(w *vfC07World) udpIO `json:"-"`
	HookGate map[uint32]map[int]bool   `json:"hook_gate,omitempty"`
	// EndCloseSleep: the first eventLogger.Close called after the IO ended (i.e. by Run's final
	// cleanup) sleeps this long (virtual; no lock is held there), so that a sweep instant can fall
	// into the middle of the final cleanup.
	EndCloseSleep int64  `json:"end_close_sleep_ns,omitempty"`
	SendLimit     int    `json:"send_limit,omitempty"` // >0: SendMessage reports DatagramTooLarge above this size
	DelaySeed     uint64 `json:"delay_seed"`
	NoDelays      bool   `json:"no_delays,omitempty"`
	// Policy: nil = allow everything. Must be a pure function of the destination string.
	Policy func(addr string) bool `json:"-"`
}

func (p *vfC07Plan) setB(m *map[uint32]map[int]bool, sid uint32, n int) {
	if *m == nil {
		*m = map[uint32]map[int]bool{}
	}
	if (*m)[sid] == nil {
		(*m)[sid] = map[int]bool{}
	}
	(*m)[sid][n] = true
}

func (p *vfC07Plan) setHook(sid uint32, n int, mode int) {
	if p.HookMode == nil {
		p.HookMode = map[uint32]map[int]int{}
	}
	if p.HookMode[sid] == nil {
		p.HookMode[sid] = map[int]int{}
	}
	p.HookMode[sid][n] = mode
}

var (
	vfC07DelaysSockClose = []time.Duration{0, 0, time.Millisecond, 3 * time.Millisecond, 7 * time.Millisecond, 15 * time.Millisecond}
	vfC07DelaysXClose    = []time.Duration{0, 0, time.Millisecond, 5 * time.Millisecond, 20 * time.Millisecond}
	vfC07DelaysDial      = []time.Duration{0, 0, time.Millisecond, 10 * time.Millisecond, 50 * time.Millisecond}
	vfC07DelaysHook      = []time.Duration{0, 0, 2 * time.Millisecond, 20 * time.Millisecond}
)

// ---------------------------------------------------------------------------- world

type vfC07Msg struct {
	No        int
	Sid       uint32
	Addr      string
	Len       int
	FragCount int
	// Addrs: set when the fragments of this message do not all carry the same address (hostile
	// client). The datagram may then only go to an address that one of its fragments named.
	Addrs []string
	// Undeliverable: a fragment set that can never complete (e.g. FragID >= FragCount).
	Undeliverable bool
}

func (m *vfC07Msg) names(addr string) bool {
	if addr == m.Addr {
		return true
	}
	for _, a := range m.Addrs {
		if a == addr {
			return true
		}
	}
	return false
}

type vfC07Reply struct {
	No   int
	Sock int
	Sid  uint32
	From string
	Len  int
}

type vfC07Write struct {
	Seq    int
	T      int64
	Sock   int
	No     int
	Addr   string
	Data   []byte
	Closed bool // the socket was already closed when the write arrived
	Failed bool // scripted write failure
}

type vfC07Send struct {
	Seq  int
	T    int64
	Sid  uint32 // SessionID stamped by the code under test
	Addr string
	Data []byte // reassembled
}

type vfC07Snap struct {
	Seq   int
	T     int64
	Count int
	Keys  []uint32
	Open  [][2]int64 // (sock, sid) of sockets not closed
	Final bool
}

type vfC07Sleep struct{ From, To int64 }

type vfC07InboxItem struct {
	m  *protocol.UDPMessage
	no int
}

type vfC07ReadItem struct {
	no   int
	data []byte
	from string
	err  error
}

type vfC07World struct {
	mu    sync.Mutex
	cond  *sync.Cond
	start time.Time
	plan  *vfC07Plan

	evs      []vfC07Ev
	inbox    []vfC07InboxItem
	ioErr    error
	feedIdle bool
	inflight int
	nth      map[string]int

	socks   []*vfC07Sock
	msgs    map[int]*vfC07Msg
	replies map[int]*vfC07Reply
	writes  []vfC07Write
	sends   []vfC07Send
	snaps   []vfC07Snap
	sleeps  []vfC07Sleep
	hookNo  int
	replyNo int
	checks  int64
	// reassembly of fragmented replies: (sid<<16|pid) -> parts
	parts map[uint64][][]byte

	frozen bool
	lastT  int64

	ioEnded       bool // ReceiveMessage has returned the IO error
	endSleepDone  bool
	origOf        map[string]string // rewritten destination -> destination the hook saw
	lastHookSid   uint32
	lastHookValid bool
	gateOpen      map[uint32]bool
	gateSeq       map[uint32]int // log position at which a gated call of sid started waiting
	gateOutcome   map[string]int

	runStart    int64 // virtual time at which Run() was started
	runRet      bool
	runErr      error
	leftovers   []string // goroutines of the bubble still alive after the end
	bubblePanic string
	snapSkipped int
}

func vfC07NewWorld(plan *vfC07Plan) *vfC07World {
	w := &vfC07World{
		start: time.Now(), plan: plan,
		nth: map[string]int{}, msgs: map[int]*vfC07Msg{}, replies: map[int]*vfC07Reply{},
		parts: map[uint64][][]byte{}, gateOpen: map[uint32]bool{}, origOf: map[string]string{}, gateSeq: map[uint32]int{}, gateOutcome: map[string]int{},
	}
	w.cond = sync.NewCond(&w.mu)
	return w
}

func (w *vfC07World) now() int64 { return int64(time.Since(w.start)) }

// add appends to the log; caller holds w.mu. After the harness has frozen the world (teardown
// of a timeline whose verdict is already recorded) nothing is logged any more.
func (w *vfC07World) add(e vfC07Ev) int {
	e.Seq = len(w.evs)
	e.T = w.now()
	w.lastT = e.T
	if w.frozen {
		return e.Seq
	}
	w.evs = append(w.evs, e)
	return e.Seq
}

// next returns how many times (kind,key) was seen before; caller holds w.mu.
func (w *vfC07World) next(kind string, key uint32) int {
	k := kind + "/" + strconv.FormatUint(uint64(key), 10)
	n := w.nth[k]
	w.nth[k] = n + 1
	return n
}

func (w *vfC07World) delay(kind string, key uint32, n int, choices []time.Duration) time.Duration {
	if w.plan.NoDelays {
		return 0
	}
	h := fnv.New64a()
	fmt.Fprintf(h, "%d/%s/%d/%d", w.plan.DelaySeed, kind, key, n)
	return choices[h.Sum64()%uint64(len(choices))]
}

// vfC07Yield is the "delay" used by callbacks that the code under test invokes while holding a
// session's connLock (Hook, UDP() dial, socket Close). A virtual sleep is impossible there: a bubble
// goroutine waiting for a sync.Mutex is not durably blocked, so if the sweeper (or the reply loop)
// wants that connLock while its holder sleeps, virtual time can never advance and the bubble hangs
// for real. Yielding d/1ms times to the scheduler widens the window for real interleavings without
// touching the clock.
func vfC07Yield(d time.Duration) {
	for i := 0; i < int(d/time.Millisecond); i++ {
		runtime.Gosched()
	}
}

// sleep performs a virtual sleep inside a fake callback (w.mu NOT held). Only used where the
// code under test holds no lock: eventLogger.Close, which runs between closed=true and the
// removal from the session table.
func (w *vfC07World) sleep(d time.Duration) {
	if d <= 0 {
		return
	}
	w.mu.Lock()
	t := w.now()
	w.sleeps = append(w.sleeps, vfC07Sleep{t, t + int64(d)})
	w.mu.Unlock()
	time.Sleep(d)
}

func (w *vfC07World) allowed(addr string) bool {
	return w.plan.Policy == nil || w.plan.Policy(addr)
}

// ---- udpIO

func (w *vfC07World) ReceiveMessage() (*protocol.UDPMessage, error) {
	w.mu.Lock()
	defer w.mu.Unlock()
	for len(w.inbox) == 0 && w.ioErr == nil {
		w.feedIdle = true
		w.cond.Wait()
	}
	w.feedIdle = false
	if len(w.inbox) > 0 {
		it := w.inbox[0]
		w.inbox[0] = vfC07InboxItem{}
		w.inbox = w.inbox[1:]
		w.add(vfC07Ev{Kind: "recv", Sid: it.m.SessionID, No: it.no, Addr: it.m.Addr, Aux: int64(it.m.FragID)<<8 | int64(it.m.FragCount)})
		return it.m, nil
	}
	w.add(vfC07Ev{Kind: "ioend", Err: w.ioErr.Error()})
	w.ioEnded = true
	return nil, w.ioErr
}

func (w *vfC07World) SendMessage(buf []byte, msg *protocol.UDPMessage) error {
	w.mu.Lock()
	defer w.mu.Unlock()
	if gn := w.next("sendgate", msg.SessionID); w.plan.SendGate[msg.SessionID][gn] {
		seq := w.add(vfC07Ev{Kind: "sgate", Ph: 1, Sid: msg.SessionID})
		w.inflight++
		w.waitGate(true, msg.SessionID, seq)
		w.inflight--
	}
	if lim := w.plan.SendLimit; lim > 0 && msg.Size() > lim {
		w.add(vfC07Ev{Kind: "send", Sid: msg.SessionID, No: -1, Addr: msg.Addr, Err: "too-large", Aux: int64(msg.Size())})
		return &quic.DatagramTooLargeError{MaxDatagramPayloadSize: int64(lim)}
	}
	data := append([]byte(nil), msg.Data...)
	if msg.FragCount > 1 {
		key := uint64(msg.SessionID)<<16 | uint64(msg.PacketID)
		ps := w.parts[key]
		if ps == nil {
			ps = make([][]byte, msg.FragCount)
		}
		if int(msg.FragID) < len(ps) {
			ps[msg.FragID] = data
		}
		w.parts[key] = ps
		for _, p := range ps {
			if p == nil {
				w.add(vfC07Ev{Kind: "send", Sid: msg.SessionID, No: -1, Addr: msg.Addr, Err: "fragment", Aux: int64(msg.FragID)})
				return nil
			}
		}
		delete(w.parts, key)
		data = bytes.Join(ps, nil)
	}
	no := vfC07TagNo(data, 'R')
	var sid uint32
	if r := w.replies[no]; r != nil {
		sid = r.Sid
	}
	n := w.next("send", sid)
	fail := w.plan.SendFail[sid][n] && w.replies[no] != nil
	e := vfC07Ev{Kind: "send", Sid: msg.SessionID, No: no, Addr: msg.Addr, Aux: int64(len(data))}
	if fail {
		e.Err = "send-fail"
	}
	seq := w.add(e)
	if !w.frozen {
		w.sends = append(w.sends, vfC07Send{Seq: seq, T: w.lastT, Sid: msg.SessionID, Addr: msg.Addr, Data: data})
	}
	if fail {
		return &vfC07Err{Kind: "send-fail", Sid: sid, Sock: w.replies[no].Sock, N: n}
	}
	return nil
}

func (w *vfC07World) Hook(data []byte, reqAddr *string) error {
	w.mu.Lock()
	no := vfC07TagNo(data, 'M')
	var sid uint32
	if m := w.msgs[no]; m != nil {
		sid = m.Sid
	}
	w.lastHookSid, w.lastHookValid = sid, w.msgs[no] != nil
	n := w.next("hook", sid)
	mode := w.plan.HookMode[sid][n]
	orig := *reqAddr
	w.hookNo++
	hn := w.hookNo
	d := w.delay("hook", sid, n, vfC07DelaysHook)
	w.inflight++
	seq := w.add(vfC07Ev{Kind: "hook", Ph: 1, Sid: sid, No: no, Addr: orig, Aux: int64(mode)})
	w.waitGate(w.plan.HookGate[sid][n], sid, seq)
	w.mu.Unlock()
	vfC07Yield(d) // under connLock: yield, never sleep (see vfC07Yield)
	w.mu.Lock()
	defer w.mu.Unlock()
	w.inflight--
	switch mode {
	case vfC07HookRewrite:
		port := 7000 + hn%1000
		*reqAddr = fmt.Sprintf("rw%d.s%d.vf:%d", hn, sid, port)
		w.add(vfC07Ev{Kind: "hook", Ph: 2, Sid: sid, No: no, Addr: *reqAddr, Aux: int64(hn)})
		// remember the original address under the rewritten one
		w.nth["orig/"+*reqAddr] = no
		w.origOf[*reqAddr] = orig
		return nil
	case vfC07HookFail:
		w.add(vfC07Ev{Kind: "hook", Ph: 2, Sid: sid, No: no, Err: "hook-fail"})
		return &vfC07Err{Kind: "hook-fail", Sid: sid, N: n}
	}
	w.add(vfC07Ev{Kind: "hook", Ph: 2, Sid: sid, No: no, Addr: orig})
	return nil
}

func (w *vfC07World) UDP(reqAddr string) (UDPConn, error) {
	w.mu.Lock()
	sid, labelled := vfC07SidOfAddr(reqAddr)
	if !labelled && w.lastHookValid {
		// destination without a session label (shared between sessions): the dial belongs to the
		// session whose first datagram the receive loop has just shown to Hook
		sid = w.lastHookSid
	}
	if w.frozen {
		w.mu.Unlock()
		return nil, &vfC07Err{Kind: "dial-fail", Sid: sid}
	}
	n := w.next("dial", sid)
	d := w.delay("dial", sid, n, vfC07DelaysDial)
	if w.plan.SlowDial[sid] && !w.plan.NoDelays {
		d = 50 * time.Millisecond
	}
	w.inflight++
	seq := w.add(vfC07Ev{Kind: "dial", Ph: 1, Sid: sid, Addr: reqAddr, Aux: int64(n)})
	w.waitGate(w.plan.DialGate[sid][n], sid, seq)
	vs := time.Duration(w.plan.DialSleep[sid][n])
	w.mu.Unlock()
	vfC07Yield(d) // under connLock: yield, never sleep (see vfC07Yield)
	w.sleep(vs)   // scripted long dial on the virtual clock (see vfC07Plan.DialSleep)
	w.mu.Lock()
	defer w.mu.Unlock()
	w.inflight--
	if !w.allowed(reqAddr) {
		w.add(vfC07Ev{Kind: "dial", Ph: 2, Sid: sid, Addr: reqAddr, Err: "policy-deny"})
		return nil, &vfC07Err{Kind: "policy-deny", Sid: sid, N: n}
	}
	if w.plan.DialFail[sid][n] {
		w.add(vfC07Ev{Kind: "dial", Ph: 2, Sid: sid, Addr: reqAddr, Err: "dial-fail"})
		return nil, &vfC07Err{Kind: "dial-fail", Sid: sid, N: n}
	}
	s := &vfC07Sock{w: w, id: len(w.socks) + 1, sid: sid, dialAddr: reqAddr, firstNo: -1}
	if no, ok := w.nth["orig/"+reqAddr]; ok && strings.HasPrefix(reqAddr, "rw") {
		s.override = true
		s.firstNo = no
		s.origAddr = w.origOf[reqAddr] // the destination the hook was asked about, before it rewrote it
	}
	w.socks = append(w.socks, s)
	s.dialSeq = w.add(vfC07Ev{Kind: "dial", Ph: 2, Sid: sid, Sock: s.id, Addr: reqAddr})
	return s, nil
}

func (w *vfC07World) CheckUDP(reqAddr string) error {
	w.mu.Lock()
	defer w.mu.Unlock()
	w.checks++
	sid, _ := vfC07SidOfAddr(reqAddr)
	if !w.allowed(reqAddr) {
		w.add(vfC07Ev{Kind: "check", Sid: sid, Addr: reqAddr, Err: "policy-deny"})
		return &vfC07Err{Kind: "policy-deny", Sid: sid}
	}
	w.add(vfC07Ev{Kind: "check", Sid: sid, Addr: reqAddr})
	return nil
}

// waitGate parks a gated Hook / UDP() call until the driver opens the session's gate. The wait is
// on the world's cond, i.e. durably blocking: virtual time keeps running meanwhile. Caller holds w.mu.
func (w *vfC07World) waitGate(gated bool, sid uint32, seq int) {
	if !gated {
		return
	}
	w.gateSeq[sid] = seq
	for !w.gateOpen[sid] && !w.frozen {
		w.cond.Wait()
	}
	w.gateOpen[sid] = false
	delete(w.gateSeq, sid)
}

var vfC07LockWaitRe = regexp.MustCompile(`^goroutine \d+ \[sync\.(Mutex\.Lock|RWMutex\.R?Lock)[^\]]*synctest bubble (\d+)\]`)

// AwaitSweepThenOpen makes "the dial (or hook) of sid is still in flight when the sweeper comes
// for that session" happen deterministically. It must be called at a sweep instant, with the
// gated call of sid already parked (it started more than the idle timeout earlier, so this sweep
// selects the session) and with all virtual delays off.
//
// No sleep is possible here: on the unchanged code the sweeper now waits for the session's
// connLock, held by the dialling receive loop; a goroutine waiting for a sync.Mutex is not durably
// blocked, so virtual time stands still until the dial returns. The driver therefore spins
// (runtime.Gosched, no clock involved) until it observes one of the two possible outcomes,
//
//	"lock-wait": some goroutine of this bubble is parked on a sync.Mutex/RWMutex (stack census), or
//	"closed":    the Close event of sid was logged after the gated call started and the session
//	             is gone from the table (an implementation that does not hold the lock while dialling),
//
// and then opens the gate. The observation only orchestrates; verdicts come from the usual
// oracles (socket closed exactly once, no goroutine left, table empty, no write after Close ...).
// If neither outcome shows up within the spin budget the gate is opened anyway (counted).
func (w *vfC07World) AwaitSweepThenOpen(sm *udpSessionManager, sid uint32, stackBuf []byte) string {
	outcome := "none"
	w.mu.Lock()
	start, parked := w.gateSeq[sid]
	w.mu.Unlock()
	if parked {
		me, lockSeen := "", 0
		for i := 0; i < 4000000 && outcome == "none"; i++ {
			runtime.Gosched()
			if i%16 != 0 {
				continue
			}
			w.mu.Lock()
			for j := len(w.evs) - 1; j > start; j-- {
				if e := &w.evs[j]; e.Kind == "xclose" && e.Ph == 2 && e.Sid == sid {
					outcome = "closed"
					break
				}
			}
			w.mu.Unlock()
			if outcome == "closed" {
				if vfC07TableHas(sm, sid) {
					outcome = "none" // exit still in progress: look again
				}
				continue
			}
			if i%64 != 0 {
				continue
			}
			n := runtime.Stack(stackBuf, true)
			seen := false
			for bi, b := range strings.Split(string(stackBuf[:n]), "\n\n") {
				if bi == 0 {
					if m := vfC07BubbleRe.FindStringSubmatch(strings.SplitN(b, "\n", 2)[0]); m != nil {
						me = m[1]
					}
					continue
				}
				if m := vfC07LockWaitRe.FindStringSubmatch(b); m != nil && m[2] == me {
					seen = true
					break
				}
			}
			// a lock wait that persists over three censuses is the sweeper waiting for the dial,
			// not a momentary contention
			if seen {
				if lockSeen++; lockSeen >= 3 {
					outcome = "lock-wait"
				}
			} else {
				lockSeen = 0
			}
		}
	} else {
		outcome = "not-parked"
	}
	w.mu.Lock()
	w.gateOutcome[outcome]++
	w.add(vfC07Ev{Kind: "gate", Sid: sid, Err: outcome})
	w.gateOpen[sid] = true
	w.cond.Broadcast()
	w.mu.Unlock()
	return outcome
}

// OpenGate releases the gated call of sid that is parked (or the next one to arrive).
func (w *vfC07World) OpenGate(sid uint32) {
	w.mu.Lock()
	w.add(vfC07Ev{Kind: "gate", Sid: sid, Err: "open"})
	w.gateOpen[sid] = true
	w.cond.Broadcast()
	w.mu.Unlock()
}

// ---- udpEventLogger

type vfC07ELog struct{ w *vfC07World }

func (l *vfC07ELog) New(sessionID uint32, reqAddr string) {
	w := l.w
	w.mu.Lock()
	w.add(vfC07Ev{Kind: "new", Sid: sessionID, Addr: reqAddr})
	w.mu.Unlock()
}

func (l *vfC07ELog) Close(sessionID uint32, err error) {
	w := l.w
	w.mu.Lock()
	n := w.next("xclose", sessionID)
	d := w.delay("xclose", sessionID, n, vfC07DelaysXClose)
	if w.plan.SlowClose[sessionID] && !w.plan.NoDelays {
		d = 20 * time.Millisecond
	}
	if w.ioEnded && !w.endSleepDone && w.plan.EndCloseSleep > 0 {
		w.endSleepDone = true
		d = time.Duration(w.plan.EndCloseSleep)
	}
	es := ""
	if err != nil {
		var ve *vfC07Err
		if errors.As(err, &ve) {
			es = fmt.Sprintf("%s/%d/%d", ve.Kind, ve.Sid, ve.Sock)
		} else {
			es = "foreign:" + err.Error()
		}
	}
	var bySweeper int64
	if w.ioEnded {
		// non-vacuity only: was this Close event, after the IO ended, issued by the periodic sweeper?
		var sb [4096]byte
		if strings.Contains(string(sb[:runtime.Stack(sb[:], false)]), "idleCleanupLoop") {
			bySweeper = 1
		}
	}
	w.inflight++
	w.add(vfC07Ev{Kind: "xclose", Ph: 1, Sid: sessionID, Err: es, Aux: bySweeper})
	w.mu.Unlock()
	w.sleep(d)
	w.mu.Lock()
	w.inflight--
	w.add(vfC07Ev{Kind: "xclose", Ph: 2, Sid: sessionID, Err: es})
	w.mu.Unlock()
}

// ---- UDPConn

type vfC07Sock struct {
	w        *vfC07World
	id       int
	sid      uint32 // session ID named by the dial address
	dialAddr string
	override bool   // opened for a hook-rewritten address
	origAddr string // address of the message that triggered the hook
	firstNo  int
	dialSeq  int

	closed        bool
	released      bool // harness teardown forced the readers out (only after a verdict was recorded)
	closeCalls    int
	closeStartSeq int
	closeEndT     int64
	rq            []vfC07ReadItem
	readers       int
	readersAtEnd  int
	nwrites       int
}

func (s *vfC07Sock) ReadFrom(b []byte) (int, string, error) {
	w := s.w
	w.mu.Lock()
	defer w.mu.Unlock()
	s.readers++
	defer func() { s.readers-- }()
	for {
		if s.closed || s.released {
			w.add(vfC07Ev{Kind: "read", Sid: s.sid, Sock: s.id, No: -1, Err: "sock-closed"})
			return 0, "", &vfC07Err{Kind: "sock-closed", Sid: s.sid, Sock: s.id}
		}
		if len(s.rq) > 0 {
			it := s.rq[0]
			s.rq = s.rq[1:]
			if it.err != nil {
				w.add(vfC07Ev{Kind: "read", Sid: s.sid, Sock: s.id, No: -1, Err: "read-err"})
				return 0, "", it.err
			}
			n := copy(b, it.data)
			if gn := w.next("readgate", s.sid); w.plan.ReadGate[s.sid][gn] {
				seq := w.add(vfC07Ev{Kind: "rgate", Ph: 1, Sid: s.sid, Sock: s.id, No: it.no})
				w.inflight++
				w.waitGate(true, s.sid, seq)
				w.inflight--
			}
			// logged when it is handed to the code under test: that is when it counts as activity
			w.add(vfC07Ev{Kind: "read", Sid: s.sid, Sock: s.id, No: it.no, Addr: it.from, Aux: int64(n)})
			return n, it.from, nil
		}
		w.cond.Wait()
	}
}

func (s *vfC07Sock) WriteTo(b []byte, addr string) (int, error) {
	w := s.w
	w.mu.Lock()
	defer w.mu.Unlock()
	no := vfC07TagNo(b, 'M')
	n := w.next("write", s.sid)
	fail := w.plan.WriteFail[s.sid][n]
	e := vfC07Ev{Kind: "write", Sid: s.sid, Sock: s.id, No: no, Addr: addr, Aux: int64(len(b))}
	if s.closed {
		e.Err = "sock-closed"
	} else if fail {
		e.Err = "write-fail"
	}
	seq := w.add(e)
	s.nwrites++
	if !w.frozen {
		w.writes = append(w.writes, vfC07Write{Seq: seq, T: w.lastT, Sock: s.id, No: no, Addr: addr,
			Data: append([]byte(nil), b...), Closed: s.closed, Failed: fail && !s.closed})
	}
	if s.closed {
		return 0, &vfC07Err{Kind: "sock-closed", Sid: s.sid, Sock: s.id}
	}
	if fail {
		return 0, &vfC07Err{Kind: "write-fail", Sid: s.sid, Sock: s.id, N: n}
	}
	if w.plan.WriteGate[s.sid][n] {
		// The datagram has been handed to the (open) socket and is on its way; the call itself
		// returns only when the driver opens the gate -- a send that takes long. The receive loop
		// holds no lock while it writes, so this may even be a wait across virtual time; it is
		// durable (cond), never a sleep.
		w.inflight++
		w.waitGate(true, s.sid, seq)
		w.inflight--
		w.add(vfC07Ev{Kind: "wgate", Ph: 2, Sid: s.sid, Sock: s.id, No: no})
	}
	return len(b), nil
}

func (s *vfC07Sock) Close() error {
	w := s.w
	w.mu.Lock()
	if w.frozen {
		s.closed = true
		w.cond.Broadcast()
		w.mu.Unlock()
		return nil
	}
	s.closeCalls++
	n := s.closeCalls
	d := w.delay("sockclose", uint32(s.id), n, vfC07DelaysSockClose)
	early := w.delay("sockclose-early", uint32(s.id), n, []time.Duration{0, 1}) == 0
	w.inflight++
	seq := w.add(vfC07Ev{Kind: "sockclose", Ph: 1, Sid: s.sid, Sock: s.id, Aux: int64(n)})
	if n == 1 {
		s.closeStartSeq = seq
	}
	if early || d == 0 {
		s.closed = true
		w.cond.Broadcast()
	}
	w.mu.Unlock()
	vfC07Yield(d) // under connLock: yield, never sleep (see vfC07Yield)
	w.mu.Lock()
	if !s.closed {
		s.closed = true
		w.cond.Broadcast()
	}
	w.inflight--
	w.add(vfC07Ev{Kind: "sockclose", Ph: 2, Sid: s.sid, Sock: s.id, Aux: int64(n)})
	if n == 1 {
		s.closeEndT = w.now()
	}
	w.mu.Unlock()
	return nil
}

// ---------------------------------------------------------------------------- driver side

// Push hands one datagram (complete message or fragment) to the server's receive loop.
func (w *vfC07World) Push(m *protocol.UDPMessage, no int, full *vfC07Msg) {
	w.mu.Lock()
	if full != nil && w.msgs[no] == nil {
		w.msgs[no] = full
	}
	w.add(vfC07Ev{Kind: "push", Sid: m.SessionID, No: no, Addr: m.Addr, Aux: int64(m.FragID)<<8 | int64(m.FragCount)})
	w.inbox = append(w.inbox, vfC07InboxItem{m, no})
	w.cond.Broadcast()
	w.mu.Unlock()
}

// openSock returns the newest socket opened for sid that is not closed; caller holds w.mu.
func (w *vfC07World) openSock(sid uint32) *vfC07Sock {
	for i := len(w.socks) - 1; i >= 0; i-- {
		if s := w.socks[i]; s.sid == sid && !s.closed && s.closeCalls == 0 {
			return s
		}
	}
	return nil
}

// InjectReply lets the remote side of sid's current socket answer. from=="" picks the dial address.
func (w *vfC07World) InjectReply(sid uint32, n int, from string) bool {
	w.mu.Lock()
	defer w.mu.Unlock()
	s := w.openSock(sid)
	if s == nil {
		w.add(vfC07Ev{Kind: "inject", Sid: sid, No: -1, Err: "no-open-socket"})
		return false
	}
	if from == "" {
		from = s.dialAddr
	}
	w.replyNo++
	no := w.replyNo
	w.replies[no] = &vfC07Reply{No: no, Sock: s.id, Sid: sid, From: from, Len: n}
	w.add(vfC07Ev{Kind: "inject", Sid: sid, Sock: s.id, No: no, Addr: from, Aux: int64(n)})
	s.rq = append(s.rq, vfC07ReadItem{no: no, data: vfC07ReplyPayload(no, s.id, n), from: from})
	w.cond.Broadcast()
	return true
}

func (w *vfC07World) InjectReadErr(sid uint32) bool {
	w.mu.Lock()
	defer w.mu.Unlock()
	s := w.openSock(sid)
	if s == nil {
		w.add(vfC07Ev{Kind: "inject", Sid: sid, No: -1, Err: "no-open-socket"})
		return false
	}
	n := w.next("readerr", sid)
	w.add(vfC07Ev{Kind: "inject", Sid: sid, Sock: s.id, No: -1, Err: "read-err"})
	s.rq = append(s.rq, vfC07ReadItem{err: &vfC07Err{Kind: "read-err", Sid: sid, Sock: s.id, N: n}})
	w.cond.Broadcast()
	return true
}

func (w *vfC07World) EndIO() {
	w.mu.Lock()
	if w.ioErr == nil {
		w.ioErr = &vfC07Err{Kind: "io-end"}
		w.cond.Broadcast()
	}
	w.mu.Unlock()
}

// Snapshot records the session table (read under the manager's own mutex) if the world is
// quiescent: every other goroutine of the bubble is durably blocked (synctest.Wait), no fake
// callback is in progress and nothing is queued. Returns false (and records nothing) otherwise.
func (w *vfC07World) Snapshot(sm *udpSessionManager, final bool) bool {
	synctest.Wait()
	w.mu.Lock()
	quiet := w.inflight == 0 && len(w.inbox) == 0 && (w.feedIdle || w.runRet)
	w.mu.Unlock()
	if !quiet {
		w.mu.Lock()
		w.snapSkipped++
		w.mu.Unlock()
		return false
	}
	count := sm.Count()
	keys := vfC07TableKeys(sm) // nil when the job does not look inside the table
	sort.Slice(keys, func(i, j int) bool { return keys[i] < keys[j] })
	w.mu.Lock()
	sn := vfC07Snap{Count: count, Keys: keys, Final: final}
	for _, s := range w.socks {
		if !s.closed {
			sn.Open = append(sn.Open, [2]int64{int64(s.id), int64(s.sid)})
		}
	}
	sn.Seq = w.add(vfC07Ev{Kind: "snap", Aux: int64(count)})
	sn.T = w.lastT
	w.snaps = append(w.snaps, sn)
	w.mu.Unlock()
	return true
}

// ---------------------------------------------------------------------------- bubble

var vfC07BubbleRe = regexp.MustCompile(`synctest bubble (\d+)`)

// vfC07Census lists the goroutines of the calling goroutine's bubble other than the caller and
// the synctest plumbing. Called after teardown + synctest.Wait(): anything listed is a leak.
func vfC07Census(buf []byte) []string {
	n := runtime.Stack(buf, true)
	blocks := strings.Split(string(buf[:n]), "\n\n")
	if len(blocks) == 0 {
		return nil
	}
	me := vfC07BubbleRe.FindStringSubmatch(strings.SplitN(blocks[0], "\n", 2)[0])
	if me == nil {
		return nil
	}
	var out []string
	for _, b := range blocks[1:] {
		head := strings.SplitN(b, "\n", 2)[0]
		m := vfC07BubbleRe.FindStringSubmatch(head)
		if m == nil || m[1] != me[1] {
			continue
		}
		if strings.Contains(b, "internal/synctest.Run(") || strings.Contains(b, "testing/synctest.testingSynctestTest(") {
			continue
		}
		out = append(out, b)
	}
	return out
}

// vfC07RunBubble runs the real udpSessionManager against a fresh world inside one synctest
// bubble. drive() plays the script; afterwards the IO is ended (if the script did not), Run()
// must return, a final snapshot and a goroutine census are taken. If something of the session
// manager is still alive, the verdict is recorded first and only then the harness forces its own
// fakes open so that the bubble can end. A bubble that still cannot end (a goroutine not parked
// in one of the fakes) panics in synctest.Test; that panic is caught and reported too.
func vfC07RunBubble(t *testing.T, plan *vfC07Plan, timeout time.Duration, stackBuf []byte,
	drive func(w *vfC07World, sm *udpSessionManager)) (w *vfC07World) {
	// The bubble runs in a subtest: if the race detector fires inside the bubble, synctest.Test
	// calls FailNow on the T it was given, which would end the whole harness part before this
	// timeline is analysed. With a subtest only the subtest's goroutine ends; the timeline is still
	// judged by the oracles and the following timelines still run (the race itself is reported by
	// the runner's race oracle).
	t.Run("bubble", func(t *testing.T) { w = vfC07RunBubbleIn(t, plan, timeout, stackBuf, drive, &w) })
	return w
}

func vfC07RunBubbleIn(t *testing.T, plan *vfC07Plan, timeout time.Duration, stackBuf []byte,
	drive func(w *vfC07World, sm *udpSessionManager), out **vfC07World) (w *vfC07World) {
	defer func() {
		if r := recover(); r != nil {
			if w == nil || !strings.Contains(fmt.Sprint(r), "deadlock:") {
				panic(r)
			}
			w.bubblePanic = fmt.Sprint(r)
		}
	}()
	synctest.Test(t, func(t *testing.T) {
		w = vfC07NewWorld(plan)
		*out = w
		var io udpIO = w
		if plan.WrapIO != nil {
			io = plan.WrapIO(w)
		}
		sm := newUDPSessionManager(io, &vfC07ELog{w}, timeout)
		done := make(chan error, 1)
		w.runStart = w.now()
		go func() { done <- sm.Run() }()
		drive(w, sm)
		w.EndIO()
		tm := time.NewTimer(time.Hour)
		select {
		case err := <-done:
			w.mu.Lock()
			w.runRet, w.runErr = true, err
			w.add(vfC07Ev{Kind: "runret"})
			w.mu.Unlock()
		case <-tm.C:
			// Run() did not return within one virtual hour after the IO ended
		}
		tm.Stop()
		if !w.Snapshot(sm, true) {
			// fakes still busy (only possible if something is stuck in a fake): settle and retry
			time.Sleep(time.Second)
			w.Snapshot(sm, true)
		}
		synctest.Wait()
		w.leftovers = vfC07Census(stackBuf)
		// harness teardown: freeze the record, then release every reader still parked in a fake socket
		w.mu.Lock()
		w.frozen = true
		for _, s := range w.socks {
			s.readersAtEnd = s.readers
			s.released = true
		}
		w.cond.Broadcast()
		w.mu.Unlock()
		synctest.Wait()
	})
	return w
}

// ---------------------------------------------------------------------------- common oracle

type vfC07Exit struct {
	Sid      uint32
	BeginT   int64 // first observable instant of the exit (socket Close entered, else Close event entered)
	StartT   int64 // eventLogger.Close entered
	EndT     int64 // eventLogger.Close about to return (the map delete follows at the same instant)
	StartSeq int
	EndSeq   int
	Err      string
	// Sync: the exit ran on the receive loop's own goroutine (dial / hook / policy failure of the
	// datagram just received, or the final cleanup after the IO ended). No datagram can be received
	// while it runs, so log order alone tells whether a datagram came before or after it.
	Sync bool
}

// rel tells whether a received datagram was handled before the exit began (-1: it reached the old
// session or created it), after the exit completed incl. the removal from the table (+1: it finds
// no session), or possibly in between (0: both outcomes are legal).
func (x *vfC07Exit) rel(a vfC07Act) int {
	if x.Sync {
		if a.Seq < x.StartSeq {
			return -1
		}
		if a.Seq > x.EndSeq {
			return 1
		}
		return 0
	}
	if a.T < x.BeginT {
		return -1
	}
	if a.T > x.EndT {
		return 1
	}
	return 0
}

type vfC07Act struct {
	T    int64
	Seq  int
	Recv bool
}

type vfC07Index struct {
	IoEndSeq int
	IoEndT   int64
	Recvs    map[uint32][]vfC07Act // datagrams handed to the server, per session ID
	Acts     map[uint32][]vfC07Act // recvs + replies read from the session's sockets
	Exits    map[uint32][]vfC07Exit
	RecvOfNo map[int][]vfC07Act // per message number
	Sids     []uint32
}

func vfC07BuildIndex(w *vfC07World) *vfC07Index {
	ix := &vfC07Index{IoEndSeq: 1 << 60, IoEndT: 1 << 62, Recvs: map[uint32][]vfC07Act{}, Acts: map[uint32][]vfC07Act{},
		Exits: map[uint32][]vfC07Exit{}, RecvOfNo: map[int][]vfC07Act{}}
	pendBegin := map[uint32]int64{}
	open := map[uint32]int{} // sid -> index of the exit whose Close event has not returned yet
	seen := map[uint32]bool{}
	note := func(sid uint32) {
		if !seen[sid] {
			seen[sid] = true
			ix.Sids = append(ix.Sids, sid)
		}
	}
	for _, e := range w.evs {
		switch e.Kind {
		case "recv":
			note(e.Sid)
			a := vfC07Act{e.T, e.Seq, true}
			ix.Recvs[e.Sid] = append(ix.Recvs[e.Sid], a)
			ix.Acts[e.Sid] = append(ix.Acts[e.Sid], a)
			ix.RecvOfNo[e.No] = append(ix.RecvOfNo[e.No], a)
		case "read":
			if e.Err == "" {
				note(e.Sid)
				ix.Acts[e.Sid] = append(ix.Acts[e.Sid], vfC07Act{e.T, e.Seq, false})
			}
		case "sockclose":
			if e.Ph == 1 {
				if _, ok := pendBegin[e.Sid]; !ok {
					pendBegin[e.Sid] = e.T
				}
			}
		case "xclose":
			note(e.Sid)
			if e.Ph == 1 {
				b := e.T
				if pb, ok := pendBegin[e.Sid]; ok && pb <= b {
					b = pb
				}
				delete(pendBegin, e.Sid)
				kind := strings.SplitN(e.Err, "/", 2)[0]
				sync := kind == "dial-fail" || kind == "policy-deny" || kind == "hook-fail" || e.Seq > ix.IoEndSeq
				ix.Exits[e.Sid] = append(ix.Exits[e.Sid], vfC07Exit{Sid: e.Sid, BeginT: b, StartT: e.T, EndT: 1 << 62, StartSeq: e.Seq, EndSeq: 1 << 60, Err: e.Err, Sync: sync})
				open[e.Sid] = len(ix.Exits[e.Sid]) - 1
			} else if i, ok := open[e.Sid]; ok {
				ix.Exits[e.Sid][i].EndT = e.T
				ix.Exits[e.Sid][i].EndSeq = e.Seq
				delete(open, e.Sid)
			}
		case "ioend":
			ix.IoEndSeq, ix.IoEndT = e.Seq, e.T
		}
	}
	sort.Slice(ix.Sids, func(i, j int) bool { return ix.Sids[i] < ix.Sids[j] })
	return ix
}

func (w *vfC07World) sock(id int) *vfC07Sock {
	if id < 1 || id > len(w.socks) {
		return nil
	}
	return w.socks[id-1]
}

// window returns the events with Seq in [from-before, to+after] for witnesses.
func (w *vfC07World) window(seq, before, after int) []vfC07Ev {
	lo, hi := seq-before, seq+after+1
	if lo < 0 {
		lo = 0
	}
	if hi > len(w.evs) {
		hi = len(w.evs)
	}
	return append([]vfC07Ev(nil), w.evs[lo:hi]...)
}

type vfC07Reporter func(key string, witnessSeq int, format string, args ...any)

// vfC07CheckCommon applies the oracles that hold for every schedule (no timing model):
// isolation in both directions, payload integrity, destination / override rules, policy,
// legitimacy of close errors, close-exactly-once, nothing left after the end.
func vfC07CheckCommon(k *vfKit, w *vfC07World, ix *vfC07Index, report vfC07Reporter) {
	// ---- client -> remote
	for i := range w.writes {
		wr := &w.writes[i]
		s := w.sock(wr.Sock)
		m := w.msgs[wr.No]
		k.Count("ev_writes", 1)
		if m == nil {
			report("udp:unknown-payload-written", wr.Seq, "socket %d got a payload that is not a message the harness sent (%s)", wr.Sock, vfHex(wr.Data))
			continue
		}
		if m.Sid != s.sid {
			report("udp:cross-session-write", wr.Seq, "message %d of session %d was written through socket %d, which was dialled for session %d (%s)",
				wr.No, m.Sid, s.id, s.sid, s.dialAddr)
			continue
		}
		if !bytes.Equal(wr.Data, vfC07Payload(m.No, m.Sid, m.Len)) {
			report("udp:payload-altered", wr.Seq, "message %d reached socket %d altered (%d bytes, sent %d)", wr.No, s.id, len(wr.Data), m.Len)
			continue
		}
		if s.override {
			if wr.Addr != s.dialAddr {
				report("udp-acl:override-not-used", wr.Seq, "session %d was rewritten by the hook to %s but message %d was sent to %s", s.sid, s.dialAddr, wr.No, wr.Addr)
				continue
			}
		} else if !m.names(wr.Addr) {
			report("udp:wrong-destination", wr.Seq, "message %d addressed to %s %v was sent to %s", wr.No, m.Addr, m.Addrs, wr.Addr)
			continue
		}
		if !w.allowed(wr.Addr) {
			report("udp-acl:write-to-denied-destination", wr.Seq, "datagram (message %d, session %d) written to %s which the policy rejects", wr.No, m.Sid, wr.Addr)
			continue
		}
		if wr.Closed {
			// Writing to a socket that is already closed loses the datagram. That is tolerated for a
			// datagram racing with the exit; it refutes "a later datagram starts a fresh session on a
			// new socket" if the datagram was received strictly after the exit had completed.
			k.Count("writes_on_closed_socket", 1)
			var exit *vfC07Exit
			for xi := range ix.Exits[s.sid] {
				if x := &ix.Exits[s.sid][xi]; x.StartSeq > s.closeStartSeq {
					exit = x
					break
				}
			}
			var rv *vfC07Act
			for ai := range ix.RecvOfNo[wr.No] {
				if a := &ix.RecvOfNo[wr.No][ai]; a.Seq < wr.Seq {
					rv = a
				}
			}
			if exit != nil && rv != nil && exit.rel(*rv) > 0 {
				report("udp:old-socket-reused", wr.Seq, "message %d of session %d received at %v, after the previous session's exit completed at %v, was written to its old closed socket %d instead of a new one",
					wr.No, m.Sid, time.Duration(rv.T), time.Duration(exit.EndT), s.id)
			}
			continue
		}
		// A datagram that was received before its session's exit began belongs to that session; once
		// the session's Close event has completed its socket is closed, so the datagram can no longer
		// leave through an open socket.
		var rv *vfC07Act
		for ai := range ix.RecvOfNo[wr.No] {
			if a := &ix.RecvOfNo[wr.No][ai]; a.Seq < wr.Seq {
				rv = a
			}
		}
		var lastExit *vfC07Exit
		for xi := range ix.Exits[s.sid] {
			if x := &ix.Exits[s.sid][xi]; x.EndSeq < wr.Seq {
				lastExit = x
			}
		}
		if rv != nil && lastExit != nil && lastExit.rel(*rv) < 0 {
			report("udp:write-after-session-close", wr.Seq, "message %d of session %d, received at %v by the session that was closed at %v (Close event err=%q), was written to the open socket %d after that Close event",
				wr.No, m.Sid, time.Duration(rv.T), time.Duration(lastExit.StartT), lastExit.Err, s.id)
			continue
		}
		if !wr.Failed {
			k.Count("ev_writes_delivered", 1)
		}
	}
	// ---- remote -> client
	for i := range w.sends {
		sd := &w.sends[i]
		no := vfC07TagNo(sd.Data, 'R')
		r := w.replies[no]
		k.Count("ev_sends", 1)
		if r == nil {
			report("udp:unknown-payload-sent", sd.Seq, "SendMessage carried a payload that no socket delivered (%s)", vfHex(sd.Data))
			continue
		}
		s := w.sock(r.Sock)
		if sd.Sid != s.sid {
			report("udp:reply-wrong-session", sd.Seq, "reply %d read from socket %d (session %d) was sent to the client tagged with session %d", no, s.id, s.sid, sd.Sid)
			continue
		}
		if !bytes.Equal(sd.Data, vfC07ReplyPayload(r.No, r.Sock, r.Len)) {
			report("udp:reply-altered", sd.Seq, "reply %d reached the client altered (%d bytes, remote sent %d)", no, len(sd.Data), r.Len)
			continue
		}
		want := r.From
		if s.override {
			want = s.origAddr
		}
		if sd.Addr != want {
			key := "udp:reply-wrong-source"
			if s.override {
				key = "udp-acl:reply-not-from-original"
			}
			report(key, sd.Seq, "reply %d of session %d reported from %q, want %q (override=%v)", no, s.sid, sd.Addr, want, s.override)
			continue
		}
		k.Count("ev_replies_delivered", 1)
	}
	// ---- close events: error must be one the harness injected into that very session
	for _, sid := range ix.Sids {
		for _, x := range ix.Exits[sid] {
			k.Count("ev_session_closes", 1)
			if x.Err == "" {
				continue
			}
			p := strings.Split(x.Err, "/")
			ok := len(p) == 3 && (p[0] == "dial-fail" || p[0] == "policy-deny" || p[0] == "hook-fail" || p[0] == "read-err" || p[0] == "send-fail" || p[0] == "write-fail") &&
				p[1] == strconv.FormatUint(uint64(sid), 10)
			if strings.HasPrefix(x.Err, "foreign:") {
				// an error made by the implementation itself (e.g. a timeout of its own): nothing the
				// property forbids, only counted
				k.Count("closes_by_implementation_error", 1)
			} else if !ok {
				report("udp:foreign-close-error", x.StartSeq, "session %d was closed with error %q, which was not injected into that session", sid, x.Err)
			} else {
				k.Count("closes_by_"+p[0], 1)
			}
		}
	}
	// ---- a socket is opened only for a session that has completely sent a message: before the dial
	// returned, some message of that session must have been received in full (every fragment ID of
	// its fragment count, or an unfragmented datagram)
	{
		got := map[int]map[int64]bool{}
		completeAt := map[int]int{} // message number -> log position of the fragment that completed it
		for _, e := range w.evs {
			if e.Kind != "recv" {
				continue
			}
			m := w.msgs[e.No]
			if m == nil || m.Undeliverable {
				continue
			}
			if _, done := completeAt[e.No]; done {
				continue
			}
			id, cnt := e.Aux>>8, e.Aux&0xff
			if cnt <= 1 {
				completeAt[e.No] = e.Seq
				continue
			}
			if got[e.No] == nil {
				got[e.No] = map[int64]bool{}
			}
			if id < cnt {
				got[e.No][id] = true
			}
			if int64(len(got[e.No])) == cnt {
				completeAt[e.No] = e.Seq
			}
		}
		for _, sk := range w.socks {
			ok := false
			for no, at := range completeAt {
				if w.msgs[no].Sid == sk.sid && at < sk.dialSeq {
					ok = true
					break
				}
			}
			if !ok {
				report("udp:socket-without-complete-message", sk.dialSeq, "socket %d was opened for session %d (%s) although that session had not completely sent any message yet",
					sk.id, sk.sid, sk.dialAddr)
			} else {
				k.Count("ev_sockets_opened_by_complete_message", 1)
			}
		}
	}
	// ---- sockets: closed exactly once
	for _, s := range w.socks {
		k.Count("ev_sockets", 1)
		switch {
		case s.closeCalls == 0:
			report("udp:socket-never-closed", s.dialSeq, "socket %d (session %d, %s) was opened and never closed (readers still blocked: %d)", s.id, s.sid, s.dialAddr, s.readersAtEnd)
		case s.closeCalls > 1:
			report("udp:socket-closed-twice", s.closeStartSeq, "socket %d (session %d) was closed %d times", s.id, s.sid, s.closeCalls)
		}
	}
	// ---- the end
	last := len(w.evs) - 1
	if !w.runRet {
		report("udp:run-did-not-return", last, "Run() had not returned one virtual hour after the IO ended")
	} else if w.runErr == nil {
		report("udp:run-returned-nil", last, "Run() returned nil although the IO failed")
	}
	for _, sn := range w.snaps {
		if sn.Final && (sn.Count != 0 || len(sn.Keys) != 0) {
			report("udp:sessions-left-after-end", sn.Seq, "after the IO ended and Run() returned, Count()=%d, session IDs left: %v", sn.Count, sn.Keys)
		}
	}
	if len(w.leftovers) > 0 {
		k.Violation("udp:goroutine-left-after-end", map[string]any{"goroutines": w.leftovers, "tail": w.window(last, 30, 0)},
			"%d goroutine(s) of the session manager still alive after the IO ended and Run() returned; first:\n%s", len(w.leftovers), w.leftovers[0])
	}
	if w.bubblePanic != "" {
		report("udp:bubble-cannot-end", last, "synctest bubble could not end: %s", w.bubblePanic)
	}
}

// vfC07CheckSnapshots compares the session table at quiescent points with the set of sessions
// that must exist by the event log: a session exists from the first datagram received strictly
// after the previous exit completed until its Close event. Snapshots where a datagram arrived
// within an exit's window (old entry or new entry: both legal) are skipped.
func vfC07CheckSnapshots(k *vfKit, w *vfC07World, ix *vfC07Index, report vfC07Reporter) {
	for _, sn := range w.snaps {
		amb := false
		want := []uint32{}
		live := map[uint32]bool{}
		for _, sid := range ix.Sids {
			var lastRecv *vfC07Act
			rs := ix.Recvs[sid]
			for i := range rs {
				if rs[i].Seq < sn.Seq {
					lastRecv = &rs[i]
				}
			}
			if lastRecv == nil {
				continue
			}
			var lastExit *vfC07Exit
			xs := ix.Exits[sid]
			for i := range xs {
				if xs[i].StartSeq < sn.Seq {
					lastExit = &xs[i]
				}
			}
			rel := 1
			if lastExit != nil {
				rel = lastExit.rel(*lastRecv)
			}
			switch rel {
			case 1:
				want = append(want, sid)
				live[sid] = true
			case 0:
				amb = true
			}
		}
		if amb {
			k.Count("snapshots_ambiguous", 1)
			continue
		}
		k.Count("ev_snapshots", 1)
		same := sn.Count == len(want) && (sn.Keys == nil || len(want) == len(sn.Keys))
		if same && sn.Keys != nil {
			for i := range want {
				if want[i] != sn.Keys[i] {
					same = false
				}
			}
		}
		if !same {
			report("udp:session-table-mismatch", sn.Seq, "at quiescent point t=%v the session table holds %v (Count()=%d) but the sessions alive by the event log are %v",
				time.Duration(sn.T), sn.Keys, sn.Count, want)
			continue
		}
		perSid := map[int64]int{}
		for _, o := range sn.Open {
			perSid[o[1]]++
			if !live[uint32(o[1])] {
				report("udp:socket-without-session", sn.Seq, "at quiescent point t=%v socket %d of session %d is open but that session does not exist", time.Duration(sn.T), o[0], o[1])
			} else if perSid[o[1]] > 1 {
				report("udp:two-sockets-one-session", sn.Seq, "at quiescent point t=%v session %d has %d open sockets", time.Duration(sn.T), o[1], perSid[o[1]])
			}
		}
	}
}

// vfC07Trace is a signature of the callback order of one timeline (for counting distinct traces).
func vfC07Trace(w *vfC07World) string {
	h := fnv.New64a()
	for _, e := range w.evs {
		if e.Kind == "push" || e.Kind == "snap" || e.Kind == "inject" {
			continue
		}
		fmt.Fprintf(h, "%s%d/%d/%d;", e.Kind, e.Ph, e.Sid, e.Sock)
	}
	return strconv.FormatUint(h.Sum64(), 16)
}
