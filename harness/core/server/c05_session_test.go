//go:build verif

package server

// C05, server reply path at session level: a real udpSessionManager (Run loop, session entry,
// receiveLoop -> whatever the reply send path is) relays replies of many sizes while the datagram
// limit reported by the fake QUIC layer moves up and down between replies. Observed at the udpIO
// boundary (every message handed to SendMessage, accepted or refused):
//   - a FRAGMENT (FragCount > 1) handed to the datagram layer always fits the limit in force,
//     and there are at most 255 of them per message;
//   - what left reassembles (ParseUDPMessage + one Defragger, as the client does) to exactly the
//     replies that were read from the socket, each at most once, nothing else.
// Runs in a synctest bubble only for deterministic quiescence (synctest.Wait); no timers involved.

import (
	"bytes"
	"errors"
	"fmt"
	"sync"
	"testing"
	"testing/synctest"
	"time"

	"github.com/apernet/quic-go"

	"github.com/apernet/hysteria/core/v2/internal/frag"
	"github.com/apernet/hysteria/core/v2/internal/protocol"
)

type vfC05SIO struct {
	mu       sync.Mutex
	limit    int
	inbox    chan *protocol.UDPMessage
	closed   chan struct{}
	out      [][]byte // datagrams accepted, in order
	oversize []string // fragments handed over although they exceed the limit
	conn     *vfC05SConn
}

func (f *vfC05SIO) ReceiveMessage() (*protocol.UDPMessage, error) {
	select {
	case m := <-f.inbox:
		return m, nil
	case <-f.closed:
		return nil, errors.New("vf: connection closed")
	}
}

func (f *vfC05SIO) SendMessage(buf []byte, m *protocol.UDPMessage) error {
	f.mu.Lock()
	defer f.mu.Unlock()
	n := m.Serialize(buf)
	if n < 0 {
		return nil
	}
	if n > f.limit {
		if m.FragCount > 1 {
			f.oversize = append(f.oversize, fmt.Sprintf("fragment %d/%d of packet %d: %d bytes > limit %d", m.FragID, m.FragCount, m.PacketID, n, f.limit))
		}
		return &quic.DatagramTooLargeError{MaxDatagramPayloadSize: int64(f.limit)}
	}
	f.out = append(f.out, append([]byte(nil), buf[:n]...))
	return nil
}
func (f *vfC05SIO) Hook(data []byte, reqAddr *string) error { return nil }
func (f *vfC05SIO) UDP(reqAddr string) (UDPConn, error)     { return f.conn, nil }
func (f *vfC05SIO) CheckUDP(reqAddr string) error           { return nil }

type vfC05SConn struct {
	replies chan []byte
	closed  chan struct{}
	once    sync.Once
}

func (c *vfC05SConn) ReadFrom(b []byte) (int, string, error) {
	select {
	case p := <-c.replies:
		return copy(b, p), "target.verif:53", nil
	case <-c.closed:
		return 0, "", errors.New("vf: socket closed")
	}
}
func (c *vfC05SConn) WriteTo(b []byte, addr string) (int, error) { return len(b), nil }
func (c *vfC05SConn) Close() error                               { c.once.Do(func() { close(c.closed) }); return nil }

func vfC05SPayload(id uint32, n int) []byte {
	b := make([]byte, n)
	for i := range b {
		b[i] = byte(uint32(i)*2654435761>>24) ^ byte(id) ^ byte(i>>8)
	}
	return b
}

type vfC05SLogger struct{}

func (vfC05SLogger) New(sessionID uint32, reqAddr string) {}
func (vfC05SLogger) Close(sessionID uint32, err error)    {}

func TestVerifC05ServerSession(t *testing.T) {
	k := vfNewKit(t, "C05", "server-session")
	defer k.Finish()
	n := k.N(150, 3000)
	for i := 0; i < n; i++ {
		caseID := fmt.Sprintf("ssess-%d", i)
		if rc := k.ReplayCase(); rc != "" && rc != caseID {
			continue
		}
		r := k.Rand(caseID)
		k.Eval()
		type step struct {
			Limit int `json:"limit"`
			Size  int `json:"reply_len"`
		}
		var script []step
		nrep := 3 + r.Intn(8)
		base := 300 + r.Intn(1000)
		for j := 0; j < nrep; j++ {
			lim := base
			switch r.Intn(4) {
			case 0:
				lim = base / (2 + r.Intn(3)) // the path MTU dropped
			case 1:
				lim = base + r.Intn(400)
			}
			if lim < 40 {
				lim = 40
			}
			size := 1 + r.Intn(3*base)
			if size > protocol.MaxUDPSize-64 {
				size = protocol.MaxUDPSize - 64
			}
			script = append(script, step{lim, size})
		}
		rep := map[string]any{"case_id": caseID, "script": script}
		synctest.Test(t, func(t *testing.T) {
			conn := &vfC05SConn{replies: make(chan []byte), closed: make(chan struct{})}
			fio := &vfC05SIO{limit: script[0].Limit, inbox: make(chan *protocol.UDPMessage), closed: make(chan struct{}), conn: conn}
			sm := newUDPSessionManager(fio, vfC05SLogger{}, 60*time.Second)
			done := make(chan struct{})
			go func() { _ = sm.Run(); close(done) }()
			fio.inbox <- &protocol.UDPMessage{SessionID: 7, FragCount: 1, Addr: "target.verif:53", Data: []byte("hello")}
			synctest.Wait()
			d := &frag.Defragger{}
			alive := true
			for j, st := range script {
				fio.mu.Lock()
				fio.limit = st.Limit
				before := len(fio.out)
				fio.mu.Unlock()
				payload := vfC05SPayload(uint32(i*32+j), st.Size)
				select {
				case conn.replies <- payload:
				case <-conn.closed:
					alive = false
				}
				if !alive {
					k.Count("ev_session_closed_early", 1)
					break
				}
				synctest.Wait()
				fio.mu.Lock()
				sent := fio.out[before:]
				over := append([]string(nil), fio.oversize...)
				fio.oversize = nil
				fio.mu.Unlock()
				rep["step"] = j
				if len(over) > 0 {
					k.Violation("send:fragment-exceeds-datagram-limit", rep, "reply %d (%d bytes, limit now %d): %s", j, st.Size, st.Limit, over[0])
				}
				if len(sent) > 255 {
					k.Violation("send:more-than-255-datagrams", rep, "reply %d left as %d datagrams", j, len(sent))
				}
				emitted := 0
				for _, raw := range sent {
					k.Count("ev_session_datagrams", 1)
					if len(raw) > st.Limit {
						k.Violation("send:datagram-over-limit", rep, "datagram of %d bytes left while the limit is %d", len(raw), st.Limit)
					}
					m, err := protocol.ParseUDPMessage(append([]byte(nil), raw...))
					if err != nil {
						k.Violation("send:datagram-unparsable", rep, "reply %d: datagram does not parse: %v", j, err)
						continue
					}
					if out := d.Feed(m); out != nil {
						emitted++
						if out.SessionID != 7 || !bytes.Equal(out.Data, payload) {
							k.Violation("send:delivered-message-differs", rep, "reply %d: the client would reassemble %d bytes (session %d), the socket read %d bytes", j, len(out.Data), out.SessionID, len(payload))
						}
					}
				}
				if len(sent) > 0 && emitted != 1 {
					k.Violation("send:partial-or-duplicated-message", rep, "reply %d: %d datagrams left and reassemble to %d messages", j, len(sent), emitted)
				}
				if emitted == 1 {
					k.Count("ev_session_replies_delivered", 1)
				} else {
					k.Count("ev_session_replies_not_sent", 1)
				}
			}
			close(fio.closed)
			<-done
			_ = conn.Close()
		})
		k.Nontrivial(fmt.Sprint(script))
		if i < 2 {
			k.Sample(rep)
		}
	}
}
