//go:build verif

package server

// C05, server reply path at session level: a real udpSessionManager (Run loop, session entry,
// receiveLoop -> whatever the reply send path is) relays replies of many sizes while the datagram
// limit reported by the fake QUIC layer moves up and down between replies. Observed at the udpIO
// boundary (every message handed to SendMessage, accepted or refused):
//   - a FRAGMENT (FragCount > 1) handed to the datagram layer always fits the limit in force,
//     and there are at most 255 of them per message;
//   - what left reassembles (ParseUDPMessage + one Defragger, as the client does) to exactly the
//     replies that were read from the socket, each at most once, nothing else.
// Runs in a synctest bubble only for deterministic quiescence (synctest.Wait); no timers involved.

import (
	"bytes"
	"errors"
	"fmt"
	"sync"
	"testing"
	"testing/synctest"
	"time"

	"github.com/apernet/quic-go"

	"github.com/apernet/hysteria/core/v2/internal/frag"
	"github.com/apernet/hysteria/core/v2/internal/protocol"
)

type vfC05SIO struct {
	mu       sync.Mutex
	limit    int
	shrinkIn int // >0: after this many more accepted datagrams the limit becomes shrinkTo (path MTU dropped mid-message)
	shrinkTo int
	blockIn  int           // >0: the datagram after this many more accepted ones waits at gate before it is looked at (QUIC send queue full)
	gate     chan struct{} // closed by the harness to let the blocked SendMessage go on
	blocked  chan struct{} // closed by the fake when a SendMessage is parked at the gate
	inbox    chan *protocol.UDPMessage
	closed   chan struct{}
	out      [][]byte // datagrams accepted, in order
	oversize []string // fragments handed over although they exceed the limit
	conn     *vfC05SConn
}

func (f *vfC05SIO) ReceiveMessage() (*protocol.UDPMessage, error) {
	select {
	case m := <-f.inbox:
		return m, nil
	case <-f.closed:
		return nil, errors.New("vf: connection closed")
	}
}

func (f *vfC05SIO) SendMessage(buf []byte, m *protocol.UDPMessage) error {
	f.mu.Lock()
	if f.blockIn < 0 {
		// backpressure: this call does not return (nor look at its arguments) before the harness opens the gate
		f.blockIn = 0
		g := f.gate
		close(f.blocked)
		f.mu.Unlock()
		<-g
		f.mu.Lock()
	}
	defer f.mu.Unlock()
	n := m.Serialize(buf)
	if n < 0 {
		return nil
	}
	if n > f.limit {
		if m.FragCount > 1 {
			f.oversize = append(f.oversize, fmt.Sprintf("fragment %d/%d of packet %d: %d bytes > limit %d", m.FragID, m.FragCount, m.PacketID, n, f.limit))
		}
		return &quic.DatagramTooLargeError{MaxDatagramPayloadSize: int64(f.limit)}
	}
	f.out = append(f.out, append([]byte(nil), buf[:n]...))
	if f.blockIn > 0 {
		if f.blockIn--; f.blockIn == 0 {
			f.blockIn = -1
		}
	}
	if f.shrinkIn > 0 {
		if f.shrinkIn--; f.shrinkIn == 0 {
			f.limit = f.shrinkTo
		}
	}
	return nil
}
func (f *vfC05SIO) Hook(data []byte, reqAddr *string) error { return nil }
func (f *vfC05SIO) UDP(reqAddr string) (UDPConn, error)     { return f.conn, nil }
func (f *vfC05SIO) CheckUDP(reqAddr string) error           { return nil }

type vfC05SConn struct {
	replies chan []byte
	closed  chan struct{}
	once    sync.Once
}

func (c *vfC05SConn) ReadFrom(b []byte) (int, string, error) {
	select {
	case p := <-c.replies:
		return copy(b, p), "target.verif:53", nil
	case <-c.closed:
		return 0, "", errors.New("vf: socket closed")
	}
}
func (c *vfC05SConn) WriteTo(b []byte, addr string) (int, error) { return len(b), nil }
func (c *vfC05SConn) Close() error                               { c.once.Do(func() { close(c.closed) }); return nil }

func vfC05SPayload(id uint32, n int) []byte {
	b := make([]byte, n)
	for i := range b {
		b[i] = byte(uint32(i)*2654435761>>24) ^ byte(id) ^ byte(i>>8)
	}
	return b
}

type vfC05SLogger struct{}

func (vfC05SLogger) New(sessionID uint32, reqAddr string) {}
func (vfC05SLogger) Close(sessionID uint32, err error)    {}

func TestVerifC05ServerSession(t *testing.T) {
	k := vfNewKit(t, "C05", "server-session")
	defer k.Finish()
	n := k.N(150, 3000)
	for i := 0; i < n; i++ {
		caseID := fmt.Sprintf("ssess-%d", i)
		if rc := k.ReplayCase(); rc != "" && rc != caseID {
			continue
		}
		r := k.Rand(caseID)
		k.Eval()
		type step struct {
			Limit    int `json:"limit"`
			Size     int `json:"reply_len"`
			ShrinkIn int `json:"shrink_after_datagrams,omitempty"` // the limit drops to ShrinkTo after this many datagrams of this reply left
			ShrinkTo int `json:"shrink_to,omitempty"`
		}
		var script []step
		nrep := 3 + r.Intn(8)
		base := 300 + r.Intn(1000)
		for j := 0; j < nrep; j++ {
			lim := base
			switch r.Intn(4) {
			case 0:
				lim = base / (2 + r.Intn(3)) // the path MTU dropped
			case 1:
				lim = base + r.Intn(400)
			}
			if lim < 40 {
				lim = 40
			}
			size := 1 + r.Intn(3*base)
			if size > protocol.MaxUDPSize-64 {
				size = protocol.MaxUDPSize - 64
			}
			st := step{Limit: lim, Size: size}
			if j == nrep-1 && i%3 == 0 && size > 2*lim {
				// last reply of the script: the limit shrinks a little BETWEEN two fragments of this message
				// (mostly leaving the fragment count as it was). The message then either is not delivered or
				// is delivered intact; what left before the change must not combine with anything else.
				st.ShrinkIn = 1 + r.Intn(max(1, size/lim))
				st.ShrinkTo = max(40, lim-1-r.Intn(min(lim/4+1, 150)))
			}
			script = append(script, st)
		}
		rep := map[string]any{"case_id": caseID, "script": script}
		synctest.Test(t, func(t *testing.T) {
			conn := &vfC05SConn{replies: make(chan []byte), closed: make(chan struct{})}
			fio := &vfC05SIO{limit: script[0].Limit, inbox: make(chan *protocol.UDPMessage), closed: make(chan struct{}), conn: conn}
			sm := newUDPSessionManager(fio, vfC05SLogger{}, 60*time.Second)
			done := make(chan struct{})
			go func() { _ = sm.Run(); close(done) }()
			fio.inbox <- &protocol.UDPMessage{SessionID: 7, FragCount: 1, Addr: "target.verif:53", Data: []byte("hello")}
			synctest.Wait()
			d := &frag.Defragger{}
			alive := true
			for j, st := range script {
				fio.mu.Lock()
				fio.limit = st.Limit
				fio.shrinkIn, fio.shrinkTo = st.ShrinkIn, st.ShrinkTo
				before := len(fio.out)
				fio.mu.Unlock()
				payload := vfC05SPayload(uint32(i*32+j), st.Size)
				select {
				case conn.replies <- payload:
				case <-conn.closed:
					alive = false
				}
				if !alive {
					k.Count("ev_session_closed_early", 1)
					break
				}
				synctest.Wait()
				fio.mu.Lock()
				sent := fio.out[before:]
				over := append([]string(nil), fio.oversize...)
				fio.oversize = nil
				fio.mu.Unlock()
				rep["step"] = j
				if len(over) > 0 && st.ShrinkIn == 0 { // (after a mid-message drop the fragments cut for the old limit legitimately no longer fit)
					k.Violation("send:fragment-exceeds-datagram-limit", rep, "reply %d (%d bytes, limit now %d): %s", j, st.Size, st.Limit, over[0])
				}
				if len(sent) > 255 {
					k.Violation("send:more-than-255-datagrams", rep, "reply %d left as %d datagrams", j, len(sent))
				}
				emitted := 0
				for _, raw := range sent {
					k.Count("ev_session_datagrams", 1)
					if len(raw) > st.Limit { // (a shrinking limit only ever goes below st.Limit, and the fake refuses what does not fit at the time)
						k.Violation("send:datagram-over-limit", rep, "datagram of %d bytes left while the limit is %d", len(raw), st.Limit)
					}
					m, err := protocol.ParseUDPMessage(append([]byte(nil), raw...))
					if err != nil {
						k.Violation("send:datagram-unparsable", rep, "reply %d: datagram does not parse: %v", j, err)
						continue
					}
					if out := d.Feed(m); out != nil {
						emitted++
						if out.SessionID != 7 || !bytes.Equal(out.Data, payload) {
							k.Violation("send:delivered-message-differs", rep, "reply %d: the client would reassemble %d bytes (session %d), the socket read %d bytes", j, len(out.Data), out.SessionID, len(payload))
						}
					}
				}
				if st.ShrinkIn > 0 {
					k.Count("ev_session_limit_shrank_mid_message", 1)
					if emitted > 1 {
						k.Violation("send:partial-or-duplicated-message", rep, "reply %d (limit shrank mid-message): %d datagrams left and reassemble to %d messages", j, len(sent), emitted)
					}
				} else if len(sent) > 0 && emitted != 1 {
					k.Violation("send:partial-or-duplicated-message", rep, "reply %d: %d datagrams left and reassemble to %d messages", j, len(sent), emitted)
				}
				if emitted == 1 {
					k.Count("ev_session_replies_delivered", 1)
				} else {
					k.Count("ev_session_replies_not_sent", 1)
				}
			}
			close(fio.closed)
			<-done
			_ = conn.Close()
		})
		k.Nontrivial(fmt.Sprint(script))
		if i < 2 {
			k.Sample(rep)
		}
	}
}

// TestVerifC05ServerReceiveOrder: client -> server direction through the real session manager: the
// fragments of a message (also of the FIRST message of a session, when no session exists yet) arrive
// in every order / with duplicates; once all fragments have arrived the outbound socket must have
// received the payload byte-identical, exactly once, addressed as requested — or nothing.
type vfC05RConn struct {
	mu     sync.Mutex
	writes [][]byte
	addrs  []string
	closed chan struct{}
	once   sync.Once
}

func (c *vfC05RConn) ReadFrom(b []byte) (int, string, error) {
	<-c.closed
	return 0, "", errors.New("vf: socket closed")
}
func (c *vfC05RConn) WriteTo(b []byte, addr string) (int, error) {
	c.mu.Lock()
	c.writes = append(c.writes, append([]byte(nil), b...))
	c.addrs = append(c.addrs, addr)
	c.mu.Unlock()
	return len(b), nil
}
func (c *vfC05RConn) Close() error { c.once.Do(func() { close(c.closed) }); return nil }

type vfC05RIO struct {
	inbox  chan *protocol.UDPMessage
	closed chan struct{}
	mu     sync.Mutex
	conns  map[string]*vfC05RConn
}

func (f *vfC05RIO) ReceiveMessage() (*protocol.UDPMessage, error) {
	select {
	case m := <-f.inbox:
		return m, nil
	case <-f.closed:
		return nil, errors.New("vf: connection closed")
	}
}
func (f *vfC05RIO) SendMessage(buf []byte, m *protocol.UDPMessage) error { return nil }
func (f *vfC05RIO) Hook(data []byte, reqAddr *string) error              { return nil }
func (f *vfC05RIO) UDP(reqAddr string) (UDPConn, error) {
	c := &vfC05RConn{closed: make(chan struct{})}
	f.mu.Lock()
	f.conns[reqAddr] = c
	f.mu.Unlock()
	return c, nil
}
func (f *vfC05RIO) CheckUDP(reqAddr string) error { return nil }

func TestVerifC05ServerReceiveOrder(t *testing.T) {
	k := vfNewKit(t, "C05", "server-recv-order")
	defer k.Finish()
	type rcase struct {
		CaseID string `json:"case_id"`
		NFrag  int    `json:"fragments"`
		Order  []int  `json:"arrival_order"`
		First  bool   `json:"first_message_of_session"`
	}
	var cases []rcase
	id := 0
	add := func(n int, order []int, first bool) {
		cases = append(cases, rcase{CaseID: fmt.Sprintf("rorder-%d", id), NFrag: n, Order: order, First: first})
		id++
	}
	// every permutation for 2..4 fragments, as the first message of a session and on an existing session
	var perm func(a []int, i int, f func([]int))
	perm = func(a []int, i int, f func([]int)) {
		if i == len(a) {
			f(append([]int(nil), a...))
			return
		}
		for j := i; j < len(a); j++ {
			a[i], a[j] = a[j], a[i]
			perm(a, i+1, f)
			a[i], a[j] = a[j], a[i]
		}
	}
	for n := 2; n <= 4; n++ {
		base := make([]int, n)
		for i := range base {
			base[i] = i
		}
		for _, first := range []bool{true, false} {
			perm(base, 0, func(o []int) { add(n, o, first) })
		}
	}
	r := k.Rand("orders")
	for i := 0; i < k.N(150, 3000); i++ {
		n := 5 + r.Intn(30)
		o := r.Perm(n)
		for d := r.Intn(4); d > 0; d-- { // duplicates
			pos := r.Intn(len(o) + 1)
			o = append(o[:pos], append([]int{r.Intn(n)}, o[pos:]...)...)
		}
		add(n, o, r.Intn(2) == 0)
	}
	for ci, c := range cases {
		if rc := k.ReplayCase(); rc != "" && rc != c.CaseID {
			continue
		}
		k.Eval()
		synctest.Test(t, func(t *testing.T) {
			fio := &vfC05RIO{inbox: make(chan *protocol.UDPMessage), closed: make(chan struct{}), conns: map[string]*vfC05RConn{}}
			sm := newUDPSessionManager(fio, vfC05SLogger{}, 60*time.Second)
			done := make(chan struct{})
			go func() { _ = sm.Run(); close(done) }()
			addr := fmt.Sprintf("t%d.verif:53", ci)
			sid := uint32(100 + ci)
			if !c.First {
				fio.inbox <- &protocol.UDPMessage{SessionID: sid, FragCount: 1, Addr: addr, Data: []byte("opening message")}
				synctest.Wait()
			}
			per := 40
			payload := vfC05SPayload(uint32(ci), c.NFrag*per-7)
			for _, fi := range c.Order {
				end := min((fi+1)*per, len(payload))
				fio.inbox <- &protocol.UDPMessage{SessionID: sid, PacketID: uint16(500 + ci%60000), FragID: uint8(fi), FragCount: uint8(c.NFrag),
					Addr: addr, Data: append([]byte(nil), payload[fi*per:end]...)}
			}
			synctest.Wait()
			rep := map[string]any{"case_id": c.CaseID, "case": c}
			fio.mu.Lock()
			conn := fio.conns[addr]
			fio.mu.Unlock()
			got := 0
			if conn != nil {
				conn.mu.Lock()
				for wi, wdata := range conn.writes {
					if bytes.Equal(wdata, []byte("opening message")) {
						continue
					}
					got++
					if !bytes.Equal(wdata, payload) {
						k.Violation("recv:forwarded-datagram-differs", rep, "a %d-byte datagram reached the socket, the message sent has %d bytes", len(wdata), len(payload))
					}
					if conn.addrs[wi] != addr {
						k.Violation("recv:forwarded-to-wrong-address", rep, "datagram written to %q, requested %q", conn.addrs[wi], addr)
					}
				}
				conn.mu.Unlock()
			}
			k.Count("ev_recv_order_fragments", int64(len(c.Order)))
			if got == 1 {
				k.Count("ev_recv_order_delivered", 1)
				k.Nontrivial(fmt.Sprint(c.NFrag, c.Order, c.First))
			} else if got == 0 {
				// every fragment arrived (any order, duplicates allowed): the message must come out
				k.Violation("recv:complete-message-not-forwarded", rep, "all %d fragments arrived in order %v (first message of the session: %v) but nothing was forwarded", c.NFrag, c.Order, c.First)
			} else {
				k.Violation("recv:message-forwarded-twice", rep, "message forwarded %d times", got)
			}
			close(fio.closed)
			<-done
		})
		if ci == 3 {
			k.Sample(c)
		}
	}
}


// TestVerifC05ServerBackpressure: the QUIC send queue is full in the middle of a fragmented reply —
// SendMessage does not return for a while — and meanwhile more packets arrive on the session's socket.
// Whatever the server does with them (reads ahead, queues, drops), every message the far side
// reassembles from the datagrams that left must be one of the packets the socket produced, intact.
func TestVerifC05ServerBackpressure(t *testing.T) {
	k := vfNewKit(t, "C05", "server-backpressure")
	defer k.Finish()
	n := k.N(60, 1500)
	for i := 0; i < n; i++ {
		caseID := fmt.Sprintf("sbp-%d", i)
		if rc := k.ReplayCase(); rc != "" && rc != caseID {
			continue
		}
		r := k.Rand(caseID)
		k.Eval()
		limit := 300 + r.Intn(900)
		npk := 3 + r.Intn(4)
		sizes := make([]int, npk)
		for j := range sizes {
			sizes[j] = 1 + r.Intn(3*limit)
			if sizes[j] > protocol.MaxUDPSize-64 {
				sizes[j] = protocol.MaxUDPSize - 64
			}
		}
		sizes[0] = 2*limit + r.Intn(2*limit) // the first one is fragmented
		if sizes[0] > protocol.MaxUDPSize-64 {
			sizes[0] = protocol.MaxUDPSize - 64
		}
		blockAfter := 1 + r.Intn(2)
		rep := map[string]any{"case_id": caseID, "limit": limit, "packet_sizes": sizes, "send_blocks_after_datagrams": blockAfter}
		synctest.Test(t, func(t *testing.T) {
			conn := &vfC05SConn{replies: make(chan []byte), closed: make(chan struct{})}
			fio := &vfC05SIO{limit: limit, inbox: make(chan *protocol.UDPMessage), closed: make(chan struct{}), conn: conn}
			sm := newUDPSessionManager(fio, vfC05SLogger{}, 60*time.Second)
			done := make(chan struct{})
			go func() { _ = sm.Run(); close(done) }()
			fio.inbox <- &protocol.UDPMessage{SessionID: 7, FragCount: 1, Addr: "target.verif:53", Data: []byte("hello")}
			synctest.Wait()
			fio.mu.Lock()
			fio.blockIn, fio.gate, fio.blocked = blockAfter, make(chan struct{}), make(chan struct{})
			gate, blocked := fio.gate, fio.blocked
			fio.mu.Unlock()
			var payloads [][]byte
			for j, sz := range sizes {
				payloads = append(payloads, vfC05SPayload(uint32(i*16+j+1), sz))
			}
			fed := make(chan struct{})
			go func() {
				defer close(fed)
				for _, p := range payloads {
					select {
					case conn.replies <- p:
					case <-conn.closed:
						return
					}
				}
			}()
			synctest.Wait() // the first reply is stuck in SendMessage; whatever can be read ahead has been read
			select {
			case <-blocked:
				k.Count("ev_backpressure_achieved", 1)
			default:
				k.Count("ev_backpressure_not_reached", 1)
			}
			close(gate)
			synctest.Wait()
			<-fed
			synctest.Wait()
			fio.mu.Lock()
			sent := append([][]byte(nil), fio.out...)
			fio.mu.Unlock()
			d := &frag.Defragger{}
			next := 0
			for _, raw := range sent {
				k.Count("ev_backpressure_datagrams", 1)
				m, err := protocol.ParseUDPMessage(append([]byte(nil), raw...))
				if err != nil {
					k.Violation("send:datagram-unparsable", rep, "datagram does not parse: %v", err)
					continue
				}
				out := d.Feed(m)
				if out == nil {
					continue
				}
				// the emitted message must be one of the packets the socket produced (in order; some may be missing)
				found := -1
				for j := next; j < len(payloads); j++ {
					if bytes.Equal(out.Data, payloads[j]) {
						found = j
						break
					}
				}
				if found < 0 || out.SessionID != 7 {
					k.Violation("send:delivered-message-differs", rep, "under backpressure the client would reassemble %d bytes (session %d) that are none of the %d packets the socket produced (sizes %v)", len(out.Data), out.SessionID, len(payloads), sizes)
					continue
				}
				next = found + 1
				k.Count("ev_backpressure_replies_delivered", 1)
			}
			close(fio.closed)
			<-done
			_ = conn.Close()
		})
		k.Nontrivial(fmt.Sprint(limit, sizes, blockAfter))
		if i < 2 {
			k.Sample(rep)
		}
	}
}
