//go:build verif

package server

// White-box view of the session table for the C07 job: the IDs in udpSessionManager.m, read
// under the manager's own mutex. The C08 job uses c07c08_wb_none_test.go instead, so that its
// behavioural oracles keep building when the internals of udp.go are refactored.

func vfC07TableKeys(sm *udpSessionManager) []uint32 {
	sm.mutex.RLock()
	defer sm.mutex.RUnlock()
	keys := make([]uint32, 0, len(sm.m))
	for id := range sm.m {
		keys = append(keys, id)
	}
	return keys
}

func vfC07TableHas(sm *udpSessionManager, sid uint32) bool {
	sm.mutex.RLock()
	defer sm.mutex.RUnlock()
	_, ok := sm.m[sid]
	return ok
}
