//go:build verif

package protocol

// C03 — peer-controlled bytes never crash the process: the three frame decoders of
// core/internal/protocol (ReadTCPRequest, ReadTCPResponse, ParseUDPMessage).
//
// Every input is a fresh slice with cap==len; stream decoders get it through a reader without
// ReadByte (like a QUIC stream) in four chunkings. Oracle: no panic / runtime throw; after each
// batch of hostile inputs a well-formed frame is still decoded to exactly what was encoded.

import (
	"bytes"
	"errors"
	"fmt"
	"io"
	"strings"
	"testing"
)

func vfC03TCPRequestSeed(addr string, padding int) []byte {
	return vfC03Cat(vfC03VarintMin(uint64(len(addr))), []byte(addr), vfC03VarintMin(uint64(padding)), bytes.Repeat([]byte{'p'}, padding))
}

func vfC03TCPResponseSeed(status byte, msg string, padding int) []byte {
	return vfC03Cat([]byte{status}, vfC03VarintMin(uint64(len(msg))), []byte(msg), vfC03VarintMin(uint64(padding)), bytes.Repeat([]byte{'p'}, padding))
}

func vfC03UDPSeed(sid uint32, pid uint16, fid, fcnt uint8, addr string, data []byte) []byte {
	return vfC03Cat([]byte{byte(sid >> 24), byte(sid >> 16), byte(sid >> 8), byte(sid), byte(pid >> 8), byte(pid), fid, fcnt},
		vfC03VarintMin(uint64(len(addr))), []byte(addr), data)
}

// vfC03StreamEntry registers a stream decoder under 4 chunkings of the same bytes.
func vfC03StreamEntry(r *vfC03Run, k *vfKit, name string, dec func(rd io.Reader) error) {
	r.Entry(name, func(b []byte) {
		for mode := 0; mode < 4; mode++ {
			rd := &vfC03Reader{data: b, mode: mode, endErr: io.EOF}
			err := dec(rd)
			if err == nil {
				k.Count("ev_accepted", 1)
			} else {
				k.Count("ev_rejected", 1)
			}
			if rd.off > len(b) {
				panic("harness: reader over-read")
			}
		}
	})
}

func TestVerifC03ProtoTCPRequest(t *testing.T) {
	k := vfNewKit(t, "C03", "proto-tcpreq")
	defer k.Finish()
	r := vfC03New(k)
	defer r.Close()
	const entry = "protocol:ReadTCPRequest"
	vfC03StreamEntry(r, k, entry, func(rd io.Reader) error { _, err := ReadTCPRequest(rd); return err })
	if r.Replay() {
		return
	}
	rng := k.Rand("gen")
	n := 0
	canary := func() {
		n++
		addr := fmt.Sprintf("c03-%d.verif:%d", n, 1+n%65535)
		r.Canary(entry, "", addr, func() error {
			var w bytes.Buffer
			if err := WriteTCPRequest(&w, addr); err != nil {
				return err
			}
			frame := w.Bytes()[2:] // the server consumes the 0x401 frame type (2-byte varint) before ReadTCPRequest
			got, err := ReadTCPRequest(&vfC03Reader{data: vfExact(frame), mode: n % 4, endErr: io.EOF})
			if err != nil || got != addr {
				return fmt.Errorf("wrote %q, read back %q, err=%v", addr, got, err)
			}
			return nil
		})
	}
	emit := func(b []byte) {
		r.Do(entry, b)
		if k.Counter("ev_inputs")%500 == 0 {
			canary()
		}
	}
	// (a) all lengths 0..64 of structured prefixes
	var heads [][]byte
	for _, l := range []uint64{1<<62 - 1, 0, 1, 5, 60, 63, 64, 2047, 2048, 2049, 16383, 1 << 30} { // absurd first
		for _, w := range []int{8, 4, 2, 1} {
			heads = append(heads, vfC03Varint(l, w))
		}
	}
	heads = append(heads, vfC03TCPRequestSeed("a:1", 0), vfC03TCPRequestSeed("a:1", 4096)[:8], vfC03Cat(vfC03Varint(3, 1), []byte("a:1"), vfC03Varint(4097, 2)))
	vfC03Prefixes(rng, heads, 64, emit)
	// (b) mutations of valid seeds
	lens := vfC03LenValues(MaxAddressLength, MaxPaddingLength, MaxMessageLength)
	seeds := []struct {
		addr string
		pad  int
	}{{"a:1", 0}, {strings.Repeat("h", 60) + ":80", 64}, {strings.Repeat("x", 2044) + ":443", 300}, {"[2001:db8::1]:53", 4096}}
	for _, s := range seeds {
		seed := vfC03TCPRequestSeed(s.addr, s.pad)
		al := len(vfC03VarintMin(uint64(len(s.addr))))
		fields := []vfC03Field{{0, al, "varint"}, {al + len(s.addr), len(vfC03VarintMin(uint64(s.pad))), "varint"}}
		vfC03Mutations(rng, seed, fields, lens, k.N(300, 6000), emit)
	}
	// (c) random bytes
	vfC03Random(rng, k.N(2500, 100000), 6000, emit)
	canary()
	k.Sample(map[string]any{"entry": entry, "inputs": k.Counter("ev_inputs"), "example": vfHex(vfC03TCPRequestSeed("example.com:443", 10))})
}

func TestVerifC03ProtoTCPResponse(t *testing.T) {
	k := vfNewKit(t, "C03", "proto-tcpresp")
	defer k.Finish()
	r := vfC03New(k)
	defer r.Close()
	const entry = "protocol:ReadTCPResponse"
	vfC03StreamEntry(r, k, entry, func(rd io.Reader) error { _, _, err := ReadTCPResponse(rd); return err })
	if r.Replay() {
		return
	}
	rng := k.Rand("gen")
	n := 0
	canary := func() {
		n++
		ok := n%2 == 0
		msg := fmt.Sprintf("c03 message %d", n)
		if n%5 == 0 {
			msg = ""
		}
		r.Canary(entry, "", msg, func() error {
			var w bytes.Buffer
			if err := WriteTCPResponse(&w, ok, msg); err != nil {
				return err
			}
			gotOK, gotMsg, err := ReadTCPResponse(&vfC03Reader{data: vfExact(w.Bytes()), mode: n % 4, endErr: io.EOF})
			if err != nil || gotOK != ok || gotMsg != msg {
				return fmt.Errorf("wrote (%v,%q), read back (%v,%q), err=%v", ok, msg, gotOK, gotMsg, err)
			}
			return nil
		})
	}
	emit := func(b []byte) {
		r.Do(entry, b)
		if k.Counter("ev_inputs")%500 == 0 {
			canary()
		}
	}
	var heads [][]byte
	for _, st := range []byte{0, 1, 2, 0xff} {
		heads = append(heads, []byte{st})
		for _, l := range []uint64{1<<62 - 1, 0, 1, 63, 2048, 2049} { // absurd first
			for _, w := range []int{8, 2, 1} {
				heads = append(heads, vfC03Cat([]byte{st}, vfC03Varint(l, w)))
			}
		}
	}
	vfC03Prefixes(rng, heads, 64, emit)
	lens := vfC03LenValues(MaxAddressLength, MaxPaddingLength, MaxMessageLength)
	seeds := []struct {
		st  byte
		msg string
		pad int
	}{{0, "", 0}, {1, "connection refused", 100}, {1, strings.Repeat("m", 2048), 4096}, {0, strings.Repeat("m", 64), 64}}
	for _, s := range seeds {
		seed := vfC03TCPResponseSeed(s.st, s.msg, s.pad)
		ml := len(vfC03VarintMin(uint64(len(s.msg))))
		fields := []vfC03Field{{0, 1, "u8"}, {1, ml, "varint"}, {1 + ml + len(s.msg), len(vfC03VarintMin(uint64(s.pad))), "varint"}}
		vfC03Mutations(rng, seed, fields, lens, k.N(300, 6000), emit)
	}
	vfC03Random(rng, k.N(2500, 100000), 6000, emit)
	canary()
	k.Sample(map[string]any{"entry": entry, "inputs": k.Counter("ev_inputs"), "example": vfHex(vfC03TCPResponseSeed(1, "connection refused", 3))})
}

func TestVerifC03ProtoUDPMessage(t *testing.T) {
	k := vfNewKit(t, "C03", "proto-udpmsg")
	defer k.Finish()
	r := vfC03New(k)
	defer r.Close()
	const entry = "protocol:ParseUDPMessage"
	r.Entry(entry, func(b []byte) {
		m, err := ParseUDPMessage(b)
		if err != nil {
			k.Count("ev_rejected", 1)
			return
		}
		k.Count("ev_accepted", 1)
		// what the callers do next with an accepted message: measure it and serialize it again
		// into an exactly fitting buffer and into a buffer that is one byte short
		sz := m.Size()
		buf := make([]byte, sz)
		if n := m.Serialize(buf); n != sz {
			panic(fmt.Sprintf("Serialize into an exact buffer returned %d, Size()=%d", n, sz))
		}
		if sz > 0 {
			_ = m.Serialize(buf[: sz-1 : sz-1])
		}
	})
	if r.Replay() {
		return
	}
	rng := k.Rand("gen")
	n := 0
	canary := func() {
		n++
		addr := fmt.Sprintf("c03-%d.verif:53", n)
		data := []byte(fmt.Sprintf("c03 canary payload %d", n))
		r.Canary(entry, "", addr, func() error {
			m := &UDPMessage{SessionID: uint32(n), PacketID: uint16(n), FragID: 0, FragCount: 1, Addr: addr, Data: data}
			buf := make([]byte, m.Size())
			if m.Serialize(buf) != len(buf) {
				return errors.New("serialize failed")
			}
			got, err := ParseUDPMessage(buf)
			if err != nil || got.Addr != addr || !bytes.Equal(got.Data, data) || got.SessionID != uint32(n) || got.PacketID != uint16(n) || got.FragCount != 1 {
				return fmt.Errorf("round trip failed: %+v err=%v", got, err)
			}
			return nil
		})
	}
	emit := func(b []byte) {
		r.Do(entry, b)
		if k.Counter("ev_inputs")%500 == 0 {
			canary()
		}
	}
	var heads [][]byte
	hdr := []byte{0, 0, 0, 1, 0, 2, 0, 1}
	heads = append(heads, nil, hdr[:4], hdr[:7], hdr)
	for _, l := range []uint64{1<<62 - 1, 0, 1, 3, 55, 56, 57, 63, 64, 2047, 2048, 2049, 16383, 1 << 30} {
		for _, w := range []int{8, 4, 2, 1} {
			heads = append(heads, vfC03Cat(hdr, vfC03Varint(l, w)))
			heads = append(heads, vfC03Cat([]byte{0xff, 0xff, 0xff, 0xff, 0xff, 0xff, 0xff, 0xff}, vfC03Varint(l, w)))
		}
	}
	vfC03Prefixes(rng, heads, 64, emit)
	lens := vfC03LenValues(MaxAddressLength, MaxMessageLength, MaxUDPSize, MaxDatagramFrameSize)
	seeds := [][]byte{
		vfC03UDPSeed(1, 0, 0, 1, "a:1", []byte{0xaa}),
		vfC03UDPSeed(0x01020304, 7, 1, 3, "example.com:443", bytes.Repeat([]byte{0xbb}, 40)),
		vfC03UDPSeed(9, 0xffff, 254, 255, strings.Repeat("h", 60)+":80", bytes.Repeat([]byte{0xcc}, 1100)),
		vfC03UDPSeed(9, 1, 0, 1, strings.Repeat("x", 2044)+":443", []byte{1}),
	}
	for i, seed := range seeds {
		al := []int{1, 1, 1, 2}[i] // width of the address-length varint in this seed
		vfC03Mutations(rng, seed, []vfC03Field{{6, 1, "u8"}, {7, 1, "u8"}, {8, al, "varint"}}, lens, k.N(300, 6000), emit)
	}
	vfC03Random(rng, k.N(6000, 150000), 4096, emit)
	canary()
	k.Sample(map[string]any{"entry": entry, "inputs": k.Counter("ev_inputs"), "example": vfHex(seeds[1])})
}

// ---------------------------------------------------------------------------- thorough: native fuzzing as workload generator

func FuzzVerifC03ParseUDPMessage(f *testing.F) {
	z := vfC03FuzzBegin(f, "fuzz-proto-udpmsg", "proto-udpmsg")
	defer z.End()
	f.Add(vfC03UDPSeed(1, 0, 0, 1, "a:1", []byte{0xaa}))
	f.Add(vfC03UDPSeed(0x01020304, 7, 1, 3, "example.com:443", bytes.Repeat([]byte{0xbb}, 40)))
	f.Add([]byte{})
	f.Fuzz(func(t *testing.T, b []byte) {
		z.Exec("protocol:ParseUDPMessage", b, func(b []byte) {
			if m, err := ParseUDPMessage(b); err == nil {
				buf := make([]byte, m.Size())
				_ = m.Serialize(buf)
			}
		})
	})
}

func FuzzVerifC03ReadTCPFrames(f *testing.F) {
	z := vfC03FuzzBegin(f, "fuzz-proto-tcp", "proto-tcpreq")
	defer z.End()
	f.Add(vfC03TCPRequestSeed("example.com:443", 10))
	f.Add(vfC03TCPResponseSeed(1, "connection refused", 3))
	f.Add([]byte{})
	f.Fuzz(func(t *testing.T, b []byte) {
		z.Exec("protocol:ReadTCPRequest", b, func(b []byte) {
			_, _ = ReadTCPRequest(&vfC03Reader{data: b, mode: len(b) % 2, endErr: io.EOF})
		})
		z.Exec("protocol:ReadTCPResponse", b, func(b []byte) {
			_, _, _ = ReadTCPResponse(&vfC03Reader{data: b, mode: len(b) % 2, endErr: io.EOF})
		})
	})
}
