//go:build verif

package protocol

// C04 — reference model and instruments (harness-owned, written from PROTOCOL.md, RFC 9000 §16
// and the property statement; nothing here calls or copies the implementation's codec).
//
//   * vfC04AppendVarint / vfC04ParseVarint: QUIC varints with a CHOSEN width (1/2/4/8), so peer-style
//     frames can carry non-minimal encodings.
//   * vfC04Builder: frame encoder that remembers every field boundary (for "split at boundary" chunkings).
//   * vfC04RefDecode: the oracle. Given the bytes of a stream it says what a conforming reader must do:
//     accept (address/status/message, frame end), reject (which length field, where that field ends,
//     how much it declared) or "short" (stream ends inside the frame).
//   * vfC04Stream: the counting/chunking reader. It implements ONLY io.Reader (like a QUIC stream), serves
//     a scripted chunking into non-empty reads and records what was requested and what was delivered.
//   * vfC04Recorder: io.Writer that keeps every Write call apart.

import (
	"fmt"
	"io"
	"math/rand"
	"sort"
)

// Protocol limits as stated by the property (address 1..2048, message <=2048, padding <=4096).
const (
	vfC04MaxAddr     = 2048
	vfC04MaxMsg      = 2048
	vfC04MaxPad      = 4096
	vfC04MaxAnyField = 4096 // no length field may legally announce more than this
	vfC04TypeTCPReq  = 0x401

	// "Writes once" is the mechanism named by the anchors, not part of the property statement: a writer
	// that emits the same bytes in two Write calls still satisfies C04. Counted (obs_multi_write_frames)
	// by default; set to true to turn it into a violation.
	vfC04StrictSingleWrite = false
)

// ---------------------------------------------------------------------------- varints (RFC 9000 §16)

func vfC04VarintFits(v uint64, w int) bool {
	switch w {
	case 1:
		return v < 1<<6
	case 2:
		return v < 1<<14
	case 4:
		return v < 1<<30
	case 8:
		return v < 1<<62
	}
	return false
}

// vfC04Widths lists every encoding width a peer may choose for v.
func vfC04Widths(v uint64) []int {
	var ws []int
	for _, w := range []int{1, 2, 4, 8} {
		if vfC04VarintFits(v, w) {
			ws = append(ws, w)
		}
	}
	return ws
}

func vfC04MinWidth(v uint64) int { return vfC04Widths(v)[0] }

func vfC04AppendVarint(b []byte, v uint64, w int) []byte {
	if !vfC04VarintFits(v, w) {
		panic(fmt.Sprintf("verif harness: %d does not fit a %d-byte varint", v, w))
	}
	var prefix byte
	switch w {
	case 2:
		prefix = 1
	case 4:
		prefix = 2
	case 8:
		prefix = 3
	}
	start := len(b)
	for i := w - 1; i >= 0; i-- {
		b = append(b, byte(v>>(8*uint(i))))
	}
	b[start] |= prefix << 6
	return b
}

// vfC04ParseVarint returns value, width, complete.
func vfC04ParseVarint(b []byte) (uint64, int, bool) {
	if len(b) == 0 {
		return 0, 0, false
	}
	w := 1 << (b[0] >> 6)
	if len(b) < w {
		return 0, w, false
	}
	v := uint64(b[0] & 0x3f)
	for i := 1; i < w; i++ {
		v = v<<8 | uint64(b[i])
	}
	return v, w, true
}

// ---------------------------------------------------------------------------- frame builder

type vfC04Builder struct {
	B      []byte
	Bounds []int // offset just after each field
	Names  []string
}

func (w *vfC04Builder) mark(name string) {
	w.Bounds = append(w.Bounds, len(w.B))
	w.Names = append(w.Names, name)
}

func (w *vfC04Builder) Varint(name string, v uint64, width int) *vfC04Builder {
	w.B = vfC04AppendVarint(w.B, v, width)
	w.mark(name)
	return w
}

func (w *vfC04Builder) Raw(name string, p []byte) *vfC04Builder {
	w.B = append(w.B, p...)
	w.mark(name)
	return w
}

// vfC04BuildFrame encodes a well-formed peer frame. kind: "req" (address length first), "srv" (0x401
// first, then a request) or "resp" (status byte first).
func vfC04BuildFrame(kind string, typeW int, status byte, body []byte, lenW int, pad []byte, padW int) *vfC04Builder {
	w := &vfC04Builder{}
	switch kind {
	case "srv":
		w.Varint("type", vfC04TypeTCPReq, typeW)
	case "resp":
		w.Raw("status", []byte{status})
	}
	w.Varint("len", uint64(len(body)), lenW)
	if len(body) > 0 {
		w.Raw("body", body)
	}
	w.Varint("padlen", uint64(len(pad)), padW)
	if len(pad) > 0 {
		w.Raw("pad", pad)
	}
	if w.Bounds[len(w.Bounds)-1] != len(w.B) {
		w.mark("end")
	}
	return w
}

// ---------------------------------------------------------------------------- reference decoder (oracle)

type vfC04Ref struct {
	Outcome   string // accept | reject | short | badtype
	Class     string // reject: addr-empty | addr-over | msg-over | pad-over
	Body      []byte // address / message when it is completely present
	BodyKnown bool
	OK        bool // response status == 0x00
	TypeEnd   int  // "srv": offset after the frame type
	Start     int  // where ReadTCPRequest/ReadTCPResponse starts
	LenW      int
	PadW      int
	PadLen    int
	FrameEnd  int    // accept: offset of the first payload byte
	HeaderEnd int    // reject: offset just after the offending length field
	Declared  uint64 // reject: what that field announced
	MustError bool   // short: the address/message itself is incomplete, accepting cannot be right
	Bounds    []int  // field boundaries found
}

func vfC04RefDecode(kind string, data []byte) vfC04Ref {
	var x vfC04Ref
	off := 0
	short := func(must bool) vfC04Ref { x.Outcome = "short"; x.MustError = must; return x }
	if kind == "srv" {
		v, w, ok := vfC04ParseVarint(data)
		if !ok {
			return short(true)
		}
		if v != vfC04TypeTCPReq {
			x.Outcome = "badtype"
			return x
		}
		off += w
		x.TypeEnd = off
		x.Bounds = append(x.Bounds, off)
	}
	x.Start = off
	isResp := kind == "resp"
	if isResp {
		if len(data) < 1 {
			return short(true)
		}
		x.OK = data[0] == 0x00
		off = 1
		x.Bounds = append(x.Bounds, off)
	}
	n, w, ok := vfC04ParseVarint(data[off:])
	if !ok {
		return short(true)
	}
	off += w
	x.LenW = w
	x.Bounds = append(x.Bounds, off)
	limit := uint64(vfC04MaxAddr)
	over := "addr-over"
	if isResp {
		limit, over = vfC04MaxMsg, "msg-over"
	}
	if !isResp && n == 0 {
		x.Outcome, x.Class, x.HeaderEnd, x.Declared = "reject", "addr-empty", off, 0
		return x
	}
	if n > limit {
		x.Outcome, x.Class, x.HeaderEnd, x.Declared = "reject", over, off, n
		return x
	}
	if uint64(len(data)-off) < n {
		return short(true)
	}
	x.Body = data[off : off+int(n)]
	x.BodyKnown = true
	off += int(n)
	if n > 0 {
		x.Bounds = append(x.Bounds, off)
	}
	p, w, ok := vfC04ParseVarint(data[off:])
	if !ok {
		return short(false)
	}
	off += w
	x.PadW = w
	x.Bounds = append(x.Bounds, off)
	if p > vfC04MaxPad {
		x.Outcome, x.Class, x.HeaderEnd, x.Declared = "reject", "pad-over", off, p
		return x
	}
	if uint64(len(data)-off) < p {
		return short(false)
	}
	x.PadLen = int(p)
	off += int(p)
	if p > 0 {
		x.Bounds = append(x.Bounds, off)
	}
	x.FrameEnd = off
	x.Outcome = "accept"
	return x
}

// ---------------------------------------------------------------------------- chunk plans

type vfC04Plan struct {
	Name        string `json:"name"`
	Cuts        []int  `json:"cuts,omitempty"`      // a read never crosses one of these stream offsets
	MaxChunk    int    `json:"max_chunk,omitempty"` // 1 = byte-wise
	EOFWithLast bool   `json:"eof_with_last_byte,omitempty"`
}

func vfC04RandomCuts(r *rand.Rand, total, n int) []int {
	if total < 2 {
		return nil
	}
	m := map[int]bool{}
	for i := 0; i < n; i++ {
		m[1+r.Intn(total-1)] = true
	}
	out := make([]int, 0, len(m))
	for c := range m {
		out = append(out, c)
	}
	sort.Ints(out)
	return out
}

// vfC04PlanMenu: whole, byte-wise, small fixed chunks, random sparse/dense, one cut at every field
// boundary (and one byte before/after it), all boundaries at once; EOF delivered together with the last
// byte or on the following read.
func vfC04PlanMenu(r *rand.Rand, bounds []int, total int) []vfC04Plan {
	mc := 3 + r.Intn(14)
	plans := []vfC04Plan{
		{Name: "whole"},
		{Name: "bytewise", MaxChunk: 1},
		{Name: "whole+eof", EOFWithLast: true},
		{Name: "max2", MaxChunk: 2},
		{Name: fmt.Sprintf("max%d", mc), MaxChunk: mc},
		{Name: "all-bounds", Cuts: append([]int(nil), bounds...)},
		{Name: "all-bounds+eof", Cuts: append([]int(nil), bounds...), EOFWithLast: true},
		{Name: "bytewise+eof", MaxChunk: 1, EOFWithLast: true},
	}
	plans = append(plans,
		vfC04Plan{Name: "random-sparse", Cuts: vfC04RandomCuts(r, total, 1+r.Intn(4))},
		vfC04Plan{Name: "random-mid", Cuts: vfC04RandomCuts(r, total, 5+r.Intn(30))},
		vfC04Plan{Name: "random-dense", Cuts: vfC04RandomCuts(r, total, total/(2+r.Intn(6))+1)},
	)
	for i, b := range bounds {
		for _, d := range []int{0, -1, 1} {
			off := b + d
			if off <= 0 || off >= total {
				continue
			}
			plans = append(plans, vfC04Plan{Name: fmt.Sprintf("cut@field%d%+d", i, d), Cuts: []int{off}})
		}
	}
	return plans
}

// ---------------------------------------------------------------------------- counting / chunking reader

// vfC04Stream deliberately has no method besides Read that any io interface knows (no ReadByte, no
// WriteTo, no Peek): quicvarint.NewReader must wrap it, exactly as it wraps a QUIC stream.
type vfC04Stream struct {
	data        []byte
	pos         int // bytes delivered so far == offset of the next undelivered byte
	cuts        []int
	ci          int
	maxChunk    int
	eofWithLast bool

	// what the code under test asked for
	reads     int
	maxReq    int // largest len(p) of a single Read
	highwater int // furthest stream offset any Read reached for (pos + len(p))
	zeroReads int
}

func vfC04NewStream(data []byte, p vfC04Plan) *vfC04Stream {
	return &vfC04Stream{data: data, cuts: p.Cuts, maxChunk: p.MaxChunk, eofWithLast: p.EOFWithLast}
}

func (s *vfC04Stream) Read(p []byte) (int, error) {
	s.reads++
	if len(p) > s.maxReq {
		s.maxReq = len(p)
	}
	if hw := s.pos + len(p); hw > s.highwater {
		s.highwater = hw
	}
	if len(p) == 0 {
		s.zeroReads++
		return 0, nil
	}
	if s.pos >= len(s.data) {
		return 0, io.EOF
	}
	n := len(p)
	if rem := len(s.data) - s.pos; n > rem {
		n = rem
	}
	for s.ci < len(s.cuts) && s.cuts[s.ci] <= s.pos {
		s.ci++
	}
	if s.ci < len(s.cuts) && s.cuts[s.ci]-s.pos < n {
		n = s.cuts[s.ci] - s.pos
	}
	if s.maxChunk > 0 && n > s.maxChunk {
		n = s.maxChunk
	}
	copy(p, s.data[s.pos:s.pos+n]) // n >= 1 always: reads are never empty
	s.pos += n
	if s.eofWithLast && s.pos == len(s.data) {
		return n, io.EOF
	}
	return n, nil
}

// resetRequests forgets the request statistics (used after the frame type was consumed).
func (s *vfC04Stream) resetRequests() {
	s.reads, s.maxReq, s.highwater, s.zeroReads = 0, 0, s.pos, 0
}

// ---------------------------------------------------------------------------- write recorder

type vfC04Recorder struct {
	writes [][]byte
}

func (w *vfC04Recorder) Write(p []byte) (int, error) {
	w.writes = append(w.writes, vfExact(p))
	return len(p), nil
}

func (w *vfC04Recorder) All() []byte {
	var b []byte
	for _, x := range w.writes {
		b = append(b, x...)
	}
	return b
}

// ---------------------------------------------------------------------------- tagged content

// vfC04Content makes an address/message of exactly n bytes starting with a unique tag (as far as it fits);
// the rest is, depending on the draw, host:port-like text, arbitrary bytes (incl. 0x00 and >=0x80), bytes
// that look like varint prefixes and limits, or offset-coded bytes.
func vfC04Content(r *rand.Rand, tag string, n int) []byte {
	b := make([]byte, n)
	switch r.Intn(4) {
	case 0:
		const al = "abcdefghijklmnopqrstuvwxyz0123456789.-"
		for i := range b {
			b[i] = al[r.Intn(len(al))]
		}
		if n >= 5 {
			copy(b[n-4:], ":443")
		}
	case 1:
		r.Read(b)
	case 2:
		set := []byte{0x00, 0x01, 0x3f, 0x40, 0x44, 0x48, 0x7f, 0x80, 0xbf, 0xc0, 0xff, 0x08, 0x10}
		for i := range b {
			b[i] = set[r.Intn(len(set))]
		}
	default:
		for i := range b {
			b[i] = byte(i) ^ byte(i>>8) ^ 0x5a
		}
	}
	copy(b, tag)
	return b
}

// vfC04Payload is the tunnel payload that follows a frame: offset-coded, first byte drawn from values a
// greedy parser could mistake for a length.
func vfC04Payload(r *rand.Rand, n int) []byte {
	b := make([]byte, n)
	for i := range b {
		b[i] = 0xA0 ^ byte(i*13) ^ byte(i>>8)
	}
	if n > 0 {
		first := []byte{0x00, 0x01, 0x40, 0x80, 0xc0, 0xff, 0x50, 0x3f}
		b[0] = first[r.Intn(len(first))]
	}
	return b
}

func vfC04Pad(r *rand.Rand, n int) []byte {
	b := make([]byte, n)
	set := []byte{'p', 'P', 0x00, 0x40, 0xc0, 0xff}
	c := set[r.Intn(len(set))]
	for i := range b {
		b[i] = c
	}
	return b
}
