//go:build verif

package protocol

// C04 — TCP request/response framing is lossless, exact and bounded.
//
// Parts (see DESIGN.md §3 C04; instruments and the reference decoder are in c04_model_test.go):
//   roundtrip:    real WriteTCPRequest/WriteTCPResponse -> recorder -> (reference decode of the written
//                 bytes) -> + trailing payload -> chunking reader -> real ReadTCPRequest/ReadTCPResponse,
//                 for EVERY address length 1..2048 and message length 0..2048 (both statuses).
//   writers:      many more draws of the writers' random padding; written bytes must be exactly one
//                 well-formed frame under the reference decoder.
//   peer-frames:  frames built by the harness encoder: boundary lengths x every varint width (incl.
//                 non-minimal) for both length fields x every chunking x trailing payloads; truncated
//                 frames; plus random frames judged against the reference decoder.
//   reject:       empty address / over-limit address, message, padding (up to 2^62-1): error, nothing
//                 delivered beyond the offending length field, no oversized read request, nothing
//                 like the declared amount requested or allocated.
//   server-path:  0x401 consumed with quicvarint.Read(quicvarint.NewReader(stream)) as
//                 ProxyStreamHijacker does, then ReadTCPRequest; payload must be left intact.
//
// One judge (vfC04Judge) decides every case: the reference decoder says what a conforming reader must
// do with the stream, the real reader runs on the counting reader, and both are compared.

import (
	"bytes"
	"encoding/hex"
	"fmt"
	"io"
	"math/rand"
	"runtime"
	"testing"

	"github.com/apernet/quic-go/quicvarint"
)

type vfC04Case struct {
	CaseID   string    `json:"case_id"`
	Kind     string    `json:"kind"`   // req | resp | srv
	Source   string    `json:"source"` // real-writer | peer-encoder | random
	BodyLen  int       `json:"body_len"`
	LenW     int       `json:"len_varint_width,omitempty"`
	PadLen   int       `json:"pad_len"`
	PadW     int       `json:"pad_varint_width,omitempty"`
	TypeW    int       `json:"type_varint_width,omitempty"`
	Status   int       `json:"status,omitempty"`
	Declared uint64    `json:"declared,omitempty"`
	Trailing int       `json:"trailing_payload_len"`
	CutAt    int       `json:"stream_truncated_at,omitempty"`
	Plan     vfC04Plan `json:"chunking"`
	NoAlloc  bool      `json:"-"` // skip the (stop-the-world) allocation measurement for this case
}

// vfC04Agg: per-part gauges that are not sums.
type vfC04Agg struct {
	maxReqAccept int
	maxReqReject int
	maxPastHdr   int
	maxAllocRej  uint64
	allocTripped bool // an allocation violation was recorded: stop offering huge declared lengths (each costs up to 1 GiB)
	padSeen      map[string]map[int]bool
	minPad       map[string]int
	maxPad       map[string]int
}

func vfC04NewAgg() *vfC04Agg {
	return &vfC04Agg{padSeen: map[string]map[int]bool{}, minPad: map[string]int{}, maxPad: map[string]int{}}
}

func (a *vfC04Agg) flush(k *vfKit) {
	k.Count("obs_max_single_request_accepted_frames", int64(a.maxReqAccept))
	k.Count("obs_max_single_request_rejected_frames", int64(a.maxReqReject))
	k.Count("obs_max_bytes_delivered_past_length_field_on_reject", int64(a.maxPastHdr))
	k.Count("obs_max_alloc_bytes_during_reject", int64(a.maxAllocRej))
	for kind, m := range a.padSeen {
		k.Count("obs_distinct_padding_lengths_"+kind, int64(len(m)))
		k.Count("obs_min_padding_"+kind, int64(a.minPad[kind]))
		k.Count("obs_max_padding_"+kind, int64(a.maxPad[kind]))
	}
}

func (a *vfC04Agg) pad(kind string, n int) {
	m := a.padSeen[kind]
	if m == nil {
		m = map[int]bool{}
		a.padSeen[kind] = m
		a.minPad[kind] = n
		a.maxPad[kind] = n
	}
	m[n] = true
	if n < a.minPad[kind] {
		a.minPad[kind] = n
	}
	if n > a.maxPad[kind] {
		a.maxPad[kind] = n
	}
}

func vfC04SelfCheck(t *testing.T) {
	var x any = &vfC04Stream{}
	if _, ok := x.(io.ByteReader); ok {
		t.Fatal("verif harness: the chunking reader must not implement io.ByteReader")
	}
	if _, ok := x.(io.WriterTo); ok {
		t.Fatal("verif harness: the chunking reader must not implement io.WriterTo")
	}
	// the harness varint codec agrees with itself on every width
	for _, v := range []uint64{0, 1, 63, 64, 16383, 16384, 1<<30 - 1, 1 << 30, 1<<62 - 1} {
		for _, w := range vfC04Widths(v) {
			b := vfC04AppendVarint(nil, v, w)
			g, gw, ok := vfC04ParseVarint(append(b, 0xEE))
			if !ok || g != v || gw != w || len(b) != w {
				t.Fatalf("verif harness: varint self-check failed for %d width %d", v, w)
			}
		}
	}
	// RFC 9000 appendix A.1 vectors
	for _, tv := range []struct {
		h string
		v uint64
	}{{"c2197c5eff14e88c", 151288809941952652}, {"9d7f3e7d", 494878333}, {"7bbd", 15293}, {"25", 37}, {"4025", 37}} {
		b, _ := hex.DecodeString(tv.h)
		g, w, ok := vfC04ParseVarint(b)
		if !ok || g != tv.v || w != len(b) {
			t.Fatalf("verif harness: RFC 9000 vector %s decodes to %d", tv.h, g)
		}
	}
}

func vfC04Replay(c *vfC04Case, data []byte, exp *vfC04Ref, s *vfC04Stream) map[string]any {
	m := map[string]any{"case_id": c.CaseID, "case": c, "stream_len": len(data)}
	if len(data) <= 20000 {
		m["stream_hex"] = hex.EncodeToString(data)
	} else {
		m["stream_hex_head"] = hex.EncodeToString(data[:64])
	}
	if exp != nil {
		m["reference"] = map[string]any{"outcome": exp.Outcome, "class": exp.Class, "frame_end": exp.FrameEnd,
			"offending_field_ends_at": exp.HeaderEnd, "declared": exp.Declared, "reader_starts_at": exp.Start,
			"body_len": len(exp.Body), "pad_len": exp.PadLen, "field_bounds": exp.Bounds}
	}
	if s != nil {
		m["observed"] = map[string]any{"delivered": s.pos, "read_calls": s.reads, "largest_request": s.maxReq,
			"furthest_offset_requested": s.highwater}
	}
	return m
}

func vfC04FirstDiff(a, b []byte) int {
	n := len(a)
	if len(b) < n {
		n = len(b)
	}
	for i := 0; i < n; i++ {
		if a[i] != b[i] {
			return i
		}
	}
	if len(a) != len(b) {
		return n
	}
	return -1
}

// vfC04Judge runs the real reader over data (frame [+ trailing payload]) in the given chunking and
// compares with the reference decoder. Returns the reference verdict.
func vfC04Judge(k *vfKit, ag *vfC04Agg, c *vfC04Case, data []byte, plan vfC04Plan) vfC04Ref {
	exp := vfC04RefDecode(c.Kind, data)
	if exp.Outcome == "badtype" || (c.Kind == "srv" && exp.TypeEnd == 0) {
		k.t.Fatalf("verif harness: case %s has no 0x401 frame type", c.CaseID)
	}
	c.Plan = plan
	if ag.allocTripped && exp.Outcome == "reject" && exp.Declared >= 1<<20 {
		// cost control only: the finding is already recorded, every further case of this kind would make the
		// faulty reader allocate the declared amount (up to GiBs) again
		k.Count("obs_huge_declared_cases_skipped_after_alloc_violation", 1)
		return exp
	}
	k.Eval()
	s := vfC04NewStream(data, plan)
	site := "proxy.ReadTCPRequest"
	if c.Kind == "resp" {
		site = "proxy.ReadTCPResponse"
	}
	if c.Kind == "srv" {
		site = "server-path(type+ReadTCPRequest)"
		// exactly what ProxyStreamHijacker does before handing the stream to handleTCPRequest
		var ft uint64
		var err error
		if k.Guard(site+":panic", c, func() { ft, err = quicvarint.Read(quicvarint.NewReader(s)) }) {
			return exp
		}
		k.Count("ev_type_varints_consumed", 1)
		if err != nil || ft != vfC04TypeTCPReq {
			k.Violation(site+":frame-type-misread", vfC04Replay(c, data, &exp, s), "frame type read as %#x err=%v, stream starts with a %d-byte varint 0x401", ft, err, exp.TypeEnd)
			return exp
		}
		if s.pos != exp.TypeEnd {
			k.Violation(site+":frame-type-consumed-wrong-amount", vfC04Replay(c, data, &exp, s), "consuming the frame type took %d bytes off the stream, its varint is %d bytes", s.pos, exp.TypeEnd)
			return exp
		}
		s.resetRequests()
	}

	measure := exp.Outcome == "reject" && exp.Declared >= 1<<16 && !c.NoAlloc
	var m1, m2 runtime.MemStats
	var gotBody string
	var gotOK bool
	var err error
	guardRep := vfC04Replay(c, nil, &exp, nil)
	if measure {
		runtime.ReadMemStats(&m1)
	}
	panicked := k.Guard(site+":panic", guardRep, func() {
		if c.Kind == "resp" {
			gotOK, gotBody, err = ReadTCPResponse(s)
		} else {
			gotBody, err = ReadTCPRequest(s)
		}
	})
	if measure {
		runtime.ReadMemStats(&m2)
	}
	if panicked {
		return exp
	}
	k.Count("ev_read_calls_observed", int64(s.reads))

	switch exp.Outcome {
	case "accept":
		k.Count("ev_valid_frames_read", 1)
		if s.maxReq > ag.maxReqAccept {
			ag.maxReqAccept = s.maxReq
		}
		if err != nil {
			k.Violation(site+":valid-frame-rejected", vfC04Replay(c, data, &exp, s), "valid frame (body %d bytes, padding %d, varint widths %d/%d, chunking %s) rejected: %v",
				len(exp.Body), exp.PadLen, exp.LenW, exp.PadW, plan.Name, err)
			return exp
		}
		if gotBody != string(exp.Body) {
			k.Violation(site+":read-back-differs", vfC04Replay(c, data, &exp, s), "read back %d bytes, written %d bytes, first difference at index %d",
				len(gotBody), len(exp.Body), vfC04FirstDiff([]byte(gotBody), exp.Body))
			return exp
		}
		if c.Kind == "resp" && gotOK != exp.OK {
			k.Violation(site+":status-differs", vfC04Replay(c, data, &exp, s), "status byte %#02x read back as ok=%v", data[0], gotOK)
			return exp
		}
		if s.pos > exp.FrameEnd {
			k.Violation(site+":payload-swallowed", vfC04Replay(c, data, &exp, s),
				"reader consumed %d byte(s) beyond the frame (frame ends at offset %d, delivered %d; first swallowed payload byte %#02x; largest request %d, chunking %s)",
				s.pos-exp.FrameEnd, exp.FrameEnd, s.pos, data[exp.FrameEnd], s.maxReq, plan.Name)
			return exp
		}
		if s.pos < exp.FrameEnd {
			k.Violation(site+":frame-bytes-left", vfC04Replay(c, data, &exp, s),
				"reader returned success but left %d frame byte(s) unread (frame ends at %d, delivered %d)", exp.FrameEnd-s.pos, exp.FrameEnd, s.pos)
			return exp
		}
		// what the tunnel would read next must be the payload, byte for byte
		furthest := s.highwater
		rest, _ := io.ReadAll(s)
		if !bytes.Equal(rest, data[exp.FrameEnd:]) {
			k.Violation(site+":remaining-not-payload", vfC04Replay(c, data, &exp, s), "remaining stream (%d bytes) differs from the trailing payload (%d bytes)", len(rest), len(data)-exp.FrameEnd)
			return exp
		}
		k.Count("ev_payload_bytes_intact", int64(len(rest)))
		if furthest > exp.FrameEnd {
			// not a violation by itself (nothing was swallowed in THIS chunking); the same reader is also run
			// with payload available behind the frame, where such a request does swallow
			k.Count("obs_requests_reaching_past_frame_end", 1)
		}
		k.Nontrivial(fmt.Sprintf("ok/%s/%d/%d/%d/%d/%d/%s/%d", c.Kind, len(exp.Body), exp.LenW, exp.PadLen, exp.PadW, exp.TypeEnd, plan.Name, len(data)-exp.FrameEnd))

	case "reject":
		k.Count("ev_bad_frames_offered", 1)
		k.Count("ev_bad_"+exp.Class, 1)
		if s.maxReq > ag.maxReqReject {
			ag.maxReqReject = s.maxReq
		}
		if d := s.pos - exp.HeaderEnd; d > ag.maxPastHdr {
			ag.maxPastHdr = d
		}
		if err == nil {
			k.Violation(site+":bad-frame-accepted:"+exp.Class, vfC04Replay(c, data, &exp, s), "frame with %s (declared %d) accepted, returned %d bytes", exp.Class, exp.Declared, len(gotBody))
			return exp
		}
		if s.pos > exp.HeaderEnd {
			k.Violation(site+":read-on-before-reject:"+exp.Class, vfC04Replay(c, data, &exp, s),
				"%s (declared %d): %d byte(s) beyond the offending length field were read before the frame was rejected (field ends at offset %d, delivered %d, err=%v)",
				exp.Class, exp.Declared, s.pos-exp.HeaderEnd, exp.HeaderEnd, s.pos, err)
			return exp
		}
		if s.maxReq > vfC04MaxAnyField {
			k.Violation(site+":oversized-read-request:"+exp.Class, vfC04Replay(c, data, &exp, s), "%s (declared %d): a single Read of %d bytes was requested (no field may exceed %d)", exp.Class, exp.Declared, s.maxReq, vfC04MaxAnyField)
			return exp
		}
		if exp.Declared > 0 && s.highwater > exp.HeaderEnd && uint64(s.highwater-exp.HeaderEnd) >= exp.Declared {
			k.Violation(site+":declared-amount-requested:"+exp.Class, vfC04Replay(c, data, &exp, s), "%s: reads reached %d bytes past the length field, the declared amount is %d", exp.Class, s.highwater-exp.HeaderEnd, exp.Declared)
			return exp
		}
		if measure {
			delta := m2.TotalAlloc - m1.TotalAlloc
			if delta > ag.maxAllocRej {
				ag.maxAllocRej = delta
			}
			k.Count("ev_alloc_measured_rejects", 1)
			if delta >= exp.Declared {
				ag.allocTripped = true
				k.Violation(site+":declared-amount-allocated:"+exp.Class, vfC04Replay(c, data, &exp, s), "%s: %d bytes were allocated while rejecting a frame declaring %d", exp.Class, delta, exp.Declared)
				return exp
			}
		}
		k.Count("ev_bad_frames_rejected_in_bounds", 1)
		k.Nontrivial(fmt.Sprintf("rej/%s/%s/%d/%d/%d/%s/%d", c.Kind, exp.Class, exp.Declared, exp.HeaderEnd, exp.TypeEnd, plan.Name, len(data)))

	case "short":
		k.Count("ev_truncated_frames_offered", 1)
		if err == nil {
			if exp.MustError {
				k.Violation(site+":truncated-frame-accepted", vfC04Replay(c, data, &exp, s), "stream ends after %d bytes, inside the length/body of the frame, yet the reader returned success with %d bytes", len(data), len(gotBody))
				return exp
			}
			// stream ended inside the padding: the statement does not say what must happen; but what
			// was returned must still be what was written
			k.Count("obs_truncated_in_padding_accepted", 1)
			if exp.BodyKnown && gotBody != string(exp.Body) {
				k.Violation(site+":read-back-differs", vfC04Replay(c, data, &exp, s), "truncated-in-padding frame accepted with a body that differs from the written one")
			}
			return exp
		}
		k.Count("ev_truncated_frames_refused", 1)
		k.Nontrivial(fmt.Sprintf("short/%s/%d/%s", c.Kind, len(data), plan.Name))
	}
	return exp
}

// ---------------------------------------------------------------------------- writer oracle

// vfC04CheckWritten decodes what a real writer emitted with the reference decoder. Returns the wire
// bytes and the reference view (ok=false when a violation was recorded).
func vfC04CheckWritten(k *vfKit, ag *vfC04Agg, c *vfC04Case, rec *vfC04Recorder, werr error, want []byte, wantOK bool) ([]byte, vfC04Ref, bool) {
	kind, site := "srv", "proxy.WriteTCPRequest"
	if c.Kind == "resp" {
		kind, site = "resp", "proxy.WriteTCPResponse"
	}
	wire := rec.All()
	rep := func(exp *vfC04Ref) map[string]any {
		m := vfC04Replay(c, wire, exp, nil)
		m["write_calls"] = len(rec.writes)
		m["given_len"] = len(want)
		return m
	}
	k.Count("ev_frames_written", 1)
	if werr != nil {
		k.Violation(site+":error", rep(nil), "writer returned %v although the io.Writer accepted everything", werr)
		return nil, vfC04Ref{}, false
	}
	if len(rec.writes) != 1 {
		k.Count("obs_multi_write_frames", 1)
		if vfC04StrictSingleWrite {
			k.Violation(site+":not-a-single-write", rep(nil), "frame emitted in %d Write calls", len(rec.writes))
			return nil, vfC04Ref{}, false
		}
	}
	exp := vfC04RefDecode(kind, wire)
	switch {
	case exp.Outcome == "badtype":
		k.Violation(site+":wrong-frame-type", rep(&exp), "written request does not start with varint 0x401")
		return nil, exp, false
	case exp.Outcome == "short":
		k.Violation(site+":incomplete-frame", rep(&exp), "the %d bytes written end inside the frame they announce", len(wire))
		return nil, exp, false
	case exp.Outcome == "reject":
		k.Violation(site+":unacceptable-frame:"+exp.Class, rep(&exp), "writer produced a frame a conforming reader must reject: %s (declared %d)", exp.Class, exp.Declared)
		return nil, exp, false
	}
	if !bytes.Equal(exp.Body, want) {
		k.Violation(site+":wrote-different-content", rep(&exp), "frame carries %d bytes, %d were given, first difference at index %d", len(exp.Body), len(want), vfC04FirstDiff(exp.Body, want))
		return nil, exp, false
	}
	if c.Kind == "resp" && (exp.OK != wantOK || (wire[0] != 0x00 && wire[0] != 0x01)) {
		k.Violation(site+":wrong-status-byte", rep(&exp), "ok=%v written as status byte %#02x", wantOK, wire[0])
		return nil, exp, false
	}
	if exp.FrameEnd != len(wire) {
		k.Violation(site+":bytes-beyond-frame", rep(&exp), "writer emitted %d byte(s) after the end of the frame (they would be taken for payload)", len(wire)-exp.FrameEnd)
		return nil, exp, false
	}
	// exp.PadLen <= 4096 is implied by Outcome==accept; recorded for the evidence
	ag.pad(c.Kind, exp.PadLen)
	if exp.LenW != vfC04MinWidth(uint64(len(want))) || exp.PadW != vfC04MinWidth(uint64(exp.PadLen)) {
		k.Count("obs_writer_nonminimal_varint", 1) // allowed by RFC 9000
	}
	c.PadLen, c.LenW, c.PadW, c.TypeW = exp.PadLen, exp.LenW, exp.PadW, exp.TypeEnd
	return wire, exp, true
}

func vfC04WriteReq(k *vfKit, ag *vfC04Agg, c *vfC04Case, addr []byte) ([]byte, vfC04Ref, bool) {
	rec := &vfC04Recorder{}
	var err error
	if k.Guard("proxy.WriteTCPRequest:panic", c, func() { err = WriteTCPRequest(rec, string(addr)) }) {
		return nil, vfC04Ref{}, false
	}
	return vfC04CheckWritten(k, ag, c, rec, err, addr, true)
}

func vfC04WriteResp(k *vfKit, ag *vfC04Agg, c *vfC04Case, ok bool, msg []byte) ([]byte, vfC04Ref, bool) {
	rec := &vfC04Recorder{}
	var err error
	if k.Guard("proxy.WriteTCPResponse:panic", c, func() { err = WriteTCPResponse(rec, ok, string(msg)) }) {
		return nil, vfC04Ref{}, false
	}
	return vfC04CheckWritten(k, ag, c, rec, err, msg, ok)
}

func vfC04TrailLen(i int) int {
	if i%61 == 60 {
		return 9000 // more than any buffer a buffered reader would plausibly use
	}
	return []int{1, 17, 0}[i%3]
}

func vfC04Skip(k *vfKit, id string) bool {
	rc := k.ReplayCase()
	return rc != "" && rc != id
}

// ---------------------------------------------------------------------------- part: roundtrip

func TestVerifC04RoundTrip(t *testing.T) {
	k := vfNewKit(t, "C04", "roundtrip")
	defer k.Finish()
	vfC04SelfCheck(t)
	ag := vfC04NewAgg()
	defer ag.flush(k)
	all := !k.Quick()

	run := func(kind string, n int, status int) {
		group := fmt.Sprintf("rt-%s-%d-%d", kind, n, status)
		r := k.Rand(group)
		body := vfC04Content(r, fmt.Sprintf("%s%d|", kind, n), n)
		// j-th frame of this length: a fresh frame (fresh padding draw) per chunking
		nplans := 4
		for j := 0; j < nplans; j++ {
			c := &vfC04Case{CaseID: fmt.Sprintf("%s-%d", group, j), Kind: kind, Source: "real-writer", BodyLen: n, Status: status}
			var wire []byte
			var wexp vfC04Ref
			var ok bool
			if kind == "resp" {
				wire, wexp, ok = vfC04WriteResp(k, ag, c, status == 0, body)
			} else {
				wire, wexp, ok = vfC04WriteReq(k, ag, c, body)
				if ok {
					wire = wire[wexp.TypeEnd:] // the type is consumed by the HTTP/3 layer / hijacker (see server-path)
				}
			}
			if !ok {
				return
			}
			bounds := vfC04RefDecode(kind, wire).Bounds
			tl := vfC04TrailLen(n + j)
			data := append(append([]byte(nil), wire...), vfC04Payload(r, tl)...)
			c.Trailing = tl
			menu := vfC04PlanMenu(r, bounds, len(data))
			if all && j == 0 {
				nplans = len(menu)
			}
			var plan vfC04Plan
			switch {
			case all:
				plan = menu[j%len(menu)]
			case j == 0:
				plan = menu[0] // whole
			case j == 1:
				plan = menu[1] // byte-wise
			default:
				plan = menu[2+(n*2+j)%(len(menu)-2)]
			}
			if vfC04Skip(k, c.CaseID) {
				continue
			}
			vfC04Judge(k, ag, c, data, plan)
			if (n == 64 || n == 2048) && j == 0 {
				k.Sample(map[string]any{"case": c, "frame_head": vfHex(wire)})
			}
		}
	}
	for n := 1; n <= vfC04MaxAddr; n++ {
		run("req", n, 0)
	}
	for n := 0; n <= vfC04MaxMsg; n++ {
		run("resp", n, n%2)
		if all || n <= 70 || n >= 2040 || n%16 == 0 {
			run("resp", n, 1-n%2)
		}
	}
}

// ---------------------------------------------------------------------------- part: writers

func TestVerifC04Writers(t *testing.T) {
	k := vfNewKit(t, "C04", "writers")
	defer k.Finish()
	vfC04SelfCheck(t)
	ag := vfC04NewAgg()
	defer ag.flush(k)
	r := k.Rand("lens")
	edgeReq := []int{1, 2, 62, 63, 64, 65, 255, 256, 2047, 2048}
	edgeResp := []int{0, 1, 62, 63, 64, 65, 255, 256, 2047, 2048}
	n := k.N(20000, 300000)
	for i := 0; i < n; i++ {
		id := fmt.Sprintf("w-%d", i)
		isResp := r.Intn(2) == 0
		var l int
		switch r.Intn(3) {
		case 0:
			if isResp {
				l = edgeResp[r.Intn(len(edgeResp))]
			} else {
				l = edgeReq[r.Intn(len(edgeReq))]
			}
		case 1:
			l = 1 + r.Intn(80)
		default:
			l = 1 + r.Intn(2048)
		}
		status := r.Intn(2)
		seed := r.Int63()
		if vfC04Skip(k, id) {
			continue
		}
		k.Eval()
		body := vfC04Content(rand.New(rand.NewSource(seed)), id+"|", l)
		var ok bool
		c := &vfC04Case{CaseID: id, Source: "real-writer", BodyLen: l, Status: status}
		if isResp {
			c.Kind = "resp"
			_, _, ok = vfC04WriteResp(k, ag, c, status == 0, body)
		} else {
			c.Kind = "req"
			_, _, ok = vfC04WriteReq(k, ag, c, body)
		}
		if ok {
			k.Count("ev_written_frames_well_formed", 1)
			k.Nontrivial(fmt.Sprintf("%s/%d/%d/%d", c.Kind, l, c.PadLen, status))
			if i < 2 {
				k.Sample(map[string]any{"case": c})
			}
		}
	}
}

// ---------------------------------------------------------------------------- part: peer-frames

var (
	vfC04ReqLens  = []int{1, 2, 62, 63, 64, 65, 255, 1024, 2047, 2048}
	vfC04RespLens = []int{0, 1, 62, 63, 64, 65, 255, 1024, 2047, 2048}
	vfC04PadLens  = []int{0, 1, 63, 64, 65, 300, 4095, 4096}
)

func TestVerifC04PeerFrames(t *testing.T) {
	k := vfNewKit(t, "C04", "peer-frames")
	defer k.Finish()
	vfC04SelfCheck(t)
	ag := vfC04NewAgg()
	defer ag.flush(k)
	all := !k.Quick()

	// 1. exhaustive grid: boundary lengths x every width of both length fields x every chunking
	gi := 0
	for _, kind := range []string{"req", "resp"} {
		lens := vfC04ReqLens
		if kind == "resp" {
			lens = vfC04RespLens
		}
		padLens := vfC04PadLens
		if !all { // quick: the limit and varint-width boundaries only
			lens = []int{lens[0], 62, 63, 64, 255, 2047, 2048}
			padLens = []int{0, 1, 63, 64, 4095, 4096}
		}
		for _, bl := range lens {
			for _, lw := range vfC04Widths(uint64(bl)) {
				for _, pl := range padLens {
					for _, pw := range vfC04Widths(uint64(pl)) {
						gi++
						statuses := []int{gi % 2}
						if all && kind == "resp" {
							statuses = []int{0, 1}
						}
						for _, st := range statuses {
							group := fmt.Sprintf("pf-%s-%d.%d-%d.%d-%d", kind, bl, lw, pl, pw, st)
							r := k.Rand(group)
							body := vfC04Content(r, group+"|", bl)
							fb := vfC04BuildFrame(kind, 0, byte(st), body, lw, vfC04Pad(r, pl), pw)
							trails := []int{[]int{0, 1, 17}[gi%3]}
							if all {
								trails = []int{0, 1, 17}
							}
							for _, tl := range trails {
								data := append(append([]byte(nil), fb.B...), vfC04Payload(r, tl)...)
								menu := vfC04PlanMenu(r, fb.Bounds, len(data))
								for pi, plan := range menu {
									c := &vfC04Case{CaseID: fmt.Sprintf("%s-t%d-p%d", group, tl, pi), Kind: kind, Source: "peer-encoder",
										BodyLen: bl, LenW: lw, PadLen: pl, PadW: pw, Status: st, Trailing: tl}
									if vfC04Skip(k, c.CaseID) {
										continue
									}
									exp := vfC04Judge(k, ag, c, data, plan)
									if exp.Outcome != "accept" || exp.FrameEnd != len(fb.B) || !bytes.Equal(exp.Body, body) {
										t.Fatalf("verif harness: reference decoder disagrees with the frame builder on %s", c.CaseID)
									}
									if lw != vfC04MinWidth(uint64(bl)) || pw != vfC04MinWidth(uint64(pl)) {
										k.Count("ev_nonminimal_varint_frames", 1)
									}
								}
							}
							if gi%200 == 0 {
								k.Sample(map[string]any{"kind": kind, "body_len": bl, "len_varint_width": lw, "pad_len": pl, "pad_varint_width": pw,
									"frame_head": vfHex(fb.B), "field_bounds": fb.Bounds, "chunkings": "whole, byte-wise, max2, maxN, random x3, cut at every field boundary (+-1), all boundaries, EOF with last byte"})
							}
						}
					}
				}
			}
		}
	}

	// 2. truncation: the stream ends at every field boundary (+-1) and at random points of a valid frame
	ti := 0
	for _, kind := range []string{"req", "resp"} {
		for _, bl := range []int{1, 64, 2048} {
			for _, pl := range []int{0, 64, 4096} {
				for _, wsel := range []int{0, 1} {
					lws, pws := vfC04Widths(uint64(bl)), vfC04Widths(uint64(pl))
					lw, pw := lws[0], pws[0]
					if wsel == 1 {
						lw, pw = lws[len(lws)-1], pws[len(pws)-1]
					}
					group := fmt.Sprintf("tr-%s-%d.%d-%d.%d", kind, bl, lw, pl, pw)
					r := k.Rand(group)
					fb := vfC04BuildFrame(kind, 0, byte(ti%2), vfC04Content(r, group, bl), lw, vfC04Pad(r, pl), pw)
					cutSet := map[int]bool{}
					for _, b := range fb.Bounds {
						for _, d := range []int{-1, 0, 1} {
							if o := b + d; o >= 0 && o < len(fb.B) {
								cutSet[o] = true
							}
						}
					}
					for i := 0; i < 6; i++ {
						cutSet[r.Intn(len(fb.B))] = true
					}
					for cut := 0; cut < len(fb.B); cut++ {
						if !cutSet[cut] {
							continue
						}
						ti++
						data := fb.B[:cut:cut]
						menu := vfC04PlanMenu(r, nil, len(data))
						for _, pi := range []int{0, 1, 2, 8} {
							c := &vfC04Case{CaseID: fmt.Sprintf("%s-cut%d-p%d", group, cut, pi), Kind: kind, Source: "peer-encoder",
								BodyLen: bl, LenW: lw, PadLen: pl, PadW: pw, CutAt: cut}
							if vfC04Skip(k, c.CaseID) {
								continue
							}
							exp := vfC04Judge(k, ag, c, data, menu[pi])
							if exp.Outcome != "short" {
								t.Fatalf("verif harness: reference decoder does not see the truncation in %s", c.CaseID)
							}
						}
					}
				}
			}
		}
	}

	// 3. random streams judged against the reference decoder (valid, over-limit, truncated mixed)
	nr := k.N(12000, 400000)
	for i := 0; i < nr; i++ {
		id := fmt.Sprintf("rnd-%d", i)
		if vfC04Skip(k, id) {
			continue
		}
		r := k.Rand(id)
		kind := []string{"req", "resp", "srv"}[r.Intn(3)]
		pickLen := func(max int) uint64 {
			switch r.Intn(10) {
			case 0, 1, 2:
				return uint64([]int{0, 1, 62, 63, 64, 65, max - 1, max}[r.Intn(8)])
			case 3:
				return uint64(max + 1 + r.Intn(3)) // just over
			case 4:
				return []uint64{16383, 16384, 1<<30 - 1, 1 << 30, 1<<62 - 1, uint64(max) * 2}[r.Intn(6)]
			default:
				return uint64(r.Intn(max + 1))
			}
		}
		pickW := func(v uint64) int { ws := vfC04Widths(v); return ws[r.Intn(len(ws))] }
		decl := pickLen(2048)
		pdecl := pickLen(4096)
		w := &vfC04Builder{}
		c := &vfC04Case{CaseID: id, Kind: kind, Source: "random", Declared: decl}
		switch kind {
		case "srv":
			c.TypeW = []int{2, 4, 8}[r.Intn(3)]
			w.Varint("type", vfC04TypeTCPReq, c.TypeW)
		case "resp":
			c.Status = r.Intn(2)
			w.Raw("status", []byte{byte(c.Status)})
		}
		c.LenW = pickW(decl)
		w.Varint("len", decl, c.LenW)
		have := decl
		if have > 6000 {
			have = 6000
		}
		c.BodyLen = int(have)
		w.Raw("body", vfC04Content(r, id+"|", int(have)))
		c.PadW = pickW(pdecl)
		w.Varint("padlen", pdecl, c.PadW)
		phave := pdecl
		if phave > 9000 {
			phave = 9000
		}
		c.PadLen = int(phave)
		w.Raw("pad", vfC04Pad(r, int(phave)))
		c.Trailing = []int{0, 1, 17, 300}[r.Intn(4)]
		data := append(w.B, vfC04Payload(r, c.Trailing)...)
		if r.Intn(8) == 0 && len(data) > 1 {
			c.CutAt = 1 + r.Intn(len(data)-1)
			if kind == "srv" && c.CutAt < c.TypeW {
				c.CutAt = c.TypeW
			}
			data = data[:c.CutAt:c.CutAt]
		}
		menu := vfC04PlanMenu(r, w.Bounds, len(data))
		plan := menu[r.Intn(len(menu))]
		vfC04Judge(k, ag, c, data, plan)
		if i < 3 {
			k.Sample(map[string]any{"case": c, "stream_head": vfHex(data)})
		}
	}
}

// ---------------------------------------------------------------------------- part: reject

func TestVerifC04Reject(t *testing.T) {
	k := vfNewKit(t, "C04", "reject")
	defer k.Finish()
	vfC04SelfCheck(t)
	ag := vfC04NewAgg()
	defer ag.flush(k)

	overBody := []uint64{2049, 2050, 4096, 4097, 16383, 16384, 1 << 16, 1 << 20, 1<<30 - 1, 1 << 30, 1<<62 - 1}
	overPad := []uint64{4097, 4098, 8192, 16383, 16384, 1 << 16, 1 << 20, 1<<30 - 1, 1 << 30, 1<<62 - 1}

	// offer runs one bad header in several chunkings and with different amounts of data behind it
	offer := func(group, kind string, hdr *vfC04Builder, declared uint64, r *rand.Rand) {
		fillers := []int{0, 1, 5000}
		if declared > 0 && declared <= 70000 {
			fillers = append(fillers, int(declared), int(declared)+33) // the whole declared amount is there to be taken
		} else if declared > 70000 {
			fillers = append(fillers, 70000)
		}
		for fi, fl := range fillers {
			var tail []byte
			if declared == 0 {
				// empty address followed by an otherwise perfectly good padding section and payload
				tb := &vfC04Builder{}
				tb.Varint("padlen", uint64(fl%4097), vfC04MinWidth(uint64(fl%4097))).Raw("pad", vfC04Pad(r, fl%4097)).Raw("payload", vfC04Payload(r, 17))
				tail = tb.B
			} else {
				tail = vfC04Payload(r, fl)
			}
			data := append(append([]byte(nil), hdr.B...), tail...)
			menu := vfC04PlanMenu(r, hdr.Bounds, len(data))
			for pi, plan := range menu {
				c := &vfC04Case{CaseID: fmt.Sprintf("%s-f%d-p%d", group, fi, pi), Kind: kind, Source: "peer-encoder", Declared: declared, Trailing: len(tail),
					NoAlloc: pi >= 2}
				if vfC04Skip(k, c.CaseID) {
					continue
				}
				exp := vfC04Judge(k, ag, c, data, plan)
				if exp.Outcome != "reject" || exp.HeaderEnd != len(hdr.B) || exp.Declared != declared {
					t.Fatalf("verif harness: reference decoder disagrees with the bad-frame builder on %s (%+v)", c.CaseID, exp)
				}
				if fi == 0 && pi == 0 && (declared == 0 || declared == 2049 || declared == 4097 || declared == 1<<62-1) {
					k.Sample(map[string]any{"case": c, "header": vfHex(hdr.B), "must": "error; nothing read past the header; no Read larger than 4096"})
				}
			}
		}
	}
	prefix := func(kind string, typeW int, status byte) *vfC04Builder {
		w := &vfC04Builder{}
		if kind == "srv" {
			w.Varint("type", vfC04TypeTCPReq, typeW)
		}
		if kind == "resp" {
			w.Raw("status", []byte{status})
		}
		return w
	}

	// address: empty (every width) and over-limit
	for _, kind := range []string{"req", "srv"} {
		for _, w := range []int{1, 2, 4, 8} {
			group := fmt.Sprintf("rj-%s-addr0.%d", kind, w)
			offer(group, kind, prefix(kind, 2, 0).Varint("len", 0, w), 0, k.Rand(group))
		}
		for _, d := range overBody {
			for _, w := range vfC04Widths(d) {
				group := fmt.Sprintf("rj-%s-addr%d.%d", kind, d, w)
				offer(group, kind, prefix(kind, 2, 0).Varint("len", d, w), d, k.Rand(group))
			}
		}
	}
	// message over-limit, both statuses
	for _, d := range overBody {
		for _, w := range vfC04Widths(d) {
			for st := 0; st < 2; st++ {
				group := fmt.Sprintf("rj-resp-msg%d.%d-s%d", d, w, st)
				offer(group, "resp", prefix("resp", 0, byte(st)).Varint("len", d, w), d, k.Rand(group))
			}
		}
	}
	// padding over-limit behind a valid address / message
	for _, kind := range []string{"req", "resp", "srv"} {
		lens := []int{1, 64, 2048}
		if kind == "resp" {
			lens = []int{0, 1, 64, 2048}
		}
		if k.Quick() { // thorough runs the full product
			lens = map[string][]int{"req": {1, 2048}, "resp": {0, 2048}, "srv": {64}}[kind]
		}
		for li, bl := range lens {
			lws := []int{vfC04MinWidth(uint64(bl)), 8}
			if k.Quick() {
				lws = lws[li%2 : li%2+1]
			}
			for _, lw := range lws {
				for _, d := range overPad {
					for _, w := range vfC04Widths(d) {
						group := fmt.Sprintf("rj-%s-%d.%d-pad%d.%d", kind, bl, lw, d, w)
						r := k.Rand(group)
						h := prefix(kind, 2, byte(bl%2)).Varint("len", uint64(bl), lw)
						if bl > 0 {
							h.Raw("body", vfC04Content(r, group, bl))
						}
						h.Varint("padlen", d, w)
						offer(group, kind, h, d, r)
					}
				}
			}
		}
	}
}

// ---------------------------------------------------------------------------- part: server-path

func TestVerifC04ServerPath(t *testing.T) {
	k := vfNewKit(t, "C04", "server-path")
	defer k.Finish()
	vfC04SelfCheck(t)
	ag := vfC04NewAgg()
	defer ag.flush(k)
	all := !k.Quick()

	// a. what the real client writes (type + request) followed by the first tunnel payload
	lens := []int{1, 2, 3, 62, 63, 64, 65, 100, 255, 256, 1000, 2047, 2048}
	rl := k.Rand("lens")
	for i := 0; i < k.N(60, 600); i++ {
		lens = append(lens, 1+rl.Intn(2048))
	}
	for li, n := range lens {
		group := fmt.Sprintf("sp-real-%d-%d", li, n)
		r := k.Rand(group)
		addr := vfC04Content(r, fmt.Sprintf("srv%d|", li), n)
		for _, tl := range []int{0, 1, 17, 9000} {
			c0 := &vfC04Case{CaseID: group, Kind: "req", Source: "real-writer", BodyLen: n}
			wire, wexp, ok := vfC04WriteReq(k, ag, c0, addr)
			if !ok {
				break
			}
			data := append(append([]byte(nil), wire...), vfC04Payload(r, tl)...)
			menu := vfC04PlanMenu(r, wexp.Bounds, len(data))
			for pi, plan := range menu {
				if !all && pi >= 11 && (pi+li)%3 != 0 {
					continue
				}
				c := &vfC04Case{CaseID: fmt.Sprintf("%s-t%d-p%d", group, tl, pi), Kind: "srv", Source: "real-writer", BodyLen: n,
					PadLen: wexp.PadLen, LenW: wexp.LenW, PadW: wexp.PadW, TypeW: wexp.TypeEnd, Trailing: tl}
				if vfC04Skip(k, c.CaseID) {
					continue
				}
				exp := vfC04Judge(k, ag, c, data, plan)
				if exp.Outcome != "accept" || !bytes.Equal(exp.Body, addr) {
					t.Fatalf("verif harness: reference decoder changed its mind on %s", c.CaseID)
				}
			}
		}
		if li < 2 {
			k.Sample(map[string]any{"addr_len": n, "flow": "WriteTCPRequest -> [type 0x401 | request | payload] -> quicvarint.Read(quicvarint.NewReader(stream)) -> ReadTCPRequest(stream) -> rest == payload"})
		}
	}

	// b. peer-built frames: every width of the type varint (a varint may be non-minimal) and of the lengths
	gi := 0
	for _, tw := range []int{2, 4, 8} {
		for _, bl := range []int{1, 63, 64, 2048} {
			for _, lw := range vfC04Widths(uint64(bl)) {
				for _, pl := range []int{0, 63, 64, 4096} {
					for _, pw := range vfC04Widths(uint64(pl)) {
						gi++
						group := fmt.Sprintf("sp-peer-%d-%d.%d-%d.%d", tw, bl, lw, pl, pw)
						r := k.Rand(group)
						body := vfC04Content(r, group+"|", bl)
						fb := vfC04BuildFrame("srv", tw, 0, body, lw, vfC04Pad(r, pl), pw)
						tl := []int{1, 17, 0}[gi%3]
						data := append(append([]byte(nil), fb.B...), vfC04Payload(r, tl)...)
						menu := vfC04PlanMenu(r, fb.Bounds, len(data))
						for pi, plan := range menu {
							if !all && pi >= 3 && (pi+gi)%4 != 0 {
								continue
							}
							c := &vfC04Case{CaseID: fmt.Sprintf("%s-p%d", group, pi), Kind: "srv", Source: "peer-encoder", BodyLen: bl, LenW: lw,
								PadLen: pl, PadW: pw, TypeW: tw, Trailing: tl}
							if vfC04Skip(k, c.CaseID) {
								continue
							}
							exp := vfC04Judge(k, ag, c, data, plan)
							if exp.Outcome != "accept" || exp.FrameEnd != len(fb.B) || !bytes.Equal(exp.Body, body) {
								t.Fatalf("verif harness: reference decoder disagrees with the frame builder on %s", c.CaseID)
							}
						}
					}
				}
			}
		}
	}
}
