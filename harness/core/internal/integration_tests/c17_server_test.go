//go:build verif

package integration_tests

// C17, server side of the hook contract (anchor "server writes the replay bytes to the target
// before relaying", core/server/server.go): whatever a request hook read from the stream and handed
// back for replay, the TARGET must receive replay ‖ rest-of-stream == exactly what the client sent,
// in order, for replays of any size (the sniffer may hand back up to 256 KiB of HTTP headers), and the
// outbound must be dialled with the address as the hook rewrote it. For UDP the first datagram a
// hooked session forwards is byte-identical to what the client sent.
//
// Real server + real client on simnet in a bubble; the hook is a harness-owned stand-in for the
// sniffer (module core cannot import extras): it reads a scripted number of bytes from the stream,
// returns them as the replay and rewrites the host, keeping the port.

import (
	"bytes"
	"fmt"
	"io"
	"net"
	"runtime"
	"runtime/debug"
	"sync"
	"testing"
	"testing/synctest"
	"time"

	"github.com/apernet/hysteria/core/v2/client"
	"github.com/apernet/hysteria/core/v2/server"
)

type vfC17Hook struct {
	mu      sync.Mutex
	readN   map[string]int // requested address -> how many bytes the hook consumes
	saw     map[string][]byte
	udpSaw  [][]byte
	udpAddr []string // the address each UDP hook call was asked about
	rewrite func(addr string) string
}

func (h *vfC17Hook) Check(isUDP bool, reqAddr string) bool { return true }

func (h *vfC17Hook) TCP(stream server.HyStream, reqAddr *string) ([]byte, error) {
	h.mu.Lock()
	n := h.readN[*reqAddr]
	h.mu.Unlock()
	buf := make([]byte, n)
	_ = stream.SetReadDeadline(time.Now().Add(2 * time.Second))
	got, _ := io.ReadFull(stream, buf)
	_ = stream.SetReadDeadline(time.Time{})
	h.mu.Lock()
	h.saw[*reqAddr] = append([]byte(nil), buf[:got]...)
	h.mu.Unlock()
	*reqAddr = h.rewrite(*reqAddr)
	return buf[:got], nil
}

func (h *vfC17Hook) UDP(data []byte, reqAddr *string) error {
	h.mu.Lock()
	h.udpSaw = append(h.udpSaw, append([]byte(nil), data...))
	h.udpAddr = append(h.udpAddr, *reqAddr)
	h.mu.Unlock()
	*reqAddr = h.rewrite(*reqAddr)
	return nil
}

type vfC17Case struct {
	CaseID    string `json:"case_id"`
	SendN     int    `json:"client_sends"`
	HookReads int    `json:"hook_reads"`
	Chunk     int    `json:"client_write_chunk"`
	Logger    bool   `json:"traffic_logger"`
	FastOpen  bool   `json:"fast_open"`
}

func vfC17Content(tag, n int) []byte {
	b := make([]byte, n)
	for i := range b {
		b[i] = byte((i*73+tag*29)^(i>>7)) | 1
	}
	return b
}

func TestVerifC17ServerReplay(t *testing.T) {
	k := vfNewKit(t, "C17", "server-replay")
	defer k.Finish()
	defer debug.SetGCPercent(debug.SetGCPercent(-1))
	r := k.Rand("cases")
	var cases []vfC17Case
	sizes := []int{1, 3, 100, 4096, 32767, 32768, 32769, 40000, 65536, 100000, 262144}
	for _, s := range sizes {
		for _, frac := range []int{0, 1, 50, 100} { // hook reads 0 bytes, 1 byte, half, everything
			hr := s * frac / 100
			if frac == 1 {
				hr = 1
			}
			if hr > s {
				hr = s
			}
			cases = append(cases, vfC17Case{SendN: s, HookReads: hr, Chunk: []int{1 << 20, 1200, 333}[r.Intn(3)], Logger: r.Intn(2) == 0, FastOpen: r.Intn(2) == 0})
		}
		// the client sends more after what the hook consumed
		cases = append(cases, vfC17Case{SendN: s + 5000, HookReads: s, Chunk: 1 << 20, Logger: r.Intn(2) == 0, FastOpen: r.Intn(2) == 0})
	}
	for i := 0; i < k.N(10, 200); i++ {
		s := 1 + r.Intn(300000)
		cases = append(cases, vfC17Case{SendN: s, HookReads: r.Intn(s + 1), Chunk: 1 + r.Intn(70000), Logger: r.Intn(2) == 0, FastOpen: r.Intn(2) == 0})
	}
	for i := range cases {
		cases[i].CaseID = fmt.Sprintf("replay-%d", i)
	}
	for ci, c := range cases {
		if rc := k.ReplayCase(); rc != "" && rc != c.CaseID {
			continue
		}
		runtime.GC()
		k.Eval()
		synctest.Test(t, func(t *testing.T) {
			hook := &vfC17Hook{readN: map[string]int{}, saw: map[string][]byte{}, rewrite: func(a string) string {
				_, port, _ := net.SplitHostPort(a)
				return net.JoinHostPort("rewritten.verif", port)
			}}
			var tl *vfTraffic
			w, err := vfNewWorld(vfServerOpts{Config: func(sc *server.Config) {
				sc.RequestHook = hook
				if c.Logger {
					tl = &vfTraffic{}
					sc.TrafficLogger = tl
				}
			}})
			if err != nil {
				t.Fatalf("harness: server: %v", err)
			}
			if tl != nil {
				tl.log = w.Log
			}
			addr := fmt.Sprintf("orig%d.verif:%d", ci, 2000+ci%1000)
			hook.readN[addr] = c.HookReads
			var targetGot []byte
			targetDone := make(chan struct{})
			var dialled string
			w.Out.OnTCP = func(a string) (net.Conn, error) {
				dialled = a
				pt := vfNewPipeTarget()
				go func() {
					targetGot, _ = io.ReadAll(pt.Harness)
					close(targetDone)
				}()
				w.onClose(func() { _ = pt.Harness.Close() })
				return pt.serverSide, nil
			}
			hc, _, _, err := w.HyClient("ok:c17", func(cc *client.Config) { cc.FastOpen = c.FastOpen })
			if err != nil {
				t.Fatalf("harness: client: %v", err)
			}
			conn, err := hc.TCP(addr)
			rep := map[string]any{"case_id": c.CaseID, "case": c}
			if err != nil {
				k.Violation("server:hooked-request-failed", rep, "Client.TCP failed on a hooked request: %v", err)
				w.Close()
				return
			}
			content := vfC17Content(ci, c.SendN)
			for off := 0; off < len(content); off += c.Chunk {
				end := min(off+c.Chunk, len(content))
				if _, werr := conn.Write(content[off:end]); werr != nil {
					break
				}
			}
			_ = conn.Close() // sender wrote everything, then closes; the opposite direction is idle
			select {
			case <-targetDone:
			case <-time.After(120 * time.Second): // virtual
				k.Violation("server:target-never-saw-eof", rep, "120 s (virtual) after the client wrote %d bytes and closed, the target still had no end of stream", c.SendN)
				w.Close()
				return
			}
			k.Count("ev_replay_relays", 1)
			k.Count("ev_replay_bytes", int64(len(targetGot)))
			if dialled != "rewritten.verif:"+fmt.Sprint(2000+ci%1000) {
				k.Violation("server:hook-rewrite-not-used", rep, "the hook rewrote the destination to rewritten.verif (same port) but the outbound was dialled with %q", dialled)
			}
			if !bytes.Equal(targetGot, content) {
				first := 0
				for first < len(targetGot) && first < len(content) && targetGot[first] == content[first] {
					first++
				}
				k.Violation("server:replay-plus-rest-differs-from-sent", rep, "client sent %d bytes, the hook took %d for replay, the target received %d; first difference at offset %d",
					len(content), len(hook.saw[addr]), len(targetGot), first)
			} else {
				k.Count("ev_replay_exact", 1)
				k.Nontrivial(fmt.Sprintf("%d/%d/%d/%v/%v", c.SendN, c.HookReads, c.Chunk, c.Logger, c.FastOpen))
			}
			w.Close()
		})
		if ci == 20 {
			k.Sample(c)
		}
	}
}

// TestVerifC17ServerUDPFirstPacket: the first datagram of a hooked UDP session reaches the outbound
// socket byte-identical (the hook sees it but the server forwards what the client sent), at the
// rewritten destination.
func TestVerifC17ServerUDPFirstPacket(t *testing.T) {
	k := vfNewKit(t, "C17", "server-udp-first")
	defer k.Finish()
	defer debug.SetGCPercent(debug.SetGCPercent(-1))
	n := k.N(12, 120)
	for i := 0; i < n; i++ {
		caseID := fmt.Sprintf("udpfirst-%d", i)
		if rc := k.ReplayCase(); rc != "" && rc != caseID {
			continue
		}
		runtime.GC()
		k.Eval()
		r := k.Rand(caseID)
		size := []int{1, 20, 1100, 1200, 3000}[r.Intn(5)]
		synctest.Test(t, func(t *testing.T) {
			hook := &vfC17Hook{readN: map[string]int{}, saw: map[string][]byte{}, rewrite: func(a string) string {
				_, port, _ := net.SplitHostPort(a)
				return net.JoinHostPort("rewritten.verif", port)
			}}
			w, err := vfNewWorld(vfServerOpts{Config: func(sc *server.Config) { sc.RequestHook = hook }})
			if err != nil {
				t.Fatalf("harness: server: %v", err)
			}
			var mu sync.Mutex
			var writes [][]byte
			var dests []string
			w.Out.OnUDP = func(a string) (server.UDPConn, error) {
				return &vfC17UDP{onWrite: func(b []byte, to string) {
					mu.Lock()
					writes = append(writes, append([]byte(nil), b...))
					dests = append(dests, to)
					mu.Unlock()
				}, closed: make(chan struct{})}, nil
			}
			payload := vfC17Content(i, size)
			second := vfC17Content(i+1000, 50)
			lostFragment := i%3 == 2
			closeClient := func() {}
			if !lostFragment {
				hc, _, _, err := w.HyClient("ok:c17u", nil)
				if err != nil {
					t.Fatalf("harness: client: %v", err)
				}
				uc, err := hc.UDP()
				if err != nil {
					t.Fatalf("harness: UDP(): %v", err)
				}
				closeClient = func() { _ = uc.Close() }
				_ = uc.Send(payload, "origudp.verif:5353")
				// (two packets handed to the simulated network at the same virtual instant may be delivered in either
				// order, like real UDP: keep the two datagrams apart so that "first" is unambiguous)
				time.Sleep(100 * time.Millisecond)
				_ = uc.Send(second, "origudp.verif:5353")
			} else {
				// The session is OPENED by a fragment of a message that never completes and names another
				// destination; the first COMPLETE message is the one the hook must be asked about and the one
				// that is forwarded.
				if size > 1000 {
					payload = payload[:1000]
				}
				raw, err := w.RawClient()
				if err != nil {
					t.Fatalf("harness: raw client: %v", err)
				}
				if resp := raw.AuthReq("ok:c17raw", "0"); resp.Status != 233 {
					t.Fatalf("harness: raw auth: %+v", resp)
				}
				_ = raw.Conn.SendDatagram(vfUDPMessageBytes(77, 4242, 0, 2, "lostfragment.verif:9999", []byte("head-of-a-message-that-never-completes")))
				time.Sleep(100 * time.Millisecond)
				_ = raw.Conn.SendDatagram(vfUDPMessageBytes(77, 0, 0, 1, "origudp.verif:5353", payload))
				time.Sleep(100 * time.Millisecond)
				_ = raw.Conn.SendDatagram(vfUDPMessageBytes(77, 0, 0, 1, "origudp.verif:5353", second))
				k.Count("ev_udp_session_opened_by_lost_fragment", 1)
			}
			time.Sleep(2 * time.Second)
			synctest.Wait()
			rep := map[string]any{"case_id": caseID, "size": size, "session_opened_by_lost_fragment": lostFragment}
			hook.mu.Lock()
			for hi, a := range hook.udpAddr {
				if a != "origudp.verif:5353" {
					k.Violation("server:udp-hook-asked-about-wrong-address", rep, "UDP hook call %d was asked about %q; the message it was shown (%d bytes) was addressed to origudp.verif:5353", hi, a, len(hook.udpSaw[hi]))
				} else if !bytes.Equal(hook.udpSaw[hi], payload) {
					k.Violation("server:udp-hook-shown-wrong-data", rep, "UDP hook call %d was shown %d bytes, the first complete message has %d", hi, len(hook.udpSaw[hi]), len(payload))
				}
			}
			hook.mu.Unlock()
			mu.Lock()
			if len(writes) < 1 {
				k.Violation("server:udp-first-packet-not-forwarded", rep, "no datagram reached the outbound socket")
			} else {
				k.Count("ev_udp_first_packets", 1)
				if !bytes.Equal(writes[0], payload) {
					k.Violation("server:udp-first-packet-altered", rep, "the first datagram (%d bytes) reached the socket as %d different bytes", len(payload), len(writes[0]))
				} else {
					k.Nontrivial(fmt.Sprint(size, lostFragment))
				}
				for _, d := range dests {
					if d != "rewritten.verif:5353" {
						k.Violation("server:udp-hook-rewrite-not-used", rep, "datagram of a hook-rewritten session written to %q", d)
					}
				}
				if len(writes) >= 2 && !bytes.Equal(writes[1], second) {
					k.Violation("server:udp-packet-altered", rep, "second datagram altered: %d writes, lens %v, second want %x got %x", len(writes), func() []int { var l []int; for _, w := range writes { l = append(l, len(w)) }; return l }(), second[:8], writes[1][:min(8, len(writes[1]))])
				}
			}
			mu.Unlock()
			closeClient()
			w.Close()
		})
	}
}

type vfC17UDP struct {
	onWrite func([]byte, string)
	closed  chan struct{}
	once    sync.Once
}

func (u *vfC17UDP) ReadFrom(b []byte) (int, string, error) {
	<-u.closed
	return 0, "", net.ErrClosed
}
func (u *vfC17UDP) WriteTo(b []byte, addr string) (int, error) { u.onWrite(b, addr); return len(b), nil }
func (u *vfC17UDP) Close() error                               { u.once.Do(func() { close(u.closed) }); return nil }
