//go:build verif

package integration_tests

// C02 — Unauthenticated peers see only the masquerade web server.
//
// DIFFERENTIAL against a reference web server. In one synctest bubble, on one simnet:
//   (a) the real Hysteria server with MasqHandler = H (or nil),
//   (b) a plain quic-go http3.Server (no Hysteria code at all) with Handler = H
//       (or http.NotFound when the Hysteria server has no handler: "plain 404 by default").
// Every Hysteria connection under test has a twin connection to the reference; each
// request is sent through the identical raw client code (vfRaw.Do over one quic.Conn) to
// both at the same virtual instant. For every request that is not an accepted
// authentication request, status, the full header set and the body must agree, the status
// must not be 233 and no header name may start with "Hysteria".
//
// Whether a request is an "accepted authentication request" is decided by the
// AUTHENTICATOR FAKE's log (auth_call/auth_ok/auth_rej events of that connection caused by
// that request: requests on one connection are sequential, so the events appended between
// sending the request and receiving its response belong to it; a final census makes sure no
// Authenticate call happened outside those windows). Near-misses (other method / host /
// path) must not reach the authenticator at all.
//
// Second half of the statement: a 0x401 stream with a TCPRequest, or a UDPMessage datagram,
// sent on a connection the authenticator has not accepted draws no Hysteria reply: bytes
// read from the stream must not parse as a TCPResponse (unless the plain web server answers
// the very same bytes, which then is web-server behaviour), and no datagram arrives.

import (
	"bytes"
	"context"
	"crypto/sha256"
	"crypto/tls"
	"fmt"
	"io"
	"net"
	"net/http"
	"net/http/httptrace"
	"net/textproto"
	"os"
	"path/filepath"
	"runtime"
	"sort"
	"strconv"
	"strings"
	"sync"
	"sync/atomic"
	"testing"
	"testing/synctest"
	"time"

	"github.com/apernet/quic-go"
	"github.com/apernet/quic-go/http3"
	"github.com/apernet/quic-go/testutils/simnet"

	"github.com/apernet/hysteria/core/v2/server"
)

// ---------------------------------------------------------------- kit extension (C02-local)

// vfC02Ref is a plain HTTP/3 web server (quic-go http3.Server, nothing of Hysteria) on its own
// simnet endpoint of the world's router.
type vfC02Ref struct {
	Addr *net.UDPAddr
	ep   *simnet.SimConn
	tr   *quic.Transport
	ln   *quic.Listener
	h3   *http3.Server
	done chan struct{}
}

func vfC02StartRef(w *vfWorld, h http.Handler) (*vfC02Ref, error) {
	addr := &net.UDPAddr{IP: net.ParseIP("10.0.0.2"), Port: 443}
	ep := simnet.NewBlockingSimConn(addr, w.Router)
	tr := &quic.Transport{Conn: ep}
	tlsConf := http3.ConfigureTLSConfig(&tls.Config{Certificates: []tls.Certificate{vfTLSCert()}})
	ln, err := tr.Listen(tlsConf, &quic.Config{EnableDatagrams: true, DisablePathMTUDiscovery: true, DisablePathManager: true, MaxIdleTimeout: 30 * time.Second})
	if err != nil {
		_ = tr.Close()
		_ = ep.Close()
		return nil, err
	}
	r := &vfC02Ref{Addr: addr, ep: ep, tr: tr, ln: ln, h3: &http3.Server{Handler: h}, done: make(chan struct{})}
	go func() { _ = r.h3.ServeListener(ln); close(r.done) }()
	return r, nil
}

func (r *vfC02Ref) Close() {
	_ = r.h3.Close()
	_ = r.ln.Close()
	<-r.done
	_ = r.tr.Close()
	_ = r.ep.Close()
}

// vfC02Dial is vfWorld.RawClient with an explicit destination: the same client code is
// used towards the Hysteria server and towards the reference.
func vfC02Dial(w *vfWorld, to *net.UDPAddr) (*vfRaw, error) {
	addr := w.ClientAddr()
	ep := simnet.NewBlockingSimConn(addr, w.Router)
	tr := &quic.Transport{Conn: ep}
	ctx, cancel := context.WithTimeout(context.Background(), 20*time.Second)
	defer cancel()
	conn, err := tr.Dial(ctx, to, &tls.Config{InsecureSkipVerify: true, ServerName: "verif", NextProtos: []string{http3.NextProtoH3}},
		&quic.Config{EnableDatagrams: true, MaxIdleTimeout: 30 * time.Second, DisablePathMTUDiscovery: true, DisablePathManager: true})
	if err != nil {
		_ = tr.Close()
		_ = ep.Close()
		return nil, err
	}
	h3 := (&http3.Transport{EnableDatagrams: false}).NewClientConn(conn)
	r := &vfRaw{W: w, Addr: addr, Tag: addr.String(), ep: ep, tr: tr, Conn: conn, H3: h3}
	w.onClose(r.Close)
	return r, nil
}

// vfC02Resp is everything a client can see of one HTTP/3 exchange: the informational (1xx)
// responses in order, the final status, header, body and trailer.
type vfC02Info struct {
	Code   int         `json:"code"`
	Header http.Header `json:"header"`
}

type vfC02Resp struct {
	Status  int
	Header  http.Header
	Body    []byte
	Err     error
	Info    []vfC02Info
	Trailer http.Header
}

// vfC02Do is vfRaw.Do plus observation of 1xx responses (httptrace) and trailers.
func vfC02Do(x *vfRaw, method, authority, path string, hdr http.Header, body []byte) vfC02Resp {
	var rd io.Reader
	if body != nil {
		rd = bytes.NewReader(body)
	}
	req, err := http.NewRequest(method, "https://"+authority+path, rd)
	if err != nil {
		return vfC02Resp{Err: err}
	}
	for k, v := range hdr {
		req.Header[k] = v
	}
	var mu sync.Mutex
	var info []vfC02Info
	trace := &httptrace.ClientTrace{Got1xxResponse: func(code int, h textproto.MIMEHeader) error {
		mu.Lock()
		info = append(info, vfC02Info{Code: code, Header: http.Header(h).Clone()})
		mu.Unlock()
		return nil
	}}
	ctx, cancel := context.WithTimeout(context.Background(), 60*time.Second)
	defer cancel()
	resp, err := x.H3.RoundTrip(req.WithContext(httptrace.WithClientTrace(ctx, trace)))
	if err != nil {
		mu.Lock()
		defer mu.Unlock()
		return vfC02Resp{Err: err, Info: info}
	}
	b, err := io.ReadAll(resp.Body)
	_ = resp.Body.Close()
	mu.Lock()
	defer mu.Unlock()
	return vfC02Resp{Status: resp.StatusCode, Header: resp.Header, Body: b, Err: err, Info: info, Trailer: resp.Trailer}
}

// ---------------------------------------------------------------- the masquerade handler H

// vfC02Handler is a deterministic web application: its response is a function of the
// request alone (method, host, path, query, selected headers, body). The client picks the
// behaviour with the X-Vf-Mode request header. It never answers 233 and never sets a header
// whose name starts with "Hysteria" (request headers are echoed under X-Vf-Saw-*).
type vfC02Handler struct {
	mu   sync.Mutex
	hits map[string]int // remote address (= raw client tag) -> requests served
	// mode "gate" (overlap part only): the request is held inside the handler until gate is closed
	gate    chan struct{}
	entered map[string]int // remote address -> requests currently/ever held at the gate
}

// gateEntered reports how many "gate" requests of that client have reached the handler.
func (h *vfC02Handler) gateEntered(remote string) int {
	h.mu.Lock()
	defer h.mu.Unlock()
	return h.entered[remote]
}

func vfC02Pattern(id string, n int) []byte {
	seed := sha256.Sum256([]byte(id))
	b := make([]byte, n)
	for i := range b {
		b[i] = seed[i%32] ^ byte(i>>5) ^ byte(i>>13)
	}
	return b
}

func (h *vfC02Handler) ServeHTTP(w http.ResponseWriter, r *http.Request) {
	h.mu.Lock()
	h.hits[r.RemoteAddr]++
	h.mu.Unlock()
	body, _ := io.ReadAll(r.Body)
	id := r.Header.Get("X-Vf-Id")
	mode := r.Header.Get("X-Vf-Mode")
	hd := w.Header()
	hd.Set("Server", "vf-masq/1.0")
	hd.Set("X-Vf-Echo", fmt.Sprintf("%s|%s|%s|%s|%s", r.Method, r.Host, r.URL.Path, r.URL.RawQuery, r.Proto))
	hd.Set("X-Vf-Echo-Id", id)
	hd.Set("X-Vf-Saw-Auth", fmt.Sprintf("%q", r.Header.Values("Hysteria-Auth")))
	hd.Set("X-Vf-Saw-Rx", fmt.Sprintf("%q", r.Header.Values("Hysteria-CC-RX")))
	hd.Set("X-Vf-Saw-Padding", fmt.Sprintf("%q", r.Header.Values("Hysteria-Padding")))
	hd.Set("X-Vf-Saw-Body", fmt.Sprintf("%d:%x", len(body), sha256.Sum256(body)))
	hd["Set-Cookie"] = []string{"vf_a=" + id + "; Path=/", "vf_b=2; HttpOnly"}
	hd.Set("Cache-Control", "max-age=60")
	echo := fmt.Sprintf("method=%s\nhost=%s\npath=%s\nquery=%s\nid=%s\nbody=%d\n", r.Method, r.Host, r.URL.Path, r.URL.RawQuery, id, len(body))
	switch {
	case mode == "echo":
		hd.Set("Content-Type", "text/vf-echo")
		w.WriteHeader(200)
		_, _ = io.WriteString(w, echo)
	case strings.HasPrefix(mode, "st:"):
		code, _ := strconv.Atoi(mode[3:])
		switch code {
		case 301, 302:
			hd.Set("Location", "https://elsewhere.verif/"+id)
		case 401:
			hd.Set("WWW-Authenticate", `Basic realm="vf"`)
		case 405:
			hd.Set("Allow", "GET, HEAD")
		}
		hd.Set("Content-Type", "text/plain; charset=utf-8")
		w.WriteHeader(code)
		if code != 204 && code != 304 {
			_, _ = io.WriteString(w, "status "+mode[3:]+"\n"+echo)
		}
	case mode == "gate":
		// a slow web application / reverse proxy with a slow upstream: answers only when released
		h.mu.Lock()
		if h.entered == nil {
			h.entered = map[string]int{}
		}
		h.entered[r.RemoteAddr]++
		g := h.gate
		h.mu.Unlock()
		if g != nil {
			select {
			case <-g:
			case <-r.Context().Done():
				return
			}
		}
		hd.Set("Content-Type", "text/vf-gated")
		w.WriteHeader(200)
		_, _ = io.WriteString(w, "released\n"+echo)
	case mode == "empty":
		hd.Set("Content-Length", "0")
		w.WriteHeader(200)
	case mode == "nowrite":
		// return without touching the writer: implicit 200, no body
	case strings.HasPrefix(mode, "big:") || strings.HasPrefix(mode, "bigcl:"):
		n, _ := strconv.Atoi(mode[strings.IndexByte(mode, ':')+1:])
		hd.Set("Content-Type", "application/octet-stream")
		if strings.HasPrefix(mode, "bigcl:") {
			hd.Set("Content-Length", strconv.Itoa(n))
		}
		w.WriteHeader(200)
		p := vfC02Pattern(id, n)
		for len(p) > 0 {
			c := min(len(p), 8192)
			if _, err := w.Write(p[:c]); err != nil {
				return
			}
			p = p[c:]
		}
	case mode == "hint103": // 103 Early Hints, then the real answer
		hd.Set("Link", "</style-"+id+".css>; rel=preload; as=style")
		w.WriteHeader(http.StatusEarlyHints)
		hd.Set("Content-Type", "text/vf-hinted")
		w.WriteHeader(404)
		_, _ = io.WriteString(w, "hinted 404\n"+echo)
	case mode == "proc102":
		w.WriteHeader(http.StatusProcessing)
		hd.Set("Content-Type", "text/vf-processed")
		w.WriteHeader(200)
		_, _ = io.WriteString(w, echo)
	case mode == "multi1xx":
		hd.Add("Link", "</a-"+id+".js>; rel=preload; as=script")
		w.WriteHeader(http.StatusEarlyHints)
		hd.Add("Link", "</b.css>; rel=preload; as=style")
		w.WriteHeader(http.StatusEarlyHints)
		w.WriteHeader(http.StatusProcessing)
		hd.Del("Link")
		hd.Set("Retry-After", "120")
		w.WriteHeader(503)
		_, _ = io.WriteString(w, "busy\n")
	case mode == "hint-implicit": // 103, then a body without an explicit final status
		hd.Set("Link", "</i.css>; rel=preload")
		w.WriteHeader(http.StatusEarlyHints)
		_, _ = io.WriteString(w, "<html><body>implicit after hint "+id+"</body></html>")
	case mode == "twice": // only the first final status counts
		hd.Set("Content-Type", "text/vf-twice")
		w.WriteHeader(201)
		w.WriteHeader(500)
		_, _ = io.WriteString(w, "created\n"+echo)
	case mode == "flushfirst": // Flush before any WriteHeader: implicit 200, the later 404 is void
		if f, ok := w.(http.Flusher); ok {
			f.Flush()
		}
		hd.Set("X-Vf-Late", "void")
		w.WriteHeader(404)
		_, _ = io.WriteString(w, "flushed first\n"+echo)
	case mode == "implicit": // body without WriteHeader and without Content-Type (sniffed)
		_, _ = io.WriteString(w, "<!DOCTYPE html><html><body>"+id+"</body></html>")
	case mode == "setdel":
		hd.Set("X-Vf-Gone", "1")
		hd.Add("X-Vf-Multi", "a")
		hd.Add("X-Vf-Multi", "b")
		hd.Del("X-Vf-Gone")
		hd.Del("Cache-Control")
		hd["Date"] = nil // documented way to suppress Date
		w.WriteHeader(200)
		hd.Set("X-Vf-Late", "void")
		_, _ = io.WriteString(w, echo)
	case mode == "trailer":
		hd.Set("Trailer", "X-Vf-Trailer")
		hd.Set("Content-Type", "text/vf-trailered")
		w.WriteHeader(200)
		_, _ = io.WriteString(w, echo)
		hd.Set("X-Vf-Trailer", "t-"+id)
		hd.Set(http.TrailerPrefix+"X-Vf-Trailer2", "p-"+id)
	case mode == "ifaces": // a web application may depend on what its ResponseWriter can do
		var have []string
		if _, ok := w.(http.Flusher); ok {
			have = append(have, "Flusher")
		}
		if _, ok := w.(interface{ FlushError() error }); ok {
			have = append(have, "FlushError")
		}
		if _, ok := w.(http.Hijacker); ok {
			have = append(have, "Hijacker")
		}
		if _, ok := w.(http.Pusher); ok {
			have = append(have, "Pusher")
		}
		if _, ok := w.(io.ReaderFrom); ok {
			have = append(have, "ReaderFrom")
		}
		if _, ok := w.(http3.HTTPStreamer); ok {
			have = append(have, "HTTPStreamer")
		}
		if _, ok := w.(http3.Settingser); ok {
			have = append(have, "Settingser")
		}
		if _, ok := w.(interface{ SetWriteDeadline(time.Time) error }); ok {
			have = append(have, "SetWriteDeadline")
		}
		if _, ok := w.(interface{ Unwrap() http.ResponseWriter }); ok {
			have = append(have, "Unwrap")
		}
		hd.Set("X-Vf-Ifaces", strings.Join(have, ","))
		hd.Set("X-Vf-Rc-Deadline", fmt.Sprint(http.NewResponseController(w).SetWriteDeadline(time.Now().Add(time.Hour))))
		w.WriteHeader(200)
		_, _ = io.WriteString(w, echo)
	case mode == "slow":
		// a slow web application: the body comes in two parts 12 s apart (virtual time in a bubble)
		hd.Set("Content-Type", "text/vf-slow")
		w.WriteHeader(200)
		_, _ = io.WriteString(w, "slow-part1:"+id+"\n")
		if f, ok := w.(http.Flusher); ok {
			f.Flush()
		}
		select {
		case <-time.After(12 * time.Second):
		case <-r.Context().Done():
			return
		}
		_, _ = io.WriteString(w, "slow-part2:"+echo)
	case mode == "flush":
		hd.Set("Content-Type", "text/vf-chunks")
		w.WriteHeader(200)
		_, _ = io.WriteString(w, "part1:"+id+"\n")
		if f, ok := w.(http.Flusher); ok {
			f.Flush()
		}
		_, _ = io.WriteString(w, "part2:"+echo)
	case mode == "reqbody":
		hd.Set("Content-Type", "application/octet-stream")
		w.WriteHeader(200)
		_, _ = w.Write(body)
	case mode == "redirect":
		http.Redirect(w, r, "/moved/"+id, http.StatusFound)
	default: // "notfound"
		http.NotFound(w, r)
	}
}

var vfC02Modes = []string{
	"echo", "echo", "st:201", "st:204", "st:301", "st:304", "st:400", "st:401", "st:403", "st:404", "st:405", "st:418",
	"st:500", "st:503", "empty", "nowrite", "big:1", "big:1200", "bigcl:16384", "big:70000", "flush", "reqbody", "redirect", "notfound",
	"slow", // bubble parts only (12 s between the two halves of the body)
	"hint103", "proc102", "multi1xx", "hint-implicit", "twice", "flushfirst", "implicit", "setdel", "trailer", "ifaces",
}

// ---------------------------------------------------------------- workload

var (
	vfC02Methods = []string{"GET", "POST", "PUT", "HEAD", "OPTIONS", "DELETE"}
	vfC02Hosts   = []string{"hysteria", "example.com", "hysteria.example", "xhysteria"}
	// the last three are not in canonical form (and do not normalise to /auth): a server must hand them to the
	// masquerade handler as they are, not "clean" or redirect them itself
	vfC02Paths = []string{"/auth", "/auth/", "/authx", "/Auth", "/", "/a/b?q=1", "//x", "/a/../b", "/./x"}
	// header sets; auth_good (credentials the authenticator WOULD accept) is only put on near-misses
	vfC02HeaderSets = []string{"none", "auth_bad", "auth_full_bad", "rx_garbage", "padding", "auth_good"}
)

type vfC02Req struct {
	ID     string `json:"id"` // c<k>r<n>: unique per world; part of every credential
	Method string `json:"method"`
	Host   string `json:"host"`
	Path   string `json:"path"`
	HS     string `json:"hs"`
	Mode   string `json:"mode"`
	BodyN  int    `json:"body_n"` // request body length, -1 = none
}

func (q *vfC02Req) exact() bool {
	return q.Method == "POST" && q.Host == "hysteria" && q.Path == "/auth"
}

func (q *vfC02Req) headers() http.Header {
	h := http.Header{}
	h.Set("X-Vf-Id", q.ID)
	h.Set("X-Vf-Mode", q.Mode)
	switch q.HS {
	case "auth_bad":
		h.Set("Hysteria-Auth", "bad-"+q.ID)
	case "auth_full_bad":
		h.Set("Hysteria-Auth", "bad-"+q.ID)
		h.Set("Hysteria-CC-RX", "1250000")
		h.Set("Hysteria-Padding", strings.Repeat("Pad", 40))
	case "rx_garbage":
		h.Set("Hysteria-CC-RX", "garbage-"+q.ID)
	case "padding":
		h.Set("Hysteria-Padding", strings.Repeat("x", 97))
	case "auth_good":
		h.Set("Hysteria-Auth", "ok:u-"+q.ID)
		h.Set("Hysteria-CC-RX", "0")
		h.Set("Hysteria-Padding", strings.Repeat("y", 33))
	}
	return h
}

func (q *vfC02Req) body() []byte {
	if q.BodyN < 0 {
		return nil
	}
	return vfC02Pattern("req-"+q.ID, q.BodyN)
}

type vfC02Action struct {
	Kind string    `json:"kind"` // req | auth_ok | stream | dgram | sleep
	N    int       `json:"n"`
	Req  *vfC02Req `json:"req,omitempty"`
}

type vfC02Conn struct {
	K       int           `json:"k"`
	Actions []vfC02Action `json:"actions"`
}

type vfC02Case struct {
	CaseID    string      `json:"case_id"`
	Custom    bool        `json:"custom_handler"`
	LatencyMs int         `json:"latency_ms"`
	Conns     []vfC02Conn `json:"conns"`
}

type vfC02Rand interface{ Intn(int) int }

func vfC02Decorate(r vfC02Rand, q *vfC02Req) {
	q.Mode = vfC02Modes[r.Intn(len(vfC02Modes))]
	if r.Intn(40) == 0 {
		q.Mode = "big:300000"
	}
	q.BodyN = -1
	if (q.Method == "POST" || q.Method == "PUT") && r.Intn(2) == 0 {
		q.BodyN = []int{0, 7, 3000, 40000}[r.Intn(4)]
	}
}

// vfC02GenReq draws a request: 45 % differ from POST hysteria/auth in exactly one coordinate,
// 15 % are POST hysteria/auth with credentials the authenticator rejects, the rest uniform.
func vfC02GenReq(r vfC02Rand, id string) *vfC02Req {
	q := &vfC02Req{ID: id, Method: "POST", Host: "hysteria", Path: "/auth"}
	x := r.Intn(100)
	switch {
	case x < 45:
		switch r.Intn(3) {
		case 0:
			q.Method = []string{"GET", "PUT", "HEAD", "OPTIONS", "DELETE"}[r.Intn(5)]
		case 1:
			q.Host = vfC02Hosts[1+r.Intn(3)]
		default:
			q.Path = vfC02Paths[1+r.Intn(len(vfC02Paths)-1)]
		}
		q.HS = vfC02HeaderSets[r.Intn(6)]
	case x < 60:
		q.HS = vfC02HeaderSets[r.Intn(5)]
	default:
		q.Method = vfC02Methods[r.Intn(6)]
		q.Host = vfC02Hosts[r.Intn(4)]
		q.Path = vfC02Paths[r.Intn(len(vfC02Paths))]
		q.HS = vfC02HeaderSets[r.Intn(6)]
		if q.exact() && q.HS == "auth_good" {
			q.HS = "auth_full_bad"
		}
	}
	vfC02Decorate(r, q)
	return q
}

func vfC02AuthOK(r vfC02Rand, id string) *vfC02Req {
	q := &vfC02Req{ID: id, Method: "POST", Host: "hysteria", Path: "/auth", HS: "auth_good"}
	vfC02Decorate(r, q)
	vfC02NoSlow(q)
	return q
}

// vfC02NoSlow: a POST hysteria/auth that the Hysteria server may legitimately answer with 233 at
// once (the accepted authentication, or a repeat on an authenticated connection) must not ask the
// web application for its 12 s response: only the reference connection would be busy for 12 s, and
// a following quiet period would let the Hysteria connection alone run into QUIC's idle timeout —
// an artefact of the workload, not a difference between the servers. (Workload shaping only; what
// was accepted is still read from the authenticator's log.)
func vfC02NoSlow(q *vfC02Req) {
	if q.exact() && q.Mode == "slow" {
		q.Mode = "flush"
	}
}

// vfC02GenScripts: random sequences; a successful authentication at a random position on
// about 60 % of the connections (requests before / between / after it), about 25 % of the
// connections are "fresh" ones with one or two requests. Proxy streams only before the
// accepted authentication; datagrams only on connections that never authenticate (a datagram
// queued by QUIC before acceptance is legitimately served after it).
func vfC02GenScripts(k *vfKit, caseID string) vfC02Case {
	r := k.Rand(caseID)
	c := vfC02Case{CaseID: caseID, Custom: r.Intn(3) != 0, LatencyMs: 1 + r.Intn(20)}
	nconn := 1 + r.Intn(4)
	for ci := 1; ci <= nconn; ci++ {
		cs := vfC02Conn{K: ci}
		na := 4 + r.Intn(12)
		if r.Intn(4) == 0 {
			na = 1 + r.Intn(2)
		}
		authAt := -1
		if r.Intn(100) < 60 {
			authAt = r.Intn(na + 1)
		}
		second := -1
		if authAt >= 0 && r.Intn(3) == 0 {
			second = authAt + 1 + r.Intn(na-authAt+1)
		}
		quiet := false // a long pause has been scheduled since the last request
		for a := 0; a <= na; a++ {
			id := fmt.Sprintf("c%dr%d", ci, a)
			if a == authAt || a == second {
				cs.Actions = append(cs.Actions, vfC02Action{Kind: "auth_ok", N: a, Req: vfC02AuthOK(r, id)})
				quiet = false
				continue
			}
			if a == na {
				break
			}
			x := r.Intn(100)
			switch {
			case x < 8 && (authAt < 0 || a < authAt):
				cs.Actions = append(cs.Actions, vfC02Action{Kind: "stream", N: a})
			case x < 16 && authAt < 0:
				cs.Actions = append(cs.Actions, vfC02Action{Kind: "dgram", N: a})
			case x < 20:
				cs.Actions = append(cs.Actions, vfC02Action{Kind: "sleep", N: a})
			case x < 27 && !quiet:
				// a kept-alive connection that is quiet for a while: N = seconds of virtual time, below QUIC's
				// 30 s idle timeout, and at most one pause between two requests
				cs.Actions = append(cs.Actions, vfC02Action{Kind: "pause", N: []int{11, 24}[r.Intn(2)]})
				quiet = true
			default:
				q := vfC02GenReq(r, id)
				if authAt >= 0 && a > authAt {
					vfC02NoSlow(q)
				}
				cs.Actions = append(cs.Actions, vfC02Action{Kind: "req", N: a, Req: q})
				quiet = false
			}
		}
		c.Conns = append(c.Conns, cs)
	}
	return c
}

// ---------------------------------------------------------------- execution + oracle

type vfC02ConnState struct {
	k          int
	born       time.Time // (virtual) time the connection pair was established
	hy, ref    *vfRaw
	accepted   bool // the authenticator fake accepted this connection (from its log)
	windowAuth int  // auth_call events attributed to request windows
	probed     bool // an unauthenticated 0x401 stream / datagram was sent earlier on this connection
	dgramsSent int
	mu         sync.Mutex
	dgramsRecv int
}

func vfC02HeaderNames(h http.Header) []string {
	var n []string
	for k := range h {
		n = append(n, k)
	}
	sort.Strings(n)
	return n
}

func vfC02HeaderString(h http.Header) string {
	var parts []string
	for _, n := range vfC02HeaderNames(h) {
		parts = append(parts, fmt.Sprintf("%s=%q", n, h[n]))
	}
	return "[" + strings.Join(parts, " ") + "]"
}

func vfC02InfoString(in []vfC02Info) string {
	var parts []string
	for _, i := range in {
		parts = append(parts, fmt.Sprintf("%d%s", i.Code, vfC02HeaderString(i.Header)))
	}
	return "[" + strings.Join(parts, ", ") + "]"
}

func vfC02RespSummary(r vfC02Resp) map[string]any {
	m := map[string]any{"status": r.Status, "header": r.Header, "body_len": len(r.Body), "body_sha256": fmt.Sprintf("%x", sha256.Sum256(r.Body))}
	if len(r.Body) <= 400 {
		m["body"] = string(r.Body)
	} else {
		m["body_head"] = string(r.Body[:200])
	}
	if r.Err != nil {
		m["err"] = r.Err.Error()
	}
	if len(r.Info) > 0 {
		m["informational"] = r.Info
	}
	if len(r.Trailer) > 0 {
		m["trailer"] = r.Trailer
	}
	return m
}

func vfC02Run(t *testing.T, k *vfKit, c vfC02Case) {
	vfC02CurrentCase.Store(c.CaseID)
	defer vfC02Progress.Add(1)
	synctest.Test(t, func(t *testing.T) {
		var masq http.Handler // what the Hysteria server gets
		var refH http.Handler = http.HandlerFunc(http.NotFound)
		var app *vfC02Handler
		if c.Custom {
			app = &vfC02Handler{hits: map[string]int{}}
			masq, refH = app, app
		}
		w, err := vfNewWorld(vfServerOpts{
			Latency: time.Duration(c.LatencyMs) * time.Millisecond,
			Config:  func(sc *server.Config) { sc.MasqHandler = masq },
		})
		if err != nil {
			t.Fatalf("harness: server: %v", err)
		}
		ref, err := vfC02StartRef(w, refH)
		if err != nil {
			t.Fatalf("harness: reference server: %v", err)
		}
		w.onClose(ref.Close) // registered first => closed after all clients
		// If the server wrongly proxies, targets answer at once, so the reply is visible to the client.
		w.Out.OnTCP = func(addr string) (net.Conn, error) {
			pt := vfNewPipeTarget()
			go func() { _, _ = pt.Harness.Write([]byte("GREETING-FROM-" + addr)) }()
			w.onClose(func() { _ = pt.Harness.Close() })
			return pt.serverSide, nil
		}
		w.Out.OnUDP = func(addr string) (server.UDPConn, error) {
			s := vfNewSinkUDP(w.Log, addr)
			s.Reply([]byte("UDP-GREETING-"+addr), addr)
			return s, nil
		}

		rep := func(extra map[string]any) map[string]any {
			m := map[string]any{"case_id": c.CaseID, "case": c}
			for a, b := range extra {
				m[a] = b
			}
			return m
		}

		states := make([]*vfC02ConnState, len(c.Conns))
		scriptDone := make(chan struct{}, len(c.Conns))
		for i := range c.Conns {
			cs := c.Conns[i]
			st := &vfC02ConnState{k: cs.K, born: time.Now()}
			states[i] = st
			if st.hy, err = vfC02Dial(w, w.ServerAddr); err != nil {
				t.Fatalf("harness: dial hysteria: %v", err)
			}
			if st.ref, err = vfC02Dial(w, ref.Addr); err != nil {
				t.Fatalf("harness: dial reference: %v", err)
			}
			dctx, dcancel := context.WithCancel(context.Background())
			w.onClose(dcancel)
			go func() {
				for {
					if _, err := st.hy.Conn.ReceiveDatagram(dctx); err != nil {
						return
					}
					st.mu.Lock()
					st.dgramsRecv++
					st.mu.Unlock()
				}
			}()
			go func() {
				defer func() { scriptDone <- struct{}{} }()
				for _, a := range cs.Actions {
					switch a.Kind {
					case "sleep":
						time.Sleep(time.Duration(13+7*a.N) * time.Millisecond)
					case "pause":
						k.Count("ev_long_pause", 1)
						time.Sleep(time.Duration(a.N) * time.Second)
					case "req", "auth_ok":
						vfC02DoRequest(k, w, c, st, a.Req, rep)
					case "stream":
						vfC02DoStream(k, w, c, st, a.N, rep)
					case "dgram":
						if st.accepted {
							continue
						}
						k.Eval()
						addr := fmt.Sprintf("c%dd%d.verif:53", st.k, a.N)
						msg := vfUDPMessageBytes(uint32(1+a.N), 0, 0, 1, addr, []byte("dgram-for-"+addr))
						if err := st.hy.Conn.SendDatagram(msg); err == nil {
							st.dgramsSent++
							st.probed = true
						}
						_ = st.ref.Conn.SendDatagram(msg)
					}
				}
			}()
		}
		for range c.Conns {
			<-scriptDone
		}
		time.Sleep(1 * time.Second) // virtual settle
		synctest.Wait()
		evs := w.Log.Snapshot()
		w.Close()

		// census over the authenticator's log
		calls, oks := map[string]int{}, map[string]bool{}
		for _, e := range evs {
			switch e.Kind {
			case "auth_call":
				calls[e.Tag]++
			case "auth_ok":
				oks[e.Tag] = true
			}
		}
		known := map[string]bool{}
		for _, st := range states {
			known[st.hy.Tag] = true
			if calls[st.hy.Tag] != st.windowAuth {
				k.Violation("server:authenticator-called-outside-auth-request", rep(map[string]any{"conn": st.k, "log": evs}),
					"connection c%d: authenticator was called %d times, but only %d calls happened while an HTTP request of that connection was in flight",
					st.k, calls[st.hy.Tag], st.windowAuth)
			}
			if oks[st.hy.Tag] != st.accepted {
				k.Violation("server:authenticator-called-outside-auth-request", rep(map[string]any{"conn": st.k, "log": evs}),
					"connection c%d: acceptance in the authenticator log (%v) not attributable to a request (%v)", st.k, oks[st.hy.Tag], st.accepted)
			}
			if st.dgramsSent > 0 && !oks[st.hy.Tag] {
				k.Count("ev_unauth_dgram_sent", int64(st.dgramsSent))
				st.mu.Lock()
				n := st.dgramsRecv
				st.mu.Unlock()
				if n != 0 {
					k.Violation("server:datagram-to-unauthenticated", rep(map[string]any{"conn": st.k, "received": n}),
						"connection c%d was never accepted by the authenticator, sent %d UDPMessage datagrams and received %d datagrams", st.k, st.dgramsSent, n)
				}
			}
		}
		for tag := range calls {
			if !known[tag] {
				k.Violation("server:authenticator-called-outside-auth-request", rep(map[string]any{"tag": tag}), "authenticator called for unknown connection %s", tag)
			}
		}
		if app != nil {
			app.mu.Lock()
			for _, st := range states {
				k.Count("ev_custom_handler_hits_hysteria", int64(app.hits[st.hy.Tag]))
				k.Count("custom_handler_hits_reference", int64(app.hits[st.ref.Tag]))
			}
			app.mu.Unlock()
		}
	})
}

func vfC02DoRequest(k *vfKit, w *vfWorld, c vfC02Case, st *vfC02ConnState, q *vfC02Req, rep func(map[string]any) map[string]any) {
	k.Eval()
	defer vfC02Progress.Add(1)
	if age := time.Since(st.born); age > 10*time.Second && !st.accepted {
		k.Count("ev_request_on_unauthenticated_conn_older_than_10s", 1)
	}
	hdr, body := q.headers(), q.body()
	acceptedBefore := st.accepted
	l0 := w.Log.Len()
	// fan out over channels (channel operations are durably blocking in a bubble)
	hyC, refC := make(chan vfC02Resp, 1), make(chan vfC02Resp, 1)
	refHdr := hdr.Clone()
	go func() { hyC <- vfC02Do(st.hy, q.Method, q.Host, q.Path, hdr, body) }()
	go func() { refC <- vfC02Do(st.ref, q.Method, q.Host, q.Path, refHdr, body) }()
	hyR, refR := <-hyC, <-refC
	var authEvs []vfEvent
	ncall, nok, nrej := 0, 0, 0
	for _, e := range w.Log.Snapshot()[l0:] {
		if e.Tag != st.hy.Tag {
			continue
		}
		switch e.Kind {
		case "auth_call":
			ncall++
		case "auth_ok":
			nok++
		case "auth_rej":
			nrej++
		default:
			continue
		}
		authEvs = append(authEvs, e)
	}
	st.windowAuth += ncall
	wit := func(extra map[string]any) map[string]any {
		m := rep(map[string]any{"conn": st.k, "request": q, "accepted_before": acceptedBefore, "auth_events": authEvs,
			"hysteria": vfC02RespSummary(hyR), "reference": vfC02RespSummary(refR)})
		for a, b := range extra {
			m[a] = b
		}
		return m
	}
	desc := fmt.Sprintf("%s https://%s%s [%s, handler %v, mode %s, conn c%d %s]", q.Method, q.Host, q.Path, q.HS, c.Custom, q.Mode, st.k,
		map[bool]string{false: "not authenticated", true: "authenticated"}[acceptedBefore])

	if !q.exact() && ncall > 0 {
		k.Violation("server:authenticator-consulted-for-near-miss", wit(nil), "authenticator called %d time(s) for near-miss %s", ncall, desc)
	}
	if nok > 0 {
		st.accepted = true
		if q.exact() {
			k.Count("ev_accepted_auth", 1) // answer (233 + Hysteria headers) is C01/C10's business
		}
		return
	}
	if q.exact() && acceptedBefore {
		// repeated auth request on an authenticated connection: governed by C01 (must answer 233), not compared
		k.Count("repeat_auth_on_authenticated_skipped", 1)
		return
	}

	// ---- not an accepted authentication request: must look exactly like the web server
	if refR.Err != nil {
		k.Inconclusive(fmt.Sprintf("%s: reference server gave no response: %v", c.CaseID, refR.Err))
		return
	}
	k.Count("ev_compared", 1)
	if nrej > 0 {
		k.Count("ev_compared_auth_rejected", 1)
	}
	if acceptedBefore {
		k.Count("ev_compared_after_auth", 1)
	}
	if q.exact() {
		k.Count("compared_exact_shape", 1)
	} else {
		k.Count("compared_near_miss", 1)
	}
	k.Nontrivial(fmt.Sprintf("%v|%v|%s|%s|%s|%s|%s|%d", c.Custom, acceptedBefore, q.Method, q.Host, q.Path, q.HS, q.Mode, q.BodyN))

	vfC02CompareResp(k, desc, wit, q, hyR, refR, st.probed)
}

// vfC02CompareResp is the oracle for one request that is not an accepted authentication
// request: the Hysteria server's response must be what the plain web server gave.
func vfC02CompareResp(k *vfKit, desc string, wit func(map[string]any) map[string]any, q *vfC02Req, hyR, refR vfC02Resp, probed bool) {
	if hyR.Err != nil {
		if probed {
			// the reaction of either server to an unauthenticated 0x401 stream is not demanded
			k.Count("request_failed_after_unauth_probe", 1)
			return
		}
		k.Violation("server:masq-no-response", wit(nil), "%s: web server answered %d, Hysteria server gave no response: %v", desc, refR.Status, hyR.Err)
		return
	}
	if hyR.Status == 233 {
		k.Violation("server:status-233-without-acceptance", wit(nil), "%s: status 233 although the authenticator did not accept this request", desc)
	}
	for name := range hyR.Header {
		if strings.HasPrefix(strings.ToLower(name), "hysteria") {
			k.Violation("server:hysteria-header-on-masq-response", wit(map[string]any{"header": name}), "%s: response carries Hysteria header %s: %q", desc, name, hyR.Header[name])
		}
	}
	if hyR.Status != refR.Status {
		k.Violation("server:masq-status-differs", wit(nil), "%s: status %d, plain web server with the same handler answers %d", desc, hyR.Status, refR.Status)
	}
	hn, rn := vfC02HeaderNames(hyR.Header), vfC02HeaderNames(refR.Header)
	if strings.Join(hn, "\n") != strings.Join(rn, "\n") {
		k.Violation("server:masq-header-set-differs", wit(nil), "%s: header names %v, plain web server sends %v", desc, hn, rn)
	} else {
		for _, name := range hn {
			a, b := hyR.Header[name], refR.Header[name]
			if strings.Join(a, "\x00") == strings.Join(b, "\x00") {
				continue
			}
			if name == "Date" { // equality of Date is not demanded (observation only)
				k.Count("date_value_differs", 1)
				continue
			}
			k.Violation("server:masq-header-value-differs", wit(map[string]any{"header": name}), "%s: header %s = %q, plain web server sends %q", desc, name, a, b)
		}
	}
	if a, b := vfC02InfoString(hyR.Info), vfC02InfoString(refR.Info); a != b {
		k.Violation("server:masq-informational-differs", wit(nil), "%s: informational (1xx) responses before the final one: %s; plain web server sends: %s", desc, a, b)
	}
	if len(refR.Info) > 0 {
		k.Count("compared_with_1xx", 1)
	}
	if a, b := vfC02HeaderString(hyR.Trailer), vfC02HeaderString(refR.Trailer); a != b {
		k.Violation("server:masq-trailer-differs", wit(nil), "%s: trailer %s; plain web server sends: %s", desc, a, b)
	}
	if len(refR.Trailer) > 0 {
		k.Count("compared_with_trailer", 1)
	}
	if !bytes.Equal(hyR.Body, refR.Body) {
		k.Violation("server:masq-body-differs", wit(nil), "%s: body (%d bytes) differs from the plain web server's (%d bytes)", desc, len(hyR.Body), len(refR.Body))
	}
	if len(hyR.Body) >= 16384 {
		k.Count("compared_large_body", 1)
	}
	if q.Method == "HEAD" {
		k.Count("compared_head", 1)
	}
	if len(hyR.Body) == 0 {
		k.Count("compared_empty_body", 1)
	}
}

func vfC02DoStream(k *vfKit, w *vfWorld, c vfC02Case, st *vfC02ConnState, n int, rep func(map[string]any) map[string]any) {
	if st.accepted {
		return // on an authenticated connection a TCPResponse is the correct answer
	}
	k.Eval()
	addr := fmt.Sprintf("c%ds%d.verif:%d", st.k, n, 1000+n)
	read := func(r *vfRaw) (b []byte, opened bool, rerr error) {
		s, err := r.ProxyStream(addr)
		if err != nil {
			return nil, false, err
		}
		_, _ = s.Write([]byte("payload-for-" + addr))
		b, rerr = vfReadSome(s, 300*time.Millisecond)
		s.CancelRead(0)
		s.CancelWrite(0)
		return b, true, rerr
	}
	type sres struct {
		b      []byte
		opened bool
		err    error
	}
	hyC, refC := make(chan sres, 1), make(chan sres, 1)
	go func() { b, o, e := read(st.hy); hyC <- sres{b, o, e} }()
	go func() { b, o, e := read(st.ref); refC <- sres{b, o, e} }()
	hyS, refS := <-hyC, <-refC
	hyB, hyOpen, hyErr, refB, refErr := hyS.b, hyS.opened, hyS.err, refS.b, refS.err
	st.probed = true
	if !hyOpen {
		k.Count("unauth_stream_not_opened", 1)
		return
	}
	for _, e := range w.Log.Snapshot() {
		if e.Kind == "auth_ok" && e.Tag == st.hy.Tag {
			return // cannot happen with sequential scripts; then the stream is not an unauthenticated one
		}
	}
	k.Count("ev_unauth_stream", 1)
	if len(hyB) == 0 {
		k.Count("unauth_stream_zero_bytes", 1)
	}
	if !bytes.Equal(hyB, refB) || fmt.Sprint(hyErr) != fmt.Sprint(refErr) {
		k.Count("unauth_stream_reaction_differs_from_web_server", 1) // not demanded
	}
	if status, msg, _, ok := vfParseTCPResponse(hyB); ok && !bytes.Equal(hyB, refB) {
		k.Violation("server:tcpresponse-to-unauthenticated-stream", rep(map[string]any{"conn": st.k, "addr": addr, "bytes": vfHex(hyB), "reference_bytes": vfHex(refB)}),
			"connection c%d (never accepted by the authenticator) sent 0x401+TCPRequest(%s) and read a TCPResponse: status %#x msg %q (plain web server: %d bytes)",
			st.k, addr, status, msg, len(refB))
	}
}

// ---------------------------------------------------------------- frozen-bubble guard

// A goroutine of the code under test that waits on a sync.Mutex forever is not "durably
// blocked" for synctest: the bubble's clock stops and nothing ever times out. Virtual-time
// bounds (every request has a 60 s context, every stream read a deadline) cannot help then.
// vfC02FreezeGuard runs OUTSIDE the bubble: if no request completes for 150 s of real time
// (a request normally costs micro- to milliseconds), it writes the goroutine dump, records the
// case as inconclusive (a frozen bubble is not by itself a verdict: the real-time parts, which
// run first, decide "never answered"), writes the part's result and ends the process instead
// of leaving it to the runner's 10 min watchdog.
var (
	vfC02Progress    atomic.Int64
	vfC02CurrentCase atomic.Value
)

func vfC02FreezeGuard(k *vfKit) (stop func()) {
	done := make(chan struct{})
	go func() {
		last, lastChange := vfC02Progress.Load(), time.Now()
		for {
			select {
			case <-done:
				return
			case <-time.After(2 * time.Second):
			}
			if p := vfC02Progress.Load(); p != last {
				last, lastChange = p, time.Now()
				continue
			}
			if time.Since(lastChange) < 150*time.Second {
				continue
			}
			buf := make([]byte, 16<<20)
			buf = buf[:runtime.Stack(buf, true)]
			dump := filepath.Join(k.Out, "frozen-bubble-"+k.Name+".txt")
			_ = os.WriteFile(dump, buf, 0o644)
			var stuck []string
			for _, g := range strings.Split(string(buf), "\n\n") {
				head, _, _ := strings.Cut(g, "\n")
				if strings.Contains(head, "synctest bubble") && !strings.Contains(head, "(durable)") && !strings.Contains(head, "[running") && !strings.Contains(head, "[runnable") {
					lines := strings.Split(g, "\n")
					stuck = append(stuck, strings.Join(lines[:min(len(lines), 9)], " | "))
				}
			}
			k.Inconclusive(fmt.Sprintf("case %v: the synctest bubble made no progress for 150 s of real time: some goroutine is blocked in a way that is not durable (e.g. waiting for a mutex that is never released), so virtual time cannot advance. Not durably blocked: %q. Full dump: %s",
				vfC02CurrentCase.Load(), stuck, dump))
			k.Finish()
			fmt.Fprintf(os.Stderr, "verif C02: frozen synctest bubble in case %v, giving up (inconclusive); dump in %s\n", vfC02CurrentCase.Load(), dump)
			os.Exit(2)
		}
	}()
	return func() { close(done) }
}

// ---------------------------------------------------------------- tests

// TestVerifC02Matrix sweeps the complete stated matrix methods x authorities x paths x header
// sets, on connections that are not authenticated and on connections that are, without and
// with the custom handler (handler mode / request body drawn per cell from the PRNG).
func TestVerifC02Matrix(t *testing.T) {
	k := vfNewKit(t, "C02", "c02-matrix")
	defer k.Finish()
	defer vfC02FreezeGuard(k)()
	rounds := k.N(1, 6)
	const perConn, connsPerWorld = 48, 3
	world := 0
	for round := 0; round < rounds; round++ {
		for _, custom := range []bool{false, true} {
			for _, post := range []bool{false, true} {
				r := k.Rand(fmt.Sprintf("matrix-%d-%v-%v", round, custom, post))
				var cells []*vfC02Req
				for _, m := range vfC02Methods {
					for _, h := range vfC02Hosts {
						for _, p := range vfC02Paths {
							for _, hs := range vfC02HeaderSets {
								q := &vfC02Req{Method: m, Host: h, Path: p, HS: hs}
								if q.exact() && hs == "auth_good" {
									continue // that is the accepted authentication itself
								}
								vfC02Decorate(r, q)
								cells = append(cells, q)
							}
						}
					}
				}
				r.Shuffle(len(cells), func(i, j int) { cells[i], cells[j] = cells[j], cells[i] })
				for len(cells) > 0 {
					c := vfC02Case{CaseID: fmt.Sprintf("c02m-%d", world), Custom: custom, LatencyMs: 1 + r.Intn(10)}
					world++
					for ci := 1; ci <= connsPerWorld && len(cells) > 0; ci++ {
						cs := vfC02Conn{K: ci}
						if post {
							cs.Actions = append(cs.Actions, vfC02Action{Kind: "auth_ok", N: 0, Req: vfC02AuthOK(r, fmt.Sprintf("c%dr0", ci))})
						}
						n := min(perConn, len(cells))
						for i, q := range cells[:n] {
							q.ID = fmt.Sprintf("c%dr%d", ci, i+1)
							if post {
								vfC02NoSlow(q)
							}
							cs.Actions = append(cs.Actions, vfC02Action{Kind: "req", N: i + 1, Req: q})
						}
						cells = cells[n:]
						// one long quiet period somewhere on the (kept-alive) connection
						at := len(cs.Actions) - n + r.Intn(n+1)
						cs.Actions = append(cs.Actions[:at], append([]vfC02Action{{Kind: "pause", N: 11}}, cs.Actions[at:]...)...)
						c.Conns = append(c.Conns, cs)
					}
					if rc := k.ReplayCase(); rc != "" && rc != c.CaseID {
						continue
					}
					if world%7 == 1 {
						k.Sample(map[string]any{"case_id": c.CaseID, "custom_handler": c.Custom, "authenticated_first": post, "first_requests": c.Conns[0].Actions[:min(4, len(c.Conns[0].Actions))]})
					}
					vfC02Run(t, k, c)
				}
			}
		}
		// every behaviour of the custom web application at least once per kind of request, not left to the PRNG:
		// an ordinary request, a rejected POST hysteria/auth and a near-miss, before and after an accepted auth
		for _, post := range []bool{false, true} {
			r := k.Rand(fmt.Sprintf("modes-%d-%v", round, post))
			c := vfC02Case{CaseID: fmt.Sprintf("c02m-modes-%d-%v", round, post), Custom: true, LatencyMs: 1 + r.Intn(10)}
			shapes := []vfC02Req{
				{Method: "GET", Host: "example.com", Path: "/", HS: "none"},
				{Method: "POST", Host: "hysteria", Path: "/auth", HS: "auth_full_bad"},
				{Method: "HEAD", Host: "hysteria", Path: "/auth", HS: "auth_good"},
			}
			for ci, shape := range shapes {
				cs := vfC02Conn{K: ci + 1}
				if post {
					cs.Actions = append(cs.Actions, vfC02Action{Kind: "auth_ok", N: 0, Req: vfC02AuthOK(r, fmt.Sprintf("c%dr0", ci+1))})
				}
				seen := map[string]bool{}
				for _, m := range append(append([]string{}, vfC02Modes...), "big:300000") {
					if seen[m] {
						continue
					}
					seen[m] = true
					q := shape
					q.ID, q.Mode, q.BodyN = fmt.Sprintf("c%dr%d", ci+1, len(cs.Actions)+1), m, -1
					if post {
						vfC02NoSlow(&q)
					}
					cs.Actions = append(cs.Actions, vfC02Action{Kind: "req", N: len(cs.Actions) + 1, Req: &q})
				}
				c.Conns = append(c.Conns, cs)
			}
			if rc := k.ReplayCase(); rc == "" || rc == c.CaseID {
				vfC02Run(t, k, c)
			}
		}
	}
}

// TestVerifC02Scripts: random sequences on 1..4 concurrent connections per world, with a
// successful authentication somewhere in the middle of most of them, fresh short
// connections, unauthenticated 0x401 streams and UDPMessage datagrams.
func TestVerifC02Scripts(t *testing.T) {
	k := vfNewKit(t, "C02", "c02-scripts")
	defer k.Finish()
	defer vfC02FreezeGuard(k)()
	n := k.N(120, 4000)
	for i := 0; i < n; i++ {
		caseID := fmt.Sprintf("c02s-%d", i)
		if rc := k.ReplayCase(); rc != "" && rc != caseID {
			continue
		}
		c := vfC02GenScripts(k, caseID)
		if i < 3 {
			k.Sample(c)
		}
		vfC02Run(t, k, c)
	}
}

// ---------------------------------------------------------------- overlapping requests (real time)

// TestVerifC02Overlap: requests that OVERLAP on one unauthenticated connection. A POST
// hysteria/auth with credentials that are going to be rejected is kept pending — (a) inside
// the authenticator (fake holds it: slow authentication backend) or (b) inside the custom
// masquerade handler that answers the rejected request (gate: slow web application / upstream)
// — and meanwhile 1..3 ordinary / near-miss requests are sent on the SAME connection. A web
// server answers those independently of the pending one, so the Hysteria server must too:
// they must be answered, with the reference server's answer, while the auth request is still
// pending.
//
// This cannot run in a bubble (a request waiting on a mutex of the server is not durably
// blocked, virtual time would freeze), so it runs on simnet in real time. Real time only
// orchestrates; "not answered while pending" is decided on a LOGICAL clock: after the
// overlapping requests have been fired, K sequential request/response round trips are made
// on a second, untouched connection to the Hysteria server and on one to the reference
// server. If all of them completed (twice over), the pending request is still pending, the
// reference server has answered the twin of the overlapping request and the Hysteria server
// has not, the request is stalled behind the pending auth. Real-time watchdogs only yield
// inconclusive.
func TestVerifC02Overlap(t *testing.T) {
	k := vfNewKit(t, "C02", "c02-overlap")
	defer k.Finish()
	n := k.N(24, 400)
	for i := 0; i < n; i++ {
		caseID := fmt.Sprintf("c02o-%d", i)
		if rc := k.ReplayCase(); rc != "" && rc != caseID {
			continue
		}
		vfC02OverlapRun(t, k, caseID, i)
	}
}

type vfC02OverlapCase struct {
	CaseID    string      `json:"case_id"`
	Variant   string      `json:"variant"` // auth_hold | masq_hold
	Custom    bool        `json:"custom_handler"`
	LatencyMs int         `json:"latency_ms"`
	Pending   *vfC02Req   `json:"pending"`
	PendCred  string      `json:"pending_credential"`
	Overlap   []*vfC02Req `json:"overlapping"`
	RoundTrip int         `json:"logical_clock_round_trips"`
}

var vfC02SmallModes = []string{"echo", "st:201", "st:204", "st:301", "st:404", "st:405", "st:503", "empty", "nowrite", "big:1200", "flush", "reqbody", "redirect", "notfound",
	"hint103", "proc102", "multi1xx", "hint-implicit", "twice", "flushfirst", "implicit", "setdel", "trailer", "ifaces"}

func vfC02OverlapRun(t *testing.T, k *vfKit, caseID string, idx int) {
	const watchdog = 30 * time.Second
	r := k.Rand(caseID)
	c := vfC02OverlapCase{CaseID: caseID, LatencyMs: 1 + r.Intn(2), RoundTrip: 40}
	c.Variant = []string{"auth_hold", "masq_hold"}[idx%2]
	c.Custom = c.Variant == "masq_hold" || r.Intn(2) == 0
	c.Pending = &vfC02Req{ID: "pend", Method: "POST", Host: "hysteria", Path: "/auth", HS: "auth_full_bad", BodyN: -1}
	c.PendCred = "bad-pend-" + caseID
	c.Pending.Mode = vfC02SmallModes[r.Intn(len(vfC02SmallModes))]
	if c.Variant == "auth_hold" {
		c.PendCred = "hold:" + c.PendCred
	} else {
		c.Pending.Mode = "gate"
	}
	for j, nov := 0, 1+r.Intn(3); j < nov; j++ {
		q := vfC02GenReq(r, fmt.Sprintf("ov%d", j))
		if q.exact() {
			q.Method = "GET" // a second auth-shaped request may legitimately wait for the first
		}
		q.Mode = vfC02SmallModes[r.Intn(len(vfC02SmallModes))]
		if q.BodyN > 3000 {
			q.BodyN = 3000
		}
		c.Overlap = append(c.Overlap, q)
	}
	if idx < 4 {
		k.Sample(c)
	}

	var masq http.Handler
	var refH http.Handler = http.HandlerFunc(http.NotFound)
	var app *vfC02Handler
	gate := make(chan struct{})
	gateOpen := false
	openGate := func() {
		if !gateOpen {
			gateOpen = true
			close(gate)
		}
	}
	if c.Custom {
		app = &vfC02Handler{hits: map[string]int{}, gate: gate, entered: map[string]int{}}
		masq, refH = app, app
	}
	w, err := vfNewWorld(vfServerOpts{
		Latency: time.Duration(c.LatencyMs) * time.Millisecond,
		Config:  func(sc *server.Config) { sc.MasqHandler = masq },
	})
	if err != nil {
		t.Fatalf("harness: server: %v", err)
	}
	defer w.Close()
	defer openGate()
	ref, err := vfC02StartRef(w, refH)
	if err != nil {
		t.Fatalf("harness: reference server: %v", err)
	}
	w.onClose(ref.Close)
	dial := func(to *net.UDPAddr) *vfRaw {
		x, err := vfC02Dial(w, to)
		if err != nil {
			t.Fatalf("harness: dial: %v", err)
		}
		return x
	}
	hyA, refA := dial(w.ServerAddr), dial(ref.Addr) // the connection under test and its twin
	hyB, refB := dial(w.ServerAddr), dial(ref.Addr) // untouched connections: the logical clock

	rep := func(extra map[string]any) map[string]any {
		m := map[string]any{"case_id": c.CaseID, "case": c, "tag": hyA.Tag}
		for a, b := range extra {
			m[a] = b
		}
		return m
	}
	send := func(x *vfRaw, q *vfC02Req, cred string) chan vfC02Resp {
		ch := make(chan vfC02Resp, 1)
		h := q.headers()
		if cred != "" {
			h.Set("Hysteria-Auth", cred)
		}
		go func() { ch <- vfC02Do(x, q.Method, q.Host, q.Path, h, q.body()) }()
		return ch
	}
	try := func(ch chan vfC02Resp) (vfC02Resp, bool) {
		select {
		case x := <-ch:
			return x, true
		default:
			return vfC02Resp{}, false
		}
	}
	wait := func(ch chan vfC02Resp) (vfC02Resp, bool) {
		select {
		case x := <-ch:
			return x, true
		case <-time.After(watchdog):
			return vfC02Resp{}, false
		}
	}

	// 1. the auth request that is going to be rejected, and is kept pending
	hyPend, refPend := send(hyA, c.Pending, c.PendCred), send(refA, c.Pending, c.PendCred)
	pendingNow := func() bool { // orchestration only: has the request reached the place where it is held?
		if c.Variant == "masq_hold" {
			return app.gateEntered(hyA.Tag) > 0
		}
		for _, e := range w.Log.Snapshot() {
			if e.Kind == "auth_held" && e.Tag == hyA.Tag {
				return true
			}
		}
		return false
	}
	held := false
	for spin := 0; spin < 10000 && !held; spin++ {
		if held = pendingNow(); !held {
			time.Sleep(time.Millisecond)
		}
	}
	if !held {
		k.Eval()
		k.Inconclusive(caseID + ": the auth request never reached the " + c.Variant + " point (overlap not achieved)")
		return
	}

	// 2. overlapping requests on the same connection (and on the twin)
	hyOv, refOv := make([]chan vfC02Resp, len(c.Overlap)), make([]chan vfC02Resp, len(c.Overlap))
	for j, q := range c.Overlap {
		hyOv[j], refOv[j] = send(hyA, q, ""), send(refA, q, "")
	}

	// 3. logical clock: K sequential round trips on untouched connections, on both servers
	clock := func() bool {
		type res struct{ ok bool }
		tick := func(x *vfRaw, tag string) chan res {
			ch := make(chan res, 1)
			go func() {
				for i := 0; i < c.RoundTrip; i++ {
					rr := x.Do("GET", "example.com", fmt.Sprintf("/clock/%s/%d", tag, i), http.Header{"X-Vf-Mode": {"echo"}, "X-Vf-Id": {"clock"}}, nil)
					if rr.Err != nil {
						ch <- res{false}
						return
					}
				}
				ch <- res{true}
			}()
			return ch
		}
		a, b := tick(hyB, "hy"), tick(refB, "ref")
		for _, ch := range []chan res{a, b} {
			select {
			case x := <-ch:
				if !x.ok {
					return false
				}
			case <-time.After(watchdog):
				return false
			}
		}
		k.Count("ev_clock_round_trips", int64(2*c.RoundTrip))
		return true
	}
	if !clock() {
		k.Eval()
		k.Inconclusive(caseID + ": logical-clock connection failed or hit the real-time watchdog")
		return
	}

	// 4. verdict on the logical clock, while the auth request is still pending
	type ovState struct {
		hy, ref       vfC02Resp
		hyOK, refOK   bool
		answeredEarly bool
	}
	ov := make([]ovState, len(c.Overlap))
	check := func() (stalled []int) {
		for j := range c.Overlap {
			if !ov[j].hyOK {
				ov[j].hy, ov[j].hyOK = try(hyOv[j])
			}
			if !ov[j].refOK {
				ov[j].ref, ov[j].refOK = try(refOv[j])
			}
			if ov[j].refOK && !ov[j].hyOK {
				stalled = append(stalled, j)
			}
		}
		return
	}
	stalled := check()
	if len(stalled) > 0 { // give it the same amount of logical time again before calling it stalled
		if !clock() {
			k.Eval()
			k.Inconclusive(caseID + ": logical-clock connection failed on the confirmation pass")
			return
		}
		stalled = check()
	}
	pendR, pendDone := try(hyPend)
	stillPending := !pendDone
	for j := range ov {
		ov[j].answeredEarly = ov[j].hyOK
	}
	if stillPending {
		k.Count("ev_overlap_achieved", 1)
		for _, j := range stalled {
			q := c.Overlap[j]
			k.Violation("server:request-stalled-behind-pending-auth", rep(map[string]any{"request": q, "reference": vfC02RespSummary(ov[j].ref)}),
				"%s https://%s%s [%s] sent on an unauthenticated connection while a POST hysteria/auth with rejected credentials was pending (%s): the plain web server answered %d, the Hysteria server gave no response during %d request/response round trips on another connection; the pending request was then still unanswered",
				q.Method, q.Host, q.Path, q.HS, c.Variant, ov[j].ref.Status, 2*c.RoundTrip)
		}
	} else {
		k.Count("overlap_lost_pending_request_returned_early", 1)
	}

	// 5. release, collect everything
	if c.Variant == "auth_hold" {
		w.Auth.Release(hyA.Tag)
	}
	openGate()
	if !pendDone {
		pendR, pendDone = wait(hyPend)
	}
	refPendR, refPendDone := wait(refPend)
	for j := range ov {
		if !ov[j].hyOK {
			ov[j].hy, ov[j].hyOK = wait(hyOv[j])
		}
		if !ov[j].refOK {
			ov[j].ref, ov[j].refOK = wait(refOv[j])
		}
	}
	time.Sleep(20 * time.Millisecond) // orchestration: let late log entries land
	evs := w.Log.Snapshot()

	// authenticator census: exactly the pending request was evaluated, nothing accepted
	calls, oks := 0, 0
	for _, e := range evs {
		if e.Tag != hyA.Tag && e.Tag != hyB.Tag {
			continue
		}
		switch e.Kind {
		case "auth_call":
			calls++
			if a, _ := e.F["auth"].(string); e.Tag != hyA.Tag || a != c.PendCred {
				k.Violation("server:authenticator-consulted-for-near-miss", rep(map[string]any{"event": e}),
					"authenticator called with %q for connection %s although only the pending POST hysteria/auth (credential %q on %s) is an auth request", a, e.Tag, c.PendCred, hyA.Tag)
			}
		case "auth_ok":
			oks++
		}
	}
	if oks > 0 {
		return // cannot happen with these credentials; then nothing here is an unauthenticated request
	}

	compare := func(q *vfC02Req, hy, rf vfC02Resp, hyOK, rfOK bool, what string) {
		k.Eval()
		if !hyOK || !rfOK {
			k.Inconclusive(fmt.Sprintf("%s: %s not answered within the %v real-time watchdog after release (hysteria answered: %v, reference answered: %v)", caseID, what, watchdog, hyOK, rfOK))
			return
		}
		if rf.Err != nil {
			k.Inconclusive(fmt.Sprintf("%s: reference server gave no response to %s: %v", caseID, what, rf.Err))
			return
		}
		k.Count("ev_compared", 1)
		k.Nontrivial(fmt.Sprintf("overlap|%s|%v|%s|%s|%s|%s|%s|%s", c.Variant, c.Custom, what, q.Method, q.Host, q.Path, q.HS, q.Mode))
		desc := fmt.Sprintf("%s https://%s%s [%s, handler %v, mode %s, %s, overlap case %s]", q.Method, q.Host, q.Path, q.HS, c.Custom, q.Mode, what, c.Variant)
		wit := func(extra map[string]any) map[string]any {
			m := rep(map[string]any{"request": q, "hysteria": vfC02RespSummary(hy), "reference": vfC02RespSummary(rf)})
			for a, b := range extra {
				m[a] = b
			}
			return m
		}
		vfC02CompareResp(k, desc, wit, q, hy, rf, false)
	}
	for j, q := range c.Overlap {
		if ov[j].answeredEarly && stillPending {
			k.Count("ev_overlap_answered_while_pending", 1)
		}
		compare(q, ov[j].hy, ov[j].ref, ov[j].hyOK, ov[j].refOK, fmt.Sprintf("request %d overlapping the pending auth", j))
	}
	if calls > 0 {
		k.Count("ev_compared_auth_rejected", 1)
	}
	compare(c.Pending, pendR, refPendR, pendDone, refPendDone, "the pending rejected auth request")
}

// ---------------------------------------------------------------- repeated rejected auth on one connection (real time)

// TestVerifC02Repeat: SEQUENCES of 2..4 POST hysteria/auth requests with rejected credentials on
// ONE unauthenticated connection, interleaved with ordinary / near-miss requests; every one of
// them must be answered like the plain web server answers its twin. Real time on simnet (no
// bubble: a request that waits for a server mutex forever would freeze a bubble's clock instead
// of being reported), and it runs before the bubble parts. "Never answered" is decided on the
// logical clock of the overlap part: the reference server has answered the twin request, 2 x 40
// sequential request/response round trips on an untouched second connection (and on one to the
// reference) have completed, and the Hysteria server still has not answered.
func TestVerifC02Repeat(t *testing.T) {
	k := vfNewKit(t, "C02", "c02-repeat")
	defer k.Finish()
	n := k.N(20, 400)
	for i := 0; i < n; i++ {
		caseID := fmt.Sprintf("c02r-%d", i)
		if rc := k.ReplayCase(); rc != "" && rc != caseID {
			continue
		}
		vfC02RepeatRun(t, k, caseID, i)
	}
}

type vfC02RepeatCase struct {
	CaseID    string      `json:"case_id"`
	Custom    bool        `json:"custom_handler"`
	LatencyMs int         `json:"latency_ms"`
	Seq       []*vfC02Req `json:"sequence"`
	RoundTrip int         `json:"logical_clock_round_trips"`
}

func vfC02RepeatRun(t *testing.T, k *vfKit, caseID string, idx int) {
	const watchdog = 30 * time.Second
	r := k.Rand(caseID)
	c := vfC02RepeatCase{CaseID: caseID, Custom: r.Intn(2) == 0, LatencyMs: 1 + r.Intn(2), RoundTrip: 40}
	nRej, nOrd := 2+r.Intn(3), r.Intn(5)
	for j := 0; j < nRej; j++ {
		c.Seq = append(c.Seq, &vfC02Req{Method: "POST", Host: "hysteria", Path: "/auth", HS: vfC02HeaderSets[r.Intn(5)], BodyN: -1})
	}
	for j := 0; j < nOrd; j++ {
		c.Seq = append(c.Seq, vfC02GenReq(r, ""))
	}
	r.Shuffle(len(c.Seq), func(i, j int) { c.Seq[i], c.Seq[j] = c.Seq[j], c.Seq[i] })
	for j, q := range c.Seq {
		q.ID = fmt.Sprintf("%s-q%d", caseID, j)
		q.Mode = vfC02SmallModes[r.Intn(len(vfC02SmallModes))]
		if q.BodyN > 3000 {
			q.BodyN = 3000
		}
	}
	if idx < 3 {
		k.Sample(c)
	}

	var masq http.Handler
	var refH http.Handler = http.HandlerFunc(http.NotFound)
	if c.Custom {
		app := &vfC02Handler{hits: map[string]int{}}
		masq, refH = app, app
	}
	w, err := vfNewWorld(vfServerOpts{
		Latency: time.Duration(c.LatencyMs) * time.Millisecond,
		Config:  func(sc *server.Config) { sc.MasqHandler = masq },
	})
	if err != nil {
		t.Fatalf("harness: server: %v", err)
	}
	defer w.Close()
	ref, err := vfC02StartRef(w, refH)
	if err != nil {
		t.Fatalf("harness: reference server: %v", err)
	}
	w.onClose(ref.Close)
	dial := func(to *net.UDPAddr) *vfRaw {
		x, err := vfC02Dial(w, to)
		if err != nil {
			t.Fatalf("harness: dial: %v", err)
		}
		return x
	}
	hyA, refA := dial(w.ServerAddr), dial(ref.Addr)
	hyB, refB := dial(w.ServerAddr), dial(ref.Addr)
	rep := func(extra map[string]any) map[string]any {
		m := map[string]any{"case_id": c.CaseID, "case": c, "tag": hyA.Tag}
		for a, b := range extra {
			m[a] = b
		}
		return m
	}
	send := func(x *vfRaw, q *vfC02Req) chan vfC02Resp {
		ch := make(chan vfC02Resp, 1)
		go func() { ch <- vfC02Do(x, q.Method, q.Host, q.Path, q.headers(), q.body()) }()
		return ch
	}
	// logical clock: 2K sequential round trips on each untouched connection; "done" = all completed
	clock := func(stop chan struct{}) chan string {
		out := make(chan string, 1)
		go func() {
			for i := 0; i < 2*c.RoundTrip; i++ {
				select {
				case <-stop:
					out <- "stopped"
					return
				default:
				}
				for _, x := range []*vfRaw{hyB, refB} {
					rr := x.Do("GET", "example.com", fmt.Sprintf("/clock/%d", i), http.Header{"X-Vf-Mode": {"echo"}, "X-Vf-Id": {"clock"}}, nil)
					if rr.Err != nil {
						out <- "failed: " + rr.Err.Error()
						return
					}
				}
				k.Count("ev_clock_round_trips", 2)
			}
			out <- "done"
		}()
		return out
	}

	rejectedSeen := 0
	expectCreds := map[string]int{}
	for j, q := range c.Seq {
		k.Eval()
		if q.exact() {
			expectCreds[q.headers().Get("Hysteria-Auth")]++
		}
		hyCh, refCh := send(hyA, q), send(refA, q)
		var refR vfC02Resp
		select {
		case refR = <-refCh:
		case <-time.After(watchdog):
			k.Inconclusive(fmt.Sprintf("%s: the reference server did not answer request %d within %v real time", caseID, j, watchdog))
			return
		}
		if refR.Err != nil {
			k.Inconclusive(fmt.Sprintf("%s: reference server gave no response to request %d: %v", caseID, j, refR.Err))
			return
		}
		stop := make(chan struct{})
		clk := clock(stop)
		var hyR vfC02Resp
		answered := false
		select {
		case hyR = <-hyCh:
			answered = true
			close(stop)
			<-clk
		case res := <-clk:
			select {
			case hyR = <-hyCh: // arrived together with the last tick
				answered = true
			default:
			}
			if !answered && res != "done" {
				k.Inconclusive(fmt.Sprintf("%s: logical-clock connection %s while waiting for request %d", caseID, res, j))
				return
			}
		}
		desc := fmt.Sprintf("%s https://%s%s [%s, handler %v, mode %s, request %d of a sequence on one unauthenticated connection, %d rejected auth request(s) before it]",
			q.Method, q.Host, q.Path, q.HS, c.Custom, q.Mode, j, rejectedSeen)
		if !answered {
			k.Violation("server:request-never-answered", rep(map[string]any{"request": q, "index": j, "rejected_auth_before": rejectedSeen, "reference": vfC02RespSummary(refR)}),
				"%s: the plain web server answered %d; the Hysteria server gave no response while %d request/response round trips completed on another connection to it (and as many on the reference server)",
				desc, refR.Status, 2*c.RoundTrip)
			return // the rest of the sequence would queue up behind it
		}
		k.Count("ev_compared", 1)
		if q.exact() {
			k.Count("ev_compared_auth_rejected", 1)
			if rejectedSeen > 0 {
				k.Count("ev_repeated_rejected_auth_answered", 1)
			}
		} else if rejectedSeen > 0 {
			k.Count("ev_request_after_rejected_auth_answered", 1)
		}
		k.Nontrivial(fmt.Sprintf("repeat|%v|%d|%s|%s|%s|%s|%s", c.Custom, rejectedSeen, q.Method, q.Host, q.Path, q.HS, q.Mode))
		wit := func(extra map[string]any) map[string]any {
			m := rep(map[string]any{"request": q, "index": j, "hysteria": vfC02RespSummary(hyR), "reference": vfC02RespSummary(refR)})
			for a, b := range extra {
				m[a] = b
			}
			return m
		}
		vfC02CompareResp(k, desc, wit, q, hyR, refR, false)
		if q.exact() {
			rejectedSeen++
		}
	}
	time.Sleep(10 * time.Millisecond) // orchestration: let late log entries land
	// authenticator census: one call per auth-shaped request, with its credential; nothing else, nothing accepted
	for _, e := range w.Log.Snapshot() {
		if e.Tag != hyA.Tag && e.Tag != hyB.Tag {
			continue
		}
		switch e.Kind {
		case "auth_call":
			a, _ := e.F["auth"].(string)
			if e.Tag == hyA.Tag && expectCreds[a] > 0 {
				expectCreds[a]--
				continue
			}
			k.Violation("server:authenticator-consulted-for-near-miss", rep(map[string]any{"event": e}),
				"authenticator called with %q for connection %s, which no POST hysteria/auth of the sequence accounts for", a, e.Tag)
		case "auth_ok":
			k.Violation("server:authenticator-consulted-for-near-miss", rep(map[string]any{"event": e}), "connection %s was accepted although no request carried acceptable credentials in an auth request", e.Tag)
		}
	}
}

// ---------------------------------------------------------------- proxy stream / datagram around a HELD authentication

// TestVerifC02Held (bubble): the second half of the statement under a slow authentication
// backend. The authenticator fake holds the decision on a POST hysteria/auth ("hold:" credential)
// for 30 ms .. 7 s of virtual time; WHILE it is held the client opens 0x401+TCPRequest streams and
// sends a UDPMessage datagram on the same connection; then the decision is released:
//   held_bad     credentials rejected  -> the streams/datagram were sent without authentication and
//                stay so: until 6.5 s after the release no TCPResponse on the streams, no datagram,
//                no outbound dial / request event for their (unique) addresses, and the rejected
//                auth is answered exactly like the reference answers its twin
//   stream_first the same, but streams and datagram precede the auth request
//   held_good    credentials accepted  -> what happens to the early stream is C01's subject: sent
//                for workload variety only, not judged here
// "Without authentication" is read from the authenticator's log (no auth_ok for the connection).
func TestVerifC02Held(t *testing.T) {
	k := vfNewKit(t, "C02", "c02-held")
	defer k.Finish()
	defer vfC02FreezeGuard(k)()
	n := k.N(24, 600)
	for i := 0; i < n; i++ {
		caseID := fmt.Sprintf("c02h-%d", i)
		if rc := k.ReplayCase(); rc != "" && rc != caseID {
			continue
		}
		r := k.Rand(caseID)
		c := vfC02HeldCase{CaseID: caseID, Custom: r.Intn(2) == 0, LatencyMs: 1 + r.Intn(20)}
		for ci, nconn := 1, 1+r.Intn(3); ci <= nconn; ci++ {
			hc := vfC02HeldConn{K: ci, HoldMs: []int{30, 400, 2000, 4500, 7000}[r.Intn(5)], Streams: 1 + r.Intn(2), Dgram: r.Intn(3) != 0,
				Mode: vfC02SmallModes[r.Intn(len(vfC02SmallModes))]}
			hc.Variant = []string{"held_bad", "held_bad", "stream_first", "held_good"}[(i+ci)%4]
			c.Conns = append(c.Conns, hc)
		}
		if i < 3 {
			k.Sample(c)
		}
		vfC02HeldRun(t, k, c)
	}
}

type vfC02HeldConn struct {
	K       int    `json:"k"`
	Variant string `json:"variant"`
	HoldMs  int    `json:"hold_ms"`
	Streams int    `json:"streams"`
	Dgram   bool   `json:"datagram"`
	Mode    string `json:"mode"`
}

type vfC02HeldCase struct {
	CaseID    string          `json:"case_id"`
	Custom    bool            `json:"custom_handler"`
	LatencyMs int             `json:"latency_ms"`
	Conns     []vfC02HeldConn `json:"conns"`
}

func vfC02HeldRun(t *testing.T, k *vfKit, c vfC02HeldCase) {
	vfC02CurrentCase.Store(c.CaseID)
	defer vfC02Progress.Add(1)
	synctest.Test(t, func(t *testing.T) {
		var masq http.Handler
		var refH http.Handler = http.HandlerFunc(http.NotFound)
		if c.Custom {
			app := &vfC02Handler{hits: map[string]int{}}
			masq, refH = app, app
		}
		w, err := vfNewWorld(vfServerOpts{
			Latency: time.Duration(c.LatencyMs) * time.Millisecond,
			Config:  func(sc *server.Config) { sc.MasqHandler = masq },
		})
		if err != nil {
			t.Fatalf("harness: server: %v", err)
		}
		ref, err := vfC02StartRef(w, refH)
		if err != nil {
			t.Fatalf("harness: reference server: %v", err)
		}
		w.onClose(ref.Close)
		w.Out.OnTCP = func(addr string) (net.Conn, error) {
			pt := vfNewPipeTarget()
			go func() { _, _ = pt.Harness.Write([]byte("GREETING-FROM-" + addr)) }()
			w.onClose(func() { _ = pt.Harness.Close() })
			return pt.serverSide, nil
		}
		w.Out.OnUDP = func(addr string) (server.UDPConn, error) {
			s := vfNewSinkUDP(w.Log, addr)
			s.Reply([]byte("UDP-GREETING-"+addr), addr)
			return s, nil
		}
		rep := func(extra map[string]any) map[string]any {
			m := map[string]any{"case_id": c.CaseID, "case": c}
			for a, b := range extra {
				m[a] = b
			}
			return m
		}

		type streamObs struct {
			addr             string
			duringHold       bool
			hyB, refB        []byte
			hyOpened, hyDone bool
		}
		type connObs struct {
			hc       vfC02HeldConn
			hy, ref  *vfRaw
			cred     string
			held     bool
			streams  []*streamObs
			dgrams   int
			recv     atomic.Int64
			hyAuth   vfC02Resp
			refAuth  vfC02Resp
			authSent bool
		}
		obs := make([]*connObs, len(c.Conns))
		done := make(chan struct{}, len(c.Conns))
		for i, hc := range c.Conns {
			o := &connObs{hc: hc}
			obs[i] = o
			if o.hy, err = vfC02Dial(w, w.ServerAddr); err != nil {
				t.Fatalf("harness: dial hysteria: %v", err)
			}
			if o.ref, err = vfC02Dial(w, ref.Addr); err != nil {
				t.Fatalf("harness: dial reference: %v", err)
			}
			dctx, dcancel := context.WithCancel(context.Background())
			w.onClose(dcancel)
			go func() {
				for {
					if _, err := o.hy.Conn.ReceiveDatagram(dctx); err != nil {
						return
					}
					o.recv.Add(1)
				}
			}()
			go func() {
				defer func() { done <- struct{}{} }()
				readFor := time.Duration(hc.HoldMs+6500) * time.Millisecond
				var readers []chan struct{}
				probe := func(duringHold bool) {
					for n := 0; n < hc.Streams; n++ {
						k.Eval()
						so := &streamObs{addr: fmt.Sprintf("h%ds%d.verif:%d", hc.K, len(o.streams), 2000+len(o.streams)), duringHold: duringHold}
						o.streams = append(o.streams, so)
						fin := make(chan struct{}, 2)
						readers = append(readers, fin)
						for _, side := range []*vfRaw{o.hy, o.ref} {
							st, err := side.ProxyStream(so.addr)
							if err != nil {
								fin <- struct{}{}
								continue
							}
							_, _ = st.Write([]byte("payload-for-" + so.addr))
							if side == o.hy {
								so.hyOpened = true
							}
							go func() {
								b, _ := vfReadSome(st, readFor)
								st.CancelRead(0)
								st.CancelWrite(0)
								if side == o.hy {
									so.hyB, so.hyDone = b, true
								} else {
									so.refB = b
								}
								fin <- struct{}{}
							}()
						}
					}
					if hc.Dgram {
						k.Eval()
						addr := fmt.Sprintf("h%dd%d.verif:53", hc.K, o.dgrams)
						msg := vfUDPMessageBytes(uint32(7+o.dgrams), 0, 0, 1, addr, []byte("dgram-for-"+addr))
						if o.hy.Conn.SendDatagram(msg) == nil {
							o.dgrams++
						}
						_ = o.ref.Conn.SendDatagram(msg)
					}
				}
				if hc.Variant == "stream_first" {
					probe(false)
					time.Sleep(time.Duration(3*c.LatencyMs+2) * time.Millisecond)
				}
				o.cred = fmt.Sprintf("hold:bad-h%d-%s", hc.K, c.CaseID)
				if hc.Variant == "held_good" {
					o.cred = fmt.Sprintf("hold:ok:u-h%d", hc.K)
				}
				q := &vfC02Req{ID: fmt.Sprintf("h%dauth", hc.K), Method: "POST", Host: "hysteria", Path: "/auth", HS: "auth_full_bad", Mode: hc.Mode, BodyN: -1}
				hdr := q.headers()
				hdr.Set("Hysteria-Auth", o.cred)
				// CC-RX 0: an accepted request must not install Brutal, whose slot arithmetic panics on the
				// negative monotime of a bubble (clock behind the process start; impossible in production)
				hdr.Set("Hysteria-CC-RX", "0")
				k.Eval()
				hyC, refC := make(chan vfC02Resp, 1), make(chan vfC02Resp, 1)
				go func() { hyC <- vfC02Do(o.hy, q.Method, q.Host, q.Path, hdr, nil) }()
				go func() { refC <- vfC02Do(o.ref, q.Method, q.Host, q.Path, hdr.Clone(), nil) }()
				o.authSent = true
				for spin := 0; spin < 4000 && !o.held; spin++ { // virtual time: wait until the authenticator holds the request
					for _, e := range w.Log.Snapshot() {
						if e.Kind == "auth_held" && e.Tag == o.hy.Tag {
							o.held = true
						}
					}
					if !o.held {
						time.Sleep(time.Millisecond)
					}
				}
				if o.held {
					probe(true)
					time.Sleep(time.Duration(hc.HoldMs) * time.Millisecond)
				}
				w.Auth.Release(o.hy.Tag)
				o.hyAuth, o.refAuth = <-hyC, <-refC
				for _, fin := range readers {
					<-fin
					<-fin
				}
				vfC02Progress.Add(1)
			}()
		}
		for range c.Conns {
			<-done
		}
		time.Sleep(1 * time.Second) // virtual settle
		synctest.Wait()
		evs := w.Log.Snapshot()
		w.Close()

		for _, o := range obs {
			hc := o.hc
			calls, oks := 0, 0
			for _, e := range evs {
				if e.Tag != o.hy.Tag {
					continue
				}
				switch e.Kind {
				case "auth_call":
					calls++
					if a, _ := e.F["auth"].(string); a != o.cred {
						k.Violation("server:authenticator-consulted-for-near-miss", rep(map[string]any{"conn": hc.K, "event": e}), "connection h%d: authenticator called with %q, the only auth request carried %q", hc.K, a, o.cred)
					}
				case "auth_ok":
					oks++
				}
			}
			if !o.held {
				k.Inconclusive(fmt.Sprintf("%s h%d: the auth request never reached the authenticator's hold (calls=%d)", c.CaseID, hc.K, calls))
				continue
			}
			k.Count("ev_auth_held", 1)
			if oks > 0 {
				// accepted: the connection is a proxy connection now; its early streams are C01's subject
				k.Count("held_good_not_judged", 1)
				continue
			}
			// ---- the authenticator never accepted this connection
			k.Count("ev_held_rejected_conns", 1)
			k.Count("ev_compared", 1)
			k.Count("ev_compared_auth_rejected", 1)
			desc := fmt.Sprintf("POST https://hysteria/auth [rejected after being held %d ms in the authenticator, handler %v, mode %s, conn h%d %s]", hc.HoldMs, c.Custom, hc.Mode, hc.K, hc.Variant)
			wit := func(extra map[string]any) map[string]any {
				m := rep(map[string]any{"conn": hc.K, "hysteria": vfC02RespSummary(o.hyAuth), "reference": vfC02RespSummary(o.refAuth)})
				for a, b := range extra {
					m[a] = b
				}
				return m
			}
			if o.refAuth.Err != nil {
				k.Inconclusive(fmt.Sprintf("%s h%d: reference gave no response to the auth request: %v", c.CaseID, hc.K, o.refAuth.Err))
			} else {
				k.Nontrivial(fmt.Sprintf("held|%s|%v|%d|%d|%v|%s", hc.Variant, c.Custom, hc.HoldMs, hc.Streams, hc.Dgram, hc.Mode))
				vfC02CompareResp(k, desc, wit, &vfC02Req{Method: "POST"}, o.hyAuth, o.refAuth, true)
			}
			for _, so := range o.streams {
				if !so.hyOpened || !so.hyDone {
					k.Count("unauth_stream_not_opened", 1)
					continue
				}
				k.Count("ev_unauth_stream", 1)
				if so.duringHold {
					k.Count("ev_unauth_stream_during_held_auth", 1)
				}
				if len(so.hyB) == 0 {
					k.Count("unauth_stream_zero_bytes", 1)
				}
				if status, msg, _, ok := vfParseTCPResponse(so.hyB); ok && !bytes.Equal(so.hyB, so.refB) {
					k.Violation("server:tcpresponse-to-unauthenticated-stream", rep(map[string]any{"conn": hc.K, "addr": so.addr, "during_held_auth": so.duringHold, "bytes": vfHex(so.hyB), "reference_bytes": vfHex(so.refB)}),
						"connection h%d (%s; the authenticator rejected its only auth request after holding it %d ms) sent 0x401+TCPRequest(%s) %s and read a TCPResponse: status %#x msg %q (plain web server: %d bytes)",
						hc.K, hc.Variant, hc.HoldMs, so.addr, map[bool]string{true: "while the auth request was being evaluated", false: "before the auth request"}[so.duringHold], status, msg, len(so.refB))
				}
			}
			prefixS, prefixD := fmt.Sprintf("h%ds", hc.K), fmt.Sprintf("h%dd", hc.K)
			for idx, e := range evs {
				switch e.Kind {
				case "ob_tcp", "ob_udp", "ob_checkudp", "udp_write", "el_tcpreq", "el_udpreq":
					if a, _ := e.F["addr"].(string); strings.HasPrefix(a, prefixS) || strings.HasPrefix(a, prefixD) {
						k.Violation("server:outbound-for-unauthenticated-connection", rep(map[string]any{"conn": hc.K, "event": e, "tail": evs[max(0, idx-8) : idx+1]}),
							"%s(%s): connection h%d requested this address without authentication (%s, auth rejected after %d ms hold) and the server acted on it", e.Kind, a, hc.K, hc.Variant, hc.HoldMs)
					}
				}
			}
			if o.dgrams > 0 {
				k.Count("ev_unauth_dgram_sent", int64(o.dgrams))
				if n := o.recv.Load(); n != 0 {
					k.Violation("server:datagram-to-unauthenticated", rep(map[string]any{"conn": hc.K, "received": n}),
						"connection h%d was never accepted by the authenticator, sent %d UDPMessage datagram(s) around a held auth request and received %d datagram(s)", hc.K, o.dgrams, n)
				}
			}
		}
	})
}
