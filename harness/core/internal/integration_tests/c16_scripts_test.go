//go:build verif

package integration_tests

// C16 workloads and the reference model (written from the property statement, not from
// reconnect.go). Parts:
//   c16-enum        FAULT ENUMERATION: every base call script (<= 6 calls) x every kill
//                   index 0..L x every fault kind x lazy/eager, each in its own bubble.
//   c16-random      long PRNG scripts: several kills, failing reconnects, holds, bursts,
//                   Close anywhere, failing eager constructor.
//   c16-streamlimit server MaxIncomingStreams=8, > 8 TCP streams held open by the target.
//   c16-concurrent  1..8 goroutines against one reconnectable client in REAL time (see the
//                   pitfall note in c16_env_test.go); verdicts at join points only.

import (
	"fmt"
	"math/rand"
	"runtime"
	"runtime/debug"
	"strings"
	"sync"
	"testing"
	"testing/synctest"
	"time"

	"github.com/apernet/hysteria/core/v2/client"
)

// ---------------------------------------------------------------- script model

type vfC16Step struct {
	Op      string `json:"op"`                 // tcp | udp | hold | release | kill | close | sleep | burst
	Kill    string `json:"kill,omitempty"`     // blackhole | blackhole_wait | sockerr | srv_restart | srv_down
	Fail    string `json:"fail,omitempty"`     // cfgerr | facerr | authbad: what the next FailN evaluations do
	FailN   int    `json:"fail_n,omitempty"`   // for srv_down: attempts that find the server down
	SleepMs int    `json:"sleep_ms,omitempty"` // virtual
	G       int    `json:"g,omitempty"`        // burst: concurrent one-shot TCP calls right after a fresh blackhole
}

type vfC16Case struct {
	CaseID     string `json:"case_id"`
	Lazy       bool   `json:"lazy"`
	LatencyMs  int    `json:"latency_ms"`
	MaxStreams int64  `json:"max_streams"`
	InitFail   string `json:"init_fail,omitempty"` // failure armed before the constructor: cfgerr|facerr|authbad|srv_down
	InitFailN  int    `json:"init_fail_n,omitempty"`
	// RealTime: run outside a bubble (real clock). Needed for rejected authentications: core/client's
	// auth-failure path leaves quic-go's http3 request goroutine behind (resp.Body is never closed), which a
	// bubble reports as "blocked goroutines remain". Only immediate kills (sockerr) are used in this mode and
	// no verdict depends on time: Close() calls on sockets are synchronous inside the calls.
	RealTime bool        `json:"real_time,omitempty"`
	Steps    []vfC16Step `json:"steps"`
}

func (c vfC16Case) sig() string {
	var b strings.Builder
	fmt.Fprintf(&b, "%v|%d|%d|%s%d|", c.Lazy, c.LatencyMs, c.MaxStreams, c.InitFail, c.InitFailN)
	for _, s := range c.Steps {
		fmt.Fprintf(&b, "%s.%s.%s.%d.%d.%d;", s.Op, s.Kill, s.Fail, s.FailN, s.SleepMs, s.G)
	}
	return b.String()
}

const (
	vfC16None  = "none"  // no connection (never connected, or the loss has been reported)
	vfC16Live  = "live"  // connected and nothing injected
	vfC16Dying = "dying" // killed by the harness; the client may or may not have noticed yet
)

// vfC16Model is the reference: what the property statement allows in each state.
type vfC16Model struct {
	e           *vfC16Env
	conn        string
	closed      bool
	haveClient  bool
	srvDownLeft int // attempts that will still find the server down (then the harness restarts it)
	reconnects  int
	losses      int
	// kickPending: the server will close the connection as soon as it relays the next byte/datagram of it, i.e.
	// during or right after the next successful call; until then the connection still works
	kickPending bool
	// attemptStart: real clock at the start of the constructor / call being judged (watchdog for real-time cases)
	attemptStart time.Time
}

// vfC16RealTimeStall: a connect attempt over the 200 µs simulated link of a real-time case normally takes
// a few milliseconds; beyond this much REAL time its failure is attributed to a stalled machine.
const vfC16RealTimeStall = 3 * time.Second

// beforeAttempt: the harness brings the server back once the scripted number of attempts failed.
func (m *vfC16Model) maybeRestart(t *testing.T) {
	if m.srvDownLeft <= 0 {
		if err := m.e.startServer(true); err != nil {
			t.Fatalf("harness: restart server: %v", err)
		}
	}
}

// expectAttempt says whether a connect attempt made now must succeed.
func (m *vfC16Model) attemptMustSucceed() bool {
	fk, _ := m.e.armed()
	m.e.mu.Lock()
	up := m.e.srvUp
	m.e.mu.Unlock()
	return fk == "" && up
}

// afterAttempt book-keeps a failed attempt that reached the network.
func (m *vfC16Model) attemptFailed(reachedNetwork bool) {
	if reachedNetwork && m.srvDownLeft > 0 {
		m.srvDownLeft--
	}
}

// judgeAttempt handles the part common to the constructor and to a call in state none:
// exactly one evaluation; success => exactly one connectedFunc and state live.
func (m *vfC16Model) judgeAttempt(what string, mustSucceed bool, wasArmed string, evals, connects int, class string, errStr string) {
	e := m.e
	if !e.inBubble && mustSucceed && class != vfC16ClsOK && !m.attemptStart.IsZero() && time.Since(m.attemptStart) > vfC16RealTimeStall {
		// Real-time cases only (a rejected authentication cannot run in a bubble): a connect attempt over a
		// 200 µs link that takes seconds of REAL time means the machine stalled (handshake timers of either
		// end fired). Wall-clock watchdog: inconclusive, never a verdict. The same scripts run exactly, on
		// virtual time, in the bubble cases.
		e.k.Inconclusive(fmt.Sprintf("%s: %s took %v of real time on an idle simulated link and failed (%s %s): stalled machine", e.caseID, what, time.Since(m.attemptStart).Round(time.Millisecond), class, errStr))
		return
	}
	switch {
	case evals == 0:
		e.violation("client:config-not-reevaluated", map[string]any{"what": what},
			"%s had to build a new connection but configFunc was not evaluated (result: %s %s)", what, class, errStr)
	case evals > 1:
		e.violation("client:config-evaluated-more-than-once", map[string]any{"what": what, "evaluations": evals},
			"%s evaluated configFunc %d times (want exactly once per connect attempt)", what, evals)
	default:
		e.k.Count("ev_reconnect_eval_exactly_once", 1)
	}
	if mustSucceed {
		if class != vfC16ClsOK {
			e.violation("client:reconnect-not-transparent", map[string]any{"what": what, "class": class, "err": errStr},
				"%s with a healthy server and a valid configuration failed: %s %s (the call after a loss must transparently reconnect)", what, class, errStr)
		}
		if connects == 0 && class == vfC16ClsOK {
			e.violation("client:reconnect-not-reported", map[string]any{"what": what},
				"%s built a new connection but connectedFunc was not called", what)
		}
	} else {
		if class == vfC16ClsOK {
			e.violation("client:connection-not-from-fresh-config", map[string]any{"what": what, "armed": wasArmed},
				"%s succeeded although the freshly evaluated configuration / server could not yield a connection (%s)", what, wasArmed)
		} else {
			e.k.Count("ev_failed_reconnect_attempt", 1)
		}
		reached := wasArmed != "cfgerr" && wasArmed != "facerr"
		m.attemptFailed(reached)
	}
	if connects > 0 {
		m.conn = vfC16Live
		m.reconnects++
	} else {
		m.conn = vfC16None
	}
}

// doCall performs a call and judges it against the model.
func (m *vfC16Model) doCall(t *testing.T, kind string) {
	e := m.e
	if !m.closed && m.conn == vfC16None {
		m.maybeRestart(t)
	}
	mustSucceed := m.attemptMustSucceed()
	armed, _ := e.armed()
	if armed == "" && !mustSucceed {
		armed = "srv_down"
	}
	stateBefore := m.conn
	holds := e.heldCount()
	m.attemptStart = time.Now()
	r := e.call(kind, 0)
	what := fmt.Sprintf("call #%d (%s) in state %s", r.N, kind, stateBefore)
	es := ""
	if r.Err != nil {
		es = r.Err.Error()
	}
	switch {
	case m.closed:
		e.k.Count("ev_call_after_close", 1)
		if r.Class == vfC16ClsOK {
			e.violation("client:call-succeeded-after-close", map[string]any{"call": r.N}, "%s succeeded after Close()", what)
		}
		if r.Evals != 0 || r.Connects != 0 {
			e.violation("client:reconnect-after-close", map[string]any{"call": r.N},
				"%s after Close(): configFunc evaluated %d time(s), connectedFunc called %d time(s)", what, r.Evals, r.Connects)
		}
		if r.Class == vfC16ClsClosed {
			e.k.Count("ev_call_after_close_is_closed_error", 1)
		}
		return

	case stateBefore == vfC16None:
		m.judgeAttempt(what, mustSucceed, armed, r.Evals, r.Connects, r.Class, es)
		if r.Class == vfC16ClsOK && kind != "udp" {
			m.checkVia(r, what)
		}

	case stateBefore == vfC16Live:
		if r.Evals != 0 || r.Connects != 0 {
			e.violation("client:reconnect-without-connection-loss", map[string]any{"call": r.N},
				"%s: configFunc evaluated %d time(s) / connectedFunc %d time(s) although the connection had not been lost", what, r.Evals, r.Connects)
			if r.Connects > 0 {
				e.release(0) // those streams belonged to the dropped connection
			}
		}
		switch r.Class {
		case vfC16ClsOK:
			if kind != "udp" && r.Evals == 0 {
				m.checkVia(r, what)
			}
			e.k.Count("ev_call_ok_on_live_connection", 1)
		case vfC16ClsSL:
			// a recoverable error: allowed whenever it occurs; what matters is that nothing reconnects
			if int64(holds) >= e.maxStreams {
				e.k.Count("ev_streamlimit_recoverable_error", 1)
			} else {
				e.k.Count("obs_streamlimit_before_limit", 1)
			}
		case vfC16ClsClosed:
			if r.WrapsSL {
				e.violation("client:stream-limit-reported-as-closed-error", map[string]any{"call": r.N, "err": es, "held_streams": holds},
					"%s with %d streams held open hit the stream limit, but the recoverable error came back as ClosedError (%s): the next call will reconnect", what, holds, es)
			} else {
				e.violation("client:closed-error-without-connection-loss", map[string]any{"call": r.N, "err": es},
					"%s returned a closed-connection error although nothing was injected: %s", what, es)
			}
			// resync with the implementation: it has dropped its connection
			m.conn = vfC16None
			e.release(0)
		default:
			e.violation("client:unexpected-error-on-live-connection", map[string]any{"call": r.N, "err": es}, "%s failed: %s %s", what, r.Class, es)
		}

	case stateBefore == vfC16Dying:
		if r.Evals != 0 || r.Connects != 0 {
			e.violation("client:config-evaluated-by-failing-call", map[string]any{"call": r.N},
				"%s: configFunc evaluated %d time(s) by the call that should only report the loss", what, r.Evals)
		}
		switch r.Class {
		case vfC16ClsClosed:
			e.k.Count("ev_loss_reported_as_closed_error", 1)
			m.conn = vfC16None
			m.kickPending = false
			m.losses++
			e.release(0)
		case vfC16ClsOK:
			if m.kickPending {
				m.kickPending = false // this call's traffic triggers the kick; the connection is gone after the settle
				e.k.Count("obs_call_ok_before_server_kick", 1)
			} else if kind == "udp" {
				e.k.Count("obs_udp_ok_on_dying_connection", 1) // UDP() is local: legitimate until QUIC notices
			} else {
				e.k.Inconclusive(fmt.Sprintf("%s: %s succeeded on a killed connection (harness kill ineffective)", e.caseID, what))
			}
		case vfC16ClsSL:
			e.k.Count("obs_streamlimit_on_dying_connection", 1) // QUIC has not noticed yet; recoverable, state unchanged
		default:
			e.violation("client:loss-not-reported-as-closed-error", map[string]any{"call": r.N, "class": r.Class, "err": es},
				"%s failed after the connection was killed, but not with a closed-connection error: %s %s", what, r.Class, es)
			if r.Connects > 0 {
				m.conn = vfC16Live
			}
		}
	}
}

// checkVia: a successful TCP call must have travelled over the newest connected socket.
func (m *vfC16Model) checkVia(r vfC16CallRes, what string) {
	e := m.e
	via := e.viaSock(r.Addr)
	e.mu.Lock()
	cur := e.curSock
	e.mu.Unlock()
	if cur == nil || via == "" {
		return
	}
	if via != cur.Addr.String() {
		e.violation("client:call-not-on-current-connection", map[string]any{"call": r.N, "via": via, "current": cur.Addr.String()},
			"%s reached the server from %s, but the newest connected socket is #%d (%s)", what, via, cur.ID, cur.Addr)
	} else {
		e.k.Count("ev_call_via_current_socket", 1)
	}
}

// doKill applies a fault step.
func (m *vfC16Model) doKill(t *testing.T, s vfC16Step) {
	e := m.e
	if s.Fail != "" && s.FailN > 0 && s.Kill != "srv_down" {
		e.arm(s.Fail, s.FailN)
	}
	switch s.Kill {
	case "blackhole", "blackhole_wait", "sockerr":
		if m.conn == vfC16Live && !m.closed {
			kind := "sockerr"
			if s.Kill != "sockerr" {
				kind = "blackhole"
			}
			if e.killCur(kind) != 0 {
				m.conn = vfC16Dying
			}
		}
		if s.Kill == "blackhole_wait" {
			time.Sleep(45 * time.Second) // virtual: QUIC's 30 s idle timeout has fired
		}
	case "srv_restart", "srv_restart_reset":
		// srv_restart: the new instance has a fresh stateless-reset key (the old connection dies by idle timeout);
		// srv_restart_reset: same address AND same key: the next packet of the old connection is answered with a
		// valid stateless reset.
		e.stopServer()
		if err := e.startServer(s.Kill == "srv_restart_reset"); err != nil {
			t.Fatalf("harness: restart: %v", err)
		}
		e.k.Count("ev_kill_"+s.Kill, 1)
		if m.conn == vfC16Live {
			m.conn = vfC16Dying
		}
	case "srv_kick":
		if m.conn == vfC16Live && !m.closed && e.kickCur() {
			m.conn = vfC16Dying
			m.kickPending = true
		}
	case "srv_down":
		e.stopServer()
		n := s.FailN
		if n <= 0 {
			n = 1
		}
		m.srvDownLeft = n
		e.k.Count("ev_kill_srv_down", 1)
		if s.Fail != "" {
			e.arm(s.Fail, 1)
		}
		if m.conn == vfC16Live {
			m.conn = vfC16Dying
		}
	}
}

// doBurst: blackhole the live connection, then G goroutines make one TCP call each. All of
// them are inside the call when virtual time moves, all fail at the idle timeout; nobody can
// reconnect (one call each), so no caller ever waits on the client's mutex across a handshake.
func (m *vfC16Model) doBurst(g int) {
	e := m.e
	if m.conn != vfC16Live || m.closed || e.heldCount() > 0 || e.maxStreams < 64 {
		return // a call that fails early (stream limit) could let another burst caller reconnect: see pitfall note
	}
	if e.killCur("blackhole") == 0 {
		return
	}
	m.conn = vfC16Dying
	res := make([]vfC16CallRes, g)
	var wg sync.WaitGroup
	for i := 0; i < g; i++ {
		wg.Add(1)
		go func() { defer wg.Done(); res[i] = e.call("tcp", i+1) }()
	}
	wg.Wait()
	e.k.Count("ev_burst", 1)
	for _, r := range res {
		if r.Class != vfC16ClsClosed {
			es := fmt.Sprint(r.Err)
			e.violation("client:loss-not-reported-as-closed-error", map[string]any{"call": r.N, "class": r.Class, "err": es},
				"burst call #%d on a blackholed connection returned %s %s, want a closed-connection error", r.N, r.Class, es)
		} else {
			e.k.Count("ev_loss_reported_as_closed_error", 1)
		}
	}
	m.conn = vfC16None
	m.losses++
}

// vfC16RunCase executes one script in its own bubble (or in real time, see vfC16Case.RealTime).
func vfC16RunCase(t *testing.T, k *vfKit, c vfC16Case) {
	if c.RealTime {
		for _, s := range c.Steps {
			if s.Op == "sleep" || s.Op == "burst" || (s.Op == "kill" && s.Kill != "sockerr") {
				t.Fatalf("harness: step %+v not allowed in a real-time case", s)
			}
		}
		vfC16RunCaseBody(t, k, c)
		return
	}
	synctest.Test(t, func(t *testing.T) { vfC16RunCaseBody(t, k, c) })
}

func vfC16RunCaseBody(t *testing.T, k *vfKit, c vfC16Case) {
	{
		lat := time.Duration(c.LatencyMs) * time.Millisecond
		if c.RealTime {
			lat = 200 * time.Microsecond
		}
		useTraffic := false
		for _, st := range c.Steps {
			useTraffic = useTraffic || (st.Op == "kill" && st.Kill == "srv_kick")
		}
		e, err := vfC16NewEnv(k, c.CaseID, c, lat, c.MaxStreams, !c.RealTime, useTraffic)
		if err != nil {
			t.Fatalf("harness: world: %v", err)
		}
		m := &vfC16Model{e: e, conn: vfC16None}
		// ---- constructor
		switch c.InitFail {
		case "":
		case "srv_down":
			e.stopServer()
			m.srvDownLeft = max(1, c.InitFailN)
		default:
			e.arm(c.InitFail, max(1, c.InitFailN))
		}
		mustSucceed := m.attemptMustSucceed()
		armed, _ := e.armed()
		if armed == "" && !mustSucceed {
			armed = "srv_down"
		}
		e.ev("ctor_start", "", map[string]any{"op": map[bool]string{true: "lazy", false: "eager"}[c.Lazy]})
		m.attemptStart = time.Now()
		rc, cerr := client.NewReconnectableClient(e.configFunc, e.connected, c.Lazy)
		cls, _ := vfC16Classify(cerr)
		e.mu.Lock()
		ev0, cn0 := e.evals, e.connectedEvs
		e.mu.Unlock()
		e.ev("ctor_ret", "", map[string]any{"class": cls, "err": fmt.Sprint(cerr)})
		if c.Lazy {
			if ev0 != 0 || cn0 != 0 || cerr != nil || len(e.socks) != 0 {
				e.violation("client:lazy-constructor-connected", nil, "lazy constructor: evaluations=%d connects=%d sockets=%d err=%v (want none)", ev0, cn0, len(e.socks), cerr)
			}
		} else {
			m.judgeAttempt("eager constructor", mustSucceed, armed, ev0, cn0, cls, fmt.Sprint(cerr))
		}
		if rc != nil {
			e.rc = rc
			m.haveClient = true
		}
		e.census("after-constructor", false)
		if m.haveClient {
			for i, s := range c.Steps {
				switch s.Op {
				case "tcp", "udp", "hold":
					m.doCall(t, s.Op)
				case "release":
					e.release(0)
					e.settle(time.Duration(8*c.LatencyMs+20) * time.Millisecond)
				case "sleep":
					time.Sleep(time.Duration(s.SleepMs) * time.Millisecond)
				case "kill":
					m.doKill(t, s)
				case "burst":
					m.doBurst(s.G)
				case "close":
					e.doClose()
					m.closed = true
				}
				e.census(fmt.Sprintf("after-step-%d-%s", i, s.Op), m.closed)
			}
			// epilogue: Close is final
			if !m.closed {
				e.doClose()
				m.closed = true
				e.census("after-close", true)
			}
			for _, op := range []string{"tcp", "udp", "tcp"} {
				m.doCall(t, op)
			}
			if e.inBubble {
				time.Sleep(2 * time.Second)
			}
			e.census("end", true)
		} else {
			// the eager constructor failed (judged above): nothing may be left open
			e.census("end-no-client", false)
		}
		e.judgeLog()
		k.Count("ev_reconnects_after_loss", int64(max(0, m.reconnects-1)))
		e.cleanup()
	}
}

// ---------------------------------------------------------------- part 1: fault enumeration

type vfC16Fault struct {
	Name  string
	Kill  string
	Fail  string
	FailN int
}

func (f vfC16Fault) realTime() bool { return f.Fail == "authbad" }

// The enumerated fault kinds: every kill mechanism alone, and kills followed by every kind
// of failing reconnect attempt.
var vfC16Faults = []vfC16Fault{
	{"blackhole", "blackhole", "", 0},
	{"blackhole-wait", "blackhole_wait", "", 0},
	{"sockerr", "sockerr", "", 0},
	{"srv-restart", "srv_restart", "", 0},
	{"srv-restart-reset", "srv_restart_reset", "", 0},
	{"srv-restart-reset+cfgerr-1", "srv_restart_reset", "cfgerr", 1},
	{"srv-kick", "srv_kick", "", 0},
	{"sockerr+tlsbad-1", "sockerr", "tlsbad", 1},
	{"srv-down-1", "srv_down", "", 1},
	{"srv-down-2", "srv_down", "", 2},
	{"sockerr+cfgerr-1", "sockerr", "cfgerr", 1},
	{"sockerr+cfgerr-2", "sockerr", "cfgerr", 2},
	{"sockerr+facerr-1", "sockerr", "facerr", 1},
	{"sockerr+authbad-1", "sockerr", "authbad", 1},
	{"blackhole+cfgerr-1", "blackhole", "cfgerr", 1},
	{"sockerr+authbad-2", "sockerr", "authbad", 2},
	{"srv-down-1+cfgerr-1", "srv_down", "cfgerr", 1},
}

func vfC16BaseScripts(k *vfKit) []string {
	// T = TCP call (greeting read, closed), U = UDP call, H = TCP call whose stream stays open
	base := []string{"T", "U", "TT", "TU", "UT", "TTT", "UTU", "THT", "TUTU", "TTUTT", "UUTTUU", "THUTHT", "TTTTTT"}
	n := k.N(3, 40)
	r := rand.New(rand.NewSource(k.Seed*7919 + 16)) // same list in both shards (k.Rand depends on the part name)
	for i := 0; i < n; i++ {
		l := 3 + r.Intn(4)
		b := make([]byte, l)
		for j := range b {
			b[j] = "TTTUUH"[r.Intn(6)]
		}
		base = append(base, string(b))
	}
	return base
}

func vfC16EnumCase(id string, base string, lazy bool, pos int, f vfC16Fault, lat int) vfC16Case {
	c := vfC16Case{CaseID: id, Lazy: lazy, LatencyMs: lat, MaxStreams: 1024, RealTime: f.realTime()}
	op := map[byte]string{'T': "tcp", 'U': "udp", 'H': "hold"}
	for i := 0; i <= len(base); i++ {
		if i == pos {
			c.Steps = append(c.Steps, vfC16Step{Op: "kill", Kill: f.Kill, Fail: f.Fail, FailN: f.FailN})
		}
		if i < len(base) {
			c.Steps = append(c.Steps, vfC16Step{Op: op[base[i]]})
		}
	}
	return c
}

// The enumeration is split in shards (case index mod 3), one test PROCESS each; together they cover
// the whole space. Bubbles of one process run strictly one after the other: with several bubbles
// alive at once the go1.25.0 runtime sporadically dies with "WaitGroup.Add called from multiple
// synctest bubbles" on a WaitGroup local to quic-go's Transport.close (also seen by the C10 harness).
func TestVerifC16Enum0(t *testing.T) { vfC16Enum(t, "c16-enum-0", 0) }
func TestVerifC16Enum1(t *testing.T) { vfC16Enum(t, "c16-enum-1", 1) }
func TestVerifC16Enum2(t *testing.T) { vfC16Enum(t, "c16-enum-2", 2) }

const vfC16EnumShards = 3

// vfC16GCOff switches the collector off while bubbles are alive (the C10 harness saw bubbled goroutines
// parked in "GC assist wait" never being woken under machine load); vfC16GC collects by hand between cases.
func vfC16GCOff() func() {
	old := debug.SetGCPercent(-1)
	return func() { debug.SetGCPercent(old) }
}

func vfC16GC(i int) {
	if i%8 == 0 {
		runtime.GC()
	}
}

func vfC16Enum(t *testing.T, part string, shard int) {
	defer vfC16GCOff()()
	k := vfNewKit(t, "C16", part)
	defer k.Finish()
	all := vfC16BaseScripts(k)
	space := 0
	positions := 0
	nbases := 0
	idx := 0
	for bi, base := range all {
		nbases++
		if len(base) > 6 {
			t.Fatalf("harness: base script longer than the enumeration bound")
		}
		lat := 1 + (bi*7)%19
		for _, lazy := range []bool{true, false} {
			for pos := 0; pos <= len(base); pos++ {
				positions++
				for _, f := range vfC16Faults {
					idx++
					if idx%vfC16EnumShards != shard {
						continue
					}
					space++
					id := fmt.Sprintf("enum-%s-%s-p%d-%s", base, map[bool]string{true: "lazy", false: "eager"}[lazy], pos, f.Name)
					if rc := k.ReplayCase(); rc != "" && rc != id {
						continue
					}
					c := vfC16EnumCase(id, base, lazy, pos, f, lat)
					k.Eval()
					k.Nontrivial(c.sig())
					if space%97 == 1 {
						k.Sample(c)
					}
					vfC16RunCase(t, k, c)
					vfC16GC(space)
				}
			}
		}
	}
	k.Count("enum_space_cases", int64(space))
	k.Count("enum_base_scripts_all_shards", int64(nbases))
	k.Count("enum_kill_positions_x_start_modes_all_shards", int64(positions))
	k.Count("enum_fault_kinds", int64(len(vfC16Faults)))
}

// ---------------------------------------------------------------- part 2: random scripts

func vfC16GenRandom(k *vfKit, id string) vfC16Case {
	r := k.Rand(id)
	c := vfC16Case{CaseID: id, Lazy: r.Intn(2) == 0, LatencyMs: 1 + r.Intn(25), MaxStreams: 1024}
	if r.Intn(4) == 0 {
		c.MaxStreams = 8
	}
	if r.Intn(8) == 0 {
		c.InitFail = []string{"cfgerr", "facerr", "tlsbad", "srv_down"}[r.Intn(4)]
		c.InitFailN = 1 + r.Intn(2)
	}
	n := 6 + r.Intn(15)
	closeAt := -1
	if r.Intn(3) > 0 {
		closeAt = r.Intn(n)
	}
	kills := []string{"blackhole", "blackhole_wait", "sockerr", "srv_restart", "srv_restart_reset", "srv_restart_reset", "srv_kick", "srv_down"}
	fails := []string{"", "", "cfgerr", "facerr", "tlsbad"} // authbad: real-time parts only (see vfC16Case.RealTime)
	for i := 0; i < n; i++ {
		if i == closeAt {
			c.Steps = append(c.Steps, vfC16Step{Op: "close"})
			continue
		}
		x := r.Intn(100)
		switch {
		case x < 30:
			c.Steps = append(c.Steps, vfC16Step{Op: "tcp"})
		case x < 45:
			c.Steps = append(c.Steps, vfC16Step{Op: "udp"})
		case x < 57:
			if c.MaxStreams == 8 {
				// a run of holds that crosses the limit
				for j, m := 0, 1+r.Intn(10); j < m; j++ {
					c.Steps = append(c.Steps, vfC16Step{Op: "hold"})
				}
			} else {
				c.Steps = append(c.Steps, vfC16Step{Op: "hold"})
			}
		case x < 62:
			c.Steps = append(c.Steps, vfC16Step{Op: "release"})
		case x < 70:
			c.Steps = append(c.Steps, vfC16Step{Op: "sleep", SleepMs: []int{1, 50, 1000, 12000, 40000}[r.Intn(5)]})
		case x < 76:
			c.Steps = append(c.Steps, vfC16Step{Op: "burst", G: 2 + r.Intn(7)})
		default:
			s := vfC16Step{Op: "kill", Kill: kills[r.Intn(len(kills))], Fail: fails[r.Intn(len(fails))]}
			if s.Fail != "" || s.Kill == "srv_down" {
				s.FailN = 1 + r.Intn(3)
			}
			c.Steps = append(c.Steps, s)
		}
	}
	return c
}

func TestVerifC16Random(t *testing.T) {
	defer vfC16GCOff()()
	k := vfNewKit(t, "C16", "c16-random")
	defer k.Finish()
	n := k.N(150, 4000)
	for i := 0; i < n; i++ {
		id := fmt.Sprintf("rand-%d", i)
		if rc := k.ReplayCase(); rc != "" && rc != id {
			continue
		}
		c := vfC16GenRandom(k, id)
		k.Eval()
		hasKill, hasCall := false, false
		for _, s := range c.Steps {
			hasKill = hasKill || s.Op == "kill" || s.Op == "burst"
			hasCall = hasCall || s.Op == "tcp" || s.Op == "udp" || s.Op == "hold"
		}
		if hasKill && hasCall {
			k.Nontrivial(c.sig())
		}
		if i < 3 {
			k.Sample(c)
		}
		vfC16RunCase(t, k, c)
		vfC16GC(i)
	}
}

// ---------------------------------------------------------------- part 3: stream limit

func TestVerifC16StreamLimit(t *testing.T) {
	defer vfC16GCOff()()
	k := vfNewKit(t, "C16", "c16-streamlimit")
	defer k.Finish()
	n := k.N(24, 400)
	for i := 0; i < n; i++ {
		id := fmt.Sprintf("sl-%d", i)
		if rc := k.ReplayCase(); rc != "" && rc != id {
			continue
		}
		r := k.Rand(id)
		c := vfC16Case{CaseID: id, Lazy: i%2 == 0, LatencyMs: 1 + r.Intn(20), MaxStreams: 8}
		pre := r.Intn(3)
		for j := 0; j < pre; j++ {
			c.Steps = append(c.Steps, vfC16Step{Op: []string{"tcp", "udp"}[r.Intn(2)]})
		}
		holds := 9 + r.Intn(5) // > 8 concurrently open streams
		for j := 0; j < holds; j++ {
			c.Steps = append(c.Steps, vfC16Step{Op: "hold"})
			if r.Intn(6) == 0 {
				c.Steps = append(c.Steps, vfC16Step{Op: "udp"})
			}
		}
		// at the limit: more calls of both kinds, then release and go on with the SAME connection
		c.Steps = append(c.Steps, vfC16Step{Op: "tcp"}, vfC16Step{Op: "udp"}, vfC16Step{Op: "tcp"},
			vfC16Step{Op: "release"}, vfC16Step{Op: "tcp"}, vfC16Step{Op: "udp"})
		if r.Intn(2) == 0 {
			c.Steps = append(c.Steps, vfC16Step{Op: "kill", Kill: []string{"sockerr", "blackhole"}[r.Intn(2)]},
				vfC16Step{Op: "tcp"}, vfC16Step{Op: "tcp"})
		}
		k.Eval()
		k.Nontrivial(c.sig())
		if i < 2 {
			k.Sample(c)
		}
		before := k.Counter("ev_streamlimit_recoverable_error") + k.Counter("violations_total")
		vfC16RunCase(t, k, c)
		if k.Counter("ev_streamlimit_recoverable_error")+k.Counter("violations_total") == before {
			k.Inconclusive(id + ": more than MaxIncomingStreams streams held open but no call hit the stream limit")
		}
		vfC16GC(i)
	}
}

// ---------------------------------------------------------------- part 4: real concurrency (real time, no bubble)

type vfC16Chaos struct {
	AfterUs int    `json:"after_us"` // schedule diversity only; no verdict depends on it
	Kind    string `json:"kind"`     // sockerr | close | arm
	Fail    string `json:"fail,omitempty"`
	FailN   int    `json:"fail_n,omitempty"`
}

type vfC16Round struct {
	Calls [][]string   `json:"calls"` // per goroutine
	Chaos []vfC16Chaos `json:"chaos"`
}

type vfC16ConcCase struct {
	CaseID     string       `json:"case_id"`
	Lazy       bool         `json:"lazy"`
	MaxStreams int64        `json:"max_streams"`
	EvalDelay  int          `json:"eval_delay_us"`
	Rounds     []vfC16Round `json:"rounds"`
}

func vfC16GenConc(k *vfKit, id string) vfC16ConcCase {
	r := k.Rand(id)
	c := vfC16ConcCase{CaseID: id, Lazy: r.Intn(2) == 0, MaxStreams: 1024, EvalDelay: []int{0, 0, 200, 1500}[r.Intn(4)]}
	if r.Intn(4) == 0 {
		c.MaxStreams = 8
	}
	g := 1 + r.Intn(8)
	rounds := 2 + r.Intn(4)
	closeRound := -1
	if r.Intn(3) > 0 {
		closeRound = r.Intn(rounds)
	}
	for ri := 0; ri < rounds; ri++ {
		var rd vfC16Round
		for gi := 0; gi < g; gi++ {
			var calls []string
			for j, m := 0, 1+r.Intn(4); j < m; j++ {
				x := r.Intn(10)
				switch {
				case x < 6:
					calls = append(calls, "tcp")
				case x < 9 || c.MaxStreams != 8:
					calls = append(calls, "udp")
				default:
					calls = append(calls, "hold")
				}
				if c.MaxStreams == 8 && r.Intn(2) == 0 {
					calls[len(calls)-1] = "hold"
				}
			}
			rd.Calls = append(rd.Calls, calls)
		}
		for j, m := 0, r.Intn(4); j < m; j++ {
			ch := vfC16Chaos{AfterUs: r.Intn(6000), Kind: "sockerr"}
			if r.Intn(4) == 0 {
				ch.Kind = "arm"
				ch.Fail = []string{"cfgerr", "facerr", "authbad"}[r.Intn(3)]
				ch.FailN = 1 + r.Intn(2)
			}
			rd.Chaos = append(rd.Chaos, ch)
		}
		if ri == closeRound {
			rd.Chaos = append(rd.Chaos, vfC16Chaos{AfterUs: r.Intn(6000), Kind: "close"})
		}
		c.Rounds = append(c.Rounds, rd)
	}
	return c
}

func vfC16RunConc(t *testing.T, k *vfKit, c vfC16ConcCase) {
	e, err := vfC16NewEnv(k, c.CaseID, c, 200*time.Microsecond, c.MaxStreams, false, false)
	if err != nil {
		t.Fatalf("harness: world: %v", err)
	}
	defer e.cleanup()
	e.evalDelay = time.Duration(c.EvalDelay) * time.Microsecond
	ctorStart := time.Now()
	rc, cerr := client.NewReconnectableClient(e.configFunc, e.connected, c.Lazy)
	if cerr != nil || rc == nil {
		if time.Since(ctorStart) > vfC16RealTimeStall {
			e.k.Inconclusive(fmt.Sprintf("%s: constructor took %v of real time on an idle simulated link and failed (%v): stalled machine", e.caseID, time.Since(ctorStart).Round(time.Millisecond), cerr))
			return
		}
		e.violation("client:reconnect-not-transparent", nil, "constructor with a healthy server failed: %v", cerr)
		return
	}
	e.rc = rc
	closed := false
	e.census("after-constructor", false)
	for ri, rd := range c.Rounds {
		var mu sync.Mutex
		var results []vfC16CallRes
		kills := 0
		armedKinds := map[string]bool{}
		if fk, _ := e.armed(); fk != "" {
			armedKinds[fk] = true
		}
		closeRetSeq := -1
		e.mu.Lock()
		ev0, cn0 := e.evals, e.connectedEvs
		e.mu.Unlock()
		holdsAtStart := e.heldCount()
		usesHolds := holdsAtStart > 0
		// exact state at the start of the round: the newest connected socket is alive unless the harness
		// killed it or the client closed it (a probe that ends in a stream-limit error cannot tell)
		e.mu.Lock()
		cur0 := e.curSock
		e.mu.Unlock()
		live := cur0 != nil && !cur0.isKilled() && cur0.CloseCalls() == 0
		var wg sync.WaitGroup
		for gi, calls := range rd.Calls {
			for _, op := range calls {
				usesHolds = usesHolds || op == "hold"
			}
			wg.Add(1)
			go func() {
				defer wg.Done()
				for ci, op := range calls {
					r := e.call(op, gi+1)
					mu.Lock()
					results = append(results, r)
					mu.Unlock()
					if (gi+ci)%3 == 0 {
						time.Sleep(time.Duration(50*(gi+1)) * time.Microsecond) // schedule diversity only
					}
				}
			}()
		}
		for _, ch := range rd.Chaos {
			wg.Add(1)
			go func() {
				defer wg.Done()
				time.Sleep(time.Duration(ch.AfterUs) * time.Microsecond) // schedule diversity only
				switch ch.Kind {
				case "sockerr":
					if e.killCur("sockerr") != 0 {
						mu.Lock()
						kills++
						mu.Unlock()
					}
				case "arm":
					mu.Lock()
					armedKinds[ch.Fail] = true
					mu.Unlock()
					e.arm(ch.Fail, ch.FailN)
				case "close":
					seq := e.doClose()
					mu.Lock()
					closeRetSeq = seq
					mu.Unlock()
				}
			}()
		}
		wg.Wait() // join point: no call in flight
		wasClosed := closed
		if closeRetSeq >= 0 {
			closed = true
		}
		e.mu.Lock()
		evals, connects := e.evals-ev0, e.connectedEvs-cn0
		e.mu.Unlock()
		label := fmt.Sprintf("round-%d-joined", ri)
		// ---- per-call error classes
		for _, r := range results {
			es := fmt.Sprint(r.Err)
			afterClose := wasClosed || (closeRetSeq >= 0 && r.StartSeq > closeRetSeq)
			switch {
			case afterClose:
				e.k.Count("ev_call_after_close", 1)
				if r.Class == vfC16ClsOK {
					e.violation("client:call-succeeded-after-close", map[string]any{"call": r.N}, "call #%d (%s) started after Close() returned and succeeded", r.N, r.Kind)
				}
			case r.Class == vfC16ClsOK:
			case r.Class == vfC16ClsClosed && r.WrapsSL:
				e.violation("client:stream-limit-reported-as-closed-error", map[string]any{"call": r.N, "err": es},
					"call #%d (%s) hit the stream limit but the recoverable error came back as ClosedError (%s)", r.N, r.Kind, es)
			case (r.Class == vfC16ClsClosed || r.Class == vfC16ClsConnect) && kills == 0 && !closed && live && vfC16IsTimeout(r.Err):
				e.k.Inconclusive(fmt.Sprintf("%s: call #%d: QUIC timeout on the real clock without injected loss (stalled machine?): %s", e.caseID, r.N, es))
			case r.Class == vfC16ClsClosed:
				if kills == 0 && !closed && live {
					e.violation("client:closed-error-without-connection-loss", map[string]any{"call": r.N, "err": es},
						"call #%d (%s) returned a closed-connection error in a round without any injected loss: %s", r.N, r.Kind, es)
				}
			case r.Class == vfC16ClsSL:
				if !usesHolds {
					e.violation("client:unexpected-error-class", map[string]any{"call": r.N, "err": es}, "call #%d: stream limit without held streams: %s", r.N, es)
				} else {
					e.k.Count("ev_streamlimit_recoverable_error", 1)
				}
			case r.Class == vfC16ClsCfgErr || r.Class == vfC16ClsFacErr || r.Class == vfC16ClsAuth:
				kind := map[string]string{vfC16ClsCfgErr: "cfgerr", vfC16ClsFacErr: "facerr", vfC16ClsAuth: "authbad"}[r.Class]
				if !armedKinds[kind] {
					e.violation("client:unexpected-error-class", map[string]any{"call": r.N, "err": es}, "call #%d failed with %s although no such failure was injected: %s", r.N, r.Class, es)
				} else {
					e.k.Count("ev_failed_reconnect_attempt", 1)
				}
			case r.Class == vfC16ClsConnect:
				if kills == 0 && !closed {
					e.violation("client:unexpected-error-class", map[string]any{"call": r.N, "err": es}, "call #%d: connect error without injected loss: %s", r.N, es)
				}
			default:
				e.violation("client:loss-not-reported-as-closed-error", map[string]any{"call": r.N, "class": r.Class, "err": es},
					"call #%d (%s) failed with an error that is neither a closed-connection error nor an injected reconnect failure: %s", r.N, r.Kind, es)
			}
		}
		// ---- reconnects need a cause
		bound := kills
		if !live {
			bound++
		}
		if connects > bound && !(usesHolds && e.reported("client:stream-limit-reported-as-closed-error")) {
			e.violation("client:reconnect-without-connection-loss", map[string]any{"round": ri, "connects": connects, "losses": kills},
				"round %d: %d successful (re)connects but only %d cause(s) (injected losses %d, started without connection: %v); evaluations %d",
				ri, connects, bound, kills, !live, evals)
		} else if connects > 0 {
			e.k.Count("ev_reconnects_with_cause", int64(connects))
		}
		e.census(label, closed)
		// ---- probe: exact semantics at the quiescent point
		if !closed {
			e.arm("", 0)
			e.mu.Lock()
			curP := e.curSock
			e.mu.Unlock()
			// nothing was injected into the newest connected socket and the client has not closed it: it is healthy
			curHealthy := curP != nil && !curP.isKilled() && curP.CloseCalls() == 0
			p1 := e.call("udp", 0)
			p1b := vfC16CallRes{Class: vfC16ClsOK}
			if p1.Class == vfC16ClsOK {
				// UDP() is local; a TCP round trip tells whether the connection is really alive
				p1b = e.call("tcp", 0)
			}
			failed := p1
			if p1.Class == vfC16ClsOK {
				failed = p1b
			}
			switch {
			case failed.Class == vfC16ClsOK:
			case failed.Class == vfC16ClsSL && e.heldCount() > 0:
				e.k.Count("ev_streamlimit_recoverable_error", 1)
			case failed.Class == vfC16ClsClosed && failed.WrapsSL:
				e.violation("client:stream-limit-reported-as-closed-error", map[string]any{"call": failed.N},
					"probe call #%d hit the stream limit but got ClosedError: %v", failed.N, failed.Err)
			case failed.Class == vfC16ClsClosed:
				if curHealthy && vfC16IsTimeout(failed.Err) {
					e.k.Inconclusive(fmt.Sprintf("%s: probe #%d: QUIC timeout on the real clock without injected loss: %v", e.caseID, failed.N, failed.Err))
				} else if curHealthy {
					e.violation("client:closed-error-without-connection-loss", map[string]any{"call": failed.N},
						"probe call #%d returned a closed-connection error but the current socket #%d was healthy (never killed, not closed): %v", failed.N, curP.ID, failed.Err)
				} else {
					e.k.Count("ev_loss_reported_as_closed_error", 1)
				}
			default:
				e.violation("client:loss-not-reported-as-closed-error", map[string]any{"call": failed.N, "class": failed.Class},
					"probe call #%d failed with %s: %v", failed.N, failed.Class, failed.Err)
			}
			if failed.Class != vfC16ClsOK && failed.Class != vfC16ClsSL {
				e.release(0)
				p2Start := time.Now()
				p2 := e.call("tcp", 0)
				if p2.Class != vfC16ClsOK && time.Since(p2Start) > vfC16RealTimeStall {
					e.k.Inconclusive(fmt.Sprintf("%s: the call after a reported loss took %v of real time on an idle simulated link and failed (%v): stalled machine", e.caseID, time.Since(p2Start).Round(time.Millisecond), p2.Err))
				} else if p2.Evals != 1 || p2.Connects != 1 || p2.Class != vfC16ClsOK {
					e.violation("client:reconnect-not-transparent", map[string]any{"call": p2.N, "evaluations": p2.Evals, "connects": p2.Connects, "class": p2.Class},
						"the call after a reported loss (probe #%d): evaluations=%d connects=%d result=%s %v (want exactly 1, 1, ok)", p2.N, p2.Evals, p2.Connects, p2.Class, p2.Err)
				} else {
					e.k.Count("ev_reconnect_eval_exactly_once", 1)
				}
			}
			e.census(fmt.Sprintf("round-%d-probed", ri), false)
		}
	}
	if !closed {
		e.doClose()
	}
	for _, op := range []string{"tcp", "udp", "tcp"} {
		e.mu.Lock()
		ev0 := e.evals
		e.mu.Unlock()
		r := e.call(op, 0)
		e.k.Count("ev_call_after_close", 1)
		if r.Class == vfC16ClsOK {
			e.violation("client:call-succeeded-after-close", map[string]any{"call": r.N}, "call #%d (%s) succeeded after Close()", r.N, op)
		}
		e.mu.Lock()
		d := e.evals - ev0
		e.mu.Unlock()
		if d != 0 {
			e.violation("client:reconnect-after-close", map[string]any{"call": r.N}, "call #%d after Close() evaluated configFunc %d time(s)", r.N, d)
		}
	}
	e.census("end", true)
	e.judgeLog()
}

func TestVerifC16Concurrent(t *testing.T) {
	k := vfNewKit(t, "C16", "c16-concurrent")
	defer k.Finish()
	n := k.N(60, 1500)
	for i := 0; i < n; i++ {
		id := fmt.Sprintf("conc-%d", i)
		if rc := k.ReplayCase(); rc != "" && rc != id {
			continue
		}
		c := vfC16GenConc(k, id)
		k.Eval()
		k.Nontrivial(fmt.Sprintf("%+v", c))
		if i < 2 {
			k.Sample(c)
		}
		vfC16RunConc(t, k, c)
	}
}
