//go:build verif

package integration_tests

// C01 — No proxying before authentication on the same connection.
//
// Real server on simnet in a synctest bubble; raw QUIC/h3 clients (one per connection,
// each with its own source address = the connection's identity at the authenticator).
// PRNG scripts of {auth good/bad/held, non-auth request, 0x401 stream, UDPMessage datagram,
// repeated auth good/bad}. Every requested address is "c<k>x<n>.verif:port", so an outbound
// call names the connection and the action that caused it. The oracle runs offline over the
// totally ordered event log written by the harness-owned fakes (which log before returning).

import (
	"context"
	"fmt"
	"net"
	"regexp"
	"runtime"
	"runtime/debug"
	"strings"
	"sync"
	"testing"
	"testing/synctest"
	"time"

	"github.com/apernet/hysteria/core/v2/server"
)

type vfC01Action struct {
	Kind string `json:"kind"` // auth_good auth_bad auth_held http stream dgram dgram_frag reauth_good reauth_bad sleep
	N    int    `json:"n"`    // action index -> part of the requested address
}

type vfC01ConnScript struct {
	K       int           `json:"k"`
	Actions []vfC01Action `json:"actions"`
}

type vfC01Case struct {
	CaseID     string            `json:"case_id"`
	DisableUDP bool              `json:"disable_udp"`
	AuthDelay  int               `json:"auth_delay_ms"`
	LatencyMs  int               `json:"latency_ms"`
	Conns      []vfC01ConnScript `json:"conns"`
}

var vfC01AddrRe = regexp.MustCompile(`^c(\d+)x(\d+)\.verif:`)

type vfC01ConnState struct {
	tag          string
	saw233       bool  // some auth request on this connection was answered 233
	everOK       bool  // client saw 233 at least once
	okSeenAtLog  int   // log length when the client first saw 233
	streamBytes  int64 // bytes read on proxy streams
	dgramsRecv   int64
	afterAuthTCP []string // addresses of streams opened after the client saw 233
	afterAuthUDP []string
	reauth       []vfResp
	mu           sync.Mutex
}

func vfC01Gen(k *vfKit, caseID string) vfC01Case {
	r := k.Rand(caseID)
	c := vfC01Case{CaseID: caseID, DisableUDP: r.Intn(5) == 0, LatencyMs: 1 + r.Intn(30)}
	if r.Intn(2) == 0 {
		c.AuthDelay = 1 + r.Intn(80)
	}
	nconn := 2 + r.Intn(5)
	for ci := 0; ci < nconn; ci++ {
		cs := vfC01ConnScript{K: ci + 1}
		na := 2 + r.Intn(7)
		authed := false
		for a := 0; a < na; a++ {
			var kind string
			x := r.Intn(100)
			switch {
			case x < 22:
				kind = "stream"
			case x < 40:
				kind = "dgram"
			case x < 46:
				kind = "dgram_frag"
			case x < 54:
				kind = "http"
			case x < 66:
				kind = "auth_bad"
			case x < 78:
				kind = "auth_good"
			case x < 86:
				kind = "auth_held"
			case x < 92:
				kind = "auth_held_bad"
			default:
				kind = "sleep"
			}
			if authed {
				switch kind {
				case "auth_good", "auth_held":
					kind = "reauth_good"
				case "auth_bad", "auth_held_bad":
					kind = "reauth_bad"
				}
			}
			if kind == "auth_good" || kind == "auth_held" {
				authed = true
			}
			cs.Actions = append(cs.Actions, vfC01Action{Kind: kind, N: a + 1})
		}
		// a share of the connections never authenticates at all
		c.Conns = append(c.Conns, cs)
	}
	return c
}

func vfC01Run(t *testing.T, k *vfKit, c vfC01Case) {
	synctest.Test(t, func(t *testing.T) {
		w, err := vfNewWorld(vfServerOpts{
			Latency: time.Duration(c.LatencyMs) * time.Millisecond,
			Config:  func(sc *server.Config) { sc.DisableUDP = c.DisableUDP },
		})
		if err != nil {
			t.Fatalf("harness: server: %v", err)
		}
		w.Auth.Delay = time.Duration(c.AuthDelay) * time.Millisecond
		// TCP targets greet immediately: any relay to a client shows up as stream bytes.
		w.Out.OnTCP = func(addr string) (net.Conn, error) {
			pt := vfNewPipeTarget()
			go func() {
				_, _ = pt.Harness.Write([]byte("GREETING-FROM-" + addr))
			}()
			w.onClose(func() { _ = pt.Harness.Close() })
			return pt.serverSide, nil
		}
		w.Out.OnUDP = func(addr string) (server.UDPConn, error) {
			s := vfNewSinkUDP(w.Log, addr)
			s.Reply([]byte("UDP-GREETING-"+addr), addr)
			return s, nil
		}

		states := make([]*vfC01ConnState, len(c.Conns))
		connDone := make(chan struct{}, len(c.Conns)) // channels, not WaitGroups: always durably blocking in a bubble
		for i := range c.Conns {
			cs := c.Conns[i]
			st := &vfC01ConnState{}
			states[i] = st
			raw, err := w.RawClient()
			if err != nil {
				t.Fatalf("harness: raw client: %v", err)
			}
			st.tag = raw.Tag
			// datagram receiver
			dctx, dcancel := context.WithCancel(context.Background())
			w.onClose(dcancel)
			go func() {
				for {
					_, err := raw.Conn.ReceiveDatagram(dctx)
					if err != nil {
						return
					}
					st.mu.Lock()
					st.dgramsRecv++
					st.mu.Unlock()
				}
			}()
			go func() {
				defer func() { connDone <- struct{}{} }()
				innerDone := make(chan struct{}, 64)
				innerN := 0
				for _, a := range cs.Actions {
					addr := fmt.Sprintf("c%dx%d.verif:%d", cs.K, a.N, 1000+a.N)
					switch a.Kind {
					case "sleep":
						time.Sleep(37 * time.Millisecond)
					case "http":
						raw.Do("GET", "example.com", fmt.Sprintf("/c%dx%d", cs.K, a.N), nil, nil)
					case "auth_bad", "reauth_bad":
						resp := raw.AuthReq(fmt.Sprintf("bad-c%d", cs.K), "0")
						if resp.Status == 233 {
							st.mu.Lock()
							st.saw233 = true
							st.mu.Unlock()
						}
						if a.Kind == "reauth_bad" {
							st.mu.Lock()
							st.reauth = append(st.reauth, resp)
							st.mu.Unlock()
						}
					case "auth_good", "reauth_good":
						resp := raw.AuthReq(fmt.Sprintf("ok:u%d", cs.K), "0")
						st.mu.Lock()
						if a.Kind == "reauth_good" {
							st.reauth = append(st.reauth, resp)
						} else if resp.Status == 233 && !st.everOK {
							st.everOK = true
							st.okSeenAtLog = w.Log.Len()
						}
						st.mu.Unlock()
					case "auth_held", "auth_held_bad":
						cred := fmt.Sprintf("hold:ok:u%d", cs.K)
						if a.Kind == "auth_held_bad" {
							cred = fmt.Sprintf("hold:bad-c%d", cs.K)
						}
						// the authenticator blocks; meanwhile fire a stream and a datagram, let them
						// reach the server, then release the gate.
						done := make(chan vfResp, 1)
						go func() { done <- raw.AuthReq(cred, "0") }()
						time.Sleep(time.Duration(3*c.LatencyMs+5) * time.Millisecond)
						if s, err := raw.ProxyStream(fmt.Sprintf("c%dx%d.verif:%d", cs.K, 100+a.N, 80)); err == nil {
							innerN++
							go func() {
								defer func() { innerDone <- struct{}{} }()
								b, _ := vfReadSome(s, 500*time.Millisecond)
								st.mu.Lock()
								st.streamBytes += int64(len(b))
								st.mu.Unlock()
								s.CancelRead(0)
								_ = s.Close()
							}()
						}
						_ = raw.Conn.SendDatagram(vfUDPMessageBytes(uint32(200+a.N), 0, 0, 1, fmt.Sprintf("c%dx%d.verif:53", cs.K, 200+a.N), []byte("held-dgram")))
						time.Sleep(time.Duration(4*c.LatencyMs+5) * time.Millisecond)
						w.Auth.Release(raw.Tag)
						resp := <-done
						st.mu.Lock()
						if resp.Status == 233 {
							st.saw233 = true
						}
						if resp.Status == 233 && !st.everOK {
							st.everOK = true
							st.okSeenAtLog = w.Log.Len()
						}
						st.mu.Unlock()
					case "stream":
						st.mu.Lock()
						if st.everOK {
							st.afterAuthTCP = append(st.afterAuthTCP, addr)
						}
						st.mu.Unlock()
						s, err := raw.ProxyStream(addr)
						if err != nil {
							continue
						}
						_, _ = s.Write([]byte("payload-for-" + addr))
						innerN++
						go func() {
							defer func() { innerDone <- struct{}{} }()
							b, _ := vfReadSome(s, 400*time.Millisecond)
							st.mu.Lock()
							st.streamBytes += int64(len(b))
							st.mu.Unlock()
							s.CancelRead(0)
							_ = s.Close()
						}()
					case "dgram":
						st.mu.Lock()
						if st.everOK && !c.DisableUDP {
							st.afterAuthUDP = append(st.afterAuthUDP, addr)
						}
						st.mu.Unlock()
						_ = raw.Conn.SendDatagram(vfUDPMessageBytes(uint32(a.N), 0, 0, 1, addr, []byte("dgram-for-"+addr)))
					case "dgram_frag":
						st.mu.Lock()
						if st.everOK && !c.DisableUDP {
							st.afterAuthUDP = append(st.afterAuthUDP, addr)
						}
						st.mu.Unlock()
						_ = raw.Conn.SendDatagram(vfUDPMessageBytes(uint32(a.N), 7, 0, 2, addr, []byte("frag0-")))
						_ = raw.Conn.SendDatagram(vfUDPMessageBytes(uint32(a.N), 7, 1, 2, addr, []byte("frag1")))
					}
					time.Sleep(time.Duration(1+a.N%3) * time.Millisecond)
				}
				for ; innerN > 0; innerN-- {
					<-innerDone
				}
			}()
		}
		for range c.Conns {
			<-connDone
		}
		time.Sleep(1 * time.Second) // virtual settle: several RTTs
		synctest.Wait()
		evs := w.Log.Snapshot()
		w.Close()
		vfC01Judge(k, c, states, evs)
	})
}

func vfC01Judge(k *vfKit, c vfC01Case, states []*vfC01ConnState, evs []vfEvent) {
	tagOf := map[int]string{}
	for i, cs := range c.Conns {
		tagOf[cs.K] = states[i].tag
	}
	okAt := map[string]int{} // tag -> log index of first auth_ok
	rep := func(extra map[string]any) map[string]any {
		m := map[string]any{"case_id": c.CaseID, "case": c, "tags": tagOf}
		for a, b := range extra {
			m[a] = b
		}
		return m
	}
	positives := 0
	for i, e := range evs {
		k.Count("ev_"+e.Kind, 1)
		switch e.Kind {
		case "auth_ok":
			if _, dup := okAt[e.Tag]; dup {
				k.Violation("server:auth-accepted-twice", rep(map[string]any{"event": e}), "authenticator accepted connection %s twice", e.Tag)
			} else {
				okAt[e.Tag] = i
			}
		case "auth_call":
			if at, ok := okAt[e.Tag]; ok {
				k.Violation("server:auth-reevaluated", rep(map[string]any{"event": e, "auth_ok_at": at}),
					"Authenticate called again for already authenticated connection %s (event %d, accepted at %d)", e.Tag, i, at)
			}
		case "ob_tcp", "ob_udp", "ob_checkudp", "udp_write", "el_tcpreq", "el_udpreq":
			addr, _ := e.F["addr"].(string)
			m := vfC01AddrRe.FindStringSubmatch(addr)
			if m == nil {
				k.Violation("server:outbound-unknown-address", rep(map[string]any{"event": e}), "%s for an address no client requested: %q", e.Kind, addr)
				continue
			}
			var ck int
			fmt.Sscanf(m[1], "%d", &ck)
			tag := tagOf[ck]
			if e.Tag != "" && e.Tag != tag {
				k.Violation("server:event-on-wrong-connection", rep(map[string]any{"event": e}), "%s for %s attributed to connection %s, requested by %s", e.Kind, addr, e.Tag, tag)
			}
			at, ok := okAt[tag]
			if !ok || at > i {
				k.Violation("server:proxy-before-auth", rep(map[string]any{"event": e, "tail": evs[max(0, i-12) : i+1]}),
					"%s(%s) at log index %d but connection %s (c%d) has no earlier accepted authentication", e.Kind, addr, i, tag, ck)
			} else {
				positives++
			}
		}
	}
	k.Count("ev_proxy_after_auth", int64(positives))
	// client-side observations
	seenTCP, seenUDP := map[string]bool{}, map[string]bool{}
	for _, e := range evs {
		if a, _ := e.F["addr"].(string); a != "" {
			if e.Kind == "ob_tcp" {
				seenTCP[a] = true
			}
			if e.Kind == "ob_udp" || e.Kind == "udp_write" {
				seenUDP[a] = true
			}
		}
	}
	for i, st := range states {
		cs := c.Conns[i]
		_, accepted := okAt[st.tag]
		if !accepted {
			k.Count("ev_conn_never_authenticated", 1)
			if st.streamBytes != 0 || st.dgramsRecv != 0 {
				k.Violation("server:payload-relayed-to-unauthenticated", rep(map[string]any{"conn": cs.K}),
					"connection c%d never authenticated but received %d stream bytes and %d datagrams", cs.K, st.streamBytes, st.dgramsRecv)
			}
			if st.everOK || st.saw233 {
				k.Violation("server:233-without-acceptance", rep(map[string]any{"conn": cs.K}), "connection c%d got status 233 but the authenticator never accepted it", cs.K)
			}
			continue
		}
		k.Count("ev_conn_authenticated", 1)
		for _, rr := range st.reauth {
			k.Count("ev_reauth", 1)
			if rr.Err != nil || rr.Status != 233 {
				k.Violation("server:reauth-not-233", rep(map[string]any{"conn": cs.K, "status": rr.Status, "err": fmt.Sprint(rr.Err)}),
					"repeated auth on authenticated connection c%d answered %d (err %v), want 233", cs.K, rr.Status, rr.Err)
			}
		}
		// access is neither revoked nor lost: requests made after the client saw 233 reach the outbound
		for _, a := range st.afterAuthTCP {
			if !seenTCP[a] {
				k.Violation("server:access-lost-after-auth", rep(map[string]any{"conn": cs.K, "addr": a}),
					"TCP request %s sent after connection c%d was accepted never reached the outbound", a, cs.K)
			} else {
				k.Count("ev_tcp_after_auth_ok", 1)
			}
		}
		for _, a := range st.afterAuthUDP {
			if !seenUDP[a] {
				k.Violation("server:udp-access-lost-after-auth", rep(map[string]any{"conn": cs.K, "addr": a}),
					"UDP message to %s sent after connection c%d was accepted never reached the outbound", a, cs.K)
			} else {
				k.Count("ev_udp_after_auth_ok", 1)
			}
		}
	}
}

func TestVerifC01(t *testing.T) {
	k := vfNewKit(t, "C01", "c01-auth-gate")
	defer k.Finish()
	n := k.N(200, 3000)
	// go1.25.0: a GC cycle running while a bubble is alive can park a bubbled goroutine in "GC assist wait"
	// for good (seen under load) and freeze the bubble. Collect between bubbles only.
	defer debug.SetGCPercent(debug.SetGCPercent(-1))
	for i := 0; i < n; i++ {
		runtime.GC()
		caseID := fmt.Sprintf("c01-%d", i)
		if rc := k.ReplayCase(); rc != "" && rc != caseID {
			continue
		}
		c := vfC01Gen(k, caseID)
		if i < n/4 {
			// the first quarter are plain worlds: no authenticator delay and nothing held, so that nothing in
			// them can wait on the handler's mutex (which would stop the bubble's clock) whatever the server does
			c.AuthDelay = 0
			for ci := range c.Conns {
				for ai := range c.Conns[ci].Actions {
					switch c.Conns[ci].Actions[ai].Kind {
					case "auth_held":
						c.Conns[ci].Actions[ai].Kind = "auth_good"
					case "auth_held_bad":
						c.Conns[ci].Actions[ai].Kind = "auth_bad"
					}
				}
			}
		}
		k.Eval()
		var kinds []string
		for _, cs := range c.Conns {
			for _, a := range cs.Actions {
				kinds = append(kinds, a.Kind)
			}
		}
		sig := strings.Join(kinds, ",")
		if strings.Contains(sig, "auth_") && (strings.Contains(sig, "stream") || strings.Contains(sig, "dgram")) {
			k.Nontrivial(fmt.Sprintf("%v|%v|%d|%s", c.DisableUDP, c.AuthDelay, len(c.Conns), sig))
		}
		if i < 3 {
			k.Sample(c)
		}
		vfC01Run(t, k, c)
	}
}

// TestVerifC01ConcurrentAuth: two (or three) authentication requests IN FLIGHT AT ONCE on one
// connection — the second arrives while the authenticator is still deciding the first. This cannot
// run in a bubble (the second request waits on the handler's mutex, which synctest does not treat as
// durably blocked, so virtual time would stop), so it runs on simnet in real time. Real-time sleeps
// only orchestrate the overlap (counted in ev_overlap_achieved); every verdict comes from the order
// of events in the log: at most one Authenticate call is accepted per connection, none is made after
// acceptance, and nothing is proxied before it.
func TestVerifC01ConcurrentAuth(t *testing.T) {
	k := vfNewKit(t, "C01", "c01-concurrent-auth")
	defer k.Finish()
	n := k.N(12, 120)
	for i := 0; i < n; i++ {
		caseID := fmt.Sprintf("c01c-%d", i)
		if rc := k.ReplayCase(); rc != "" && rc != caseID {
			continue
		}
		r := k.Rand(caseID)
		k.Eval()
		w, err := vfNewWorld(vfServerOpts{Latency: time.Duration(1+r.Intn(3)) * time.Millisecond})
		if err != nil {
			t.Fatalf("harness: server: %v", err)
		}
		w.Out.OnTCP = func(addr string) (net.Conn, error) {
			pt := vfNewPipeTarget()
			w.onClose(func() { _ = pt.Harness.Close() })
			return pt.serverSide, nil
		}
		raw, err := w.RawClient()
		if err != nil {
			w.Close()
			t.Fatalf("harness: raw client: %v", err)
		}
		firstGood := r.Intn(3) != 0
		extra := 1 + r.Intn(2)
		type res struct {
			who  string
			resp vfResp
		}
		done := make(chan res, 4)
		first := "hold:ok:u1"
		if !firstGood {
			first = "hold:bad-first"
		}
		go func() { done <- res{"first", raw.AuthReq(first, "70000")} }()
		// wait (real time, bounded) until the authenticator holds the first request
		held := false
		for spin := 0; spin < 2000 && !held; spin++ {
			for _, e := range w.Log.Snapshot() {
				if e.Kind == "auth_held" && e.Tag == raw.Tag {
					held = true
				}
			}
			if !held {
				time.Sleep(time.Millisecond)
			}
		}
		var creds []string
		for j := 0; j < extra; j++ {
			cred := fmt.Sprintf("ok:u%d", 2+j)
			if r.Intn(3) == 0 {
				cred = fmt.Sprintf("bad-%d", j)
			}
			creds = append(creds, cred)
			go func() { done <- res{cred, raw.AuthReq(cred, "1000000")} }()
		}
		// a stream fired during the overlap must not be proxied before an acceptance either
		st, _ := raw.ProxyStream("c1x900.verif:80")
		time.Sleep(60 * time.Millisecond) // let the later requests reach the server while the first is held
		callsDuringHold := 0
		for _, e := range w.Log.Snapshot() {
			if e.Kind == "auth_call" && e.Tag == raw.Tag {
				callsDuringHold++
			}
		}
		w.Auth.Release(raw.Tag)
		var results []res
		for j := 0; j < 1+extra; j++ {
			select {
			case x := <-done:
				results = append(results, x)
			case <-time.After(20 * time.Second):
				k.Inconclusive("auth request did not return within 20 s real time: " + caseID)
			}
		}
		if st != nil {
			st.CancelRead(0)
			_ = st.Close()
		}
		time.Sleep(30 * time.Millisecond)
		evs := w.Log.Snapshot()
		w.Close()
		if held {
			k.Count("ev_overlap_achieved", 1)
			k.Nontrivial(fmt.Sprintf("%v/%v/%d", firstGood, creds, callsDuringHold))
		}
		rep := map[string]any{"case_id": caseID, "first": first, "others": creds, "tag": raw.Tag}
		okSeen, calls := -1, 0
		for idx, e := range evs {
			k.Count("ev_"+e.Kind, 1)
			if e.Tag != raw.Tag && e.Tag != "" {
				continue
			}
			switch e.Kind {
			case "auth_call":
				calls++
				if okSeen >= 0 {
					k.Violation("server:auth-reevaluated", rep, "Authenticate called (event %d) after the connection was accepted (event %d)", idx, okSeen)
				}
			case "auth_ok":
				if okSeen >= 0 {
					k.Violation("server:auth-accepted-twice", rep, "two authentication requests in flight at once were BOTH evaluated and accepted on one connection (events %d and %d)", okSeen, idx)
				} else {
					okSeen = idx
				}
			case "ob_tcp", "el_tcpreq", "ob_udp", "el_udpreq":
				if okSeen < 0 {
					k.Violation("server:proxy-before-auth", rep, "%s at event %d before any accepted authentication", e.Kind, idx)
				}
			case "el_connect":
				k.Count("ev_connect_events", 1)
			}
		}
		nConnect := 0
		for _, e := range evs {
			if e.Kind == "el_connect" && e.Tag == raw.Tag {
				nConnect++
			}
		}
		if nConnect > 1 {
			k.Violation("server:connected-twice", rep, "the connection was reported connected %d times (negotiation ran more than once)", nConnect)
		}
		for _, x := range results {
			if okSeen >= 0 && x.resp.Err == nil && x.resp.Status != 233 && strings.HasPrefix(x.who, "ok:") {
				// a good credential racing with an accepted one: must be answered 233 (already authenticated) or
				// be the accepted one itself
				k.Violation("server:reauth-not-233", rep, "request %q answered %d on a connection that was accepted", x.who, x.resp.Status)
			}
		}
		if i < 2 {
			k.Sample(map[string]any{"case": rep, "auth_calls": calls, "calls_while_first_was_held": callsDuringHold})
		}
	}
}

// TestVerifC01Generations: "acceptance on one connection never authorises another" also over TIME:
// connections come and go on one server; whatever per-connection state the server keeps (or recycles)
// from an authenticated connection that has ended must not authorise a later one. Each round: a few
// connections authenticate, proxy something, and close; after they are gone, fresh connections that
// never authenticate fire 0x401 streams, datagrams and a rejected auth. Same log oracle as above.
// GOMAXPROCS(1) for this part only: object pools hand a just-released object to the next taker.
func TestVerifC01Generations(t *testing.T) {
	k := vfNewKit(t, "C01", "c01-generations")
	defer k.Finish()
	defer debug.SetGCPercent(debug.SetGCPercent(-1))
	defer runtime.GOMAXPROCS(runtime.GOMAXPROCS(1))
	n := k.N(6, 60)
	for i := 0; i < n; i++ {
		caseID := fmt.Sprintf("c01g-%d", i)
		if rc := k.ReplayCase(); rc != "" && rc != caseID {
			continue
		}
		r := k.Rand(caseID)
		runtime.GC()
		k.Eval()
		rounds := 3 + r.Intn(4)
		synctest.Test(t, func(t *testing.T) {
			w, err := vfNewWorld(vfServerOpts{Latency: time.Duration(1+r.Intn(10)) * time.Millisecond})
			if err != nil {
				t.Fatalf("harness: server: %v", err)
			}
			w.Out.OnTCP = func(addr string) (net.Conn, error) {
				pt := vfNewPipeTarget()
				go func() { _, _ = pt.Harness.Write([]byte("GREETING-FROM-" + addr)) }()
				w.onClose(func() { _ = pt.Harness.Close() })
				return pt.serverSide, nil
			}
			w.Out.OnUDP = func(addr string) (server.UDPConn, error) {
				s := vfNewSinkUDP(w.Log, addr)
				s.Reply([]byte("UDP-GREETING-"+addr), addr)
				return s, nil
			}
			var c vfC01Case
			c.CaseID = caseID
			var states []*vfC01ConnState
			kk := 0
			for round := 0; round < rounds; round++ {
				// generation A: authenticate, use, close
				na := 1 + r.Intn(3)
				var gen []*vfRaw
				for j := 0; j < na; j++ {
					kk++
					raw, err := w.RawClient()
					if err != nil {
						t.Fatalf("harness: raw client: %v", err)
					}
					st := &vfC01ConnState{tag: raw.Tag}
					states = append(states, st)
					c.Conns = append(c.Conns, vfC01ConnScript{K: kk, Actions: []vfC01Action{{Kind: "auth_good", N: 1}, {Kind: "stream", N: 2}, {Kind: "close", N: 3}}})
					if resp := raw.AuthReq(fmt.Sprintf("ok:u%d", kk), "0"); resp.Status == 233 {
						st.everOK = true
					}
					addr := fmt.Sprintf("c%dx2.verif:80", kk)
					st.afterAuthTCP = append(st.afterAuthTCP, addr)
					if s, err := raw.ProxyStream(addr); err == nil {
						b, _ := vfReadSome(s, 200*time.Millisecond)
						st.streamBytes += int64(len(b))
						s.CancelRead(0)
						_ = s.Close()
					}
					gen = append(gen, raw)
				}
				for _, raw := range gen {
					raw.Close()
				}
				time.Sleep(time.Duration(50+r.Intn(300)) * time.Millisecond) // the server notices and finishes the handlers
				synctest.Wait()
				// generation B: never authenticates
				nb := 1 + r.Intn(3)
				for j := 0; j < nb; j++ {
					kk++
					raw, err := w.RawClient()
					if err != nil {
						t.Fatalf("harness: raw client: %v", err)
					}
					st := &vfC01ConnState{tag: raw.Tag}
					states = append(states, st)
					c.Conns = append(c.Conns, vfC01ConnScript{K: kk, Actions: []vfC01Action{{Kind: "stream", N: 1}, {Kind: "dgram", N: 2}, {Kind: "auth_bad", N: 3}, {Kind: "stream", N: 4}}})
					dctx, dcancel := context.WithCancel(context.Background())
					w.onClose(dcancel)
					go func() {
						for {
							if _, err := raw.Conn.ReceiveDatagram(dctx); err != nil {
								return
							}
							st.mu.Lock()
							st.dgramsRecv++
							st.mu.Unlock()
						}
					}()
					probe := func(nn int) {
						if s, err := raw.ProxyStream(fmt.Sprintf("c%dx%d.verif:80", kk, nn)); err == nil {
							_, _ = s.Write([]byte("probe"))
							b, _ := vfReadSome(s, 200*time.Millisecond)
							st.mu.Lock()
							st.streamBytes += int64(len(b))
							st.mu.Unlock()
							s.CancelRead(0)
							_ = s.Close()
						}
					}
					probe(1)
					_ = raw.Conn.SendDatagram(vfUDPMessageBytes(uint32(j+1), 0, 0, 1, fmt.Sprintf("c%dx2.verif:53", kk), []byte("unauth-dgram")))
					if resp := raw.AuthReq(fmt.Sprintf("bad-c%d", kk), "0"); resp.Status == 233 {
						st.mu.Lock()
						st.saw233 = true
						st.mu.Unlock()
					}
					probe(4)
					k.Count("ev_later_unauthenticated_connections", 1)
				}
			}
			time.Sleep(time.Second)
			synctest.Wait()
			evs := w.Log.Snapshot()
			w.Close()
			vfC01Judge(k, c, states, evs)
			k.Nontrivial(fmt.Sprintf("%s/%d/%d", caseID, rounds, kk))
			if i == 0 {
				k.Sample(map[string]any{"case_id": caseID, "rounds": rounds, "connections": kk})
			}
		})
	}
}

// TestVerifC01SlowAuth: the authenticator takes SECONDS (virtual) to decide some connections — an
// external auth backend under load. Whatever the server does while it waits (timeouts, in-flight
// limits, pooled result slots), a verdict reached for one connection must never be handed to
// another: after the slow verdicts have arrived, a long run of fresh connections presents credentials
// the authenticator rejects; none of them may see 233, have a socket opened or receive a payload.
// Same log oracle as above.
func TestVerifC01SlowAuth(t *testing.T) {
	k := vfNewKit(t, "C01", "c01-slow-auth")
	defer k.Finish()
	defer debug.SetGCPercent(debug.SetGCPercent(-1))
	n := k.N(6, 80)
	for i := 0; i < n; i++ {
		caseID := fmt.Sprintf("c01s-%d", i)
		if rc := k.ReplayCase(); rc != "" && rc != caseID {
			continue
		}
		r := k.Rand(caseID)
		runtime.GC()
		k.Eval()
		nslow := 1 + r.Intn(3)
		holdFor := []time.Duration{6 * time.Second, 11 * time.Second, 21 * time.Second}[i%3]
		nlater := 12 + r.Intn(16)
		synctest.Test(t, func(t *testing.T) {
			w, err := vfNewWorld(vfServerOpts{Latency: time.Duration(1+r.Intn(10)) * time.Millisecond})
			if err != nil {
				t.Fatalf("harness: server: %v", err)
			}
			w.Out.OnTCP = func(addr string) (net.Conn, error) {
				pt := vfNewPipeTarget()
				go func() { _, _ = pt.Harness.Write([]byte("GREETING-FROM-" + addr)) }()
				w.onClose(func() { _ = pt.Harness.Close() })
				return pt.serverSide, nil
			}
			w.Out.OnUDP = func(addr string) (server.UDPConn, error) {
				s := vfNewSinkUDP(w.Log, addr)
				s.Reply([]byte("UDP-GREETING-"+addr), addr)
				return s, nil
			}
			var c vfC01Case
			c.CaseID = caseID
			var states []*vfC01ConnState
			kk := 0
			probe := func(raw *vfRaw, st *vfC01ConnState, kk, nn int) {
				if s, err := raw.ProxyStream(fmt.Sprintf("c%dx%d.verif:80", kk, nn)); err == nil {
					_, _ = s.Write([]byte("probe"))
					b, _ := vfReadSome(s, 200*time.Millisecond)
					st.mu.Lock()
					st.streamBytes += int64(len(b))
					st.mu.Unlock()
					s.CancelRead(0)
					_ = s.Close()
				}
			}
			watch := func(raw *vfRaw, st *vfC01ConnState) {
				dctx, dcancel := context.WithCancel(context.Background())
				w.onClose(dcancel)
				go func() {
					for {
						if _, err := raw.Conn.ReceiveDatagram(dctx); err != nil {
							return
						}
						st.mu.Lock()
						st.dgramsRecv++
						st.mu.Unlock()
					}
				}()
			}
			// slow ones: the authenticator holds each for holdFor, then decides (accept or reject)
			slowDone := make(chan struct{}, nslow)
			var slowRaws []*vfRaw
			for j := 0; j < nslow; j++ {
				kk++
				myK := kk
				raw, err := w.RawClient()
				if err != nil {
					t.Fatalf("harness: raw client: %v", err)
				}
				st := &vfC01ConnState{tag: raw.Tag}
				states = append(states, st)
				watch(raw, st)
				good := j == 0 || r.Intn(2) == 0
				kind, cred := "auth_held", fmt.Sprintf("hold:ok:u%d", myK)
				if !good {
					kind, cred = "auth_held_bad", fmt.Sprintf("hold:bad-c%d", myK)
				}
				c.Conns = append(c.Conns, vfC01ConnScript{K: myK, Actions: []vfC01Action{{Kind: kind, N: 1}, {Kind: "stream", N: 2}}})
				slowRaws = append(slowRaws, raw)
				// some of the slow ones lose patience: the client resets its pending auth request after a second
				// (the connection stays open) and tries to proxy anyway; the verdict arrives later all the same
				cancels := (j == 0 && i%2 == 0) || (j > 0 && r.Intn(2) == 0)
				if j == 0 && i%2 == 0 {
					kind, cred = "auth_held_bad", fmt.Sprintf("hold:bad-c%d", myK)
					c.Conns[len(c.Conns)-1].Actions[0].Kind = kind
				}
				go func() {
					defer func() { slowDone <- struct{}{} }()
					ctx, cancel := context.WithCancel(context.Background())
					defer cancel()
					cancelled := make(chan struct{})
					if cancels {
						go func() {
							defer close(cancelled)
							time.Sleep(time.Second)
							cancel()
							k.Count("ev_slow_auth_requests_cancelled_by_client", 1)
							time.Sleep(200 * time.Millisecond)
							probe(raw, st, myK, 3)
							_ = raw.Conn.SendDatagram(vfUDPMessageBytes(9, 0, 0, 1, fmt.Sprintf("c%dx4.verif:53", myK), []byte("after-cancel-dgram")))
							// the verdict (the release) comes later; wait for it before the final probe
							time.Sleep(holdFor)
						}()
					} else {
						close(cancelled)
					}
					resp := raw.AuthReqCtx(ctx, cred, "0")
					<-cancelled
					st.mu.Lock()
					if resp.Status == 233 {
						st.saw233 = true
						st.everOK = true
					}
					st.mu.Unlock()
					probe(raw, st, myK, 2)
				}()
			}
			time.Sleep(holdFor)
			for _, raw := range slowRaws {
				w.Auth.Release(raw.Tag)
			}
			for j := 0; j < nslow; j++ {
				<-slowDone
			}
			k.Count("ev_slow_verdicts", int64(nslow))
			// later ones: rejected credentials, one after the other, each followed by probes
			for j := 0; j < nlater; j++ {
				kk++
				raw, err := w.RawClient()
				if err != nil {
					t.Fatalf("harness: raw client: %v", err)
				}
				st := &vfC01ConnState{tag: raw.Tag}
				states = append(states, st)
				watch(raw, st)
				c.Conns = append(c.Conns, vfC01ConnScript{K: kk, Actions: []vfC01Action{{Kind: "auth_bad", N: 1}, {Kind: "stream", N: 2}, {Kind: "dgram", N: 3}}})
				if resp := raw.AuthReq(fmt.Sprintf("bad-c%d", kk), "0"); resp.Status == 233 {
					st.mu.Lock()
					st.saw233 = true
					st.mu.Unlock()
				}
				probe(raw, st, kk, 2)
				_ = raw.Conn.SendDatagram(vfUDPMessageBytes(uint32(j+1), 0, 0, 1, fmt.Sprintf("c%dx3.verif:53", kk), []byte("unauth-dgram")))
				k.Count("ev_rejected_after_slow_verdict", 1)
			}
			time.Sleep(time.Second)
			synctest.Wait()
			evs := w.Log.Snapshot()
			w.Close()
			vfC01Judge(k, c, states, evs)
			k.Nontrivial(fmt.Sprintf("%s/%d/%v/%d", caseID, nslow, holdFor, nlater))
			if i == 0 {
				k.Sample(map[string]any{"case_id": caseID, "slow": nslow, "held_for": holdFor.String(), "later_rejected": nlater})
			}
		})
	}
}
