//go:build verif

package integration_tests

// Shared integration kit: the whole Hysteria stack (real quic-go, TLS 1.3, HTTP/3,
// server.NewServer, client.NewClient, raw QUIC/h3 clients) on quic-go's in-process packet
// network (simnet) inside a testing/synctest bubble, i.e. on virtual time.
//
// Everything a property needs to observe goes into one totally ordered event log
// (vfNetLog) through harness-owned fakes: authenticator, outbound, event logger,
// traffic logger. Fakes log BEFORE they return a value to the code under test.

import (
	"bytes"
	"context"
	"crypto/ecdsa"
	"crypto/elliptic"
	crand "crypto/rand"
	"crypto/tls"
	"crypto/x509"
	"crypto/x509/pkix"
	"errors"
	"fmt"
	"io"
	"math/big"
	"math/rand"
	"net"
	"net/http"
	"strings"
	"sync"
	"sync/atomic"
	"time"

	"github.com/apernet/quic-go"
	"github.com/apernet/quic-go/http3"
	"github.com/apernet/quic-go/testutils/simnet"

	"github.com/apernet/hysteria/core/v2/client"
	"github.com/apernet/hysteria/core/v2/server"
)

// ---------------------------------------------------------------- TLS

var (
	vfCertOnce sync.Once
	vfCert     tls.Certificate
)

// vfTLSCert returns a self-signed certificate valid 1970..2200 (the bubble clock starts in 2000).
func vfTLSCert() tls.Certificate {
	vfCertOnce.Do(func() {
		key, err := ecdsa.GenerateKey(elliptic.P256(), crand.Reader)
		if err != nil {
			panic(err)
		}
		tpl := &x509.Certificate{
			SerialNumber: big.NewInt(1),
			Subject:      pkix.Name{CommonName: "verif"},
			NotBefore:    time.Unix(0, 0),
			NotAfter:     time.Date(2200, 1, 1, 0, 0, 0, 0, time.UTC),
			KeyUsage:     x509.KeyUsageDigitalSignature,
			ExtKeyUsage:  []x509.ExtKeyUsage{x509.ExtKeyUsageServerAuth},
			DNSNames:     []string{"verif", "hysteria", "localhost"},
		}
		der, err := x509.CreateCertificate(crand.Reader, tpl, tpl, &key.PublicKey, key)
		if err != nil {
			panic(err)
		}
		vfCert = tls.Certificate{Certificate: [][]byte{der}, PrivateKey: key}
	})
	return vfCert
}

// ---------------------------------------------------------------- network

// vfRouter is a simnet.Router on virtual time: fixed one-way latency, optional
// PRNG loss, per-address blackholes. Delivery uses time.AfterFunc, which is
// virtual inside a bubble.
type vfRouter struct {
	mu        sync.Mutex
	nodes     map[string]simnet.PacketReceiver
	Latency   time.Duration
	lossPct   int
	rnd       *rand.Rand
	blackhole map[string]bool
	Packets   atomic.Int64
	Dropped   atomic.Int64
}

func vfNewRouter(latency time.Duration) *vfRouter {
	return &vfRouter{nodes: map[string]simnet.PacketReceiver{}, Latency: latency, blackhole: map[string]bool{}}
}

func (r *vfRouter) SetLoss(pct int, rnd *rand.Rand) {
	r.mu.Lock()
	r.lossPct, r.rnd = pct, rnd
	r.mu.Unlock()
}

// Blackhole drops every packet from or to addr (until cleared).
func (r *vfRouter) Blackhole(addr net.Addr, on bool) {
	r.mu.Lock()
	if on {
		r.blackhole[addr.String()] = true
	} else {
		delete(r.blackhole, addr.String())
	}
	r.mu.Unlock()
}

func (r *vfRouter) AddNode(addr net.Addr, rcv simnet.PacketReceiver) {
	r.mu.Lock()
	r.nodes[addr.String()] = rcv
	r.mu.Unlock()
}

func (r *vfRouter) RemoveNode(addr net.Addr) {
	r.mu.Lock()
	delete(r.nodes, addr.String())
	r.mu.Unlock()
}

func (r *vfRouter) SendPacket(p simnet.Packet) error {
	r.Packets.Add(1)
	r.mu.Lock()
	rcv, ok := r.nodes[p.To.String()]
	drop := r.blackhole[p.To.String()] || r.blackhole[p.From.String()]
	if !drop && r.lossPct > 0 && r.rnd != nil && r.rnd.Intn(100) < r.lossPct {
		drop = true
	}
	lat := r.Latency
	r.mu.Unlock()
	if !ok || drop {
		r.Dropped.Add(1)
		return nil // like UDP: silently lost
	}
	if lat <= 0 {
		lat = time.Microsecond
	}
	time.AfterFunc(lat, func() { rcv.RecvPacket(p) })
	return nil
}

// vfEndpoint creates a PacketConn at ip:port on the router.
func (r *vfRouter) Endpoint(ip string, port int) *simnet.SimConn {
	addr := &net.UDPAddr{IP: net.ParseIP(ip), Port: port}
	return simnet.NewBlockingSimConn(addr, r)
}

// ---------------------------------------------------------------- event log

type vfNetLog struct {
	vfLog
}

func (l *vfNetLog) Ev(kind, conn string, f map[string]any) int {
	return l.AddT(kind, conn, 0, time.Now().UnixNano(), f)
}

// ---------------------------------------------------------------- fakes

// Credentials understood by vfAuth: "ok:<id>" is accepted with id <id>; anything else is
// rejected. "hold:<rest>" blocks on the gate first, then is decided on <rest>.
type vfAuth struct {
	log     *vfNetLog
	mu      sync.Mutex
	waiting map[string]chan struct{} // per connection: a held authentication waiting for Release
	credits map[string]int           // Release arrived before the hold: let the next hold pass
	all     bool                     // ReleaseAll was called: nothing is held any more
	// Delay is a virtual sleep before answering (widens the "before the authenticator answers" window)
	Delay time.Duration
}

func vfNewAuth(log *vfNetLog) *vfAuth {
	return &vfAuth{log: log, waiting: map[string]chan struct{}{}, credits: map[string]int{}}
}

func (a *vfAuth) hold(conn string) {
	a.mu.Lock()
	if a.all {
		a.mu.Unlock()
		return
	}
	if a.credits[conn] > 0 {
		a.credits[conn]--
		a.mu.Unlock()
		return
	}
	g := make(chan struct{})
	a.waiting[conn] = g
	a.mu.Unlock()
	<-g
}

// Release lets one held authentication of connection conn (its address string) proceed.
func (a *vfAuth) Release(conn string) {
	a.mu.Lock()
	if g, ok := a.waiting[conn]; ok {
		close(g)
		delete(a.waiting, conn)
	} else {
		a.credits[conn]++
	}
	a.mu.Unlock()
}

func (a *vfAuth) ReleaseAll() {
	a.mu.Lock()
	a.all = true
	for c, g := range a.waiting {
		close(g)
		delete(a.waiting, c)
	}
	a.mu.Unlock()
}

func (a *vfAuth) Authenticate(addr net.Addr, auth string, tx uint64) (bool, string) {
	conn := addr.String()
	a.log.Ev("auth_call", conn, map[string]any{"auth": auth, "tx": tx})
	if strings.HasPrefix(auth, "hold:") {
		auth = strings.TrimPrefix(auth, "hold:")
		a.log.Ev("auth_held", conn, nil)
		a.hold(conn)
	}
	if a.Delay > 0 {
		time.Sleep(a.Delay)
	}
	if strings.HasPrefix(auth, "ok:") {
		id := strings.TrimPrefix(auth, "ok:")
		a.log.Ev("auth_ok", conn, map[string]any{"id": id, "tx": tx})
		return true, id
	}
	a.log.Ev("auth_rej", conn, map[string]any{"auth": auth})
	// A rejecting authenticator may still return an id (extras/auth's HTTP backend does): it must mean nothing.
	return false, "rejected-id-of-" + auth
}

// vfOutbound records every call. TCP results come from OnTCP (default: refuse).
type vfOutbound struct {
	log   *vfNetLog
	OnTCP func(reqAddr string) (net.Conn, error)
	OnUDP func(reqAddr string) (server.UDPConn, error)
	// CheckUDPFn decides CheckUDP (default allow)
	CheckUDPFn func(reqAddr string) error
}

func (o *vfOutbound) TCP(reqAddr string) (net.Conn, error) {
	o.log.Ev("ob_tcp", "", map[string]any{"addr": reqAddr})
	if o.OnTCP == nil {
		return nil, errors.New("vf: no target")
	}
	return o.OnTCP(reqAddr)
}

func (o *vfOutbound) UDP(reqAddr string) (server.UDPConn, error) {
	o.log.Ev("ob_udp", "", map[string]any{"addr": reqAddr})
	if o.OnUDP == nil {
		return vfNewSinkUDP(o.log, reqAddr), nil
	}
	return o.OnUDP(reqAddr)
}

func (o *vfOutbound) CheckUDP(reqAddr string) error {
	o.log.Ev("ob_checkudp", "", map[string]any{"addr": reqAddr})
	if o.CheckUDPFn != nil {
		return o.CheckUDPFn(reqAddr)
	}
	return nil
}

// vfSinkUDP is an outbound UDP socket that records writes and can be fed replies.
type vfSinkUDP struct {
	log     *vfNetLog
	first   string
	in      chan vfUDPPkt
	closed  chan struct{}
	once    sync.Once
	Written atomic.Int64
}

type vfUDPPkt struct {
	data []byte
	from string
}

func vfNewSinkUDP(log *vfNetLog, first string) *vfSinkUDP {
	return &vfSinkUDP{log: log, first: first, in: make(chan vfUDPPkt, 64), closed: make(chan struct{})}
}

func (s *vfSinkUDP) ReadFrom(b []byte) (int, string, error) {
	select {
	case p := <-s.in:
		return copy(b, p.data), p.from, nil
	case <-s.closed:
		return 0, "", net.ErrClosed
	}
}

func (s *vfSinkUDP) WriteTo(b []byte, addr string) (int, error) {
	select {
	case <-s.closed:
		return 0, net.ErrClosed
	default:
	}
	s.Written.Add(1)
	s.log.Ev("udp_write", "", map[string]any{"addr": addr, "n": len(b), "head": string(b[:min(len(b), 48)]), "sock": s.first})
	return len(b), nil
}

func (s *vfSinkUDP) Reply(data []byte, from string) {
	select {
	case s.in <- vfUDPPkt{append([]byte(nil), data...), from}:
	case <-s.closed:
	}
}

func (s *vfSinkUDP) Close() error {
	s.once.Do(func() { close(s.closed); s.log.Ev("udp_close", "", map[string]any{"sock": s.first}) })
	return nil
}

// vfEvents implements server.EventLogger.
type vfEvents struct{ log *vfNetLog }

func (e *vfEvents) Connect(addr net.Addr, id string, tx uint64) {
	e.log.Ev("el_connect", addr.String(), map[string]any{"id": id, "tx": tx})
}

func (e *vfEvents) Disconnect(addr net.Addr, id string, err error) {
	e.log.Ev("el_disconnect", addr.String(), map[string]any{"id": id, "err": fmt.Sprint(err)})
}

func (e *vfEvents) TCPRequest(addr net.Addr, id, reqAddr string) {
	e.log.Ev("el_tcpreq", addr.String(), map[string]any{"id": id, "addr": reqAddr})
}

func (e *vfEvents) TCPError(addr net.Addr, id, reqAddr string, err error) {
	e.log.Ev("el_tcperr", addr.String(), map[string]any{"id": id, "addr": reqAddr, "err": fmt.Sprint(err)})
}

func (e *vfEvents) UDPRequest(addr net.Addr, id string, sessionID uint32, reqAddr string) {
	e.log.Ev("el_udpreq", addr.String(), map[string]any{"id": id, "sid": sessionID, "addr": reqAddr})
}

func (e *vfEvents) UDPError(addr net.Addr, id string, sessionID uint32, err error) {
	e.log.Ev("el_udperr", addr.String(), map[string]any{"id": id, "sid": sessionID, "err": fmt.Sprint(err)})
}

// vfTraffic implements server.TrafficLogger; Verdict decides each LogTraffic call
// (nil = allow). Calls are logged before the verdict is returned.
type vfTraffic struct {
	log     *vfNetLog
	mu      sync.Mutex
	calls   int
	Verdict func(call int, id string, tx, rx uint64) bool
}

func (t *vfTraffic) LogTraffic(id string, tx, rx uint64) bool {
	t.mu.Lock()
	t.calls++
	n := t.calls
	v := t.Verdict
	t.mu.Unlock()
	ok := true
	if v != nil {
		ok = v(n, id, tx, rx)
	}
	t.log.Ev("tl_traffic", "", map[string]any{"id": id, "tx": tx, "rx": rx, "ok": ok, "call": n})
	return ok
}

func (t *vfTraffic) LogOnlineState(id string, online bool) {
	t.log.Ev("tl_online", "", map[string]any{"id": id, "online": online})
}

func (t *vfTraffic) TraceStream(stream server.HyStream, stats *server.StreamStats) {}
func (t *vfTraffic) UntraceStream(stream server.HyStream)                           {}

// ---------------------------------------------------------------- server / clients

type vfWorld struct {
	Router *vfRouter
	Log    *vfNetLog
	Auth   *vfAuth
	Out    *vfOutbound
	Events *vfEvents

	ServerAddr *net.UDPAddr
	Server     server.Server
	serveDone  chan struct{}

	nextClient atomic.Int32
	closers    []func()
	mu         sync.Mutex
}

type vfServerOpts struct {
	Latency     time.Duration // one-way
	Config      func(c *server.Config) // last-minute edits (bandwidth, masq handler, traffic logger, DisableUDP, ...)
	NoEventLog  bool
	ServerIP    string
}

// vfNewWorld starts a real Hysteria server on a simnet endpoint. Must be called inside a bubble.
func vfNewWorld(opts vfServerOpts) (*vfWorld, error) {
	if opts.Latency == 0 {
		opts.Latency = 5 * time.Millisecond
	}
	if opts.ServerIP == "" {
		opts.ServerIP = "10.0.0.1"
	}
	w := &vfWorld{Router: vfNewRouter(opts.Latency), Log: &vfNetLog{}}
	w.Auth = vfNewAuth(w.Log)
	w.Out = &vfOutbound{log: w.Log}
	w.Events = &vfEvents{log: w.Log}
	w.ServerAddr = &net.UDPAddr{IP: net.ParseIP(opts.ServerIP), Port: 443}
	ep := simnet.NewBlockingSimConn(w.ServerAddr, w.Router)
	cfg := &server.Config{
		TLSConfig:     server.TLSConfig{Certificates: []tls.Certificate{vfTLSCert()}},
		Conn:          ep,
		Outbound:      w.Out,
		Authenticator: w.Auth,
	}
	cfg.QUICConfig.DisablePathMTUDiscovery = true
	if !opts.NoEventLog {
		cfg.EventLogger = w.Events
	}
	if opts.Config != nil {
		opts.Config(cfg)
	}
	s, err := server.NewServer(cfg)
	if err != nil {
		return nil, err
	}
	w.Server = s
	w.serveDone = make(chan struct{})
	go func() { _ = s.Serve(); close(w.serveDone) }()
	return w, nil
}

func (w *vfWorld) onClose(f func()) {
	w.mu.Lock()
	w.closers = append(w.closers, f)
	w.mu.Unlock()
}

// Close tears everything down (clients first). After it returns, a bubble should be able to exit.
func (w *vfWorld) Close() {
	w.mu.Lock()
	cl := w.closers
	w.closers = nil
	w.mu.Unlock()
	for i := len(cl) - 1; i >= 0; i-- {
		cl[i]()
	}
	w.Auth.ReleaseAll()
	_ = w.Server.Close()
	<-w.serveDone
}

// ClientAddr allocates a fresh client address; the address identifies the connection
// at the server's authenticator/event logger.
func (w *vfWorld) ClientAddr() *net.UDPAddr {
	n := int(w.nextClient.Add(1))
	// only three client IPs: several connections share a host and differ in the port only
	return &net.UDPAddr{IP: net.IPv4(10, 1, 0, byte(1+n%3)), Port: 10000 + n%50000}
}

// vfFactory hands a prepared endpoint to client.NewClient.
type vfFactory struct {
	new func() (net.PacketConn, error)
}

func (f *vfFactory) New(net.Addr) (net.PacketConn, error) { return f.new() }

// HyClient connects a real Hysteria client from a fresh address. auth e.g. "ok:alice".
func (w *vfWorld) HyClient(auth string, edit func(c *client.Config)) (client.Client, *client.HandshakeInfo, *net.UDPAddr, error) {
	addr := w.ClientAddr()
	cfg := &client.Config{
		ConnFactory: &vfFactory{new: func() (net.PacketConn, error) { return simnet.NewBlockingSimConn(addr, w.Router), nil }},
		ServerAddr:  w.ServerAddr,
		Auth:        auth,
		TLSConfig:   client.TLSConfig{InsecureSkipVerify: true, ServerName: "verif"},
	}
	cfg.QUICConfig.DisablePathMTUDiscovery = true
	if edit != nil {
		edit(cfg)
	}
	c, info, err := client.NewClient(cfg)
	if err != nil {
		return nil, nil, addr, err
	}
	w.onClose(func() { _ = c.Close() })
	return c, info, addr, nil
}

// vfRaw is a raw QUIC + HTTP/3 client that stays on ONE connection.
type vfRaw struct {
	W    *vfWorld
	Addr *net.UDPAddr
	Tag  string // == Addr.String(): how the server names this connection
	ep   *simnet.SimConn
	tr   *quic.Transport
	Conn *quic.Conn
	H3   *http3.ClientConn
}

func (w *vfWorld) RawClient() (*vfRaw, error) {
	addr := w.ClientAddr()
	ep := simnet.NewBlockingSimConn(addr, w.Router)
	tr := &quic.Transport{Conn: ep}
	ctx, cancel := context.WithTimeout(context.Background(), 20*time.Second)
	defer cancel()
	conn, err := tr.Dial(ctx, w.ServerAddr, &tls.Config{InsecureSkipVerify: true, ServerName: "verif", NextProtos: []string{http3.NextProtoH3}},
		&quic.Config{EnableDatagrams: true, MaxIdleTimeout: 30 * time.Second, DisablePathMTUDiscovery: true, DisablePathManager: true})
	if err != nil {
		_ = tr.Close()
		_ = ep.Close()
		return nil, err
	}
	h3 := (&http3.Transport{EnableDatagrams: false}).NewClientConn(conn)
	r := &vfRaw{W: w, Addr: addr, Tag: addr.String(), ep: ep, tr: tr, Conn: conn, H3: h3}
	w.onClose(r.Close)
	return r, nil
}

func (r *vfRaw) Close() {
	_ = r.Conn.CloseWithError(0x100, "")
	_ = r.tr.Close()
	_ = r.ep.Close()
}

type vfResp struct {
	Status int
	Header http.Header
	Body   []byte
	Err    error
}

// Do sends one HTTP/3 request on this connection. authority becomes :authority.
func (r *vfRaw) Do(method, authority, path string, hdr http.Header, body []byte) vfResp {
	ctx, cancel := context.WithTimeout(context.Background(), 60*time.Second)
	defer cancel()
	return r.DoCtx(ctx, method, authority, path, hdr, body)
}

// DoCtx is Do under the caller's context: cancelling it makes the client reset the request stream
// while the connection stays open.
func (r *vfRaw) DoCtx(ctx context.Context, method, authority, path string, hdr http.Header, body []byte) vfResp {
	var rd io.Reader
	if body != nil {
		rd = bytes.NewReader(body)
	}
	req, err := http.NewRequest(method, "https://"+authority+path, rd)
	if err != nil {
		return vfResp{Err: err}
	}
	for k, v := range hdr {
		req.Header[k] = v
	}
	resp, err := r.H3.RoundTrip(req.WithContext(ctx))
	if err != nil {
		return vfResp{Err: err}
	}
	b, err := io.ReadAll(resp.Body)
	_ = resp.Body.Close()
	return vfResp{Status: resp.StatusCode, Header: resp.Header, Body: b, Err: err}
}

// AuthReq sends POST https://hysteria/auth with the given credential and CC-RX header value.
func (r *vfRaw) AuthReq(cred, rx string) vfResp {
	ctx, cancel := context.WithTimeout(context.Background(), 60*time.Second)
	defer cancel()
	return r.AuthReqCtx(ctx, cred, rx)
}

func (r *vfRaw) AuthReqCtx(ctx context.Context, cred, rx string) vfResp {
	h := http.Header{}
	h.Set("Hysteria-Auth", cred)
	if rx != "-" {
		h.Set("Hysteria-CC-RX", rx)
	}
	h.Set("Hysteria-Padding", "verifpadding")
	return r.DoCtx(ctx, http.MethodPost, "hysteria", "/auth", h, nil)
}

// vfVarint appends a QUIC varint with the minimal width.
func vfVarint(b []byte, v uint64) []byte {
	switch {
	case v <= 63:
		return append(b, byte(v))
	case v <= 16383:
		return append(b, byte(v>>8)|0x40, byte(v))
	case v <= 1073741823:
		return append(b, byte(v>>24)|0x80, byte(v>>16), byte(v>>8), byte(v))
	default:
		return append(b, byte(v>>56)|0xc0, byte(v>>48), byte(v>>40), byte(v>>32), byte(v>>24), byte(v>>16), byte(v>>8), byte(v))
	}
}

// vfTCPRequestFrame builds 0x401 ‖ len ‖ addr ‖ padlen ‖ padding (own encoder, from PROTOCOL.md).
func vfTCPRequestFrame(addr string, pad int) []byte {
	b := vfVarint(nil, 0x401)
	b = vfVarint(b, uint64(len(addr)))
	b = append(b, addr...)
	b = vfVarint(b, uint64(pad))
	for i := 0; i < pad; i++ {
		b = append(b, 'p')
	}
	return b
}

// vfUDPMessageBytes builds a UDPMessage datagram (own encoder).
func vfUDPMessageBytes(sid uint32, pid uint16, fragID, fragCount uint8, addr string, data []byte) []byte {
	b := []byte{byte(sid >> 24), byte(sid >> 16), byte(sid >> 8), byte(sid), byte(pid >> 8), byte(pid), fragID, fragCount}
	b = vfVarint(b, uint64(len(addr)))
	b = append(b, addr...)
	return append(b, data...)
}

// vfParseTCPResponse decodes status/msg from bytes (own decoder). ok=false if incomplete.
func vfParseTCPResponse(b []byte) (status byte, msg string, rest []byte, ok bool) {
	if len(b) < 1 {
		return
	}
	status = b[0]
	p := b[1:]
	rd := func() (uint64, bool) {
		if len(p) == 0 {
			return 0, false
		}
		l := 1 << (p[0] >> 6)
		if len(p) < l {
			return 0, false
		}
		v := uint64(p[0] & 0x3f)
		for i := 1; i < l; i++ {
			v = v<<8 | uint64(p[i])
		}
		p = p[l:]
		return v, true
	}
	ml, o := rd()
	if !o || uint64(len(p)) < ml {
		return
	}
	msg = string(p[:ml])
	p = p[ml:]
	pl, o := rd()
	if !o || uint64(len(p)) < pl {
		return
	}
	return status, msg, p[pl:], true
}

// ProxyStream opens a raw bidirectional stream and writes a TCPRequest for addr.
func (r *vfRaw) ProxyStream(addr string) (*quic.Stream, error) {
	st, err := r.Conn.OpenStream()
	if err != nil {
		return nil, err
	}
	_, err = st.Write(vfTCPRequestFrame(addr, 7))
	return st, err
}

// vfReadSome reads whatever arrives on the stream within d (virtual) and returns it.
func vfReadSome(st *quic.Stream, d time.Duration) ([]byte, error) {
	_ = st.SetReadDeadline(time.Now().Add(d))
	var out []byte
	buf := make([]byte, 4096)
	for {
		n, err := st.Read(buf)
		out = append(out, buf[:n]...)
		if err != nil {
			return out, err
		}
	}
}

// vfPipeTarget is an in-memory TCP "target": the server side gets Conn() from Outbound.TCP,
// the harness drives the other end.
type vfPipeTarget struct {
	serverSide net.Conn
	Harness    net.Conn
}

func vfNewPipeTarget() *vfPipeTarget {
	a, b := vfBufferedPipe()
	return &vfPipeTarget{serverSide: a, Harness: b}
}

// vfBufferedPipe returns two connected net.Conns with unbounded buffering in each
// direction and half-close-free semantics: Close on one end gives EOF on the peer's
// reads (after buffered data is drained) and errors on the peer's writes.
func vfBufferedPipe() (net.Conn, net.Conn) {
	ab, ba := vfNewBuf(), vfNewBuf()
	return &vfBufConn{r: ba, w: ab}, &vfBufConn{r: ab, w: ba}
}

type vfBuf struct {
	mu     sync.Mutex
	cond   *sync.Cond
	data   []byte
	closed bool // writer closed: EOF after drain
	broken bool // reader closed: writes fail
}

func vfNewBuf() *vfBuf { b := &vfBuf{}; b.cond = sync.NewCond(&b.mu); return b }

type vfBufConn struct {
	r, w *vfBuf
	once sync.Once
}

func (c *vfBufConn) Read(p []byte) (int, error) {
	b := c.r
	b.mu.Lock()
	defer b.mu.Unlock()
	for len(b.data) == 0 && !b.closed && !b.broken {
		b.cond.Wait()
	}
	if len(b.data) > 0 {
		n := copy(p, b.data)
		b.data = b.data[n:]
		return n, nil
	}
	if b.broken {
		return 0, net.ErrClosed
	}
	return 0, io.EOF
}

func (c *vfBufConn) Write(p []byte) (int, error) {
	b := c.w
	b.mu.Lock()
	defer b.mu.Unlock()
	if b.closed || b.broken {
		return 0, io.ErrClosedPipe
	}
	b.data = append(b.data, p...)
	b.cond.Broadcast()
	return len(p), nil
}

func (c *vfBufConn) Close() error {
	c.once.Do(func() {
		c.w.mu.Lock()
		c.w.closed = true
		c.w.cond.Broadcast()
		c.w.mu.Unlock()
		c.r.mu.Lock()
		c.r.broken = true
		c.r.cond.Broadcast()
		c.r.mu.Unlock()
	})
	return nil
}

func (c *vfBufConn) LocalAddr() net.Addr                { return &net.TCPAddr{IP: net.IPv4(10, 9, 9, 9), Port: 1} }
func (c *vfBufConn) RemoteAddr() net.Addr               { return &net.TCPAddr{IP: net.IPv4(10, 9, 9, 8), Port: 2} }
func (c *vfBufConn) SetDeadline(t time.Time) error      { return nil }
func (c *vfBufConn) SetReadDeadline(t time.Time) error  { return nil }
func (c *vfBufConn) SetWriteDeadline(t time.Time) error { return nil }
