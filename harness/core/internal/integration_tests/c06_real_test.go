//go:build verif

package integration_tests

// C06 — real-socket cross-check (DESIGN.md §2.2): the same relay oracles against kernel sockets.
//
// Real server on a UDP socket 127.0.0.1:0 with the DEFAULT outbound (net.Dial => the proxy target
// connection is a real *net.TCPConn, with everything that type brings: io.WriterTo/ReaderFrom,
// *net.OpError wrapping, FIN / half-close / RST), real clients on their own UDP sockets, targets =
// TCP listeners on 127.0.0.1:0 driven by the harness. Real time, no bubble, so only oracles that
// are safe under load decide:
//   - prefix in both directions (offset-coded content, checked at every arrival);
//   - completeness shape (ii) (sender writes N, closes / half-closes, other direction idle, receiver
//     reads to EOF) -- the wait is a real-time watchdog, its firing is INCONCLUSIVE;
//   - at every arrival, bytes arrived <= bytes the logger had approved (arrival is observed later
//     than the server's write, which only weakens the check);
//   - veto in either direction: a later Client.TCP must fail with ClosedError, where "later" is a
//     logical clock: 100 complete round trips through the same server on another user's relay,
//     and a second 100 before a still-working connection is reported;
//   - dial failure (listener closed): DialError.Message == the error text the server's outbound
//     produced (taken from the server's EventLogger.TCPError).

import (
	"bytes"
	"crypto/tls"
	"errors"
	"fmt"
	"io"
	"math/rand"
	"net"
	"strconv"
	"strings"
	"sync"
	"syscall"
	"testing"
	"time"

	"github.com/apernet/hysteria/core/v2/client"
	coreErrs "github.com/apernet/hysteria/core/v2/errors"
	"github.com/apernet/hysteria/core/v2/server"
)

const vfC06RealWatchdog = 40 * time.Second // real time; firing = inconclusive, never a verdict

type vfC06RealCase struct {
	CaseID   string `json:"case_id"`
	Idx      int    `json:"idx"`
	Mode     string `json:"mode"` // c_close_ii t_close_ii t_halfclose_ii t_rst veto_rx veto_tx dial_refused
	Up       int    `json:"up"`
	Down     int    `json:"down"`
	Chunk    int    `json:"chunk"`
	ReadBuf  int    `json:"read_buf"`
	FastOpen bool   `json:"fast_open"`
	VetoAt   int    `json:"veto_at"` // n-th LogTraffic call of the vetoed direction
	CutAt    int    `json:"cut_at"`  // t_rst: target resets after having written this many bytes
	SlowUs   int    `json:"slow_us"` // c_close_slow: the target pauses this long after every read (workload only)
	LateMs   int    `json:"late_ms"` // c_close_slow: the target starts reading this late (workload only)
	Salt     uint64 `json:"salt"`
}

var vfC06RealModes = []string{"c_close_ii", "t_close_ii", "t_halfclose_ii", "t_rst", "veto_rx", "veto_tx", "veto_rx", "dial_refused", "c_close_slow"}

func vfC06RealGen(k *vfKit, i int) vfC06RealCase {
	id := fmt.Sprintf("c06real-%d", i)
	r := k.Rand(id)
	c := vfC06RealCase{CaseID: id, Idx: i, Mode: vfC06RealModes[i%len(vfC06RealModes)], Salt: r.Uint64(), FastOpen: r.Intn(2) == 0,
		Chunk: 1 + r.Intn(32<<10), ReadBuf: 512 + r.Intn(64<<10)}
	size := func() int {
		if r.Intn(4) == 0 {
			return r.Intn(3000)
		}
		return 3000 + r.Intn(300_000)
	}
	switch c.Mode {
	case "c_close_ii":
		c.Up = size()
	case "c_close_slow": // big upload into a target that consumes more slowly than the relay writes
		c.Up = 1<<20 + r.Intn(3<<20)
		c.ReadBuf = 8192 + r.Intn(24<<10)
		c.SlowUs = 300 + r.Intn(1200)
		c.LateMs = 100 + r.Intn(400)
	case "t_close_ii", "t_halfclose_ii":
		c.Down = size()
	case "t_rst":
		c.Up, c.Down = 20_000+size(), 20_000+size()
		c.CutAt = r.Intn(c.Down)
	case "veto_rx":
		c.Down, c.Up = 150_000+r.Intn(300_000), r.Intn(2000)
		c.VetoAt = 1 + r.Intn(4)
	case "veto_tx":
		c.Up, c.Down = 150_000+r.Intn(300_000), r.Intn(2000)
		c.VetoAt = 1 + r.Intn(4)
	case "dial_refused":
		c.Up = r.Intn(2000)
	}
	if lo := (c.Up + c.Down) / 200; c.Chunk < lo {
		c.Chunk = lo + 1
	}
	return c
}

type vfC06RealUser struct {
	id      string
	c       *vfC06RealCase
	mu      sync.Mutex
	calls   [2]int
	vetoed  chan struct{}
	once    sync.Once
	didVeto bool
}

type vfC06RealRelay struct {
	c    *vfC06RealCase
	key  string
	keys [2]uint64
	log  *vfNetLog

	mu        sync.Mutex
	got       [2]int64
	bad       [2]string
	sent      [2]int64
	attempted [2]int64
	endErr    [2]error // how the receiver's read loop ended
	scratch   [2][]byte
	recvDone  [2]chan struct{}
}

func (rs *vfC06RealRelay) arrive(dir int, b []byte, kind string) {
	rs.log.AddT(kind, rs.key, int64(len(b)), time.Now().UnixNano(), nil)
	rs.mu.Lock()
	defer rs.mu.Unlock()
	if rs.bad[dir] == "" {
		if cap(rs.scratch[dir]) < len(b) {
			rs.scratch[dir] = make([]byte, len(b), max(len(b), 64<<10))
		}
		exp := rs.scratch[dir][:len(b)]
		vfC06Fill(exp, rs.keys[dir], rs.got[dir])
		if !bytes.Equal(exp, b) {
			i := 0
			for i < len(b) && exp[i] == b[i] {
				i++
			}
			hi := min(len(b), i+16)
			rs.bad[dir] = fmt.Sprintf("offset %d: got %x want %x", rs.got[dir]+int64(i), b[i:hi], exp[i:hi])
		}
	}
	rs.got[dir] += int64(len(b))
}

func (rs *vfC06RealRelay) recvLoop(dir int, rd io.Reader, bufSize int, kind string) {
	defer close(rs.recvDone[dir])
	buf := make([]byte, bufSize)
	pause := time.Duration(0)
	if dir == vfC06Up && rs.c.SlowUs > 0 {
		pause = time.Duration(rs.c.SlowUs) * time.Microsecond
		time.Sleep(time.Duration(rs.c.LateMs) * time.Millisecond) // a busy service; workload, not a verdict
	}
	for {
		n, err := rd.Read(buf)
		if n > 0 {
			rs.arrive(dir, buf[:n], kind)
		}
		if pause > 0 && err == nil {
			time.Sleep(pause) // a slow consumer; this is workload, no verdict depends on it
		}
		if err != nil {
			rs.mu.Lock()
			rs.endErr[dir] = err
			rs.mu.Unlock()
			return
		}
	}
}

func (rs *vfC06RealRelay) send(dir int, w io.Writer, total, cut int, r *rand.Rand) {
	buf := make([]byte, rs.c.Chunk)
	off := 0
	for off < total {
		if cut >= 0 && off >= cut {
			return
		}
		sz := 1 + r.Intn(rs.c.Chunk)
		if r.Intn(3) == 0 {
			sz = rs.c.Chunk
		}
		sz = min(sz, total-off)
		if cut >= 0 {
			sz = min(sz, cut-off)
		}
		vfC06Fill(buf[:sz], rs.keys[dir], int64(off))
		n, err := w.Write(buf[:sz])
		rs.mu.Lock()
		rs.sent[dir] += int64(n)
		rs.attempted[dir] += int64(sz)
		rs.mu.Unlock()
		if err != nil {
			return
		}
		off += n
	}
}

func vfC06RealWait(ch <-chan struct{}) bool {
	t := time.NewTimer(vfC06RealWatchdog)
	defer t.Stop()
	select {
	case <-ch:
		return true
	case <-t.C:
		return false
	}
}

type vfC06RealWorld struct {
	k      *vfKit
	log    *vfNetLog
	srv    server.Server
	addr   net.Addr
	usersM sync.Mutex
	users  map[string]*vfC06RealUser
	// witness: another user's relay to an echo target; one Write+Read = one round trip through the server
	wmu   sync.Mutex
	wconn net.Conn
	echo  net.Listener
}

func (w *vfC06RealWorld) client(id string, fastOpen bool) (client.Client, error) {
	cl, _, err := client.NewClient(&client.Config{
		ServerAddr: w.addr, Auth: "ok:" + id, FastOpen: fastOpen,
		TLSConfig: client.TLSConfig{InsecureSkipVerify: true, ServerName: "verif"},
	})
	return cl, err
}

func (w *vfC06RealWorld) roundTrips(n int) error {
	w.wmu.Lock()
	defer w.wmu.Unlock()
	b := []byte{0}
	for i := 0; i < n; i++ {
		b[0] = byte(i)
		_ = w.wconn.SetDeadline(time.Now().Add(vfC06RealWatchdog))
		if _, err := w.wconn.Write(b); err != nil {
			return err
		}
		if _, err := io.ReadFull(w.wconn, b); err != nil {
			return err
		}
	}
	return nil
}

func vfC06RealNewWorld(k *vfKit) (*vfC06RealWorld, func(), error) {
	w := &vfC06RealWorld{k: k, log: &vfNetLog{}, users: map[string]*vfC06RealUser{}}
	udp, err := net.ListenUDP("udp", &net.UDPAddr{IP: net.IPv4(127, 0, 0, 1)})
	if err != nil {
		return nil, nil, err
	}
	tl := &vfTraffic{log: w.log}
	tl.Verdict = func(call int, id string, tx, rx uint64) bool {
		w.usersM.Lock()
		u := w.users[id]
		w.usersM.Unlock()
		if u == nil {
			return true
		}
		d := vfC06Up
		if rx > 0 {
			d = vfC06Down
		}
		u.mu.Lock()
		u.calls[d]++
		veto := (u.c.Mode == "veto_rx" && d == vfC06Down || u.c.Mode == "veto_tx" && d == vfC06Up) && u.calls[d] == u.c.VetoAt
		if veto {
			u.didVeto = true
		}
		u.mu.Unlock()
		if veto {
			// the kit logger writes the tl_traffic event right after this returns; the signal is for the driver only
			u.once.Do(func() { close(u.vetoed) })
		}
		return !veto
	}
	srv, err := server.NewServer(&server.Config{
		TLSConfig:     server.TLSConfig{Certificates: []tls.Certificate{vfTLSCert()}},
		Conn:          udp,
		Authenticator: vfNewAuth(w.log),
		EventLogger:   &vfEvents{log: w.log},
		TrafficLogger: tl,
		// Outbound left nil: the default outbound really dials, the target conn is a *net.TCPConn
	})
	if err != nil {
		_ = udp.Close()
		return nil, nil, err
	}
	w.srv, w.addr = srv, udp.LocalAddr()
	served := make(chan struct{})
	go func() { _ = srv.Serve(); close(served) }()
	// echo target + witness relay
	w.echo, err = net.Listen("tcp", "127.0.0.1:0")
	if err != nil {
		_ = srv.Close()
		return nil, nil, err
	}
	go func() {
		for {
			c, err := w.echo.Accept()
			if err != nil {
				return
			}
			go func() { _, _ = io.Copy(c, c); _ = c.Close() }()
		}
	}()
	wcl, err := w.client("witness", false)
	if err == nil {
		w.wconn, err = wcl.TCP(w.echo.Addr().String())
	}
	if err != nil {
		_ = w.echo.Close()
		_ = srv.Close()
		return nil, nil, fmt.Errorf("witness: %w", err)
	}
	closeAll := func() {
		_ = w.wconn.Close()
		_ = wcl.Close()
		_ = w.echo.Close()
		_ = srv.Close()
		select {
		case <-served:
		case <-time.After(5 * time.Second):
		}
	}
	return w, closeAll, w.roundTrips(3)
}

type vfC06RealOutcome struct {
	c        *vfC06RealCase
	rs       *vfC06RealRelay
	user     *vfC06RealUser
	addr     string
	tcpErr   error
	firstErr error // fast open + dial_refused: error of the first Read
	firstN   int
	incon    string
	vetoSeen bool
	probes   []error // results of Client.TCP after the veto (nil = still usable)
}

func (w *vfC06RealWorld) runCase(c *vfC06RealCase) *vfC06RealOutcome {
	out := &vfC06RealOutcome{c: c}
	u := &vfC06RealUser{id: "r" + strconv.Itoa(c.Idx), c: c, vetoed: make(chan struct{})}
	out.user = u
	w.usersM.Lock()
	w.users[u.id] = u
	w.usersM.Unlock()
	rs := &vfC06RealRelay{c: c, key: u.id, log: w.log, keys: [2]uint64{vfC06Key(c.Salt, c.Idx, vfC06Up), vfC06Key(c.Salt, c.Idx, vfC06Down)},
		recvDone: [2]chan struct{}{make(chan struct{}), make(chan struct{})}}
	out.rs = rs
	rUp, rDown := rand.New(rand.NewSource(int64(c.Salt))), rand.New(rand.NewSource(int64(c.Salt)+1))

	accepted := make(chan *net.TCPConn, 1)
	var ln net.Listener
	if c.Mode == "dial_refused" {
		// a TCP socket that is bound but not listening: connecting to it is refused, and the port stays
		// reserved, so no other case's listener can be given the same number meanwhile
		fd, err := syscall.Socket(syscall.AF_INET, syscall.SOCK_STREAM, 0)
		if err == nil {
			err = syscall.Bind(fd, &syscall.SockaddrInet4{Addr: [4]byte{127, 0, 0, 1}})
		}
		if err != nil {
			out.incon = "bind: " + err.Error()
			return out
		}
		defer syscall.Close(fd)
		sa, err := syscall.Getsockname(fd)
		if err != nil {
			out.incon = "getsockname: " + err.Error()
			return out
		}
		out.addr = fmt.Sprintf("127.0.0.1:%d", sa.(*syscall.SockaddrInet4).Port)
	} else {
		var err error
		ln, err = net.Listen("tcp", "127.0.0.1:0")
		if err != nil {
			out.incon = "listen: " + err.Error()
			return out
		}
		out.addr = ln.Addr().String()
		defer ln.Close()
		go func() {
			cn, err := ln.Accept()
			if err != nil {
				close(accepted)
				return
			}
			accepted <- cn.(*net.TCPConn)
		}()
	}
	cl, err := w.client(u.id, c.FastOpen)
	if err != nil {
		out.incon = "client: " + err.Error()
		return out
	}
	defer cl.Close()
	conn, err := cl.TCP(out.addr)
	out.tcpErr = err
	if c.Mode == "dial_refused" {
		if err == nil && conn != nil {
			if c.Up > 0 && c.FastOpen {
				rs.send(vfC06Up, conn, c.Up, -1, rUp)
			}
			_ = conn.SetReadDeadline(time.Now().Add(vfC06RealWatchdog))
			buf := make([]byte, 4096)
			out.firstN, out.firstErr = conn.Read(buf)
			_ = conn.Close()
		}
		return out
	}
	if err != nil {
		return out
	}
	defer conn.Close()
	go rs.recvLoop(vfC06Down, conn, c.ReadBuf, "cli_read")
	var tgt *net.TCPConn
	select {
	case tgt = <-accepted:
	case <-time.After(vfC06RealWatchdog):
	}
	if tgt == nil {
		out.incon = "target never saw the connection (watchdog)"
		return out
	}
	defer tgt.Close()
	tgtBuf := 32 << 10
	if c.Mode == "c_close_slow" {
		tgtBuf = c.ReadBuf // default socket buffers: the relay's writes pile up in the kernel while the target is slow
	}
	go rs.recvLoop(vfC06Up, tgt, tgtBuf, "tgt_read")

	var wg sync.WaitGroup
	switch c.Mode {
	case "c_close_ii", "c_close_slow":
		rs.send(vfC06Up, conn, c.Up, -1, rUp)
		_ = conn.Close()
		if !vfC06RealWait(rs.recvDone[vfC06Up]) {
			rs.mu.Lock()
			out.incon = fmt.Sprintf("target did not see the end of the stream (watchdog); client wrote %d of %d, target has %d", rs.sent[vfC06Up], c.Up, rs.got[vfC06Up])
			rs.mu.Unlock()
		}
	case "t_close_ii":
		rs.send(vfC06Down, tgt, c.Down, -1, rDown)
		_ = tgt.Close() // FIN
		if !vfC06RealWait(rs.recvDone[vfC06Down]) {
			out.incon = "client did not see the end of the stream (watchdog)"
		}
	case "t_halfclose_ii":
		rs.send(vfC06Down, tgt, c.Down, -1, rDown)
		_ = tgt.CloseWrite() // half-close: FIN, still reading
		if !vfC06RealWait(rs.recvDone[vfC06Down]) {
			out.incon = "client did not see the end of the stream (watchdog)"
		}
	case "t_rst":
		wg.Add(1)
		go func() { defer wg.Done(); rs.send(vfC06Up, conn, c.Up, -1, rUp) }()
		rs.send(vfC06Down, tgt, c.Down, c.CutAt, rDown)
		_ = tgt.SetLinger(0)
		_ = tgt.Close() // RST
		if !vfC06RealWait(rs.recvDone[vfC06Down]) {
			out.incon = "client did not see the end of the stream after the target reset (watchdog)"
			_ = conn.Close()
		}
		wg.Wait()
	case "veto_rx", "veto_tx":
		wg.Add(2)
		go func() { defer wg.Done(); rs.send(vfC06Up, conn, c.Up, -1, rUp) }()
		go func() { defer wg.Done(); rs.send(vfC06Down, tgt, c.Down, -1, rDown) }()
		vetoCh := make(chan struct{})
		go func() { wg.Wait(); close(vetoCh) }()
		// wait for the veto, or for everything to have arrived without one (progress polling, no verdict)
		deadline := time.Now().Add(vfC06RealWatchdog)
	poll:
		for {
			select {
			case <-u.vetoed:
				out.vetoSeen = true
				break poll
			case <-time.After(5 * time.Millisecond):
			}
			rs.mu.Lock()
			all := rs.got[vfC06Up] >= int64(c.Up) && rs.got[vfC06Down] >= int64(c.Down)
			rs.mu.Unlock()
			if all {
				break poll
			}
			if time.Now().After(deadline) {
				out.incon = "neither a veto nor complete delivery (watchdog)"
				break poll
			}
		}
		if out.vetoSeen {
			// "later" = complete round trips of another user through the same server, not wall time
			for strike := 0; strike < 2; strike++ {
				if err := w.roundTrips(100); err != nil {
					out.incon = "witness relay failed: " + err.Error()
					break
				}
				pc, perr := cl.TCP(w.echo.Addr().String())
				if pc != nil {
					if perr == nil && c.FastOpen {
						// fast open: TCP does not talk to the server; make it
						_ = pc.SetDeadline(time.Now().Add(vfC06RealWatchdog))
						if _, e := pc.Write([]byte{1}); e != nil {
							perr = e
						} else if _, e := io.ReadFull(pc, make([]byte, 1)); e != nil {
							perr = e
						}
					}
					_ = pc.Close()
				}
				out.probes = append(out.probes, perr)
				if perr != nil {
					break
				}
			}
		}
		_ = conn.Close()
		_ = tgt.Close()
		<-vetoCh
	}
	_ = conn.Close()
	_ = tgt.Close()
	vfC06RealWait(rs.recvDone[vfC06Up])
	vfC06RealWait(rs.recvDone[vfC06Down])
	return out
}

func TestVerifC06Real(t *testing.T) {
	k := vfNewKit(t, "C06", "c06-real")
	defer k.Finish()
	w, closeAll, err := vfC06RealNewWorld(k)
	if err != nil {
		k.Inconclusive("real-socket world could not be set up: " + err.Error())
		if closeAll != nil {
			closeAll()
		}
		return
	}
	n := k.N(36, 270)
	cases := make([]*vfC06RealCase, 0, n)
	for i := 0; i < n; i++ {
		c := vfC06RealGen(k, i)
		if rc := k.ReplayCase(); rc != "" && rc != c.CaseID {
			continue
		}
		cases = append(cases, &c)
	}
	outs := make([]*vfC06RealOutcome, len(cases))
	work := make(chan int)
	var wg sync.WaitGroup
	for g := 0; g < 4; g++ {
		wg.Add(1)
		go func() {
			defer wg.Done()
			for i := range work {
				outs[i] = w.runCase(cases[i])
			}
		}()
	}
	for i := range cases {
		k.Eval()
		c := cases[i]
		k.Nontrivial(fmt.Sprintf("%s|%d|%d|%d|%d|%v|%d|%d", c.Mode, c.Up, c.Down, c.Chunk, c.ReadBuf, c.FastOpen, c.VetoAt, c.CutAt))
		if i < 3 {
			k.Sample(c)
		}
		work <- i
	}
	close(work)
	wg.Wait()
	// let the server finish tearing relays down: logical (round trips), then snapshot
	_ = w.roundTrips(50)
	evs := w.log.Snapshot()
	closeAll()
	vfC06RealJudge(k, outs, evs)
}

func vfC06RealJudge(k *vfKit, outs []*vfC06RealOutcome, evs []vfEvent) {
	byKey := map[string]*vfC06RealOutcome{}
	for _, o := range outs {
		if o == nil {
			continue
		}
		byKey["r"+strconv.Itoa(o.c.Idx)] = o
	}
	type acct struct {
		approved, fwd [2]int64
		flagged       [2]bool
		vetoIdx       int
	}
	ac := map[string]*acct{}
	get := func(id string) *acct {
		a := ac[id]
		if a == nil {
			a = &acct{vetoIdx: -1}
			ac[id] = a
		}
		return a
	}
	srvErr := map[string]string{} // user id -> first error text the server reported for that user's request
	for i, e := range evs {
		switch e.Kind {
		case "tl_traffic":
			id, _ := e.F["id"].(string)
			if byKey[id] == nil {
				continue // witness
			}
			k.Count("ev_tl_traffic", 1)
			a := get(id)
			tx, _ := e.F["tx"].(uint64)
			rx, _ := e.F["rx"].(uint64)
			if ok, _ := e.F["ok"].(bool); ok {
				a.approved[vfC06Up] += int64(tx)
				a.approved[vfC06Down] += int64(rx)
			} else if a.vetoIdx < 0 {
				a.vetoIdx = i
			}
		case "tgt_read", "cli_read":
			o := byKey[e.Tag]
			if o == nil {
				continue
			}
			d := vfC06Up
			if e.Kind == "cli_read" {
				d = vfC06Down
			}
			k.Count("ev_"+e.Kind, 1)
			a := get(e.Tag)
			a.fwd[d] += e.N
			if a.fwd[d] > a.approved[d] && !a.flagged[d] {
				a.flagged[d] = true
				k.Violation("copy:forwarded-exceeds-approved-"+[2]string{"tx", "rx"}[d], map[string]any{"case_id": o.c.CaseID, "case": o.c, "event": e, "tail": evs[max(0, i-8) : i+1]},
					"real sockets, %s: %d bytes arrived (%s) but the traffic logger had approved only %d at that instant", o.c.CaseID, a.fwd[d], e.Kind, a.approved[d])
			}
		case "el_tcperr":
			// keyed by user id (one per case): kernel port numbers are reused across cases
			id, _ := e.F["id"].(string)
			if _, seen := srvErr[id]; !seen {
				srvErr[id], _ = e.F["err"].(string)
			}
		}
	}
	names := [2]string{"client->target", "target->client"}
	for _, o := range outs {
		if o == nil {
			continue
		}
		c, rs := o.c, o.rs
		rep := func(extra map[string]any) map[string]any {
			m := map[string]any{"case_id": c.CaseID, "case": c, "addr": o.addr, "tcp_err": fmt.Sprint(o.tcpErr)}
			if rs != nil {
				rs.mu.Lock()
				m["sent"], m["arrived"], m["end"] = rs.sent, rs.got, fmt.Sprint(rs.endErr)
				rs.mu.Unlock()
			}
			for a, b := range extra {
				m[a] = b
			}
			return m
		}
		if o.incon != "" {
			k.Inconclusive(c.CaseID + " (" + c.Mode + "): " + o.incon)
		}
		if c.Mode == "dial_refused" {
			want, known := srvErr["r"+strconv.Itoa(c.Idx)]
			e, how := o.tcpErr, "Client.TCP"
			if o.tcpErr == nil {
				e, how = o.firstErr, "first Read (fast open)"
			}
			var de coreErrs.DialError
			switch {
			case !known:
				k.Inconclusive(c.CaseID + ": the server never reported the failed dial")
			case e == nil || !errors.As(e, &de):
				k.Violation("dial:error-not-carried", rep(map[string]any{"server_error": want}), "real sockets, %s: %s returned %T %v, want a DialError carrying %q", c.CaseID, how, e, e, want)
			case de.Message != want:
				k.Violation("dial:error-not-carried", rep(map[string]any{"server_error": want}), "real sockets, %s: DialError.Message=%q, server's outbound said %q", c.CaseID, de.Message, want)
			case o.firstN != 0:
				k.Violation("dial:relayed-after-failed-dial", rep(nil), "real sockets, %s: %d bytes read after a failed dial", c.CaseID, o.firstN)
			default:
				k.Count("ev_dial_error_carried", 1)
			}
			continue
		}
		if o.tcpErr != nil {
			k.Violation("client:unexpected-tcp-error", rep(nil), "real sockets, %s: Client.TCP(%s) failed: %v", c.CaseID, o.addr, o.tcpErr)
			continue
		}
		if rs == nil {
			continue
		}
		rs.mu.Lock()
		got, sent, attempted, bad, endErr := rs.got, rs.sent, rs.attempted, rs.bad, rs.endErr
		rs.mu.Unlock()
		for d := 0; d < 2; d++ {
			switch {
			case bad[d] != "":
				k.Violation("relay:not-a-prefix-"+[2]string{"up", "down"}[d], rep(map[string]any{"dir": names[d], "mismatch": bad[d]}),
					"real sockets, %s (%s) %s: received bytes are not a prefix of what was sent: %s", c.CaseID, c.Mode, names[d], bad[d])
			case got[d] > attempted[d]:
				k.Violation("relay:more-than-sent-"+[2]string{"up", "down"}[d], rep(nil), "real sockets, %s %s: %d bytes arrived, %d written", c.CaseID, names[d], got[d], attempted[d])
			default:
				k.Count("ev_prefix_ok_dirs", 1)
			}
		}
		// completeness, shape (ii) only, and only when the receiver really saw the end of the stream
		if o.incon == "" {
			d := -1
			switch c.Mode {
			case "c_close_ii", "c_close_slow":
				d = vfC06Up
			case "t_close_ii", "t_halfclose_ii":
				d = vfC06Down
			}
			if d >= 0 && endErr[d] != nil {
				want := int64(c.Up)
				if d == vfC06Down {
					want = int64(c.Down)
				}
				switch {
				case sent[d] < want:
					k.Violation("relay:write-failed-before-any-close", rep(nil), "real sockets, %s %s: sender could write only %d of %d", c.CaseID, names[d], sent[d], want)
				case got[d] < want:
					k.Violation("relay:tail-missing-shape-ii", rep(map[string]any{"dir": names[d], "receiver_end": fmt.Sprint(endErr[d])}),
						"real sockets, %s (%s) %s: sender wrote %d bytes and closed with the other direction idle; receiver got %d, then %v", c.CaseID, c.Mode, names[d], want, got[d], endErr[d])
				default:
					k.Count("ev_complete_shape_ii", 1)
					if c.Mode == "c_close_slow" {
						k.Count("ev_complete_slow_target", 1)
						if endErr[d] != io.EOF {
							k.Count("slow_target_complete_but_not_eof", 1)
						}
					}
				}
			}
		}
		// veto
		if strings.HasPrefix(c.Mode, "veto_") {
			o.user.mu.Lock()
			did := o.user.didVeto
			o.user.mu.Unlock()
			switch {
			case !did:
				k.Count("veto_not_reached", 1)
			case len(o.probes) == 0:
				// inconclusive already recorded (witness failure / watchdog)
			default:
				k.Count("ev_veto_fired", 1)
				last := o.probes[len(o.probes)-1]
				var ce coreErrs.ClosedError
				switch {
				case last == nil:
					k.Violation("veto:connection-still-usable", rep(map[string]any{"probes": len(o.probes), "veto_log_index": get(o.rs.key).vetoIdx}),
						"real sockets, %s: LogTraffic call %d of the %s direction returned false, but after 2x100 round trips of another user through the server the vetoed user's connection still opened a working relay", c.CaseID, c.VetoAt, c.Mode[5:])
				case !errors.As(last, &ce):
					if c.FastOpen {
						// with fast open the failure may surface on the first Write/Read, which is not wrapped
						k.Count("ev_veto_closed_conn", 1)
						k.Count("veto_probe_error_unwrapped_fast_open", 1)
					} else {
						k.Violation("veto:not-a-closed-error", rep(map[string]any{"err": fmt.Sprint(last)}), "real sockets, %s: after the veto Client.TCP failed with %T %v, want ClosedError", c.CaseID, last, last)
					}
				default:
					k.Count("ev_veto_closed_conn", 1)
				}
			}
		}
		k.Count("ev_relays_judged", 1)
	}
}
