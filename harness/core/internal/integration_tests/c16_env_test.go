//go:build verif

package integration_tests

// C16 — Reconnecting client: one live connection, reconnect on loss, Close is final.
//
// This file: the observation side. A real Hysteria server runs on simnet; the code under
// test is client.NewReconnectableClient with
//   - a configFunc recorder returning a FRESH *client.Config per evaluation (unique Auth
//     string per evaluation, so the server's authenticator log names the evaluation a
//     connection was built from),
//   - a single-use ConnFactory per evaluation (mirrors app/cmd/client.go singleUseConnFactory)
//     that creates a fresh simnet endpoint (new source address) wrapped in a census
//     PacketConn (vfC16Sock: counts Close calls, has a kill switch),
//   - a connectedFunc recorder.
// Everything is written to the world's totally ordered event log (same log the server-side
// fakes write to). c16_scripts_test.go holds the workloads and the reference model.
//
// PITFALL (found while building this): a goroutine blocked on a sync.Mutex is NOT durably
// blocked for testing/synctest, and reconnect() holds rc.m across the whole handshake. Two
// callers racing into a reconnect inside a bubble therefore freeze virtual time forever.
// All bubble workloads here are sequential (or a burst of one-shot calls that provably
// cannot reconnect); real goroutine concurrency runs outside a bubble (c16-concurrent),
// where verdicts come from join points and counts, never from the wall clock.

import (
	"crypto/tls"
	"errors"
	"fmt"
	"io"
	"net"
	"sync"
	"testing/synctest"
	"time"

	"github.com/apernet/quic-go"
	"github.com/apernet/quic-go/testutils/simnet"

	"github.com/apernet/hysteria/core/v2/client"
	coreErrs "github.com/apernet/hysteria/core/v2/errors"
	"github.com/apernet/hysteria/core/v2/server"
)

// ---------------------------------------------------------------- error classes

const (
	vfC16ClsOK      = "ok"
	vfC16ClsClosed  = "closed"      // errors.As(err, ClosedError)
	vfC16ClsSL      = "streamlimit" // quic.StreamLimitReachedError, not wrapped in ClosedError
	vfC16ClsCfgErr  = "cfgerr"      // the error our configFunc returned
	vfC16ClsFacErr  = "facerr"      // the error our ConnFactory returned
	vfC16ClsConnect = "connecterr"  // coreErrs.ConnectError
	vfC16ClsAuth    = "autherr"     // coreErrs.AuthError
	vfC16ClsOther   = "other"
)

type vfC16CfgErr struct{ Eval int }

func (e *vfC16CfgErr) Error() string {
	return fmt.Sprintf("vf: injected config error (evaluation %d)", e.Eval)
}

type vfC16FacErr struct{ Eval int }

func (e *vfC16FacErr) Error() string {
	return fmt.Sprintf("vf: injected factory error (evaluation %d)", e.Eval)
}

var vfC16ErrSockDead = errors.New("vf: injected socket failure")

func vfC16IsStreamLimit(err error) bool {
	var p *quic.StreamLimitReachedError
	var v quic.StreamLimitReachedError
	return errors.As(err, &p) || errors.As(err, &v)
}

// vfC16IsTimeout: the error chain contains a timeout (QUIC idle / handshake timeout). In the real-time part
// a timeout that nothing injected can only come from a stalled machine: never a verdict.
func vfC16IsTimeout(err error) bool {
	var ne net.Error
	return errors.As(err, &ne) && ne.Timeout()
}

func vfC16IsClosed(err error) bool {
	var v coreErrs.ClosedError
	var p *coreErrs.ClosedError
	return errors.As(err, &v) || errors.As(err, &p)
}

// vfC16Classify returns the class of a call's error and whether a ClosedError wraps a stream-limit error.
func vfC16Classify(err error) (string, bool) {
	if err == nil {
		return vfC16ClsOK, false
	}
	if vfC16IsClosed(err) {
		return vfC16ClsClosed, vfC16IsStreamLimit(err)
	}
	if vfC16IsStreamLimit(err) {
		return vfC16ClsSL, false
	}
	var ce *vfC16CfgErr
	if errors.As(err, &ce) {
		return vfC16ClsCfgErr, false
	}
	var fe *vfC16FacErr
	if errors.As(err, &fe) {
		return vfC16ClsFacErr, false
	}
	var ae coreErrs.AuthError
	if errors.As(err, &ae) {
		return vfC16ClsAuth, false
	}
	var ne coreErrs.ConnectError
	if errors.As(err, &ne) {
		return vfC16ClsConnect, false
	}
	return vfC16ClsOther, false
}

// ---------------------------------------------------------------- census socket

// vfC16Sock is the PacketConn handed to the client. Close calls made by the code under
// test are counted; Kill (harness) makes reads and writes fail without counting as a Close.
type vfC16Sock struct {
	env   *vfC16Env
	ID    int
	Eval  int
	Addr  *net.UDPAddr
	inner *simnet.SimConn

	mu         sync.Mutex
	closeCalls int
	killed     bool
	blackholed bool
}

func (s *vfC16Sock) isKilled() bool { s.mu.Lock(); defer s.mu.Unlock(); return s.killed }

func (s *vfC16Sock) CloseCalls() int { s.mu.Lock(); defer s.mu.Unlock(); return s.closeCalls }

func (s *vfC16Sock) ReadFrom(p []byte) (int, net.Addr, error) {
	n, a, err := s.inner.ReadFrom(p)
	if err != nil && s.isKilled() {
		return 0, nil, vfC16ErrSockDead
	}
	return n, a, err
}

func (s *vfC16Sock) WriteTo(p []byte, addr net.Addr) (int, error) {
	if s.isKilled() {
		return 0, vfC16ErrSockDead
	}
	return s.inner.WriteTo(p, addr)
}

func (s *vfC16Sock) Close() error {
	s.mu.Lock()
	s.closeCalls++
	n := s.closeCalls
	s.mu.Unlock()
	s.env.ev("sock_close", s.Addr.String(), map[string]any{"sock": s.ID, "nth": n})
	return s.inner.Close()
}

func (s *vfC16Sock) LocalAddr() net.Addr                { return s.inner.LocalAddr() }
func (s *vfC16Sock) SetDeadline(t time.Time) error      { return s.inner.SetDeadline(t) }
func (s *vfC16Sock) SetReadDeadline(t time.Time) error  { return s.inner.SetReadDeadline(t) }
func (s *vfC16Sock) SetWriteDeadline(t time.Time) error { return s.inner.SetWriteDeadline(t) }
func (s *vfC16Sock) SetReadBuffer(n int) error          { return nil }
func (s *vfC16Sock) SetWriteBuffer(n int) error         { return nil }

// kill makes the socket fail underneath the client (immediate read error).
func (s *vfC16Sock) kill() {
	s.mu.Lock()
	s.killed = true
	s.mu.Unlock()
	_ = s.inner.Close()
}

// ---------------------------------------------------------------- single-use factory

type vfC16Factory struct {
	env  *vfC16Env
	eval int
	fail bool
	mu   sync.Mutex
	used bool
}

func (f *vfC16Factory) New(net.Addr) (net.PacketConn, error) {
	f.mu.Lock()
	used := f.used
	f.used = true
	f.mu.Unlock()
	if used {
		f.env.ev("fac_reuse", "", map[string]any{"eval": f.eval})
		return nil, errors.New("vf: connection factory already used")
	}
	if f.fail {
		f.env.ev("fac_fail", "", map[string]any{"eval": f.eval})
		return nil, &vfC16FacErr{Eval: f.eval}
	}
	return f.env.newSock(f.eval), nil
}

// ---------------------------------------------------------------- environment

type vfC16Env struct {
	k        *vfKit
	w        *vfWorld
	caseID   string
	tag      string // unique per case: appears in credentials and requested addresses
	inBubble bool
	t0       int64
	caseDoc  any // JSON-able case for replay files

	mu            sync.Mutex
	socks         []*vfC16Sock
	evals         int
	evalSock      map[int]*vfC16Sock
	evalConnected map[int]bool
	lastCount     int
	connectedEvs  int
	curSock       *vfC16Sock // socket of the latest successful connect
	failKind      string     // what upcoming evaluations do: cfgerr | facerr | authbad
	failLeft      int
	failsUsed     map[string]int
	srvUp         bool
	maxStreams    int64
	callSeq       int
	held          []net.Conn
	viol          map[string]bool
	evalDelay     time.Duration           // sleep inside configFunc (schedule diversity, real-time part only)
	resetKey      *quic.StatelessResetKey // persistent key: a restarted server answers old connections with valid stateless resets
	useTraffic    bool                    // install a TrafficLogger (needed for the "server kicks the client" loss)
	kickID        string                  // auth id whose traffic the TrafficLogger refuses (server then closes that connection)

	rc client.Client
}

func (e *vfC16Env) ev(kind, tag string, f map[string]any) int {
	return e.w.Log.Ev(kind, tag, f)
}

// vfC16NewEnv starts the world (real server on simnet).
func vfC16NewEnv(k *vfKit, caseID string, caseDoc any, latency time.Duration, maxStreams int64, inBubble bool, useTraffic bool) (*vfC16Env, error) {
	e := &vfC16Env{k: k, caseID: caseID, caseDoc: caseDoc, inBubble: inBubble, maxStreams: maxStreams, useTraffic: useTraffic,
		tag:      fmt.Sprintf("c16s%d-%s", k.Seed, caseID),
		evalSock: map[int]*vfC16Sock{}, evalConnected: map[int]bool{}, viol: map[string]bool{}, failsUsed: map[string]int{}}
	var key quic.StatelessResetKey
	copy(key[:], []byte(e.tag+"/stateless-reset-key/0123456789abcdef0123456789abcdef"))
	e.resetKey = &key
	w, err := vfNewWorld(vfServerOpts{Latency: latency, Config: func(sc *server.Config) {
		sc.QUICConfig.MaxIncomingStreams = maxStreams
		sc.StatelessResetKey = e.resetKey
		if useTraffic {
			sc.TrafficLogger = &vfC16Traffic{e: e}
		}
	}})
	if err != nil {
		return nil, err
	}
	e.w = w
	e.srvUp = true
	e.t0 = time.Now().UnixNano()
	w.Out.OnTCP = func(addr string) (net.Conn, error) {
		pt := vfNewPipeTarget()
		go func() {
			_, _ = pt.Harness.Write([]byte("G:" + addr))
			_, _ = io.Copy(io.Discard, pt.Harness)
			_ = pt.Harness.Close()
		}()
		w.onClose(func() { _ = pt.Harness.Close() })
		return pt.serverSide, nil
	}
	return e, nil
}

// vfC16Traffic refuses the traffic of the connection whose auth id is kickID: the server then closes
// that connection with an application error (a CONNECTION_CLOSE frame reaches the client).
type vfC16Traffic struct{ e *vfC16Env }

func (t *vfC16Traffic) LogTraffic(id string, tx, rx uint64) bool {
	t.e.mu.Lock()
	ok := id != t.e.kickID
	t.e.mu.Unlock()
	if !ok {
		t.e.ev("tl_refuse", "", map[string]any{"id": id})
	}
	return ok
}
func (t *vfC16Traffic) LogOnlineState(id string, online bool)                         {}
func (t *vfC16Traffic) TraceStream(stream server.HyStream, stats *server.StreamStats) {}
func (t *vfC16Traffic) UntraceStream(stream server.HyStream)                          {}

// kickCur arms the server-side kick of the current connection: the next relayed byte / datagram of that
// connection makes the server close it (CloseWithError 0x107). Returns false if there is nothing to kick.
func (e *vfC16Env) kickCur() bool {
	e.mu.Lock()
	s := e.curSock
	e.mu.Unlock()
	if s == nil || s.CloseCalls() > 0 || !e.useTraffic {
		return false
	}
	e.mu.Lock()
	e.kickID = fmt.Sprintf("%s-e%d", e.tag, s.Eval)
	e.mu.Unlock()
	s.mu.Lock()
	s.blackholed = true // marks the socket as "loss injected" for killCur
	s.mu.Unlock()
	e.ev("kill", s.Addr.String(), map[string]any{"kind": "srv_kick", "sock": s.ID})
	e.k.Count("ev_kill_srv_kick", 1)
	return true
}

// stopServer closes the running server (silently for its clients: quic-go destroys the
// connections without sending CONNECTION_CLOSE).
func (e *vfC16Env) stopServer() {
	e.mu.Lock()
	up := e.srvUp
	e.srvUp = false
	e.mu.Unlock()
	if !up {
		return
	}
	e.ev("srv_stop", "", nil)
	_ = e.w.Server.Close()
	<-e.w.serveDone
}

// startServer starts a new server on the same address (new endpoint replaces the old node).
func (e *vfC16Env) startServer(sameResetKey bool) error {
	e.mu.Lock()
	up := e.srvUp
	e.mu.Unlock()
	if up {
		return nil
	}
	w := e.w
	ep := simnet.NewBlockingSimConn(w.ServerAddr, w.Router)
	cfg := &server.Config{
		TLSConfig:     server.TLSConfig{Certificates: []tls.Certificate{vfTLSCert()}},
		Conn:          ep,
		Outbound:      w.Out,
		Authenticator: w.Auth,
		EventLogger:   w.Events,
	}
	cfg.QUICConfig.DisablePathMTUDiscovery = true
	cfg.QUICConfig.MaxIncomingStreams = e.maxStreams
	if sameResetKey {
		// persistent key: packets of connections the old server instance knew are answered with a VALID stateless reset
		cfg.StatelessResetKey = e.resetKey
	} // else: NewServer draws a random key; old connections only die by idle timeout
	if e.useTraffic {
		cfg.TrafficLogger = &vfC16Traffic{e: e}
	}
	s, err := server.NewServer(cfg)
	if err != nil {
		return err
	}
	done := make(chan struct{})
	w.Server = s
	w.serveDone = done
	go func() { _ = s.Serve(); close(done) }()
	e.mu.Lock()
	e.srvUp = true
	e.mu.Unlock()
	e.ev("srv_start", "", map[string]any{"kind": map[bool]string{true: "same-reset-key", false: "fresh-reset-key"}[sameResetKey]})
	return nil
}

func (e *vfC16Env) newSock(eval int) *vfC16Sock {
	addr := e.w.ClientAddr()
	s := &vfC16Sock{env: e, Eval: eval, Addr: addr}
	e.mu.Lock()
	s.ID = len(e.socks) + 1
	e.socks = append(e.socks, s)
	prev := e.evalSock[eval]
	e.evalSock[eval] = s
	e.mu.Unlock()
	s.inner = simnet.NewBlockingSimConn(addr, e.w.Router)
	e.ev("fac_new", addr.String(), map[string]any{"eval": eval, "sock": s.ID})
	e.k.Count("ev_sock_open", 1)
	_ = prev
	return s
}

// arm makes the next n configuration evaluations fail in the given way.
func (e *vfC16Env) arm(kind string, n int) {
	e.mu.Lock()
	e.failKind, e.failLeft = kind, n
	if kind == "" {
		e.failLeft = 0
	}
	e.mu.Unlock()
	if kind != "" && n > 0 {
		e.ev("arm", "", map[string]any{"fail": kind, "n": n})
	}
}

func (e *vfC16Env) armed() (string, int) {
	e.mu.Lock()
	defer e.mu.Unlock()
	if e.failLeft <= 0 {
		return "", 0
	}
	return e.failKind, e.failLeft
}

// configFunc is handed to NewReconnectableClient. Fresh Config, fresh single-use factory,
// unique credential per evaluation.
func (e *vfC16Env) configFunc() (*client.Config, error) {
	e.mu.Lock()
	e.evals++
	i := e.evals
	mode := ""
	if e.failLeft > 0 {
		mode = e.failKind
		e.failLeft--
		e.failsUsed[mode]++
	}
	d := e.evalDelay
	e.mu.Unlock()
	e.ev("cfg_eval", "", map[string]any{"eval": i, "mode": mode})
	e.k.Count("ev_cfg_eval", 1)
	if d > 0 {
		time.Sleep(d)
	}
	if mode == "cfgerr" {
		return nil, &vfC16CfgErr{Eval: i}
	}
	auth := fmt.Sprintf("ok:%s-e%d", e.tag, i)
	if mode == "authbad" {
		auth = fmt.Sprintf("bad:%s-e%d", e.tag, i)
	}
	cfg := &client.Config{
		ConnFactory: &vfC16Factory{env: e, eval: i, fail: mode == "facerr"},
		ServerAddr:  e.w.ServerAddr,
		Auth:        auth,
		TLSConfig:   client.TLSConfig{InsecureSkipVerify: true, ServerName: "verif"},
	}
	cfg.QUICConfig.DisablePathMTUDiscovery = true
	if mode == "tlsbad" {
		// certificate verification fails: the handshake ends with a local CRYPTO_ERROR (a quic TransportError)
		cfg.TLSConfig = client.TLSConfig{InsecureSkipVerify: false, ServerName: "verif"}
	}
	return cfg, nil
}

// connected is the connectedFunc recorder (called by the code under test with rc.m held).
func (e *vfC16Env) connected(c client.Client, info *client.HandshakeInfo, count int) {
	e.mu.Lock()
	evn := e.evals
	s := e.evalSock[evn]
	prev := e.lastCount
	e.lastCount = count
	e.connectedEvs++
	dupe := e.evalConnected[evn]
	e.evalConnected[evn] = true
	if s != nil {
		e.curSock = s
	}
	e.mu.Unlock()
	sid := 0
	tag := ""
	if s != nil {
		sid, tag = s.ID, s.Addr.String()
	}
	e.ev("connected", tag, map[string]any{"count": count, "eval": evn, "sock": sid})
	e.k.Count("ev_connected", 1)
	if count != prev+1 {
		e.violation("client:connect-count-not-incremented-by-one", map[string]any{"reported": count, "previous": prev},
			"connectedFunc reported count %d after %d (must increase by exactly one per successful connect)", count, prev)
	}
	if dupe {
		e.violation("client:connected-twice-for-one-evaluation", map[string]any{"eval": evn},
			"connectedFunc called twice without a new configuration evaluation (evaluation %d)", evn)
	}
	if s == nil {
		e.violation("client:connection-not-from-fresh-config", map[string]any{"eval": evn},
			"connectedFunc(count=%d) but the factory of the latest configuration evaluation (%d) never produced a socket", count, evn)
	}
}

// violation records a violation once per (case, key), with the census trace as witness.
func (e *vfC16Env) violation(key string, extra map[string]any, format string, args ...any) {
	e.mu.Lock()
	seen := e.viol[key]
	e.viol[key] = true
	e.mu.Unlock()
	if seen {
		e.k.Count("violations_suppressed_same_case", 1)
		return
	}
	doc := map[string]any{"case_id": e.caseID, "case": e.caseDoc, "census_trace": e.trace(60), "open_sockets": e.openDesc()}
	for a, b := range extra {
		doc[a] = b
	}
	e.k.Violation(key, doc, "[%s] "+format, append([]any{e.caseID}, args...)...)
}

var vfC16TraceKinds = map[string]bool{
	"cfg_eval": true, "fac_new": true, "fac_fail": true, "fac_reuse": true, "sock_close": true, "connected": true,
	"call_start": true, "call_ret": true, "kill": true, "arm": true, "close_start": true, "close_ret": true,
	"quiescent": true, "srv_stop": true, "srv_start": true, "ctor_start": true, "ctor_ret": true,
}

// trace renders the last n client-side events as compact strings "t=+12.0ms kind k=v ...".
func (e *vfC16Env) trace(n int) []string {
	evs := e.w.Log.Snapshot()
	var out []string
	for _, x := range evs {
		if !vfC16TraceKinds[x.Kind] {
			continue
		}
		s := fmt.Sprintf("t=+%.1fms %s", float64(x.T-e.t0)/1e6, x.Kind)
		if x.Tag != "" {
			s += " " + x.Tag
		}
		for _, key := range []string{"n", "op", "g", "eval", "mode", "sock", "nth", "count", "kind", "class", "err", "fail", "open", "label"} {
			if v, ok := x.F[key]; ok {
				s += fmt.Sprintf(" %s=%v", key, v)
			}
		}
		out = append(out, s)
	}
	if len(out) > n {
		out = out[len(out)-n:]
	}
	return out
}

func (e *vfC16Env) openSocks() []*vfC16Sock {
	e.mu.Lock()
	ss := append([]*vfC16Sock(nil), e.socks...)
	e.mu.Unlock()
	var open []*vfC16Sock
	for _, s := range ss {
		if s.CloseCalls() == 0 {
			open = append(open, s)
		}
	}
	return open
}

func (e *vfC16Env) openDesc() []string {
	var out []string
	for _, s := range e.openSocks() {
		out = append(out, fmt.Sprintf("sock#%d(eval %d, %s)", s.ID, s.Eval, s.Addr))
	}
	return out
}

// settle brings the system to a quiescent point (caller guarantees no call is in flight).
func (e *vfC16Env) settle(d time.Duration) {
	if !e.inBubble {
		return
	}
	synctest.Wait()
	if d > 0 {
		time.Sleep(d)
		synctest.Wait()
	}
}

// census checks the socket invariant at a quiescent point. closed = Close() has returned.
func (e *vfC16Env) census(label string, closed bool) {
	e.settle(50 * time.Millisecond)
	open := e.openSocks()
	e.mu.Lock()
	cur := e.curSock
	conn := map[int]bool{}
	for i, c := range e.evalConnected {
		conn[i] = c
	}
	total := len(e.socks)
	e.mu.Unlock()
	ids := []int{}
	for _, s := range open {
		ids = append(ids, s.ID)
	}
	e.ev("quiescent", "", map[string]any{"label": label, "open": fmt.Sprint(ids), "sockets": total})
	e.k.Count("ev_quiescent_census", 1)
	if len(open) <= 1 {
		e.k.Count("ev_census_at_most_one_open", 1)
	}
	for _, s := range open {
		switch {
		case closed:
			e.violation("client:socket-open-after-close", map[string]any{"sock": s.ID, "at": label},
				"after Close() returned, factory socket #%d (%s, evaluation %d) has never been closed (open: %v of %d)", s.ID, s.Addr, s.Eval, ids, total)
		case !conn[s.Eval]:
			e.violation("client:failed-attempt-socket-left-open", map[string]any{"sock": s.ID, "at": label},
				"at quiescent point %q socket #%d (%s) of the failed connect attempt (evaluation %d) is still open (open: %v)", label, s.ID, s.Addr, s.Eval, ids)
		case s != cur:
			cid := 0
			if cur != nil {
				cid = cur.ID
			}
			e.violation("client:superseded-socket-not-closed", map[string]any{"sock": s.ID, "current": cid, "at": label},
				"at quiescent point %q %d factory sockets are open %v: socket #%d (%s, evaluation %d) was superseded by socket #%d and never closed",
				label, len(open), ids, s.ID, s.Addr, s.Eval, cid)
		}
	}
}

// ---------------------------------------------------------------- calls

type vfC16CallRes struct {
	N        int
	Kind     string
	Addr     string
	Class    string
	WrapsSL  bool
	Err      error
	Evals    int // configuration evaluations during the call (meaningful when calls are sequential)
	Connects int // connectedFunc calls during the call
	StartSeq int // log length at call start
	RetSeq   int // log index of call_ret
	Greeted  bool
}

// call performs one TCP()/UDP() call through the reconnectable client. kind: tcp | hold | udp.
// A successful tcp call reads the target's greeting and closes the connection; hold keeps it open.
func (e *vfC16Env) call(kind string, g int) vfC16CallRes {
	e.mu.Lock()
	e.callSeq++
	n := e.callSeq
	ev0, cn0 := e.evals, e.connectedEvs
	e.mu.Unlock()
	r := vfC16CallRes{N: n, Kind: kind, Addr: fmt.Sprintf("%s-n%d.verif:%d", e.tag, n, 2000+n%30000)}
	r.StartSeq = e.ev("call_start", "", map[string]any{"n": n, "op": kind, "g": g})
	var conn net.Conn
	var u client.HyUDPConn
	var err error
	if kind == "udp" {
		u, err = e.rc.UDP()
	} else {
		conn, err = e.rc.TCP(r.Addr)
	}
	e.mu.Lock()
	r.Evals, r.Connects = e.evals-ev0, e.connectedEvs-cn0
	e.mu.Unlock()
	r.Err = err
	r.Class, r.WrapsSL = vfC16Classify(err)
	es := ""
	if err != nil {
		es = err.Error()
		if len(es) > 160 {
			es = es[:160]
		}
	}
	r.RetSeq = e.ev("call_ret", "", map[string]any{"n": n, "op": kind, "g": g, "class": r.Class, "err": es})
	e.k.Count("ev_call", 1)
	e.k.Count("ev_call_"+r.Class, 1)
	if r.Class == vfC16ClsClosed {
		// how the loss surfaced (non-vacuity of the loss kinds)
		var sr *quic.StatelessResetError
		var ae *quic.ApplicationError
		var ie *quic.IdleTimeoutError
		switch {
		case errors.As(err, &sr):
			e.k.Count("ev_loss_by_stateless_reset", 1)
		case errors.As(err, &ae) && ae.Remote:
			e.k.Count("ev_loss_by_remote_application_close", 1)
		case errors.As(err, &ie):
			e.k.Count("ev_loss_by_idle_timeout", 1)
		}
	}
	if err != nil {
		return r
	}
	if kind == "udp" {
		_ = u.Send([]byte("U:"+r.Addr), r.Addr)
		_ = u.Close()
		return r
	}
	want := "G:" + r.Addr
	buf := make([]byte, len(want))
	_ = conn.SetReadDeadline(time.Now().Add(90 * time.Second))
	if _, rerr := io.ReadFull(conn, buf); rerr == nil && string(buf) == want {
		r.Greeted = true
		e.k.Count("ev_tcp_greeting_through_proxy", 1)
	}
	_ = conn.SetReadDeadline(time.Time{})
	if kind == "hold" {
		e.mu.Lock()
		e.held = append(e.held, conn)
		e.mu.Unlock()
	} else {
		_ = conn.Close()
	}
	return r
}

func (e *vfC16Env) heldCount() int { e.mu.Lock(); defer e.mu.Unlock(); return len(e.held) }

// release closes n held connections (all if n<=0).
func (e *vfC16Env) release(n int) {
	e.mu.Lock()
	h := e.held
	if n <= 0 || n > len(h) {
		n = len(h)
	}
	rel := h[:n]
	e.held = append([]net.Conn(nil), h[n:]...)
	e.mu.Unlock()
	for _, c := range rel {
		_ = c.Close()
	}
}

// viaSock returns the source address from which the server received the TCP request for addr ("" if never).
func (e *vfC16Env) viaSock(addr string) string {
	for _, x := range e.w.Log.Snapshot() {
		if x.Kind == "el_tcpreq" {
			if a, _ := x.F["addr"].(string); a == addr {
				return x.Tag
			}
		}
	}
	return ""
}

// doClose calls Close() on the reconnectable client.
func (e *vfC16Env) doClose() int {
	e.ev("close_start", "", nil)
	_ = e.rc.Close()
	seq := e.ev("close_ret", "", nil)
	e.k.Count("ev_close", 1)
	return seq
}

func (e *vfC16Env) reported(key string) bool { e.mu.Lock(); defer e.mu.Unlock(); return e.viol[key] }

// killCur applies a socket-level kill to the socket of the latest successful connect.
// kind: blackhole | sockerr. Returns the socket id (0 if there was nothing to kill).
func (e *vfC16Env) killCur(kind string) int {
	e.mu.Lock()
	s := e.curSock
	e.mu.Unlock()
	if s == nil || s.CloseCalls() > 0 {
		return 0
	}
	s.mu.Lock()
	already := s.killed || s.blackholed
	if kind == "blackhole" {
		s.blackholed = true
	}
	s.mu.Unlock()
	if already {
		return 0
	}
	e.ev("kill", s.Addr.String(), map[string]any{"kind": kind, "sock": s.ID})
	e.k.Count("ev_kill_"+kind, 1)
	if kind == "blackhole" {
		e.w.Router.Blackhole(s.Addr, true)
	} else {
		s.kill()
	}
	return s.ID
}

// judgeLog runs the order checks over the whole log at the end of a case.
func (e *vfC16Env) judgeLog() {
	evs := e.w.Log.Snapshot()
	closeRet := -1
	authOK := map[string]string{} // source address -> accepted id
	evalNew := map[int]int{}
	for i, x := range evs {
		switch x.Kind {
		case "auth_ok":
			id, _ := x.F["id"].(string)
			authOK[x.Tag] = id
		case "close_ret":
			if closeRet < 0 {
				closeRet = i
			}
		case "cfg_eval":
			if closeRet >= 0 {
				e.violation("client:reconnect-after-close", map[string]any{"event": x},
					"configFunc evaluated (evaluation %v) after Close() had returned", x.F["eval"])
			}
		case "fac_new":
			ev, _ := x.F["eval"].(int)
			evalNew[ev]++
			if closeRet >= 0 {
				e.violation("client:socket-opened-after-close", map[string]any{"event": x}, "factory socket %v created after Close() had returned", x.F["sock"])
			}
		case "fac_reuse":
			e.violation("client:connection-not-from-fresh-config", map[string]any{"event": x},
				"ConnFactory of configuration evaluation %v asked for a second socket (a connect attempt did not use a freshly evaluated configuration)", x.F["eval"])
		case "connected":
			ev, _ := x.F["eval"].(int)
			want := fmt.Sprintf("%s-e%d", e.tag, ev)
			if got, ok := authOK[x.Tag]; !ok || got != want {
				e.violation("client:connection-not-from-fresh-config", map[string]any{"event": x, "server_saw": got},
					"connect #%v reported for evaluation %d, but the server accepted credential %q from %s (want %q of that evaluation)", x.F["count"], ev, got, x.Tag, want)
			} else {
				e.k.Count("ev_connect_matches_fresh_config", 1)
			}
		}
	}
}

// cleanup closes everything the harness owns. Called AFTER judging: a socket leaked by the
// code under test is closed here so that the bubble can exit (the leak has been reported).
func (e *vfC16Env) cleanup() {
	e.release(0)
	if e.rc != nil {
		_ = e.rc.Close()
	}
	e.mu.Lock()
	ss := append([]*vfC16Sock(nil), e.socks...)
	e.mu.Unlock()
	for _, s := range ss {
		_ = s.inner.Close()
	}
	e.w.Close()
}
