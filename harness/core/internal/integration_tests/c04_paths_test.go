//go:build verif

package integration_tests

// C04, call sites: the framing property also has to hold where the frames are produced and consumed
// in the running system, not only in the codec (package protocol, see c04_*_test.go there):
//
//   server path  a peer may encode the 0x401 frame type and every length field with ANY varint
//                width; the real server (HTTP/3 stream dispatcher -> ProxyStreamHijacker ->
//                ReadTCPRequest) must hand exactly the requested address to the outbound, answer
//                with a well-formed TCPResponse, and relay the payload that follows the frame
//                unshifted — whether it arrives in the same write as the frame or later.
//   client path  real client with fast open: the response is parsed lazily on the first Read. A
//                Read that times out before the response exists must consume nothing of it: the
//                next Read returns the target's bytes, never bytes of the response frame.
//
// Real server / client on simnet in a synctest bubble (virtual time).

import (
	"bytes"
	"context"
	"fmt"
	"io"
	"net"
	"runtime"
	"runtime/debug"
	"testing"
	"testing/synctest"
	"time"

	"github.com/apernet/hysteria/core/v2/client"
)

func vfC04VarintW(b []byte, v uint64, width int) []byte {
	switch width {
	case 1:
		return append(b, byte(v))
	case 2:
		return append(b, byte(v>>8)|0x40, byte(v))
	case 4:
		return append(b, byte(v>>24)|0x80, byte(v>>16), byte(v>>8), byte(v))
	default:
		return append(b, byte(v>>56)|0xc0, byte(v>>48), byte(v>>40), byte(v>>32), byte(v>>24), byte(v>>16), byte(v>>8), byte(v))
	}
}

func vfC04MinWidth(v uint64) int {
	switch {
	case v <= 63:
		return 1
	case v <= 16383:
		return 2
	case v <= 1073741823:
		return 4
	}
	return 8
}

type vfC04SrvCase struct {
	CaseID    string `json:"case_id"`
	TypeW     int    `json:"frame_type_varint_width"`
	AddrLen   int    `json:"addr_len"`
	AddrW     int    `json:"addr_len_varint_width"`
	PadLen    int    `json:"padding_len"`
	PadW      int    `json:"padding_len_varint_width"`
	PayloadN  int    `json:"payload_len"`
	SameWrite bool   `json:"payload_in_same_write"`
}

func vfC04Payload(tag int, n int) []byte {
	b := make([]byte, n)
	for i := range b {
		b[i] = byte((i*131 + tag*17) ^ (i >> 8))
	}
	return b
}

func TestVerifC04ServerPath(t *testing.T) {
	k := vfNewKit(t, "C04", "server-path-e2e")
	defer k.Finish()
	defer debug.SetGCPercent(debug.SetGCPercent(-1))
	r := k.Rand("cases")
	var cases []vfC04SrvCase
	addrLens := []int{8, 62, 63, 64, 65, 300, 2047, 2048}
	for _, tw := range []int{2, 4, 8} {
		for _, al := range addrLens {
			for _, aw := range []int{1, 2, 4, 8} {
				if aw < vfC04MinWidth(uint64(al)) {
					continue
				}
				c := vfC04SrvCase{TypeW: tw, AddrLen: al, AddrW: aw}
				c.PadLen = []int{0, 1, 63, 64, 500, 4096}[r.Intn(6)]
				c.PadW = vfC04MinWidth(uint64(c.PadLen))
				if r.Intn(2) == 0 {
					c.PadW = []int{1, 2, 4, 8}[r.Intn(4)]
					if c.PadW < vfC04MinWidth(uint64(c.PadLen)) {
						c.PadW = 8
					}
				}
				c.PayloadN = []int{0, 1, 17, 4000}[r.Intn(4)]
				c.SameWrite = r.Intn(2) == 0
				cases = append(cases, c)
			}
		}
	}
	if k.Quick() {
		// a deterministic half of the grid in the quick tier, always keeping every frame-type width per address length
		var q []vfC04SrvCase
		for i, c := range cases {
			if i%2 == 0 || c.AddrW == vfC04MinWidth(uint64(c.AddrLen)) {
				q = append(q, c)
			}
		}
		cases = q
	}
	for i := range cases {
		cases[i].CaseID = fmt.Sprintf("srvpath-%d", i)
	}
	const perWorld = 16
	for start := 0; start < len(cases); start += perWorld {
		batch := cases[start:min(start+perWorld, len(cases))]
		if rc := k.ReplayCase(); rc != "" {
			keep := batch[:0:0]
			for _, c := range batch {
				if c.CaseID == rc {
					keep = append(keep, c)
				}
			}
			if len(keep) == 0 {
				continue
			}
			batch = keep
		}
		runtime.GC()
		synctest.Test(t, func(t *testing.T) {
			w, err := vfNewWorld(vfServerOpts{})
			if err != nil {
				t.Fatalf("harness: server: %v", err)
			}
			// echo target: whatever the server forwards comes back
			w.Out.OnTCP = func(addr string) (net.Conn, error) {
				pt := vfNewPipeTarget()
				go func() { _, _ = io.Copy(pt.Harness, pt.Harness) }()
				w.onClose(func() { _ = pt.Harness.Close() })
				return pt.serverSide, nil
			}
			raw, err := w.RawClient()
			if err != nil {
				t.Fatalf("harness: raw client: %v", err)
			}
			if resp := raw.AuthReq("ok:c04", "0"); resp.Status != 233 {
				t.Fatalf("harness: auth failed: %+v", resp)
			}
			for ci, c := range batch {
				k.Eval()
				addr := string(bytes.Repeat([]byte{'a' + byte(ci%26)}, c.AddrLen-6)) + fmt.Sprintf(":%05d", 10000+start+ci)
				frame := vfC04VarintW(nil, 0x401, c.TypeW)
				frame = vfC04VarintW(frame, uint64(len(addr)), c.AddrW)
				frame = append(frame, addr...)
				frame = vfC04VarintW(frame, uint64(c.PadLen), c.PadW)
				frame = append(frame, bytes.Repeat([]byte{'P'}, c.PadLen)...)
				payload := vfC04Payload(start+ci, c.PayloadN)
				st, err := raw.Conn.OpenStream()
				if err != nil {
					t.Fatalf("harness: open stream: %v", err)
				}
				if c.SameWrite {
					_, _ = st.Write(append(append([]byte(nil), frame...), payload...))
				} else {
					_, _ = st.Write(frame)
					time.Sleep(30 * time.Millisecond)
					_, _ = st.Write(payload)
				}
				// read response + echo until we have everything or 2 s virtual pass
				var got []byte
				_ = st.SetReadDeadline(time.Now().Add(2 * time.Second))
				buf := make([]byte, 8192)
				var status byte
				var msg string
				var rest []byte
				parsed := false
				for {
					n, rerr := st.Read(buf)
					got = append(got, buf[:n]...)
					if s, m, rst, ok := vfParseTCPResponse(got); ok {
						status, msg, rest, parsed = s, m, rst, true
						if len(rest) >= len(payload) {
							break
						}
					}
					if rerr != nil {
						break
					}
				}
				st.CancelRead(0)
				_ = st.Close()
				k.Count("ev_server_path_requests", 1)
				rep := map[string]any{"case_id": c.CaseID, "case": c}
				// what did the outbound see?
				sawAddr := false
				var sawOther string
				for _, e := range w.Log.Snapshot() {
					if e.Kind == "ob_tcp" {
						if a, _ := e.F["addr"].(string); a == addr {
							sawAddr = true
						} else if !vfC04Known(w, a) {
							sawOther = a
						}
					}
				}
				vfC04Remember(w, addr)
				if !sawAddr {
					k.Violation("server:request-address-not-delivered", rep, "frame type in a %d-byte varint, address length %d in a %d-byte varint: the outbound was never asked for the requested address (asked instead for %q); response parsed=%v status=%d msg=%q",
						c.TypeW, c.AddrLen, c.AddrW, sawOther, parsed, status, msg)
					continue
				}
				if !parsed || status != 0 {
					k.Violation("server:no-ok-response", rep, "request accepted by the outbound but the stream carried no well-formed OK TCPResponse (parsed=%v status=%d msg=%q, %d bytes read)", parsed, status, msg, len(got))
					continue
				}
				if !bytes.Equal(rest, payload) {
					k.Violation("server:payload-after-frame-altered", rep, "payload that followed the frame (same write: %v) came back as %d bytes, sent %d; first bytes got %x want %x",
						c.SameWrite, len(rest), len(payload), rest[:min(8, len(rest))], payload[:min(8, len(payload))])
					continue
				}
				k.Count("ev_server_path_ok", 1)
				k.Nontrivial(fmt.Sprintf("%d/%d/%d/%d/%d/%d/%v", c.TypeW, c.AddrLen, c.AddrW, c.PadLen, c.PadW, c.PayloadN, c.SameWrite))
				if start == 0 && ci < 2 {
					k.Sample(c)
				}
			}
			w.Close()
		})
	}
}

// the outbound log holds every address asked so far in this world; remember ours to tell strangers apart
var vfC04Seen = map[*vfWorld]map[string]bool{}

func vfC04Remember(w *vfWorld, a string) {
	if vfC04Seen[w] == nil {
		vfC04Seen[w] = map[string]bool{}
	}
	vfC04Seen[w][a] = true
}

func vfC04Known(w *vfWorld, a string) bool { return vfC04Seen[w][a] }

type vfC04CliCase struct {
	CaseID     string `json:"case_id"`
	Timeouts   int    `json:"read_timeouts_before_response"`
	WriteFirst bool   `json:"client_writes_before_reading"`
	GreetN     int    `json:"greeting_len"`
	DialFails  bool   `json:"dial_fails"`
	Drain      string `json:"drain"` // how the application reads: "read" = Read calls, "copy" = io.Copy(dst, conn), "copybuf" = io.CopyBuffer
}

// vfC04WriterOnly hides every optional interface of the destination, so that io.Copy can only pick the
// SOURCE's fast path (io.WriterTo) if the conn offers one.
type vfC04WriterOnly struct{ w io.Writer }

func (x vfC04WriterOnly) Write(b []byte) (int, error) { return x.w.Write(b) }

func TestVerifC04ClientFastOpen(t *testing.T) {
	k := vfNewKit(t, "C04", "client-fastopen-e2e")
	defer k.Finish()
	defer debug.SetGCPercent(debug.SetGCPercent(-1))
	var cases []vfC04CliCase
	for _, to := range []int{0, 1, 2} {
		for _, wf := range []bool{false, true} {
			for _, gn := range []int{1, 9, 700} {
				for _, df := range []bool{false, true} {
					cases = append(cases, vfC04CliCase{Timeouts: to, WriteFirst: wf, GreetN: gn, DialFails: df, Drain: "read"})
				}
			}
		}
	}
	// the application drains the conn the way relays do: io.Copy / io.CopyBuffer (which use the conn's
	// io.WriterTo when it has one); the target closes after its greeting so that the copy ends
	for _, drain := range []string{"copy", "copybuf"} {
		for _, to := range []int{0, 1} {
			for _, wf := range []bool{false, true} {
				for _, gn := range []int{1, 700} {
					for _, df := range []bool{false, true} {
						cases = append(cases, vfC04CliCase{Timeouts: to, WriteFirst: wf, GreetN: gn, DialFails: df, Drain: drain})
					}
				}
			}
		}
	}
	for i := range cases {
		cases[i].CaseID = fmt.Sprintf("clifo-%d", i)
	}
	for _, c := range cases {
		if rc := k.ReplayCase(); rc != "" && rc != c.CaseID {
			continue
		}
		runtime.GC()
		k.Eval()
		synctest.Test(t, func(t *testing.T) {
			w, err := vfNewWorld(vfServerOpts{})
			if err != nil {
				t.Fatalf("harness: server: %v", err)
			}
			gate := make(chan struct{})
			greeting := vfC04Payload(777, c.GreetN)
			w.Out.OnTCP = func(addr string) (net.Conn, error) {
				<-gate // the dial is pending until the harness lets it finish
				if c.DialFails {
					return nil, fmt.Errorf("vf: refused %s", addr)
				}
				pt := vfNewPipeTarget()
				go func() {
					if c.Drain != "read" && c.WriteFirst {
						// a target that goes away while the client's bytes are still on their way makes the server
						// end the relay at once (its write fails), possibly before the greeting was relayed: that
						// is the relay's teardown rule, not framing. Take the client's bytes first.
						_, _ = io.ReadFull(pt.Harness, make([]byte, len("client-speaks-first")))
					}
					_, _ = pt.Harness.Write(greeting)
					if c.Drain != "read" {
						_ = pt.Harness.Close()
					}
				}()
				w.onClose(func() { _ = pt.Harness.Close() })
				return pt.serverSide, nil
			}
			hc, _, _, err := w.HyClient("ok:c04cli", func(cc *client.Config) { cc.FastOpen = true })
			if err != nil {
				t.Fatalf("harness: client: %v", err)
			}
			conn, err := hc.TCP("target.verif:80")
			rep := map[string]any{"case_id": c.CaseID, "case": c}
			if err != nil {
				close(gate)
				k.Violation("client:fastopen-tcp-failed", rep, "fast-open TCP() failed before any response could exist: %v", err)
				w.Close()
				return
			}
			if c.WriteFirst {
				_, _ = conn.Write([]byte("client-speaks-first"))
			}
			buf := make([]byte, 4096)
			for i := 0; i < c.Timeouts; i++ {
				_ = conn.SetReadDeadline(time.Now().Add(40 * time.Millisecond))
				n, rerr := conn.Read(buf)
				k.Count("ev_client_read_timeouts", 1)
				if n != 0 || rerr == nil {
					k.Violation("client:read-before-response-returned-data", rep, "Read returned %d bytes (err %v) although the server has not answered yet", n, rerr)
				}
			}
			close(gate)
			_ = conn.SetReadDeadline(time.Now().Add(5 * time.Second))
			var got []byte
			var rerr error
			switch c.Drain {
			case "copy", "copybuf":
				var sink bytes.Buffer
				if c.Drain == "copy" {
					_, rerr = io.Copy(vfC04WriterOnly{&sink}, conn)
				} else {
					_, rerr = io.CopyBuffer(vfC04WriterOnly{&sink}, conn, make([]byte, 333))
				}
				got = sink.Bytes()
				k.Count("ev_client_fastopen_copies", 1)
			default:
				for len(got) < len(greeting) {
					var n int
					n, rerr = conn.Read(buf)
					got = append(got, buf[:n]...)
					if rerr != nil {
						break
					}
				}
			}
			k.Count("ev_client_fastopen_reads", 1)
			if c.DialFails {
				if len(got) != 0 {
					k.Violation("client:bytes-delivered-for-failed-dial", rep, "dial failed on the server, yet Read delivered %d bytes: %x", len(got), got[:min(16, len(got))])
				} else if rerr == nil || !bytes.Contains([]byte(rerr.Error()), []byte("vf: refused target.verif:80")) {
					k.Violation("client:dial-error-not-carried", rep, "dial failed with %q on the server but Read returned err=%v", "vf: refused target.verif:80", rerr)
				} else {
					k.Count("ev_client_dial_errors_carried", 1)
					k.Nontrivial(fmt.Sprintf("dialfail/%d/%v/%s", c.Timeouts, c.WriteFirst, c.Drain))
				}
			} else if !bytes.Equal(got, greeting) {
				k.Violation("client:response-frame-leaked-into-payload", rep, "after %d timed-out Read(s) the next Read returned %d bytes %x..., the target sent %d bytes %x... (err %v)",
					c.Timeouts, len(got), got[:min(16, len(got))], len(greeting), greeting[:min(16, len(greeting))], rerr)
			} else {
				k.Count("ev_client_fastopen_ok", 1)
				k.Nontrivial(fmt.Sprintf("%d/%v/%d/%s", c.Timeouts, c.WriteFirst, c.GreetN, c.Drain))
			}
			_ = conn.Close()
			_ = context.Background()
			w.Close()
		})
		if c.Timeouts == 1 && c.GreetN == 9 && !c.WriteFirst {
			k.Sample(c)
		}
	}
}

// TestVerifC04ClientAddrLen: the real Client.TCP (plain and fast open) is asked for target addresses of
// every length at the varint boundaries and at the protocol's limit (1..2048 bytes are all valid);
// the server's outbound must be asked for exactly that address and a payload written behind the
// request must come back unshifted. (Round-6 seed C04-r6-1: a client-side pre-check refusing 2048.)
func TestVerifC04ClientAddrLen(t *testing.T) {
	k := vfNewKit(t, "C04", "client-addrlen-e2e")
	defer k.Finish()
	defer debug.SetGCPercent(debug.SetGCPercent(-1))
	lens := []int{1, 2, 62, 63, 64, 65, 255, 2046, 2047, 2048}
	for _, fo := range []bool{false, true} {
		for _, al := range lens {
			caseID := fmt.Sprintf("cliaddr-%v-%d", fo, al)
			if rc := k.ReplayCase(); rc != "" && rc != caseID {
				continue
			}
			runtime.GC()
			k.Eval()
			synctest.Test(t, func(t *testing.T) {
				w, err := vfNewWorld(vfServerOpts{})
				if err != nil {
					t.Fatalf("harness: server: %v", err)
				}
				asked := make(chan string, 4)
				w.Out.OnTCP = func(addr string) (net.Conn, error) {
					asked <- addr
					pt := vfNewPipeTarget()
					go func() { _, _ = io.Copy(pt.Harness, pt.Harness) }()
					w.onClose(func() { _ = pt.Harness.Close() })
					return pt.serverSide, nil
				}
				hc, _, _, err := w.HyClient("ok:c04addr", func(cc *client.Config) { cc.FastOpen = fo })
				if err != nil {
					t.Fatalf("harness: client: %v", err)
				}
				addr := string(vfC04Payload(al, al))
				b := []byte(addr)
				for i := range b {
					b[i] = "abcdefghijklmnopqrstuvwxyz0123456789.-:"[int(b[i])%39]
				}
				addr = string(b)
				rep := map[string]any{"case_id": caseID, "addr_len": al, "fast_open": fo}
				k.Count("ev_client_addrlen_requests", 1)
				conn, err := hc.TCP(addr)
				if err != nil {
					k.Violation("client:valid-address-refused", rep, "Client.TCP(address of %d bytes, fast open %v) failed although 1..2048 bytes are valid and the outbound accepts it: %v", al, fo, err)
					w.Close()
					return
				}
				payload := vfC04Payload(al+7, 1500)
				_, _ = conn.Write(payload)
				_ = conn.SetReadDeadline(time.Now().Add(5 * time.Second))
				got := make([]byte, len(payload))
				_, rerr := io.ReadFull(conn, got)
				var seen string
				select {
				case seen = <-asked:
				default:
				}
				if seen != addr {
					k.Violation("client:address-not-identical", rep, "Client.TCP(address of %d bytes): the server's outbound was asked for %d bytes %q...", al, len(seen), seen[:min(24, len(seen))])
				} else if rerr != nil || !bytes.Equal(got, payload) {
					k.Violation("client:payload-shifted-behind-request", rep, "address of %d bytes: echoed payload differs (err %v): got %x..., sent %x...", al, rerr, got[:16], payload[:16])
				} else {
					k.Count("ev_client_addrlen_ok", 1)
					k.Nontrivial(fmt.Sprintf("cliaddr/%v/%d", fo, al))
				}
				_ = conn.Close()
				w.Close()
			})
		}
	}
}
