//go:build verif

package integration_tests

// C10 — Negotiated send rate never exceeds either side's declared limit.
//
// Everything runs on quic-go's simnet inside testing/synctest bubbles (virtual time).
// Three parts:
//   c10-negotiate   real server x real client.NewClient over the {0, 65536, 65537, 1e6, 1e9, 2^64-1}
//                   lattice on all four limits x ignore-client-bandwidth x congestion type/profile
//   c10-rawclient   real server driven by a raw h3 client with crafted Hysteria-CC-RX request headers
//   c10-fakeserver  real client.NewClient against a plain http3 server answering 233 with crafted headers
//
// Observation: the build-tag `verif` hook in core/internal/congestion reports every controller
// installed on a *quic.Conn; the global observer routes each report by the connection's
// (server address, client address) pair to the sink of the world that owns the server address.
// Reported rates: client.HandshakeInfo.Tx and EventLogger.Connect(tx).
// Oracle: vfC10RefServer / vfC10RefClient below (written from PROTOCOL.md + the property statement).

import (
	"context"
	"crypto/tls"
	"fmt"
	"math"
	"math/big"
	"net"
	"net/http"
	"os"
	"runtime"
	"runtime/debug"
	"strconv"
	"strings"
	"sync"
	"sync/atomic"
	"testing"
	"testing/synctest"
	"time"

	"github.com/apernet/quic-go"
	"github.com/apernet/quic-go/http3"
	"github.com/apernet/quic-go/testutils/simnet"

	"github.com/apernet/hysteria/core/v2/client"
	"github.com/apernet/hysteria/core/v2/internal/congestion"
	"github.com/apernet/hysteria/core/v2/server"
)

// ---------------------------------------------------------------- REFERENCE (the rule)

// vfC10Want is what a sender must run after the handshake: a fixed rate (Brutal, Bps) or,
// when Brutal is false, the congestion controller it was configured with.
type vfC10Want struct {
	Brutal bool
	Bps    uint64
}

// PROTOCOL.md "Congestion Control" + property statement. A side's fixed send rate is
// min(own configured send limit, peer's declared receive limit). Client declares 0 = unknown:
// the server MUST use congestion control. Server declares 0 = unlimited; "auto" = the client
// MUST use congestion control (and the server, ignoring the client's value, does too).
// Own limit 0: server = unlimited (the client's declaration alone fixes the rate);
// client = it does not know its own rate, no usable limit -> congestion control.
func vfC10RefServer(ownMaxTx uint64, ignoreClient bool, clientRx uint64) vfC10Want {
	if ignoreClient || clientRx == 0 {
		return vfC10Want{}
	}
	if ownMaxTx == 0 || clientRx < ownMaxTx {
		return vfC10Want{true, clientRx}
	}
	return vfC10Want{true, ownMaxTx}
}

func vfC10RefClient(ownMaxTx uint64, serverAuto bool, serverRx uint64) vfC10Want {
	if serverAuto || ownMaxTx == 0 {
		return vfC10Want{}
	}
	if serverRx == 0 || ownMaxTx < serverRx {
		return vfC10Want{true, ownMaxTx}
	}
	return vfC10Want{true, serverRx}
}

// vfC10Decl is one admissible reading of a Hysteria-CC-RX header value.
type vfC10Decl struct {
	Auto bool
	Rx   uint64
}

// vfC10ReadHeader lists the admissible readings of a Hysteria-CC-RX value ("-" = header absent).
// PROTOCOL.md: the value is [uint] (decimal), or "auto" in a response. Anything else (absent,
// empty, signed, non-numeric) is not a declaration and counts as 0. Two classes are left open
// by the documents and therefore admit two readings each: (a) a decimal number that does not
// fit 64 bits may be read as 0 or saturate at 2^64-1 (neither exceeds what was declared);
// (b) optional whitespace around the value may or may not be stripped by the HTTP layer.
func vfC10ReadHeader(h string, response bool) (reads []vfC10Decl, class string) {
	if h == "-" {
		return []vfC10Decl{{}}, "absent"
	}
	if t := strings.Trim(h, " \t"); t != h {
		in, _ := vfC10ReadHeader(t, response)
		return append(in, vfC10Decl{}), "ows"
	}
	if response && h == "auto" {
		return []vfC10Decl{{Auto: true}}, "auto"
	}
	digits := h != ""
	for _, c := range h {
		if c < '0' || c > '9' {
			digits = false
		}
	}
	if !digits {
		return []vfC10Decl{{}}, "garbage"
	}
	v, _ := new(big.Int).SetString(h, 10)
	if v.IsUint64() {
		return []vfC10Decl{{Rx: v.Uint64()}}, "number"
	}
	return []vfC10Decl{{}, {Rx: math.MaxUint64}}, "overflow"
}

// ---------------------------------------------------------------- configurations

// vfC10U64 is a uint64 that survives JSON (written as a decimal string).
type vfC10U64 uint64

func (u vfC10U64) MarshalJSON() ([]byte, error) {
	return []byte(`"` + strconv.FormatUint(uint64(u), 10) + `"`), nil
}

// vfC10CC: Type/Profile are the canonical MEANING of what is configured (what the hook must
// report); when Spelled is set, TypeAs/ProfileAs are the strings actually written into the
// Config (other letter case, or empty = documented default), otherwise Type/Profile are written.
type vfC10CC struct {
	Type      string `json:"type"`
	Profile   string `json:"profile,omitempty"`
	Spelled   bool   `json:"spelled,omitempty"`
	TypeAs    string `json:"type_as"`
	ProfileAs string `json:"profile_as"`
}

func (c vfC10CC) String() string {
	m := strings.TrimSuffix(c.Type+"/"+c.Profile, "/")
	if c.Spelled {
		return fmt.Sprintf("%s written type=%q profile=%q", m, c.TypeAs, c.ProfileAs)
	}
	return m
}

// cfg returns the strings to put into CongestionConfig.Type / .BBRProfile.
func (c vfC10CC) cfg() (string, string) {
	if c.Spelled {
		return c.TypeAs, c.ProfileAs
	}
	return c.Type, c.Profile
}

func vfC10Mixed(s string) string {
	b := []byte(strings.ToLower(s))
	for i := 1; i < len(b); i += 2 {
		if b[i] >= 'a' && b[i] <= 'z' {
			b[i] -= 32
		}
	}
	return string(b)
}

func vfC10Cap(s string) string {
	if s == "" {
		return s
	}
	return strings.ToUpper(s[:1]) + s[1:]
}

// vfC10Respell keeps the meaning of c and picks how it is written in the Config: v mod 5 =
// 0 lower case, 1 Capitalised, 2 UPPER, 3 mIxEd, 4 "left to the default where the default says
// the same" (type "" = bbr, profile "" = standard; otherwise UPPER type with a Capitalised profile).
// The clean tree's validation accepts every one of these (case-insensitive, empty = default);
// should a tree reject a spelling at NewServer/NewClient the case is skipped and counted.
func vfC10Respell(c vfC10CC, v int) vfC10CC {
	c.Spelled, c.TypeAs, c.ProfileAs = false, "", ""
	switch v % 5 {
	case 1:
		c.Spelled, c.TypeAs, c.ProfileAs = true, vfC10Cap(c.Type), vfC10Cap(c.Profile)
	case 2:
		c.Spelled, c.TypeAs, c.ProfileAs = true, strings.ToUpper(c.Type), strings.ToUpper(c.Profile)
	case 3:
		c.Spelled, c.TypeAs, c.ProfileAs = true, vfC10Mixed(c.Type), vfC10Mixed(c.Profile)
	case 4:
		c.Spelled, c.TypeAs, c.ProfileAs = true, strings.ToUpper(c.Type), vfC10Cap(c.Profile)
		if c.Type == "bbr" {
			c.TypeAs = ""
		}
		if c.Profile == "standard" {
			c.ProfileAs = ""
		}
	}
	return c
}

// vfC10SpellCounter hands out spelling variants in a fixed rotation (deterministic, no PRNG).
type vfC10SpellCounter struct{ n int }

func (sc *vfC10SpellCounter) next(c vfC10CC) vfC10CC {
	sc.n++
	return vfC10Respell(c, sc.n*3+sc.n/5) // stride 3 with a drift, so that neighbours and periods of 4/6 do not lock in
}

func (sc *vfC10SpellCounter) world(c *vfC10Case) {
	c.Srv.CC = sc.next(c.Srv.CC)
	for i := range c.Clients {
		c.Clients[i].CC = sc.next(c.Clients[i].CC)
	}
}

// vfC10ConfigRejected: the error of NewServer/NewClient says the congestion spelling is not accepted.
func vfC10ConfigRejected(err string) bool {
	return strings.Contains(err, "invalid config: CongestionConfig")
}

var vfC10CCs = []vfC10CC{{Type: "bbr", Profile: "standard"}, {Type: "bbr", Profile: "conservative"}, {Type: "bbr", Profile: "aggressive"}, {Type: "reno"}}

var vfC10Vals = []uint64{0, 65536, 65537, 1_000_000, 1_000_000_000, math.MaxUint64}

type vfC10Srv struct {
	MaxTx  vfC10U64 `json:"max_tx"`
	MaxRx  vfC10U64 `json:"max_rx"`
	Ignore bool     `json:"ignore_client_bandwidth"`
	CC     vfC10CC  `json:"cc"`
}

type vfC10Cli struct {
	MaxTx vfC10U64 `json:"max_tx"`
	MaxRx vfC10U64 `json:"max_rx"`
	CC    vfC10CC  `json:"cc"`
}

// vfC10Case: one server configuration, real clients and raw header values run against it.
type vfC10Case struct {
	CaseID  string     `json:"case_id"`
	Srv     vfC10Srv   `json:"server"`
	Clients []vfC10Cli `json:"clients,omitempty"`
	Raw     []string   `json:"raw_cc_rx,omitempty"`
	Note    string     `json:"note,omitempty"` // context when the case is one step of a history
}

// ---------------------------------------------------------------- observer (the source hook)

type vfC10Inst struct {
	Kind    string   `json:"kind"` // brutal | bbr | reno | none
	Bps     vfC10U64 `json:"bps"`
	Profile string   `json:"profile,omitempty"`
}

func (i vfC10Inst) Rate() uint64 {
	if i.Kind == "brutal" {
		return uint64(i.Bps)
	}
	return 0
}

// vfC10Sink collects the installations of one world, keyed by the client's address. Every report
// also goes into the world's ordered event log (kind cc_install), so that it can be placed before or
// after the connection's auth_ok.
type vfC10Sink struct {
	mu     sync.Mutex
	log    *vfNetLog
	server map[string][]vfC10Inst // installed on the server's end of the connection from <client addr>
	client map[string][]vfC10Inst // installed on the client's end
}

var vfC10Reg struct {
	once     sync.Once
	mu       sync.Mutex
	sinks    map[string]*vfC10Sink // by server address
	unrouted atomic.Int64
	nextIP   atomic.Int32
}

func vfC10Observe(conn *quic.Conn, kind string, bps uint64, profile string) {
	l, r := conn.LocalAddr().String(), conn.RemoteAddr().String()
	inst := vfC10Inst{Kind: kind, Bps: vfC10U64(bps), Profile: profile}
	vfC10Reg.mu.Lock()
	sl, sr := vfC10Reg.sinks[l], vfC10Reg.sinks[r]
	vfC10Reg.mu.Unlock()
	switch {
	case sl != nil: // local end is a registered server address: server-side installation
		sl.mu.Lock()
		sl.server[r] = append(sl.server[r], inst)
		lg := sl.log
		sl.mu.Unlock()
		if lg != nil {
			lg.Ev("cc_install", r, map[string]any{"side": "server", "inst": inst})
		}
	case sr != nil:
		sr.mu.Lock()
		sr.client[l] = append(sr.client[l], inst)
		lg := sr.log
		sr.mu.Unlock()
		if lg != nil {
			lg.Ev("cc_install", l, map[string]any{"side": "client", "inst": inst})
		}
	default:
		vfC10Reg.unrouted.Add(1)
	}
}

// vfC10NewSink allocates a process-unique server IP and registers a sink for it.
func vfC10NewSink() (*vfC10Sink, string, func()) {
	vfC10Reg.once.Do(func() {
		vfC10Reg.sinks = map[string]*vfC10Sink{}
		congestion.SetVerifObserver(vfC10Observe)
	})
	n := int(vfC10Reg.nextIP.Add(1))
	ip := fmt.Sprintf("10.0.%d.%d", 16+(n>>8)%224, n&255)
	key := (&net.UDPAddr{IP: net.ParseIP(ip), Port: 443}).String()
	s := &vfC10Sink{server: map[string][]vfC10Inst{}, client: map[string][]vfC10Inst{}}
	vfC10Reg.mu.Lock()
	vfC10Reg.sinks[key] = s
	vfC10Reg.mu.Unlock()
	return s, ip, func() {
		vfC10Reg.mu.Lock()
		delete(vfC10Reg.sinks, key)
		vfC10Reg.mu.Unlock()
	}
}

func (s *vfC10Sink) setLog(l *vfNetLog) {
	s.mu.Lock()
	s.log = l
	s.mu.Unlock()
}

// effective returns the controller that drives this end after all reports: a "reno" report
// installs nothing (quic-go's controller or whatever was installed before stays in place), so the
// effective controller is the last report that really installed one (brutal / bbr); if there is
// none it is quic-go's default, Reno ("reno" if that was reported, "none" if nothing was).
func (s *vfC10Sink) effective(m map[string][]vfC10Inst, tag string) (vfC10Inst, int) {
	s.mu.Lock()
	defer s.mu.Unlock()
	l := m[tag]
	for i := len(l) - 1; i >= 0; i-- {
		if l[i].Kind == "brutal" || l[i].Kind == "bbr" {
			return l[i], len(l)
		}
	}
	if len(l) == 0 {
		return vfC10Inst{Kind: "none"}, 0
	}
	return vfC10Inst{Kind: "reno"}, len(l)
}

// vfC10Match: does the installed controller realise want under configured controller cc?
// "none" (no installation reported) leaves quic-go's default in place, which is Reno.
func vfC10Match(inst vfC10Inst, want vfC10Want, cc vfC10CC) bool {
	if want.Brutal {
		return inst.Kind == "brutal" && uint64(inst.Bps) == want.Bps
	}
	if cc.Type == "reno" {
		return inst.Kind == "reno" || inst.Kind == "none"
	}
	return inst.Kind == "bbr" && inst.Profile == cc.Profile
}

func vfC10WantStr(w vfC10Want, cc vfC10CC) string {
	if w.Brutal {
		return fmt.Sprintf("brutal@%d", w.Bps)
	}
	return strings.TrimSuffix(cc.Type+"/"+cc.Profile, "/")
}

func vfC10InstStr(i vfC10Inst) string {
	switch i.Kind {
	case "brutal":
		return fmt.Sprintf("brutal@%d", uint64(i.Bps))
	case "bbr":
		return "bbr/" + i.Profile
	}
	return i.Kind
}

// vfC10ProcStart is read outside any bubble, i.e. on the real clock.
var vfC10ProcStart = time.Now()

// vfC10ForwardClock moves the bubble's virtual clock (which starts at 2000-01-01) past the real
// start of the process. quic-go's monotime is "time since process start"; on a clock that is
// behind it, every monotime value is negative, a state that cannot occur in production and that
// Brutal's per-second slot index (timestamp % 5) does not survive. Must be the first thing a
// bubble does (nothing else is running, so the sleep costs nothing).
func vfC10ForwardClock() {
	d := time.Duration(vfC10ProcStart.UnixNano()-time.Now().UnixNano()) + 2*time.Hour
	if d > 0 {
		time.Sleep(d)
	}
}

// vfC10Stagger spreads the connection attempts of one world over virtual time (a handshake takes
// 20 ms, so about ten overlap): handshakes completing at the very same instant overflow quic-go's
// accept queue (32) before the accept loop runs, and the server then refuses connections.
func vfC10Stagger(i int) time.Duration { return time.Duration(i) * 2 * time.Millisecond }

// ---------------------------------------------------------------- world run (real server)

type vfC10ConnObs struct {
	Tag     string
	Err     string
	InfoTx  uint64
	InfoUDP bool
	Status  int
	RespRx  string // raw client: Hysteria-CC-RX of the response ("-" if absent)
}

func vfC10RunWorld(t *testing.T, k *vfKit, c vfC10Case) {
	synctest.Test(t, func(t *testing.T) {
		vfC10ForwardClock()
		sink, ip, unreg := vfC10NewSink()
		defer unreg()
		w, err := vfNewWorld(vfServerOpts{
			ServerIP: ip,
			Config: func(sc *server.Config) {
				sc.BandwidthConfig.MaxTx = uint64(c.Srv.MaxTx)
				sc.BandwidthConfig.MaxRx = uint64(c.Srv.MaxRx)
				sc.IgnoreClientBandwidth = c.Srv.Ignore
				sc.CongestionConfig.Type, sc.CongestionConfig.BBRProfile = c.Srv.CC.cfg()
			},
		})
		if err != nil && vfC10ConfigRejected(err.Error()) {
			k.Count("spelling_rejected_server", 1)
			return
		}
		if err != nil {
			t.Fatalf("harness: server %+v: %v", c.Srv, err)
		}
		sink.setLog(w.Log)
		hy := make([]vfC10ConnObs, len(c.Clients))
		raw := make([]vfC10ConnObs, len(c.Raw))
		var wg sync.WaitGroup
		for i := range c.Clients {
			wg.Add(1)
			go func() {
				defer wg.Done()
				time.Sleep(vfC10Stagger(i))
				cl := c.Clients[i]
				_, info, addr, err := w.HyClient(fmt.Sprintf("ok:%s-h%d", c.CaseID, i), func(cc *client.Config) {
					cc.BandwidthConfig.MaxTx = uint64(cl.MaxTx)
					cc.BandwidthConfig.MaxRx = uint64(cl.MaxRx)
					cc.CongestionConfig.Type, cc.CongestionConfig.BBRProfile = cl.CC.cfg()
				})
				o := vfC10ConnObs{Tag: addr.String()}
				if err != nil {
					o.Err = err.Error()
				} else {
					o.InfoTx, o.InfoUDP, o.Status = info.Tx, info.UDPEnabled, 233
				}
				hy[i] = o
			}()
		}
		for i := range c.Raw {
			wg.Add(1)
			go func() {
				defer wg.Done()
				time.Sleep(vfC10Stagger(len(c.Clients) + i))
				rc, err := w.RawClient()
				if err != nil {
					raw[i] = vfC10ConnObs{Err: "dial: " + err.Error()}
					return
				}
				resp := rc.AuthReq(fmt.Sprintf("ok:%s-r%d", c.CaseID, i), c.Raw[i])
				o := vfC10ConnObs{Tag: rc.Tag, Status: resp.Status, RespRx: "-"}
				if resp.Err != nil {
					o.Err = resp.Err.Error()
				} else if v, ok := resp.Header["Hysteria-Cc-Rx"]; ok && len(v) > 0 {
					o.RespRx = v[0]
				}
				raw[i] = o
			}()
		}
		wg.Wait()
		synctest.Wait()
		evs := w.Log.Snapshot()
		w.Close()
		synctest.Wait()
		vfC10JudgeWorld(k, c, sink, hy, raw, evs)
	})
}

func vfC10JudgeWorld(k *vfKit, c vfC10Case, sink *vfC10Sink, hy, raw []vfC10ConnObs, evs []vfEvent) {
	connectTx := map[string][]uint64{}
	authTx := map[string]uint64{}
	authed := map[string]bool{}
	preAuth := map[string][]vfC10Inst{} // server-end installations reported before the connection's auth_ok
	for _, e := range evs {
		switch e.Kind {
		case "cc_install":
			if side, _ := e.F["side"].(string); side == "server" && !authed[e.Tag] {
				inst, _ := e.F["inst"].(vfC10Inst)
				preAuth[e.Tag] = append(preAuth[e.Tag], inst)
			}
		case "el_connect":
			tx, _ := e.F["tx"].(uint64)
			connectTx[e.Tag] = append(connectTx[e.Tag], tx)
		case "auth_ok":
			tx, _ := e.F["tx"].(uint64)
			authTx[e.Tag] = tx
			authed[e.Tag] = true
		}
	}
	rep := func(conn string, extra map[string]any) map[string]any {
		m := map[string]any{"case_id": c.CaseID, "case": c, "conn": conn}
		for a, b := range extra {
			m[a] = b
		}
		return m
	}
	// server end of one accepted connection
	serverSide := func(conn, tag string, reads []vfC10Decl, declared string) {
		inst, n := sink.effective(sink.server, tag)
		k.Count("ev_server_install_reports", int64(n))
		var wants []string
		ok := false
		for _, d := range reads {
			want := vfC10RefServer(uint64(c.Srv.MaxTx), c.Srv.Ignore, d.Rx)
			wants = append(wants, vfC10WantStr(want, c.Srv.CC))
			ok = ok || vfC10Match(inst, want, c.Srv.CC)
		}
		pre := preAuth[tag]
		k.Count("server_preauth_install_reports", int64(len(pre)))
		if ok {
			k.Count("ev_server_"+inst.Kind+"_as_ruled", 1)
			if inst.Kind != "brutal" && c.Srv.CC.Spelled {
				k.Count("server_configured_cc_from_respelled_config", 1)
			}
		} else if len(pre) > 0 {
			// something was installed before authentication and the negotiation did not end in the ruled controller
			k.Violation("server:preauth-controller-not-replaced-by-negotiation", rep(conn, map[string]any{"declared_cc_rx": declared, "effective": inst, "want": wants, "preauth_installs": pre}),
				"server{maxTx=%d ignore=%v cc=%v} with client Hysteria-CC-RX %q: %d controller installation(s) reported before auth_ok (%s ...) and after the handshake the connection is driven by %s, rule demands %s",
				uint64(c.Srv.MaxTx), c.Srv.Ignore, c.Srv.CC, declared, len(pre), vfC10InstStr(pre[0]), vfC10InstStr(inst), strings.Join(wants, " or "))
		} else {
			k.Violation("server:installed-rate-differs-from-rule", rep(conn, map[string]any{"declared_cc_rx": declared, "installed": inst, "want": wants}),
				"server{maxTx=%d ignore=%v cc=%v} with client Hysteria-CC-RX %q installed %s, rule demands %s",
				uint64(c.Srv.MaxTx), c.Srv.Ignore, c.Srv.CC, declared, vfC10InstStr(inst), strings.Join(wants, " or "))
		}
		txs := connectTx[tag]
		if len(txs) == 0 {
			k.Inconclusive(fmt.Sprintf("%s %s: no Connect event for accepted connection %s", c.CaseID, conn, tag))
			return
		}
		for _, tx := range txs {
			k.Count("ev_connect_events", 1)
			if tx != inst.Rate() {
				k.Violation("server:connect-tx-differs-from-installed", rep(conn, map[string]any{"declared_cc_rx": declared, "installed": inst, "connect_tx": vfC10U64(tx)}),
					"server{maxTx=%d ignore=%v} client Hysteria-CC-RX %q: EventLogger.Connect(tx=%d) but the controller installed is %s",
					uint64(c.Srv.MaxTx), c.Srv.Ignore, declared, tx, vfC10InstStr(inst))
			}
		}
		// by design the authenticator sees the client's raw declaration (not demanded to equal the enforced rate)
		if atx, ok := authTx[tag]; ok && atx != inst.Rate() {
			k.Count("auth_tx_differs_from_enforced", 1)
		}
	}
	for i, o := range hy {
		conn := fmt.Sprintf("h%d", i)
		cl := c.Clients[i]
		k.Eval()
		if vfC10ConfigRejected(o.Err) {
			k.Count("spelling_rejected_client", 1)
			continue
		}
		if o.Err != "" {
			k.Inconclusive(fmt.Sprintf("%s %s: handshake failed: %s", c.CaseID, conn, o.Err))
			continue
		}
		k.Count("ev_handshakes_hy", 1)
		k.Nontrivial(fmt.Sprintf("hy|%+v|%+v", c.Srv, cl))
		serverSide(conn, o.Tag, []vfC10Decl{{Rx: uint64(cl.MaxRx)}}, strconv.FormatUint(uint64(cl.MaxRx), 10))
		// client end
		inst, n := sink.effective(sink.client, o.Tag)
		k.Count("ev_client_install_reports", int64(n))
		want := vfC10RefClient(uint64(cl.MaxTx), c.Srv.Ignore, uint64(c.Srv.MaxRx))
		if vfC10Match(inst, want, cl.CC) {
			k.Count("ev_client_"+inst.Kind+"_as_ruled", 1)
			if inst.Kind != "brutal" && cl.CC.Spelled {
				k.Count("client_configured_cc_from_respelled_config", 1)
			}
		} else {
			k.Violation("client:installed-rate-differs-from-rule", rep(conn, map[string]any{"installed": inst, "want": vfC10WantStr(want, cl.CC)}),
				"client{maxTx=%d cc=%v} against server{maxRx=%d ignore=%v} installed %s, rule demands %s",
				uint64(cl.MaxTx), cl.CC, uint64(c.Srv.MaxRx), c.Srv.Ignore, vfC10InstStr(inst), vfC10WantStr(want, cl.CC))
		}
		k.Count("ev_handshake_info", 1)
		if o.InfoTx != inst.Rate() {
			k.Violation("client:handshakeinfo-tx-differs-from-installed", rep(conn, map[string]any{"installed": inst, "info_tx": vfC10U64(o.InfoTx)}),
				"client{maxTx=%d} against server{maxRx=%d ignore=%v}: HandshakeInfo.Tx=%d but the controller installed is %s",
				uint64(cl.MaxTx), uint64(c.Srv.MaxRx), c.Srv.Ignore, o.InfoTx, vfC10InstStr(inst))
		}
	}
	for i, o := range raw {
		conn := fmt.Sprintf("r%d", i)
		hdr := c.Raw[i]
		k.Eval()
		if o.Err != "" {
			// the HTTP/3 client library refused to send this value: nothing reached the server
			k.Count("raw_unsendable", 1)
			continue
		}
		if o.Status != 233 {
			k.Inconclusive(fmt.Sprintf("%s %s: raw auth with CC-RX %q answered %d", c.CaseID, conn, hdr, o.Status))
			continue
		}
		reads, class := vfC10ReadHeader(hdr, false)
		k.Count("ev_handshakes_raw", 1)
		k.Count("ev_raw_"+class, 1)
		k.Nontrivial(fmt.Sprintf("raw|%+v|%q", c.Srv, hdr))
		serverSide(conn, o.Tag, reads, hdr)
		if (class == "overflow" || class == "ows") && !c.Srv.Ignore {
			// which of the two admissible readings this tree takes (observation, not judged)
			if inst, _ := sink.effective(sink.server, o.Tag); inst.Kind == "brutal" {
				k.Count("reading_"+class+"_as_number", 1)
			} else {
				k.Count("reading_"+class+"_as_unknown", 1)
			}
		}
		// the server's own declaration towards the client
		wantHdr := strconv.FormatUint(uint64(c.Srv.MaxRx), 10)
		if c.Srv.Ignore {
			wantHdr = "auto"
		}
		if o.RespRx != wantHdr {
			k.Violation("server:declared-rx-header-wrong", rep(conn, map[string]any{"got": o.RespRx, "want": wantHdr}),
				"server{maxRx=%d ignore=%v} answered Hysteria-CC-RX %q, want %q", uint64(c.Srv.MaxRx), c.Srv.Ignore, o.RespRx, wantHdr)
		} else {
			k.Count("ev_server_declaration_ok", 1)
		}
	}
}

// ---------------------------------------------------------------- fake h3 server (client side driven alone)

type vfC10FakeConn struct {
	Cli    vfC10Cli `json:"client"`
	RxHdr  string   `json:"resp_cc_rx"` // "-" = absent
	UDPHdr string   `json:"resp_udp"`   // "-" = absent
}

type vfC10FakeCase struct {
	CaseID string          `json:"case_id"`
	Conns  []vfC10FakeConn `json:"conns"`
}

type vfC10FakeSrv struct {
	mu     sync.Mutex
	resp   map[string]vfC10FakeConn // credential -> crafted answer
	seenRx map[string]string        // credential -> Hysteria-CC-RX the client sent
}

func (f *vfC10FakeSrv) ServeHTTP(w http.ResponseWriter, r *http.Request) {
	cred := r.Header.Get("Hysteria-Auth")
	f.mu.Lock()
	fc, ok := f.resp[cred]
	if v, have := r.Header["Hysteria-Cc-Rx"]; have && len(v) > 0 {
		f.seenRx[cred] = v[0]
	} else {
		f.seenRx[cred] = "-"
	}
	f.mu.Unlock()
	if !ok || r.Method != http.MethodPost || r.Host != "hysteria" || r.URL.Path != "/auth" {
		w.WriteHeader(http.StatusNotFound)
		return
	}
	if fc.RxHdr != "-" {
		w.Header()["Hysteria-CC-RX"] = []string{fc.RxHdr}
	}
	if fc.UDPHdr != "-" {
		w.Header()["Hysteria-UDP"] = []string{fc.UDPHdr}
	}
	w.Header().Set("Hysteria-Padding", "verif")
	w.WriteHeader(233)
}

func vfC10RunFake(t *testing.T, k *vfKit, c vfC10FakeCase) {
	synctest.Test(t, func(t *testing.T) {
		vfC10ForwardClock()
		sink, ip, unreg := vfC10NewSink()
		defer unreg()
		// a vfWorld without a Hysteria server: only Router/ServerAddr/closers are used (by HyClient)
		w := &vfWorld{Router: vfNewRouter(5 * time.Millisecond), Log: &vfNetLog{}}
		w.ServerAddr = &net.UDPAddr{IP: net.ParseIP(ip), Port: 443}
		sink.setLog(w.Log)
		ep := simnet.NewBlockingSimConn(w.ServerAddr, w.Router)
		tr := &quic.Transport{Conn: ep}
		ln, err := tr.Listen(http3.ConfigureTLSConfig(&tls.Config{Certificates: []tls.Certificate{vfTLSCert()}}),
			&quic.Config{EnableDatagrams: true, MaxIdleTimeout: 30 * time.Second, DisablePathMTUDiscovery: true, DisablePathManager: true})
		if err != nil {
			t.Fatalf("harness: fake server listen: %v", err)
		}
		fs := &vfC10FakeSrv{resp: map[string]vfC10FakeConn{}, seenRx: map[string]string{}}
		for i, fc := range c.Conns {
			fs.resp[fmt.Sprintf("%s-f%d", c.CaseID, i)] = fc
		}
		var srvWG sync.WaitGroup
		srvWG.Add(1)
		go func() {
			defer srvWG.Done()
			for {
				conn, err := ln.Accept(context.Background())
				if err != nil {
					return
				}
				srvWG.Add(1)
				go func() {
					defer srvWG.Done()
					h3s := http3.Server{Handler: fs}
					_ = h3s.ServeQUICConn(conn)
					_ = conn.CloseWithError(0, "")
				}()
			}
		}()
		obs := make([]vfC10ConnObs, len(c.Conns))
		var wg sync.WaitGroup
		for i := range c.Conns {
			wg.Add(1)
			go func() {
				defer wg.Done()
				time.Sleep(vfC10Stagger(i))
				fc := c.Conns[i]
				_, info, addr, err := w.HyClient(fmt.Sprintf("%s-f%d", c.CaseID, i), func(cc *client.Config) {
					cc.BandwidthConfig.MaxTx = uint64(fc.Cli.MaxTx)
					cc.BandwidthConfig.MaxRx = uint64(fc.Cli.MaxRx)
					cc.CongestionConfig.Type, cc.CongestionConfig.BBRProfile = fc.Cli.CC.cfg()
				})
				o := vfC10ConnObs{Tag: addr.String()}
				if err != nil {
					o.Err = err.Error()
				} else {
					o.InfoTx, o.InfoUDP, o.Status = info.Tx, info.UDPEnabled, 233
				}
				obs[i] = o
			}()
		}
		wg.Wait()
		synctest.Wait()
		// teardown: clients, then the fake server
		w.mu.Lock()
		cl := w.closers
		w.closers = nil
		w.mu.Unlock()
		for i := len(cl) - 1; i >= 0; i-- {
			cl[i]()
		}
		_ = ln.Close()
		_ = tr.Close()
		_ = ep.Close()
		srvWG.Wait()
		synctest.Wait()

		for i, o := range obs {
			fc := c.Conns[i]
			conn := fmt.Sprintf("f%d", i)
			cred := fmt.Sprintf("%s-f%d", c.CaseID, i)
			k.Eval()
			if vfC10ConfigRejected(o.Err) {
				k.Count("spelling_rejected_client", 1)
				continue
			}
			if o.Err != "" {
				k.Inconclusive(fmt.Sprintf("%s %s: handshake with fake server failed (resp CC-RX %q): %s", c.CaseID, conn, fc.RxHdr, o.Err))
				continue
			}
			reads, class := vfC10ReadHeader(fc.RxHdr, true)
			k.Count("ev_handshakes_fake", 1)
			k.Count("ev_fake_"+class, 1)
			k.Nontrivial(fmt.Sprintf("fake|%+v", fc))
			rep := func(extra map[string]any) map[string]any {
				m := map[string]any{"case_id": c.CaseID, "conn": conn, "conn_spec": fc}
				for a, b := range extra {
					m[a] = b
				}
				return m
			}
			inst, n := sink.effective(sink.client, o.Tag)
			k.Count("ev_client_install_reports", int64(n))
			var wants []string
			ok := false
			for _, d := range reads {
				want := vfC10RefClient(uint64(fc.Cli.MaxTx), d.Auto, d.Rx)
				wants = append(wants, vfC10WantStr(want, fc.Cli.CC))
				ok = ok || vfC10Match(inst, want, fc.Cli.CC)
			}
			if ok {
				k.Count("ev_client_"+inst.Kind+"_as_ruled", 1)
				if inst.Kind != "brutal" && fc.Cli.CC.Spelled {
					k.Count("client_configured_cc_from_respelled_config", 1)
				}
			} else {
				k.Violation("client:installed-rate-differs-from-rule", rep(map[string]any{"installed": inst, "want": wants}),
					"client{maxTx=%d cc=%v} answered Hysteria-CC-RX %q installed %s, rule demands %s",
					uint64(fc.Cli.MaxTx), fc.Cli.CC, fc.RxHdr, vfC10InstStr(inst), strings.Join(wants, " or "))
			}
			k.Count("ev_handshake_info", 1)
			if o.InfoTx != inst.Rate() {
				k.Violation("client:handshakeinfo-tx-differs-from-installed", rep(map[string]any{"installed": inst, "info_tx": vfC10U64(o.InfoTx)}),
					"client{maxTx=%d} answered Hysteria-CC-RX %q: HandshakeInfo.Tx=%d but the controller installed is %s",
					uint64(fc.Cli.MaxTx), fc.RxHdr, o.InfoTx, vfC10InstStr(inst))
			}
			// the client's own declaration towards the server is its configured receive limit
			fs.mu.Lock()
			sent := fs.seenRx[cred]
			fs.mu.Unlock()
			if wantHdr := strconv.FormatUint(uint64(fc.Cli.MaxRx), 10); sent != wantHdr {
				k.Violation("client:declared-rx-header-wrong", rep(map[string]any{"got": sent, "want": wantHdr}),
					"client{maxRx=%d} sent Hysteria-CC-RX %q, want %q", uint64(fc.Cli.MaxRx), sent, wantHdr)
			} else {
				k.Count("ev_client_declaration_ok", 1)
			}
			if o.InfoUDP {
				k.Count("info_udp_true", 1)
			}
		}
	})
}

// ---------------------------------------------------------------- histories (one *client.Config, several handshakes)

// vfC10History: ONE *client.Config value is used for 2..4 successive handshakes against servers
// (all at the same address) whose settings differ from step to step. Mode "newclient" calls
// client.NewClient(cfg) again for every step; mode "reconnect" uses client.NewReconnectableClient
// whose configFunc always returns that same cfg, and the server is replaced between steps.
// Every handshake is judged by the same reference rule with the limits the client was ORIGINALLY
// configured with: what an earlier server answered must not leak into a later negotiation.
type vfC10History struct {
	CaseID string     `json:"case_id"`
	Mode   string     `json:"mode"`
	Cli    vfC10Cli   `json:"client"`
	Kinds  string     `json:"kinds"` // per step: A = server answers auto, N = numeric limit, U = unlimited (0)
	Steps  []vfC10Srv `json:"steps"`
}

func vfC10RunHistory(t *testing.T, k *vfKit, h vfC10History) {
	synctest.Test(t, func(t *testing.T) {
		vfC10ForwardClock()
		sink, ip, unreg := vfC10NewSink()
		defer unreg()
		srvAddr := &net.UDPAddr{IP: net.ParseIP(ip), Port: 443}
		var (
			mu       sync.Mutex
			cur      *vfWorld
			nconn    int
			lastAddr *net.UDPAddr
			infos    []*client.HandshakeInfo // reconnect mode: one per (re)connect, in order
		)
		cfg := &client.Config{
			ConnFactory: &vfFactory{new: func() (net.PacketConn, error) {
				mu.Lock()
				defer mu.Unlock()
				nconn++
				lastAddr = &net.UDPAddr{IP: net.IPv4(10, 2, byte(nconn>>8), byte(nconn)), Port: 20000 + nconn}
				return simnet.NewBlockingSimConn(lastAddr, cur.Router), nil
			}},
			ServerAddr: srvAddr,
			Auth:       "ok:" + h.CaseID,
			TLSConfig:  client.TLSConfig{InsecureSkipVerify: true, ServerName: "verif"},
		}
		cfg.QUICConfig.DisablePathMTUDiscovery = true
		cfg.BandwidthConfig.MaxTx = uint64(h.Cli.MaxTx)
		cfg.BandwidthConfig.MaxRx = uint64(h.Cli.MaxRx)
		cfg.CongestionConfig.Type, cfg.CongestionConfig.BBRProfile = h.Cli.CC.cfg()
		origBW := cfg.BandwidthConfig

		var rc client.Client
		defer func() {
			if rc != nil {
				_ = rc.Close()
			}
		}()
		for si, srv := range h.Steps {
			step := vfC10Case{CaseID: h.CaseID, Srv: srv, Clients: []vfC10Cli{h.Cli},
				Note: fmt.Sprintf("step %d of history %s (%s), same *client.Config for every step", si+1, h.Kinds, h.Mode)}
			w, err := vfNewWorld(vfServerOpts{
				ServerIP: ip,
				Config: func(sc *server.Config) {
					sc.BandwidthConfig.MaxTx = uint64(srv.MaxTx)
					sc.BandwidthConfig.MaxRx = uint64(srv.MaxRx)
					sc.IgnoreClientBandwidth = srv.Ignore
					sc.CongestionConfig.Type, sc.CongestionConfig.BBRProfile = srv.CC.cfg()
				},
			})
			if err != nil && vfC10ConfigRejected(err.Error()) {
				k.Count("spelling_rejected_server", 1)
				return
			}
			if err != nil {
				t.Fatalf("harness: history server %+v: %v", srv, err)
			}
			sink.setLog(w.Log)
			mu.Lock()
			cur = w
			before := nconn
			mu.Unlock()
			o := vfC10ConnObs{}
			var info *client.HandshakeInfo
			if h.Mode == "newclient" {
				cl, inf, err := client.NewClient(cfg)
				if err != nil {
					o.Err = err.Error()
				} else {
					info = inf
					w.onClose(func() { _ = cl.Close() })
				}
			} else if si == 0 {
				rc, err = client.NewReconnectableClient(func() (*client.Config, error) { return cfg, nil },
					func(_ client.Client, inf *client.HandshakeInfo, _ int) {
						mu.Lock()
						infos = append(infos, inf)
						mu.Unlock()
					}, false)
				if err != nil {
					o.Err = err.Error()
					rc = nil
				}
			} else if rc != nil {
				// the previous server is gone: calls fail until the client notices and reconnects
				for try := 0; try < 8; try++ {
					if conn, err := rc.TCP(fmt.Sprintf("hist-%d.verif:80", si)); err == nil {
						_ = conn.Close()
					}
					mu.Lock()
					done := len(infos) > si
					mu.Unlock()
					if done {
						break
					}
					time.Sleep(time.Second)
				}
			}
			if h.Mode == "reconnect" && o.Err == "" {
				mu.Lock()
				if len(infos) > si {
					info = infos[si]
				} else {
					o.Err = "reconnectable client did not (re)connect"
				}
				mu.Unlock()
			}
			mu.Lock()
			if nconn == before+1 && lastAddr != nil {
				o.Tag = lastAddr.String()
			} else if o.Err == "" {
				o.Err = fmt.Sprintf("expected exactly one connection attempt in this step, saw %d", nconn-before)
			}
			mu.Unlock()
			if info != nil && o.Err == "" {
				o.InfoTx, o.InfoUDP, o.Status = info.Tx, info.UDPEnabled, 233
			}
			synctest.Wait()
			evs := w.Log.Snapshot()
			w.Close()
			synctest.Wait()
			if o.Err == "" {
				k.Count("ev_history_steps", 1)
				if si > 0 {
					k.Count("ev_history_steps_after_"+h.Kinds[si-1:si], 1)
				}
			}
			vfC10JudgeWorld(k, step, sink, []vfC10ConnObs{o}, nil, evs)
			// the caller's configuration still says what the caller wrote into it
			if cfg.BandwidthConfig != origBW {
				k.Violation("client:handshake-rewrites-callers-bandwidth-config", map[string]any{"case_id": h.CaseID, "history": h, "step": si + 1,
					"before": fmt.Sprintf("%+v", origBW), "after": fmt.Sprintf("%+v", cfg.BandwidthConfig)},
					"history %s (%s): after step %d (server{maxRx=%d ignore=%v}) the caller's client.Config.BandwidthConfig changed from %+v to %+v",
					h.Kinds, h.Mode, si+1, uint64(srv.MaxRx), srv.Ignore, origBW, cfg.BandwidthConfig)
				origBW = cfg.BandwidthConfig // report each rewrite once; later steps are still judged by the ORIGINAL limits (h.Cli)
			} else {
				k.Count("ev_config_unchanged", 1)
			}
		}
	})
}

// vfC10GenHistories: every order of {auto, numeric, unlimited} servers of length 2 (both modes) and 3,
// plus PRNG sequences of length 4 (quick); all sequences of length 2..4 x both modes x 3 client
// configurations (thorough).
func vfC10GenHistories(k *vfKit) []vfC10History {
	var out []vfC10History
	V := vfC10Vals
	nums := []uint64{65536, 1_000_000, 1_000_000_000, math.MaxUint64, 65537}
	clis := []vfC10Cli{
		{MaxTx: 1_000_000, MaxRx: 1_000_000_000, CC: vfC10CCs[0]},
		{MaxTx: vfC10U64(math.MaxUint64), MaxRx: 0, CC: vfC10CCs[3]},
		{MaxTx: 65537, MaxRx: 65536, CC: vfC10CCs[2]},
		{MaxTx: 1_000_000_000, MaxRx: vfC10U64(math.MaxUint64), CC: vfC10CCs[1]},
		{MaxTx: 0, MaxRx: 1_000_000, CC: vfC10CCs[0]},
	}
	n := 0
	sp := vfC10SpellCounter{n: 3}
	mk := func(kinds string, mode string, cli vfC10Cli) {
		h := vfC10History{CaseID: fmt.Sprintf("c10h-%s-%s-%d", kinds, mode, n), Mode: mode, Cli: cli, Kinds: kinds}
		h.Cli.CC = sp.next(h.Cli.CC)
		for i, kd := range kinds {
			srv := vfC10Srv{MaxTx: vfC10U64(V[(n+i)%len(V)]), CC: sp.next(vfC10CCs[(n+2*i)%4])}
			switch kd {
			case 'A':
				srv.Ignore, srv.MaxRx = true, vfC10U64(V[(n+i+1)%len(V)])
			case 'N':
				srv.MaxRx = vfC10U64(nums[(n+i)%len(nums)])
			}
			h.Steps = append(h.Steps, srv)
		}
		out = append(out, h)
		n++
	}
	var seqs func(prefix string, l int, f func(string))
	seqs = func(prefix string, l int, f func(string)) {
		if l == 0 {
			f(prefix)
			return
		}
		for _, c := range "ANU" {
			seqs(prefix+string(c), l-1, f)
		}
	}
	modes := []string{"newclient", "reconnect"}
	if k.Quick() {
		seqs("", 2, func(s string) {
			mk(s, modes[0], clis[n%4])
			mk(s, modes[1], clis[n%4])
		})
		seqs("", 3, func(s string) { mk(s, modes[n%2], clis[n%len(clis)]) })
		r := k.Rand("history")
		for i := 0; i < 12; i++ {
			s := ""
			for j := 0; j < 4; j++ {
				s += string("ANU"[r.Intn(3)])
			}
			mk(s, modes[i%2], clis[r.Intn(len(clis))])
		}
		return out
	}
	for l := 2; l <= 4; l++ {
		seqs("", l, func(s string) {
			for _, m := range modes {
				for ci := 0; ci < 3; ci++ {
					mk(s, m, clis[(n+ci)%len(clis)])
				}
			}
		})
	}
	return out
}

// ---------------------------------------------------------------- case generation

func vfC10Pick[T any](r interface{ Intn(int) int }, s []T) T { return s[r.Intn(len(s))] }

// vfC10GenNegotiate: corners always; quick adds a PRNG sample, thorough the full cross product.
func vfC10GenNegotiate(k *vfKit) []vfC10Case {
	cases := vfC10GenNegotiateCanonical(k)
	var sp vfC10SpellCounter
	for i := range cases {
		sp.world(&cases[i])
	}
	return cases
}

func vfC10GenNegotiateCanonical(k *vfKit) []vfC10Case {
	var cases []vfC10Case
	V, nv := vfC10Vals, len(vfC10Vals)
	// corners: every (server MaxTx, client MaxRx) pair and every (client MaxTx, server MaxRx) pair,
	// ignore on/off; the two limits of one side are never equal (index shifts 2 and 3), controllers rotate.
	for ig := 0; ig < 2; ig++ {
		for i := 0; i < nv; i++ {
			c := vfC10Case{CaseID: fmt.Sprintf("c10n-corner-%d-%d", ig, i),
				Srv: vfC10Srv{MaxTx: vfC10U64(V[i]), MaxRx: vfC10U64(V[(i+2)%nv]), Ignore: ig == 1, CC: vfC10CCs[(i+ig)%4]}}
			for j := 0; j < nv; j++ {
				c.Clients = append(c.Clients, vfC10Cli{MaxTx: vfC10U64(V[(j+3)%nv]), MaxRx: vfC10U64(V[j]), CC: vfC10CCs[(i+j+1)%4]})
			}
			cases = append(cases, c)
		}
	}
	// reno corners: "use the configured controller" with type reno installs nothing, so whatever was
	// put on the connection earlier stays; server reno x MaxTx {0, floor, 10^6} x ignore, clients
	// declaring 0 and non-zero receive limits.
	for ig := 0; ig < 2; ig++ {
		for mi, m := range []uint64{0, 65536, 1_000_000} {
			c := vfC10Case{CaseID: fmt.Sprintf("c10n-reno-%d-%d", ig, mi),
				Srv: vfC10Srv{MaxTx: vfC10U64(m), MaxRx: vfC10U64(V[(mi+3)%nv]), Ignore: ig == 1, CC: vfC10CCs[3]}}
			for j, rx := range []uint64{0, 0, 65536, 1_000_000_000, 0, math.MaxUint64} {
				c.Clients = append(c.Clients, vfC10Cli{MaxTx: vfC10U64(V[(j+mi)%nv]), MaxRx: vfC10U64(rx), CC: vfC10CCs[(j+mi)%4]})
			}
			cases = append(cases, c)
		}
	}
	if k.Quick() {
		r := k.Rand("negotiate")
		for wi := 0; wi < 30; wi++ {
			c := vfC10Case{CaseID: fmt.Sprintf("c10n-rand-%d", wi),
				Srv: vfC10Srv{MaxTx: vfC10U64(vfC10Pick(r, V)), MaxRx: vfC10U64(vfC10Pick(r, V)), Ignore: r.Intn(3) == 0, CC: vfC10Pick(r, vfC10CCs)}}
			for j := 0; j < 5; j++ {
				c.Clients = append(c.Clients, vfC10Cli{MaxTx: vfC10U64(vfC10Pick(r, V)), MaxRx: vfC10U64(vfC10Pick(r, V)), CC: vfC10Pick(r, vfC10CCs)})
			}
			cases = append(cases, c)
		}
		return cases
	}
	for a, stx := range V {
		for b, srx := range V {
			for ig := 0; ig < 2; ig++ {
				for s, scc := range vfC10CCs {
					c := vfC10Case{CaseID: fmt.Sprintf("c10n-full-%d-%d-%d-%d", a, b, ig, s),
						Srv: vfC10Srv{MaxTx: vfC10U64(stx), MaxRx: vfC10U64(srx), Ignore: ig == 1, CC: scc}}
					for _, ctx := range V {
						for _, crx := range V {
							for _, ccc := range vfC10CCs {
								c.Clients = append(c.Clients, vfC10Cli{MaxTx: vfC10U64(ctx), MaxRx: vfC10U64(crx), CC: ccc})
							}
						}
					}
					cases = append(cases, c)
				}
			}
		}
	}
	return cases
}

// request header values a hostile/odd client may send ("-" = absent)
var vfC10RawHdrs = []string{
	"-", "", "0", "1", "65535", "65536", "65537", "1000000", "1000000000", "18446744073709551615", "00065537",
	"18446744073709551616", "99999999999999999999999999999999", "36893488147419103232",
	"-1", "-65536", "+65536", "abc", "auto", "1e6", "0x10000", "1_000_000", "1.5", "65536.0", "NaN", "6 5536", "65536,70000", "65536;q=1",
	" 65536", "65536 ", "\t1000000",
}

func vfC10GenRaw(k *vfKit) []vfC10Case {
	cases := vfC10GenRawCanonical(k)
	sp := vfC10SpellCounter{n: 2}
	for i := range cases {
		sp.world(&cases[i])
	}
	return cases
}

func vfC10GenRawCanonical(k *vfKit) []vfC10Case {
	var cases []vfC10Case
	n := 0
	for i, stx := range vfC10Vals {
		for ig := 0; ig < 2; ig++ {
			for s, scc := range vfC10CCs {
				if k.Quick() && s != (i+ig)%4 && !(s == 3 && (stx == 0 || stx == 65536 || stx == 1_000_000)) {
					continue // quick: one controller per (MaxTx, ignore), rotating; reno always for MaxTx 0 / floor / 10^6
				}
				cases = append(cases, vfC10Case{CaseID: fmt.Sprintf("c10r-%d-%d-%d", i, ig, s),
					Srv: vfC10Srv{MaxTx: vfC10U64(stx), MaxRx: vfC10U64(vfC10Vals[(i+n)%len(vfC10Vals)]), Ignore: ig == 1, CC: scc},
					Raw: vfC10RawHdrs})
				n++
			}
		}
	}
	return cases
}

// response header values a (fake) server may answer
var vfC10FakeRx = []string{
	"auto", "-", "", "0", "1", "65535", "65536", "65537", "1000000", "1000000000", "18446744073709551615", "00065537",
	"18446744073709551616", "99999999999999999999999999999999",
	"-1", "abc", "1e6", "0x10000", "1.5", "automatic", "6 5536", " auto", "65536 ",
}

var vfC10FakeUDP = []string{"true", "false", "-", "yes"}

func vfC10GenFake(k *vfKit) []vfC10FakeCase {
	var cases []vfC10FakeCase
	sp := vfC10SpellCounter{n: 1}
	n := 0
	for ci, cc := range vfC10CCs {
		c := vfC10FakeCase{CaseID: fmt.Sprintf("c10f-%d", ci)}
		for i, ctx := range vfC10Vals {
			for j, h := range vfC10FakeRx {
				ccc := cc
				if k.Quick() {
					// quick: a single pass over (client MaxTx x header) with the controller rotating
					if ci != 0 {
						continue
					}
					ccc = vfC10CCs[(i+j)%4]
				}
				c.Conns = append(c.Conns, vfC10FakeConn{
					Cli:   vfC10Cli{MaxTx: vfC10U64(ctx), MaxRx: vfC10U64(vfC10Vals[(n*5+i+1)%len(vfC10Vals)]), CC: sp.next(ccc)},
					RxHdr: h, UDPHdr: vfC10FakeUDP[n%len(vfC10FakeUDP)]})
				n++
			}
		}
		if len(c.Conns) > 0 {
			cases = append(cases, c)
		}
	}
	return cases
}

// ---------------------------------------------------------------- tests

// vfC10Shard reads VERIF_C10_SHARD="i/n" (thorough tier: the case list is split over n processes).
// Bubbles of one process run strictly one after the other: with several bubbles alive at once the
// go1.25.0 runtime sporadically dies with "WaitGroup.Add called from multiple synctest bubbles"
// on a WaitGroup local to quic-go's Transport.close.
func vfC10Shard() (int, int, string) {
	var i, n int
	if _, err := fmt.Sscanf(os.Getenv("VERIF_C10_SHARD"), "%d/%d", &i, &n); err != nil || n < 1 || i < 0 || i >= n {
		return 0, 1, ""
	}
	return i, n, fmt.Sprintf("-s%d", i)
}

//
// The collector is switched off while a bubble is alive and run by hand between bubbles: with
// go1.25.0 a bubbled goroutine that parks in "GC assist wait" (seen on quic-go's baseServer.run
// under machine load) is sometimes never woken again, which freezes the whole bubble.
func vfC10Each[C any](t *testing.T, k *vfKit, cases []C, id func(C) string, run func(*testing.T, C)) {
	shard, nshards, _ := vfC10Shard()
	defer debug.SetGCPercent(debug.SetGCPercent(-1))
	for i, c := range cases {
		if rc := k.ReplayCase(); rc != "" && rc != id(c) {
			continue
		}
		if i%nshards != shard {
			continue
		}
		if i%97 == shard {
			k.Sample(c)
		}
		run(t, c)
		runtime.GC()
	}
	k.Count("observer_reports_unrouted", vfC10Reg.unrouted.Load())
}

func vfC10Kit(t *testing.T, part string) *vfKit {
	_, _, suffix := vfC10Shard()
	return vfNewKit(t, "C10", part+suffix)
}

func TestVerifC10Negotiate(t *testing.T) {
	k := vfC10Kit(t, "c10-negotiate")
	defer k.Finish()
	vfC10Each(t, k, vfC10GenNegotiate(k), func(c vfC10Case) string { return c.CaseID }, func(t *testing.T, c vfC10Case) { vfC10RunWorld(t, k, c) })
}

func TestVerifC10RawClient(t *testing.T) {
	k := vfC10Kit(t, "c10-rawclient")
	defer k.Finish()
	vfC10Each(t, k, vfC10GenRaw(k), func(c vfC10Case) string { return c.CaseID }, func(t *testing.T, c vfC10Case) { vfC10RunWorld(t, k, c) })
}

func TestVerifC10FakeServer(t *testing.T) {
	k := vfC10Kit(t, "c10-fakeserver")
	defer k.Finish()
	vfC10Each(t, k, vfC10GenFake(k), func(c vfC10FakeCase) string { return c.CaseID }, func(t *testing.T, c vfC10FakeCase) { vfC10RunFake(t, k, c) })
}

func TestVerifC10History(t *testing.T) {
	k := vfC10Kit(t, "c10-history")
	defer k.Finish()
	vfC10Each(t, k, vfC10GenHistories(k), func(h vfC10History) string { return h.CaseID }, func(t *testing.T, h vfC10History) { vfC10RunHistory(t, k, h) })
}
