//go:build verif

package integration_tests

// C06 — TCP relay preserves the byte stream and accounts it exactly.
//
// Real server + real client.NewClient on simnet inside a synctest bubble (virtual time).
// Outbound.TCP is a fake that hands the server one end of an in-memory duplex pipe wrapped so
// that every byte the server takes from / writes to the "target" is logged; the other end is
// driven by a scripted target. A recording TrafficLogger (kit vfTraffic, verdict scripted per
// user) writes every LogTraffic call into the same totally ordered log before it returns.
//
// Stream content is offset-coded: byte i of direction d of relay r of case c is a keyed
// function of (c,r,d,i); a receiver verifies every arriving byte against the offset it has
// reached, so drop / duplicate / reorder / inject / cross-relay misrouting are all visible
// at the first wrong byte.
//
// Oracles (see DESIGN.md §3 C06):
//  1. prefix per direction, checked online at every arrival;
//  2. completeness only in shape (i) "nobody closes until everything arrived" and shape (ii)
//     "sender writes N, closes, the opposite direction is idle, receiver reads to EOF";
//  3. failed dial: DialError.Message == outbound error text, nothing relayed;
//  4. accounting: at every arrival cumulative forwarded <= cumulative approved at that instant;
//     at the end 0 <= handed - forwarded <= last handed chunk (one stream per user id), or
//     <= sum of the P largest chunks when P streams share the user id;
//  5. veto: nothing of the vetoed chunk arrives (consequence of 4, the vetoed chunk is not
//     approved) and a later Client.TCP fails with ClosedError.

import (
	"bytes"
	"errors"
	"fmt"
	"io"
	"math/rand"
	"net"
	"os"
	"regexp"
	"runtime"
	"runtime/debug"
	"sort"
	"strconv"
	"strings"
	"sync"
	"testing"
	"testing/synctest"
	"time"

	"github.com/apernet/hysteria/core/v2/client"
	coreErrs "github.com/apernet/hysteria/core/v2/errors"
	"github.com/apernet/hysteria/core/v2/server"
)

// vfC06WaitCap bounds every "must eventually arrive" wait in VIRTUAL time. Lossless or
// lightly lossy links with <= 50 ms latency move 2 MiB in seconds; 300 s of virtual time
// without completion while nobody closed is a logical "never".
const vfC06WaitCap = 300 * time.Second

const (
	vfC06Up   = 0 // client -> target (TrafficLogger tx)
	vfC06Down = 1 // target -> client (TrafficLogger rx)
)

// ---------------------------------------------------------------- case description

type vfC06Relay struct {
	Idx  int `json:"idx"`
	User int `json:"user"`
	// quiesce c_close_idle t_close_idle c_close_mid t_close_mid both_close t_error dial_fail, and for vetoed
	// users c_close_on_veto / t_close_on_veto: the side that is NOT being vetoed closes while the
	// (slow) logger is still deciding the vetoed chunk of the other direction
	Mode      string `json:"mode"`
	Up        int    `json:"up"`   // bytes the client intends to write
	Down      int    `json:"down"` // bytes the target intends to write
	Pre       int    `json:"pre"`  // *_idle: bytes sent (and fully delivered) in the opposite direction first
	UpChunk   int    `json:"up_chunk"`
	DownChunk int    `json:"down_chunk"`
	UpPaceUs  int    `json:"up_pace_us"`
	DownPace  int    `json:"down_pace_us"`
	CutAt     int    `json:"cut_at"`    // *_mid: closer closes after writing this many bytes; t_error: server took this many bytes
	CloseMs   int    `json:"close_ms"`  // both_close: virtual ms after which both ends close
	LingerMs  int    `json:"linger_ms"` // *_idle: gap between the last write and Close
	ReadBuf   int    `json:"read_buf"`
	LateRdMs  int    `json:"late_reader_ms"` // fast open only: the client starts reading this late
	StartMs   int    `json:"start_ms"`
	// hooked worlds: the server's RequestHook intercepts this request (Check true => the server accepts the
	// stream up front, then calls hook.TCP): "none" returns at once, "peek" reads up to HookPeek bytes of the
	// client's payload and hands them back as putback, "rewrite" also rewrites the request address, "err"
	// refuses after peeking. Modes hook_dial_fail / hook_err: no target ever exists.
	Hook     string `json:"hook,omitempty"`
	HookPeek int    `json:"hook_peek,omitempty"`
	GateMs   int    `json:"dial_gate_ms,omitempty"` // the fake Outbound.TCP takes this long (virtual) to answer: a slow dial
	TimedRd  int    `json:"timed_reads,omitempty"`  // fast open: this many Reads with a deadline that expires while the server is still dialling
	AddrLen  int    `json:"addr_len,omitempty"`     // requested address is padded to exactly this many bytes (0 = natural)
	MsgLen   int    `json:"msg_len,omitempty"`      // dial_fail: the outbound's error text is padded to exactly this many bytes
	Round    int    `json:"round,omitempty"`        // churn worlds: relays of round r start when round r-1 is over
	Role     string `json:"role,omitempty"`         // churn worlds: "A" ends one direction early, "B" starts in A's teardown window
	Seed     int64  `json:"seed"`
}

type vfC06User struct {
	Idx      int   `json:"idx"`
	FastOpen bool  `json:"fast_open"`
	VetoAt   int   `json:"veto_at"` // n-th LogTraffic call of this user is vetoed; 0 = never
	Sticky   bool  `json:"veto_sticky"`
	HoldMs   int   `json:"veto_hold_ms"` // a slow logger: the vetoing call takes this long to answer
	Relays   []int `json:"relays"`
}

type vfC06Case struct {
	CaseID     string       `json:"case_id"`
	Kind       string       `json:"kind"`                           // exact | parallel | churn
	EvHoldMs   int          `json:"event_logger_hold_ms,omitempty"` // churn: EventLogger.TCPError of an A relay takes this long
	Salt       uint64       `json:"salt"`
	LatencyMs  int          `json:"latency_ms"`
	LossPct    int          `json:"loss_pct"`
	Logger     bool         `json:"logger"`
	LogDelayUs int          `json:"log_delay_us"`
	Users      []vfC06User  `json:"users"`
	Relays     []vfC06Relay `json:"relays"`
}

func vfC06Size(r *rand.Rand, capBytes int) int {
	var n int
	switch x := r.Intn(100); {
	case x < 8:
		n = 0
	case x < 38:
		n = 1 + r.Intn(2000)
	case x < 74:
		n = 2000 + r.Intn(100_000)
	case x < 94:
		n = 100_000 + r.Intn(500_000)
	default:
		n = 600_000 + r.Intn(2<<20-600_000+1)
	}
	if n > capBytes {
		n = capBytes/2 + r.Intn(capBytes/2+1)
	}
	return n
}

func vfC06Chunk(r *rand.Rand, total int) int {
	var c int
	switch r.Intn(4) {
	case 0:
		c = 1 + r.Intn(64)
	case 1:
		c = 1 + r.Intn(4096)
	default:
		c = 1 + r.Intn(64<<10)
	}
	if lo := total / 150; c < lo { // bound the number of writes
		c = lo
	}
	if c > 64<<10 {
		c = 64 << 10
	}
	if c < 1 {
		c = 1
	}
	return c
}

var vfC06Modes = []struct {
	m string
	w int
}{
	{"quiesce", 25}, {"c_close_idle", 15}, {"t_close_idle", 15}, {"c_close_mid", 12},
	{"t_close_mid", 8}, {"both_close", 8}, {"t_error", 7}, {"dial_fail", 10},
}

func vfC06GenRelay(r *rand.Rand, idx, user, capBytes int, fastOpen bool) vfC06Relay {
	x := r.Intn(100)
	mode := ""
	for _, m := range vfC06Modes {
		if x < m.w {
			mode = m.m
			break
		}
		x -= m.w
	}
	rl := vfC06Relay{Idx: idx, User: user, Mode: mode, Seed: r.Int63()}
	rl.Up, rl.Down = vfC06Size(r, capBytes), vfC06Size(r, capBytes)
	switch mode {
	case "c_close_idle":
		rl.Down = 0
		if r.Intn(2) == 0 {
			rl.Pre = vfC06Size(r, 100_000)
		}
		if r.Intn(2) == 0 {
			rl.LingerMs = r.Intn(80)
		}
	case "t_close_idle":
		rl.Up = 0
		if r.Intn(2) == 0 {
			rl.Pre = vfC06Size(r, 100_000)
		}
		if r.Intn(2) == 0 {
			rl.LingerMs = r.Intn(80)
		}
	case "c_close_mid":
		if rl.Down < 20_000 {
			rl.Down += 20_000
		}
		rl.CutAt = r.Intn(rl.Up + 1)
	case "t_close_mid":
		if rl.Up < 20_000 {
			rl.Up += 20_000
		}
		rl.CutAt = r.Intn(rl.Down + 1)
	case "both_close":
		rl.CloseMs = r.Intn(400)
	case "t_error":
		rl.CutAt = r.Intn(rl.Down + 1)
	case "dial_fail":
		rl.Up = r.Intn(3000)
		rl.Down = 0
	}
	rl.UpChunk, rl.DownChunk = vfC06Chunk(r, rl.Up+rl.Pre), vfC06Chunk(r, rl.Down+rl.Pre)
	if r.Intn(2) == 0 {
		rl.UpPaceUs = 1 + r.Intn(20_000)
	}
	if r.Intn(2) == 0 {
		rl.DownPace = 1 + r.Intn(20_000)
	}
	switch mode { // "still streaming" needs the other side to be spread over virtual time
	case "c_close_mid", "both_close":
		if rl.DownPace == 0 {
			rl.DownPace = 1 + r.Intn(5000)
		}
	}
	switch mode {
	case "t_close_mid", "both_close":
		if rl.UpPaceUs == 0 {
			rl.UpPaceUs = 1 + r.Intn(5000)
		}
	}
	rl.ReadBuf = 1 + r.Intn(64<<10)
	if lo := (rl.Down + rl.Pre) / 300; rl.ReadBuf < lo {
		rl.ReadBuf = lo + 1
	}
	if fastOpen && r.Intn(3) == 0 {
		rl.LateRdMs = 1 + r.Intn(200)
	}
	rl.StartMs = r.Intn(60)
	if r.Intn(4) == 0 { // slow dial; with fast open the application may poll with read deadlines meanwhile
		rl.GateMs = 50 + r.Intn(450)
		if fastOpen {
			rl.TimedRd = r.Intn(3)
		}
	}
	return rl
}

// vfC06Boundaries: lengths around the QUIC varint width changes (63/64, and 16383/16384 which the
// protocol caps at MaxAddressLength = MaxMessageLength = 2048) for the address of a TCPRequest and
// the message of a TCPResponse.
var vfC06Boundaries = []int{62, 63, 64, 65, 2047, 2048}

func vfC06PickVeto(r *rand.Rand) int {
	switch r.Intn(3) {
	case 0:
		return 1
	case 1:
		return 2
	default:
		return 3 + r.Intn(18)
	}
}

// vfC06Gen builds one world. kind "exact": 2..6 users with ONE relay each (own client, own
// user id => exact per-direction accounting). kind "parallel": one or two users with P
// concurrent streams each (summed accounting only).
func vfC06Gen(k *vfKit, caseID, kind string, par int) vfC06Case {
	r := k.Rand(caseID)
	c := vfC06Case{CaseID: caseID, Kind: kind, Salt: r.Uint64(), LatencyMs: 1 + r.Intn(50), Logger: r.Intn(5) != 0}
	if c.Logger && r.Intn(5) < 2 {
		c.LogDelayUs = 100 + r.Intn(2900)
	}
	anyVeto := false
	if kind == "exact" {
		nu := 2 + r.Intn(5)
		for u := 0; u < nu; u++ {
			us := vfC06User{Idx: u, FastOpen: r.Intn(2) == 0}
			rl := vfC06GenRelay(r, u, u, 2<<20, us.FastOpen)
			if c.Logger && rl.Mode != "dial_fail" && r.Intn(10) < 3 {
				us.VetoAt, us.Sticky = vfC06PickVeto(r), r.Intn(2) == 0
				anyVeto = true
				if r.Intn(2) == 0 {
					us.HoldMs = 6*c.LatencyMs + 50 + r.Intn(200)
					if r.Intn(3) != 0 {
						// one direction only, so the n-th call is a chunk of that direction
						if r.Intn(2) == 0 {
							rl.Mode, rl.Up, rl.Pre = "c_close_on_veto", 0, 0
							rl.Down = 40_000 + r.Intn(400_000)
							rl.DownChunk, rl.DownPace = 1+r.Intn(8000), 1+r.Intn(3000)
						} else {
							rl.Mode, rl.Down, rl.Pre = "t_close_on_veto", 0, 0
							rl.Up = 40_000 + r.Intn(400_000)
							rl.UpChunk, rl.UpPaceUs = 1+r.Intn(8000), 1+r.Intn(3000)
						}
						rl.LateRdMs = 0
					}
				}
			}
			if r.Intn(5) == 0 {
				rl.AddrLen = vfC06Boundaries[r.Intn(len(vfC06Boundaries))]
			}
			if rl.Mode == "dial_fail" && r.Intn(2) == 0 {
				rl.MsgLen = vfC06Boundaries[r.Intn(len(vfC06Boundaries))]
			}
			us.Relays = []int{u}
			c.Users = append(c.Users, us)
			c.Relays = append(c.Relays, rl)
		}
	} else {
		us := vfC06User{Idx: 0, FastOpen: r.Intn(2) == 0}
		if c.Logger && r.Intn(4) == 0 {
			us.VetoAt, us.Sticky = vfC06PickVeto(r)+r.Intn(40), r.Intn(2) == 0
			anyVeto = true
		}
		capB := 256 << 10
		if par <= 4 {
			capB = 1 << 20
		}
		for i := 0; i < par; i++ {
			rl := vfC06GenRelay(r, i, 0, capB, us.FastOpen)
			us.Relays = append(us.Relays, i)
			c.Relays = append(c.Relays, rl)
		}
		c.Users = append(c.Users, us)
	}
	// assumption for oracle 5: the close after a veto is observed on a lossless link
	if !anyVeto && r.Intn(5) == 0 {
		c.LossPct = 1 + r.Intn(3)
	}
	return c
}

// vfC06GenBoundary enumerates the boundary lengths deterministically: for every length one relay whose
// requested ADDRESS has exactly that length (small two-way transfer, nobody closes until all arrived) and
// one failed dial whose error MESSAGE has exactly that length, each with its own client, all with the
// given fast-open mode.
func vfC06GenBoundary(k *vfKit, caseID string, fastOpen bool) vfC06Case {
	r := k.Rand(caseID)
	c := vfC06Case{CaseID: caseID, Kind: "boundary", Salt: r.Uint64(), LatencyMs: 1 + r.Intn(20), Logger: r.Intn(2) == 0}
	add := func(rl vfC06Relay) {
		rl.Idx, rl.User, rl.Seed = len(c.Relays), len(c.Users), r.Int63()
		rl.UpChunk, rl.DownChunk, rl.ReadBuf, rl.StartMs = 1+r.Intn(2000), 1+r.Intn(2000), 1+r.Intn(8000), r.Intn(40)
		c.Users = append(c.Users, vfC06User{Idx: rl.User, FastOpen: fastOpen, Relays: []int{rl.Idx}})
		c.Relays = append(c.Relays, rl)
	}
	// slow dial (fake outbound answers late); with fast open the application polls with 1 and 2 expiring read deadlines
	for tr := 1; tr <= 2; tr++ {
		g := vfC06Relay{Mode: "quiesce", Up: 200 + r.Intn(3000), Down: 200 + r.Intn(3000), GateMs: 100 + r.Intn(400)}
		f := vfC06Relay{Mode: "dial_fail", Up: r.Intn(300), GateMs: 100 + r.Intn(400)}
		if fastOpen {
			g.TimedRd, f.TimedRd = tr, tr
		}
		add(g)
		add(f)
	}
	for _, l := range vfC06Boundaries {
		add(vfC06Relay{Mode: "quiesce", Up: 200 + r.Intn(3000), Down: 200 + r.Intn(3000), AddrLen: l})
		add(vfC06Relay{Mode: "dial_fail", Up: r.Intn(300), MsgLen: l})
		add(vfC06Relay{Mode: "dial_fail", Up: r.Intn(300), AddrLen: l, MsgLen: vfC06Boundaries[r.Intn(len(vfC06Boundaries))]})
	}
	return c
}

// vfC06Pad pads s with filler up to exactly n bytes (n == 0 or too small: s unchanged).
func vfC06Pad(prefix, suffix string, n int, fill byte) string {
	if k := n - len(prefix) - len(suffix); k > 0 {
		return prefix + strings.Repeat(string(fill), k) + suffix
	}
	return prefix + suffix
}

// vfC06GenHooked builds a world whose server has a RequestHook that intercepts every relay of the world.
// Relays 0..2 are fixed (refused dial without fast open, slow-then-refused dial with fast open, hook error),
// the rest is drawn: hook behaviour x {dial ok, slow dial ok, refused, slow then refused, hook error} x
// {quiesce, c_close_idle, t_close_idle} x fast open. The accounting clause does not cover hooked
// connections (the statement excludes them); stream oracles do: what the client application reads is a
// prefix of what the target wrote -- nothing at all when no target ever existed -- and what the target
// gets (putback first) is a prefix of what the client wrote, complete in shapes (i)/(ii).
func vfC06GenHooked(k *vfKit, caseID string) vfC06Case {
	r := k.Rand(caseID)
	c := vfC06Case{CaseID: caseID, Kind: "hooked", Salt: r.Uint64(), LatencyMs: 1 + r.Intn(30), Logger: r.Intn(2) == 0}
	hooks := []string{"none", "peek", "rewrite", "peek"}
	n := 5 + r.Intn(3)
	for i := 0; i < n; i++ {
		fo := r.Intn(2) == 0
		rl := vfC06Relay{Idx: i, User: i, Seed: r.Int63(), Hook: hooks[r.Intn(len(hooks))], HookPeek: 1 + r.Intn(600),
			UpChunk: 1 + r.Intn(4000), DownChunk: 1 + r.Intn(4000), ReadBuf: 1 + r.Intn(16<<10), StartMs: r.Intn(40)}
		x := r.Intn(10)
		switch {
		case i == 0:
			fo, x = false, 0
		case i == 1:
			fo, x = true, 1
		case i == 2:
			x = 2
		}
		switch {
		case x == 0: // refused
			rl.Mode, rl.Up = "hook_dial_fail", r.Intn(3000)
		case x == 1: // slow, then refused
			rl.Mode, rl.Up, rl.GateMs = "hook_dial_fail", r.Intn(3000), 50+r.Intn(400)
		case x == 2: // the hook itself refuses
			rl.Mode, rl.Up, rl.Hook = "hook_err", r.Intn(3000), "err"
		default:
			rl.Mode = []string{"quiesce", "c_close_idle", "t_close_idle"}[r.Intn(3)]
			rl.Up, rl.Down = vfC06Size(r, 200_000), vfC06Size(r, 200_000)
			switch rl.Mode {
			case "c_close_idle":
				rl.Down = 0
			case "t_close_idle":
				rl.Up = 0
			}
			rl.UpChunk, rl.DownChunk = vfC06Chunk(r, rl.Up), vfC06Chunk(r, rl.Down)
			if lo := rl.Down / 300; rl.ReadBuf < lo {
				rl.ReadBuf = lo + 1
			}
			if r.Intn(3) == 0 {
				rl.GateMs = 50 + r.Intn(400)
			}
		}
		if fo && rl.GateMs > 0 {
			rl.TimedRd = r.Intn(3)
		}
		c.Users = append(c.Users, vfC06User{Idx: i, FastOpen: fo, Relays: []int{i}})
		c.Relays = append(c.Relays, rl)
	}
	return c
}

// vfC06GenChurn builds a "buffer churn" world: rounds back to back on ONE server. In every round relay A
// (user 0) has its target half-close (EOF after a few bytes) while A's client keeps uploading, so
// the relay function returns with A's other direction still running; the server then spends
// EvHoldMs in EventLogger.TCPError (a slow event logger, harness-owned fake) before it closes A's
// two ends. In that window 2..3 relays B of OTHER users start and stream both ways at once, with a
// traffic logger that takes 0.3..2 ms per chunk (so B always has a chunk between Read and Write).
// Anything the server shares between a relay that is being torn down and a relay that starts
// (pooled buffers, per-connection state) shows up as foreign bytes at B's or A's receiver.
func vfC06GenChurn(k *vfKit, caseID string) vfC06Case {
	r := k.Rand(caseID)
	c := vfC06Case{CaseID: caseID, Kind: "churn", Salt: r.Uint64(), LatencyMs: 1 + r.Intn(4), Logger: true,
		LogDelayUs: 300 + r.Intn(1700), EvHoldMs: 80 + r.Intn(220)}
	rounds, nb := 5+r.Intn(4), 2+r.Intn(2)
	for u := 0; u <= nb; u++ {
		c.Users = append(c.Users, vfC06User{Idx: u, FastOpen: r.Intn(2) == 0})
	}
	for rd := 0; rd < rounds; rd++ {
		a := vfC06Relay{Idx: len(c.Relays), User: 0, Mode: "t_halfclose", Round: rd, Role: "A", Seed: r.Int63(),
			Up: 1 << 20, Down: r.Intn(1500), UpChunk: 1000 + r.Intn(5000), DownChunk: 1 + r.Intn(1500),
			UpPaceUs: 500 + r.Intn(1500), ReadBuf: 1 + r.Intn(64<<10)}
		c.Users[0].Relays = append(c.Users[0].Relays, a.Idx)
		c.Relays = append(c.Relays, a)
		for j := 1; j <= nb; j++ {
			b := vfC06Relay{Idx: len(c.Relays), User: j, Mode: "quiesce", Round: rd, Role: "B", Seed: r.Int63(),
				Up: 8000 + r.Intn(72_000), Down: 8000 + r.Intn(72_000), UpChunk: 2000 + r.Intn(30_000), DownChunk: 2000 + r.Intn(30_000),
				UpPaceUs: r.Intn(500), DownPace: r.Intn(500), ReadBuf: 4096 + r.Intn(60<<10), StartMs: r.Intn(10)}
			c.Users[j].Relays = append(c.Users[j].Relays, b.Idx)
			c.Relays = append(c.Relays, b)
		}
	}
	return c
}

// ---------------------------------------------------------------- offset-coded content

func vfC06Mix(z uint64) uint64 {
	z += 0x9e3779b97f4a7c15
	z = (z ^ (z >> 30)) * 0xbf58476d1ce4e5b9
	z = (z ^ (z >> 27)) * 0x94d049bb133111eb
	return z ^ (z >> 31)
}

func vfC06Key(salt uint64, relay, dir int) uint64 {
	return vfC06Mix(salt ^ vfC06Mix(uint64(relay)<<1|uint64(dir)))
}

// vfC06Fill writes the bytes of stream `key` at offsets off.. into dst.
func vfC06Fill(dst []byte, key uint64, off int64) {
	o := uint64(off)
	var w uint64
	have := false
	for i := range dst {
		if !have || o&7 == 0 {
			w = vfC06Mix(key + (o>>3)*0x9e3779b97f4a7c15)
			have = true
		}
		dst[i] = byte(w >> ((o & 7) * 8))
		o++
	}
}

// ---------------------------------------------------------------- per-relay runtime state

type vfC06Waiter struct {
	dir int
	n   int64
	ch  chan struct{}
}

type vfC06RS struct {
	sp   *vfC06Relay
	key  string // "r<idx>" tag of this relay's events
	addr string
	keys [2]uint64
	log  *vfNetLog

	mu         sync.Mutex
	got        [2]int64  // verified arrivals: [Up] at the target, [Down] at the client
	bad        [2]string // first content mismatch per direction
	sent       [2]int64  // bytes accepted by Write at the sender
	attempted  [2]int64  // sent + size of a write that failed
	writeErr   [2]string
	srvTook    int64
	drained    int64 // bytes the scripted target read from its end
	waits      []vfC06Waiter
	scratch    [2][]byte
	stuckWrite bool
	gateMissed bool
	tcpHung    bool
	timedOut   int
	dials      int
	errAfter   int64         // t_error: server-side Read fails once it took this many bytes; -1 = never
	eofAfter   int64         // t_halfclose: server-side Read returns EOF once it took this many bytes (writes still accepted); -1 = never
	gate       chan struct{} // churn: do not start before this is closed
	winOpen    chan struct{} // churn, role A: closed when the server entered EventLogger.TCPError for this relay
	winOnce    sync.Once
	bDone      chan struct{} // churn, role A: one token per finished B relay of the round
	nB         int
	roundDone  chan struct{} // churn, role A: closed when the round is over
	tellA      chan struct{} // churn, role B: A's bDone

	dialed     chan struct{} // closed when Outbound.TCP created the target
	tgtEOF     chan struct{} // closed when the scripted target's read side ended (server closed tConn)
	readerDone chan struct{} // closed when the client reader ended
	harness    net.Conn      // scripted target's end of the pipe

	conn       net.Conn // client side
	tcpErr     error
	readErr    error
	cliClosed  bool
	tgtClosed  bool
	shape      [2]string // "", "i", "ii": completeness shape asserted per direction
	compl      [2]string // wait outcome: ok | veto | timeout
	want       [2]int64
	dialFailOK bool
	dialDetail string
	dialMsg    string
}

func (rs *vfC06RS) arrive(dir int, b []byte) {
	rs.mu.Lock()
	if rs.bad[dir] == "" {
		if cap(rs.scratch[dir]) < len(b) {
			rs.scratch[dir] = make([]byte, len(b), max(len(b), 64<<10))
		}
		exp := rs.scratch[dir][:len(b)]
		vfC06Fill(exp, rs.keys[dir], rs.got[dir])
		if !bytes.Equal(exp, b) {
			i := 0
			for i < len(b) && exp[i] == b[i] {
				i++
			}
			hi := min(len(b), i+16)
			rs.bad[dir] = fmt.Sprintf("offset %d: got %x want %x (arrival of %d bytes at offset %d)", rs.got[dir]+int64(i), b[i:hi], exp[i:hi], len(b), rs.got[dir])
		}
	}
	rs.got[dir] += int64(len(b))
	g := rs.got[dir]
	ws := rs.waits[:0]
	for _, w := range rs.waits {
		if w.dir == dir && g >= w.n {
			close(w.ch)
		} else {
			ws = append(ws, w)
		}
	}
	rs.waits = ws
	rs.mu.Unlock()
}

// arrived returns a channel closed once n bytes of direction dir have arrived.
func (rs *vfC06RS) arrived(dir int, n int64) chan struct{} {
	ch := make(chan struct{})
	rs.mu.Lock()
	if rs.got[dir] >= n {
		close(ch)
	} else {
		rs.waits = append(rs.waits, vfC06Waiter{dir, n, ch})
	}
	rs.mu.Unlock()
	return ch
}

// vfC06Target is what the server gets from Outbound.TCP.
type vfC06Target struct {
	rs    *vfC06RS
	inner net.Conn
	wmu   sync.Mutex
	once  sync.Once
}

var vfC06ErrTarget = errors.New("vfC06: target connection reset (scripted)")

func (c *vfC06Target) Read(p []byte) (int, error) {
	rs := c.rs
	rs.mu.Lock()
	ea, took := rs.errAfter, rs.srvTook
	rs.mu.Unlock()
	if eo := rs.eofAfter; eo >= 0 {
		left := eo - took
		if left <= 0 {
			rs.log.AddT("tgt_halfclose", rs.key, 0, time.Now().UnixNano(), nil)
			return 0, io.EOF
		}
		if int64(len(p)) > left {
			p = p[:left]
		}
	}
	if ea >= 0 {
		left := ea - took
		if left <= 0 {
			rs.log.AddT("tgt_err", rs.key, 0, time.Now().UnixNano(), nil)
			return 0, vfC06ErrTarget
		}
		if int64(len(p)) > left {
			p = p[:left]
		}
	}
	n, err := c.inner.Read(p)
	if n > 0 {
		rs.mu.Lock()
		rs.srvTook += int64(n)
		rs.mu.Unlock()
		rs.log.AddT("srv_take", rs.key, int64(n), time.Now().UnixNano(), nil)
	}
	return n, err
}

func (c *vfC06Target) Write(p []byte) (int, error) {
	c.wmu.Lock()
	defer c.wmu.Unlock()
	n, err := c.inner.Write(p)
	if n > 0 {
		// arrival at the target: log first (order against tl_traffic is what oracle 4 uses)
		c.rs.log.AddT("tgt_write", c.rs.key, int64(n), time.Now().UnixNano(), nil)
		c.rs.arrive(vfC06Up, p[:n])
	}
	return n, err
}

func (c *vfC06Target) Close() error {
	c.once.Do(func() { c.rs.log.AddT("tgt_close", c.rs.key, 0, time.Now().UnixNano(), nil) })
	return c.inner.Close()
}

func (c *vfC06Target) LocalAddr() net.Addr                { return c.inner.LocalAddr() }
func (c *vfC06Target) RemoteAddr() net.Addr               { return c.inner.RemoteAddr() }
func (c *vfC06Target) SetDeadline(t time.Time) error      { return nil }
func (c *vfC06Target) SetReadDeadline(t time.Time) error  { return nil }
func (c *vfC06Target) SetWriteDeadline(t time.Time) error { return nil }

// vfC06Traffic is the kit's recording logger plus a list of the server-side streams it was
// shown (TraceStream), which the harness needs to release relay goroutines the server
// leaves blocked for ever (see vfC06StuckRelays).
type vfC06Traffic struct {
	*vfTraffic
	smu     sync.Mutex
	streams []server.HyStream
}

func (t *vfC06Traffic) TraceStream(stream server.HyStream, stats *server.StreamStats) {
	t.smu.Lock()
	t.streams = append(t.streams, stream)
	t.smu.Unlock()
}

var vfC06BubbleRe = regexp.MustCompile(`synctest bubble (\d+)`)

// vfC06StuckRelays counts goroutines of the calling goroutine's bubble that are still inside
// the server's relay copy loops. Called after the world has been closed and the bubble is idle.
func vfC06StuckRelays() (int, string) {
	self := make([]byte, 4096)
	self = self[:runtime.Stack(self, false)]
	hdr, _, _ := strings.Cut(string(self), "\n")
	m := vfC06BubbleRe.FindStringSubmatch(hdr)
	if m == nil {
		return 0, ""
	}
	tag := "synctest bubble " + m[1] + "]"
	buf := make([]byte, 8<<20)
	buf = buf[:runtime.Stack(buf, true)]
	n, sample := 0, ""
	for _, g := range strings.Split(string(buf), "\n\n") {
		h, body, _ := strings.Cut(g, "\n")
		if !strings.Contains(h, tag) {
			continue
		}
		if strings.Contains(body, "server.copyBufferLog") || strings.Contains(body, "server.copyTwoWay") {
			n++
			if sample == "" {
				sample = g
			}
		}
	}
	return n, sample
}

// vfC06Events is the kit's event logger plus a scripted delay: TCPError of a churn-world A relay
// announces the teardown window and then takes EvHoldMs of virtual time (a slow event logger).
type vfC06Events struct {
	server.EventLogger
	run *vfC06Run
}

func (e *vfC06Events) TCPError(addr net.Addr, id, reqAddr string, err error) {
	e.EventLogger.TCPError(addr, id, reqAddr, err)
	if rs := e.run.byAddr[reqAddr]; rs != nil && rs.winOpen != nil {
		rs.winOnce.Do(func() { close(rs.winOpen) })
		time.Sleep(time.Duration(e.run.c.EvHoldMs) * time.Millisecond)
	}
}

// vfC06Hook is the server's RequestHook in hooked worlds.
type vfC06Hook struct{ run *vfC06Run }

func (h *vfC06Hook) Check(isUDP bool, reqAddr string) bool {
	rs := h.run.byAddr[reqAddr]
	return !isUDP && rs != nil && rs.sp.Hook != ""
}

func (h *vfC06Hook) UDP(data []byte, reqAddr *string) error { return nil }

func (h *vfC06Hook) TCP(stream server.HyStream, reqAddr *string) ([]byte, error) {
	rs := h.run.byAddr[*reqAddr]
	if rs == nil {
		return nil, nil
	}
	rs.log.AddT("hook_tcp", rs.key, 0, time.Now().UnixNano(), map[string]any{"hook": rs.sp.Hook})
	var got []byte
	if rs.sp.Hook != "none" {
		// like a sniffer: look at the first bytes the client sends, give up after a while
		_ = stream.SetReadDeadline(time.Now().Add(2 * time.Second))
		buf := make([]byte, rs.sp.HookPeek)
		for len(got) < len(buf) {
			n, err := stream.Read(buf[len(got):])
			got = buf[:len(got)+n]
			if err != nil {
				break
			}
		}
		_ = stream.SetReadDeadline(time.Time{})
	}
	switch rs.sp.Hook {
	case "err":
		return nil, errors.New("vfC06 hook refuses " + rs.key)
	case "rewrite":
		*reqAddr = "hooked." + rs.addr
	}
	return got, nil
}

// vfC06Group replaces sync.WaitGroup inside bubbles. With go1.25.0 a WaitGroup.Wait inside a
// bubble is occasionally NOT treated as durably blocking (seen in goroutine dumps as
// "[sync.WaitGroup.Wait, synctest bubble N]" without "(durable)"), which freezes the bubble's
// clock for ever. Channel operations do not depend on that association mechanism.
// Go and Wait must be called from one goroutine.
type vfC06Group struct {
	n  int
	ch chan struct{}
}

func (g *vfC06Group) Go(f func()) {
	if g.ch == nil {
		g.ch = make(chan struct{}, 256)
	}
	g.n++
	go func() {
		defer func() { g.ch <- struct{}{} }()
		f()
	}()
}

func (g *vfC06Group) Wait() {
	for ; g.n > 0; g.n-- {
		<-g.ch
	}
}

// WaitFor is Wait bounded by d of virtual time; false = some goroutine is still running.
func (g *vfC06Group) WaitFor(d time.Duration) bool {
	t := time.NewTimer(d)
	defer t.Stop()
	for g.n > 0 {
		select {
		case <-g.ch:
			g.n--
		case <-t.C:
			return false
		}
	}
	return true
}

// ---------------------------------------------------------------- world runtime

type vfC06UserRT struct {
	sp          *vfC06User
	id          string
	cl          client.Client
	mu          sync.Mutex
	calls       int
	vetoed      chan struct{} // closed when the logger has answered false
	pending     chan struct{} // closed when the logger has decided to veto and starts holding the answer
	vetoOnce    sync.Once
	vetoStarted bool
	vetoFired   bool
	// after-veto probe
	probed   bool
	probeErr error
	probeOK  bool // Client.TCP succeeded although the user had been vetoed
}

type vfC06Run struct {
	c      *vfC06Case
	w      *vfWorld
	users  []*vfC06UserRT
	relays []*vfC06RS
	byAddr map[string]*vfC06RS
	lat    time.Duration
}

func (run *vfC06Run) wait(u *vfC06UserRT, ch <-chan struct{}) string {
	t := time.NewTimer(vfC06WaitCap)
	defer t.Stop()
	select {
	case <-ch:
		return "ok"
	default:
	}
	select {
	case <-ch:
		return "ok"
	case <-u.vetoed:
		return "veto"
	case <-t.C:
		return "timeout"
	}
}

// write sends stream bytes [from,to) of direction dir in PRNG chunks with PRNG pacing.
// cut >= 0: stop (return true) once `cut` bytes of this call's range have been written.
func (run *vfC06Run) write(rs *vfC06RS, dir int, w io.Writer, from, to int64, r *rand.Rand, cut int64) {
	maxChunk, pace := rs.sp.UpChunk, rs.sp.UpPaceUs
	if dir == vfC06Down {
		maxChunk, pace = rs.sp.DownChunk, rs.sp.DownPace
	}
	buf := make([]byte, maxChunk)
	off := from
	for off < to {
		if cut >= 0 && off-from >= cut {
			return
		}
		sz := maxChunk
		if r.Intn(3) != 0 {
			sz = 1 + r.Intn(maxChunk)
		}
		if int64(sz) > to-off {
			sz = int(to - off)
		}
		if cut >= 0 && int64(sz) > from+cut-off {
			sz = int(from + cut - off)
		}
		vfC06Fill(buf[:sz], rs.keys[dir], off)
		n, err := w.Write(buf[:sz])
		rs.mu.Lock()
		rs.sent[dir] += int64(n)
		rs.attempted[dir] += int64(n)
		if err != nil {
			rs.attempted[dir] += int64(sz - n)
			rs.writeErr[dir] = err.Error()
		}
		rs.mu.Unlock()
		if err != nil {
			return
		}
		off += int64(n)
		if pace > 0 && r.Intn(3) == 0 {
			time.Sleep(time.Duration(r.Intn(pace)+1) * time.Microsecond)
		}
	}
}

func (rs *vfC06RS) clientReader(conn net.Conn) {
	defer close(rs.readerDone)
	buf := make([]byte, rs.sp.ReadBuf)
	for {
		n, err := conn.Read(buf)
		if n > 0 {
			rs.log.AddT("cli_read", rs.key, int64(n), time.Now().UnixNano(), nil)
			rs.arrive(vfC06Down, buf[:n])
		}
		if err != nil {
			rs.mu.Lock()
			rs.readErr = err
			rs.mu.Unlock()
			return
		}
	}
}

func (rs *vfC06RS) targetReader() {
	defer close(rs.tgtEOF)
	buf := make([]byte, 32<<10)
	for {
		n, err := rs.harness.Read(buf)
		rs.mu.Lock()
		rs.drained += int64(n)
		rs.mu.Unlock()
		if err != nil {
			return
		}
	}
}

func (run *vfC06Run) onTCP(addr string) (net.Conn, error) {
	rs := run.byAddr[addr]
	if rs == nil {
		// the after-veto probe (or an address nobody asked for): give it a live sink target
		pt := vfNewPipeTarget()
		run.w.onClose(func() { _ = pt.Harness.Close() })
		return pt.serverSide, nil
	}
	rs.mu.Lock()
	rs.dials++
	first := rs.dials == 1
	rs.mu.Unlock()
	if first && rs.sp.GateMs > 0 {
		time.Sleep(time.Duration(rs.sp.GateMs) * time.Millisecond) // the dial takes a while
	}
	if rs.sp.Mode == "dial_fail" || rs.sp.Mode == "hook_dial_fail" {
		return nil, errors.New(rs.dialMsg)
	}
	if !first {
		return nil, errors.New("vfC06: second dial for one request")
	}
	pt := vfNewPipeTarget()
	rs.harness = pt.Harness
	run.w.onClose(func() { _ = pt.Harness.Close() })
	go rs.targetReader()
	close(rs.dialed)
	return &vfC06Target{rs: rs, inner: pt.serverSide}, nil
}

func (run *vfC06Run) closeClient(rs *vfC06RS) {
	rs.mu.Lock()
	rs.cliClosed = true
	rs.mu.Unlock()
	_ = rs.conn.Close()
}

func (run *vfC06Run) closeTarget(rs *vfC06RS) {
	rs.mu.Lock()
	rs.tgtClosed = true
	rs.mu.Unlock()
	_ = rs.harness.Close()
}

func (run *vfC06Run) drive(rs *vfC06RS) {
	sp := rs.sp
	u := run.users[sp.User]
	r := rand.New(rand.NewSource(sp.Seed))
	rUp, rDown := rand.New(rand.NewSource(sp.Seed+1)), rand.New(rand.NewSource(sp.Seed+2))
	if rs.gate != nil { // churn worlds; the cap only matters if a window never opens
		t := time.NewTimer(120 * time.Second)
		select {
		case <-rs.gate:
		case <-t.C:
			rs.mu.Lock()
			rs.gateMissed = true
			rs.mu.Unlock()
		}
		t.Stop()
	}
	if rs.tellA != nil {
		defer func() { rs.tellA <- struct{}{} }()
	}
	if rs.roundDone != nil {
		defer close(rs.roundDone)
	}
	time.Sleep(time.Duration(sp.StartMs) * time.Millisecond)

	// Client.TCP is bounded on VIRTUAL time: a request that is never answered would otherwise keep the
	// bubble alive for ever (keep-alives). The only way to release the call is to close the client.
	type tcpRes struct {
		conn net.Conn
		err  error
	}
	resCh := make(chan tcpRes, 1)
	go func() {
		cn, e := u.cl.TCP(rs.addr)
		resCh <- tcpRes{cn, e}
	}()
	var conn net.Conn
	var err error
	tcpTimer := time.NewTimer(vfC06WaitCap)
	select {
	case res := <-resCh:
		conn, err = res.conn, res.err
	case <-tcpTimer.C:
		rs.mu.Lock()
		rs.tcpHung = true
		rs.mu.Unlock()
		_ = u.cl.Close()
		res := <-resCh
		if res.conn != nil {
			_ = res.conn.Close()
		}
		return
	}
	tcpTimer.Stop()
	rs.mu.Lock()
	rs.tcpErr = err
	rs.mu.Unlock()

	if sp.Mode == "dial_fail" {
		run.driveDialFail(rs, u, conn, err, rUp)
		return
	}
	if err != nil {
		return
	}
	rs.conn = conn
	if u.sp.FastOpen {
		run.timedReads(rs, conn)
	}
	if u.sp.FastOpen && sp.LateRdMs > 0 {
		go func() {
			time.Sleep(time.Duration(sp.LateRdMs) * time.Millisecond)
			rs.clientReader(conn)
		}()
	} else {
		go rs.clientReader(conn)
	}
	setShape := func(dir int, shape string, want int64, res string) {
		rs.mu.Lock()
		rs.shape[dir], rs.want[dir], rs.compl[dir] = shape, want, res
		rs.mu.Unlock()
	}
	linger := func() {
		if sp.LingerMs > 0 {
			time.Sleep(time.Duration(sp.LingerMs) * time.Millisecond)
		}
	}
	var wg vfC06Group
	switch sp.Mode {
	case "quiesce":
		wg.Go(func() { run.write(rs, vfC06Up, conn, 0, int64(sp.Up), rUp, -1) })
		wg.Go(func() {
			if run.wait(u, rs.dialed) == "ok" {
				run.write(rs, vfC06Down, rs.harness, 0, int64(sp.Down), rDown, -1)
			}
		})
		wg.Wait()
		setShape(vfC06Up, "i", int64(sp.Up), run.wait(u, rs.arrived(vfC06Up, int64(sp.Up))))
		setShape(vfC06Down, "i", int64(sp.Down), run.wait(u, rs.arrived(vfC06Down, int64(sp.Down))))
		// nobody has closed so far; stay open a little longer so that extra bytes would be seen
		time.Sleep(4*run.lat + time.Duration(r.Intn(50))*time.Millisecond)
	case "c_close_idle":
		if sp.Pre > 0 {
			if run.wait(u, rs.dialed) == "ok" {
				run.write(rs, vfC06Down, rs.harness, 0, int64(sp.Pre), rDown, -1)
			}
			setShape(vfC06Down, "i", int64(sp.Pre), run.wait(u, rs.arrived(vfC06Down, int64(sp.Pre))))
		}
		run.write(rs, vfC06Up, conn, 0, int64(sp.Up), rUp, -1)
		linger()
		run.closeClient(rs)
		res := run.wait(u, rs.dialed)
		if res == "ok" {
			res = run.wait(u, rs.tgtEOF)
		}
		setShape(vfC06Up, "ii", int64(sp.Up), res)
	case "t_close_idle":
		if sp.Pre > 0 {
			run.write(rs, vfC06Up, conn, 0, int64(sp.Pre), rUp, -1)
			setShape(vfC06Up, "i", int64(sp.Pre), run.wait(u, rs.arrived(vfC06Up, int64(sp.Pre))))
		}
		res := run.wait(u, rs.dialed)
		if res == "ok" {
			run.write(rs, vfC06Down, rs.harness, 0, int64(sp.Down), rDown, -1)
			linger()
			run.closeTarget(rs)
			res = run.wait(u, rs.readerDone)
		}
		setShape(vfC06Down, "ii", int64(sp.Down), res)
	case "c_close_mid":
		wg.Go(func() {
			if run.wait(u, rs.dialed) == "ok" {
				run.write(rs, vfC06Down, rs.harness, 0, int64(sp.Down), rDown, -1)
			}
		})
		run.write(rs, vfC06Up, conn, 0, int64(sp.Up), rUp, int64(sp.CutAt))
		run.closeClient(rs)
		wg.Wait()
	case "t_close_mid":
		wg.Go(func() { run.write(rs, vfC06Up, conn, 0, int64(sp.Up), rUp, -1) })
		if run.wait(u, rs.dialed) == "ok" {
			run.write(rs, vfC06Down, rs.harness, 0, int64(sp.Down), rDown, int64(sp.CutAt))
			run.closeTarget(rs)
		}
		wg.Wait()
	case "both_close":
		wg.Go(func() { run.write(rs, vfC06Up, conn, 0, int64(sp.Up), rUp, -1) })
		wg.Go(func() {
			if run.wait(u, rs.dialed) == "ok" {
				run.write(rs, vfC06Down, rs.harness, 0, int64(sp.Down), rDown, -1)
			}
		})
		time.Sleep(time.Duration(sp.CloseMs) * time.Millisecond)
		tgtFirst := r.Intn(2) == 0
		if run.wait(u, rs.dialed) == "ok" {
			if tgtFirst {
				run.closeTarget(rs)
				run.closeClient(rs)
			} else {
				run.closeClient(rs)
				run.closeTarget(rs)
			}
		} else {
			run.closeClient(rs)
		}
		// The client connection was closed while another goroutine may sit in Write (legal for a
		// net.Conn). If the QUIC connection then goes away (veto) that Write is never released
		// (observation, same root cause as vfC06StuckRelays); a write deadline frees it.
		if !wg.WaitFor(60 * time.Second) {
			rs.mu.Lock()
			rs.stuckWrite = true
			rs.mu.Unlock()
			_ = conn.SetWriteDeadline(time.Unix(1, 0))
			wg.Wait()
		}
	case "c_close_on_veto":
		wg.Go(func() {
			if run.wait(u, rs.dialed) == "ok" {
				run.write(rs, vfC06Down, rs.harness, 0, int64(sp.Down), rDown, -1)
			}
		})
		run.wait(u, u.pending) // the logger is now sitting on the chunk it is going to veto
		run.closeClient(rs)
		wg.Wait()
	case "t_close_on_veto":
		wg.Go(func() { run.write(rs, vfC06Up, conn, 0, int64(sp.Up), rUp, -1) })
		run.wait(u, u.pending)
		if run.wait(u, rs.dialed) == "ok" {
			run.closeTarget(rs)
		}
		wg.Wait()
	case "t_halfclose":
		// the client keeps uploading; the target sends a little and half-closes (EOF for the server's
		// reads, writes still accepted); the upload ends when the server closes the stream
		wg.Go(func() { run.write(rs, vfC06Up, conn, 0, int64(sp.Up), rUp, -1) })
		if run.wait(u, rs.dialed) == "ok" {
			run.write(rs, vfC06Down, rs.harness, 0, int64(sp.Down), rDown, -1)
		}
		if rs.bDone != nil {
			t := time.NewTimer(240 * time.Second)
			for i := 0; i < rs.nB; i++ {
				select {
				case <-rs.bDone:
				case <-t.C:
				}
			}
			t.Stop()
		}
		if !wg.WaitFor(60 * time.Second) {
			rs.mu.Lock()
			rs.stuckWrite = true
			rs.mu.Unlock()
			_ = conn.SetWriteDeadline(time.Unix(1, 0))
			wg.Wait()
		}
		run.closeClient(rs)
	case "hook_dial_fail", "hook_err":
		// the server accepted the stream up front (hook), then the dial fails / the hook refuses: the client
		// may write, nothing may ever come back, and the stream must end
		wg.Go(func() { run.write(rs, vfC06Up, conn, 0, int64(sp.Up), rUp, -1) })
		res := run.wait(u, rs.readerDone)
		rs.mu.Lock()
		rs.compl[vfC06Down] = res
		rs.mu.Unlock()
		if !wg.WaitFor(60 * time.Second) {
			_ = conn.SetWriteDeadline(time.Unix(1, 0))
			wg.Wait()
		}
		run.closeClient(rs)
	case "t_error":
		wg.Go(func() { run.write(rs, vfC06Up, conn, 0, int64(sp.Up), rUp, -1) })
		wg.Go(func() {
			if run.wait(u, rs.dialed) == "ok" {
				run.write(rs, vfC06Down, rs.harness, 0, int64(sp.Down), rDown, -1)
			}
		})
		wg.Wait()
	}
}

// timedReads: fast open only. While the (slow) dial is still in progress the application polls the
// connection with read deadlines that expire; nothing may be delivered by these Reads, and they must
// not change what later Reads deliver (the response is still consumed by the client library, a refusal
// is still a DialError). All deadlines lie well before the fake outbound answers.
func (run *vfC06Run) timedReads(rs *vfC06RS, conn net.Conn) {
	sp := rs.sp
	if sp.TimedRd == 0 || sp.GateMs == 0 {
		return
	}
	d := time.Duration(sp.GateMs) * time.Millisecond / time.Duration(sp.TimedRd+2)
	buf := make([]byte, 2048)
	for i := 0; i < sp.TimedRd; i++ {
		_ = conn.SetReadDeadline(time.Now().Add(d))
		n, err := conn.Read(buf)
		if n > 0 {
			rs.log.AddT("cli_read", rs.key, int64(n), time.Now().UnixNano(), nil)
			rs.arrive(vfC06Down, buf[:n])
		}
		if err != nil {
			rs.mu.Lock()
			rs.timedOut++
			rs.mu.Unlock()
		}
	}
	_ = conn.SetReadDeadline(time.Time{})
}

func (run *vfC06Run) driveDialFail(rs *vfC06RS, u *vfC06UserRT, conn net.Conn, err error, r *rand.Rand) {
	want := rs.dialMsg
	judge := func(e error, how string) {
		var de coreErrs.DialError
		rs.mu.Lock()
		defer rs.mu.Unlock()
		switch {
		case e == nil:
			rs.dialDetail = how + ": no error although the outbound refused the dial"
		case !errors.As(e, &de):
			rs.dialDetail = fmt.Sprintf("%s: error is not a DialError: %T %v", how, e, e)
		case de.Message != want:
			rs.dialDetail = fmt.Sprintf("%s: DialError.Message=%q, outbound error text=%q", how, de.Message, want)
		default:
			rs.dialFailOK = true
		}
	}
	if !u.sp.FastOpen {
		judge(err, "Client.TCP")
		if conn != nil {
			rs.conn = conn
			go rs.clientReader(conn) // anything relayed would be counted
			time.Sleep(6 * run.lat)
			run.closeClient(rs)
		}
		return
	}
	if err != nil { // fast open may still report the failure from TCP itself
		judge(err, "Client.TCP(fast open)")
		return
	}
	rs.conn = conn
	run.timedReads(rs, conn)
	if rs.sp.Up > 0 { // fast open: writing before the response is legal
		run.write(rs, vfC06Up, conn, 0, int64(rs.sp.Up), r, -1)
	}
	buf := make([]byte, 4096)
	_ = conn.SetReadDeadline(time.Now().Add(vfC06WaitCap)) // virtual: a response that never comes must not hang the bubble
	n, rerr := conn.Read(buf)
	if n > 0 {
		rs.arrive(vfC06Down, buf[:n])
	}
	judge(rerr, "first Read(fast open)")
	run.closeClient(rs)
}

// probeAfterVeto: the user was vetoed; after the close had ample (virtual) time to reach the
// client on a lossless link, a new Client.TCP must fail with a closed-connection error.
func (run *vfC06Run) probeAfterVeto(u *vfC06UserRT) {
	time.Sleep(time.Second + 8*run.lat)
	conn, err := u.cl.TCP(fmt.Sprintf("afterveto.u%d.c06.verif:9", u.sp.Idx))
	u.mu.Lock()
	u.probed, u.probeErr, u.probeOK = true, err, err == nil
	u.mu.Unlock()
	if conn != nil {
		_ = conn.Close()
	}
}

func vfC06RunCase(t *testing.T, k *vfKit, c vfC06Case) {
	synctest.Test(t, func(t *testing.T) {
		run := &vfC06Run{c: &c, byAddr: map[string]*vfC06RS{}, lat: time.Duration(c.LatencyMs) * time.Millisecond}
		var tl *vfC06Traffic
		w, err := vfNewWorld(vfServerOpts{
			Latency: run.lat,
			Config: func(sc *server.Config) {
				if c.Logger {
					tl = &vfC06Traffic{vfTraffic: &vfTraffic{}}
					sc.TrafficLogger = tl
				}
				if c.Kind == "hooked" {
					sc.RequestHook = &vfC06Hook{run: run}
				}
				if c.Kind == "churn" && sc.EventLogger != nil {
					sc.EventLogger = &vfC06Events{EventLogger: sc.EventLogger, run: run}
				}
			},
		})
		if err != nil {
			t.Fatalf("harness: server: %v", err)
		}
		run.w = w
		if tl != nil {
			tl.log = w.Log
		}
		w.Out.OnTCP = run.onTCP
		byID := map[string]*vfC06UserRT{}
		for i := range c.Users {
			u := &vfC06UserRT{sp: &c.Users[i], id: "u" + strconv.Itoa(i), vetoed: make(chan struct{}), pending: make(chan struct{})}
			run.users = append(run.users, u)
			byID[u.id] = u
		}
		for i := range c.Relays {
			sp := &c.Relays[i]
			rs := &vfC06RS{
				sp: sp, key: "r" + strconv.Itoa(sp.Idx), log: w.Log, errAfter: -1, eofAfter: -1,
				addr:   vfC06Pad(fmt.Sprintf("r%d.u%d.", sp.Idx, sp.User), fmt.Sprintf("c06.verif:%d", 1000+sp.Idx), sp.AddrLen, 'x'),
				keys:   [2]uint64{vfC06Key(c.Salt, sp.Idx, vfC06Up), vfC06Key(c.Salt, sp.Idx, vfC06Down)},
				dialed: make(chan struct{}), tgtEOF: make(chan struct{}), readerDone: make(chan struct{}),
				dialMsg: vfC06Pad(fmt.Sprintf("vfC06 refused %s r%d nonce %016x ", c.CaseID, sp.Idx, vfC06Mix(c.Salt+uint64(sp.Idx))), "", sp.MsgLen, 'm'),
			}
			if sp.Mode == "t_error" {
				rs.errAfter = int64(sp.CutAt)
			}
			if sp.Mode == "t_halfclose" {
				rs.eofAfter = int64(sp.Down)
			}
			run.relays = append(run.relays, rs)
			run.byAddr[rs.addr] = rs
			if sp.Hook == "rewrite" {
				run.byAddr["hooked."+rs.addr] = rs
			}
		}
		if c.Kind == "churn" { // wire the rounds: A(r) waits for round r-1, B(r,*) wait for A(r)'s teardown window
			var prev *vfC06RS
			as := map[int]*vfC06RS{}
			for _, rs := range run.relays {
				if rs.sp.Role == "A" {
					rs.winOpen, rs.roundDone, rs.bDone = make(chan struct{}), make(chan struct{}), make(chan struct{}, 64)
					if prev != nil {
						rs.gate = prev.roundDone
					}
					prev, as[rs.sp.Round] = rs, rs
				}
			}
			for _, rs := range run.relays {
				if a := as[rs.sp.Round]; rs.sp.Role == "B" && a != nil {
					rs.gate, rs.tellA = a.winOpen, a.bDone
					a.nB++
				}
			}
		}
		if tl != nil {
			delay := time.Duration(c.LogDelayUs) * time.Microsecond
			tl.Verdict = func(call int, id string, tx, rx uint64) bool {
				if delay > 0 {
					time.Sleep(delay) // the approval is only given (and logged) when LogTraffic returns
				}
				u := byID[id]
				if u == nil {
					return true
				}
				u.mu.Lock()
				u.calls++
				n := u.calls
				veto := u.sp.VetoAt > 0 && (n == u.sp.VetoAt || (u.sp.Sticky && n > u.sp.VetoAt))
				first := veto && !u.vetoStarted
				if first {
					u.vetoStarted = true
				}
				u.mu.Unlock()
				if first {
					close(u.pending)
					if u.sp.HoldMs > 0 { // never sleep while holding a mutex/Once: that is not durable blocking
						time.Sleep(time.Duration(u.sp.HoldMs) * time.Millisecond)
					}
				}
				if veto {
					u.mu.Lock()
					u.vetoFired = true
					u.mu.Unlock()
					u.vetoOnce.Do(func() { close(u.vetoed) })
				}
				return !veto
			}
		}
		for _, u := range run.users {
			fo := u.sp.FastOpen
			cl, _, _, err := w.HyClient("ok:"+u.id, func(cc *client.Config) { cc.FastOpen = fo })
			if err != nil {
				w.Close()
				t.Fatalf("harness: client %s: %v", u.id, err)
			}
			u.cl = cl
		}
		if c.LossPct > 0 {
			w.Router.SetLoss(c.LossPct, k.Rand(c.CaseID+"/loss"))
		}
		var all vfC06Group
		for _, u := range run.users {
			all.Go(func() {
				var wg vfC06Group
				for _, ri := range u.sp.Relays {
					rs := run.relays[ri]
					wg.Go(func() { run.drive(rs) })
				}
				wg.Wait()
			})
		}
		all.Wait()
		// tear every relay down from the client side, then let the server finish (virtual settle)
		for _, rs := range run.relays {
			if rs.conn != nil {
				_ = rs.conn.Close()
			}
		}
		w.Router.SetLoss(0, nil)
		time.Sleep(3*time.Second + 20*run.lat)
		synctest.Wait()
		// every relay is down now, so no further LogTraffic call can come: whoever was vetoed is known
		for _, u := range run.users {
			u.mu.Lock()
			fired := u.vetoFired
			u.mu.Unlock()
			if fired {
				all.Go(func() { run.probeAfterVeto(u) })
			}
		}
		all.Wait()
		time.Sleep(time.Second + 10*run.lat)
		synctest.Wait()
		evs := w.Log.Snapshot()
		w.Close()
		synctest.Wait()
		// Observation outside the property statement: relay goroutines the server never releases.
		if n, sample := vfC06StuckRelays(); n > 0 {
			k.Count("obs_server_relay_goroutines_stuck", int64(n))
			k.Count("obs_worlds_with_stuck_relay_goroutine", 1)
			vfC06StuckOnce.Do(func() {
				k.Sample(map[string]any{"observation": "server relay goroutine still blocked after client, server and target were closed", "case_id": c.CaseID, "case": c, "stack": sample})
			})
			if tl != nil { // a write deadline in the past is the only handle that releases them
				tl.smu.Lock()
				for _, st := range tl.streams {
					_ = st.SetWriteDeadline(time.Unix(1, 0))
				}
				tl.smu.Unlock()
				synctest.Wait()
			}
		}
		vfC06Judge(k, run, evs)
	})
}

// ---------------------------------------------------------------- oracle

type vfC06Acct struct {
	handed   [2]int64 // every chunk given to LogTraffic (approved or vetoed)
	approved [2]int64
	fwd      [2]int64 // Up: bytes written to the target; Down: bytes read by the client
	took     int64    // bytes the server read from the target
	last     [2]int64 // size of the last handed chunk
	chunks   [2][]int64
	calls    int
	vetoes   int
	vetoIdx  int // log index of the first vetoing LogTraffic call
	flagged  [2]bool
}

func vfC06Judge(k *vfKit, run *vfC06Run, evs []vfEvent) {
	c := run.c
	rep := func(extra map[string]any) map[string]any {
		m := map[string]any{"case_id": c.CaseID, "case": c}
		for a, b := range extra {
			m[a] = b
		}
		return m
	}
	tail := func(i int) []vfEvent { return evs[max(0, i-10):min(len(evs), i+2)] }
	relayUser := map[string]int{}
	hookedUser := map[int]bool{} // the accounting clause only covers connections no request hook intercepts
	for _, rs := range run.relays {
		relayUser[rs.key] = rs.sp.User
		if rs.sp.Hook != "" {
			hookedUser[rs.sp.User] = true
		}
	}
	acct := make([]*vfC06Acct, len(run.users))
	for i := range acct {
		acct[i] = &vfC06Acct{}
	}
	// ---- pass over the ordered log: oracle 4 (approval precedes arrival) and bookkeeping
	for i, e := range evs {
		switch e.Kind {
		case "tl_traffic":
			k.Count("ev_tl_traffic", 1)
			id, _ := e.F["id"].(string)
			ui, err := strconv.Atoi(strings.TrimPrefix(id, "u"))
			if !c.Logger || err != nil || !strings.HasPrefix(id, "u") || ui < 0 || ui >= len(acct) {
				k.Violation("logger:unknown-user-id", rep(map[string]any{"event": e}), "LogTraffic for id %q which is no user of this world", id)
				continue
			}
			a := acct[ui]
			tx, _ := e.F["tx"].(uint64)
			rx, _ := e.F["rx"].(uint64)
			ok, _ := e.F["ok"].(bool)
			a.calls++
			if !ok {
				a.vetoes++
				if a.vetoes == 1 {
					a.vetoIdx = i
				}
			}
			for d, n := range [2]int64{int64(tx), int64(rx)} {
				if n == 0 {
					continue
				}
				a.handed[d] += n
				a.last[d] = n
				a.chunks[d] = append(a.chunks[d], n)
				if ok {
					a.approved[d] += n
				}
			}
		case "tgt_write", "cli_read":
			d := vfC06Up
			if e.Kind == "cli_read" {
				d = vfC06Down
			}
			k.Count("ev_"+e.Kind, 1)
			ui, known := relayUser[e.Tag]
			if !known {
				continue
			}
			a := acct[ui]
			a.fwd[d] += e.N
			if c.Logger && !hookedUser[ui] && a.fwd[d] > a.approved[d] && !a.flagged[d] {
				a.flagged[d] = true
				what := "written to the target"
				if d == vfC06Down {
					what = "read by the client"
				}
				k.Violation(fmt.Sprintf("copy:forwarded-exceeds-approved-%s", [2]string{"tx", "rx"}[d]),
					rep(map[string]any{"relay": e.Tag, "user": ui, "event": e, "tail": tail(i), "approved": a.approved[d], "forwarded": a.fwd[d], "vetoes_so_far": a.vetoes}),
					"user u%d: %d bytes %s (event %d, relay %s) but the traffic logger had approved only %d at that instant (vetoes so far: %d)",
					ui, a.fwd[d], what, i, e.Tag, a.approved[d], a.vetoes)
			}
		case "srv_take":
			k.Count("ev_srv_take", 1)
			if ui, known := relayUser[e.Tag]; known {
				acct[ui].took += e.N
			}
		}
	}
	if !c.Logger {
		k.Count("ev_worlds_without_logger", 1)
	}
	// ---- per relay: prefix, completeness, dial failure
	for _, rs := range run.relays {
		sp := rs.sp
		u := run.users[sp.User]
		rs.mu.Lock()
		u.mu.Lock()
		vetoed := u.vetoFired
		u.mu.Unlock()
		rrep := func(extra map[string]any) map[string]any {
			m := rep(map[string]any{"relay": sp.Idx, "mode": sp.Mode, "user": sp.User, "fast_open": u.sp.FastOpen,
				"sent": rs.sent, "attempted": rs.attempted, "arrived": rs.got, "write_err": rs.writeErr,
				"read_err": fmt.Sprint(rs.readErr), "tcp_err": fmt.Sprint(rs.tcpErr), "user_vetoed": vetoed,
				"client_closed": rs.cliClosed, "target_closed": rs.tgtClosed, "server_took": rs.srvTook})
			for a, b := range extra {
				m[a] = b
			}
			return m
		}
		if sp.AddrLen > 0 || sp.MsgLen > 0 {
			k.Count("ev_varint_boundary_relays", 1)
		}
		if rs.timedOut > 0 {
			k.Count("ev_reads_timed_out_during_dial", int64(rs.timedOut))
			k.Count("ev_relays_polled_during_slow_dial", 1)
		}
		if rs.tcpHung {
			key, what := "dial:request-never-answered", "the outbound accepts the dial"
			if sp.Mode == "dial_fail" {
				key, what = "dial:error-not-carried", "the outbound refused the dial"
			}
			k.Violation(key, rrep(map[string]any{"addr_len": len(rs.addr), "addr": rs.addr}),
				"relay %d: Client.TCP(address of %d bytes) did not return within %s of virtual time although %s", sp.Idx, len(rs.addr), vfC06WaitCap, what)
			rs.mu.Unlock()
			continue
		}
		if sp.Hook != "" {
			k.Count("ev_hooked_relays", 1)
		}
		if sp.Mode == "hook_dial_fail" || sp.Mode == "hook_err" {
			// no target ever existed: the client application must not read a single byte
			k.Count("ev_hooked_no_target_cases", 1)
			switch {
			case rs.got[vfC06Down] != 0 || rs.srvTook != 0:
				k.Violation("dial:relayed-after-failed-dial", rrep(map[string]any{"hook": sp.Hook, "first_bytes_mismatch": rs.bad[vfC06Down]}),
					"relay %d (%s, request intercepted by the hook, no target ever existed): the client application read %d bytes that no target sent (%s)", sp.Idx, sp.Mode, rs.got[vfC06Down], rs.bad[vfC06Down])
			case rs.got[vfC06Up] != 0:
				k.Violation("dial:relayed-after-failed-dial", rrep(nil), "relay %d (%s): %d bytes reached a target although none was dialled", sp.Idx, sp.Mode, rs.got[vfC06Up])
			default:
				k.Count("ev_hooked_nothing_relayed", 1)
				if rs.compl[vfC06Down] != "ok" {
					k.Count("hooked_no_target_stream_not_ended", 1)
				}
			}
			rs.mu.Unlock()
			continue
		}
		if sp.Mode == "dial_fail" {
			k.Count("ev_dial_fail_cases", 1)
			if rs.dialFailOK {
				k.Count("ev_dial_error_carried", 1)
			} else if vetoed {
				// parallel worlds: the user's connection may have been closed by a veto before this request
				k.Count("dial_fail_skipped_veto", 1)
			} else {
				k.Violation("dial:error-not-carried", rrep(map[string]any{"want_message": rs.dialMsg}), "relay %d (%s): %s", sp.Idx, rs.addr, rs.dialDetail)
			}
			if rs.got[vfC06Down] != 0 || rs.got[vfC06Up] != 0 || rs.srvTook != 0 {
				k.Violation("dial:relayed-after-failed-dial", rrep(nil), "relay %d: dial failed but %d bytes reached the client", sp.Idx, rs.got[vfC06Down])
			}
			rs.mu.Unlock()
			continue
		}
		if rs.tcpErr != nil {
			if vetoed {
				k.Count("relays_refused_after_veto", 1)
			} else {
				k.Violation("client:unexpected-tcp-error", rrep(nil), "relay %d: Client.TCP(%s) failed although the outbound accepts it and nothing was vetoed: %v", sp.Idx, rs.addr, rs.tcpErr)
			}
			rs.mu.Unlock()
			continue
		}
		// oracle 1: prefix
		names := [2]string{"client->target", "target->client"}
		for d := 0; d < 2; d++ {
			if rs.bad[d] != "" {
				k.Violation("relay:not-a-prefix-"+[2]string{"up", "down"}[d], rrep(map[string]any{"dir": names[d], "mismatch": rs.bad[d]}),
					"relay %d (%s) %s: received bytes are not a prefix of what was sent: %s", sp.Idx, sp.Mode, names[d], rs.bad[d])
			} else if rs.got[d] > rs.attempted[d] {
				k.Violation("relay:more-than-sent-"+[2]string{"up", "down"}[d], rrep(map[string]any{"dir": names[d]}),
					"relay %d (%s) %s: %d bytes arrived but only %d were ever written", sp.Idx, sp.Mode, names[d], rs.got[d], rs.attempted[d])
			} else {
				k.Count("ev_prefix_ok_dirs", 1)
				if rs.got[d] < rs.sent[d] {
					k.Count("cut_tails_"+[2]string{"up", "down"}[d], 1)
				}
			}
		}
		if rs.drained != rs.got[vfC06Up] && rs.tgtEOFClosed() {
			k.Inconclusive(fmt.Sprintf("%s relay %d: harness self-check: target drained %d, wrapper saw %d", c.CaseID, sp.Idx, rs.drained, rs.got[vfC06Up]))
		}
		// oracle 2: completeness in shapes (i) and (ii), only when nothing was vetoed for this user
		for d := 0; d < 2; d++ {
			if rs.shape[d] == "" {
				continue
			}
			if vetoed {
				k.Count("completeness_skipped_veto", 1)
				continue
			}
			shape, want := rs.shape[d], rs.want[d]
			switch {
			case rs.sent[d] < want:
				// the sender could not even finish writing although the other side had not closed
				k.Violation("relay:write-failed-before-any-close", rrep(map[string]any{"dir": names[d], "shape": shape, "want": want}),
					"relay %d (%s) %s: sender could write only %d of %d bytes (%s) although nobody had closed", sp.Idx, sp.Mode, names[d], rs.sent[d], want, rs.writeErr[d])
			case rs.got[d] < want:
				k.Violation("relay:tail-missing-shape-"+shape, rrep(map[string]any{"dir": names[d], "shape": shape, "want": want, "wait": rs.compl[d]}),
					"relay %d (%s) %s: sender wrote %d bytes %s, receiver got only %d (wait outcome %s)", sp.Idx, sp.Mode, names[d], want,
					map[string]string{"i": "and nobody closed until virtual quiescence", "ii": "then closed while the opposite direction was idle"}[shape], rs.got[d], rs.compl[d])
			default:
				k.Count("ev_complete_shape_"+shape, 1)
				k.Count("complete_bytes", want)
				if shape == "ii" && rs.compl[d] != "ok" {
					k.Count("complete_but_no_eof_seen", 1)
				}
			}
		}
		if rs.stuckWrite {
			k.Count("obs_client_write_stuck_after_close", 1)
		}
		if sp.Role == "B" {
			if rs.gateMissed {
				k.Count("churn_window_missed", 1)
			} else {
				k.Count("ev_churn_started_in_teardown_window", 1)
			}
		}
		k.Count("ev_relays_judged", 1)
		rs.mu.Unlock()
	}
	// ---- per user: accounting at teardown and veto consequences
	for ui, u := range run.users {
		a := acct[ui]
		u.mu.Lock()
		fired, probed, probeOK, probeErr := u.vetoFired, u.probed, u.probeOK, u.probeErr
		u.mu.Unlock()
		nrel := len(u.sp.Relays)
		if c.Logger && hookedUser[ui] {
			k.Count("accounting_skipped_hooked", 1)
		}
		if c.Logger && !hookedUser[ui] {
			for d := 0; d < 2; d++ {
				// one chunk per stream may be in flight (handed to the logger, not forwarded) at teardown
				var bound int64
				if nrel == 1 {
					bound = a.last[d]
				} else {
					cs := append([]int64(nil), a.chunks[d]...)
					sort.Slice(cs, func(i, j int) bool { return cs[i] > cs[j] })
					for i := 0; i < len(cs) && i < nrel; i++ {
						bound += cs[i]
					}
				}
				dn := [2]string{"tx", "rx"}[d]
				urep := rep(map[string]any{"user": ui, "dir": dn, "streams": nrel, "handed": a.handed[d], "approved": a.approved[d],
					"forwarded_observed": a.fwd[d], "server_took_from_target": a.took, "last_chunk": a.last[d], "bound": bound, "calls": a.calls, "vetoes": a.vetoes})
				if d == vfC06Up {
					// forwarded tx is observed exactly (every write the server makes to the target)
					diff := a.handed[d] - a.fwd[d]
					if diff < 0 || diff > bound {
						k.Violation("account:tx-logged-vs-forwarded", urep,
							"user u%d tx: %d bytes handed to LogTraffic, %d bytes written to the target; difference %d outside [0,%d] (%d stream(s))", ui, a.handed[d], a.fwd[d], diff, bound, nrel)
					} else {
						k.Count("ev_account_tx_ok", 1)
						if diff == 0 {
							k.Count("account_tx_exact", 1)
						}
					}
				} else {
					// forwarded rx lies between what the client read and what the server took from the target
					if a.handed[d] < a.fwd[d] || a.handed[d] > a.took+bound {
						k.Violation("account:rx-logged-vs-forwarded", urep,
							"user u%d rx: %d bytes handed to LogTraffic, but the client read %d and the server took only %d from the target (allowed: [%d, %d])", ui, a.handed[d], a.fwd[d], a.took, a.fwd[d], a.took+bound)
					} else {
						k.Count("ev_account_rx_ok", 1)
						if a.handed[d] == a.fwd[d] {
							k.Count("account_rx_exact", 1)
						}
					}
				}
			}
		}
		if fired {
			k.Count("ev_veto_fired", 1)
			var ce coreErrs.ClosedError
			switch {
			case !probed:
				k.Inconclusive(fmt.Sprintf("%s u%d: veto fired after the script had ended; no probe", c.CaseID, ui))
			case probeOK:
				var mine []vfEvent // this user's events; the witness is the window around the vetoing call
				pos := 0
				for i, e := range evs {
					id, _ := e.F["id"].(string)
					ru, isRelay := relayUser[e.Tag]
					if id == u.id || (isRelay && ru == ui) || strings.Contains(fmt.Sprint(e.F["addr"]), fmt.Sprintf(".u%d.", ui)) {
						if i == a.vetoIdx {
							pos = len(mine)
						}
						mine = append(mine, e)
					}
				}
				around := mine[max(0, pos-10):min(len(mine), pos+10)]
				k.Violation("veto:connection-still-usable", rep(map[string]any{"user": ui, "veto_at": u.sp.VetoAt, "veto_log_index": a.vetoIdx, "events_of_user_around_veto": around}),
					"user u%d: LogTraffic call %d returned false (log index %d) but the connection was not closed: a Client.TCP more than 4 s (virtual) later succeeded", ui, u.sp.VetoAt, a.vetoIdx)
			case !errors.As(probeErr, &ce):
				k.Violation("veto:not-a-closed-error", rep(map[string]any{"user": ui, "err": fmt.Sprint(probeErr)}),
					"user u%d vetoed; later Client.TCP failed with %T %v, want a ClosedError", ui, probeErr, probeErr)
			default:
				k.Count("ev_veto_closed_conn", 1)
			}
		} else if u.sp.VetoAt > 0 {
			k.Count("veto_not_reached", 1)
		}
	}
}

func (rs *vfC06RS) tgtEOFClosed() bool {
	select {
	case <-rs.tgtEOF:
		return true
	default:
		return false
	}
}

var vfC06StuckOnce sync.Once

// ---------------------------------------------------------------- tests

func vfC06Sig(c *vfC06Case, rl *vfC06Relay) string {
	u := c.Users[rl.User]
	return fmt.Sprintf("%s|%d|%d|%d|%d|%d|%s|%d|%d|%d|%d|%d|%d|%d|%v|%v|%d|%d|%d|%d", rl.Hook, rl.HookPeek, rl.GateMs, rl.TimedRd, rl.AddrLen, rl.MsgLen, rl.Mode, rl.Up, rl.Down, rl.Pre, rl.UpChunk, rl.DownChunk, rl.CutAt, rl.ReadBuf,
		u.FastOpen, c.Logger, u.VetoAt, len(u.Relays), c.LatencyMs, c.LossPct)
}

// vfC06Shard reads VERIF_C06_SHARD="i/n" (set per job by the property definition): this process
// runs the cases whose index is i mod n. Bubbles run strictly one after the other inside a
// process (go1.25.0: concurrent bubbles + GC can freeze a bubble); parallelism = processes.
func vfC06Shard() (int, int) {
	var i, n int
	if _, err := fmt.Sscanf(os.Getenv("VERIF_C06_SHARD"), "%d/%d", &i, &n); err != nil || n < 1 || i < 0 || i >= n {
		return 0, 1
	}
	return i, n
}

// vfC06Part names the harness part of this process: results of different shards must not share a name.
func vfC06Part(base string) string {
	si, sn := vfC06Shard()
	return fmt.Sprintf("%s-%dof%d", base, si+1, sn)
}

func vfC06RunAll(t *testing.T, k *vfKit, cases []vfC06Case) {
	vfTLSCert()
	si, sn := vfC06Shard()
	for i := range cases {
		c := cases[i]
		if i%sn != si {
			continue
		}
		if rc := k.ReplayCase(); rc != "" && rc != c.CaseID {
			continue
		}
		for j := range c.Relays {
			k.Eval()
			k.Nontrivial(vfC06Sig(&c, &c.Relays[j]))
		}
		if i < 3 {
			k.Sample(c)
		}
		// no garbage collection while a bubble runs, a full one between bubbles
		old := debug.SetGCPercent(-1)
		vfC06RunCase(t, k, c)
		debug.SetGCPercent(old)
		runtime.GC()
	}
}

// TestVerifC06Relay: worlds of 2..6 users with one relay each (exact per-direction accounting).
func TestVerifC06Relay(t *testing.T) {
	k := vfNewKit(t, "C06", vfC06Part("c06-relay"))
	defer k.Finish()
	n := k.N(22, 560)
	var cases []vfC06Case
	for i := 0; i < n; i++ {
		cases = append(cases, vfC06Gen(k, fmt.Sprintf("c06x-%d", i), "exact", 1))
	}
	vfC06RunAll(t, k, cases)
}

// TestVerifC06Churn: rounds of "relay A is being torn down with one direction still running while
// relays B of other users start", back to back on one server. GOMAXPROCS(1) (and no GC inside a
// bubble, see vfC06RunAll) for this part only: a sync.Pool then hands an object that was just put
// back to the very next taker, as it does on a busy server.
func TestVerifC06Churn(t *testing.T) {
	defer runtime.GOMAXPROCS(runtime.GOMAXPROCS(1))
	k := vfNewKit(t, "C06", vfC06Part("c06-churn"))
	defer k.Finish()
	n := k.N(4, 32)
	var cases []vfC06Case
	for i := 0; i < n; i++ {
		cases = append(cases, vfC06GenChurn(k, fmt.Sprintf("c06c-%d", i)))
	}
	vfC06RunAll(t, k, cases)
}

// TestVerifC06Boundary: address and dial-error-message lengths at the varint width changes, fast open
// off (case 0) and on (case 1), enumerated, not sampled.
func TestVerifC06Boundary(t *testing.T) {
	k := vfNewKit(t, "C06", vfC06Part("c06-boundary"))
	defer k.Finish()
	cases := []vfC06Case{vfC06GenBoundary(k, "c06b-0", false), vfC06GenBoundary(k, "c06b-1", true)}
	for i := 2; i < k.N(2, 16); i++ {
		cases = append(cases, vfC06GenBoundary(k, fmt.Sprintf("c06b-%d", i), i%2 == 1))
	}
	vfC06RunAll(t, k, cases)
}

// TestVerifC06Hooked: worlds whose server has a RequestHook intercepting the relays (see vfC06GenHooked).
func TestVerifC06Hooked(t *testing.T) {
	k := vfNewKit(t, "C06", vfC06Part("c06-hooked"))
	defer k.Finish()
	n := k.N(4, 40)
	var cases []vfC06Case
	for i := 0; i < n; i++ {
		cases = append(cases, vfC06GenHooked(k, fmt.Sprintf("c06h-%d", i)))
	}
	vfC06RunAll(t, k, cases)
}

// TestVerifC06Parallel: one user, 1..32 concurrent streams on one connection (summed accounting).
func TestVerifC06Parallel(t *testing.T) {
	k := vfNewKit(t, "C06", vfC06Part("c06-parallel"))
	defer k.Finish()
	n := k.N(4, 60)
	r := k.Rand("par")
	var cases []vfC06Case
	for i := 0; i < n; i++ {
		p := 1 + r.Intn(32)
		switch i {
		case 0:
			p = 32
		case 1:
			p = 2 + r.Intn(6)
		}
		cases = append(cases, vfC06Gen(k, fmt.Sprintf("c06p-%d", i), "parallel", p))
	}
	vfC06RunAll(t, k, cases)
}
