//go:build verif

package bbr

// C12 engine 2: REAL quic-go connections in a testing/synctest bubble (virtual time) over
// quic-go's simnet, with a harness Router that models the bottleneck (rate, tail-drop queue,
// one-way delay, random loss, reordering, path MTU) on virtual time. The server side installs
// vfC12Mon (embedding the real bbrSender) with conn.SetCongestionControl right after Accept,
// exactly where Hysteria installs BBR, and pushes a bulk transfer through it. The same oracles
// run after every callback, and the same structural predicate runs over the call sequence real
// quic-go produces: if it ever fails here, the predicate (and the simulator built on it) is wrong.

import (
	"context"
	"crypto/ecdsa"
	"crypto/elliptic"
	crand "crypto/rand"
	"crypto/tls"
	"crypto/x509"
	"crypto/x509/pkix"
	"fmt"
	"io"
	"math/big"
	"math/rand"
	"net"
	"sync"
	"sync/atomic"
	"testing"
	"testing/synctest"
	"time"

	"github.com/apernet/quic-go"
	"github.com/apernet/quic-go/congestion"
	"github.com/apernet/quic-go/testutils/simnet"
)

var (
	vfC12CertOnce sync.Once
	vfC12Cert     tls.Certificate
)

// vfC12TLSCert: self-signed, valid 1970..2200 (the bubble clock starts on 2000-01-01).
func vfC12TLSCert() tls.Certificate {
	vfC12CertOnce.Do(func() {
		key, err := ecdsa.GenerateKey(elliptic.P256(), crand.Reader)
		if err != nil {
			panic(err)
		}
		tpl := &x509.Certificate{
			SerialNumber: big.NewInt(12),
			Subject:      pkix.Name{CommonName: "verif-c12"},
			NotBefore:    time.Unix(0, 0),
			NotAfter:     time.Date(2200, 1, 1, 0, 0, 0, 0, time.UTC),
			KeyUsage:     x509.KeyUsageDigitalSignature,
			ExtKeyUsage:  []x509.ExtKeyUsage{x509.ExtKeyUsageServerAuth},
			DNSNames:     []string{"verif-c12"},
		}
		der, err := x509.CreateCertificate(crand.Reader, tpl, tpl, &key.PublicKey, key)
		if err != nil {
			panic(err)
		}
		vfC12Cert = tls.Certificate{Certificate: [][]byte{der}, PrivateKey: key}
	})
	return vfC12Cert
}

type vfC12QCase struct {
	CaseID     string `json:"case_id"`
	Profile    string `json:"profile"`
	Link       string `json:"link"`
	CapBps     int64  `json:"capacity_bytes_per_s"`
	OneWayMs   int64  `json:"one_way_ms"`
	QueueBytes int64  `json:"queue_bytes"`
	LossPPM    int    `json:"loss_ppm"`
	ReorderPPM int    `json:"reorder_ppm"`
	ReorderMs  int64  `json:"reorder_ms"`
	PathMTU    int    `json:"path_mtu"`
	Bytes      int64  `json:"transfer_bytes"`
	Upstream   bool   `json:"client_sends_too"` // makes the server send ACK-only packets
}

// vfC12Router is a simnet.Router: packets FROM the server pass the bottleneck, the reverse
// direction only has the propagation delay. Everything runs on time.AfterFunc = virtual time.
type vfC12Router struct {
	mu        sync.Mutex
	nodes     map[string]simnet.PacketReceiver
	srv       string
	c         vfC12QCase
	rnd       *rand.Rand
	busyUntil time.Time

	Fwd, FwdBytes, QueueDrops, LossDrops, MTUDrops, Reordered, Back atomic.Int64
}

func (r *vfC12Router) AddNode(addr net.Addr, rcv simnet.PacketReceiver) {
	r.mu.Lock()
	r.nodes[addr.String()] = rcv
	r.mu.Unlock()
}

func (r *vfC12Router) SendPacket(p simnet.Packet) error {
	r.mu.Lock()
	rcv, ok := r.nodes[p.To.String()]
	if !ok {
		r.mu.Unlock()
		return nil
	}
	oneWay := time.Duration(r.c.OneWayMs) * time.Millisecond
	if p.From.String() != r.srv {
		r.mu.Unlock()
		r.Back.Add(1)
		time.AfterFunc(oneWay, func() { rcv.RecvPacket(p) })
		return nil
	}
	now := time.Now()
	size := int64(len(p.Data))
	drop := ""
	switch {
	case r.c.PathMTU > 0 && len(p.Data) > r.c.PathMTU:
		drop = "mtu"
	case r.c.LossPPM > 0 && r.rnd.Intn(1_000_000) < r.c.LossPPM:
		drop = "loss"
	default:
		backlog := int64(0)
		if r.busyUntil.After(now) {
			backlog = int64(r.busyUntil.Sub(now)) * r.c.CapBps / 1e9
		}
		if r.c.QueueBytes > 0 && backlog+size > r.c.QueueBytes {
			drop = "queue"
		}
	}
	if drop != "" {
		r.mu.Unlock()
		switch drop {
		case "mtu":
			r.MTUDrops.Add(1)
		case "loss":
			r.LossDrops.Add(1)
		default:
			r.QueueDrops.Add(1)
		}
		return nil
	}
	start := now
	if r.busyUntil.After(now) {
		start = r.busyUntil
	}
	dep := start.Add(time.Duration(size*1e9/r.c.CapBps + 1))
	r.busyUntil = dep
	delay := dep.Sub(now) + oneWay
	if r.c.ReorderPPM > 0 && r.rnd.Intn(1_000_000) < r.c.ReorderPPM {
		delay += time.Duration(r.rnd.Int63n(r.c.ReorderMs*1e6 + 1))
		r.Reordered.Add(1)
	}
	r.mu.Unlock()
	r.Fwd.Add(1)
	r.FwdBytes.Add(size)
	time.AfterFunc(delay, func() { rcv.RecvPacket(p) })
	return nil
}

type vfC12QResult struct {
	Case        vfC12QCase `json:"case"`
	Err         string     `json:"error,omitempty"`
	Received    int64      `json:"bytes_received"`
	VirtualS    float64    `json:"virtual_seconds"`
	Util        float64    `json:"utilisation_whole_transfer"`
	Callbacks   int64      `json:"monitored_callbacks"`
	Events      int64      `json:"congestion_events"`
	MTUEvents   int64      `json:"datagram_size_increases"`
	FinalMTU    int64      `json:"final_datagram_size"`
	QueueDrops  int64      `json:"queue_drops"`
	LossDrops   int64      `json:"loss_drops"`
	MTUDrops    int64      `json:"mtu_drops"`
	Modes       int        `json:"modes_bitmask"`
	AckOnlySent int64      `json:"ack_only_packets_sent"`
}

func vfC12RunQUIC(t *testing.T, k *vfKit, agg *vfC12Agg, c vfC12QCase, minUtil map[string]float64) {
	seed := int64(vfC12HashStr(fmt.Sprintf("%d/%s", k.Seed, c.CaseID)) >> 1)
	rand.Seed(seed)
	res := vfC12QResult{Case: c}
	var mon *vfC12Mon
	onViol := func(key, detail string, tail []string) {
		k.Violation(key, map[string]any{"case_id": c.CaseID, "case": c, "engine": "real-quic", "last_calls": tail}, "%s [real quic-go, %s %s]: %s", c.CaseID, c.Link, c.Profile, detail)
	}
	synctest.Test(t, func(t *testing.T) {
		srvAddr := &net.UDPAddr{IP: net.IPv4(10, 12, 0, 1), Port: 4433}
		cliAddr := &net.UDPAddr{IP: net.IPv4(10, 12, 0, 2), Port: 50000}
		rt := &vfC12Router{nodes: map[string]simnet.PacketReceiver{}, srv: srvAddr.String(), c: c, rnd: rand.New(rand.NewSource(seed))}
		sEP := simnet.NewBlockingSimConn(srvAddr, rt)
		cEP := simnet.NewBlockingSimConn(cliAddr, rt)
		sTr := &quic.Transport{Conn: sEP}
		cTr := &quic.Transport{Conn: cEP}
		qc := func() *quic.Config {
			return &quic.Config{
				MaxIdleTimeout:                 30 * time.Second,
				HandshakeIdleTimeout:           20 * time.Second,
				InitialStreamReceiveWindow:     4 << 20,
				MaxStreamReceiveWindow:         16 << 20,
				InitialConnectionReceiveWindow: 8 << 20,
				MaxConnectionReceiveWindow:     32 << 20,
				DisablePathManager:             true,
			}
		}
		closeAll := func() {
			_ = sTr.Close()
			_ = cTr.Close()
			_ = sEP.Close()
			_ = cEP.Close()
		}
		ln, err := sTr.Listen(&tls.Config{Certificates: []tls.Certificate{vfC12TLSCert()}, NextProtos: []string{"vf-c12"}}, qc())
		if err != nil {
			res.Err = "listen: " + err.Error()
			closeAll()
			return
		}
		ctx, cancel := context.WithTimeout(context.Background(), 300*time.Second) // virtual
		defer cancel()
		var wg sync.WaitGroup
		var received atomic.Int64
		var doneAt atomic.Int64
		var startAt atomic.Int64
		var cliConn atomic.Pointer[quic.Conn]
		var cliErr atomic.Value
		wg.Add(1)
		go func() { // client
			defer wg.Done()
			conn, err := cTr.Dial(ctx, srvAddr, &tls.Config{InsecureSkipVerify: true, ServerName: "verif-c12", NextProtos: []string{"vf-c12"}}, qc())
			if err != nil {
				cliErr.Store("dial: " + err.Error())
				return
			}
			cliConn.Store(conn)
			if c.Upstream {
				wg.Add(1)
				go func() {
					defer wg.Done()
					st, err := conn.OpenUniStreamSync(ctx)
					if err != nil {
						return
					}
					buf := make([]byte, 900)
					for doneAt.Load() == 0 {
						if _, err := st.Write(buf); err != nil {
							return
						}
						time.Sleep(4 * time.Millisecond)
					}
					_ = st.Close()
				}()
			}
			st, err := conn.AcceptUniStream(ctx)
			if err != nil {
				cliErr.Store("accept stream: " + err.Error())
				doneAt.Store(time.Now().UnixNano())
				return
			}
			buf := make([]byte, 64<<10)
			for {
				n, err := st.Read(buf)
				received.Add(int64(n))
				if err != nil {
					if err != io.EOF {
						cliErr.Store("read: " + err.Error())
					}
					break
				}
			}
			doneAt.Store(time.Now().UnixNano())
		}()
		// server
		func() {
			sconn, err := ln.Accept(ctx)
			if err != nil {
				res.Err = "accept: " + err.Error()
				return
			}
			seedMTU := min(int64(sconn.InitialPacketSize()), int64(GetInitialPacketSize(sconn.RemoteAddr()))) // as utils.go seedPacketSize
			snd := NewBbrSender(DefaultClock{}, congestion.ByteCount(seedMTU), Profile(c.Profile))
			mon = vfC12NewMon(c.CaseID, snd, seedMTU, congestion.MaxCongestionWindowPackets, onViol)
			sconn.SetCongestionControl(mon)
			startAt.Store(time.Now().UnixNano())
			if c.Upstream {
				wg.Add(1)
				go func() {
					defer wg.Done()
					st, err := sconn.AcceptUniStream(ctx)
					if err != nil {
						return
					}
					_, _ = io.Copy(io.Discard, st)
				}()
			}
			st, err := sconn.OpenUniStreamSync(ctx)
			if err != nil {
				res.Err = "open stream: " + err.Error()
				return
			}
			chunk := make([]byte, 32<<10)
			for sent := int64(0); sent < c.Bytes; {
				n := min(int64(len(chunk)), c.Bytes-sent)
				if _, err := st.Write(chunk[:n]); err != nil {
					res.Err = "write: " + err.Error()
					break
				}
				sent += n
			}
			_ = st.Close()
			// wait (virtual time) until the client has everything or gave up
			for doneAt.Load() == 0 && ctx.Err() == nil {
				time.Sleep(10 * time.Millisecond)
			}
			time.Sleep(200 * time.Millisecond) // let the last ACKs arrive
			_ = sconn.CloseWithError(0, "")
		}()
		if doneAt.Load() == 0 {
			doneAt.Store(time.Now().UnixNano())
		}
		if cc := cliConn.Load(); cc != nil {
			_ = cc.CloseWithError(0, "")
		}
		_ = ln.Close()
		cancel()
		closeAll()
		wg.Wait()
		if e, _ := cliErr.Load().(string); e != "" && res.Err == "" {
			res.Err = e
		}
		res.Received = received.Load()
		if s := startAt.Load(); s != 0 {
			res.VirtualS = float64(doneAt.Load()-s) / 1e9
		}
		res.QueueDrops, res.LossDrops, res.MTUDrops = rt.QueueDrops.Load(), rt.LossDrops.Load(), rt.MTUDrops.Load()
	})
	k.Eval()
	if res.VirtualS > 0 {
		res.Util = float64(res.Received) / res.VirtualS / float64(c.CapBps)
	}
	if mon != nil {
		mon.mu.Lock()
		st := mon.St
		ill := append([]string(nil), mon.IllFormed...)
		tail := mon.Tail()
		res.FinalMTU = mon.mtu
		mon.mu.Unlock()
		res.Callbacks, res.Events, res.MTUEvents, res.Modes, res.AckOnlySent = st.Calls, st.Events, st.MTUEvents, st.Modes, st.Sent-st.SentRetx
		agg.add(k, st)
		k.Count("ev_predicate_checked_calls", st.Calls)
		if len(ill) > 0 {
			// real quic-go broke the structural predicate: the predicate is wrong (harness error, not a verdict)
			k.Count("predicate_breaches_real_quic", int64(len(ill)))
			t.Errorf("C12: call sequence of REAL quic-go violates the structural predicate in %s: %v\nlast calls: %v", c.CaseID, ill, tail)
		}
	}
	k.Count("quic_bytes_received", res.Received)
	k.Count("quic_queue_drops", res.QueueDrops)
	k.Count("quic_loss_drops", res.LossDrops)
	k.Count("quic_mtu_drops", res.MTUDrops)
	if key := fmt.Sprintf("quic_util_permille_%s_%s", c.Profile, c.Link); res.Err == "" && (minUtil[key] == 0 || res.Util < minUtil[key]) {
		minUtil[key] = res.Util // minimum over variants (lossy/reordering routers included)
	}
	if res.Err != "" || res.Received != c.Bytes {
		if mon == nil || !mon.Dead {
			k.Inconclusive(fmt.Sprintf("%s: transfer incomplete (%d of %d bytes, err=%q)", c.CaseID, res.Received, c.Bytes, res.Err))
		}
	} else {
		k.Count("quic_transfers_completed", 1)
		if res.Callbacks >= 500 {
			k.Nontrivial(fmt.Sprintf("%+v", c))
		}
	}
	k.Sample(res)
}

type vfC12QLink struct {
	Name     string
	MBps     float64 // capacity in MB/s
	OneWayMs int64
	QueueKB  int64
}

var vfC12QLinks = []vfC12QLink{
	{"2.5MBps-40ms-60kB", 2.5, 20, 60},
	{"0.5MBps-100ms-50kB", 0.5, 50, 50},
	{"10MBps-20ms-250kB", 10, 10, 250},
	{"0.25MBps-2200ms-200kB", 0.25, 1100, 200}, // satellite-like: multi-second RTT known from the handshake
}

// TestVerifC12RealQUIC: 3 profiles x (3 links + 1 long-RTT link) (quick), 90 runs incl. lossy / reordering routers (thorough).
func TestVerifC12RealQUIC(t *testing.T) {
	k := vfNewKit(t, "C12", "bbr-real-quic")
	defer k.Finish()
	k.maxSamples = 12
	agg := vfC12NewAgg()
	defer agg.finish(k)
	var cases []vfC12QCase
	minUtil := map[string]float64{}
	mk := func(prof Profile, l vfC12QLink, v int, r *rand.Rand) vfC12QCase {
		c := vfC12QCase{
			Profile: string(prof), Link: l.Name, CapBps: int64(l.MBps * 1e6), OneWayMs: l.OneWayMs, QueueBytes: l.QueueKB * 1000,
			PathMTU: []int{0, 1400, 1452, 1330}[(v+int(l.OneWayMs/10))%4],
		}
		c.Bytes = min(int64(l.MBps*1e6*3), 6<<20) // ~3 virtual seconds, a few MiB
		c.Bytes = max(c.Bytes, 1<<20)
		c.Upstream = v%2 == 1 || l.OneWayMs == 50
		if v >= 1 && r != nil {
			switch v % 5 {
			case 1:
				c.LossPPM = int(vfC12LogUniform(r, 1000, 50000))
			case 2:
				c.ReorderPPM, c.ReorderMs = int(vfC12LogUniform(r, 2000, 100000)), 1+int64(r.Intn(30))
			case 3:
				c.LossPPM = int(vfC12LogUniform(r, 500, 20000))
				c.ReorderPPM, c.ReorderMs = int(vfC12LogUniform(r, 1000, 50000)), 1+int64(r.Intn(15))
				c.QueueBytes /= 4
			case 4:
				c.QueueBytes = max(c.QueueBytes/10, 6000)
			}
		}
		c.CaseID = fmt.Sprintf("quic-%s-%s-v%d", prof, l.Name, v)
		return c
	}
	variants := k.N(1, 10)
	for v := 0; v < variants; v++ {
		for _, prof := range vfC12Profiles {
			for _, l := range vfC12QLinks {
				id := fmt.Sprintf("quic-%s-%s-v%d", prof, l.Name, v)
				cases = append(cases, mk(prof, l, v, k.Rand(id)))
			}
		}
	}
	for _, c := range cases {
		if rc := k.ReplayCase(); rc != "" && rc != c.CaseID {
			continue
		}
		vfC12RunQUIC(t, k, agg, c, minUtil)
	}
	for key, u := range minUtil {
		k.Count(key, int64(u*1000))
	}
}
