//go:build verif

package bbr

// C12 engine 1: trace simulator on a virtual clock.
//
// The sender side is a model of quic-go's sentPacketHandler + connection send loop for the
// application-data packet number space (what runs after Hysteria installs BBR): SendMode
// (PTO probes > congestion window > pacing budget), the send loop, packet-number skipping,
// ACK processing (detectAndRemoveAckedPackets, RTT update, detectLostPackets by packet and time
// threshold, event lists in ascending order, never both empty, ack-only packets and packets
// declared lost earlier never reported), the loss-detection timer (time-threshold losses as
// loss-only events, PTO with a skipped packet number and two probes that silently take the
// oldest packet out of flight), path-MTU probes whose ACK raises the datagram size AFTER the
// ACK's congestion event, at most 19 ack-only packets in a row, packets sent before the
// controller was installed. The network is a bottleneck (rate, propagation delay, tail-drop
// queue) with random/burst loss, blackouts, reordering, a receiver with delayed ACKs and an ACK
// aggregator on the return path.
//
// The simulator never calls the sender directly: it drives vfC12Mon, which checks the
// structural predicate on every call. A predicate breach here is a harness bug (test error),
// never a verdict.

import (
	"container/heap"
	"encoding/json"
	"fmt"
	"math"
	"math/rand"
	"sort"
	"testing"
	"time"

	"github.com/apernet/quic-go/congestion"
	"github.com/apernet/quic-go/monotime"
)

type vfC12Params struct {
	CaseID  string `json:"case_id"`
	Kind    string `json:"kind"`
	Profile string `json:"profile"`

	CapBps     int64 `json:"capacity_bytes_per_s"`
	RTTus      int64 `json:"prop_rtt_us"`
	QueueBytes int64 `json:"queue_bytes"` // 0 = unlimited
	LossPPM    int   `json:"loss_ppm"`
	BurstPPM   int   `json:"burst_enter_ppm"`
	BurstLen   int   `json:"burst_mean_len"`
	Blackouts  [][2]int64 `json:"blackouts_ms,omitempty"` // [start,len] forward path drops everything

	AckEvery   int   `json:"ack_every"`
	AckDelayUs int64 `json:"ack_delay_us"`
	AggUs      int64 `json:"ack_aggregation_us"`
	AckLossPPM int   `json:"ack_loss_ppm"`
	AckJitUs   int64 `json:"ack_jitter_us"` // >0: ACKs may overtake each other
	ReorderPPM int   `json:"reorder_ppm"`
	ReorderUs  int64 `json:"reorder_us"`

	GapEvery   int   `json:"pn_gap_every"` // mean packets between skipped packet numbers (0 = never)
	RevEveryUs int64 `json:"reverse_traffic_us"`
	App        string `json:"app"` // bulk | bursts | mixed | script
	Script     []vfC12AppPhase `json:"app_script,omitempty"` // App=="script": phases in order, then bulk
	WinUs      int64  `json:"measure_window_us,omitempty"` // script runs: delivered bytes are measured over this window after the last phase starts

	QuicStart  int64 `json:"quic_start_size"`
	MaxMTU     int64 `json:"max_size"`
	PathMTU    int64 `json:"path_mtu"`
	PreInstall int   `json:"preinstall_packets"`
	MaxPkts    int64 `json:"max_window_packets"`

	DurMs     int64 `json:"duration_ms"`
	PktBudget int   `json:"packet_budget"`
	Progress  bool  `json:"progress_run,omitempty"`
}

// vfC12AppPhase: the application offers data at RatePermille/1000 of the link capacity for DurUs
// (-1 = bulk / unlimited, 0 = silent).
type vfC12AppPhase struct {
	DurUs       int64 `json:"dur_us"`
	RatePermille int  `json:"rate_permille"`
}

type vfC12Pkt struct {
	pn    int64
	t     int64
	size  int64
	elic  bool
	probe bool // MTU probe
	infl  bool
	gone  bool
}

const (
	vfEvPkt = iota
	vfEvAckTimer
	vfEvAck
)

type vfC12Ack struct {
	ranges  [][2]int64 // ascending [lo,hi]
	largest int64
	delay   time.Duration
}

type vfC12Ev struct {
	t    int64
	seq  int64
	kind int8
	pn   int64
	size int64
	elic bool
	gen  int64
	ack  *vfC12Ack
}

type vfC12Heap []vfC12Ev

func (h vfC12Heap) Len() int { return len(h) }
func (h vfC12Heap) Less(i, j int) bool {
	if h[i].t != h[j].t {
		return h[i].t < h[j].t
	}
	return h[i].seq < h[j].seq
}
func (h vfC12Heap) Swap(i, j int) { h[i], h[j] = h[j], h[i] }
func (h *vfC12Heap) Push(x any)   { *h = append(*h, x.(vfC12Ev)) }
func (h *vfC12Heap) Pop() any     { o := *h; n := len(o); x := o[n-1]; *h = o[:n-1]; return x }

type vfC12MTUFinder struct {
	lastProbe int64
	inFlight  int64
	min       int64
	lost      [3]int64
	lastLost  bool
}

func (f *vfC12MTUFinder) max() int64 {
	for i, v := range f.lost {
		if v < 0 {
			return f.lost[i-1]
		}
	}
	return f.lost[2]
}
func (f *vfC12MTUFinder) done() bool { return f.max()-f.min <= 21 }
func (f *vfC12MTUFinder) next() int64 {
	if f.lastLost {
		return (f.min + f.lost[0]) / 2
	}
	return (f.min + f.max()) / 2
}
func (f *vfC12MTUFinder) onAcked() {
	size := f.inFlight
	f.inFlight = -1
	f.min = size
	f.lastLost = false
	j := 0
	for i, v := range f.lost {
		if size < v {
			j = i
			break
		}
	}
	if j > 0 {
		for i := range f.lost {
			if i+j < len(f.lost) {
				f.lost[i] = f.lost[i+j]
			} else {
				f.lost[i] = -1
			}
		}
	}
}
func (f *vfC12MTUFinder) onLost() {
	size := f.inFlight
	f.lastLost = true
	f.inFlight = -1
	for i, v := range f.lost {
		if v < 0 || size < v {
			copy(f.lost[i+1:], f.lost[i:])
			f.lost[i] = size
			break
		}
	}
}

type vfC12Sim struct {
	p   vfC12Params
	rnd *rand.Rand
	mon *vfC12Mon
	rtt *vfC12RTT

	now, t0, endT int64
	seq           int64
	evs           vfC12Heap

	// sender (quic-go model)
	nextPN        int64
	skipped       []int64
	hist          []vfC12Pkt
	hhead         int
	outElic       int
	bif           int64
	largestAcked  int64
	largestSent   int64
	largestAckedT int64
	lossTime      int64
	alarm         int64
	lastElicT     int64
	ptoCount      uint
	numProbes     int
	qmtu          int64
	mtuf          vfC12MTUFinder
	pacingDL      int64
	sendNow       bool
	ackPending    bool
	nonElicRun    int
	spins         int
	sameInstant   int

	// application
	phase              int
	phaseEnd, lastAppT int64
	winStart, winEnd   int64
	deliveredWin       int64
	unlimited bool
	avail     int64
	appNext   int64
	revNext   int64

	// network + receiver
	busyUntil   int64
	inBurst     bool
	rcvRanges   [][2]int64
	rcvLargest  int64
	rcvLargestT int64
	rcvPendElic int
	rcvAlarmGen int64
	rcvAlarmSet bool
	lastAckArr  int64
	usedSlots   map[int64]struct{}

	// measurements
	sends, drops, queueDrops, ptos, spurious, mtuProbes int64
	delivered, deliveredLate                            int64 // bytes of retransmittable packets that reached the receiver (total / second half)
	deadlock                                            string
	stop                                                bool
}

// vfC12AckEveryFor: the receiver acknowledges at least every 25 us worth of full-size packets, so
// that ACK events at the sender stay >= 10 us apart (parameter range of the design) on fast paths.
func vfC12AckEveryFor(capBps int64) int {
	return int(capBps*25/1452/1_000_000) + 1
}

func vfC12LogUniform(r *rand.Rand, lo, hi float64) float64 {
	return math.Exp(math.Log(lo) + r.Float64()*(math.Log(hi)-math.Log(lo)))
}

// vfC12Gen draws the parameters of trace idx. Kinds are stratified so that every quick run
// contains each mechanism for each profile.
func vfC12Gen(r *rand.Rand, idx int, quick bool) vfC12Params {
	kinds := []string{"clean", "lowbw-lossy", "highbdp", "ackagg", "applimited", "burst-blackout", "gaps-reverse", "smallmax", "reorder", "random", "longrtt", "lan"}
	p := vfC12Params{
		CaseID:  fmt.Sprintf("trace-%05d", idx),
		Kind:    kinds[idx%len(kinds)],
		Profile: string(vfC12Profiles[(idx+idx/len(kinds))%3]),
		AckEvery: 2, AckDelayUs: 25000, App: "bulk", MaxPkts: congestion.MaxCongestionWindowPackets,
	}
	mbit := func(lo, hi float64) int64 { return int64(vfC12LogUniform(r, lo, hi) * 125000) }
	p.CapBps = mbit(1, 500)
	p.RTTus = int64(vfC12LogUniform(r, 5000, 300000))
	qBDP := vfC12LogUniform(r, 0.1, 4)
	p.GapEvery = []int{0, 256, 256, 64, 16}[r.Intn(5)]
	p.QuicStart = []int64{1200, 1252, 1280, 1280, 1350}[r.Intn(5)]
	p.MaxMTU = 1452
	p.PathMTU = []int64{1452, 1452, 1500, 1400, 1300, 1252}[r.Intn(6)]
	if p.PathMTU < p.QuicStart {
		p.PathMTU = p.QuicStart
	}
	p.PreInstall = r.Intn(5)
	p.DurMs = 4000 + int64(r.Intn(20000))
	p.PktBudget = 12000 + r.Intn(20000)
	if r.Intn(3) == 0 {
		p.LossPPM = int(vfC12LogUniform(r, 100, 100000))
	}
	switch p.Kind {
	case "clean":
		p.LossPPM = 0
		qBDP = vfC12LogUniform(r, 1, 4)
	case "lowbw-lossy":
		p.CapBps = mbit(0.3, 2.5)
		p.LossPPM = int(vfC12LogUniform(r, 3000, 100000))
		p.DurMs = 24000 + int64(r.Intn(12000)) // long enough for PROBE_RTT (min_rtt expires after 10 s)
		p.PathMTU = 1452
	case "highbdp":
		p.CapBps = mbit(100, 1000)
		p.RTTus = int64(vfC12LogUniform(r, 40000, 500000))
		p.PktBudget = 40000 + r.Intn(40000)
	case "ackagg":
		p.AggUs = int64(vfC12LogUniform(r, 2000, 80000))
		p.AckEvery = []int{1, 2, 4, 10}[r.Intn(4)]
	case "applimited":
		p.App = []string{"bursts", "mixed"}[r.Intn(2)]
		p.DurMs = 12000 + int64(r.Intn(20000))
	case "burst-blackout":
		p.BurstPPM = int(vfC12LogUniform(r, 200, 20000))
		p.BurstLen = 2 + r.Intn(40)
		n := 1 + r.Intn(3)
		for i := 0; i < n; i++ {
			p.Blackouts = append(p.Blackouts, [2]int64{500 + int64(r.Intn(8000)), int64(vfC12LogUniform(r, 50, 4000))})
		}
		p.DurMs = 12000 + int64(r.Intn(10000))
	case "gaps-reverse":
		p.GapEvery = []int{8, 16, 32}[r.Intn(3)]
		p.RevEveryUs = int64(vfC12LogUniform(r, 200, 20000))
		if r.Intn(2) == 0 {
			p.App = "mixed"
		}
	case "smallmax":
		p.MaxPkts = int64(40 + r.Intn(400))
		p.CapBps = mbit(20, 500)
		p.RTTus = int64(vfC12LogUniform(r, 20000, 300000))
		qBDP = vfC12LogUniform(r, 1, 4)
	case "reorder":
		p.ReorderPPM = int(vfC12LogUniform(r, 500, 50000))
		p.ReorderUs = int64(vfC12LogUniform(r, 200, 30000))
		if r.Intn(2) == 0 {
			p.AckJitUs = int64(vfC12LogUniform(r, 100, 20000))
		}
	case "longrtt":
		// satellite / bufferbloated relay: the handshake already measured a multi-second RTT.
		// Capacity stays low so that rtt x bandwidth remains far inside 63 bits.
		p.RTTus = int64(vfC12LogUniform(r, 1_500_000, 5_000_000))
		p.CapBps = mbit(0.3, 8)
		p.DurMs = 60000 + int64(r.Intn(60000))
		qBDP = vfC12LogUniform(r, 0.5, 4)
		if r.Intn(2) == 0 {
			p.LossPPM = 0
		}
	case "lan":
		// LAN / same-rack / same-host path: sub-millisecond to 2 ms RTT at 0.5..10 Gbit/s
		// (rtt x bandwidth <= 2e16, far inside 63 bits).
		p.RTTus = int64(vfC12LogUniform(r, 100, 2000))
		p.CapBps = mbit(500, 10000)
		p.DurMs = 300 + int64(r.Intn(1500))
		p.PktBudget = 40000 + r.Intn(40000)
		qBDP = vfC12LogUniform(r, 0.5, 8)
		p.AckEvery = max([]int{2, 4, 10}[r.Intn(3)], vfC12AckEveryFor(p.CapBps))
		p.AckDelayUs = []int64{1000, 5000, 25000}[r.Intn(3)]
		if r.Intn(3) == 0 {
			p.App = "bursts"
		}
	case "random":
		p.CapBps = mbit(0.3, 1000)
		p.RTTus = int64(vfC12LogUniform(r, 5000, 500000))
		p.App = []string{"bulk", "bursts", "mixed"}[r.Intn(3)]
		if r.Intn(2) == 0 {
			p.AggUs = int64(vfC12LogUniform(r, 1000, 50000))
		}
		if r.Intn(2) == 0 {
			p.BurstPPM, p.BurstLen = int(vfC12LogUniform(r, 100, 10000)), 2+r.Intn(20)
		}
		if r.Intn(3) == 0 {
			p.RevEveryUs = int64(vfC12LogUniform(r, 500, 50000))
		}
		if r.Intn(3) == 0 {
			p.AckLossPPM = int(vfC12LogUniform(r, 1000, 200000))
		}
		if r.Intn(4) == 0 {
			p.Blackouts = [][2]int64{{1000 + int64(r.Intn(5000)), int64(vfC12LogUniform(r, 100, 3000))}}
		}
		p.AckEvery = []int{1, 2, 2, 10}[r.Intn(4)]
	}
	bdp := p.CapBps * p.RTTus / 1e6
	p.QueueBytes = max(int64(qBDP*float64(bdp)), 3*1500)
	return p
}

func vfC12NewSim(p vfC12Params, seed int64, onViol func(key, detail string, tail []string)) *vfC12Sim {
	s := &vfC12Sim{p: p, rnd: rand.New(rand.NewSource(seed)), usedSlots: map[int64]struct{}{}}
	s.t0 = 3_600_000_000_000 + s.rnd.Int63n(1_000_000_000)
	s.now = s.t0
	s.endT = s.t0 + p.DurMs*1e6
	s.rtt = &vfC12RTT{maxAckDelay: 25 * time.Millisecond}
	// the handshake has given QUIC an RTT measurement before Hysteria installs BBR
	s.rtt.UpdateRTT(time.Duration(p.RTTus)*time.Microsecond+time.Duration(s.rnd.Intn(int(min(2000, p.RTTus/4+1))))*time.Microsecond, 0)
	seedMTU := min(p.QuicStart, int64(congestion.InitialPacketSize)) // utils.go seedPacketSize
	var snd *bbrSender
	if p.MaxPkts == congestion.MaxCongestionWindowPackets {
		snd = NewBbrSender(vfC12Clock{&s.now}, congestion.ByteCount(seedMTU), Profile(p.Profile))
	} else {
		snd = newBbrSender(vfC12Clock{&s.now}, congestion.ByteCount(seedMTU),
			congestion.ByteCount(initialCongestionWindowPackets*seedMTU), congestion.ByteCount(p.MaxPkts*seedMTU), Profile(p.Profile))
	}
	s.mon = vfC12NewMon(p.CaseID, snd, seedMTU, p.MaxPkts, onViol)
	s.mon.SetRTTStatsProvider(s.rtt)
	s.qmtu = p.QuicStart
	s.mtuf = vfC12MTUFinder{lastProbe: s.now, inFlight: -1, min: p.QuicStart, lost: [3]int64{p.MaxMTU, -1, -1}}
	s.largestAcked, s.largestSent, s.rcvLargest = -1, -1, -1
	// packets sent (1-RTT) before the controller was installed: in QUIC's history and in
	// bytes_in_flight, never seen by this controller's OnPacketSent
	s.nextPN = int64(s.rnd.Intn(6))
	for i := 0; i < p.PreInstall; i++ {
		size := int64(40 + s.rnd.Intn(1100))
		pk := vfC12Pkt{pn: s.nextPN, t: s.now - int64(s.rnd.Intn(2_000_000)) - 1000, size: size, elic: true, infl: true}
		s.nextPN++
		s.hist = append(s.hist, pk)
		s.outElic++
		s.bif += size
		s.largestSent = pk.pn
		s.lastElicT = pk.t
		s.netSend(pk.pn, size, true, s.now)
	}
	switch p.App {
	case "bulk":
		s.unlimited = true
	case "script":
		s.phase, s.phaseEnd, s.lastAppT = -1, s.now, s.now
		s.appNext = s.now
		var total int64
		for i, ph := range p.Script {
			if i == len(p.Script)-1 {
				s.winStart = s.t0 + total*1000
				s.winEnd = s.winStart + p.WinUs*1000
			}
			total += ph.DurUs
		}
	default:
		s.appNext = s.now
	}
	if p.RevEveryUs > 0 {
		s.revNext = s.now + p.RevEveryUs*1000
	}
	s.setLossTimer()
	s.sendNow = true
	return s
}

// ---------------------------------------------------------------- network + receiver

func (s *vfC12Sim) push(e vfC12Ev) {
	s.seq++
	e.seq = s.seq
	heap.Push(&s.evs, e)
}

func (s *vfC12Sim) netSend(pn, size int64, elic bool, t int64) {
	if size > s.p.PathMTU {
		s.drops++
		return
	}
	ms := (t - s.t0) / 1e6
	for _, b := range s.p.Blackouts {
		if ms >= b[0] && ms < b[0]+b[1] {
			s.drops++
			return
		}
	}
	if s.inBurst {
		if s.rnd.Intn(max(s.p.BurstLen, 1)) == 0 {
			s.inBurst = false
		}
		s.drops++
		return
	}
	if s.p.BurstPPM > 0 && s.rnd.Intn(1_000_000) < s.p.BurstPPM {
		s.inBurst = true
		s.drops++
		return
	}
	if s.p.LossPPM > 0 && s.rnd.Intn(1_000_000) < s.p.LossPPM {
		s.drops++
		return
	}
	backlog := int64(0)
	if s.busyUntil > t {
		backlog = (s.busyUntil - t) * s.p.CapBps / 1e9
	}
	if s.p.QueueBytes > 0 && backlog+size > s.p.QueueBytes {
		s.drops++
		s.queueDrops++
		return
	}
	dep := max(t, s.busyUntil) + size*1e9/s.p.CapBps + 1
	s.busyUntil = dep
	arr := dep + s.p.RTTus*500
	if s.p.ReorderPPM > 0 && s.rnd.Intn(1_000_000) < s.p.ReorderPPM {
		arr += s.rnd.Int63n(s.p.ReorderUs*1000 + 1)
	}
	s.push(vfC12Ev{t: arr, kind: vfEvPkt, pn: pn, size: size, elic: elic})
}

// rcvAdd records pn; returns (new, outOfOrder).
func (s *vfC12Sim) rcvAdd(pn int64) (bool, bool) {
	rs := s.rcvRanges
	n := len(rs)
	if n == 0 {
		s.rcvRanges = append(rs, [2]int64{pn, pn})
		return true, false
	}
	last := &rs[n-1]
	switch {
	case pn == last[1]+1:
		last[1] = pn
		return true, false
	case pn > last[1]+1:
		s.rcvRanges = append(rs, [2]int64{pn, pn})
		if len(s.rcvRanges) > 96 {
			s.rcvRanges = append(s.rcvRanges[:0], s.rcvRanges[len(s.rcvRanges)-64:]...)
		}
		return true, true
	}
	// late packet: find its place
	i := sort.Search(n, func(i int) bool { return rs[i][1] >= pn })
	if i < n && rs[i][0] <= pn {
		return false, false // duplicate
	}
	// pn lies before rs[i] (i may be n is impossible here since pn <= last[1])
	mergeL := i > 0 && rs[i-1][1]+1 == pn
	mergeR := i < n && rs[i][0]-1 == pn
	switch {
	case mergeL && mergeR:
		rs[i-1][1] = rs[i][1]
		s.rcvRanges = append(rs[:i], rs[i+1:]...)
	case mergeL:
		rs[i-1][1] = pn
	case mergeR:
		rs[i][0] = pn
	default:
		if i == 0 && n >= 64 {
			return true, true // too old to be tracked any more (receiver forgot the range)
		}
		rs = append(rs, [2]int64{})
		copy(rs[i+1:], rs[i:])
		rs[i] = [2]int64{pn, pn}
		s.rcvRanges = rs
	}
	return true, true
}

func (s *vfC12Sim) rcvPacket(e vfC12Ev) {
	isNew, ooo := s.rcvAdd(e.pn)
	if !isNew {
		return
	}
	if e.pn > s.rcvLargest {
		s.rcvLargest, s.rcvLargestT = e.pn, e.t
	}
	if !e.elic {
		return
	}
	s.delivered += e.size
	if s.winEnd != 0 && e.t >= s.winStart && e.t < s.winEnd {
		s.deliveredWin += e.size
	}
	if e.t-s.t0 >= (s.endT-s.t0)/2 {
		s.deliveredLate += e.size
	}
	s.rcvPendElic++
	if ooo || s.rcvPendElic >= s.p.AckEvery {
		s.rcvSendAck(e.t)
	} else if !s.rcvAlarmSet {
		s.rcvAlarmSet = true
		s.rcvAlarmGen++
		s.push(vfC12Ev{t: e.t + s.p.AckDelayUs*1000, kind: vfEvAckTimer, gen: s.rcvAlarmGen})
	}
}

func (s *vfC12Sim) rcvSendAck(t int64) {
	s.rcvPendElic = 0
	s.rcvAlarmSet = false
	s.rcvAlarmGen++
	rs := s.rcvRanges
	if len(rs) > 32 {
		rs = rs[len(rs)-32:]
	}
	a := &vfC12Ack{ranges: append([][2]int64(nil), rs...), largest: s.rcvLargest, delay: time.Duration(t - s.rcvLargestT)}
	if s.p.AckLossPPM > 0 && s.rnd.Intn(1_000_000) < s.p.AckLossPPM {
		return
	}
	arr := t + s.p.RTTus*500
	if s.p.AggUs > 0 {
		per := s.p.AggUs * 1000
		arr = ((arr-s.t0)/per+1)*per + s.t0
	}
	if s.p.AckJitUs > 0 {
		arr += s.rnd.Int63n(s.p.AckJitUs*1000 + 1)
	} else if arr < s.lastAckArr+10_000 {
		arr = s.lastAckArr + 10_000 + s.rnd.Int63n(40_000)
	}
	// ack events at the sender are at least 10 us apart (parameter range of the design)
	slot := arr / 10_000
	for {
		if _, used := s.usedSlots[slot]; !used {
			break
		}
		slot++
	}
	if len(s.usedSlots) > 200_000 {
		s.usedSlots = map[int64]struct{}{}
	}
	s.usedSlots[slot] = struct{}{}
	if arr < slot*10_000 {
		arr = slot * 10_000
	} else {
		arr = slot*10_000 + (arr % 10_000 / 2)
	}
	if arr > s.lastAckArr {
		s.lastAckArr = arr
	}
	s.push(vfC12Ev{t: arr, kind: vfEvAck, ack: a})
}

// ---------------------------------------------------------------- sender: quic-go model

func (s *vfC12Sim) popPN() int64 {
	pn := s.nextPN
	if s.p.GapEvery > 0 && s.rnd.Intn(s.p.GapEvery) == 0 {
		w := int64(1)
		if x := s.rnd.Intn(10); x >= 8 {
			w = int64(x - 6) // 2 or 3
		}
		for i := int64(0); i < w; i++ {
			s.skipped = append(s.skipped, pn+i)
		}
		pn += w
	}
	s.nextPN = pn + 1
	if len(s.skipped) > 256 {
		s.skipped = append(s.skipped[:0], s.skipped[128:]...)
	}
	return pn
}

// difference mirrors sentPacketHistory.Difference: a-b minus skipped numbers in between.
func (s *vfC12Sim) difference(a, b int64) int64 {
	d := a - b
	for i := len(s.skipped) - 1; i >= 0; i-- {
		x := s.skipped[i]
		if x < b {
			break
		}
		if x > b && x < a {
			d--
		}
	}
	return d
}

func (s *vfC12Sim) compactHist() {
	for s.hhead < len(s.hist) && s.hist[s.hhead].gone {
		s.hhead++
	}
	if s.hhead > 2048 && s.hhead > len(s.hist)/2 {
		s.hist = append(s.hist[:0], s.hist[s.hhead:]...)
		s.hhead = 0
	}
}

func (s *vfC12Sim) removeFromFlight(p *vfC12Pkt) {
	if p.infl {
		s.bif -= p.size
		p.infl = false
		if s.bif < 0 {
			panic("vfC12 simulator: negative bytes in flight")
		}
	}
}

func (s *vfC12Sim) setLossTimer() {
	if s.outElic == 0 {
		s.alarm = 0
		return
	}
	if s.lossTime != 0 {
		s.alarm = s.lossTime
		return
	}
	pto := s.rtt.PTO(true) << s.ptoCount
	if pto > 60*time.Second || pto <= 0 {
		pto = 60 * time.Second
	}
	s.alarm = s.lastElicT + int64(pto)
}

func (s *vfC12Sim) sentPacket(pn, size int64, elic, probe bool) {
	s.largestSent = pn
	if elic {
		s.lastElicT = s.now
		s.bif += size
		s.outElic++
		if s.numProbes > 0 {
			s.numProbes--
		}
	}
	s.mon.OnPacketSent(monotime.Time(s.now), congestion.ByteCount(s.bif), congestion.PacketNumber(pn), congestion.ByteCount(size), elic)
	s.hist = append(s.hist, vfC12Pkt{pn: pn, t: s.now, size: size, elic: elic, probe: probe, infl: elic})
	s.sends++
	if elic {
		s.setLossTimer()
	}
	s.netSend(pn, size, elic, s.now)
}

func (s *vfC12Sim) detectLost(now int64) []congestion.LostPacketInfo {
	var lost []congestion.LostPacketInfo
	s.lossTime = 0
	maxRTT := max(s.rtt.LatestRTT(), s.rtt.SmoothedRTT())
	lossDelay := max(time.Duration(9.0/8*float64(maxRTT)), time.Millisecond)
	lostSendTime := now - int64(lossDelay)
	prior := s.bif
	for i := s.hhead; i < len(s.hist); i++ {
		p := &s.hist[i]
		if p.gone {
			continue
		}
		if p.pn > s.largestAcked {
			break
		}
		isLost := false
		if p.t <= lostSendTime {
			isLost = true
		} else if s.difference(s.largestAcked, p.pn) >= vfC12PacketThreshold {
			isLost = true
		} else if s.lossTime == 0 {
			s.lossTime = p.t + int64(lossDelay)
		}
		if !isLost {
			continue
		}
		p.gone = true
		if p.elic {
			s.outElic--
			s.removeFromFlight(p)
			if !s.unlimited && !p.probe {
				s.avail += p.size // frames queued for retransmission
			}
			if p.probe {
				s.mtuf.onLost()
			} else {
				s.mon.OnCongestionEvent(congestion.PacketNumber(p.pn), congestion.ByteCount(p.size), congestion.ByteCount(prior))
			}
			lost = append(lost, congestion.LostPacketInfo{PacketNumber: congestion.PacketNumber(p.pn), BytesLost: congestion.ByteCount(p.size)})
		}
	}
	s.compactHist()
	return lost
}

func (s *vfC12Sim) receivedAck(a *vfC12Ack, rcvTime int64) {
	if a.largest > s.largestSent {
		panic("vfC12 simulator: ACK for an unsent packet")
	}
	prior := s.bif
	// detectAndRemoveAckedPackets
	var acked []vfC12Pkt // copies: the history may be compacted while losses are detected
	hasElic := false
	ri := 0
	lowest := a.ranges[0][0]
	for i := s.hhead; i < len(s.hist); i++ {
		p := &s.hist[i]
		if p.pn > a.largest {
			break
		}
		if p.gone || p.pn < lowest {
			continue
		}
		for ri < len(a.ranges)-1 && p.pn > a.ranges[ri][1] {
			ri++
		}
		if p.pn < a.ranges[ri][0] || p.pn > a.ranges[ri][1] {
			continue
		}
		if p.elic {
			hasElic = true
			s.outElic--
		}
		if p.probe {
			s.mtuf.onAcked()
		}
		acked = append(acked, *p)
		p.gone = true
		p.infl = false // its bytes leave bytes_in_flight below, after loss detection (as in ReceivedAck)
	}
	if len(acked) == 0 {
		return
	}
	// RTT
	if p := acked[len(acked)-1]; p.pn == a.largest && hasElic {
		ackDelay := min(a.delay, s.rtt.MaxAckDelay())
		if s.largestAckedT == 0 || p.t >= s.largestAckedT {
			s.rtt.UpdateRTT(time.Duration(rcvTime-p.t), ackDelay)
			s.largestAckedT = p.t
		}
		s.mon.MaybeExitSlowStart()
	}
	s.largestAcked = max(s.largestAcked, a.largest)
	lost := s.detectLost(rcvTime)
	var info []congestion.AckedPacketInfo
	for _, p := range acked {
		if p.infl {
			s.mon.OnPacketAcked(congestion.PacketNumber(p.pn), congestion.ByteCount(p.size), congestion.ByteCount(prior), monotime.Time(rcvTime))
			info = append(info, congestion.AckedPacketInfo{PacketNumber: congestion.PacketNumber(p.pn), BytesAcked: congestion.ByteCount(p.size)})
			s.bif -= p.size
			if s.bif < 0 {
				panic("vfC12 simulator: negative bytes in flight")
			}
		}
	}
	s.compactHist()
	if len(info) != 0 || len(lost) != 0 {
		s.mon.OnCongestionEventEx(congestion.ByteCount(prior), monotime.Time(rcvTime), info, lost)
	}
	s.ptoCount = 0
	s.numProbes = 0
	s.setLossTimer()
	// handleAckFrame: an acknowledged MTU probe raises the datagram size after the ACK was processed
	if s.mtuf.min > s.qmtu {
		s.qmtu = s.mtuf.min
		s.mon.SetMaxDatagramSize(congestion.ByteCount(s.qmtu))
	}
}

func (s *vfC12Sim) onLossTimeout() {
	defer s.setLossTimer()
	if s.lossTime != 0 {
		prior := s.bif
		lost := s.detectLost(s.now)
		if len(lost) != 0 {
			s.mon.OnCongestionEventEx(congestion.ByteCount(prior), monotime.Time(s.now), nil, lost)
		}
		return
	}
	if s.outElic == 0 {
		return
	}
	s.ptoCount++
	s.ptos++
	s.numProbes += 2
	// skip a packet number in order to elicit an immediate ACK
	s.skipped = append(s.skipped, s.nextPN)
	s.nextPN++
}

func (s *vfC12Sim) hasData() bool { return s.unlimited || s.avail > 0 }

func (s *vfC12Sim) takeData(maxSize int64) int64 {
	if s.unlimited {
		if s.rnd.Intn(10) == 0 {
			return 60 + s.rnd.Int63n(maxSize-59)
		}
		return maxSize
	}
	n := min(s.avail+30, maxSize) // payload + header
	n = max(n, 40)
	s.avail = max(0, s.avail-(n-30))
	return n
}

func (s *vfC12Sim) sendAckOnly() {
	if !s.ackPending {
		return
	}
	s.ackPending = false
	size := int64(28 + s.rnd.Intn(40))
	if s.nonElicRun >= vfC12MaxNonRetxRun {
		s.nonElicRun = 0
		s.sentPacket(s.popPN(), size+1, true, false) // ACK + PING: ack-eliciting
		return
	}
	s.nonElicRun++
	s.sentPacket(s.popPN(), size, false, false)
}

func (s *vfC12Sim) sendProbe() {
	// QueueProbePacket: the oldest outstanding packet is declared lost without telling the controller
	size := int64(0)
	for i := s.hhead; i < len(s.hist); i++ {
		p := &s.hist[i]
		if !p.gone && p.elic {
			p.gone = true
			s.outElic--
			s.removeFromFlight(p)
			size = min(p.size, s.qmtu)
			if p.probe {
				s.mtuf.onLost()
				size = 0
			}
			break
		}
	}
	s.compactHist()
	if size == 0 {
		size = 40 // PING probe
	}
	s.nonElicRun = 0
	s.ackPending = false
	s.sentPacket(s.popPN(), size, true, false)
}

// sendMode mirrors sentPacketHandler.SendMode.
func (s *vfC12Sim) sendMode() int {
	switch {
	case s.numProbes > 0:
		return 3
	case !s.mon.CanSend(congestion.ByteCount(s.bif)):
		return 2 // SendAck
	case !s.mon.HasPacingBudget(monotime.Time(s.now)):
		return 1 // SendPacingLimited
	}
	return 0
}

func (s *vfC12Sim) resetPacing() {
	dl := int64(s.mon.TimeUntilSend(congestion.ByteCount(s.bif)))
	if dl == 0 {
		dl = s.now // deadlineSendImmediately
	}
	s.pacingDL = dl
}

// triggerSending mirrors Conn.triggerSending / sendPackets / sendPacketsWithoutGSO.
func (s *vfC12Sim) triggerSending() {
	s.pacingDL = 0
	for !s.mon.Dead && int(s.sends) < s.p.PktBudget {
		switch s.sendMode() {
		case 3:
			s.sendProbe()
			continue
		case 2:
			s.sendAckOnly()
			return
		case 1:
			s.resetPacing()
			s.sendAckOnly()
			return
		}
		// SendAny
		if s.mtuf.lastProbe != 0 && s.mtuf.inFlight < 0 && !s.mtuf.done() &&
			s.now >= s.mtuf.lastProbe+5*int64(s.rtt.SmoothedRTT()) {
			size := s.mtuf.next()
			s.mtuf.lastProbe = s.now
			s.mtuf.inFlight = size
			s.mtuProbes++
			s.nonElicRun = 0
			s.sentPacket(s.popPN(), size, true, true)
			continue
		}
		if s.hasData() {
			size := s.takeData(s.qmtu)
			s.ackPending = false
			s.nonElicRun = 0
			s.sentPacket(s.popPN(), size, true, false)
		} else if s.ackPending {
			s.sendAckOnly()
		} else {
			return // nothing to pack
		}
		switch s.sendMode() {
		case 1:
			s.resetPacing()
			return
		case 0:
			continue
		case 3:
			continue
		default:
			return
		}
	}
}

func (s *vfC12Sim) appTick() {
	r := s.rnd
	switch s.p.App {
	case "script":
		for s.phase < len(s.p.Script) && s.now >= s.phaseEnd {
			s.phase++
			if s.phase < len(s.p.Script) {
				s.phaseEnd += s.p.Script[s.phase].DurUs * 1000
			}
			s.lastAppT = s.now
			if s.phase >= len(s.p.Script) || s.p.Script[s.phase].RatePermille != -1 {
				s.avail = 0 // what bulk had "available" does not carry over
			}
		}
		if s.phase >= len(s.p.Script) {
			s.unlimited, s.appNext = true, 0 // bulk until the end
			return
		}
		ph := s.p.Script[s.phase]
		switch {
		case ph.RatePermille < 0:
			s.unlimited, s.appNext = true, s.phaseEnd
		case ph.RatePermille == 0:
			s.unlimited, s.appNext = false, s.phaseEnd
		default:
			s.unlimited = false
			rate := s.p.CapBps * int64(ph.RatePermille) / 1000
			s.avail += rate * (s.now - s.lastAppT) / 1e9
			s.lastAppT = s.now
			tick := min(max(1400*1e9/max(rate, 1), 500_000), 50_000_000) // about one packet's worth
			s.appNext = min(s.now+tick, s.phaseEnd)
		}
	case "bursts":
		s.avail += int64(vfC12LogUniform(r, 500, 300000))
		s.appNext = s.now + int64(vfC12LogUniform(r, 2e6, 600e6))
	case "mixed":
		if s.unlimited {
			s.unlimited = false
			s.avail = 0
			if r.Intn(2) == 0 {
				s.avail = int64(vfC12LogUniform(r, 100, 20000))
			}
			s.appNext = s.now + int64(vfC12LogUniform(r, 20e6, 2500e6))
		} else {
			s.unlimited = true
			s.appNext = s.now + int64(vfC12LogUniform(r, 200e6, 4000e6))
		}
	}
}

func (s *vfC12Sim) run() {
	for !s.mon.Dead && !s.stop {
		next := int64(math.MaxInt64)
		if len(s.evs) > 0 {
			next = s.evs[0].t
		}
		if t := s.pacingDL; t != 0 && t < next {
			next = t
		}
		if t := s.alarm; t != 0 && t < next {
			next = t
		}
		if t := s.appNext; t != 0 && t < next {
			next = t
		}
		if t := s.revNext; t != 0 && t < next {
			next = t
		}
		if s.sendNow {
			next = s.now
		}
		if next == math.MaxInt64 {
			// quiescent: nothing in the network, no timer armed
			if s.hasData() && int(s.sends) < s.p.PktBudget {
				s.deadlock = fmt.Sprintf("t=+%.3fs: application has data, bytes_in_flight=%d, no packet or ACK in the network, no pacing deadline, no loss-detection timer; CanSend=%v HasPacingBudget=%v TimeUntilSend=%d cwnd=%d",
					float64(s.now-s.t0)/1e9, s.bif, s.mon.CanSend(congestion.ByteCount(s.bif)), s.mon.HasPacingBudget(monotime.Time(s.now)),
					s.mon.TimeUntilSend(congestion.ByteCount(s.bif)), s.mon.GetCongestionWindow())
			}
			return
		}
		if next > s.endT {
			return
		}
		if next <= s.now && !s.sendNow {
			// a timer that is already due (e.g. a PTO computed from an old send time): fires now
			next = s.now
		}
		s.sendNow = false
		if next > s.now {
			s.now = next
			s.sameInstant = 0
		} else if s.sameInstant++; s.sameInstant > 100000 {
			panic("vfC12 simulator: 100000 iterations at one virtual instant (harness bug)")
		}
		for len(s.evs) > 0 && s.evs[0].t <= s.now {
			e := heap.Pop(&s.evs).(vfC12Ev)
			switch e.kind {
			case vfEvPkt:
				s.rcvPacket(e)
			case vfEvAckTimer:
				if s.rcvAlarmSet && e.gen == s.rcvAlarmGen {
					s.rcvSendAck(e.t)
				}
			case vfEvAck:
				s.receivedAck(e.ack, e.t)
			}
			if s.mon.Dead {
				return
			}
		}
		if s.appNext != 0 && s.appNext <= s.now {
			s.appNext = 0
			s.appTick()
		}
		if s.revNext != 0 && s.revNext <= s.now {
			s.ackPending = true
			s.revNext = s.now + s.p.RevEveryUs*500 + s.rnd.Int63n(s.p.RevEveryUs*1000+1)
		}
		if s.alarm != 0 && s.alarm <= s.now {
			s.onLossTimeout()
		}
		before := s.sends
		s.triggerSending()
		if s.pacingDL != 0 && s.pacingDL <= s.now && !s.mon.Dead {
			// Pacing limited, yet the pacing deadline is not in the future. On virtual time (as in a
			// synctest bubble, and as a busy loop on a real clock) the run loop re-arms an expired timer
			// at one and the same instant: no progress. The monitor's O5 flags the same state; this is
			// the simulator's own backstop so that it can never be silent.
			s.spins++
			s.deadlock = fmt.Sprintf("t=+%.6fs: send loop cannot make progress at one virtual instant: pacing limited (HasPacingBudget=false) but the pacing deadline %d is not after now=%d; %d packets sent, bytes_in_flight=%d cwnd=%d",
				float64(s.now-s.t0)/1e9, s.pacingDL, s.now, s.sends, s.bif, s.mon.GetCongestionWindow())
			return
		}
		_ = before
		if int(s.sends) >= s.p.PktBudget {
			return
		}
	}
}

// ---------------------------------------------------------------- tests

type vfC12TraceResult struct {
	Params    vfC12Params `json:"params"`
	Sends     int64       `json:"packets_sent"`
	Drops     int64       `json:"packets_dropped"`
	PTOs      int64       `json:"ptos"`
	MTUEvents int64       `json:"datagram_size_increases"`
	Events    int64       `json:"congestion_events"`
	Modes     int         `json:"modes_bitmask"`
	VirtualS  float64     `json:"virtual_seconds"`
	Util      float64     `json:"utilisation_second_half,omitempty"`
}

// vfC12RunTrace runs one simulator trace; returns false if the trace had to be abandoned
// because the harness itself misbehaved.
func vfC12RunTrace(t *testing.T, k *vfKit, agg *vfC12Agg, p vfC12Params) (*vfC12Sim, bool) {
	seed := int64(vfC12HashStr(fmt.Sprintf("%d/%s", k.Seed, p.CaseID)) >> 1)
	rand.Seed(seed) // bbr_sender.go draws its PROBE_BW cycle offset from math/rand's global source
	var sim *vfC12Sim
	onViol := func(key, detail string, tail []string) {
		k.Violation(key, map[string]any{"case_id": p.CaseID, "params": p, "last_calls": tail, "ill_formed": sim != nil && len(sim.mon.IllFormed) > 0}, "%s [%s %s]: %s", p.CaseID, p.Kind, p.Profile, detail)
	}
	sim = vfC12NewSim(p, seed, onViol)
	ok := true
	func() {
		defer func() {
			if r := recover(); r != nil {
				ok = false
				t.Errorf("C12 simulator self-error in %s: %v", p.CaseID, r)
			}
		}()
		sim.run()
	}()
	k.Eval()
	if len(sim.mon.IllFormed) > 0 {
		// the simulator produced a call sequence QUIC cannot produce: harness bug, not a verdict
		b, _ := json.Marshal(p)
		t.Errorf("C12 simulator produced an ill-formed call sequence in %s (%s): %v\nlast calls: %v", p.CaseID, b, sim.mon.IllFormed, sim.mon.Tail())
		k.Count("predicate_breaches_simulator", 1)
		ok = false
	}
	if sim.deadlock != "" && !sim.mon.Dead {
		k.Violation("bbr:send-loop-deadlock", map[string]any{"case_id": p.CaseID, "params": p, "last_calls": sim.mon.Tail()}, "%s [%s %s]: %s", p.CaseID, p.Kind, p.Profile, sim.deadlock)
	}
	agg.add(k, sim.mon.St)
	k.Count("ev_predicate_checked_calls", sim.mon.St.Calls)
	k.Count("network_drops", sim.drops)
	k.Count("network_queue_drops", sim.queueDrops)
	k.Count("pto_fired", sim.ptos)
	k.Count("mtu_probes_sent", sim.mtuProbes)
	k.Count("send_loop_spins", int64(sim.spins))
	return sim, ok
}

func vfC12Result(sim *vfC12Sim) vfC12TraceResult {
	return vfC12TraceResult{Params: sim.p, Sends: sim.sends, Drops: sim.drops, PTOs: sim.ptos, MTUEvents: sim.mon.St.MTUEvents,
		Events: sim.mon.St.Events, Modes: sim.mon.St.Modes, VirtualS: float64(sim.now-sim.t0) / 1e9}
}

// TestVerifC12Traces: hostile QUIC-consistent traces, invariants after every callback.
func TestVerifC12Traces(t *testing.T) {
	k := vfNewKit(t, "C12", "bbr-traces")
	defer k.Finish()
	agg := vfC12NewAgg()
	defer agg.finish(k)
	n := k.N(150, 5000)
	for idx := 0; idx < n; idx++ {
		id := fmt.Sprintf("trace-%05d", idx)
		if rc := k.ReplayCase(); rc != "" && rc != id {
			continue
		}
		p := vfC12Gen(k.Rand(id), idx, k.Quick())
		sim, ok := vfC12RunTrace(t, k, agg, p)
		if !ok {
			continue
		}
		st := sim.mon.St
		// non-trivial: the state machine left STARTUP and the sampler saw real ack traffic
		if st.Modes&(1<<bbrModeProbeBw) != 0 && st.Events >= 50 {
			b, _ := json.Marshal(p)
			k.Nontrivial(string(b))
		}
		if idx%25 == 3 {
			k.Sample(vfC12Result(sim))
		}
	}
}

type vfC12Link struct {
	Name   string
	Mbit   float64
	RTTms  int64
	QueueX float64 // queue in BDP (0 = unlimited)
	RTTus  int64   // if non-zero: sub-/low-millisecond RTT (overrides RTTms)
	DurMs  int64   // virtual duration (0 = 20 s)
	AckN   int     // if non-zero: the receiver acknowledges every AckN packets
	AggDiv int64   // if non-zero: ACKs are released in bursts every RTT/AggDiv (aggregating return path)
}

// Fast paths with ordinary RTTs whose sending is TIMER-paced rather than ACK-clocked: between two
// ACK events (an ACK every 10 packets, or a burst of ACKs every quarter/half RTT, or simply a
// packet rate far above the ACK rate) the send loop is woken only by the pacer's TimeUntilSend,
// exactly like quic-go's. A few hundred ms of virtual time = tens of round trips after STARTUP.
var vfC12TimerLinks = []vfC12Link{
	{Name: "400Mbit-10ms-ack10", Mbit: 400, RTTus: 10000, DurMs: 400, AckN: 10},
	{Name: "1Gbit-10ms-ack2", Mbit: 1000, RTTus: 10000, DurMs: 400, AckN: 2},
	{Name: "200Mbit-30ms-aggQ", Mbit: 200, RTTus: 30000, DurMs: 2400, AckN: 2, AggDiv: 4},
	{Name: "2.5Gbit-5ms-ack10-q4", Mbit: 2500, RTTus: 5000, QueueX: 4, DurMs: 250, AckN: 10},
	{Name: "2.5Gbit-10ms-ack2", Mbit: 2500, RTTus: 10000, DurMs: 400, AckN: 2},
}

var vfC12TimerLinksThorough = []vfC12Link{
	{Name: "200Mbit-5ms-ack10", Mbit: 200, RTTus: 5000, DurMs: 300, AckN: 10},
	{Name: "400Mbit-30ms-aggH-q4", Mbit: 400, RTTus: 30000, QueueX: 4, DurMs: 4000, AckN: 2, AggDiv: 2},
	{Name: "1Gbit-30ms-ack10", Mbit: 1000, RTTus: 30000, DurMs: 1500, AckN: 10},
	{Name: "1Gbit-10ms-ack10", Mbit: 1000, RTTus: 10000, DurMs: 400, AckN: 10},
	{Name: "400Mbit-10ms-ack10-aggH", Mbit: 400, RTTus: 10000, DurMs: 400, AckN: 10, AggDiv: 2},
	{Name: "1Gbit-5ms-ack2-aggQ", Mbit: 1000, RTTus: 5000, DurMs: 300, AckN: 2, AggDiv: 4},
}

// Short-RTT fast paths (LAN / same rack / same host): BDP far above the initial window although
// the RTT is below or around 1 ms. Packets per virtual second are many, so these runs last
// 0.3..0.5 virtual seconds = hundreds of round trips, STARTUP is over after a few ms.
var vfC12FastLinks = []vfC12Link{
	{Name: "10Gbit-0.25ms-inf", Mbit: 10000, RTTus: 250, DurMs: 300},
	{Name: "8Gbit-0.5ms-q8", Mbit: 8000, RTTus: 500, QueueX: 8, DurMs: 400},
	{Name: "4Gbit-0.9ms-inf", Mbit: 4000, RTTus: 900, DurMs: 400},
	{Name: "2Gbit-1.5ms-q8", Mbit: 2000, RTTus: 1500, QueueX: 8, DurMs: 500},
}

var vfC12FastLinksThorough = []vfC12Link{
	{Name: "10Gbit-0.1ms-inf", Mbit: 10000, RTTus: 100, DurMs: 200},
	{Name: "2Gbit-0.5ms-q8", Mbit: 2000, RTTus: 500, QueueX: 8, DurMs: 500},
	{Name: "4Gbit-1.2ms-inf", Mbit: 4000, RTTus: 1200, DurMs: 400},
	{Name: "1Gbit-1.9ms-q8", Mbit: 1000, RTTus: 1900, QueueX: 8, DurMs: 800},
}

var vfC12ProgressLinks = []vfC12Link{
	{Name: "2Mbit-20ms-inf", Mbit: 2, RTTms: 20},
	{Name: "10Mbit-50ms-q3", Mbit: 10, RTTms: 50, QueueX: 3},
	{Name: "20Mbit-300ms-q4", Mbit: 20, RTTms: 300, QueueX: 4},
	{Name: "50Mbit-100ms-q3", Mbit: 50, RTTms: 100, QueueX: 3},
	{Name: "100Mbit-10ms-q4", Mbit: 100, RTTms: 10, QueueX: 4},
	{Name: "200Mbit-40ms-inf", Mbit: 200, RTTms: 40},
}

var vfC12ProgressLinksThorough = []vfC12Link{
	{Name: "1Mbit-150ms-q4", Mbit: 1, RTTms: 150, QueueX: 4},
	{Name: "5Mbit-5ms-q4", Mbit: 5, RTTms: 5, QueueX: 4},
	{Name: "30Mbit-30ms-q2", Mbit: 30, RTTms: 30, QueueX: 2},
	{Name: "80Mbit-200ms-inf", Mbit: 80, RTTms: 200},
	{Name: "300Mbit-20ms-q3", Mbit: 300, RTTms: 20, QueueX: 3},
	{Name: "500Mbit-80ms-q4", Mbit: 500, RTTms: 80, QueueX: 4},
}

// vfC12UtilThreshold: fraction of capacity that second-half goodput must reach on a loss-free
// fixed-capacity path. Calibrated on the unchanged tree (see evidence: measured utilisations
// are 0.93..1.00 on the 20 s WAN links and 0.84..0.91 on the sub-millisecond multi-Gbit/s links,
// for every profile/seed); 0.50 leaves a wide margin.
var vfC12UtilThreshold = map[Profile]float64{ProfileConservative: 0.50, ProfileStandard: 0.50, ProfileAggressive: 0.50}

// TestVerifC12Progress: loss-free fixed-capacity path, queue >= BDP, 20 virtual seconds (0.2..0.8 s
// = hundreds of round trips on the short-RTT multi-Gbit/s links):
// no deadlock, second-half goodput >= threshold * capacity, for each profile.
func TestVerifC12Progress(t *testing.T) {
	k := vfNewKit(t, "C12", "bbr-progress")
	defer k.Finish()
	agg := vfC12NewAgg()
	defer agg.finish(k)
	links := append(append(append([]vfC12Link{}, vfC12ProgressLinks...), vfC12FastLinks...), vfC12TimerLinks...)
	if !k.Quick() {
		links = append(append(append(links, vfC12ProgressLinksThorough...), vfC12FastLinksThorough...), vfC12TimerLinksThorough...)
	}
	minUtil := map[Profile]float64{}
	minLink := map[string]float64{} // per profile+link minimum over variants
	variants := k.N(1, 3)
	for _, prof := range vfC12Profiles {
		minUtil[prof] = 1e9
		for li, l := range links {
			for v := 0; v < variants; v++ {
				id := fmt.Sprintf("progress-%s-%s-v%d", prof, l.Name, v)
				if rc := k.ReplayCase(); rc != "" && rc != id {
					continue
				}
				r := k.Rand(id)
				capBps := int64(l.Mbit * 125000)
				rttUs := l.RTTms * 1000
				durMs := int64(20000)
				if l.RTTus != 0 {
					rttUs = l.RTTus
				}
				if l.DurMs != 0 {
					durMs = l.DurMs
				}
				bdp := capBps * rttUs / 1e6
				p := vfC12Params{
					CaseID: id, Kind: "progress", Profile: string(prof), CapBps: capBps, RTTus: rttUs,
					AckEvery: []int{2, 2, 1, 10}[(li+v)%4], AckDelayUs: 25000, App: "bulk",
					GapEvery: 256, QuicStart: []int64{1280, 1200, 1252}[(li+v)%3], MaxMTU: 1452, PathMTU: []int64{1452, 1500}[(li+v)%2], // probes are never dropped: the path is loss-free
					PreInstall: r.Intn(4), MaxPkts: congestion.MaxCongestionWindowPackets,
					DurMs: durMs, PktBudget: 1 << 30, Progress: true,
				}
				if l.AckN != 0 {
					p.AckEvery = l.AckN
				}
				if l.AggDiv != 0 {
					p.AggUs = rttUs / l.AggDiv
				}
				if fast := vfC12AckEveryFor(capBps); fast > p.AckEvery {
					p.AckEvery = fast // keeps ACK events >= 10 us apart on multi-Gbit/s paths
				}
				if l.QueueX > 0 {
					p.QueueBytes = max(int64(l.QueueX*float64(bdp)), bdp+2*1500, 6*1500)
				}
				sim, ok := vfC12RunTrace(t, k, agg, p)
				if !ok || sim.mon.Dead {
					continue
				}
				half := float64(p.DurMs) / 2000
				util := float64(sim.deliveredLate) / (float64(capBps) * half)
				res := vfC12Result(sim)
				res.Util = util
				k.Count("ev_progress_runs", 1)
				if sim.drops != 0 {
					// not a loss-free path after all (queue overflowed): precondition of the clause not met
					k.Count("progress_runs_with_queue_drops", 1)
					k.Count("progress_runs_excluded_drops", 1)
					k.Sample(res)
					continue
				}
				if sim.ptos != 0 {
					k.Count("progress_runs_with_pto", 1)
				}
				k.Count("progress_runs_asserted", 1)
				if key := fmt.Sprintf("util_permille_%s_%s", prof, l.Name); minLink[key] == 0 || util < minLink[key] {
					minLink[key] = util
				}
				if util < minUtil[prof] {
					minUtil[prof] = util
				}
				b, _ := json.Marshal(p)
				k.Nontrivial(string(b))
				if li%3 == 0 && v == 0 {
					k.Sample(res)
				}
				if util < vfC12UtilThreshold[prof] {
					k.Violation("bbr:goodput-far-below-capacity:"+string(prof), map[string]any{"case_id": id, "params": p, "last_calls": sim.mon.Tail()},
						"%s: loss-free %s link, second-half goodput %.1f%% of capacity (< %.0f%%): delivered %d B in %.2f s at %d B/s; cwnd=%d mode=%d pacingRate=%d bit/s",
						id, l.Name, util*100, vfC12UtilThreshold[prof]*100, sim.deliveredLate, half, capBps, sim.mon.bbrSender.GetCongestionWindow(), sim.mon.bbrSender.mode, sim.mon.bbrSender.pacingRate)
				}
			}
		}
	}
	for prof, u := range minUtil {
		if u < 1e9 {
			k.Count("min_util_permille_"+string(prof), int64(u*1000))
		}
	}
	for key, u := range minLink {
		k.Count(key, int64(u*1000))
	}
}
