//go:build verif

package bbr

// C12 — BBR survives any QUIC-consistent event sequence with sane outputs.
//
// This file holds the ONE monitoring component used by both engines:
//
//	vfC12Mon embeds the real *bbrSender and overrides the callbacks quic-go uses
//	(OnPacketSent / OnCongestionEventEx / SetMaxDatagramSize / CanSend / HasPacingBudget /
//	TimeUntilSend ...). The trace simulator (c12_sim_test.go) drives it exactly as quic-go's
//	sentPacketHandler would; the real-QUIC engine (c12_quic_test.go) installs it with
//	conn.SetCongestionControl. After EVERY callback it evaluates the oracles, and on every
//	callback it evaluates the structural well-formedness predicate over the call sequence.
//
// Oracles (from the property statement, not from the implementation):
//
//	O1 no panic in any callback
//	O2 4*MTU <= GetCongestionWindow() <= maxWindowPackets*MTU   (MTU = the size the sender was told)
//	O3 bandwidthForPacer() >= 65536 B/s                        (what common.Pacer is given)
//	O4 per-packet bookkeeping (sampler.connectionStateMap) proportional to packets in flight:
//	   (a) after a congestion event nothing older than min(lowest in-flight pn, largest acked - K) is kept;
//	   (b) EntrySlotsUsed <= C*(packets in flight + 1) + C0;
//	   (c) integrity: the entry the queue returns for an in-flight pn is the one stored for it.
//
//	O5 "does not deadlock", made observable at the pacing gate the way quic-go's send loop uses it:
//	   (a) whenever HasPacingBudget(now) is false, the TimeUntilSend() that follows must be non-zero
//	       and strictly after now (otherwise the loop re-arms an expired timer: no progress);
//	   (b) at an announced deadline, if nothing happened in between (no send, no ack/loss event, no
//	       datagram-size change), HasPacingBudget must be true;
//	   (c) backstop: >2000 consecutive "no budget" answers at one and the same instant = spinning.
//	   After its first violation the monitor answers "may send" (fail-stop), so a real quic-go send
//	   loop can never spin on a sender that has already been refuted.
//
// Constants of O4 and why they are sound for every QUIC-consistent sequence:
//
//	"In flight" is what the controller can know: retransmittable packets passed to OnPacketSent
//	and not yet reported acked/lost ("visible"). QUIC (RFC 9002 6.1.1, kPacketThreshold=3; quic-go
//	detectLostPackets runs on every ACK) removes from flight every packet more than 2 below the
//	largest acked one and every packet up to the largest lost one, so the monitor ages such
//	packets out of "visible" even when QUIC dropped them silently (PTO probes).
//	K=8: any constant keeps the bookkeeping proportional; the tree uses 2, K leaves room for other
//	legitimate choices (3 = packet threshold, a few more for skipped numbers).
//	C=24: the queue is indexed by packet number, so every slot between two in-flight packets counts.
//	QUIC sends at most 19 non-ack-eliciting packets in a row (quic-go MaxNonAckElicitingAcks) and
//	skips packet numbers only occasionally (one per >=128 packets + one per PTO; the simulator is
//	more hostile: up to 3 numbers every >=8 packets) -> <= 1+19+3 slots per in-flight packet.
//	"packets in flight" is taken BEFORE the event (nothing is added during an event; packets
//	declared lost in this very event may legitimately still occupy slots until the next event).
//	C0=64 is slack for the <=3 acked numbers kept below hw and for aged-out packets.

import (
	"fmt"
	"hash/fnv"
	"runtime/debug"
	"sync"
	"time"

	"github.com/apernet/quic-go/congestion"
	"github.com/apernet/quic-go/monotime"
)

const (
	vfC12MinBps          = 65536
	vfC12MinWindowPkts   = 4
	vfC12StaleK          = 8
	vfC12SizeC           = 24
	vfC12SizeC0          = 64
	vfC12MaxNonRetxRun   = 19 // quic-go protocol.MaxNonAckElicitingAcks
	vfC12PacketThreshold = 3  // RFC 9002 kPacketThreshold / quic-go packetThreshold
)

var vfC12Profiles = []Profile{ProfileConservative, ProfileStandard, ProfileAggressive}

// vfC12RTT is an RTTStatsProvider written from RFC 9002 section 5 (same arithmetic as QUIC uses).
type vfC12RTT struct {
	has                        bool
	min, latest, smoothed, dev time.Duration
	maxAckDelay                time.Duration
}

func (r *vfC12RTT) MinRTT() time.Duration        { return r.min }
func (r *vfC12RTT) LatestRTT() time.Duration     { return r.latest }
func (r *vfC12RTT) SmoothedRTT() time.Duration   { return r.smoothed }
func (r *vfC12RTT) MeanDeviation() time.Duration { return r.dev }
func (r *vfC12RTT) MaxAckDelay() time.Duration   { return r.maxAckDelay }
func (r *vfC12RTT) PTO(includeMaxAckDelay bool) time.Duration {
	if !r.has {
		return 200 * time.Millisecond
	}
	pto := r.smoothed + max(4*r.dev, time.Millisecond)
	if includeMaxAckDelay {
		pto += r.maxAckDelay
	}
	return pto
}

func (r *vfC12RTT) UpdateRTT(sendDelta, ackDelay time.Duration) {
	if sendDelta <= 0 {
		return
	}
	if !r.has || r.min > sendDelta {
		r.min = sendDelta
	}
	sample := sendDelta
	if sample-r.min >= ackDelay {
		sample -= ackDelay
	}
	r.latest = sample
	if !r.has {
		r.has = true
		r.smoothed = sample
		r.dev = sample / 2
		return
	}
	d := r.smoothed - sample
	if d < 0 {
		d = -d
	}
	r.dev = (3*r.dev + d) / 4
	r.smoothed = (7*r.smoothed + sample) / 8
}
func (r *vfC12RTT) SetMaxAckDelay(d time.Duration) { r.maxAckDelay = d }
func (r *vfC12RTT) SetInitialRTT(time.Duration)    {}

type vfC12Clock struct{ now *int64 }

func (c vfC12Clock) Now() monotime.Time { return monotime.Time(*c.now) }

type vfC12Rec struct {
	bytes int64
	t     monotime.Time
	stale bool // aged out of "in flight" by the QUIC loss-detection rules (never reported)
}

// vfC12Stats is what one monitored connection / trace observed.
type vfC12Stats struct {
	Calls, Sent, SentRetx, Events, AckedPkts, LostPkts, LossOnlyEvents, MTUEvents int64
	Queries                                                                     int64
	PacingLimited, DeadlinesAnnounced, DeadlinesChecked                         int64
	PreInstallAcked                                                             int64
	MaxNonRetxRun                                                               int
	MaxSlots                                                                    int
	MaxVisible                                                                  int
	MaxSlotsMinusCN                                                             int // max over events of slots - C*(n+1): calibration of C0
	MinFirstMinusHW                                                             int64
	Modes                                                                       int // bit per bbrMode seen
	Recovery                                                                    int // bit per recovery state seen
	FloorActive                                                                 int64 // callbacks after which the pacer floor was the binding value
	CwndAtMin                                                                   int64
	CwndAtMax                                                                   int64
	MinCwndPkts                                                                 float64
	OrderHash                                                                   uint64
}

type vfC12Mon struct {
	*bbrSender
	mu sync.Mutex

	name    string
	mtu     int64 // datagram size the sender was told (seed, then SetMaxDatagramSize)
	maxPkts int64 // configured maximum window in packets

	// structural predicate state
	started    bool
	firstPN    int64
	lastPN     int64
	lastSendT  monotime.Time
	lastRetxPN int64
	out        map[int64]*vfC12Rec
	order      []int64
	head       int
	visN       int
	visBytes   int64
	pre        map[int64]bool
	hw         int64 // highest pn (>= firstPN) reported acked or lost
	ackHW      int64
	lostHW     int64
	nonRetxRun int
	nRef       int
	lastEvT    monotime.Time
	haveEv     bool

	// pacing-gate state (O5)
	epoch     int64 // incremented by every send / congestion event / datagram-size change
	plValid   bool
	plNow     monotime.Time
	plEpoch   int64
	annValid  bool
	annT      monotime.Time
	annEpoch  int64
	spinNow   monotime.Time
	spinEpoch int64
	spinN     int

	IllFormed []string // predicate breaches (harness/simulator bug, or wrong predicate if real QUIC did it)
	onViol    func(key, detail string, tail []string)
	Dead      bool // a violation was recorded; the engine should stop driving this sender

	tail  [48]string
	tailN int
	St    vfC12Stats
	hash  uint64
}

func vfC12NewMon(name string, s *bbrSender, seedMTU, maxPkts int64, onViol func(key, detail string, tail []string)) *vfC12Mon {
	return &vfC12Mon{
		bbrSender: s, name: name, mtu: seedMTU, maxPkts: maxPkts,
		out: map[int64]*vfC12Rec{}, pre: map[int64]bool{}, hw: -1, ackHW: -1, lostHW: -1, lastRetxPN: -1,
		onViol: onViol, hash: 1469598103934665603,
		St: vfC12Stats{MinFirstMinusHW: 1 << 40, MinCwndPkts: 1e18, MaxSlotsMinusCN: -1 << 30},
	}
}

func (m *vfC12Mon) note(format string, a ...any) {
	m.tail[m.tailN%len(m.tail)] = fmt.Sprintf(format, a...)
	m.tailN++
}

func (m *vfC12Mon) Tail() []string {
	n := min(m.tailN, len(m.tail))
	out := make([]string, 0, n)
	for i := m.tailN - n; i < m.tailN; i++ {
		out = append(out, m.tail[i%len(m.tail)])
	}
	return out
}

func (m *vfC12Mon) ill(format string, a ...any) {
	if len(m.IllFormed) < 20 {
		m.IllFormed = append(m.IllFormed, fmt.Sprintf(format, a...))
	}
}

func (m *vfC12Mon) violate(key, format string, a ...any) {
	if m.Dead {
		return
	}
	m.Dead = true
	if m.onViol != nil {
		m.onViol(key, fmt.Sprintf(format, a...), m.Tail())
	}
}

func (m *vfC12Mon) mix(b byte) {
	m.hash ^= uint64(b)
	m.hash *= 1099511628211
	m.St.OrderHash = m.hash
}

// guard runs one callback of the real sender; a panic is a refutation (O1).
func (m *vfC12Mon) guard(cb string, f func()) {
	defer func() {
		if r := recover(); r != nil {
			m.violate("bbr:panic:"+cb, "panic in %s: %v\n%s", cb, r, vfC12Trim(string(debug.Stack()), 2500))
		}
	}()
	f()
}

func vfC12Trim(s string, n int) string {
	if len(s) > n {
		return s[:n] + "..."
	}
	return s
}

// lowestVisible returns the lowest packet number still counted in flight.
func (m *vfC12Mon) lowestVisible() (int64, bool) {
	for m.head < len(m.order) {
		if r := m.out[m.order[m.head]]; r != nil && !r.stale {
			return m.order[m.head], true
		}
		m.head++
	}
	if m.head > 4096 {
		m.order = append(m.order[:0], m.order[m.head:]...)
		m.head = 0
	}
	return 0, false
}

// age marks as no longer in flight what QUIC's loss detection has removed from flight.
func (m *vfC12Mon) age() {
	thr := max(m.ackHW-(vfC12PacketThreshold-1), m.lostHW+1)
	for m.head < len(m.order) && m.order[m.head] < thr {
		if r := m.out[m.order[m.head]]; r != nil && !r.stale {
			r.stale = true
			m.visN--
		}
		m.head++
	}
	if m.head > 4096 && m.head > len(m.order)/2 {
		m.order = append(m.order[:0], m.order[m.head:]...)
		m.head = 0
	}
}

// ---------------------------------------------------------------- oracles

func (m *vfC12Mon) checkOutputs(where string) {
	if m.Dead {
		return
	}
	var cw congestion.ByteCount
	var bw congestion.ByteCount
	m.guard("GetCongestionWindow", func() { cw = m.bbrSender.GetCongestionWindow() })
	m.guard("bandwidthForPacer", func() { bw = m.bbrSender.bandwidthForPacer() })
	if m.Dead {
		return
	}
	lo, hi := vfC12MinWindowPkts*m.mtu, m.maxPkts*m.mtu
	if int64(cw) < lo {
		m.violate("bbr:cwnd-below-four-datagrams", "after %s: GetCongestionWindow()=%d < 4*%d=%d (mode=%d recovery=%d cwnd=%d recoveryWindow=%d minCwnd=%d)",
			where, cw, m.mtu, lo, m.bbrSender.mode, m.bbrSender.recoveryState, m.bbrSender.congestionWindow, m.bbrSender.recoveryWindow, m.bbrSender.minCongestionWindow)
		return
	}
	if int64(cw) > hi {
		m.violate("bbr:cwnd-above-max-window", "after %s: GetCongestionWindow()=%d > %d*%d=%d (mode=%d cwnd=%d maxCwnd=%d)",
			where, cw, m.maxPkts, m.mtu, hi, m.bbrSender.mode, m.bbrSender.congestionWindow, m.bbrSender.maxCongestionWindow)
		return
	}
	if int64(bw) < vfC12MinBps {
		m.violate("bbr:pacer-bandwidth-below-64KBps", "after %s: bandwidthForPacer()=%d B/s < 65536 (pacingRate=%d bit/s mode=%d)", where, bw, m.bbrSender.pacingRate, m.bbrSender.mode)
		return
	}
	if int64(bw) == vfC12MinBps {
		m.St.FloorActive++
	}
	if int64(cw) == lo {
		m.St.CwndAtMin++
	}
	if int64(cw) == hi {
		m.St.CwndAtMax++
	}
	if p := float64(cw) / float64(m.mtu); p < m.St.MinCwndPkts {
		m.St.MinCwndPkts = p
	}
	m.St.Modes |= 1 << uint(m.bbrSender.mode)
	m.St.Recovery |= 1 << uint(m.bbrSender.recoveryState)
}

func (m *vfC12Mon) checkEntry(pn int64, where string) {
	r := m.out[pn]
	if r == nil || r.stale {
		return
	}
	q := m.bbrSender.sampler.connectionStateMap
	var e *connectionStateOnSentPacket
	m.guard("connectionStateMap.GetEntry", func() { e = q.GetEntry(congestion.PacketNumber(pn)) })
	if m.Dead {
		return
	}
	if e == nil {
		m.violate("bbr:bookkeeping-integrity", "after %s: packet %d is in flight (sent t=%d, %d B) but the sampler has no entry for it (first=%d slots=%d present=%d)",
			where, pn, r.t, r.bytes, q.FirstPacket(), q.EntrySlotsUsed(), q.NumberOfPresentEntries())
		return
	}
	if e.sentTime != r.t || int64(e.size) != r.bytes {
		m.violate("bbr:bookkeeping-integrity", "after %s: sampler entry for packet %d holds (sentTime=%d,size=%d) but the packet was sent with (t=%d,size=%d): wrong slot (first=%d slots=%d)",
			where, pn, e.sentTime, e.size, r.t, r.bytes, q.FirstPacket(), q.EntrySlotsUsed())
	}
}

func (m *vfC12Mon) checkBookkeeping(afterEvent bool, nBefore int, where string) {
	if m.Dead {
		return
	}
	q := m.bbrSender.sampler.connectionStateMap
	slots := q.EntrySlotsUsed()
	if slots > m.St.MaxSlots {
		m.St.MaxSlots = slots
	}
	if q.NumberOfPresentEntries() > slots || q.NumberOfPresentEntries() < 0 {
		m.violate("bbr:bookkeeping-integrity", "after %s: present entries %d vs slots %d", where, q.NumberOfPresentEntries(), slots)
		return
	}
	n := nBefore
	if !afterEvent {
		n = m.nRef + m.visN
	}
	if afterEvent {
		if d := slots - vfC12SizeC*(n+1); d > m.St.MaxSlotsMinusCN {
			m.St.MaxSlotsMinusCN = d
		}
	}
	if bound := vfC12SizeC*(n+1) + vfC12SizeC0; slots > bound {
		m.violate("bbr:bookkeeping-not-proportional", "after %s: sampler queue uses %d slots with %d packets in flight (bound %d*(n+1)+%d=%d); first=%d lastSent=%d highestReported=%d",
			where, slots, n, vfC12SizeC, vfC12SizeC0, bound, q.FirstPacket(), m.lastPN, m.hw)
		return
	}
	// (a) only once one of OUR packets has been acked: "largest acked" is the anchor the statement
	// names. Packets declared lost in this very event may legitimately still occupy slots above it
	// until the next event (they are covered by (b), which counts in-flight before the event).
	if afterEvent && !q.IsEmpty() && m.ackHW >= 0 {
		low, ok := m.lowestVisible()
		bound := m.ackHW - vfC12StaleK
		if ok && low < bound {
			bound = low
		}
		first := int64(q.FirstPacket())
		if d := first - m.ackHW; d < m.St.MinFirstMinusHW {
			m.St.MinFirstMinusHW = d
		}
		if first < bound {
			m.violate("bbr:bookkeeping-stale-entries", "after %s: sampler queue still starts at packet %d, older than min(lowest in flight=%d(ok=%v), largest acked %d - %d): obsolete packets are not pruned (slots=%d)",
				where, first, low, ok, m.ackHW, vfC12StaleK, slots)
			return
		}
	}
}

// ---------------------------------------------------------------- callbacks quic-go uses

func (m *vfC12Mon) OnPacketSent(sentTime monotime.Time, bytesInFlight congestion.ByteCount, pn congestion.PacketNumber, bytes congestion.ByteCount, isRetransmittable bool) {
	m.mu.Lock()
	defer m.mu.Unlock()
	if m.Dead {
		return
	}
	m.St.Calls++
	m.St.Sent++
	m.epoch++
	p, b, bif := int64(pn), int64(bytes), int64(bytesInFlight)
	m.note("S t=%d pn=%d bytes=%d bif=%d retx=%v", sentTime, p, b, bif, isRetransmittable)
	// --- structural predicate
	if b <= 0 {
		m.ill("OnPacketSent pn=%d with bytes=%d", p, b)
	}
	if m.started {
		if p <= m.lastPN {
			m.ill("OnPacketSent pn=%d not above previous pn=%d", p, m.lastPN)
		}
		if sentTime < m.lastSendT {
			m.ill("OnPacketSent pn=%d sentTime=%d before previous send %d", p, sentTime, m.lastSendT)
		}
	} else {
		m.started = true
		m.firstPN = p
		pre := bif
		if isRetransmittable {
			pre -= b
		}
		if pre < 0 {
			m.ill("first OnPacketSent: bytesInFlight=%d smaller than the packet itself (%d)", bif, b)
			pre = 0
		}
		m.visBytes = pre // bytes of packets sent before this controller was installed
	}
	if isRetransmittable {
		m.visBytes += b
		if bif < b || bif > m.visBytes {
			m.ill("OnPacketSent pn=%d bytesInFlight=%d outside [%d (the packet), %d (all bytes not yet reported acked/lost)]", p, bif, b, m.visBytes)
		}
		m.nonRetxRun = 0
	} else {
		if bif < 0 || bif > m.visBytes {
			m.ill("OnPacketSent pn=%d (ack-only) bytesInFlight=%d outside [0,%d]", p, bif, m.visBytes)
		}
		m.nonRetxRun++
		if m.nonRetxRun > m.St.MaxNonRetxRun {
			m.St.MaxNonRetxRun = m.nonRetxRun
		}
		if m.nonRetxRun > vfC12MaxNonRetxRun {
			m.ill("run of %d non-retransmittable packets (QUIC sends at most %d)", m.nonRetxRun, vfC12MaxNonRetxRun)
		}
	}
	m.lastPN, m.lastSendT = p, sentTime
	if isRetransmittable {
		m.St.SentRetx++
		m.out[p] = &vfC12Rec{bytes: b, t: sentTime}
		m.order = append(m.order, p)
		m.visN++
		m.lastRetxPN = p
		if m.visN > m.St.MaxVisible {
			m.St.MaxVisible = m.visN
		}
		m.mix('S')
	} else {
		m.mix('s')
	}
	// --- the real sender
	m.guard("OnPacketSent", func() { m.bbrSender.OnPacketSent(sentTime, bytesInFlight, pn, bytes, isRetransmittable) })
	// --- oracles
	m.checkOutputs("OnPacketSent")
	if isRetransmittable && !m.Dead {
		m.checkEntry(p, "OnPacketSent")
		if q := m.bbrSender.sampler.connectionStateMap; !m.Dead && int64(q.LastPacket()) != p {
			m.violate("bbr:bookkeeping-integrity", "after OnPacketSent(pn=%d): sampler queue's last packet is %d (first=%d slots=%d)", p, q.LastPacket(), q.FirstPacket(), q.EntrySlotsUsed())
		}
	}
	m.checkBookkeeping(false, 0, "OnPacketSent")
}

func (m *vfC12Mon) OnCongestionEventEx(priorInFlight congestion.ByteCount, eventTime monotime.Time, acked []congestion.AckedPacketInfo, lost []congestion.LostPacketInfo) {
	m.mu.Lock()
	defer m.mu.Unlock()
	if m.Dead {
		return
	}
	m.St.Calls++
	m.St.Events++
	m.epoch++
	m.St.AckedPkts += int64(len(acked))
	m.St.LostPkts += int64(len(lost))
	if len(acked) == 0 {
		m.St.LossOnlyEvents++
	}
	if len(acked)+len(lost) <= 12 {
		m.note("E t=%d prior=%d acked=%v lost=%v", eventTime, priorInFlight, acked, lost)
	} else {
		var a0, a1, l0, l1 int64 = -1, -1, -1, -1
		if len(acked) > 0 {
			a0, a1 = int64(acked[0].PacketNumber), int64(acked[len(acked)-1].PacketNumber)
		}
		if len(lost) > 0 {
			l0, l1 = int64(lost[0].PacketNumber), int64(lost[len(lost)-1].PacketNumber)
		}
		m.note("E t=%d prior=%d acked=%d pkts [%d..%d] lost=%d pkts [%d..%d]", eventTime, priorInFlight, len(acked), a0, a1, len(lost), l0, l1)
	}
	// --- structural predicate
	nBefore := m.visN
	if len(acked) == 0 && len(lost) == 0 {
		m.ill("OnCongestionEventEx with both lists empty")
	}
	if m.haveEv && eventTime < m.lastEvT {
		m.ill("event time %d before previous event %d", eventTime, m.lastEvT)
	}
	m.lastEvT, m.haveEv = eventTime, true // monotime may be negative (synctest bubble): no zero sentinel
	var removed int64
	take := func(kind string, i int, pn, bytes, prev int64) {
		if i > 0 && pn <= prev {
			m.ill("%s list not strictly ascending: %d after %d", kind, pn, prev)
		}
		if bytes <= 0 {
			m.ill("%s pn=%d with bytes=%d", kind, pn, bytes)
		}
		removed += bytes
		if !m.started || pn < m.firstPN {
			// sent before this controller was installed (QUIC swaps controllers after the handshake)
			if m.pre[pn] {
				m.ill("%s pn=%d (sent before installation) reported twice", kind, pn)
			}
			m.pre[pn] = true
			m.St.PreInstallAcked++
			return
		}
		if pn > m.lastPN {
			m.ill("%s pn=%d above the last sent pn=%d", kind, pn, m.lastPN)
			return
		}
		r := m.out[pn]
		if r == nil {
			m.ill("%s pn=%d is not an outstanding retransmittable packet (never sent, ack-only, or already reported)", kind, pn)
			return
		}
		if r.bytes != bytes {
			m.ill("%s pn=%d bytes=%d but it was sent with %d", kind, pn, bytes, r.bytes)
		}
		if eventTime < r.t {
			m.ill("%s pn=%d at t=%d before it was sent (t=%d)", kind, pn, eventTime, r.t)
		}
		if !r.stale {
			m.visN--
		}
		delete(m.out, pn)
		if pn > m.hw {
			m.hw = pn
		}
		if kind == "acked" && pn > m.ackHW {
			m.ackHW = pn
		}
		if kind == "lost" && pn > m.lostHW {
			m.lostHW = pn
		}
	}
	var prev int64
	for i, a := range acked {
		take("acked", i, int64(a.PacketNumber), int64(a.BytesAcked), prev)
		prev = int64(a.PacketNumber)
	}
	for i, l := range lost {
		take("lost", i, int64(l.PacketNumber), int64(l.BytesLost), prev)
		prev = int64(l.PacketNumber)
	}
	if int64(priorInFlight) < removed {
		m.ill("priorInFlight=%d smaller than the %d bytes removed by this event", priorInFlight, removed)
	}
	if m.started && int64(priorInFlight) > m.visBytes {
		m.ill("priorInFlight=%d larger than all bytes not yet reported acked/lost (%d)", priorInFlight, m.visBytes)
	}
	if m.started {
		m.visBytes -= removed
		if m.visBytes < 0 {
			m.visBytes = 0
		}
	}
	m.age()
	if len(acked) > 0 {
		m.mix('A')
	}
	if len(lost) > 0 {
		m.mix('L')
	}
	// --- the real sender
	m.guard("OnCongestionEventEx", func() { m.bbrSender.OnCongestionEventEx(priorInFlight, eventTime, acked, lost) })
	// --- oracles
	m.checkOutputs("OnCongestionEventEx")
	m.checkBookkeeping(true, nBefore, "OnCongestionEventEx")
	if !m.Dead {
		if low, ok := m.lowestVisible(); ok {
			m.checkEntry(low, "OnCongestionEventEx")
		}
		if !m.Dead && m.lastRetxPN >= 0 {
			m.checkEntry(m.lastRetxPN, "OnCongestionEventEx")
		}
	}
	m.nRef = nBefore
}

func (m *vfC12Mon) SetMaxDatagramSize(s congestion.ByteCount) {
	m.mu.Lock()
	defer m.mu.Unlock()
	if m.Dead {
		return
	}
	m.St.Calls++
	m.St.MTUEvents++
	m.epoch++
	m.note("M size=%d (was %d)", s, m.mtu)
	if int64(s) < m.mtu {
		m.ill("SetMaxDatagramSize(%d) below the current size %d", s, m.mtu)
	}
	m.mix('M')
	m.guard("SetMaxDatagramSize", func() { m.bbrSender.SetMaxDatagramSize(s) })
	if int64(s) >= m.mtu {
		m.mtu = int64(s)
	}
	m.checkOutputs("SetMaxDatagramSize")
}

// After the first violation the monitor fails open: "may send, no pacing". The engine stops a
// simulator trace anyway; a real quic-go connection just finishes its transfer uncontrolled.
func (m *vfC12Mon) CanSend(bytesInFlight congestion.ByteCount) (ok bool) {
	m.mu.Lock()
	defer m.mu.Unlock()
	if m.Dead {
		return true
	}
	m.St.Queries++
	m.guard("CanSend", func() { ok = m.bbrSender.CanSend(bytesInFlight) })
	return ok || m.Dead
}

func (m *vfC12Mon) HasPacingBudget(now monotime.Time) (ok bool) {
	m.mu.Lock()
	defer m.mu.Unlock()
	if m.Dead {
		return true
	}
	m.St.Queries++
	m.guard("HasPacingBudget", func() { ok = m.bbrSender.HasPacingBudget(now) })
	if m.Dead {
		return true
	}
	atDeadline := m.annValid && m.annEpoch == m.epoch && now >= m.annT
	if atDeadline {
		m.St.DeadlinesChecked++ // an announced deadline reached with nothing in between
	}
	if ok {
		m.plValid = false
		m.spinN = 0
		return true
	}
	m.St.PacingLimited++
	if atDeadline {
		p := m.bbrSender.pacer
		m.note("P now=%d HasPacingBudget=false (announced %d)", now, m.annT)
		m.violate("bbr:no-budget-at-announced-time", "pacing limited, TimeUntilSend() announced %d; nothing happened in between (no send, no ack/loss event, no datagram-size change), yet at %d HasPacingBudget=false: budget %d < datagram %d (pacer bandwidth %d B/s, mode=%d pacingGain=%.2f)",
			m.annT, now, p.Budget(now), m.bbrSender.maxDatagramSize, m.bbrSender.bandwidthForPacer(), m.bbrSender.mode, m.bbrSender.pacingGain)
		return true
	}
	m.plValid, m.plNow, m.plEpoch = true, now, m.epoch
	if m.spinN > 0 && now == m.spinNow && m.epoch == m.spinEpoch {
		m.spinN++
		if m.spinN > 2000 {
			m.violate("bbr:send-loop-spin", "HasPacingBudget(%d)=false %d times in a row at the same instant with no send/ack in between: the send loop is spinning", now, m.spinN)
			return true
		}
	} else {
		m.spinN, m.spinNow, m.spinEpoch = 1, now, m.epoch
	}
	return false
}

func (m *vfC12Mon) TimeUntilSend(bytesInFlight congestion.ByteCount) (t monotime.Time) {
	m.mu.Lock()
	defer m.mu.Unlock()
	if m.Dead {
		return 0
	}
	m.St.Queries++
	m.guard("TimeUntilSend", func() { t = m.bbrSender.TimeUntilSend(bytesInFlight) })
	if m.Dead {
		return 0
	}
	if m.plValid && m.plEpoch == m.epoch {
		m.St.DeadlinesAnnounced++
		if t == 0 || t <= m.plNow {
			p := m.bbrSender.pacer
			m.note("P now=%d HasPacingBudget=false TimeUntilSend=%d", m.plNow, t)
			m.violate("bbr:pacing-limited-without-future-deadline", "HasPacingBudget(%d)=false (budget %d < datagram %d, pacer bandwidth %d B/s) but TimeUntilSend()=%d is zero or not after now: quic-go's send loop re-arms an expired pacing timer and makes no progress (mode=%d pacingGain=%.2f)",
				m.plNow, p.Budget(m.plNow), m.bbrSender.maxDatagramSize, m.bbrSender.bandwidthForPacer(), t, m.bbrSender.mode, m.bbrSender.pacingGain)
			return 0
		}
	}
	m.annValid, m.annT, m.annEpoch = true, t, m.epoch
	return t
}

// SetRTTStatsProvider is what SetCongestionControl calls first: the outputs must already be
// sane at installation, before the first packet and long before the first ack.
func (m *vfC12Mon) SetRTTStatsProvider(p congestion.RTTStatsProvider) {
	m.mu.Lock()
	defer m.mu.Unlock()
	m.guard("SetRTTStatsProvider", func() { m.bbrSender.SetRTTStatsProvider(p) })
	m.checkOutputs("SetRTTStatsProvider (installation)")
}

func (m *vfC12Mon) GetCongestionWindow() (w congestion.ByteCount) {
	m.mu.Lock()
	defer m.mu.Unlock()
	m.guard("GetCongestionWindow", func() { w = m.bbrSender.GetCongestionWindow() })
	return w
}

func (m *vfC12Mon) MaybeExitSlowStart() {
	m.mu.Lock()
	defer m.mu.Unlock()
	m.guard("MaybeExitSlowStart", func() { m.bbrSender.MaybeExitSlowStart() })
}

func (m *vfC12Mon) OnPacketAcked(n congestion.PacketNumber, b, prior congestion.ByteCount, t monotime.Time) {
	m.mu.Lock()
	defer m.mu.Unlock()
	m.guard("OnPacketAcked", func() { m.bbrSender.OnPacketAcked(n, b, prior, t) })
}

func (m *vfC12Mon) OnCongestionEvent(n congestion.PacketNumber, lostBytes, prior congestion.ByteCount) {
	m.mu.Lock()
	defer m.mu.Unlock()
	m.guard("OnCongestionEvent", func() { m.bbrSender.OnCongestionEvent(n, lostBytes, prior) })
}

var _ congestion.CongestionControlEx = &vfC12Mon{}

// VisibleInFlight is the monitor's count of packets the controller can believe in flight.
func (m *vfC12Mon) VisibleInFlight() int { m.mu.Lock(); defer m.mu.Unlock(); return m.visN }

// vfC12Agg sums per-trace statistics into kit counters.
type vfC12Agg struct {
	mu                                   sync.Mutex
	modes, recov                         [4]int64
	maxSlots, maxVis, maxRun, maxSlotsCN int
	minFirstHW                           int64
	orderHashes                          map[uint64]struct{}
}

func vfC12NewAgg() *vfC12Agg {
	return &vfC12Agg{minFirstHW: 1 << 40, maxSlotsCN: -1 << 30, orderHashes: map[uint64]struct{}{}}
}

func (a *vfC12Agg) add(k *vfKit, st vfC12Stats) {
	k.Count("ev_callbacks", st.Calls)
	k.Count("ev_queries", st.Queries)
	k.Count("pacing_limited_answers", st.PacingLimited)
	k.Count("pacing_deadlines_checked_future", st.DeadlinesAnnounced)
	k.Count("pacing_deadlines_reached_undisturbed", st.DeadlinesChecked)
	k.Count("packets_sent", st.Sent)
	k.Count("packets_sent_retransmittable", st.SentRetx)
	k.Count("packets_sent_ack_only", st.Sent-st.SentRetx)
	k.Count("congestion_events", st.Events)
	k.Count("loss_only_events", st.LossOnlyEvents)
	k.Count("packets_acked", st.AckedPkts)
	k.Count("packets_lost", st.LostPkts)
	k.Count("datagram_size_increases", st.MTUEvents)
	k.Count("preinstall_packets_reported", st.PreInstallAcked)
	k.Count("callbacks_with_pacer_floor_binding", st.FloorActive)
	k.Count("callbacks_with_cwnd_at_4_datagrams", st.CwndAtMin)
	k.Count("callbacks_with_cwnd_at_max_window", st.CwndAtMax)
	a.mu.Lock()
	defer a.mu.Unlock()
	for i := 0; i < 4; i++ {
		if st.Modes&(1<<uint(i)) != 0 {
			a.modes[i]++
		}
		if st.Recovery&(1<<uint(i)) != 0 {
			a.recov[i]++
		}
	}
	a.maxSlots = max(a.maxSlots, st.MaxSlots)
	a.maxVis = max(a.maxVis, st.MaxVisible)
	a.maxRun = max(a.maxRun, st.MaxNonRetxRun)
	a.maxSlotsCN = max(a.maxSlotsCN, st.MaxSlotsMinusCN)
	a.minFirstHW = min(a.minFirstHW, st.MinFirstMinusHW)
	a.orderHashes[st.OrderHash] = struct{}{}
}

func (a *vfC12Agg) finish(k *vfKit) {
	a.mu.Lock()
	defer a.mu.Unlock()
	names := []string{"startup", "drain", "probe_bw", "probe_rtt"}
	for i, n := range names {
		k.Count("traces_reaching_"+n, a.modes[i])
	}
	k.Count("traces_in_recovery_conservation", a.recov[1])
	k.Count("traces_in_recovery_growth", a.recov[2])
	k.Count("max_sampler_slots", int64(a.maxSlots))
	k.Count("max_packets_in_flight", int64(a.maxVis))
	k.Count("max_ack_only_run", int64(a.maxRun))
	k.Count("calib_max_slots_minus_24x_inflight", int64(a.maxSlotsCN))
	if a.minFirstHW < 1<<40 {
		k.Count("calib_min_queue_first_minus_largest_acked", a.minFirstHW)
	}
	k.Count("distinct_callback_orders", int64(len(a.orderHashes)))
}

func vfC12HashStr(s string) uint64 {
	h := fnv.New64a()
	_, _ = h.Write([]byte(s))
	return h.Sum64()
}
