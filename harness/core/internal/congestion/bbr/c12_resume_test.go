//go:build verif

package bbr

// C12, fixed-capacity clause with a non-trivial application: "on a loss-free path of fixed
// capacity it neither deadlocks nor settles far below that capacity" must also hold when the
// flow has been application-limited for a while and then has bulk data again. Same simulator,
// same monitor (all invariants keep being checked after every callback); the application
// follows a script and the delivered rate is judged over a window that starts when the
// application turns bulk for the last time.
//
// Patterns (f = application rate as a fraction of capacity, N = length in propagation RTTs):
//
//	A  bulk (>= 60 RTT, PROBE_BW reached) -> app-limited f in {2,4,20 %} for N in {3,12,40} -> bulk
//	B  app-limited from the very first packet (f, N) -> bulk
//	C  on/off bursts (bulk for a few RTT, silent for a few RTT, repeated) -> bulk
//
// Window: max(1 s, 25 RTT) after the switch to bulk. Thresholds: see vfC12ResumeThreshold; the
// measured ratios are written to the evidence counters resume_permille_<profile>_<link>_<pattern>
// (minimum over variants).

import (
	"encoding/json"
	"fmt"
	"testing"

	"github.com/apernet/quic-go/congestion"
)

type vfC12ResumePattern struct {
	Name  string
	Class string // A | B | C
	FPermille int // application rate of the limited phase (permille of capacity)
	// build returns the script before the final bulk phase
	Pre func(rttUs int64) []vfC12AppPhase
}

func vfC12ResumePatterns(quick bool, linkIdx int) []vfC12ResumePattern {
	var out []vfC12ResumePattern
	bulk1 := func(rttUs int64) vfC12AppPhase { return vfC12AppPhase{DurUs: max(3_000_000, 60*rttUs), RatePermille: -1} }
	for _, f := range []int{20, 40, 200} {
		for _, n := range []int64{3, 12, 40} {
			f, n := f, n
			if quick && linkIdx > 0 && !(f == 40 && n == 40 || f == 200 && n == 12 || f == 20 && n == 40) {
				continue
			}
			out = append(out, vfC12ResumePattern{Name: fmt.Sprintf("A-bulk-f%d-n%d", f, n), Class: "A", FPermille: f, Pre: func(rttUs int64) []vfC12AppPhase {
				return []vfC12AppPhase{bulk1(rttUs), {DurUs: n * rttUs, RatePermille: f}}
			}})
		}
	}
	for _, f := range []int{40, 200} {
		for _, n := range []int64{12, 40} {
			f, n := f, n
			if quick && linkIdx > 0 && !(f == 40 && n == 40) {
				continue
			}
			out = append(out, vfC12ResumePattern{Name: fmt.Sprintf("B-start-f%d-n%d", f, n), Class: "B", FPermille: f, Pre: func(rttUs int64) []vfC12AppPhase {
				return []vfC12AppPhase{{DurUs: n * rttUs, RatePermille: f}}
			}})
		}
	}
	for _, oo := range [][2]int64{{2, 3}, {1, 8}} {
		oo := oo
		if quick && linkIdx > 0 && oo[0] == 2 {
			continue
		}
		out = append(out, vfC12ResumePattern{Name: fmt.Sprintf("C-onoff-%d-%d", oo[0], oo[1]), Class: "C", Pre: func(rttUs int64) []vfC12AppPhase {
			ph := []vfC12AppPhase{bulk1(rttUs)}
			for i := 0; i < 8; i++ {
				ph = append(ph, vfC12AppPhase{DurUs: oo[1] * rttUs, RatePermille: 0}, vfC12AppPhase{DurUs: oo[0] * rttUs, RatePermille: -1})
			}
			return append(ph, vfC12AppPhase{DurUs: oo[1] * rttUs, RatePermille: 0})
		}})
	}
	return out
}

var vfC12ResumeLinks = []vfC12Link{
	{Name: "40Mbit-40ms", Mbit: 40, RTTms: 40},
	{Name: "10Mbit-100ms", Mbit: 10, RTTms: 100},
	{Name: "100Mbit-20ms", Mbit: 100, RTTms: 20},
}

// vfC12ResumeThreshold: minimum delivered/capacity over the window after the application became
// bulk again.
//
// Calibration on the unchanged tree (quick seeds 1,2,3,7,42 and thorough; counters
// resume_permille_* in the evidence hold the per-scenario minimum):
//
//	class A (bulk first) and C (on/off): 0.86 .. 0.98 for every profile, link and pattern -> the same
//	  "far below capacity" threshold as for pure bulk, 0.50, has a margin of > 0.35.
//	class B (application-limited from the very first packet): the unchanged tree itself is slow
//	  here in some scenarios (0.15 at 4 % on 10 Mbit/s x 100 ms, 0.35 at 20 % on 40 Mbit/s x 40 ms,
//	  0.90 at 4 % on 40 Mbit/s x 40 ms, all profiles alike): the sender leaves STARTUP with the
//	  application's rate as its estimate and then probes upwards by 1.25x per gain cycle. It does not
//	  settle, it converges slowly, so the 50 % bar is NOT demanded there (it would alarm on code
//	  where the property as stated holds). Demanded instead is only the weakest sound statement:
//	  with bulk data the flow delivers at least what the application offered before (ratio >= f).
func vfC12ResumeThreshold(pat vfC12ResumePattern, prof Profile) float64 {
	if pat.Class == "B" {
		return float64(pat.FPermille) / 1000
	}
	return 0.50
}

func TestVerifC12Resume(t *testing.T) {
	k := vfNewKit(t, "C12", "bbr-resume")
	defer k.Finish()
	k.maxSamples = 8
	agg := vfC12NewAgg()
	defer agg.finish(k)
	minRatio := map[string]float64{}
	variants := k.N(1, 3)
	links := vfC12ResumeLinks
	if k.Quick() {
		links = links[:2]
	}
	for _, prof := range vfC12Profiles {
		for li, l := range links {
			for pi, pat := range vfC12ResumePatterns(k.Quick(), li) {
				for v := 0; v < variants; v++ {
					id := fmt.Sprintf("resume-%s-%s-%s-v%d", prof, l.Name, pat.Name, v)
					if rc := k.ReplayCase(); rc != "" && rc != id {
						continue
					}
					r := k.Rand(id)
					capBps := int64(l.Mbit * 125000)
					rttUs := l.RTTms * 1000
					bdp := capBps * rttUs / 1e6
					winUs := max(1_000_000, 25*rttUs)
					script := append(pat.Pre(rttUs), vfC12AppPhase{DurUs: winUs + rttUs, RatePermille: -1})
					var totalUs int64
					for _, ph := range script {
						totalUs += ph.DurUs
					}
					p := vfC12Params{
						CaseID: id, Kind: "resume-" + pat.Class, Profile: string(prof), CapBps: capBps, RTTus: rttUs,
						AckEvery: []int{2, 2, 1, 4}[(pi+v)%4], AckDelayUs: 25000, App: "script", Script: script, WinUs: winUs,
						GapEvery: 256, QuicStart: []int64{1280, 1200, 1252}[(li+v)%3], MaxMTU: 1452, PathMTU: 1500,
						PreInstall: r.Intn(4), MaxPkts: congestion.MaxCongestionWindowPackets,
						DurMs: totalUs/1000 + 1, PktBudget: 1 << 30, Progress: true,
					}
					if v%2 == 1 {
						p.QueueBytes = max(4*bdp, 8*1500)
					}
					sim, ok := vfC12RunTrace(t, k, agg, p)
					if !ok || sim.mon.Dead {
						continue
					}
					k.Count("ev_resume_runs", 1)
					ratio := float64(sim.deliveredWin) / (float64(capBps) * float64(winUs) / 1e6)
					res := vfC12Result(sim)
					res.Util = ratio
					if sim.drops != 0 {
						k.Count("resume_runs_excluded_drops", 1)
						continue
					}
					k.Count("resume_runs_asserted", 1)
					key := fmt.Sprintf("resume_permille_%s_%s_%s", prof, l.Name, pat.Name)
					if old, seen := minRatio[key]; !seen || ratio < old {
						minRatio[key] = ratio
					}
					b, _ := json.Marshal(p)
					k.Nontrivial(string(b))
					if pi%5 == 0 && v == 0 && li == 0 {
						k.Sample(res)
					}
					if thr := vfC12ResumeThreshold(pat, prof); ratio < thr {
						k.Violation("bbr:goodput-far-below-capacity-after-app-limited:"+string(prof), map[string]any{"case_id": id, "params": p, "last_calls": sim.mon.Tail()},
							"%s: loss-free %s link, application bulk again after pattern %s: delivered %.1f%% of capacity over the next %.2f s (< %.0f%%): %d B at %d B/s; bandwidth estimate %d B/s, cwnd=%d mode=%d pacingRate=%d bit/s",
							id, l.Name, pat.Name, ratio*100, float64(winUs)/1e6, thr*100, sim.deliveredWin, capBps,
							int64(sim.mon.bbrSender.bandwidthEstimate())/8, sim.mon.bbrSender.GetCongestionWindow(), sim.mon.bbrSender.mode, sim.mon.bbrSender.pacingRate)
					}
				}
			}
		}
	}
	for key, u := range minRatio {
		k.Count(key, int64(u*1000))
	}
}
