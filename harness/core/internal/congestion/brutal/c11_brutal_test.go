//go:build verif

package brutal

// C11 — Brutal sends at the configured rate: bounded above, never stalled.
//
// Three harness parts live in this file (real quic-go: c11_quic_test.go; pacer-only: package common):
//
//   brutal-sendloop  a simulated QUIC send loop around a real BrutalSender on a purely virtual
//                    monotonic clock. The loop mirrors quic-go's call discipline
//                    (sent_packet_handler.go SendMode: CanSend(bytesInFlight) -> HasPacingBudget(now);
//                    connection.go triggerSending/sendPackets*: send while SendAny, on
//                    SendPacingLimited arm the timer with TimeUntilSend(); SentPacket ->
//                    OnPacketSent(now, bytesInFlightAfter, pn, size, ackEliciting) for EVERY packet,
//                    ACK-only ones included; ReceivedAck/OnLossDetectionTimeout ->
//                    OnCongestionEventEx(priorInFlight, now, acked, lost), never both empty; RTT is
//                    updated before the controller is told; SetMaxDatagramSize when an MTU probe is
//                    acknowledged).
//   brutal-window    short call sequences where the one-datagram floor is what determines the window
//                    (64..200 KB/s with RTT 0..10 ms, rate x RTT x 2 just below / above one datagram):
//                    window reads, MTU raises at arbitrary points, ack/loss batches, sends and rare RTT
//                    changes on a fake RTTStatsProvider that otherwise keeps returning the same value; the
//                    floor is asserted against the CURRENT datagram size after every call.
//   brutal-ackrate   OnCongestionEventEx driven directly with synthetic ack/loss batches over long
//                    virtual time spans (second boundaries, multi-second silences, totals walking
//                    through the 50-sample threshold, loss rates around the 0.8 clamp).
//
// Oracles (written from the property statement, not from the code):
//   envelope    over EVERY interval [t_i, t_j] of the log of pacing-released packets:
//               bytes <= B + (bps/0.8)*(t_j - t_i),  B = max(4 ms * bps/0.8, 10 * MTUmax) + MTUmax.
//               O(n) with a running minimum of the potential C_{i-1} - r*t_i.
//   ackRate     independent slot model: acked/(acked+lost) over the 5 one-second slots
//               [sec-4, sec] (sec = integer second of the virtual event time) when >= 50 samples,
//               else 1; clamped to [0.8, 1]; 1 when compensation is disabled. Compared with the
//               sender's factor after every ack/loss event.
//   progress    window >= one datagram and CanSend with nothing in flight, always; whenever the loop
//               is pacing limited the announced time is non-zero and strictly after now, and at the
//               announced time (no intervening send/ack/loss/MTU event) there is budget for a full
//               datagram.
//   rate floor  OBSERVED ONLY, counter obs_saturated_rate_below_configured, not a verdict (from the title "sends at the configured rate" and the anchor "pacer bandwidth =
//               bps / ackRate") while the loop is saturated — always has data, wakes exactly when
//               the pacer says, never window limited — it moves at least bps * elapsed bytes, up to
//               one datagram plus integer rounding.

import (
	"fmt"
	"math"
	"math/rand"
	"testing"
	"time"

	"github.com/apernet/quic-go/congestion"
	"github.com/apernet/quic-go/monotime"
)

const (
	vfC11MinMTU     = 1200
	vfC11MaxMTU     = 1500
	vfC11DefaultMDS = 1280 // a fresh controller assumes quic-go's initial packet size
	vfC11MinRate    = 65536
	vfC11MaxRate    = 5_000_000_000
	vfC11Hour       = int64(time.Hour)
)

// ---------------------------------------------------------------------------------------------
// fake RTTStatsProvider

type vfC11RTT struct {
	srtt  time.Duration
	fixed bool // a path whose smoothed RTT does not move: consecutive window reads see the same RTT
}

func (r *vfC11RTT) MinRTT() time.Duration        { return r.srtt }
func (r *vfC11RTT) LatestRTT() time.Duration     { return r.srtt }
func (r *vfC11RTT) SmoothedRTT() time.Duration   { return r.srtt }
func (r *vfC11RTT) MeanDeviation() time.Duration { return r.srtt / 2 }
func (r *vfC11RTT) MaxAckDelay() time.Duration   { return 25 * time.Millisecond }
func (r *vfC11RTT) PTO(bool) time.Duration       { return r.srtt + 2*r.srtt + 25*time.Millisecond }
func (r *vfC11RTT) UpdateRTT(sendDelta, ackDelay time.Duration) {
	if sendDelta <= 0 || r.fixed { // quic-go ignores non-positive samples
		return
	}
	if r.srtt == 0 {
		r.srtt = sendDelta
		return
	}
	r.srtt = (7*r.srtt + sendDelta) / 8
}
func (r *vfC11RTT) SetMaxAckDelay(time.Duration) {}
func (r *vfC11RTT) SetInitialRTT(time.Duration)  {}

// ---------------------------------------------------------------------------------------------
// reference model 1: sliding-window envelope, O(n)

type vfC11Envelope struct {
	ratePerNs float64 // bytes per nanosecond allowed in the long run (bps/0.8)
	burst     float64 // B
	t0        int64
	cum       int64
	n         int
	minPot    float64 // min over i<=j of  C_{i-1} - r*(t_i - t0)
	minT      int64
	minCum    int64
	minIdx    int
}

func vfC11NewEnvelope(bps uint64, mtuMax int64) vfC11Envelope {
	r := float64(bps) / 0.8
	return vfC11Envelope{
		ratePerNs: r / 1e9,
		burst:     math.Max(r*0.004, float64(10*mtuMax)) + float64(mtuMax),
	}
}

// send records a pacing-released packet. It returns a non-empty description when some interval
// ending at this packet holds more bytes than the envelope allows.
func (e *vfC11Envelope) send(t int64, bytes int64) string {
	if e.n == 0 {
		e.t0 = t
	}
	x := e.ratePerNs * float64(t-e.t0)
	pot := float64(e.cum) - x
	if e.n == 0 || pot < e.minPot {
		e.minPot, e.minT, e.minCum, e.minIdx = pot, t, e.cum, e.n
	}
	e.cum += bytes
	e.n++
	if excess := float64(e.cum) - x - e.minPot - e.burst; excess > 0.01 {
		return fmt.Sprintf("packets #%d..#%d: %d bytes in [%d ns, %d ns] (%d ns) > burst %.0f + rate %.3f B/s * interval = %.1f (excess %.1f bytes)",
			e.minIdx, e.n-1, e.cum-e.minCum, e.minT, t, t-e.minT, e.burst, e.ratePerNs*1e9,
			e.burst+e.ratePerNs*float64(t-e.minT), excess)
	}
	return ""
}

// ---------------------------------------------------------------------------------------------
// reference model 2: loss-compensation factor

type vfC11AckEv struct {
	t    int64
	a, l uint64
}

type vfC11AckModel struct {
	disabled bool
	slots    map[int64][2]uint64 // integer second -> {acked, lost}
	evs      []vfC11AckEv        // recent events, only to classify slot-boundary cases
}

func vfC11NewAckModel(disabled bool) *vfC11AckModel {
	return &vfC11AckModel{disabled: disabled, slots: map[int64][2]uint64{}}
}

// event feeds one ack/loss batch and returns the factor the statement prescribes after it.
// boundary reports that samples exist which are younger than 5.000 s but fall outside the five
// one-second slots (the "roughly" of the statement): the verdict then rests on the slot reading.
func (m *vfC11AckModel) event(t int64, acked, lost int) (want float64, total uint64, boundary bool) {
	sec := t / int64(time.Second)
	s := m.slots[sec]
	s[0] += uint64(acked)
	s[1] += uint64(lost)
	m.slots[sec] = s
	var a, l uint64
	for q, v := range m.slots {
		switch {
		case q < sec-8:
			delete(m.slots, q)
		case q >= sec-4 && q <= sec:
			a += v[0]
			l += v[1]
		}
	}
	m.evs = append(m.evs, vfC11AckEv{t, uint64(acked), uint64(lost)})
	i := 0
	for i < len(m.evs) && m.evs[i].t <= t-5*int64(time.Second) {
		i++
	}
	m.evs = m.evs[i:]
	for _, e := range m.evs {
		if e.t >= (sec-4)*int64(time.Second) {
			break
		}
		if e.a+e.l > 0 {
			boundary = true
			break
		}
	}
	total = a + l
	switch {
	case m.disabled:
		want = 1
	case total < 50:
		want = 1
	default:
		want = float64(a) / float64(total)
		if want < 0.8 {
			want = 0.8
		}
	}
	return
}

// vfC11CheckAckRate compares the sender's factor with the model after an event.
func vfC11CheckAckRate(k *vfKit, rep func() any, b *BrutalSender, m *vfC11AckModel, t int64, acked, lost int) bool {
	want, total, boundary := m.event(t, acked, lost)
	got := b.ackRate
	k.Count("ev_ackrate_compared", 1)
	if want < 1 {
		k.Count("ackrate_below_1", 1)
	}
	if want == 0.8 {
		k.Count("ackrate_at_clamp", 1)
	}
	if total >= 45 && total <= 55 {
		k.Count("ackrate_near_threshold", 1)
	}
	if boundary {
		k.Count("ackrate_slot_boundary_cases", 1)
	}
	if !(got >= 0.8 && got <= 1) { // also catches NaN
		k.Violation("brutal:ackrate-out-of-range", rep(), "after event at %d ns (acked %d, lost %d) the compensation factor is %v, outside [0.8, 1]", t, acked, lost, got)
		return false
	}
	if math.Abs(got-want) > 1e-12 {
		key := "brutal:ackrate-differs-from-model"
		if boundary {
			key = "brutal:ackrate-differs-from-model-slot-boundary"
		}
		k.Violation(key, rep(), "after event at %d ns (second %d; acked %d, lost %d; %d samples in the 5 slots) the compensation factor is %v, reference %v (compensation disabled=%v)",
			t, t/int64(time.Second), acked, lost, total, got, want, m.disabled)
		return false
	}
	return true
}

// vfC11CheckWindow: window never below one datagram; with nothing in flight sending is allowed.
func vfC11CheckWindow(k *vfKit, rep func() any, b *BrutalSender, mds int64, where string) bool {
	k.Count("ev_window_checks", 1)
	w := int64(b.GetCongestionWindow())
	if w < mds {
		k.Violation("brutal:window-below-one-datagram", rep(), "%s: congestion window %d < datagram size %d (smoothed RTT %v, factor %v)", where, w, mds, b.rttStats.SmoothedRTT(), b.ackRate)
		return false
	}
	if !b.CanSend(0) {
		k.Violation("brutal:blocked-with-nothing-in-flight", rep(), "%s: CanSend(0) is false (window %d)", where, w)
		return false
	}
	return true
}

func vfC11PickRate(r *rand.Rand) uint64 {
	switch r.Intn(12) {
	case 0:
		return []uint64{vfC11MinRate, vfC11MinRate + 1, 100_000, 1_000_000, 12_500_000, 125_000_000, 1_250_000_000, vfC11MaxRate}[r.Intn(8)]
	case 1, 2: // the slow end, where the pacing delay exceeds the 1 ms timer floor
		return uint64(vfC11MinRate + r.Int63n(1_500_000-vfC11MinRate))
	}
	lo, hi := math.Log(vfC11MinRate), math.Log(vfC11MaxRate)
	v := uint64(math.Exp(lo + r.Float64()*(hi-lo)))
	if v < vfC11MinRate {
		v = vfC11MinRate
	}
	if v > vfC11MaxRate {
		v = vfC11MaxRate
	}
	return v
}

func vfC11PickLoss(r *rand.Rand) float64 {
	switch r.Intn(10) {
	case 0, 1:
		return 0
	case 2:
		return 0.01
	case 3:
		return 0.05
	case 4:
		return 0.12
	case 5, 6:
		return 0.17 + 0.06*r.Float64() // around the clamp
	case 7:
		return 0.35
	case 8:
		return 0.7
	}
	return 1
}

// ---------------------------------------------------------------------------------------------
// the simulated send loop

type vfC11Params struct {
	CaseID   string  `json:"case_id"`
	Bps      uint64  `json:"bps"`
	NoComp   bool    `json:"disable_loss_compensation"`
	SetMDS   int64   `json:"initial_set_max_datagram_size"` // 0: never told, controller default 1280
	Probes   []int64 `json:"mtu_probe_sizes"`
	NetRTTns int64   `json:"net_rtt_ns"`
	FixedRTT int64   `json:"fixed_smoothed_rtt_ns"` // -1: the estimate follows the samples; >= 0: provider always returns this
	Loss0    float64 `json:"initial_loss_p"`
	StartNs  int64   `json:"clock_start_ns"`
	Steps    int     `json:"step_budget"`
	// share (percent) of the packets sent through the open pacing gate that are NOT ack-eliciting
	// (isRetransmittable=false: ACK/PADDING only, as an endpoint that mostly receives emits them)
	AckOnlyPct   int  `json:"gated_non_ack_eliciting_percent"`
	AckOnlyBurst bool `json:"gated_non_ack_eliciting_bursts"`
}

type vfC11Pkt struct {
	pn, size, sent, due int64
	probe               bool
}

type vfC11Ev struct {
	Kind string `json:"k"`
	T    int64  `json:"t_ns"`
	A    int64  `json:"a"`
	B    int64  `json:"b"`
}

type vfC11Sim struct {
	k   *vfKit
	p   vfC11Params
	r   *rand.Rand
	b   *BrutalSender
	rtt *vfC11RTT

	now      int64
	mds      int64 // the harness's own record of the datagram size the controller was told
	mdsMax   int64
	inflight int64
	pn       int64
	out      []vfC11Pkt
	head     int
	lastDue  int64
	nextAck  int64
	lastSend int64
	maxGap   int64
	epoch    int64 // bumped by every send, ack/loss event and MTU change
	lossP    float64
	backlog  int
	ackBurst int
	probes   []int64

	env    vfC11Envelope
	ack    *vfC11AckModel
	cumAll int64

	satValid bool
	satT     int64
	satCum   int64
	satN     int64
	nSends   int64

	ring   [48]vfC11Ev
	ringN  int
	failed bool

	sawPacing, sawCwnd, sawAck bool
	ackedBuf                   []congestion.AckedPacketInfo
	lostBuf                    []congestion.LostPacketInfo
}

func (s *vfC11Sim) note(kind string, a, b int64) {
	s.ring[s.ringN%len(s.ring)] = vfC11Ev{kind, s.now, a, b}
	s.ringN++
}

func (s *vfC11Sim) replay() any {
	n := s.ringN
	if n > len(s.ring) {
		n = len(s.ring)
	}
	tail := make([]vfC11Ev, 0, n)
	for i := s.ringN - n; i < s.ringN; i++ {
		tail = append(tail, s.ring[i%len(s.ring)])
	}
	return map[string]any{"case_id": s.p.CaseID, "params": s.p, "now_ns": s.now, "datagram_size": s.mds,
		"bytes_in_flight": s.inflight, "smoothed_rtt_ns": int64(s.rtt.srtt), "factor": s.b.ackRate,
		"last_events(kind,t,a,b)": tail}
}

func (s *vfC11Sim) fail() { s.failed = true }

func vfC11GenParams(r *rand.Rand, id string, quick bool) vfC11Params {
	p := vfC11Params{CaseID: id, Bps: vfC11PickRate(r), NoComp: r.Intn(5) == 0}
	if r.Intn(3) != 0 {
		p.SetMDS = vfC11MinMTU + r.Int63n(vfC11MaxMTU-vfC11MinMTU+1)
	}
	cur := p.SetMDS
	if cur == 0 {
		cur = vfC11DefaultMDS
	}
	for n := r.Intn(4); n > 0 && cur < vfC11MaxMTU; n-- {
		cur += 1 + r.Int63n(vfC11MaxMTU-cur)
		p.Probes = append(p.Probes, cur)
	}
	switch r.Intn(10) {
	case 0:
		p.NetRTTns = 0
	case 1:
		p.NetRTTns = int64(500 * time.Millisecond)
	default:
		p.NetRTTns = int64(math.Exp(math.Log(50e3) + r.Float64()*(math.Log(500e6)-math.Log(50e3))))
	}
	p.Loss0 = vfC11PickLoss(r)
	p.StartNs = vfC11Hour + r.Int63n(int64(10*time.Second))
	p.FixedRTT = -1
	if r.Intn(3) == 0 {
		p.FixedRTT = p.NetRTTns
		if r.Intn(2) == 0 {
			p.FixedRTT = r.Int63n(int64(10 * time.Millisecond))
		}
		if r.Intn(2) == 0 { // slow enough that 2 x rate x RTT stays below one datagram: the floor is the window
			p.Bps = uint64(vfC11MinRate + r.Int63n(200_000-vfC11MinRate))
			if len(p.Probes) == 0 {
				p.Probes = []int64{cur + 1 + r.Int63n(vfC11MaxMTU-cur+1)}
				if p.Probes[0] > vfC11MaxMTU {
					p.Probes[0] = vfC11MaxMTU
				}
			}
		}
	}
	switch r.Intn(10) {
	case 0, 1, 2, 3:
	case 4, 5:
		p.AckOnlyPct = 25
	case 6, 7:
		p.AckOnlyPct = 75
	case 8:
		p.AckOnlyPct = 100
	default:
		p.AckOnlyBurst = true
	}
	mds := int64(vfC11MinMTU)
	burstPkts := int(math.Max(float64(p.Bps)/0.8*0.004, float64(10*mds)) / float64(mds))
	p.Steps = 2500 + 4*burstPkts
	lim := 60000
	if !quick {
		lim = 120000
	}
	if p.Steps > lim {
		p.Steps = lim
	}
	return p
}

func vfC11NewSim(k *vfKit, p vfC11Params, r *rand.Rand) *vfC11Sim {
	rtt := &vfC11RTT{}
	if p.FixedRTT >= 0 {
		rtt.srtt, rtt.fixed = time.Duration(p.FixedRTT), true
	}
	s := &vfC11Sim{k: k, p: p, r: r, rtt: rtt, now: p.StartNs, mds: vfC11DefaultMDS,
		nextAck: math.MaxInt64, lossP: p.Loss0, probes: append([]int64(nil), p.Probes...)}
	s.b = NewBrutalSender(p.Bps, p.NoComp)
	s.b.SetRTTStatsProvider(s.rtt) // quic-go does this inside SetCongestionControl
	s.mdsMax = vfC11DefaultMDS
	if p.SetMDS != 0 {
		s.b.SetMaxDatagramSize(congestion.ByteCount(p.SetMDS))
		s.mds = p.SetMDS
		s.mdsMax = p.SetMDS // nothing was sent while the size was 1280
		if s.mdsMax < vfC11DefaultMDS {
			// the bucket of a fresh controller is sized for 1280-byte datagrams until it is told otherwise
			s.mdsMax = vfC11DefaultMDS
		}
	}
	for _, q := range p.Probes {
		if q > s.mdsMax {
			s.mdsMax = q
		}
	}
	s.env = vfC11NewEnvelope(p.Bps, s.mdsMax)
	s.ack = vfC11NewAckModel(p.NoComp)
	s.maxGap = int64((uint64(1)<<63-1)/p.Bps) - 1 // the statement's range: rate x gap fits 63 bits
	if s.maxGap > 12*vfC11Hour {
		s.maxGap = 12 * vfC11Hour
	}
	s.backlog = s.pickBacklog()
	return s
}

func (s *vfC11Sim) burstPackets() int {
	return int(math.Max(float64(s.p.Bps)/0.8*0.004, float64(10*s.mds)) / float64(s.mds))
}

func (s *vfC11Sim) pickBacklog() int {
	switch s.r.Intn(10) {
	case 0, 1, 2, 3:
		return 1 + s.r.Intn(50)
	case 4, 5, 6:
		return 50 + s.r.Intn(1950)
	}
	return 3*s.burstPackets() + 200 + s.r.Intn(2000) // long enough to drain the bucket and pace
}

func (s *vfC11Sim) pickGap() int64 {
	var g int64
	switch s.r.Intn(20) {
	case 0, 1, 2, 3, 4, 5:
		g = s.r.Int63n(int64(time.Millisecond))
	case 6, 7, 8, 9, 10, 11:
		g = int64(time.Millisecond) + s.r.Int63n(int64(100*time.Millisecond))
	case 12, 13, 14, 15, 16:
		g = int64(100*time.Millisecond) + s.r.Int63n(int64(1900*time.Millisecond))
	case 17, 18:
		g = int64(2*time.Second) + s.r.Int63n(int64(6*time.Second))
	default:
		g = s.maxGap - s.r.Int63n(s.maxGap/8+1) // right up to the edge of the stated range
	}
	return g
}

// advance moves the virtual clock towards target, but never past the next ack/loss event and never
// so far that rate x (time since the last packet) leaves the statement's 63-bit range; in that case
// an ACK-only packet goes out (quic-go sends those in any mode), which restarts the gap.
func (s *vfC11Sim) advance(target int64) (reached bool) {
	t := target
	if s.nextAck < t {
		t = s.nextAck
	}
	clamped := false
	if s.lastSend != 0 && t-s.lastSend > s.maxGap {
		t, clamped = s.lastSend+s.maxGap, true
	}
	if t < s.now {
		s.k.t.Fatalf("C11 harness bug: clock would go backwards (%d -> %d)", s.now, t)
	}
	if s.lastSend != 0 && t-s.lastSend > s.maxGap/5*4 {
		s.k.Count("gaps_beyond_80pct_of_63bit_range", 1) // (bps/0.8) x gap no longer fits: the guard in Budget is reached
	}
	s.now = t
	if clamped {
		s.satValid = false
		s.sendAckOnly()
	}
	return t == target && !clamped
}

func (s *vfC11Sim) sendAckOnly() {
	size := 25 + s.r.Int63n(56)
	s.pn++
	// not ack-eliciting: bytes in flight unchanged, but quic-go still reports it to the controller
	s.b.OnPacketSent(monotime.Time(s.now), congestion.ByteCount(s.inflight), congestion.PacketNumber(s.pn), congestion.ByteCount(size), false)
	s.cumAll += size
	s.lastSend = s.now
	s.epoch++
	s.satN++
	s.note("ack-only-sent", size, s.inflight)
	s.k.Count("ack_only_sends", 1)
}

// sendGatedAckOnly: a packet that went through the open pacing gate (SendAny) but carries nothing
// ack-eliciting. quic-go reports it with isRetransmittable=false and does not add it to bytes in
// flight; no ACK will ever come for it. It was released by pacing like any other packet, so it counts
// in full towards the envelope.
func (s *vfC11Sim) sendGatedAckOnly() {
	size := 25 + s.r.Int63n(96)
	if s.r.Intn(5) < 2 {
		size = 25 + s.r.Int63n(s.mds-24) // ACK + PADDING up to a full datagram
	}
	s.pn++
	s.b.OnPacketSent(monotime.Time(s.now), congestion.ByteCount(s.inflight), congestion.PacketNumber(s.pn), congestion.ByteCount(size), false)
	s.cumAll += size
	s.lastSend = s.now
	s.epoch++
	s.satN++
	s.nSends++
	s.backlog--
	s.note("sent-gated-non-ack-eliciting", size, s.inflight)
	s.k.Count("ev_paced_sends", 1)
	s.k.Count("ev_paced_non_ack_eliciting_sends", 1)
	if msg := s.env.send(s.now, size); msg != "" {
		s.k.Violation("brutal:envelope-exceeded", s.replay(), "rate %d B/s (%d %% of the gated packets not ack-eliciting, last one %d B): %s", s.p.Bps, s.p.AckOnlyPct, size, msg)
		s.fail()
	}
}

func (s *vfC11Sim) sendData() {
	if s.ackBurst > 0 {
		s.ackBurst--
		s.sendGatedAckOnly()
		return
	}
	if s.p.AckOnlyBurst && s.r.Intn(60) == 0 {
		s.ackBurst = 4 + s.r.Intn(300)
	}
	if s.p.AckOnlyPct > 0 && s.r.Intn(100) < s.p.AckOnlyPct {
		s.sendGatedAckOnly()
		return
	}
	size := s.mds
	probe := false
	if len(s.probes) > 0 && s.r.Intn(150) == 0 {
		size, probe = s.probes[0], true
		s.probes = s.probes[1:]
		if size <= s.mds { // already reached by an earlier probe
			size, probe = s.mds, false
		}
	} else if s.r.Intn(7) == 0 {
		size = 40 + s.r.Int63n(s.mds-39)
	}
	s.pn++
	s.inflight += size
	s.b.OnPacketSent(monotime.Time(s.now), congestion.ByteCount(s.inflight), congestion.PacketNumber(s.pn), congestion.ByteCount(size), true)
	s.cumAll += size
	s.lastSend = s.now
	s.epoch++
	s.satN++
	s.nSends++
	s.backlog--
	released := size
	if released > s.mds {
		released = s.mds // the pacing gate vouched for one datagram; the rest of an MTU probe is outside pacing
		s.k.Count("mtu_probes", 1)
	}
	due := s.now + s.p.NetRTTns + s.r.Int63n(s.p.NetRTTns/8+1)
	if due < s.lastDue {
		due = s.lastDue
	}
	s.lastDue = due
	s.out = append(s.out, vfC11Pkt{s.pn, size, s.now, due, probe})
	if s.nextAck == math.MaxInt64 {
		s.scheduleAck()
	}
	s.note("sent", size, s.inflight)
	s.k.Count("ev_paced_sends", 1)
	if msg := s.env.send(s.now, released); msg != "" {
		s.k.Violation("brutal:envelope-exceeded", s.replay(), "rate %d B/s: %s", s.p.Bps, msg)
		s.fail()
	}
}

func (s *vfC11Sim) scheduleAck() {
	if s.head >= len(s.out) {
		s.nextAck = math.MaxInt64
		s.out, s.head = s.out[:0], 0
		return
	}
	var co int64
	switch s.r.Intn(4) {
	case 0:
	case 1:
		co = s.r.Int63n(int64(25 * time.Millisecond))
	default:
		co = s.r.Int63n(s.p.NetRTTns/4 + 1)
	}
	t := s.out[s.head].due + co
	if t < s.now {
		t = s.now
	}
	s.nextAck = t
}

func (s *vfC11Sim) deliverAcks() {
	prior := s.inflight
	s.ackedBuf, s.lostBuf = s.ackedBuf[:0], s.lostBuf[:0]
	var lastAckedSent, newMDS int64 = -1, 0
	for s.head < len(s.out) && s.out[s.head].due <= s.now {
		p := s.out[s.head]
		s.head++
		s.inflight -= p.size
		if s.r.Float64() < s.lossP {
			s.lostBuf = append(s.lostBuf, congestion.LostPacketInfo{PacketNumber: congestion.PacketNumber(p.pn), BytesLost: congestion.ByteCount(p.size)})
			continue
		}
		s.ackedBuf = append(s.ackedBuf, congestion.AckedPacketInfo{PacketNumber: congestion.PacketNumber(p.pn), BytesAcked: congestion.ByteCount(p.size)})
		lastAckedSent = p.sent
		if p.probe && p.size > s.mds {
			newMDS = p.size
		}
	}
	if len(s.ackedBuf)+len(s.lostBuf) == 0 {
		s.k.t.Fatalf("C11 harness bug: ack event with no packets at %d", s.now)
	}
	if lastAckedSent >= 0 {
		s.rtt.UpdateRTT(time.Duration(s.now-lastAckedSent), 0)
	}
	mtuFirst := s.r.Intn(2) == 0
	if newMDS != 0 && mtuFirst {
		s.b.SetMaxDatagramSize(congestion.ByteCount(newMDS))
		s.mds = newMDS
		s.note("mtu-raised", newMDS, 0)
		if !vfC11CheckWindow(s.k, s.replay, s.b, s.mds, "right after SetMaxDatagramSize") {
			s.fail()
		}
	}
	var acked []congestion.AckedPacketInfo
	var lost []congestion.LostPacketInfo
	if len(s.ackedBuf) > 0 {
		acked = s.ackedBuf
	}
	if len(s.lostBuf) > 0 {
		lost = s.lostBuf
	}
	s.b.OnCongestionEventEx(congestion.ByteCount(prior), monotime.Time(s.now), acked, lost)
	s.epoch++
	s.sawAck = true
	s.note("ack-event", int64(len(acked)), int64(len(lost)))
	s.k.Count("ev_ack_loss_events", 1)
	s.k.Count("pkts_acked", int64(len(acked)))
	s.k.Count("pkts_lost", int64(len(lost)))
	if !vfC11CheckAckRate(s.k, s.replay, s.b, s.ack, s.now, len(acked), len(lost)) {
		s.fail()
	}
	if newMDS != 0 && !mtuFirst {
		s.b.SetMaxDatagramSize(congestion.ByteCount(newMDS))
		s.mds = newMDS
		s.note("mtu-raised", newMDS, 0)
		if !vfC11CheckWindow(s.k, s.replay, s.b, s.mds, "right after SetMaxDatagramSize") {
			s.fail()
		}
	}
	if !vfC11CheckWindow(s.k, s.replay, s.b, s.mds, "after ack/loss event") {
		s.fail()
	}
	s.scheduleAck()
}

// satCheckpoint is called when the loop has just sent at `now` and is pacing limited: the bucket
// holds less than one datagram. Between two such points of an unbroken saturated stretch a token
// bucket refilled at >= bps must have let through at least bps*elapsed minus one datagram (and
// minus one byte per integer rounding).
func (s *vfC11Sim) satCheckpoint() {
	if !s.satValid {
		s.satValid, s.satT, s.satCum, s.satN = true, s.now, s.cumAll, 0
		return
	}
	el := s.now - s.satT
	if el <= 0 {
		return
	}
	need := float64(s.p.Bps) * float64(el) / 1e9
	slack := float64(s.mdsMax) + float64(s.satN) + float64(el)/1e9 + 2
	got := float64(s.cumAll - s.satCum)
	s.k.Count("ev_saturated_rate_checks", 1)
	if got < need-slack {
		// Observation only: the statement bounds the rate from above and demands progress; "at least the
		// configured rate" is in the title/anchors, not in the statement, so a slower pacer is not a C11 verdict.
		s.k.Count("obs_saturated_rate_below_configured", 1)
	}
}

func (s *vfC11Sim) run() {
	k := s.k
	for step := 0; step < s.p.Steps && !s.failed; step++ {
		if s.nextAck <= s.now {
			s.deliverAcks()
			continue
		}
		if step%64 == 0 {
			if !vfC11CheckWindow(k, s.replay, s.b, s.mds, "send loop") {
				s.fail()
				break
			}
		}
		nowT := monotime.Time(s.now)
		switch {
		case !s.b.CanSend(congestion.ByteCount(s.inflight)): // SendAck: congestion limited
			s.sawCwnd = true
			s.satValid = false
			k.Count("cwnd_limited_waits", 1)
			if s.inflight == 0 {
				k.Violation("brutal:blocked-with-nothing-in-flight", s.replay(), "CanSend(0) is false (window %d)", s.b.GetCongestionWindow())
				s.fail()
				break
			}
			if s.r.Intn(8) == 0 {
				s.sendAckOnly()
			}
			if s.nextAck == math.MaxInt64 {
				k.t.Fatalf("C11 harness bug: window limited with %d bytes in flight but no ack scheduled", s.inflight)
			}
			s.advance(s.nextAck)

		case !s.b.HasPacingBudget(nowT): // SendPacingLimited
			s.sawPacing = true
			k.Count("ev_pacing_limited", 1)
			if s.lastSend == s.now {
				s.satCheckpoint()
			}
			T := int64(s.b.TimeUntilSend(congestion.ByteCount(s.inflight)))
			s.note("pacing-limited,announced", T, T-s.now)
			if T == 0 || T <= s.now {
				k.Violation("brutal:pacing-limited-but-no-future-wakeup", s.replay(),
					"HasPacingBudget(%d) is false but TimeUntilSend() = %d (zero or not after now): quic-go would spin", s.now, T)
				s.fail()
				break
			}
			if s.lastSend != 0 && T-s.lastSend < int64(time.Millisecond) {
				k.Count("obs_wakeup_sooner_than_1ms_after_last_packet", 1)
			}
			epoch, at := s.epoch, s.now
			if s.r.Intn(12) == 0 {
				s.sendAckOnly() // quic-go: deadline first, then maybeSendAckOnlyPacket — the deadline goes stale
			}
			target := T
			if s.r.Intn(10) < 3 {
				target += s.r.Int63n(int64(2 * time.Millisecond)) // the timer may fire late, never early
			}
			s.advance(target)
			if s.now > T {
				s.satValid = false // woke late: the stretch is no longer "as fast as the pacer allows"
			}
			if s.now >= T && s.epoch == epoch {
				k.Count("ev_announced_time_checked", 1)
				has := s.b.HasPacingBudget(monotime.Time(T))
				bud := int64(s.b.pacer.Budget(monotime.Time(T)))
				if !has || bud < s.mds {
					k.Violation("brutal:no-budget-at-announced-time", s.replay(),
						"pacing limited at %d ns, pacer announced %d ns; nothing happened in between, yet at %d ns HasPacingBudget=%v, budget %d < datagram %d (rate %d B/s, factor %v, last packet at %d ns)",
						at, T, T, has, bud, s.mds, s.p.Bps, s.b.ackRate, s.lastSend)
					s.fail()
				}
			}

		case s.backlog == 0: // SendAny but the application has nothing
			s.satValid = false
			if s.r.Intn(3) == 0 {
				s.lossP = vfC11PickLoss(s.r)
			}
			wake := s.now + s.pickGap()
			for s.now < wake && !s.failed {
				if s.nextAck <= s.now {
					s.deliverAcks()
					continue
				}
				s.advance(wake)
			}
			s.backlog = s.pickBacklog()
			s.note("app-data", int64(s.backlog), 0)

		default: // SendAny
			s.sendData()
		}
	}
}

func TestVerifC11SendLoop(t *testing.T) {
	k := vfNewKit(t, "C11", "brutal-sendloop")
	defer k.Finish()
	vfC11OracleSelfTest(t)
	n := k.N(700, 50000)
	for i := 0; i < n; i++ {
		id := fmt.Sprintf("loop-%d", i)
		if rc := k.ReplayCase(); rc != "" && rc != id {
			continue
		}
		r := k.Rand(id)
		p := vfC11GenParams(r, id, k.Quick())
		s := vfC11NewSim(k, p, r)
		k.Eval()
		if k.Guard("brutal:panic-in-send-loop", map[string]any{"case_id": id, "params": p}, s.run) {
			continue
		}
		if s.sawPacing && (s.sawAck || p.AckOnlyPct == 100) {
			k.Nontrivial(fmt.Sprintf("%+v", p))
		}
		if s.sawCwnd {
			k.Count("traces_window_limited", 1)
		}
		if s.sawPacing {
			k.Count("traces_pacing_limited", 1)
		}
		if i < 4 {
			k.Sample(map[string]any{"params": p, "paced_packets": s.nSends, "bytes": s.cumAll,
				"virtual_span_ns": s.now - p.StartNs, "final_factor": s.b.ackRate})
		}
	}
}

// ---------------------------------------------------------------------------------------------
// part 2: the compensation factor alone, long histories

type vfC11AckCase struct {
	CaseID  string     `json:"case_id"`
	Bps     uint64     `json:"bps"`
	NoComp  bool       `json:"disable_loss_compensation"`
	MDS     int64      `json:"datagram_size"`
	RTTns   int64      `json:"smoothed_rtt_ns"`
	StartNs int64      `json:"clock_start_ns"`
	Events  [][3]int64 `json:"events(t_ns,acked,lost)"`
}

func TestVerifC11AckRate(t *testing.T) {
	k := vfNewKit(t, "C11", "brutal-ackrate")
	defer k.Finish()
	n := k.N(6000, 300000)
	sec := int64(time.Second)
	ackedPool := make([]congestion.AckedPacketInfo, 4500) // only the lengths of the lists matter here
	lostPool := make([]congestion.LostPacketInfo, 4500)
	for i := 0; i < n; i++ {
		id := fmt.Sprintf("ack-%d", i)
		if rc := k.ReplayCase(); rc != "" && rc != id {
			continue
		}
		r := k.Rand(id)
		c := vfC11AckCase{CaseID: id, Bps: vfC11PickRate(r), NoComp: r.Intn(8) == 0,
			MDS: vfC11MinMTU + r.Int63n(vfC11MaxMTU-vfC11MinMTU+1), StartNs: vfC11Hour + r.Int63n(10*sec)}
		switch r.Intn(6) {
		case 0:
			c.RTTns = 0
		case 1:
			c.RTTns = 1 + r.Int63n(100_000) // tiny: 2*bps*RTT is far below one datagram
		default:
			c.RTTns = r.Int63n(int64(500*time.Millisecond) + 1)
		}
		rtt := &vfC11RTT{srtt: time.Duration(c.RTTns)}
		b := NewBrutalSender(c.Bps, c.NoComp)
		b.SetRTTStatsProvider(rtt)
		b.SetMaxDatagramSize(congestion.ByteCount(c.MDS))
		m := vfC11NewAckModel(c.NoComp)
		rep := func() any { return c }
		now := c.StartNs
		style := r.Intn(3) // 0 trickle (totals creep through the threshold), 1 bulk, 2 mixed
		lossP := vfC11PickLoss(r)
		nev := 120 + r.Intn(200)
		k.Eval()
		ok := true
		sawFactor := false
		for e := 0; e < nev && ok; e++ {
			switch q := r.Intn(100); {
			case q < 5:
			case q < 25:
				now += r.Int63n(int64(5 * time.Millisecond))
			case q < 62:
				now += r.Int63n(int64(300 * time.Millisecond))
			case q < 70:
				now = (now/sec + 1) * sec // exactly on the next second
			case q < 78:
				now = (now/sec+1)*sec - 1 - r.Int63n(3) // just before it
			case q < 90:
				now += sec + r.Int63n(2*sec)
			case q < 97:
				now += 4*sec + r.Int63n(5*sec/2) // straddles the 5 s horizon
			default:
				now += 7*sec + r.Int63n(20*sec) // everything expires
			}
			if r.Intn(25) == 0 {
				lossP = vfC11PickLoss(r)
			}
			var cnt int
			switch {
			case style == 0 || (style == 2 && r.Intn(2) == 0):
				cnt = 1 + r.Intn(4)
			default:
				cnt = 1 + r.Intn(400)
				if r.Intn(10) == 0 {
					cnt = 400 + r.Intn(4000)
				}
			}
			na, nl := 0, 0
			if cnt <= 64 {
				for j := 0; j < cnt; j++ {
					if r.Float64() < lossP {
						nl++
					}
				}
			} else { // normal approximation of the binomial, good enough for a workload
				nl = int(math.Round(float64(cnt)*lossP + r.NormFloat64()*math.Sqrt(float64(cnt)*lossP*(1-lossP))))
				if nl < 0 {
					nl = 0
				}
				if nl > cnt {
					nl = cnt
				}
			}
			na = cnt - nl
			var acked []congestion.AckedPacketInfo
			var lost []congestion.LostPacketInfo
			if na > 0 {
				acked = ackedPool[:na]
			}
			if nl > 0 {
				lost = lostPool[:nl]
			}
			c.Events = append(c.Events, [3]int64{now, int64(na), int64(nl)})
			if r.Intn(20) == 0 { // RTT moves too (updated before the controller hears of the ack)
				rtt.srtt = time.Duration(r.Int63n(int64(500*time.Millisecond) + 1))
			}
			panicked := k.Guard("brutal:panic-in-OnCongestionEventEx", c, func() {
				b.OnCongestionEventEx(congestion.ByteCount(r.Int63n(1<<30)), monotime.Time(now), acked, lost)
			})
			if panicked {
				ok = false
				break
			}
			k.Count("ev_ack_loss_events", 1)
			ok = vfC11CheckAckRate(k, rep, b, m, now, na, nl) && vfC11CheckWindow(k, rep, b, c.MDS, "after ack/loss event")
			if b.ackRate < 1 {
				sawFactor = true
			}
		}
		if sawFactor {
			k.Nontrivial(fmt.Sprintf("%v", c.Events))
		}
		if i < 2 {
			s := c
			if len(s.Events) > 12 {
				s.Events = s.Events[:12]
			}
			k.Sample(map[string]any{"case (first 12 events)": s, "events": nev, "final_factor": b.ackRate})
		}
	}
}

// ---------------------------------------------------------------------------------------------
// part 3: the window floor where it binds

type vfC11WinCase struct {
	CaseID  string   `json:"case_id"`
	Bps     uint64   `json:"bps"`
	NoComp  bool     `json:"disable_loss_compensation"`
	SetMDS  int64    `json:"initial_set_max_datagram_size"` // 0: never told, controller default 1280
	RTTns   int64    `json:"smoothed_rtt_ns"`
	StartNs int64    `json:"clock_start_ns"`
	Ops     []string `json:"calls"`
}

func TestVerifC11Window(t *testing.T) {
	k := vfNewKit(t, "C11", "brutal-window")
	defer k.Finish()
	n := k.N(6000, 200000)
	ackedPool := make([]congestion.AckedPacketInfo, 600)
	lostPool := make([]congestion.LostPacketInfo, 600)
	for i := 0; i < n; i++ {
		id := fmt.Sprintf("win-%d", i)
		if rc := k.ReplayCase(); rc != "" && rc != id {
			continue
		}
		r := k.Rand(id)
		c := vfC11WinCase{CaseID: id, NoComp: r.Intn(6) == 0, StartNs: vfC11Hour + r.Int63n(int64(10*time.Second))}
		mds := int64(vfC11DefaultMDS)
		if r.Intn(2) == 0 {
			c.SetMDS = vfC11MinMTU + r.Int63n(251) // 1200..1450: room for raises
			mds = c.SetMDS
		}
		switch q := r.Intn(10); {
		case q < 2:
			c.RTTns = 0
		case q < 7:
			c.RTTns = 1 + r.Int63n(int64(10*time.Millisecond))
		default:
			c.RTTns = int64(time.Millisecond) + r.Int63n(int64(500*time.Millisecond))
		}
		switch q := r.Intn(10); {
		case q < 5: // the slow end: with RTT <= 10 ms the floor is the window
			c.Bps = uint64(vfC11MinRate + r.Int63n(200_000-vfC11MinRate))
		case q < 8 && c.RTTns > 0: // 2 x rate x RTT within +-15 % of one datagram
			bps := float64(mds) / (2 * float64(c.RTTns) / 1e9) * (0.85 + 0.3*r.Float64())
			c.Bps = uint64(math.Min(math.Max(bps, vfC11MinRate), vfC11MaxRate))
		default:
			c.Bps = vfC11PickRate(r)
		}
		rtt := &vfC11RTT{srtt: time.Duration(c.RTTns), fixed: true}
		b := NewBrutalSender(c.Bps, c.NoComp)
		b.SetRTTStatsProvider(rtt)
		if c.SetMDS != 0 {
			b.SetMaxDatagramSize(congestion.ByteCount(c.SetMDS))
		}
		m := vfC11NewAckModel(c.NoComp)
		rep := func() any { return c }
		now := c.StartNs
		var inflight, pn int64
		lossP := vfC11PickLoss(r)
		floorBinds := false
		raisedWhileFloor := false
		k.Eval()
		nops := 30 + r.Intn(60)
		ok := true
		for o := 0; o < nops && ok; o++ {
			now += r.Int63n(int64(20 * time.Millisecond))
			var what string
			switch q := r.Intn(100); {
			case q < 25: // plain reads, as SendMode / the qlog metrics do
				w := b.GetCongestionWindow()
				cs := b.CanSend(congestion.ByteCount(inflight))
				what = fmt.Sprintf("GetCongestionWindow()=%d CanSend(%d)=%v", w, inflight, cs)
			case q < 45 && mds < vfC11MaxMTU: // path MTU discovery succeeded
				mds += 1 + r.Int63n(vfC11MaxMTU-mds)
				b.SetMaxDatagramSize(congestion.ByteCount(mds))
				what = fmt.Sprintf("SetMaxDatagramSize(%d)", mds)
				k.Count("ev_mtu_raises", 1)
				if floorBinds {
					raisedWhileFloor = true
					k.Count("mtu_raises_while_floor_binds", 1)
				}
			case q < 65:
				size := mds
				pn++
				inflight += size
				b.HasPacingBudget(monotime.Time(now))
				b.OnPacketSent(monotime.Time(now), congestion.ByteCount(inflight), congestion.PacketNumber(pn), congestion.ByteCount(size), true)
				what = fmt.Sprintf("OnPacketSent(t=%d, inflight %d, %d B)", now, inflight, size)
			case q < 90:
				cnt := 1 + r.Intn(8)
				if r.Intn(3) == 0 {
					cnt = 30 + r.Intn(500)
				}
				nl := 0
				for j := 0; j < cnt; j++ {
					if r.Float64() < lossP {
						nl++
					}
				}
				na := cnt - nl
				var acked []congestion.AckedPacketInfo
				var lost []congestion.LostPacketInfo
				if na > 0 {
					acked = ackedPool[:na]
				}
				if nl > 0 {
					lost = lostPool[:nl]
				}
				prior := inflight
				inflight = 0
				b.OnCongestionEventEx(congestion.ByteCount(prior), monotime.Time(now), acked, lost)
				k.Count("ev_ack_loss_events", 1)
				what = fmt.Sprintf("OnCongestionEventEx(t=%d, acked %d, lost %d)", now, na, nl)
				ok = vfC11CheckAckRate(k, rep, b, m, now, na, nl)
			case q < 95: // a new RTT estimate (rare: most consecutive reads see the same one)
				rtt.srtt = time.Duration(r.Int63n(int64(12 * time.Millisecond)))
				what = fmt.Sprintf("smoothed RTT := %d ns", int64(rtt.srtt))
			default:
				lossP = vfC11PickLoss(r)
				continue
			}
			c.Ops = append(c.Ops, what)
			k.Count("ev_window_part_calls", 1)
			if !ok {
				break
			}
			ok = vfC11CheckWindow(k, rep, b, mds, "after "+what)
			if rtt.srtt > 0 && 2*float64(c.Bps)*rtt.srtt.Seconds()/0.8 < float64(mds) {
				floorBinds = true
				k.Count("checks_with_floor_binding", 1)
			} else {
				floorBinds = false
			}
		}
		if raisedWhileFloor {
			k.Nontrivial(fmt.Sprintf("%+v", c))
		}
		if i < 2 {
			k.Sample(c)
		}
	}
}

// ---------------------------------------------------------------------------------------------
// the oracles are themselves checked on hand-made logs: a broken oracle is a harness error

func vfC11OracleSelfTest(t *testing.T) {
	// envelope: 1 MB/s, MTU 1200 -> r = 1.25e6 B/s, B = max(5000, 12000) + 1200 = 13200
	e := vfC11NewEnvelope(1_000_000, 1200)
	if e.burst != 13200 {
		t.Fatalf("C11 oracle self-test: burst %v, want 13200", e.burst)
	}
	base := int64(7e12)
	for i := 0; i < 11; i++ { // 11 * 1200 = 13200 at one instant: exactly the bound
		if msg := e.send(base, 1200); msg != "" {
			t.Fatalf("C11 oracle self-test: envelope alarmed within the bound: %s", msg)
		}
	}
	if msg := e.send(base+100, 1); msg == "" { // 100 ns buys 0.125 bytes
		t.Fatalf("C11 oracle self-test: envelope missed a 1-byte excess")
	}
	e = vfC11NewEnvelope(1_000_000, 1200)
	e.send(base, 1200)
	e.send(base+int64(time.Second), 1200)
	for i := 0; i < 11; i++ { // an old quiet period must not buy a later burst
		if msg := e.send(base+10*int64(time.Second), 1200); msg != "" {
			t.Fatalf("C11 oracle self-test: envelope alarmed on an 11-packet burst after idle: %s", msg)
		}
	}
	if msg := e.send(base+10*int64(time.Second), 1200); msg == "" {
		t.Fatalf("C11 oracle self-test: envelope let a 12-packet burst through after an idle period")
	}
	// ack model
	m := vfC11NewAckModel(false)
	s := int64(time.Second)
	if w, _, _ := m.event(100*s, 40, 9); w != 1 {
		t.Fatalf("C11 oracle self-test: 49 samples must give 1, got %v", w)
	}
	if w, _, _ := m.event(100*s+5, 1, 0); w != 41.0/50.0 {
		t.Fatalf("C11 oracle self-test: 41/50 expected, got %v", w)
	}
	if w, _, _ := m.event(104*s+999_999_999, 0, 50); w != 0.8 {
		t.Fatalf("C11 oracle self-test: clamp expected, got %v", w)
	}
	if w, tot, _ := m.event(105*s, 1, 0); w != 0.8 || tot != 51 { // second 100 left the window: 1 acked, 50 lost remain
		t.Fatalf("C11 oracle self-test: after slot expiry got factor %v over %d samples", w, tot)
	}
	if w, tot, _ := m.event(109*s, 1, 0); w != 1 || tot != 2 {
		t.Fatalf("C11 oracle self-test: expected 2 samples / factor 1, got %v over %d", w, tot)
	}
}
