//go:build verif

package brutal

// C11: Brutal under the REAL quic-go send loop (12 transfers in the quick tier, 72 in thorough). A quic-go server and client
// run in a testing/synctest bubble (virtual time) over quic-go's simnet; a harness Router models
// the bottleneck (rate, tail-drop queue, one-way delay, random loss, path MTU). The server installs
// a monitor that embeds the real BrutalSender with conn.SetCongestionControl right after Accept —
// where Hysteria's UseBrutal installs it — and pushes a bulk transfer through it.
//
// Checked on the calls quic-go actually makes:
//   * after every OnCongestionEventEx: factor in [0.8, 1] and equal to the 5-slot reference model
//     fed with the very same (time, #acked, #lost); window >= one datagram; CanSend(0);
//   * HasPacingBudget(now) == false followed by TimeUntilSend(): the announced time is non-zero and
//     strictly after now, and the bucket holds a full datagram at that time; if quic-go then asks
//     HasPacingBudget at or after the announced time with no send / ack / MTU call in between, the
//     answer must be true.
//   * envelope over the GATE-RELEASED packets only: a packet counts when the monitor call right
//     before its OnPacketSent(t, ...) chain was HasPacingBudget(t) == true at the same instant t (that is
//     SendMode == SendAny followed by the send). ACK-only packets sent while pacing / window limited and
//     PTO probes never ask the gate and are left out; an MTU probe counts as one datagram. Ack-eliciting
//     or not makes no difference: the statement speaks of "the bytes released by pacing". The upload
//     cases make the server mostly a receiver, so nearly everything it releases is ACK-only.
//
// Time origin: inside a synctest bubble quic-go's monotime.Now() is NEGATIVE (its package-level
// reference instant is taken from the real clock at init, the bubble clock starts on 2000-01-01).
// Production values are always positive (>= 1 h), and a negative value makes BrutalSender index its
// slot array with a negative number (brutal.go: currentTimestamp % pktInfoSlotCount). The origin of
// monotime is arbitrary by contract, so the monitor translates every instant by a constant
// (vfC11QShift) on the way in and back on the way out; the sender only ever sees positive times.

import (
	"context"
	"crypto/ecdsa"
	"crypto/elliptic"
	crand "crypto/rand"
	"crypto/tls"
	"crypto/x509"
	"crypto/x509/pkix"
	"fmt"
	"io"
	"math/big"
	"math/rand"
	"net"
	"sync"
	"sync/atomic"
	"testing"
	"testing/synctest"
	"time"

	"github.com/apernet/quic-go"
	"github.com/apernet/quic-go/congestion"
	"github.com/apernet/quic-go/monotime"
	"github.com/apernet/quic-go/testutils/simnet"
)

const vfC11QShift = int64(1) << 60 // ~36.5 years in ns

var (
	vfC11QCertOnce sync.Once
	vfC11QCert     tls.Certificate
)

// self-signed, valid 1970..2200 (the bubble clock starts on 2000-01-01)
func vfC11QTLSCert() tls.Certificate {
	vfC11QCertOnce.Do(func() {
		key, err := ecdsa.GenerateKey(elliptic.P256(), crand.Reader)
		if err != nil {
			panic(err)
		}
		tpl := &x509.Certificate{
			SerialNumber: big.NewInt(11),
			Subject:      pkix.Name{CommonName: "verif-c11"},
			NotBefore:    time.Unix(0, 0),
			NotAfter:     time.Date(2200, 1, 1, 0, 0, 0, 0, time.UTC),
			KeyUsage:     x509.KeyUsageDigitalSignature,
			ExtKeyUsage:  []x509.ExtKeyUsage{x509.ExtKeyUsageServerAuth},
			DNSNames:     []string{"verif-c11"},
		}
		der, err := x509.CreateCertificate(crand.Reader, tpl, tpl, &key.PublicKey, key)
		if err != nil {
			panic(err)
		}
		vfC11QCert = tls.Certificate{Certificate: [][]byte{der}, PrivateKey: key}
	})
	return vfC11QCert
}

type vfC11QCase struct {
	CaseID     string `json:"case_id"`
	Bps        uint64 `json:"brutal_bps"`
	NoComp     bool   `json:"disable_loss_compensation"`
	CapBps     int64  `json:"link_capacity_bytes_per_s"`
	OneWayMs   int64  `json:"one_way_ms"`
	QueueBytes int64  `json:"queue_bytes"`
	LossPPM    int    `json:"loss_ppm"`
	PathMTU    int    `json:"path_mtu"`
	Bytes      int64  `json:"transfer_bytes"`
	Upstream   bool   `json:"client_sends_too"` // makes the server emit ACK-only packets
	Upload     int64  `json:"client_bulk_upload_bytes"` // > 0: the server mostly RECEIVES; nearly all it sends is ACK-only
}

// ---------------------------------------------------------------------------------------------
// bottleneck router (server -> client direction is shaped; the reverse only has the delay)

type vfC11QRouter struct {
	mu        sync.Mutex
	nodes     map[string]simnet.PacketReceiver
	srv       string
	c         vfC11QCase
	rnd       *rand.Rand
	busyUntil time.Time

	Fwd, QueueDrops, LossDrops, MTUDrops atomic.Int64
}

func (r *vfC11QRouter) AddNode(addr net.Addr, rcv simnet.PacketReceiver) {
	r.mu.Lock()
	r.nodes[addr.String()] = rcv
	r.mu.Unlock()
}

func (r *vfC11QRouter) SendPacket(p simnet.Packet) error {
	r.mu.Lock()
	rcv, ok := r.nodes[p.To.String()]
	if !ok {
		r.mu.Unlock()
		return nil
	}
	oneWay := time.Duration(r.c.OneWayMs) * time.Millisecond
	if p.From.String() != r.srv {
		r.mu.Unlock()
		time.AfterFunc(oneWay, func() { rcv.RecvPacket(p) })
		return nil
	}
	now := time.Now()
	size := int64(len(p.Data))
	switch {
	case r.c.PathMTU > 0 && len(p.Data) > r.c.PathMTU:
		r.mu.Unlock()
		r.MTUDrops.Add(1)
		return nil
	case r.c.LossPPM > 0 && r.rnd.Intn(1_000_000) < r.c.LossPPM:
		r.mu.Unlock()
		r.LossDrops.Add(1)
		return nil
	}
	backlog := int64(0)
	if r.busyUntil.After(now) {
		backlog = int64(r.busyUntil.Sub(now)) * r.c.CapBps / 1e9
	}
	if r.c.QueueBytes > 0 && backlog+size > r.c.QueueBytes {
		r.mu.Unlock()
		r.QueueDrops.Add(1)
		return nil
	}
	start := now
	if r.busyUntil.After(now) {
		start = r.busyUntil
	}
	dep := start.Add(time.Duration(size*1e9/r.c.CapBps + 1))
	r.busyUntil = dep
	delay := dep.Sub(now) + oneWay
	r.mu.Unlock()
	r.Fwd.Add(1)
	time.AfterFunc(delay, func() { rcv.RecvPacket(p) })
	return nil
}

// ---------------------------------------------------------------------------------------------
// the monitor: a congestion.CongestionControlEx that forwards to the real sender

type vfC11Mon struct {
	*BrutalSender
	mu     sync.Mutex
	k      *vfKit
	c      vfC11QCase
	mds    int64
	model  *vfC11AckModel
	epoch  int64
	falseT int64 // `now` of the latest HasPacingBudget(now)==false not yet followed by another call; 0 = none
	falseE int64
	annT   int64 // latest announced time, 0 = none
	annE   int64
	gateT  int64 // instant of the latest HasPacingBudget(t)==true not yet used by a send, 0 = none
	env    vfC11Envelope

	Released, ReleasedAckOnly int64
	failed bool
	tail   [32]string
	tailN  int

	Calls, Events, Sent, AckOnly, PacingLimited, Announced, AnnouncedHonoured, MTUEvents int64
	MinFactor                                                                            float64
}

func (m *vfC11Mon) note(format string, a ...any) {
	m.tail[m.tailN%len(m.tail)] = fmt.Sprintf(format, a...)
	m.tailN++
}

func (m *vfC11Mon) replay() any {
	n := m.tailN
	if n > len(m.tail) {
		n = len(m.tail)
	}
	t := make([]string, 0, n)
	for i := m.tailN - n; i < m.tailN; i++ {
		t = append(t, m.tail[i%len(m.tail)])
	}
	return map[string]any{"case_id": m.c.CaseID, "case": m.c, "engine": "real-quic", "datagram_size": m.mds, "last_calls": t}
}

// viol records the first violation of a run and switches the monitor to fail-stop: from then on it
// answers "may send, no pacing" so that the transfer drains and the bubble can end. Without this a
// pacer that announces a time at which it still has no budget makes the real quic-go run loop spin
// at one virtual instant forever (the very stall the property is about) and the child would only
// die by the wall-clock watchdog.
func (m *vfC11Mon) viol(key, format string, a ...any) {
	if m.failed {
		return
	}
	m.failed = true
	m.k.Violation(key, m.replay(), "%s [real quic-go]: %s", m.c.CaseID, fmt.Sprintf(format, a...))
}

func (m *vfC11Mon) CanSend(inflight congestion.ByteCount) bool {
	m.mu.Lock()
	defer m.mu.Unlock()
	m.Calls++
	if m.failed {
		return true // fail-stop: see viol
	}
	r := m.BrutalSender.CanSend(inflight)
	if !r && inflight == 0 {
		m.viol("brutal:blocked-with-nothing-in-flight", "CanSend(0) is false (window %d)", m.BrutalSender.GetCongestionWindow())
	}
	return r
}

func (m *vfC11Mon) HasPacingBudget(now monotime.Time) bool {
	m.mu.Lock()
	defer m.mu.Unlock()
	m.Calls++
	now = monotime.Time(int64(now) + vfC11QShift)
	if now <= 0 && !m.failed {
		m.failed = true
		m.k.Inconclusive(fmt.Sprintf("%s: harness time shift left a non-positive instant %d", m.c.CaseID, now))
	}
	if m.failed {
		return true // fail-stop: see viol
	}
	r := m.BrutalSender.HasPacingBudget(now)
	if m.annT != 0 && m.annE == m.epoch && int64(now) >= m.annT {
		m.AnnouncedHonoured++
		if !r {
			m.note("HasPacingBudget(%d)=false", now)
			m.viol("brutal:no-budget-at-announced-time", "pacer announced %d ns; quic-go came back at %d ns with no send/ack/MTU call in between and HasPacingBudget is still false (budget %d, datagram %d)",
				m.annT, int64(now), m.pacer.Budget(now), m.mds)
		}
		m.annT = 0
	}
	if !r {
		m.PacingLimited++
		m.falseT, m.falseE = int64(now), m.epoch
		m.note("HasPacingBudget(%d)=false", now)
		m.gateT = 0
	} else {
		m.falseT = 0
		m.gateT = int64(now)
	}
	return r
}

func (m *vfC11Mon) TimeUntilSend(inflight congestion.ByteCount) monotime.Time {
	m.mu.Lock()
	defer m.mu.Unlock()
	m.Calls++
	T := m.BrutalSender.TimeUntilSend(inflight)
	m.note("TimeUntilSend()=%d", T)
	if m.falseT != 0 && m.falseE == m.epoch { // quic-go asks right after SendMode said "pacing limited"
		m.Announced++
		if T == 0 || int64(T) <= m.falseT {
			m.viol("brutal:pacing-limited-but-no-future-wakeup", "HasPacingBudget(%d) was false but TimeUntilSend() = %d (zero or not after now): quic-go would spin", m.falseT, int64(T))
		} else if bud := int64(m.pacer.Budget(T)); bud < m.mds || !m.BrutalSender.HasPacingBudget(T) {
			m.viol("brutal:no-budget-at-announced-time", "pacing limited at %d ns, pacer announced %d ns, but at that time the bucket holds %d < datagram %d (factor %v)",
				m.falseT, int64(T), bud, m.mds, m.ackRate)
		}
		m.annT, m.annE = int64(T), m.epoch
	}
	m.falseT = 0
	if m.failed {
		return 0 // fail-stop: see viol
	}
	if T != 0 {
		T = monotime.Time(int64(T) - vfC11QShift)
	}
	return T
}

func (m *vfC11Mon) OnPacketSent(sentTime monotime.Time, inflight congestion.ByteCount, pn congestion.PacketNumber, bytes congestion.ByteCount, retx bool) {
	m.mu.Lock()
	defer m.mu.Unlock()
	m.Calls++
	m.Sent++
	if !retx {
		m.AckOnly++
	}
	m.epoch++
	m.falseT = 0
	sentTime = monotime.Time(int64(sentTime) + vfC11QShift)
	m.note("OnPacketSent(%d, inflight %d, pn %d, %d B, ackEliciting %v)", sentTime, inflight, pn, bytes, retx)
	m.BrutalSender.OnPacketSent(sentTime, inflight, pn, bytes, retx)
	if m.gateT != 0 && m.gateT == int64(sentTime) && !m.failed {
		m.Released++
		if !retx {
			m.ReleasedAckOnly++
		}
		if msg := m.env.send(int64(sentTime), min(int64(bytes), m.mds)); msg != "" {
			m.viol("brutal:envelope-exceeded", "rate %d B/s, packets that went through the open pacing gate (%d of %d not ack-eliciting): %s", m.c.Bps, m.ReleasedAckOnly, m.Released, msg)
		}
	}
	m.gateT = 0
}

func (m *vfC11Mon) OnCongestionEventEx(prior congestion.ByteCount, t monotime.Time, acked []congestion.AckedPacketInfo, lost []congestion.LostPacketInfo) {
	m.mu.Lock()
	defer m.mu.Unlock()
	m.Calls++
	m.Events++
	m.epoch++
	m.falseT = 0
	t = monotime.Time(int64(t) + vfC11QShift)
	m.note("OnCongestionEventEx(prior %d, t %d, acked %d, lost %d)", prior, t, len(acked), len(lost))
	m.BrutalSender.OnCongestionEventEx(prior, t, acked, lost)
	if m.failed {
		return
	}
	m.k.Count("ev_ack_loss_events", 1)
	if !vfC11CheckAckRate(m.k, m.replay, m.BrutalSender, m.model, int64(t), len(acked), len(lost)) ||
		!vfC11CheckWindow(m.k, m.replay, m.BrutalSender, m.mds, "after ack/loss event (real quic-go)") {
		m.failed = true
	}
	if m.ackRate < m.MinFactor {
		m.MinFactor = m.ackRate
	}
}

func (m *vfC11Mon) SetMaxDatagramSize(size congestion.ByteCount) {
	m.mu.Lock()
	defer m.mu.Unlock()
	m.Calls++
	m.MTUEvents++
	m.epoch++
	m.falseT = 0
	m.mds = int64(size)
	m.note("SetMaxDatagramSize(%d)", size)
	m.BrutalSender.SetMaxDatagramSize(size)
	if !m.failed && !vfC11CheckWindow(m.k, m.replay, m.BrutalSender, m.mds, "right after SetMaxDatagramSize (real quic-go)") {
		m.failed = true
	}
}

var _ congestion.CongestionControlEx = &vfC11Mon{}

func vfC11B2I(b bool) int {
	if b {
		return 1
	}
	return 0
}

// ---------------------------------------------------------------------------------------------

type vfC11QResult struct {
	Case              vfC11QCase `json:"case"`
	Err               string     `json:"error,omitempty"`
	Received          int64      `json:"bytes_received"`
	VirtualS          float64    `json:"virtual_seconds"`
	Goodput           float64    `json:"goodput_bytes_per_s"`
	Calls             int64      `json:"monitored_calls"`
	Events            int64      `json:"ack_loss_events"`
	Sent              int64      `json:"packets_reported_sent"`
	AckOnly           int64      `json:"ack_only_packets"`
	Released          int64      `json:"packets_released_through_open_gate"`
	ReleasedAckOnly   int64      `json:"of_which_not_ack_eliciting"`
	Uploaded          int64      `json:"bytes_uploaded_by_client"`
	UploadS           float64    `json:"upload_virtual_seconds"`
	PacingLimited     int64      `json:"pacing_limited"`
	Announced         int64      `json:"announcements_checked"`
	AnnouncedHonoured int64      `json:"wakeups_at_announced_time_checked"`
	MTUEvents         int64      `json:"datagram_size_changes"`
	FinalMDS          int64      `json:"final_datagram_size"`
	MinFactor         float64    `json:"lowest_factor_seen"`
	QueueDrops        int64      `json:"queue_drops"`
	LossDrops         int64      `json:"loss_drops"`
	MTUDrops          int64      `json:"mtu_drops"`
}

func vfC11RunQUIC(t *testing.T, k *vfKit, c vfC11QCase) {
	res := vfC11QResult{Case: c}
	var mon *vfC11Mon
	seed := k.Rand(c.CaseID).Int63()
	synctest.Test(t, func(t *testing.T) {
		srvAddr := &net.UDPAddr{IP: net.IPv4(10, 11, 0, 1), Port: 4433}
		cliAddr := &net.UDPAddr{IP: net.IPv4(10, 11, 0, 2), Port: 50000}
		rt := &vfC11QRouter{nodes: map[string]simnet.PacketReceiver{}, srv: srvAddr.String(), c: c, rnd: rand.New(rand.NewSource(seed))}
		sEP := simnet.NewBlockingSimConn(srvAddr, rt)
		cEP := simnet.NewBlockingSimConn(cliAddr, rt)
		rt.AddNode(srvAddr, sEP)
		rt.AddNode(cliAddr, cEP)
		sTr := &quic.Transport{Conn: sEP}
		cTr := &quic.Transport{Conn: cEP}
		qc := func() *quic.Config {
			return &quic.Config{
				MaxIdleTimeout:                 30 * time.Second,
				InitialStreamReceiveWindow:     8 << 20,
				MaxStreamReceiveWindow:         32 << 20,
				InitialConnectionReceiveWindow: 16 << 20,
				MaxConnectionReceiveWindow:     64 << 20,
				DisablePathManager:             true,
			}
		}
		closeAll := func() {
			_ = sTr.Close()
			_ = cTr.Close()
			_ = sEP.Close()
			_ = cEP.Close()
		}
		ln, err := sTr.Listen(&tls.Config{Certificates: []tls.Certificate{vfC11QTLSCert()}, NextProtos: []string{"vf-c11"}}, qc())
		if err != nil {
			res.Err = "listen: " + err.Error()
			closeAll()
			return
		}
		ctx, cancel := context.WithTimeout(context.Background(), 300*time.Second) // virtual
		defer cancel()
		var wg sync.WaitGroup
		var received, doneAt, startAt, upDone, uploaded, upEnd atomic.Int64
		var cliConn atomic.Pointer[quic.Conn]
		var cliErr atomic.Value
		wg.Add(1)
		go func() { // client
			defer wg.Done()
			conn, err := cTr.Dial(ctx, srvAddr, &tls.Config{InsecureSkipVerify: true, ServerName: "verif-c11", NextProtos: []string{"vf-c11"}}, qc())
			if err != nil {
				cliErr.Store("dial: " + err.Error())
				return
			}
			cliConn.Store(conn)
			if c.Upstream {
				wg.Add(1)
				go func() {
					defer wg.Done()
					st, err := conn.OpenUniStreamSync(ctx)
					if err != nil {
						return
					}
					buf := make([]byte, 900)
					for doneAt.Load() == 0 {
						if _, err := st.Write(buf); err != nil {
							return
						}
						time.Sleep(4 * time.Millisecond)
					}
					_ = st.Close()
				}()
			}
			if c.Upload > 0 {
				wg.Add(1)
				go func() {
					defer wg.Done()
					defer upDone.Store(1)
					st, err := conn.OpenUniStreamSync(ctx)
					if err != nil {
						return
					}
					buf := make([]byte, 32<<10)
					for sent := int64(0); sent < c.Upload; sent += int64(len(buf)) {
						if _, err := st.Write(buf); err != nil {
							return
						}
					}
					_ = st.Close()
				}()
			}
			st, err := conn.AcceptUniStream(ctx)
			if err != nil {
				cliErr.Store("accept stream: " + err.Error())
				doneAt.Store(time.Now().UnixNano())
				return
			}
			buf := make([]byte, 64<<10)
			for {
				n, err := st.Read(buf)
				received.Add(int64(n))
				if err != nil {
					if err != io.EOF {
						cliErr.Store("read: " + err.Error())
					}
					break
				}
			}
			doneAt.Store(time.Now().UnixNano())
		}()
		func() { // server
			sconn, err := ln.Accept(ctx)
			if err != nil {
				res.Err = "accept: " + err.Error()
				return
			}
			// exactly what congestion.UseBrutal does, with the monitor around the sender
			mon = &vfC11Mon{BrutalSender: NewBrutalSender(c.Bps, c.NoComp), k: k, c: c, mds: vfC11DefaultMDS,
				model: vfC11NewAckModel(c.NoComp), MinFactor: 1, env: vfC11NewEnvelope(c.Bps, vfC11MaxMTU)}
			sconn.SetCongestionControl(mon)
			startAt.Store(time.Now().UnixNano())
			for i := 0; i < vfC11B2I(c.Upstream)+vfC11B2I(c.Upload > 0); i++ {
				wg.Add(1)
				go func() {
					defer wg.Done()
					st, err := sconn.AcceptUniStream(ctx)
					if err != nil {
						return
					}
					n, _ := io.Copy(io.Discard, st)
					uploaded.Add(n)
					upEnd.Store(time.Now().UnixNano())
				}()
			}
			st, err := sconn.OpenUniStreamSync(ctx)
			if err != nil {
				res.Err = "open stream: " + err.Error()
				return
			}
			chunk := make([]byte, 32<<10)
			for sent := int64(0); sent < c.Bytes; {
				n := min(int64(len(chunk)), c.Bytes-sent)
				if _, err := st.Write(chunk[:n]); err != nil {
					res.Err = "write: " + err.Error()
					break
				}
				sent += n
			}
			_ = st.Close()
			for (doneAt.Load() == 0 || (c.Upload > 0 && (upDone.Load() == 0 || uploaded.Load() < c.Upload))) && ctx.Err() == nil {
				time.Sleep(10 * time.Millisecond)
			}
			time.Sleep(200 * time.Millisecond) // let the last ACKs arrive
			_ = sconn.CloseWithError(0, "")
		}()
		if doneAt.Load() == 0 {
			doneAt.Store(time.Now().UnixNano())
		}
		if cc := cliConn.Load(); cc != nil {
			_ = cc.CloseWithError(0, "")
		}
		_ = ln.Close()
		cancel()
		closeAll()
		wg.Wait()
		if e, _ := cliErr.Load().(string); e != "" && res.Err == "" {
			res.Err = e
		}
		res.Received = received.Load()
		res.Uploaded = uploaded.Load()
		if s, e := startAt.Load(), upEnd.Load(); s != 0 && e != 0 {
			res.UploadS = float64(e-s) / 1e9
		}
		if s := startAt.Load(); s != 0 {
			res.VirtualS = float64(doneAt.Load()-s) / 1e9
		}
		res.QueueDrops, res.LossDrops, res.MTUDrops = rt.QueueDrops.Load(), rt.LossDrops.Load(), rt.MTUDrops.Load()
	})
	k.Eval()
	if res.VirtualS > 0 {
		res.Goodput = float64(res.Received) / res.VirtualS
	}
	if mon != nil {
		mon.mu.Lock()
		res.Calls, res.Events, res.Sent, res.AckOnly = mon.Calls, mon.Events, mon.Sent, mon.AckOnly
		res.PacingLimited, res.Announced, res.AnnouncedHonoured = mon.PacingLimited, mon.Announced, mon.AnnouncedHonoured
		res.MTUEvents, res.FinalMDS, res.MinFactor = mon.MTUEvents, mon.mds, mon.MinFactor
		res.Released, res.ReleasedAckOnly = mon.Released, mon.ReleasedAckOnly
		mon.mu.Unlock()
		k.Count("ev_real_quic_monitored_calls", res.Calls)
		k.Count("real_quic_pacing_limited", res.PacingLimited)
		k.Count("ev_real_quic_announcements_checked", res.Announced)
		k.Count("ev_real_quic_wakeups_checked", res.AnnouncedHonoured)
		k.Count("real_quic_ack_only_packets", res.AckOnly)
		k.Count("ev_real_quic_gate_released_packets", res.Released)
		k.Count("real_quic_gate_released_not_ack_eliciting", res.ReleasedAckOnly)
		k.Count("real_quic_datagram_size_changes", res.MTUEvents)
		if res.MinFactor < 1 {
			k.Count("real_quic_runs_with_factor_below_1", 1)
		}
	}
	k.Count("real_quic_bytes_received", res.Received)
	k.Count("real_quic_queue_drops", res.QueueDrops)
	k.Count("real_quic_loss_drops", res.LossDrops)
	if res.Err != "" || res.Received != c.Bytes || res.Uploaded < c.Upload {
		if mon == nil || !mon.failed {
			k.Inconclusive(fmt.Sprintf("%s: transfer incomplete (%d of %d bytes, err=%q)", c.CaseID, res.Received, c.Bytes, res.Err))
		}
	} else {
		k.Count("real_quic_transfers_completed", 1)
		if (res.Announced >= 20 && res.Events >= 50) || (c.Upload > 0 && res.ReleasedAckOnly >= 200) {
			k.Nontrivial(fmt.Sprintf("%+v", c))
		}
	}
	k.Sample(res)
}

// TestVerifC11RealQUIC: Brutal rates x bottlenecks above / just below / far below the rate.
func TestVerifC11RealQUIC(t *testing.T) {
	k := vfNewKit(t, "C11", "brutal-real-quic")
	defer k.Finish()
	k.maxSamples = 12
	rates := []uint64{300_000, 1_000_000, 4_000_000, 12_000_000}
	links := []struct {
		name  string
		ratio float64 // capacity / brutal rate
	}{{"roomy", 2.0}, {"tight", 0.92}, {"starved", 0.6}}
	variants := k.N(1, 6)
	// the server mostly receives: a slow Brutal sender whose output is almost only ACK-only packets
	for v := 0; v < variants; v++ {
		for ui, bps := range []uint64{65_536, 100_000} {
			id := fmt.Sprintf("quic-upload-%d-v%d", bps, v)
			if rc := k.ReplayCase(); rc != "" && rc != id {
				continue
			}
			c := vfC11QCase{CaseID: id, Bps: bps, CapBps: 10_000_000, OneWayMs: []int64{1, 2, 1}[(ui+v)%3],
				QueueBytes: 500_000, Bytes: 2 << 10, Upload: int64(8+2*((ui+v)%3)) << 20, NoComp: v%2 == 1}
			vfC11RunQUIC(t, k, c)
		}
	}
	for v := 0; v < variants; v++ {
		for ri, bps := range rates {
			for li, l := range links {
				id := fmt.Sprintf("quic-%d-%s-v%d", bps, l.name, v)
				if rc := k.ReplayCase(); rc != "" && rc != id {
					continue
				}
				r := k.Rand(id)
				c := vfC11QCase{CaseID: id, Bps: bps, CapBps: int64(float64(bps) * l.ratio),
					OneWayMs: []int64{5, 20, 50, 120}[(ri+li+v)%4], NoComp: v%3 == 2 && li == 1,
					PathMTU: []int{0, 1400, 1452, 1330}[(ri+2*li+v)%4], Upstream: (ri+li+v)%2 == 0}
				c.QueueBytes = max(c.CapBps*2*c.OneWayMs/1000, 30_000)
				if v > 0 {
					c.LossPPM = []int{0, 5_000, 30_000, 120_000}[r.Intn(4)]
					c.QueueBytes = max(c.QueueBytes/int64(1+r.Intn(4)), 15_000)
				}
				c.Bytes = min(max(int64(float64(c.CapBps)*6), 1<<20), 12<<20) // ~6 virtual seconds: the 5-slot window rolls
				vfC11RunQUIC(t, k, c)
			}
		}
	}
}
