//go:build verif

package common

// C11 (pacer-only part) — the token bucket under a bandwidth that moves anywhere inside
// [bps, bps/0.8] at arbitrary moments (what a loss-compensation factor in [0.8, 1] can do to it),
// driven by the same send-loop discipline as quic-go: gate on Budget(now) >= datagram size, send,
// on a closed gate sleep until TimeUntilSend().
//
// Oracles (from the statement):
//   envelope   over EVERY interval of the log of gate-released packets:
//              bytes <= B + (bps/0.8)*interval, B = max(4 ms * bps/0.8, 10 * MTUmax) + MTUmax.
//   progress   gate closed  =>  TimeUntilSend() is non-zero and strictly after now, and at that time
//              (no send / bandwidth change / MTU change in between) Budget >= one full datagram.
//   rate floor (observed only, counter obs_saturated_rate_below_bandwidth) a saturated loop (always data, woken exactly at the announced times) moves at least
//              bps * elapsed bytes, minus one datagram and integer rounding.
//   sanity     Budget is never negative.

import (
	"fmt"
	"math"
	"math/rand"
	"testing"
	"time"

	"github.com/apernet/quic-go/congestion"
	"github.com/apernet/quic-go/monotime"
)

const (
	vfC11pMinMTU     = 1200
	vfC11pMaxMTU     = 1500
	vfC11pDefaultMDS = 1280
	vfC11pMinRate    = 65536
	vfC11pMaxRate    = 5_000_000_000
)

type vfC11pEnvelope struct {
	ratePerNs, burst float64
	t0, cum          int64
	n                int
	minPot           float64
	minT, minCum     int64
	minIdx           int
}

func vfC11pNewEnvelope(bps uint64, mtuMax int64) vfC11pEnvelope {
	r := float64(bps) / 0.8
	return vfC11pEnvelope{ratePerNs: r / 1e9, burst: math.Max(r*0.004, float64(10*mtuMax)) + float64(mtuMax)}
}

func (e *vfC11pEnvelope) send(t, bytes int64) string {
	if e.n == 0 {
		e.t0 = t
	}
	x := e.ratePerNs * float64(t-e.t0)
	pot := float64(e.cum) - x
	if e.n == 0 || pot < e.minPot {
		e.minPot, e.minT, e.minCum, e.minIdx = pot, t, e.cum, e.n
	}
	e.cum += bytes
	e.n++
	if excess := float64(e.cum) - x - e.minPot - e.burst; excess > 0.01 {
		return fmt.Sprintf("packets #%d..#%d: %d bytes in [%d ns, %d ns] (%d ns) > burst %.0f + rate %.3f B/s * interval = %.1f (excess %.1f bytes)",
			e.minIdx, e.n-1, e.cum-e.minCum, e.minT, t, t-e.minT, e.burst, e.ratePerNs*1e9,
			e.burst+e.ratePerNs*float64(t-e.minT), excess)
	}
	return ""
}

type vfC11pParams struct {
	CaseID  string `json:"case_id"`
	Bps     uint64 `json:"bps"`
	SetMDS  int64  `json:"initial_set_max_datagram_size"` // 0: pacer default 1280
	RaiseTo int64  `json:"later_max_datagram_size"`       // 0: never raised
	StartNs int64  `json:"clock_start_ns"`
	Steps   int    `json:"step_budget"`
	BwMode  int    `json:"bandwidth_mode"` // 0 fixed bps, 1 fixed bps/0.8, 2 jumps, 3 frequent jumps
}

type vfC11pEv struct {
	Kind string `json:"k"`
	T    int64  `json:"t_ns"`
	A    int64  `json:"a"`
	B    int64  `json:"b"`
}

func vfC11pPickRate(r *rand.Rand) uint64 {
	switch r.Intn(12) {
	case 0:
		return []uint64{vfC11pMinRate, vfC11pMinRate + 1, 100_000, 1_000_000, 12_500_000, 125_000_000, 1_250_000_000, vfC11pMaxRate}[r.Intn(8)]
	case 1, 2, 3:
		return uint64(vfC11pMinRate + r.Int63n(1_500_000-vfC11pMinRate))
	}
	lo, hi := math.Log(vfC11pMinRate), math.Log(vfC11pMaxRate)
	v := uint64(math.Exp(lo + r.Float64()*(hi-lo)))
	if v < vfC11pMinRate {
		v = vfC11pMinRate
	}
	if v > vfC11pMaxRate {
		v = vfC11pMaxRate
	}
	return v
}

func TestVerifC11Pacer(t *testing.T) {
	k := vfNewKit(t, "C11", "pacer-loop")
	defer k.Finish()
	n := k.N(800, 60000)
	for i := 0; i < n; i++ {
		id := fmt.Sprintf("pacer-%d", i)
		if rc := k.ReplayCase(); rc != "" && rc != id {
			continue
		}
		r := k.Rand(id)
		p := vfC11pParams{CaseID: id, Bps: vfC11pPickRate(r), StartNs: int64(time.Hour) + r.Int63n(int64(10*time.Second)), BwMode: r.Intn(4)}
		if r.Intn(3) != 0 {
			p.SetMDS = vfC11pMinMTU + r.Int63n(vfC11pMaxMTU-vfC11pMinMTU+1)
		}
		mds := int64(vfC11pDefaultMDS)
		if p.SetMDS != 0 {
			mds = p.SetMDS
		}
		if r.Intn(3) == 0 && mds < vfC11pMaxMTU {
			p.RaiseTo = mds + 1 + r.Int63n(vfC11pMaxMTU-mds)
		}
		burstPkts := int(math.Max(float64(p.Bps)/0.8*0.004, 12000) / 1200)
		p.Steps = 2000 + 4*burstPkts
		if lim := k.N(50000, 100000); p.Steps > lim {
			p.Steps = lim
		}
		k.Eval()
		vfC11pRun(k, p, r, i < 3)
	}
}

func vfC11pRun(k *vfKit, p vfC11pParams, r *rand.Rand, sample bool) {
	bw := int64(p.Bps)
	bwHi := int64(float64(p.Bps) / 0.8)
	if p.BwMode == 1 {
		bw = bwHi
	}
	pc := NewPacer(func() congestion.ByteCount { return congestion.ByteCount(bw) })
	mds, mdsMax := int64(vfC11pDefaultMDS), int64(vfC11pDefaultMDS)
	if p.SetMDS != 0 {
		pc.SetMaxDatagramSize(congestion.ByteCount(p.SetMDS))
		mds = p.SetMDS
		if mds > mdsMax {
			mdsMax = mds
		}
	}
	if p.RaiseTo > mdsMax {
		mdsMax = p.RaiseTo
	}
	env := vfC11pNewEnvelope(p.Bps, mdsMax)
	maxGap := int64((uint64(1)<<63-1)/p.Bps) - 1
	if maxGap > 12*int64(time.Hour) {
		maxGap = 12 * int64(time.Hour)
	}
	now, lastSend := p.StartNs, int64(0)
	var epoch, cumAll, nSends int64
	var ring [40]vfC11pEv
	ringN := 0
	note := func(kind string, a, b int64) {
		ring[ringN%len(ring)] = vfC11pEv{kind, now, a, b}
		ringN++
	}
	replay := func() any {
		c := ringN
		if c > len(ring) {
			c = len(ring)
		}
		tail := make([]vfC11pEv, 0, c)
		for i := ringN - c; i < ringN; i++ {
			tail = append(tail, ring[i%len(ring)])
		}
		return map[string]any{"case_id": p.CaseID, "params": p, "now_ns": now, "bandwidth": bw, "datagram_size": mds, "last_events(kind,t,a,b)": tail}
	}
	// bandwidth changes / MTU raise happen at harness-chosen instants ("events")
	nextEv := int64(math.MaxInt64)
	schedEv := func() {
		switch p.BwMode {
		case 2:
			nextEv = now + 1 + r.Int63n(int64(400*time.Millisecond))
		case 3:
			nextEv = now + 1 + r.Int63n(int64(3*time.Millisecond))
		default:
			if p.RaiseTo != 0 && mds < p.RaiseTo {
				nextEv = now + 1 + r.Int63n(int64(200*time.Millisecond))
			} else {
				nextEv = math.MaxInt64
			}
		}
	}
	schedEv()
	doEv := func() {
		epoch++
		if p.RaiseTo != 0 && mds < p.RaiseTo && r.Intn(4) == 0 {
			mds = p.RaiseTo
			pc.SetMaxDatagramSize(congestion.ByteCount(mds))
			note("mtu-raised", mds, 0)
		} else if p.BwMode >= 2 {
			switch r.Intn(4) {
			case 0:
				bw = int64(p.Bps)
			case 1:
				bw = bwHi
			default:
				bw = int64(p.Bps) + r.Int63n(bwHi-int64(p.Bps)+1)
			}
			note("bandwidth", bw, 0)
		}
		k.Count("ev_bandwidth_or_mtu_events", 1)
		schedEv()
	}
	var satValid bool
	var satT, satCum, satN int64
	backlog := 1 + r.Intn(3000)
	sawGate := false
	failed := false
	advance := func(target int64) {
		t := target
		if nextEv < t {
			t = nextEv
		}
		if lastSend != 0 && t-lastSend > maxGap {
			// stay inside the statement's range (rate x gap fits 63 bits): something small goes out
			t = lastSend + maxGap
			now = t
			sz := 25 + r.Int63n(56)
			pc.SentPacket(monotime.Time(now), congestion.ByteCount(sz))
			cumAll += sz
			lastSend = now
			epoch++
			satValid = false
			note("small-ungated-packet", sz, 0)
			return
		}
		if t < now {
			k.t.Fatalf("C11 pacer harness bug: clock backwards")
		}
		now = t
	}
	for step := 0; step < p.Steps && !failed; step++ {
		if nextEv <= now {
			doEv()
			continue
		}
		bud := int64(pc.Budget(monotime.Time(now)))
		k.Count("ev_budget_reads", 1)
		if bud < 0 {
			k.Violation("pacer:negative-budget", replay(), "Budget(%d) = %d", now, bud)
			return
		}
		switch {
		case bud < mds: // gate closed
			sawGate = true
			k.Count("ev_gate_closed", 1)
			if lastSend == now {
				// checkpoint of the saturated stretch: bucket below one datagram right after a send
				if !satValid {
					satValid, satT, satCum, satN = true, now, cumAll, 0
				} else if el := now - satT; el > 0 {
					need := float64(p.Bps) * float64(el) / 1e9
					slack := float64(mdsMax) + float64(satN) + 2
					k.Count("ev_saturated_rate_checks", 1)
					if got := float64(cumAll - satCum); got < need-slack {
						// observation only, see brutal harness: a lower bound on the rate is not in C11's statement
						k.Count("obs_saturated_rate_below_bandwidth", 1)
					}
				}
			}
			T := int64(pc.TimeUntilSend())
			note("gate-closed,announced", T, T-now)
			if T == 0 || T <= now {
				k.Violation("pacer:gate-closed-but-no-future-wakeup", replay(), "Budget(%d)=%d < datagram %d but TimeUntilSend() = %d (zero or not after now)", now, bud, mds, T)
				return
			}
			if lastSend != 0 && T-lastSend < int64(time.Millisecond) {
				k.Count("obs_wakeup_sooner_than_1ms_after_last_packet", 1)
			}
			ep, at := epoch, now
			target := T
			if r.Intn(10) < 3 {
				target += r.Int63n(int64(2 * time.Millisecond))
			}
			advance(target)
			if now > T {
				satValid = false
			}
			if now >= T && epoch == ep {
				k.Count("ev_announced_time_checked", 1)
				if b2 := int64(pc.Budget(monotime.Time(T))); b2 < mds {
					k.Violation("pacer:no-budget-at-announced-time", replay(),
						"gate closed at %d ns (budget %d, datagram %d, bandwidth %d B/s, last packet at %d ns); pacer announced %d ns; nothing happened in between, yet Budget(%d) = %d",
						at, bud, mds, bw, lastSend, T, T, b2)
					return
				}
			}
		case backlog == 0:
			satValid = false
			var g int64
			switch r.Intn(10) {
			case 0, 1, 2:
				g = r.Int63n(int64(time.Millisecond))
			case 3, 4, 5:
				g = r.Int63n(int64(100 * time.Millisecond))
			case 6, 7:
				g = r.Int63n(int64(3 * time.Second))
			case 8:
				g = r.Int63n(int64(20 * time.Second))
			default:
				g = maxGap - r.Int63n(maxGap/8+1)
			}
			wake := now + g
			for evs := 0; now < wake; {
				if nextEv <= now {
					doEv()
					if evs++; evs >= 4 && nextEv < wake {
						nextEv = wake // a long silence: no need to replay thousands of bandwidth jumps
					}
					continue
				}
				advance(wake)
			}
			switch r.Intn(3) {
			case 0:
				backlog = 1 + r.Intn(40)
			case 1:
				backlog = 1 + r.Intn(2000)
			default:
				backlog = 3*int(math.Max(float64(bwHi)*0.004, float64(10*mds))/float64(mds)) + 200 + r.Intn(2000)
			}
			note("app-data", int64(backlog), 0)
		default: // gate open, data waiting
			size := mds
			if r.Intn(7) == 0 {
				size = 40 + r.Int63n(mds-39)
			}
			pc.SentPacket(monotime.Time(now), congestion.ByteCount(size))
			k.Count("ev_paced_sends", 1)
			cumAll += size
			lastSend = now
			epoch++
			satN++
			nSends++
			backlog--
			note("sent", size, bud)
			if msg := env.send(now, size); msg != "" {
				k.Violation("pacer:envelope-exceeded", replay(), "base rate %d B/s: %s", p.Bps, msg)
				return
			}
		}
	}
	if sawGate {
		k.Nontrivial(fmt.Sprintf("%+v", p))
	}
	if sample {
		k.Sample(map[string]any{"params": p, "paced_packets": nSends, "bytes": cumAll, "virtual_span_ns": now - p.StartNs})
	}
}
