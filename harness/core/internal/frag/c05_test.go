//go:build verif

package frag

// C05 — UDP fragmentation is all-or-nothing and size-bounded.
//
// Monitors (see DESIGN.md §3 C05):
//   split:       FragUDPMessage over a boundary grid + random points; every fragment's
//                serialized size <= limit, count <= 255 (or nil), concat == payload.
//   reassemble:  fragments go through Serialize -> ParseUDPMessage (the wire path) and are
//                fed to one Defragger in every permutation (<=5 frags) / random orders with
//                duplicates; exactly one emission, byte-identical to the original.
//   interleave:  2..4 messages with distinct packet IDs, random drops/dups/orders into one
//                Defragger; every emission must equal one sent message byte-for-byte.

import (
	"bytes"
	"encoding/binary"
	"fmt"
	"math/rand"
	"sort"
	"testing"

	"github.com/apernet/hysteria/core/v2/internal/protocol"
)

type vfFragCase struct {
	CaseID  string `json:"case_id"`
	Payload int    `json:"payload_len"`
	AddrLen int    `json:"addr_len"`
	Limit   int    `json:"limit"`
}

// vfCodedPayload makes payload bytes that encode (message id, offset) so that any
// mixing of two messages or reordering inside one is visible.
func vfCodedPayload(msgID uint32, n int) []byte {
	b := make([]byte, n)
	var w [8]byte
	for off := 0; off < n; off += 8 {
		binary.BigEndian.PutUint32(w[:4], msgID)
		binary.BigEndian.PutUint32(w[4:], uint32(off))
		copy(b[off:], w[:])
	}
	return b
}

func vfAddr(n int, salt int) string {
	const al = "abcdefghijklmnopqrstuvwxyz0123456789.-"
	b := make([]byte, n)
	for i := range b {
		b[i] = al[(i*7+salt)%len(al)]
	}
	if n >= 3 {
		b[n-2] = ':'
		b[n-1] = '1'
	}
	return string(b)
}

func vfHeaderSize(addrLen int) int {
	v := 1
	switch {
	case addrLen > 1073741823:
		v = 8
	case addrLen > 16383:
		v = 4
	case addrLen > 63:
		v = 2
	}
	return 8 + v + addrLen
}

// vfWire sends a fragment over the "wire": serialize into an exact-size buffer and parse back.
func vfWire(k *vfKit, c vfFragCase, f *protocol.UDPMessage, limit int) (*protocol.UDPMessage, bool) {
	buf := make([]byte, f.Size())
	n := f.Serialize(buf)
	if n != f.Size() {
		k.Violation("frag:serialize-size", c, "Serialize returned %d, Size()=%d", n, f.Size())
		return nil, false
	}
	if n > limit {
		k.Violation("frag:fragment-over-limit", c, "fragment %d/%d serializes to %d bytes > limit %d", f.FragID, f.FragCount, n, limit)
		return nil, false
	}
	p, err := protocol.ParseUDPMessage(buf[:n:n])
	if err != nil {
		k.Violation("frag:fragment-unparsable", c, "fragment %d/%d does not parse: %v", f.FragID, f.FragCount, err)
		return nil, false
	}
	return p, true
}

func vfSameMsg(a *protocol.UDPMessage, sid uint32, addr string, payload []byte) bool {
	return a.SessionID == sid && a.Addr == addr && bytes.Equal(a.Data, payload)
}

// vfSplitAndCheck runs the split oracle for one grid point. Returns the fragments as seen
// on the wire (nil if the message is legitimately not sent).
func vfSplitAndCheck(k *vfKit, c vfFragCase, sid uint32, pid uint16) ([]*protocol.UDPMessage, string, []byte) {
	addr := vfAddr(c.AddrLen, c.Payload)
	payload := vfCodedPayload(uint32(pid)<<8|sid&0xff, c.Payload)
	orig := append([]byte(nil), payload...)
	m := &protocol.UDPMessage{SessionID: sid, PacketID: pid, FragID: 0, FragCount: 1, Addr: addr, Data: payload}
	hdr := vfHeaderSize(c.AddrLen)
	if m.HeaderSize() != hdr {
		k.Violation("frag:header-size", c, "HeaderSize()=%d, reference %d", m.HeaderSize(), hdr)
	}
	var frags []protocol.UDPMessage
	if k.Guard("frag:FragUDPMessage-panic", c, func() { frags = FragUDPMessage(m, c.Limit) }) {
		return nil, addr, orig
	}
	k.Count("ev_split_calls", 1)
	if !bytes.Equal(payload, orig) {
		k.Violation("frag:split-mutates-input", c, "FragUDPMessage changed the caller's payload")
	}
	budget := c.Limit - hdr
	fits := hdr+c.Payload <= c.Limit
	needed := 0
	if budget > 0 {
		needed = (c.Payload + budget - 1) / budget
	}
	if frags == nil {
		k.Count("ev_split_nil", 1)
		if fits {
			k.Violation("frag:fitting-message-dropped", c, "message of %d bytes fits limit %d but was not sent", hdr+c.Payload, c.Limit)
		}
		return nil, addr, orig
	}
	if len(frags) == 0 {
		// an empty non-nil list sends nothing: same as discarded
		k.Count("ev_split_nil", 1)
		return nil, addr, orig
	}
	if len(frags) > 255 {
		k.Violation("frag:more-than-255-fragments", c, "%d fragments produced", len(frags))
		return nil, addr, orig
	}
	if budget > 0 && !fits && needed > 255 {
		k.Violation("frag:oversized-message-sent", c, "message needs %d fragments (>255) but %d were produced instead of discarding it", needed, len(frags))
		return nil, addr, orig
	}
	if fits && len(frags) != 1 {
		k.Count("ev_split_unneeded", 1) // allowed by the statement, just recorded
	}
	var cat []byte
	wire := make([]*protocol.UDPMessage, 0, len(frags))
	for i := range frags {
		f := &frags[i]
		if int(f.FragCount) != len(frags) && !(len(frags) == 1 && f.FragCount <= 1) {
			k.Violation("frag:count-field-wrong", c, "fragment %d carries FragCount=%d but %d fragments were produced", i, f.FragCount, len(frags))
			return nil, addr, orig
		}
		if len(frags) > 1 && int(f.FragID) != i {
			k.Violation("frag:id-field-wrong", c, "fragment at index %d carries FragID=%d", i, f.FragID)
			return nil, addr, orig
		}
		if f.SessionID != sid || f.PacketID != m.PacketID || f.Addr != addr {
			k.Violation("frag:header-altered", c, "fragment %d header differs from the message's", i)
			return nil, addr, orig
		}
		if len(frags) > 1 && len(f.Data) == 0 {
			k.Violation("frag:empty-fragment", c, "fragment %d has no data", i)
			return nil, addr, orig
		}
		cat = append(cat, f.Data...)
		p, ok := vfWire(k, c, f, c.Limit)
		if !ok {
			return nil, addr, orig
		}
		wire = append(wire, p)
	}
	if !bytes.Equal(cat, orig) {
		k.Violation("frag:concat-differs", c, "concatenation of %d fragments (%d bytes) != payload (%d bytes)", len(frags), len(cat), len(orig))
		return nil, addr, orig
	}
	k.Count("ev_fragments", int64(len(frags)))
	if len(frags) > 1 {
		k.Count("ev_split_multi", 1)
	}
	return wire, addr, orig
}

func vfCopyMsg(m *protocol.UDPMessage) *protocol.UDPMessage {
	c := *m
	c.Data = append([]byte(nil), m.Data...)
	return &c
}

// vfFeedOrder feeds the fragments in the given order (indices may repeat) to a fresh
// Defragger and checks: nothing is emitted before every distinct fragment was seen, exactly
// one emission overall, and it equals the original.
func vfFeedOrder(k *vfKit, c vfFragCase, wire []*protocol.UDPMessage, order []int, sid uint32, addr string, orig []byte) {
	d := &Defragger{}
	seen := map[int]bool{}
	emitted := 0
	rep := map[string]any{"case_id": c.CaseID, "case": c, "order": order}
	for step, idx := range order {
		seen[idx] = true
		var out *protocol.UDPMessage
		if k.Guard("frag:Feed-panic", rep, func() { out = d.Feed(vfCopyMsg(wire[idx])) }) {
			return
		}
		k.Count("ev_feed", 1)
		if out == nil {
			continue
		}
		emitted++
		if len(seen) < len(wire) {
			k.Violation("frag:emitted-before-complete", rep, "emission at step %d after only %d of %d distinct fragments", step, len(seen), len(wire))
			return
		}
		if !vfSameMsg(out, sid, addr, orig) {
			k.Violation("frag:reassembly-differs", rep, "reassembled message differs from the original (len %d vs %d)", len(out.Data), len(orig))
			return
		}
	}
	if len(seen) == len(wire) && emitted != 1 {
		k.Violation("frag:complete-set-emissions", rep, "complete fragment set in order %v emitted %d times (want exactly 1)", order, emitted)
	}
	if emitted == 1 {
		k.Count("ev_reassembled", 1)
	}
}

func vfPermutations(n int, f func([]int)) {
	p := make([]int, n)
	for i := range p {
		p[i] = i
	}
	var rec func(int)
	rec = func(i int) {
		if i == n {
			f(append([]int(nil), p...))
			return
		}
		for j := i; j < n; j++ {
			p[i], p[j] = p[j], p[i]
			rec(i + 1)
			p[i], p[j] = p[j], p[i]
		}
	}
	rec(0)
}

func vfRandOrder(r *rand.Rand, n int, dups int) []int {
	o := r.Perm(n)
	for i := 0; i < dups; i++ {
		pos := r.Intn(len(o) + 1)
		v := r.Intn(n)
		o = append(o[:pos], append([]int{v}, o[pos:]...)...)
	}
	return o
}

func TestVerifC05Split(t *testing.T) {
	k := vfNewKit(t, "C05", "frag-split")
	defer k.Finish()
	r := k.Rand("grid")

	limits := []int{1, 8, 11, 12, 13, 22, 100, 1200, 1252, 1452, 2048, 65535}
	addrLens := []int{1, 3, 63, 64, 255, 2048}
	var cases []vfFragCase
	for _, lim := range limits {
		for _, al := range addrLens {
			hdr := vfHeaderSize(al)
			b := lim - hdr
			sizes := map[int]bool{1: true, 2: true, 65535: true, 4096: true}
			if b > 0 {
				for _, mul := range []int{1, 2, 3, 5, 254, 255, 256, 257} {
					for _, d := range []int{-1, 0, 1} {
						sizes[mul*b+d] = true
					}
				}
			} else {
				sizes[100] = true
			}
			// points around hdr itself (limit at or below the header size)
			sizes[lim] = true
			ks := make([]int, 0, len(sizes))
			for s := range sizes {
				if s >= 1 && s <= 65535 {
					ks = append(ks, s)
				}
			}
			sort.Ints(ks)
			for _, s := range ks {
				cases = append(cases, vfFragCase{Payload: s, AddrLen: al, Limit: lim})
			}
		}
	}
	// limits right at the header size for each address length
	for _, al := range addrLens {
		hdr := vfHeaderSize(al)
		for _, lim := range []int{hdr - 1, hdr, hdr + 1, hdr + 2} {
			for _, s := range []int{1, 2, 254, 255, 256, 257, 600, 65535} {
				cases = append(cases, vfFragCase{Payload: s, AddrLen: al, Limit: lim})
			}
		}
	}
	nr := k.N(3000, 60000)
	for i := 0; i < nr; i++ {
		al := 1 + r.Intn(300)
		if r.Intn(10) == 0 {
			al = 1 + r.Intn(2048)
		}
		lim := vfHeaderSize(al) - 2 + r.Intn(1500)
		if lim < 1 {
			lim = 1
		}
		s := 1 + r.Intn(65535)
		if r.Intn(2) == 0 {
			s = 1 + r.Intn(4096)
		}
		cases = append(cases, vfFragCase{Payload: s, AddrLen: al, Limit: lim})
	}

	for i := range cases {
		c := &cases[i]
		c.CaseID = fmt.Sprintf("split-%d", i)
		if rc := k.ReplayCase(); rc != "" && rc != c.CaseID {
			continue
		}
		k.Eval()
		sid := uint32(0x1000 + i)
		pid := uint16(1 + i%0xFFFF)
		wire, addr, orig := vfSplitAndCheck(k, *c, sid, pid)
		if wire == nil {
			continue
		}
		if len(wire) > 1 {
			k.Nontrivial(fmt.Sprintf("%d/%d/%d", c.Payload, c.AddrLen, c.Limit))
			if i%97 == 0 {
				k.Sample(map[string]any{"case": c, "fragments": len(wire)})
			}
		}
		// in-order and reverse-order reassembly of every split message
		n := len(wire)
		fwd := make([]int, n)
		rev := make([]int, n)
		for j := 0; j < n; j++ {
			fwd[j] = j
			rev[j] = n - 1 - j
		}
		vfFeedOrder(k, *c, wire, fwd, sid, addr, orig)
		if n > 1 {
			vfFeedOrder(k, *c, wire, rev, sid, addr, orig)
			vfFeedOrder(k, *c, wire, vfRandOrder(r, n, 1+r.Intn(3)), sid, addr, orig)
		}
	}
}

func TestVerifC05Reassemble(t *testing.T) {
	k := vfNewKit(t, "C05", "frag-reassemble")
	defer k.Finish()
	r := k.Rand("perm")
	caseNo := 0
	// every permutation for 2..5 fragments (with a last fragment of 1 byte, of full size, ...)
	for n := 2; n <= 5; n++ {
		for _, lastLen := range []int{1, 2, 50} {
			for _, al := range []int{3, 64} {
				budget := 50
				lim := vfHeaderSize(al) + budget
				c := vfFragCase{CaseID: fmt.Sprintf("perm-%d", caseNo), Payload: (n-1)*budget + lastLen, AddrLen: al, Limit: lim}
				caseNo++
				if rc := k.ReplayCase(); rc != "" && rc != c.CaseID {
					continue
				}
				sid, pid := uint32(7000+caseNo), uint16(100+caseNo)
				wire, addr, orig := vfSplitAndCheck(k, c, sid, pid)
				if len(wire) != n {
					if wire != nil {
						k.Violation("frag:count-not-ceil", c, "expected %d fragments for payload %d budget %d, got %d", n, c.Payload, budget, len(wire))
					}
					continue
				}
				vfPermutations(n, func(o []int) {
					k.Eval()
					k.Nontrivial(fmt.Sprintf("perm/%d/%d/%d/%v", n, lastLen, al, o))
					vfFeedOrder(k, c, wire, o, sid, addr, orig)
					// same permutation with one duplicate inserted at every position
					dupAt := r.Intn(len(o))
					od := append(append(append([]int(nil), o[:dupAt]...), o[r.Intn(len(o))]), o[dupAt:]...)
					vfFeedOrder(k, c, wire, od, sid, addr, orig)
				})
				if n == 3 && lastLen == 1 && al == 3 {
					k.Sample(map[string]any{"case": c, "permutations": "all 6, each also with one duplicate"})
				}
			}
		}
	}
	// random orders with duplicates for 6..255 fragments
	nr := k.N(400, 8000)
	for i := 0; i < nr; i++ {
		n := 6 + r.Intn(60)
		if i%10 == 0 {
			n = 200 + r.Intn(56) // up to 255
		}
		al := 1 + r.Intn(80)
		budget := 1 + r.Intn(200)
		last := 1 + r.Intn(budget)
		c := vfFragCase{CaseID: fmt.Sprintf("rand-%d", i), Payload: (n-1)*budget + last, AddrLen: al, Limit: vfHeaderSize(al) + budget}
		if c.Payload > 65535 {
			continue
		}
		if rc := k.ReplayCase(); rc != "" && rc != c.CaseID {
			continue
		}
		k.Eval()
		sid, pid := uint32(90000+i), uint16(1+r.Intn(0xFFFF))
		wire, addr, orig := vfSplitAndCheck(k, c, sid, pid)
		if wire == nil {
			continue
		}
		if len(wire) != n {
			k.Violation("frag:count-not-ceil", c, "expected %d fragments, got %d", n, len(wire))
			continue
		}
		o := vfRandOrder(r, n, r.Intn(2*n))
		k.Nontrivial(fmt.Sprintf("rand/%v/%v", c, o))
		vfFeedOrder(k, c, wire, o, sid, addr, orig)
		if i == 0 {
			k.Sample(map[string]any{"case": c, "order": o})
		}
		// incomplete: drop one fragment -> nothing may be emitted
		drop := r.Intn(n)
		d := &Defragger{}
		for _, idx := range o {
			if idx == drop {
				continue
			}
			if out := d.Feed(vfCopyMsg(wire[idx])); out != nil {
				k.Violation("frag:emitted-with-missing-fragment", map[string]any{"case_id": c.CaseID, "case": c, "order": o, "dropped": drop},
					"message emitted although fragment %d was never fed", drop)
				break
			}
		}
		k.Count("ev_incomplete_runs", 1)
	}
}

func TestVerifC05Interleave(t *testing.T) {
	k := vfNewKit(t, "C05", "frag-interleave")
	defer k.Finish()
	nr := k.N(3000, 80000)
	for i := 0; i < nr; i++ {
		caseID := fmt.Sprintf("il-%d", i)
		if rc := k.ReplayCase(); rc != "" && rc != caseID {
			continue
		}
		r := k.Rand(caseID)
		k.Eval()
		nm := 2 + r.Intn(3)
		type sent struct {
			sid  uint32
			pid  uint16
			addr string
			orig []byte
			wire []*protocol.UDPMessage
		}
		var msgs []sent
		pids := map[uint16]bool{}
		var script []map[string]any
		sameCount := r.Intn(2) == 0 // messages with the same fragment count are the hard case
		baseN := 2 + r.Intn(5)
		for j := 0; j < nm; j++ {
			var pid uint16
			for {
				pid = uint16(r.Intn(0x10000))
				if r.Intn(4) == 0 {
					pid = uint16(r.Intn(3)) // small ids, incl. 0 = the Defragger's zero state
				}
				if !pids[pid] {
					break
				}
			}
			pids[pid] = true
			n := baseN
			if !sameCount {
				n = 2 + r.Intn(6)
			}
			budget := 1 + r.Intn(40)
			al := 3 + r.Intn(20)
			c := vfFragCase{CaseID: caseID, Payload: (n-1)*budget + 1 + r.Intn(budget), AddrLen: al, Limit: vfHeaderSize(al) + budget}
			sid := uint32(r.Intn(3)) + 1
			wire, addr, orig := vfSplitAndCheck(k, c, sid, pid)
			if wire == nil {
				continue
			}
			msgs = append(msgs, sent{sid, pid, addr, orig, wire})
			script = append(script, map[string]any{"pid": pid, "sid": sid, "frags": len(wire), "payload": c.Payload})
		}
		if len(msgs) < 2 {
			continue
		}
		// build an arrival sequence: all fragments of all messages, shuffled, with drops and dups
		type arr struct{ m, f int }
		var seq []arr
		for mi, m := range msgs {
			for fi := range m.wire {
				if r.Intn(10) == 0 {
					continue // drop
				}
				seq = append(seq, arr{mi, fi})
				if r.Intn(6) == 0 {
					seq = append(seq, arr{mi, fi}) // duplicate
				}
			}
		}
		switch r.Intn(3) {
		case 0:
			r.Shuffle(len(seq), func(a, b int) { seq[a], seq[b] = seq[b], seq[a] })
		case 1: // mostly sequential with local swaps (realistic reordering)
			for s := 0; s+1 < len(seq); s++ {
				if r.Intn(3) == 0 {
					seq[s], seq[s+1] = seq[s+1], seq[s]
				}
			}
		case 2: // round robin between messages
			sort.SliceStable(seq, func(a, b int) bool { return seq[a].f < seq[b].f })
		}
		d := &Defragger{}
		order := make([][2]int, 0, len(seq))
		emissions := 0
		fedDistinct := make([]map[int]bool, len(msgs))
		for mi := range fedDistinct {
			fedDistinct[mi] = map[int]bool{}
		}
		rep := map[string]any{"case_id": caseID, "messages": script}
		for _, a := range seq {
			order = append(order, [2]int{a.m, a.f})
			fedDistinct[a.m][a.f] = true
			var out *protocol.UDPMessage
			rep["order"] = order
			if k.Guard("frag:Feed-panic", rep, func() { out = d.Feed(vfCopyMsg(msgs[a.m].wire[a.f])) }) {
				break
			}
			k.Count("ev_feed", 1)
			if out == nil {
				continue
			}
			emissions++
			match := -1
			for mi, m := range msgs {
				if vfSameMsg(out, m.sid, m.addr, m.orig) && out.PacketID == m.pid {
					match = mi
				}
			}
			if match < 0 {
				k.Violation("frag:emitted-unsent-payload", rep, "emitted a %d-byte payload (pid %d) that equals none of the %d messages sent", len(out.Data), out.PacketID, len(msgs))
				break
			}
			if len(fedDistinct[match]) < len(msgs[match].wire) {
				k.Violation("frag:emitted-before-complete", rep, "message %d emitted before all of its fragments arrived", match)
				break
			}
		}
		k.Count("ev_emissions", int64(emissions))
		k.Nontrivial(fmt.Sprintf("%v/%v", script, order))
		if i < 2 {
			k.Sample(map[string]any{"messages": script, "arrival_order(msg,frag)": order, "emissions": emissions})
		}
	}
}

// TestVerifC05Retain: what the reassembler hands out stays what it was. The receiver may keep a
// delivered payload (a relay queue, a batch) while later messages are reassembled by the same
// Defragger; each retained message, compared at the END of the sequence, must still be byte-identical
// (session, address, payload) to what was sent, and the fragments handed in must not have been altered.
func TestVerifC05Retain(t *testing.T) {
	k := vfNewKit(t, "C05", "frag-retain")
	defer k.Finish()
	nr := k.N(300, 6000)
	for i := 0; i < nr; i++ {
		caseID := fmt.Sprintf("rt-%d", i)
		if rc := k.ReplayCase(); rc != "" && rc != caseID {
			continue
		}
		r := k.Rand(caseID)
		k.Eval()
		nm := 2 + r.Intn(7)
		limit := 100 + r.Intn(1200)
		d := &Defragger{}
		type kept struct {
			sid  uint32
			addr string
			orig []byte
			out  *protocol.UDPMessage
		}
		var keptMsgs []kept
		var sizes []int
		for j := 0; j < nm; j++ {
			sid := uint32(1 + r.Intn(3))
			addr := vfAddr(8+r.Intn(20), j)
			n := 1 + r.Intn(4*limit)
			if r.Intn(3) == 0 {
				n = 1 + r.Intn(limit/2) // unfragmented ones in between
			}
			sizes = append(sizes, n)
			orig := vfCodedPayload(uint32(i*16+j), n)
			m := &protocol.UDPMessage{SessionID: sid, PacketID: uint16(1 + j + i%50000), FragID: 0, FragCount: 1, Addr: addr, Data: append([]byte(nil), orig...)}
			frags := FragUDPMessage(m, limit)
			var out *protocol.UDPMessage
			for fi := range frags {
				// through the wire: the receiver parses each datagram into fresh memory
				buf := make([]byte, protocol.MaxUDPSize)
				sz := frags[fi].Serialize(buf)
				if sz < 0 {
					continue
				}
				pm, err := protocol.ParseUDPMessage(append([]byte(nil), buf[:sz]...))
				if err != nil {
					continue
				}
				if o := d.Feed(pm); o != nil {
					out = o
				}
			}
			if out == nil {
				k.Count("ev_retain_not_delivered", 1)
				continue
			}
			keptMsgs = append(keptMsgs, kept{sid, addr, orig, out})
		}
		rep := map[string]any{"case_id": caseID, "limit": limit, "sizes": sizes}
		for j, km := range keptMsgs {
			k.Count("ev_retained_messages_checked", 1)
			if !vfSameMsg(km.out, km.sid, km.addr, km.orig) {
				first := 0
				for first < len(km.out.Data) && first < len(km.orig) && km.out.Data[first] == km.orig[first] {
					first++
				}
				k.Violation("frag:delivered-message-changed-afterwards", rep, "message %d of %d (%d bytes), still held by the receiver after the later messages were reassembled, now reads %d bytes differing from offset %d (session %d, addr %q)",
					j, len(keptMsgs), len(km.orig), len(km.out.Data), first, km.out.SessionID, km.out.Addr)
				break
			}
		}
		k.Nontrivial(fmt.Sprint(limit, sizes))
		if i == 0 {
			k.Sample(rep)
		}
	}
}
